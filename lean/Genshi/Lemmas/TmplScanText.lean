/-
  C04: text outside directives reaches the parsed stream verbatim (modulo the documented
  escapes): a template that is the escaped form of a `$`-free text parses to that text alone.
-/
import Genshi.Lemmas.TmplScanPrint
import Genshi.Lemmas.PyLex
namespace Genshi.Tmpl.Scan
open Genshi.Py.Lex (lex lexGo lexGo_text lexGo_end flush lex_expr Scannable textChunk)

theorem hasDollarBrace_free : ∀ (s : Str), (∀ c ∈ s, c ≠ '$') → hasDollarBrace s = false
  | [], _ => rfl
  | c :: r, h => by
    have hc : c ≠ '$' := h c (List.mem_cons_self ..)
    have ih := hasDollarBrace_free r (fun x hx => h x (List.mem_cons_of_mem _ hx))
    unfold hasDollarBrace
    split
    · rename_i heq; simp at heq; exact absurd heq.1 hc
    · rename_i heq; simp at heq; rw [← heq.2]; exact ih
    · rename_i heq; simp at heq

theorem lex_text {s : Str} (hne : s ≠ []) (h : ∀ c ∈ s, c ≠ '$') : lex s = .ok [(false, s)] := by
  unfold lex
  have := lexGo_text s h (s.length + 1) [] [] [] (by omega)
  simp only [List.append_nil] at this
  rw [this, show s.length + 1 - s.length = 0 + 1 by omega, lexGo_end]
  cases s with
  | nil => exact absurd rfl hne
  | cons c r => simp [flush]

/-- `interpolate` of a `$`-free text is that text -/
theorem interpolate_text {s : Str} (hne : s ≠ []) (h : ∀ c ∈ s, c ≠ '$') :
    interpolate s = .ok [.text s] := by
  unfold interpolate
  rw [hasDollarBrace_free s h, lex_text hne h]
  cases s with
  | nil => exact absurd rfl hne
  | cons c r => simp [interpGo, flushBuf]

theorem scanNew_escaped {s : Str} (hne : s ≠ []) : scanNew (escapeNew s) = [.text (escapeNew s)] := by
  have := scan_escaped s '\n' [] [] (by simp) (by simp)
  simp only [List.append_nil] at this
  unfold scanNew
  rw [this]
  have hne' := escape_ne_nil hne
  cases h : (escapeNew s).reverse with
  | nil => simp at h; exact absurd h hne'
  | cons a r =>
    have : escapeNew s = (a :: r).reverse := by rw [← h]; simp
    simp [scanNewGo, flushText, this]

/-- a template that is the escaped form of a non-empty `$`-free text parses to that text alone -/
theorem parseNew_escaped {s : Str} (hne : s ≠ []) (h : ∀ c ∈ s, c ≠ '$') :
    parseNew (escapeNew s) = .ok [.text s] := by
  unfold parseNew
  rw [scanNew_escaped hne]
  simp [parseToks, stepNew, unescape_escape, interpolate_text hne h, result, PSt.emit, bind, Except.bind, pure, Except.pure]

/-- text that needs no escape -/
def plainNew : Str → Bool
  | [] => true
  | '\\' :: _ => false
  | '{' :: '%' :: _ => false
  | '{' :: '#' :: _ => false
  | _ :: r => plainNew r

theorem escape_plain (s : Str) (h : plainNew s = true) : escapeNew s = s := by
  fun_induction escapeNew s with
  | case1 => rfl
  | case2 r ih => simp [plainNew] at h
  | case3 r ih => simp [plainNew] at h
  | case4 r ih => simp [plainNew] at h
  | case5 c r h1 h2 h3 ih =>
    have : plainNew r = true := by
      unfold plainNew at h
      split at h <;> simp_all
    rw [ih this]

/-- plain text (no backslash, no start delimiter, no `$`) is its own template -/
theorem parseNew_plain {s : Str} (hne : s ≠ []) (h : ∀ c ∈ s, c ≠ '$') (hp : plainNew s = true) :
    parseNew s = .ok [.text s] := by
  have := parseNew_escaped hne h
  rwa [escape_plain s hp] at this

/-! ### interpolation composed with the scanner -/

/-- plain text (no backslash, no start delimiter) is one text segment that `_escape_re` leaves alone:
    the parsed stream is `interpolate` of the source -/
theorem parseNew_plain_interpolate {s : Str} (hne : s ≠ []) (hp : plainNew s = true) :
    parseNew s = interpolate s := by
  have h1 : scanNew s = [.text s] := by
    have := scanNew_escaped hne
    rwa [escape_plain s hp] at this
  have h2 : unescapeNew s = s := by
    have := unescape_escape s
    rwa [escape_plain s hp] at this
  unfold parseNew
  rw [h1]
  simp only [parseToks, stepNew, h2]
  cases interpolate s with
  | error e => simp [result, bind, Except.bind]
  | ok evs => simp [result, bind, Except.bind, pure, Except.pure, PSt.emit, parseToks]

/-- **Expression boundaries in a text template.**  In plain text `pre ${inner} post` (no `$` in `pre`
    and `post`) the parsed stream is the text before, one EXPR event whose source is exactly `inner`
    (blanks stripped) and the text after — for every scannable `inner` (blanks, operators, words,
    string literals with braces inside, balanced braces nested to any depth). -/
theorem parseNew_expr (pre inner post : Str) (hpre : ∀ c ∈ pre, c ≠ '$') (hpost : ∀ c ∈ post, c ≠ '$')
    (hi : Scannable inner) (hin : inner ≠ [])
    (hp : plainNew (pre ++ '$' :: '{' :: (inner ++ '}' :: post)) = true)
    (hm : Py.Lex.unmodelled (pre ++ '$' :: '{' :: (inner ++ '}' :: post)) = false) :
    parseNew (pre ++ '$' :: '{' :: (inner ++ '}' :: post)) =
      .ok (flushBuf pre ++ [.expr (Py.Lex.stripAscii inner)] ++ flushBuf post) := by
  rw [parseNew_plain_interpolate (by simp) hp]
  unfold interpolate
  rw [hm, lex_expr pre inner post hpre hpost hi]
  simp only [Bool.and_false, Bool.false_eq_true, if_false]
  cases pre <;> cases post <;> cases inner <;> simp_all [textChunk, interpGo, flushBuf]

end Genshi.Tmpl.Scan

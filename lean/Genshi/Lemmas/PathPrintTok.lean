/-
  C05 `parse ∘ print = id`, part 5: the tokenizer regex of `PathParser` on printed text —
  `tokenize (render toks) = toks` for token lists made of table tokens, names, string
  literals and decimal numerals.
-/
import Genshi.Lemmas.PathPrintPath
namespace Genshi.Path
namespace Print
open Genshi

/-! ## `tokStep` in named parts -/

/-- `(?:\d+)?\.\d+` at the head of `s` -/
def numPart (s : Str) : Option Str :=
  let ds := s.takeWhile XNum.isDigit
  match s.drop ds.length with
  | '.' :: r =>
      let fr := r.takeWhile XNum.isDigit
      if fr.isEmpty then none else some (ds ++ '.' :: fr)
  | _ => none

/-- name, whitespace run or a skipped character -/
def namePart (s : Str) : Option Str × Nat :=
  let nm := s.takeWhile isNameChar
  if !nm.isEmpty then (some nm, nm.length)
  else
    let ws := s.takeWhile isReSpace
    if !ws.isEmpty then (none, ws.length) else (none, 1)

theorem tokStep_cons (c : Char) (cs : Str) : tokStep (c :: cs) =
    match (if c == '"' then spanQuote '"' cs else none) with
    | some (b, _) => (some ('"' :: b ++ ['"']), b.length + 2)
    | none =>
    match (if c == '\'' then spanQuote '\'' cs else none) with
    | some (b, _) => (some ('\'' :: b ++ ['\'']), b.length + 2)
    | none =>
    match numPart (c :: cs) with
    | some n => (some n, n.length)
    | none =>
    match firstToken (c :: cs) Gen.Path.tokens with
    | some t => (some t, t.length)
    | none => namePart (c :: cs) := rfl

/-- what may follow a token in rendered text: nothing or a blank -/
def Gap (s : Str) : Prop := s = [] ∨ ∃ s', s = ' ' :: s'

theorem drop_takeWhile (p : Char → Bool) (l : Str) : l.drop (l.takeWhile p).length = l.dropWhile p := by
  induction l with
  | nil => rfl
  | cons c cs ih =>
    by_cases h : p c = true
    · simp [List.takeWhile, List.dropWhile, h, ih]
    · simp [List.takeWhile, List.dropWhile, h]

theorem numPart_none_of (s : Str) (h : ∀ r, s.dropWhile XNum.isDigit ≠ '.' :: r) : numPart s = none := by
  unfold numPart
  simp only [drop_takeWhile]

theorem nameCh_facts (c : Char) (h : nameCh c = true) :
    isNameChar c = true ∧ c ≠ '"' ∧ c ≠ '\'' ∧ c ≠ '.' ∧ isReSpace c = false := by
  simp only [nameCh, Bool.and_eq_true, bne_iff_ne, ne_eq] at h
  refine ⟨h.1.1, h.1.2, h.2, (nameChar_facts c h.1.1).2.2.2.1, ?_⟩
  have := h.1.1
  simp only [isNameChar, Bool.and_eq_true, Bool.not_eq_true'] at this
  exact this.2

theorem dropWhile_digit_name (t s : Str) (ht : t.all nameCh = true) (hs : Gap s) :
    ∀ r, (t ++ s).dropWhile XNum.isDigit ≠ '.' :: r := by
  induction t with
  | nil =>
    intro r
    rcases hs with rfl | ⟨s', rfl⟩
    · simp
    · have : XNum.isDigit ' ' = false := by decide
      simp [List.dropWhile, this]
  | cons c cs ih =>
    intro r
    simp only [List.all_cons, Bool.and_eq_true] at ht
    by_cases hd : XNum.isDigit c = true
    · simp only [List.cons_append, List.dropWhile, hd]
      exact ih ht.2 r
    · simp only [List.cons_append, List.dropWhile, hd]
      intro heq
      simp at heq
      exact (nameCh_facts c ht.1).2.2.2.1 heq.1

theorem firstToken_head (s : Str) : ∀ (tab : List Str) (t : Str), firstToken s tab = some t →
    t ∈ tab ∧ t.isPrefixOf s = true := by
  intro tab
  induction tab with
  | nil => intro t h; simp [firstToken] at h
  | cons u us ih =>
    intro t h
    simp only [firstToken] at h
    by_cases hu : u.isPrefixOf s = true
    · simp [hu] at h; subst h; exact ⟨List.mem_cons_self, hu⟩
    · simp [hu] at h
      obtain ⟨h1, h2⟩ := ih t h
      exact ⟨List.mem_cons_of_mem _ h1, h2⟩

theorem firstToken_name (c : Char) (cs : Str) (hc : isNameChar c = true) :
    firstToken (c :: cs) Gen.Path.tokens = none := by
  rcases h : firstToken (c :: cs) Gen.Path.tokens with _ | t
  · rfl
  · obtain ⟨hm, hp⟩ := firstToken_head _ _ _ h
    exfalso
    have hhead : tokenHeads.contains c = true := by
      cases t with
      | nil => exact absurd hm (by decide)
      | cons d ds =>
        simp only [List.isPrefixOf, Bool.and_eq_true, beq_iff_eq] at hp
        have hd : d = c := hp.1
        subst hd
        simp only [tokenHeads, List.contains_eq_mem, List.mem_filterMap, decide_eq_true_eq]
        exact ⟨d :: ds, hm, rfl⟩
    simp only [isNameChar, hhead, Bool.not_true, Bool.false_and] at hc
    exact absurd hc (by decide)

theorem takeWhile_name (t s : Str) (ht : t.all nameCh = true) (hs : Gap s) :
    (t ++ s).takeWhile isNameChar = t := by
  induction t with
  | nil =>
    rcases hs with rfl | ⟨s', rfl⟩
    · rfl
    · have : isNameChar ' ' = false := by decide
      simp [List.takeWhile, this]
  | cons c cs ih =>
    simp only [List.all_cons, Bool.and_eq_true] at ht
    simp [List.takeWhile, (nameCh_facts c ht.1).1, ih ht.2]

/-- `t` comes out as one token whatever gap follows, and does not start with white space -/
def TokOk (t : Str) : Prop :=
  (∃ c cs, t = c :: cs ∧ isReSpace c = false) ∧ ∀ s, Gap s → tokStep (t ++ s) = (some t, t.length)

/-- names, keywords, `*`, integers -/
theorem tokOk_name (t : Str) (hne : t ≠ []) (ht : t.all nameCh = true) : TokOk t := by
  cases t with
  | nil => exact absurd rfl hne
  | cons c cs =>
    have hall := ht
    simp only [List.all_cons, Bool.and_eq_true] at ht
    obtain ⟨n1, n2, n3, n4, n5⟩ := nameCh_facts c ht.1
    refine ⟨⟨c, cs, rfl, n5⟩, ?_⟩
    intro s hs
    have hnum := numPart_none_of ((c :: cs) ++ s) (dropWhile_digit_name (c :: cs) s hall hs)
    have hft := firstToken_name c (cs ++ s) n1
    have htw := takeWhile_name (c :: cs) s hall hs
    simp only [List.cons_append] at hnum htw ⊢
    rw [tokStep_cons]
    have q1 : (c == '"') = false := by simpa using n2
    have q2 : (c == '\'') = false := by simpa using n3
    simp only [q1, q2, hnum, hft, namePart, htw, Bool.false_eq_true, if_false]
    simp

/-! ## table tokens -/

/-- the tokens of `_TOKENS` the printer uses -/
def tableToks : List Str :=
  [[':', ':'], [':'], ['/'], ['['], [']'], ['(', ')'], ['('], [')'], ['@'], ['='], ['!', '='], ['|'], [','],
   ['>', '='], ['>'], ['<', '='], ['<'], ['$']]

theorem numPart_none_head (c : Char) (cs : Str) (h1 : XNum.isDigit c = false) (h2 : c ≠ '.') :
    numPart (c :: cs) = none := by
  apply numPart_none_of
  intro r
  simp [List.dropWhile, h1, h2]

theorem tokOk_table (t : Str) (ht : t ∈ tableToks) : TokOk t := by
  simp only [tableToks, List.mem_cons, List.not_mem_nil, or_false] at ht
  have key : ∀ (c : Char) (cs : Str), XNum.isDigit c = false → c ≠ '.' → (c == '"') = false → (c == '\'') = false →
      isReSpace c = false →
      (∀ s, Gap s → firstToken ((c :: cs) ++ s) Gen.Path.tokens = some (c :: cs)) → TokOk (c :: cs) := by
    intro c cs h1 h2 h3 h4 h5 h6
    refine ⟨⟨c, cs, rfl, h5⟩, ?_⟩
    intro s hs
    have hn := numPart_none_head c (cs ++ s) h1 h2
    have hf := h6 s hs
    simp only [List.cons_append] at hf ⊢
    rw [tokStep_cons]
    simp only [h3, h4, hn, hf, Bool.false_eq_true, if_false]
  have ft : ∀ (t : Str), t ∈ tableToks → ∀ s, Gap s → firstToken (t ++ s) Gen.Path.tokens = some t := by
    intro t ht s hs
    simp only [tableToks, List.mem_cons, List.not_mem_nil, or_false] at ht
    rcases hs with rfl | ⟨s', rfl⟩
    · rcases ht with rfl | rfl | rfl | rfl | rfl | rfl | rfl | rfl | rfl | rfl | rfl | rfl | rfl | rfl | rfl | rfl | rfl | rfl <;> decide
    · rcases ht with rfl | rfl | rfl | rfl | rfl | rfl | rfl | rfl | rfl | rfl | rfl | rfl | rfl | rfl | rfl | rfl | rfl | rfl <;>
        simp [firstToken, Gen.Path.tokens, List.isPrefixOf]
  have hmem : t ∈ tableToks := by
    simp only [tableToks, List.mem_cons, List.not_mem_nil, or_false]; exact ht
  rcases ht with rfl | rfl | rfl | rfl | rfl | rfl | rfl | rfl | rfl | rfl | rfl | rfl | rfl | rfl | rfl | rfl | rfl | rfl <;>
    exact key _ _ (by decide) (by decide) (by decide) (by decide) (by decide) (ft _ hmem)

/-! ## string literals -/

theorem spanQuote_spec (q : Char) (b rest : Str) (hb : hasChar q b = false) :
    spanQuote q (b ++ q :: rest) = some (b, rest) := by
  induction b with
  | nil => simp [spanQuote]
  | cons c cs ih =>
    simp only [hasChar, List.any_cons, Bool.or_eq_false_iff] at hb
    have hc : (c == q) = false := hb.1
    simp only [List.cons_append, spanQuote, hc, Bool.false_eq_true, if_false]
    rw [ih (by simpa [hasChar] using hb.2)]

theorem tokOk_quote (b : Str) (hb : (hasChar '"' b && hasChar '\'' b) = false) : TokOk (quoteTok b) := by
  unfold quoteTok
  by_cases h1 : hasChar '"' b = true
  · have h2 : hasChar '\'' b = false := by simpa [h1] using hb
    simp only [h1, if_true]
    refine ⟨⟨_, _, rfl, by decide⟩, ?_⟩
    intro s _
    have := spanQuote_spec '\'' b s h2
    simp only [List.cons_append, List.append_assoc, List.nil_append]
    rw [tokStep_cons]
    have e1 : ('\'' == '"') = false := by decide
    simp only [e1, Bool.false_eq_true, if_false, beq_self_eq_true, if_true]
    rw [this]
    simp
  · have h1' : hasChar '"' b = false := by simpa using h1
    simp only [h1', Bool.false_eq_true, if_false]
    refine ⟨⟨_, _, rfl, by decide⟩, ?_⟩
    intro s _
    have := spanQuote_spec '"' b s h1'
    simp only [List.cons_append, List.append_assoc, List.nil_append]
    rw [tokStep_cons]
    simp only [beq_self_eq_true, if_true]
    rw [this]
    simp

/-! ## numerals -/

theorem takeWhile_append_of_all (p : Char → Bool) (a b : Str) (ha : a.all p = true)
    (hb : ∀ c r, b = c :: r → p c = false) : (a ++ b).takeWhile p = a := by
  induction a with
  | nil =>
    cases b with
    | nil => rfl
    | cons c r => simp [List.takeWhile, hb c r rfl]
  | cons c cs ih =>
    simp only [List.all_cons, Bool.and_eq_true] at ha
    simp [List.takeWhile, ha.1, ih ha.2]

theorem dropWhile_append_of_all (p : Char → Bool) (a b : Str) (ha : a.all p = true)
    (hb : ∀ c r, b = c :: r → p c = false) : (a ++ b).dropWhile p = b := by
  induction a with
  | nil =>
    cases b with
    | nil => rfl
    | cons c r => simp [List.dropWhile, hb c r rfl]
  | cons c cs ih =>
    simp only [List.all_cons, Bool.and_eq_true] at ha
    simp [List.dropWhile, ha.1, ih ha.2]

theorem all_takeWhile (p : Char → Bool) (l : Str) : (l.takeWhile p).all p = true := by
  induction l with
  | nil => rfl
  | cons c cs ih =>
    by_cases h : p c = true
    · simp [List.takeWhile, h, ih]
    · simp [List.takeWhile, h]

/-- a numeral: digits, or digits `.` digits -/
theorem tokOk_num (t : Str) (ht : numShape t = true) : TokOk t := by
  obtain ⟨d, r, hdr, hd⟩ := numShape_cons t ht
  obtain ⟨d1, d2, _⟩ := digit_facts d hd
  simp only [numShape, Bool.and_eq_true, Bool.not_eq_true'] at ht
  obtain ⟨⟨hne, hnm⟩, hrest⟩ := ht
  have hsplit : t = t.takeWhile XNum.isDigit ++ t.dropWhile XNum.isDigit := (List.takeWhile_append_dropWhile).symm
  rw [drop_takeWhile] at hrest
  have hall : (t.takeWhile XNum.isDigit).all XNum.isDigit = true := all_takeWhile _ _
  have hdn : nameCh d = true := by
    have : d ∈ t.takeWhile XNum.isDigit := by rw [hdr]; simp [List.takeWhile, hd]
    exact (List.all_eq_true.mp hnm) d this
  refine ⟨⟨d, r, hdr, (nameCh_facts d hdn).2.2.2.2⟩, ?_⟩
  intro s hs
  have gap_nd : ∀ c r', s = c :: r' → XNum.isDigit c = false := by
    intro c r' h
    rcases hs with rfl | ⟨s', rfl⟩
    · cases h
    · cases h; decide
  rcases hdw : t.dropWhile XNum.isDigit with _ | ⟨c, fr⟩
  · -- an integer: a name token
    rw [hdw, List.append_nil] at hsplit
    have hname : t.all nameCh = true := by rw [hsplit]; exact hnm
    exact (tokOk_name t (by rw [hdr]; simp) hname).2 s hs
  · rw [hdw] at hrest hsplit
    have hc : c = '.' := by
      by_cases hc : c = '.'
      · exact hc
      · exfalso; split at hrest
        · rename_i heq; cases heq
        · rename_i heq; simp at heq; exact hc heq.1
        · simp at hrest
    subst hc
    simp only [Bool.and_eq_true, Bool.not_eq_true'] at hrest
    obtain ⟨hfne, hfall⟩ := hrest
    generalize hds : t.takeWhile XNum.isDigit = ds at hsplit hall
    have hdot : ∀ c r', ('.' :: (fr ++ s)) = c :: r' → XNum.isDigit c = false := by
      intro c r' h; cases h; decide
    have htw : ((ds ++ '.' :: fr) ++ s).takeWhile XNum.isDigit = ds := by
      rw [List.append_assoc]; exact takeWhile_append_of_all _ ds _ hall hdot
    have hdw2 : ((ds ++ '.' :: fr) ++ s).dropWhile XNum.isDigit = '.' :: (fr ++ s) := by
      rw [List.append_assoc]; exact dropWhile_append_of_all _ ds _ hall hdot
    have hfr : (fr ++ s).takeWhile XNum.isDigit = fr := takeWhile_append_of_all _ fr s hfall gap_nd
    have hnum : numPart (t ++ s) = some t := by
      rw [hsplit]
      unfold numPart
      simp only [drop_takeWhile]
      simp only [hdw2]
      simp only [htw, hfr, hfne, Bool.false_eq_true, if_false]
    rw [hdr] at hnum ⊢
    simp only [List.cons_append] at hnum ⊢
    rw [tokStep_cons]
    have q1 : (d == '"') = false := by simpa using d1
    have q2 : (d == '\'') = false := by simpa using d2
    simp only [q1, q2, hnum, Bool.false_eq_true, if_false]

/-! ## `tokenize ∘ render` -/

theorem blank_step (c : Char) (r : Str) (hc : isReSpace c = false) : tokStep (' ' :: c :: r) = (none, 1) := by
  rw [tokStep_cons]
  have hn := numPart_none_head ' ' (c :: r) (by decide) (by decide)
  have hf : firstToken (' ' :: c :: r) Gen.Path.tokens = none := by
    simp [firstToken, Gen.Path.tokens, List.isPrefixOf]
  have e1 : (' ' == '"') = false := by decide
  have e2 : (' ' == '\'') = false := by decide
  have e3 : isNameChar ' ' = false := by decide
  have e4 : isReSpace ' ' = true := by decide
  simp [e1, e2, hn, hf, namePart, List.takeWhile, e3, e4, hc]

theorem render_cons2 (t t2 : Str) (r : List Str) : render (t :: t2 :: r) = t ++ ' ' :: render (t2 :: r) := rfl

theorem render_head (t : Str) (r : List Str) (ht : TokOk t) :
    ∃ c cs, render (t :: r) = c :: cs ∧ isReSpace c = false := by
  obtain ⟨⟨c, cs, rfl, hc⟩, _⟩ := ht
  cases r with
  | nil => exact ⟨c, cs, rfl, hc⟩
  | cons t2 r => exact ⟨c, cs ++ ' ' :: render (t2 :: r), rfl, hc⟩

theorem tokenizeAux_render : ∀ (toks : List Str) (fuel : Nat), (∀ t ∈ toks, TokOk t) →
    (render toks).length < fuel → tokenizeAux fuel (render toks) = toks := by
  intro toks
  induction toks with
  | nil =>
    intro fuel _ _
    cases fuel <;> rfl
  | cons t r ih =>
    intro fuel hok hf
    obtain ⟨f, rfl⟩ : ∃ f, fuel = f + 1 := ⟨fuel - 1, by omega⟩
    have ht := hok t List.mem_cons_self
    obtain ⟨⟨c, cs, hcs, hc⟩, hstep⟩ := ht
    cases r with
    | nil =>
      have h1 := hstep [] (Or.inl rfl)
      simp only [List.append_nil] at h1
      have hlen : 0 < t.length := by rw [hcs]; simp
      simp only [render]
      rw [hcs] at h1 ⊢
      simp only [tokenizeAux, h1]
      have : max (c :: cs).length 1 = (c :: cs).length := by simp
      rw [this, List.drop_length]
      cases f <;> rfl
    | cons t2 r =>
      have hok2 : ∀ x ∈ t2 :: r, TokOk x := fun x hx => hok x (List.mem_cons_of_mem _ hx)
      obtain ⟨c2, cs2, hr2, hc2⟩ := render_head t2 r (hok2 t2 List.mem_cons_self)
      have h1 := hstep (' ' :: render (t2 :: r)) (Or.inr ⟨_, rfl⟩)
      rw [render_cons2] at hf ⊢
      have hlen : (t ++ ' ' :: render (t2 :: r)).length = t.length + 1 + (render (t2 :: r)).length := by
        simp; omega
      obtain ⟨f', rfl⟩ : ∃ f', f = f' + 1 := ⟨f - 1, by omega⟩
      have htl : 0 < t.length := by rw [hcs]; simp
      have hrec := ih f' hok2 (by omega)
      have hdrop : (t ++ ' ' :: render (t2 :: r)).drop (max t.length 1) = ' ' :: render (t2 :: r) := by
        have : max t.length 1 = t.length := by rw [hcs]; simp
        rw [this]; simp
      have hb := blank_step c2 cs2 hc2
      rw [hcs] at h1 hdrop ⊢
      simp only [List.cons_append] at h1 hdrop ⊢
      simp only [tokenizeAux, h1]
      rw [hdrop, hr2]
      simp only [tokenizeAux, hb]
      rw [← hr2]
      simp [hrec]

theorem tokenize_render (toks : List Str) (h : ∀ t ∈ toks, TokOk t) : tokenize (render toks) = toks :=
  tokenizeAux_render toks _ h (Nat.lt_succ_self _)

/-! ## every printed token is delivered as one token -/

theorem tab (t : Str) (h : tableToks.contains t = true) : TokOk t :=
  tokOk_table t (by simpa using h)

theorem nm (t : Str) (h : (!t.isEmpty && t.all nameCh) = true) : TokOk t := by
  simp only [Bool.and_eq_true, Bool.not_eq_true', List.isEmpty_eq_false_iff] at h
  exact tokOk_name t h.1 h.2

theorem nameOk_tok (n : Str) (h : nameOk n = true) : TokOk n := by
  cases n with
  | nil => simp [nameOk] at h
  | cons c cs =>
    apply tokOk_name _ (by simp)
    simp only [nameOk, Bool.and_eq_true, Bool.not_eq_true'] at h
    simp only [List.all_eq_true] at h ⊢
    intro x hx
    have := h.2 x hx
    simp only [isQuoteChar, Bool.and_eq_true, Bool.not_eq_true', Bool.or_eq_false_iff, beq_eq_false_iff_ne, bne_iff_ne, ne_eq] at this
    simp [nameCh, this.1.1, this.1.2.1, this.1.2.2]

theorem mem_paren (b : Bool) (l : List Str) (t : Str) (h : t ∈ paren b l) : t = lpar ∨ t = rpar ∨ t ∈ l := by
  cases b with
  | false => exact Or.inr (Or.inr (by simpa [paren] using h))
  | true =>
    simp [paren] at h
    rcases h with h | h | h
    · exact Or.inl h
    · exact Or.inr (Or.inr h)
    · exact Or.inr (Or.inl h)

theorem lpar_ok : TokOk lpar := tab _ (by decide)
theorem rpar_ok : TokOk rpar := tab _ (by decide)
theorem comma_ok : TokOk comma := tab _ (by decide)

theorem paren_ok (b : Bool) (l : List Str) (h : ∀ t ∈ l, TokOk t) : ∀ t ∈ paren b l, TokOk t := by
  intro t ht
  rcases mem_paren b l t ht with rfl | rfl | h'
  · exact lpar_ok
  · exact rpar_ok
  · exact h t h'

theorem testToks_ok (t : NodeTest) (h : testOk t = true) : ∀ x ∈ testToks t, TokOk x := by
  have hat : ∀ a, ∀ x ∈ atToks a, TokOk x := by
    intro a x hx
    cases a <;> simp [atToks] at hx
    subst hx; exact tab _ (by decide)
  have hstar : TokOk ['*'] := nm _ (by decide)
  have hcol : TokOk [':'] := tab _ (by decide)
  intro x hx
  cases t with
  | principal a =>
    simp only [testToks, List.mem_append, List.mem_singleton] at hx
    rcases hx with hx | rfl
    · exact hat a x hx
    · exact hstar
  | qprincipal a p =>
    simp only [testToks, List.mem_append, List.mem_cons, List.not_mem_nil, or_false] at hx
    rcases hx with hx | rfl | rfl | rfl
    · exact hat a x hx
    · exact nameOk_tok _ (by simpa [testOk] using h)
    · exact hcol
    · exact hstar
  | localName a n =>
    simp only [testToks, List.mem_append, List.mem_singleton] at hx
    rcases hx with hx | rfl
    · exact hat a x hx
    · exact nameOk_tok _ (by simpa [testOk] using h)
  | qname a p n =>
    simp only [testOk, Bool.and_eq_true] at h
    simp only [testToks, List.mem_append, List.mem_cons, List.not_mem_nil, or_false] at hx
    rcases hx with hx | rfl | rfl | rfl
    · exact hat a x hx
    · exact nameOk_tok _ h.1
    · exact hcol
    · exact nameOk_tok _ h.2
  | _ => simp [testOk] at h

theorem fn0Tok_tok (f : Fn0) : TokOk (fn0Tok f) := by cases f <;> exact nm _ (by decide)
theorem fn1Tok_tok (f : Fn1) : TokOk (fn1Tok f) := by cases f <;> exact nm _ (by decide)
theorem fn2Tok_tok (f : Fn2) : TokOk (fn2Tok f) := by cases f <;> exact nm _ (by decide)
theorem fn3Tok_tok (f : Fn3) : TokOk (fn3Tok f) := by cases f <;> exact nm _ (by decide)
theorem cmpTok_tok (op : CmpOp) : TokOk (cmpTok op) := by cases op <;> exact tab _ (by decide)
theorem axisTok_tok (a : Axis) : TokOk (axisTok a) := by cases a <;> exact nm _ (by decide)

theorem toks_ok (e : Expr) : exprOk e = true → (∀ t ∈ toks e, TokOk t) ∧ (∀ t ∈ argToks e, TokOk t) := by
  induction e with
  | test t =>
    intro h
    exact ⟨testToks_ok t (by simpa [exprOk] using h), by simp [argToks]⟩
  | str s =>
    intro h
    refine ⟨?_, by simp [argToks]⟩
    intro t ht
    simp only [toks, List.mem_singleton] at ht
    subst ht
    apply tokOk_quote
    simp only [exprOk, Bool.not_eq_true'] at h
    exact h
  | num x =>
    intro h
    refine ⟨?_, by simp [argToks]⟩
    intro t ht
    simp only [toks, List.mem_singleton] at ht
    subst ht
    apply tokOk_num
    simp only [exprOk] at h
    cases x with
    | nan => simp [numOk] at h
    | dec neg m e =>
      cases neg with
      | true => simp [numOk] at h
      | false =>
        simp only [numOk, Bool.and_eq_true] at h
        exact h.1
  | var n =>
    intro h
    refine ⟨?_, by simp [argToks]⟩
    intro t ht
    simp only [toks, List.mem_cons, List.not_mem_nil, or_false] at ht
    rcases ht with rfl | rfl
    · exact tab _ (by decide)
    · exact nameOk_tok _ (by simpa [exprOk] using h)
  | fn0 f =>
    intro _
    refine ⟨?_, by simp [argToks]⟩
    intro t ht
    simp only [toks, List.mem_cons, List.not_mem_nil, or_false] at ht
    rcases ht with rfl | rfl
    · exact fn0Tok_tok f
    · exact tab _ (by decide)
  | fn1 f a iha =>
    intro h
    have ha := (iha (by simpa [exprOk] using h)).1
    refine ⟨?_, by simp [argToks]⟩
    intro t ht
    simp only [toks, List.mem_cons, List.mem_append, List.not_mem_nil, or_false] at ht
    rcases ht with rfl | rfl | ht | rfl
    · exact fn1Tok_tok f
    · exact lpar_ok
    · exact ha t ht
    · exact rpar_ok
  | fn2 f a b iha ihb =>
    intro h
    simp only [exprOk, Bool.and_eq_true] at h
    have ha := (iha h.1).1
    have hb := (ihb h.2).1
    refine ⟨?_, by simp [argToks]⟩
    intro t ht
    simp only [toks, List.mem_cons, List.mem_append, List.not_mem_nil, or_false] at ht
    rcases ht with rfl | rfl | ht | rfl | ht | rfl
    · exact fn2Tok_tok f
    · exact lpar_ok
    · exact ha t ht
    · exact comma_ok
    · exact hb t ht
    · exact rpar_ok
  | fn3 f a b c iha ihb ihc =>
    intro h
    simp only [exprOk, Bool.and_eq_true] at h
    have ha := (iha h.1.1.2).1
    have hb := (ihb h.1.2).1
    have hc := (ihc h.2).1
    refine ⟨?_, by simp [argToks]⟩
    intro t ht
    simp only [toks, List.mem_cons, List.mem_append, List.not_mem_nil, or_false] at ht
    rcases ht with rfl | rfl | ht | rfl | ht | rfl | ht | rfl
    · exact fn3Tok_tok f
    · exact lpar_ok
    · exact ha t ht
    · exact comma_ok
    · exact hb t ht
    · exact comma_ok
    · exact hc t ht
    · exact rpar_ok
  | concat1 a iha =>
    intro h
    have ha := (iha (by simpa [exprOk] using h)).1
    refine ⟨?_, by simpa [argToks] using ha⟩
    intro t ht
    simp only [toks, List.mem_cons, List.mem_append, List.not_mem_nil, or_false] at ht
    rcases ht with rfl | rfl | ht | rfl
    · exact nm _ (by decide)
    · exact lpar_ok
    · exact ha t ht
    · exact rpar_ok
  | concat a r iha ihr =>
    intro h
    simp only [exprOk, Bool.and_eq_true] at h
    have ha := (iha h.1.1.1).1
    have hr := (ihr h.1.2).2
    constructor
    · intro t ht
      simp only [toks, List.mem_cons, List.mem_append, List.not_mem_nil, or_false] at ht
      rcases ht with rfl | rfl | ht | rfl | ht | rfl
      · exact nm _ (by decide)
      · exact lpar_ok
      · exact ha t ht
      · exact comma_ok
      · exact hr t ht
      · exact rpar_ok
    · intro t ht
      simp only [argToks, List.mem_cons, List.mem_append] at ht
      rcases ht with ht | rfl | ht
      · exact ha t ht
      · exact comma_ok
      · exact hr t ht
  | and_ a b iha ihb =>
    intro h
    simp only [exprOk, Bool.and_eq_true] at h
    have ha := (iha h.1).1
    have hb := (ihb h.2).1
    refine ⟨?_, by simp [argToks]⟩
    intro t ht
    simp only [toks, List.mem_cons, List.mem_append] at ht
    rcases ht with ht | rfl | ht
    · exact paren_ok _ _ ha t ht
    · exact nm _ (by decide)
    · exact paren_ok _ _ hb t ht
  | or_ a b iha ihb =>
    intro h
    simp only [exprOk, Bool.and_eq_true] at h
    have ha := (iha h.1).1
    have hb := (ihb h.2).1
    refine ⟨?_, by simp [argToks]⟩
    intro t ht
    simp only [toks, List.mem_cons, List.mem_append] at ht
    rcases ht with ht | rfl | ht
    · exact ha t ht
    · exact nm _ (by decide)
    · exact paren_ok _ _ hb t ht
  | cmp op a b iha ihb =>
    intro h
    simp only [exprOk, Bool.and_eq_true] at h
    have ha := (iha h.1).1
    have hb := (ihb h.2).1
    refine ⟨?_, by simp [argToks]⟩
    intro t ht
    rw [toks] at ht
    simp only [List.mem_cons, List.mem_append] at ht
    rcases ht with ht | rfl | ht
    · exact paren_ok _ _ ha t ht
    · exact cmpTok_tok op
    · exact paren_ok _ _ hb t ht

theorem stepTestToks_ok (attr : Bool) (t : NodeTest) (h : stepTestOk attr t = true) : ∀ x ∈ stepTestToks t, TokOk x := by
  have hstar : TokOk ['*'] := nm _ (by decide)
  have hcol : TokOk [':'] := tab _ (by decide)
  have hunit : TokOk ['(', ')'] := tab _ (by decide)
  intro x hx
  cases t with
  | principal a =>
    simp only [stepTestToks, List.mem_singleton] at hx
    subst hx; exact hstar
  | qprincipal a p =>
    simp only [stepTestOk, testOk, Bool.and_eq_true] at h
    simp only [stepTestToks, List.mem_cons, List.not_mem_nil, or_false] at hx
    rcases hx with rfl | rfl | rfl
    · exact nameOk_tok _ h.1
    · exact hcol
    · exact hstar
  | localName a n =>
    simp only [stepTestOk, testOk, Bool.and_eq_true] at h
    simp only [stepTestToks, List.mem_singleton] at hx
    subst hx; exact nameOk_tok _ h.1
  | qname a p n =>
    simp only [stepTestOk, testOk, Bool.and_eq_true] at h
    simp only [stepTestToks, List.mem_cons, List.not_mem_nil, or_false] at hx
    rcases hx with rfl | rfl | rfl
    · exact nameOk_tok _ h.1.1
    · exact hcol
    · exact nameOk_tok _ h.1.2
  | comment =>
    simp only [stepTestToks, List.mem_cons, List.not_mem_nil, or_false] at hx
    rcases hx with rfl | rfl
    · exact nm _ (by decide)
    · exact hunit
  | node =>
    simp only [stepTestToks, List.mem_cons, List.not_mem_nil, or_false] at hx
    rcases hx with rfl | rfl
    · exact nm _ (by decide)
    · exact hunit
  | text =>
    simp only [stepTestToks, List.mem_cons, List.not_mem_nil, or_false] at hx
    rcases hx with rfl | rfl
    · exact nm _ (by decide)
    · exact hunit
  | pi tg =>
    cases tg with
    | none =>
      simp only [stepTestToks, List.mem_cons, List.not_mem_nil, or_false] at hx
      rcases hx with rfl | rfl
      · exact nm _ (by decide)
      · exact hunit
    | some tg =>
      simp only [stepTestToks, List.mem_cons, List.not_mem_nil, or_false] at hx
      rcases hx with rfl | rfl | rfl | rfl
      · exact nm _ (by decide)
      · exact lpar_ok
      · apply tokOk_quote
        simp only [stepTestOk, Bool.not_eq_true'] at h
        exact h
      · exact rpar_ok

theorem predsToks_ok (ps : List Expr) (h : ∀ e ∈ ps, exprOk e = true) : ∀ x ∈ predsToks ps, TokOk x := by
  induction ps with
  | nil => intro x hx; simp [predsToks] at hx
  | cons e r ih =>
    intro x hx
    simp only [predsToks, predToks, List.mem_cons, List.mem_append, List.cons_append, List.not_mem_nil, or_false] at hx
    rcases hx with rfl | (hx | rfl) | hx
    · exact tab _ (by decide)
    · exact (toks_ok e (h e List.mem_cons_self)).1 x hx
    · exact tab _ (by decide)
    · exact ih (fun y hy => h y (List.mem_cons_of_mem _ hy)) x hx

theorem stepToks_ok (s : Step) (h : stepOk s = true) : ∀ x ∈ stepToks s, TokOk x := by
  simp only [stepOk, Bool.and_eq_true, List.all_eq_true] at h
  intro x hx
  simp only [stepToks, List.mem_cons, List.mem_append] at hx
  rcases hx with rfl | rfl | hx | hx
  · exact axisTok_tok _
  · exact tab _ (by decide)
  · exact stepTestToks_ok _ _ h.1 x hx
  · exact predsToks_ok _ h.2 x hx

theorem restToks_ok (r : List Step) (h : ∀ s ∈ r, stepOk s = true) : ∀ x ∈ restToks r, TokOk x := by
  induction r with
  | nil => intro x hx; simp [restToks] at hx
  | cons s r ih =>
    intro x hx
    simp only [restToks, List.mem_cons, List.mem_append] at hx
    rcases hx with rfl | hx | hx
    · exact tab _ (by decide)
    · exact stepToks_ok s (h s List.mem_cons_self) x hx
    · exact ih (fun y hy => h y (List.mem_cons_of_mem _ hy)) x hx

theorem pathToks_ok (p : LocPath) (h : pathOk p = true) : ∀ x ∈ pathToks p, TokOk x := by
  obtain ⟨s, r, rfl, hs, hr⟩ := pathOk_cons p h
  intro x hx
  simp only [pathToks, List.mem_append] at hx
  rcases hx with hx | hx
  · exact stepToks_ok s hs x hx
  · exact restToks_ok r hr x hx

theorem unionToks_ok (ps : List LocPath) (h : ∀ p ∈ ps, pathOk p = true) : ∀ x ∈ unionToks ps, TokOk x := by
  induction ps with
  | nil => intro x hx; simp [unionToks] at hx
  | cons p r ih =>
    intro x hx
    simp only [unionToks, List.mem_cons, List.mem_append] at hx
    rcases hx with rfl | hx | hx
    · exact tab _ (by decide)
    · exact pathToks_ok p (h p List.mem_cons_self) x hx
    · exact ih (fun y hy => h y (List.mem_cons_of_mem _ hy)) x hx

theorem pathsToks_ok (ps : List LocPath) (h : pathsOk ps = true) : ∀ x ∈ pathsToks ps, TokOk x := by
  cases ps with
  | nil => simp [pathsOk] at h
  | cons p rest =>
    simp only [pathsOk, List.isEmpty_cons, Bool.not_false, Bool.true_and, List.all_cons, Bool.and_eq_true,
      List.all_eq_true] at h
    intro x hx
    simp only [pathsToks, List.mem_append] at hx
    rcases hx with hx | hx
    · exact pathToks_ok p h.1 x hx
    · exact unionToks_ok rest h.2 x hx

/-- the tokenizer regex of `PathParser` cuts the printed text into the printer's tokens -/
theorem tokenize_print (ps : List LocPath) (h : pathsOk ps = true) : tokenize (printPaths ps) = pathsToks ps :=
  tokenize_render _ (pathsToks_ok ps h)

/-- **`PathParser(text).parse()` reads every printed path expression back.** -/
theorem parse_print (ps : List LocPath) (h : pathsOk ps = true) : parse (printPaths ps) = .ok ps := by
  unfold parse
  rw [tokenize_print ps h]
  exact parseTokens_print ps h

end Print
end Genshi.Path

/-
  C05 `parse ∘ print = id`, part 5: the tokenizer regex of `PathParser` on printed text —
  `tokenize (render toks) = toks` for token lists made of table tokens, names, string
  literals and decimal numerals.
-/
import Genshi.Lemmas.PathPrintPath
namespace Genshi.Path
namespace Print
open Genshi

/-! ## `tokStep` in named parts -/

/-- `(?:\d+)?\.\d+` at the head of `s` -/
def numPart (s : Str) : Option Str :=
  let ds := s.takeWhile XNum.isDigit
  match s.drop ds.length with
  | '.' :: r =>
      let fr := r.takeWhile XNum.isDigit
      if fr.isEmpty then none else some (ds ++ '.' :: fr)
  | _ => none

/-- name, whitespace run or a skipped character -/
def namePart (s : Str) : Option Str × Nat :=
  let nm := s.takeWhile isNameChar
  if !nm.isEmpty then (some nm, nm.length)
  else
    let ws := s.takeWhile isReSpace
    if !ws.isEmpty then (none, ws.length) else (none, 1)

theorem tokStep_cons (c : Char) (cs : Str) : tokStep (c :: cs) =
    match (if c == '"' then spanQuote '"' cs else none) with
    | some (b, _) => (some ('"' :: b ++ ['"']), b.length + 2)
    | none =>
    match (if c == '\'' then spanQuote '\'' cs else none) with
    | some (b, _) => (some ('\'' :: b ++ ['\'']), b.length + 2)
    | none =>
    match numPart (c :: cs) with
    | some n => (some n, n.length)
    | none =>
    match firstToken (c :: cs) Gen.Path.tokens with
    | some t => (some t, t.length)
    | none => namePart (c :: cs) := rfl

/-- what may follow a token in rendered text: nothing or a blank -/
def Gap (s : Str) : Prop := s = [] ∨ ∃ s', s = ' ' :: s'

theorem drop_takeWhile (p : Char → Bool) (l : Str) : l.drop (l.takeWhile p).length = l.dropWhile p := by
  induction l with
  | nil => rfl
  | cons c cs ih =>
    by_cases h : p c = true
    · simp [List.takeWhile, List.dropWhile, h, ih]
    · simp [List.takeWhile, List.dropWhile, h]

theorem numPart_none_of (s : Str) (h : ∀ r, s.dropWhile XNum.isDigit ≠ '.' :: r) : numPart s = none := by
  unfold numPart
  simp only [drop_takeWhile]
  rcases hd : s.dropWhile XNum.isDigit with _ | ⟨c, r⟩
  · rfl
  · by_cases hc : c = '.'
    · subst hc; exact absurd hd (h r)
    · split
      · rename_i heq; simp at heq; exact absurd heq.1 hc
      · rfl

/-- the characters of a name token: name characters other than quotes -/
def nameCh (c : Char) : Bool := isNameChar c && c != '"' && c != '\''

theorem nameCh_facts (c : Char) (h : nameCh c = true) :
    isNameChar c = true ∧ c ≠ '"' ∧ c ≠ '\'' ∧ c ≠ '.' ∧ isReSpace c = false := by
  simp only [nameCh, Bool.and_eq_true, bne_iff_ne, ne_eq] at h
  refine ⟨h.1.1, h.1.2, h.2, (nameChar_facts c h.1.1).2.2.2.1, ?_⟩
  have := h.1.1
  simp only [isNameChar, Bool.and_eq_true, Bool.not_eq_true'] at this
  exact this.2

theorem dropWhile_digit_name (t s : Str) (ht : t.all nameCh = true) (hs : Gap s) :
    ∀ r, (t ++ s).dropWhile XNum.isDigit ≠ '.' :: r := by
  induction t with
  | nil =>
    intro r
    rcases hs with rfl | ⟨s', rfl⟩
    · simp
    · have : XNum.isDigit ' ' = false := by decide
      simp [List.dropWhile, this]
  | cons c cs ih =>
    intro r
    simp only [List.all_cons, Bool.and_eq_true] at ht
    by_cases hd : XNum.isDigit c = true
    · simp only [List.cons_append, List.dropWhile, hd]
      exact ih ht.2 r
    · simp only [List.cons_append, List.dropWhile, hd]
      intro heq
      simp at heq
      exact (nameCh_facts c ht.1).2.2.2.1 heq.1

theorem firstToken_head (s : Str) : ∀ (tab : List Str) (t : Str), firstToken s tab = some t →
    t ∈ tab ∧ t.isPrefixOf s = true := by
  intro tab
  induction tab with
  | nil => intro t h; simp [firstToken] at h
  | cons u us ih =>
    intro t h
    simp only [firstToken] at h
    by_cases hu : u.isPrefixOf s = true
    · simp [hu] at h; subst h; exact ⟨List.mem_cons_self, hu⟩
    · simp [hu] at h
      obtain ⟨h1, h2⟩ := ih t h
      exact ⟨List.mem_cons_of_mem _ h1, h2⟩

theorem firstToken_name (c : Char) (cs : Str) (hc : isNameChar c = true) :
    firstToken (c :: cs) Gen.Path.tokens = none := by
  rcases h : firstToken (c :: cs) Gen.Path.tokens with _ | t
  · rfl
  · obtain ⟨hm, hp⟩ := firstToken_head _ _ _ h
    exfalso
    have hhead : tokenHeads.contains c = true := by
      cases t with
      | nil => revert hm; decide
      | cons d ds =>
        simp only [List.isPrefixOf, Bool.and_eq_true, beq_iff_eq] at hp
        have hd : d = c := hp.1
        subst hd
        simp only [tokenHeads, List.contains_eq_mem, List.mem_filterMap, decide_eq_true_eq]
        exact ⟨d :: ds, hm, rfl⟩
    simp [isNameChar, hhead] at hc

theorem takeWhile_name (t s : Str) (ht : t.all nameCh = true) (hs : Gap s) :
    (t ++ s).takeWhile isNameChar = t := by
  induction t with
  | nil =>
    rcases hs with rfl | ⟨s', rfl⟩
    · rfl
    · have : isNameChar ' ' = false := by decide
      simp [List.takeWhile, this]
  | cons c cs ih =>
    simp only [List.all_cons, Bool.and_eq_true] at ht
    simp [List.takeWhile, (nameCh_facts c ht.1).1, ih ht.2]

/-- `t` comes out as one token whatever gap follows, and does not start with white space -/
def TokOk (t : Str) : Prop :=
  (∃ c cs, t = c :: cs ∧ isReSpace c = false) ∧ ∀ s, Gap s → tokStep (t ++ s) = (some t, t.length)

/-- names, keywords, `*`, integers -/
theorem tokOk_name (t : Str) (hne : t ≠ []) (ht : t.all nameCh = true) : TokOk t := by
  cases t with
  | nil => exact absurd rfl hne
  | cons c cs =>
    have hall := ht
    simp only [List.all_cons, Bool.and_eq_true] at ht
    obtain ⟨n1, n2, n3, n4, n5⟩ := nameCh_facts c ht.1
    refine ⟨⟨c, cs, rfl, n5⟩, ?_⟩
    intro s hs
    have hnum := numPart_none_of ((c :: cs) ++ s) (dropWhile_digit_name (c :: cs) s hall hs)
    have hft := firstToken_name c (cs ++ s) n1
    have htw := takeWhile_name (c :: cs) s hall hs
    simp only [List.cons_append] at hnum htw ⊢
    rw [tokStep_cons]
    have q1 : (c == '"') = false := by simpa using n2
    have q2 : (c == '\'') = false := by simpa using n3
    simp only [q1, q2, hnum, hft, namePart, htw, Bool.false_eq_true, if_false]
    simp

end Print
end Genshi.Path

/-
  C11: with more fuel a request performs the same loads and possibly further ones (the log at fuel `f` is a
  prefix of the log at `g ≥ f`), also when it runs out of fuel.
-/
import Genshi.Lemmas.InclLog
namespace Genshi.Incl

/-- `l` is a prefix of `l'` -/
def Pre (l l' : List Load) : Prop := ∃ t, l' = l ++ t

theorem Pre.refl (l : List Load) : Pre l l := ⟨[], by simp⟩
theorem Pre.nil (l : List Load) : Pre [] l := ⟨l, rfl⟩
theorem Pre.cons (a : Load) {l l' : List Load} (h : Pre l l') : Pre (a :: l) (a :: l') := by
  obtain ⟨t, ht⟩ := h; exact ⟨t, by rw [ht]; rfl⟩
theorem Pre.of_eq {l l' : List Load} (h : l = l') : Pre l l' := h ▸ Pre.refl l

/-- two parts in sequence: the first always grows; when its evaluation does not run out of fuel it stays the
same and the second grows; when it does run out the second part is empty -/
theorem Pre.seq {A A' B B' : List Load} (c : Prop) (hA : Pre A A')
    (h1 : c → A' = A ∧ Pre B B') (h2 : ¬ c → B = []) : Pre (A ++ B) (A' ++ B') := by
  by_cases hc : c
  · obtain ⟨hAA, t, ht⟩ := h1 hc
    exact ⟨t, by rw [hAA, ht, List.append_assoc]⟩
  · obtain ⟨t, ht⟩ := hA
    exact ⟨t ++ B', by rw [h2 hc, ht]; simp⟩

def LPre (L L' : LJ) : Prop := ∀ rng ns st, Pre (L rng ns st) (L' rng ns st)

theorem logItems_pre {k k' : St → R} {lk lk' : St → List Load} (x : Name)
    (hk : ∀ s, Le (k s) (k' s)) (hlk : ∀ s, k s ≠ .fuel → lk s = lk' s) (hpre : ∀ s, Pre (lk s) (lk' s)) :
    ∀ (vs : List Value) (s : St), Pre (logItems k lk x vs s) (logItems k' lk' x vs s)
  | [], _ => Pre.refl _
  | v :: vs, s => by
    simp only [logItems]
    refine Pre.seq (k { s with frames := (x, v) :: s.frames } ≠ .fuel) (hpre _) (fun hc => ?_) (fun hc => ?_)
    · refine ⟨(hlk _ hc).symm, ?_⟩
      rw [← (hk _).eq_of_ne hc]
      cases hr : k { s with frames := (x, v) :: s.frames } with
      | fuel => exact Pre.refl _
      | err e => exact Pre.refl _
      | ok r1 => exact logItems_pre x hk hlk hpre vs _
    · have : k { s with frames := (x, v) :: s.frames } = .fuel := Classical.not_not.mp hc
      rw [this]

mutual
theorem logN_pre (m : Mode) (files : Files) {J J' : RJ} {L L' : LJ} (hJ : JLe J J') (hL : LRel J L L') (hP : LPre L L') :
    ∀ (n : Node) (rng : Rng) (st : St), Pre (logN m files J L rng n st) (logN m files J' L' rng n st)
  | .text _, _, _ => Pre.refl _
  | .var _, _, _ => Pre.refl _
  | .defn _ _, _, _ => Pre.refl _
  | .matchT _ _, _, _ => Pre.refl _
  | .elem tag body, rng, st => by
    rw [logN_elem, logN_elem]
    cases hfm : firstMatch st.mts rng tag with
    | none => exact logL_pre m files hJ hL hP body rng st
    | some p =>
      obtain ⟨idx, mb⟩ := p
      simp only
      refine Pre.seq (renderL m files J ⟨rng.lo, some (idx + 1), false⟩ body st ≠ .fuel)
        (logL_pre m files hJ hL hP body _ st) (fun hc => ?_) (fun hc => ?_)
      · refine ⟨(logL_eq m files hJ hL body _ st hc).symm, ?_⟩
        rw [← (renderL_le m files hJ body _ st).eq_of_ne hc]
        cases hr : renderL m files J ⟨rng.lo, some (idx + 1), false⟩ body st with
        | fuel => exact Pre.refl _
        | err e => exact Pre.refl _
        | ok r => exact hP _ _ _
      · have : renderL m files J ⟨rng.lo, some (idx + 1), false⟩ body st = .fuel := Classical.not_not.mp hc
        rw [this]
  | .cond c body, rng, st => by
    rw [logN_cond, logN_cond]
    cases hc : evalCond st c with
    | fuel => exact Pre.refl _
    | err e => exact Pre.refl _
    | ok b =>
      cases b with
      | true => exact logL_pre m files hJ hL hP body rng st
      | false => exact Pre.refl _
  | .loop x xs body, rng, st => by
    rw [logN_loop, logN_loop]
    cases hl : st.lookup xs with
    | none => exact Pre.refl _
    | some v =>
      exact logItems_pre x (fun s => renderL_le m files hJ body rng s)
        (fun s hs => logL_eq m files hJ hL body rng s hs) (fun s => logL_pre m files hJ hL hP body rng s) _ st
  | .call mn, rng, st => by
    rw [logN_call, logN_call]
    cases hm : st.macros.lookup mn with
    | none => exact Pre.refl _
    | some body => exact hP _ _ _
  | .select, rng, st => by
    rw [logN_select, logN_select]
    cases hs : st.sel with
    | nil => exact Pre.refl _
    | cons c _ => exact hP _ _ _
  | .include href cls hasFb fb pos, rng, st => by
    rw [logN_include, logN_include]
    cases he : evalHref st href with
    | fuel => exact Pre.refl _
    | err e => exact Pre.refl _
    | ok hh =>
      simp only
      cases hres : resolve pos hh with
      | none => exact Pre.refl _
      | some name =>
        simp only
        cases hl : loadT m files name cls st with
        | fuel => exact Pre.refl _
        | ok p =>
          obtain ⟨body, st1⟩ := p
          exact Pre.cons _ (hP _ _ _)
        | err e =>
          cases e with
          | notFound =>
            cases hasFb with
            | true => simp only [if_true]; exact logL_pre m files hJ hL hP fb rng.fresh st
            | false => exact Pre.refl _
          | syntaxErr => exact Pre.refl _
          | undefined => exact Pre.refl _
          | unmodelled => exact Pre.refl _
  | .inlined body, rng, st => by
    rw [logN_inlined, logN_inlined]
    exact hP _ _ _
termination_by structural n => n
theorem logL_pre (m : Mode) (files : Files) {J J' : RJ} {L L' : LJ} (hJ : JLe J J') (hL : LRel J L L') (hP : LPre L L') :
    ∀ (ns : List Node) (rng : Rng) (st : St), Pre (logL m files J L rng ns st) (logL m files J' L' rng ns st)
  | [], _, _ => Pre.refl _
  | n :: ns, rng, st => by
    rw [logL_cons, logL_cons]
    refine Pre.seq (renderN m files J rng n st ≠ .fuel) (logN_pre m files hJ hL hP n rng st) (fun hc => ?_) (fun hc => ?_)
    · refine ⟨(logN_eq m files hJ hL n rng st hc).symm, ?_⟩
      rw [← (renderN_le m files hJ n rng st).eq_of_ne hc]
      cases hr : renderN m files J rng n st with
      | fuel => exact Pre.refl _
      | err e => exact Pre.refl _
      | ok r => exact logL_pre m files hJ hL hP ns rng r.2
    · have : renderN m files J rng n st = .fuel := Classical.not_not.mp hc
      rw [this]
termination_by structural ns => ns
end

theorem logR_pre (m : Mode) (files : Files) : ∀ {f g : Nat}, f ≤ g → LPre (logR m files f) (logR m files g)
  | 0, _, _ => fun _ _ _ => Pre.nil _
  | f + 1, 0, h => by omega
  | f + 1, g + 1, h => fun rng ns st => by
    show Pre (logL m files (render m files f) (logR m files f) rng ns st) (logL m files (render m files g) (logR m files g) rng ns st)
    exact logL_pre m files (render_le m files (by omega)) (logR_eq m files (by omega)) (logR_pre m files (by omega)) ns rng st

theorem replayLoads_append (files : Files) : ∀ (l t : List Load) (c : Cache),
    replayLoads files c (l ++ t) = replayLoads files (replayLoads files c l) t
  | [], _, _ => rfl
  | a :: l, t, c => by
    simp only [List.cons_append, replayLoads]
    cases loadInl files a.1 a.2 c with
    | fuel => exact replayLoads_append files l t _
    | err e => exact replayLoads_append files l t _
    | ok r => exact replayLoads_append files l t _

end Genshi.Incl

/-
  C06 (wave 4, package `sanx`) — the re-parse clause beyond C08's tree hypotheses, XHTML method:
  forests whose leaves are also processing instructions and DOCTYPE declarations, through C08's
  events-level round trip `xhtml_roundtrip_prolog_partial` (`XhtmlOkAllP` / `foldXP`).

  What the filter establishes: no CDATA marker reaches the serializer (the reader state stays
  outside a section: `cd = none` throughout), a kept PI holds no `>` and therefore no `?>`
  (`piSafe true`).  What an XML tokenizer needs in addition and the filter does NOT establish is
  asked of the *sanitized* forest: no LF / TAB / CR in attribute values (`forestAttrVals`,
  finding C08-attr-ws, as in `xhtml_reparse_safe_partial`) and well-quoted DOCTYPE literals
  (`forestDtQuoted`: `dtScan true` — an XML parser is quote-aware inside a DOCTYPE, so a name
  like `a"b` (which no XML parser yields) would swallow what follows up to the next quote).
-/
import Genshi.Lemmas.SanReparseProlog
set_option linter.unusedSimpArgs false
namespace Genshi.San
open Genshi Genshi.San.Spec

mutual
  /-- every DOCTYPE leaf of the (sanitized) forest is a literal an XML tokenizer reads back whole
      (well quoted), and every XML declaration leaf one that holds no `?>` -/
  def treeDtQuoted : Node → Bool
    | .elem _ _ ks => forestDtQuoted ks
    | .leaf (.doctype n p s) => Reader.dtScan true none (Reader.doctypeContent n p s)
    | .leaf (.xmlDecl v e s) => Reader.piSafe true false (Reader.xmlDeclContent v e s)
    | .leaf _ => true
  def forestDtQuoted : List Node → Bool
    | [] => true
    | n :: ns => treeDtQuoted n && forestDtQuoted ns
end

/-- what the XML round trip asks of an event beyond `FEvGood` -/
def XExtra : Output.FEv → Prop
  | .start _ a => ∀ q ∈ a, Reader.attrValOkB q.2 = true
  | .empty _ a => ∀ q ∈ a, Reader.attrValOkB q.2 = true
  | .doctype n p s => Reader.dtScan true none (Reader.doctypeContent n p s) = true
  | .xmlDecl v e s => Reader.piSafe true false (Reader.xmlDeclContent v e s) = true
  | _ => True

theorem fAttrs_vals {a : AttrList} (h : ∀ b ∈ a, Reader.attrValOkB b.2 = true) :
    ∀ q ∈ Output.fAttrs a, Reader.attrValOkB q.2 = true := by
  intro q hq
  unfold Output.fAttrs at hq
  obtain ⟨b, hb, rfl⟩ := List.mem_map.mp hq
  exact h b hb

mutual
  theorem treeF_extra : ∀ (n : Node), treeAttrVals n = true → treeDtQuoted n = true →
      ∀ ev ∈ Output.treeF n, XExtra ev
    | .elem t a ks, hv, hq => by
      simp only [treeAttrVals, Bool.and_eq_true, List.all_eq_true] at hv
      have hq' : forestDtQuoted ks = true := by simpa [treeDtQuoted] using hq
      have ha := fAttrs_vals hv.1
      intro ev hev
      simp only [Output.treeF] at hev
      split at hev
      · simp at hev; subst hev; exact ha
      · simp only [List.mem_cons, List.mem_append, List.mem_singleton, List.not_mem_nil, or_false] at hev
        rcases hev with rfl | hev | rfl
        · exact ha
        · exact forestF_extra ks hv.2 hq' ev hev
        · trivial
    | .leaf e, _, hq => by
      intro ev hev
      cases e with
      | doctype n p s =>
        simp [Output.treeF, Output.leafF] at hev; subst hev
        have hq' : Reader.dtScan true none (Reader.doctypeContent n p s) = true := by simpa [treeDtQuoted] using hq
        exact hq'
      | text s f => simp [Output.treeF, Output.leafF] at hev; subst hev; trivial
      | comment c => simp [Output.treeF, Output.leafF] at hev; subst hev; trivial
      | pi t d => simp [Output.treeF, Output.leafF] at hev; subst hev; trivial
      | xmlDecl v e s =>
        simp [Output.treeF, Output.leafF] at hev; subst hev
        have hq' : Reader.piSafe true false (Reader.xmlDeclContent v e s) = true := by simpa [treeDtQuoted] using hq
        exact hq'
      | startCdata => simp [Output.treeF, Output.leafF] at hev; subst hev; trivial
      | endCdata => simp [Output.treeF, Output.leafF] at hev; subst hev; trivial
      | start _ _ => simp [Output.treeF, Output.leafF] at hev
      | end_ _ => simp [Output.treeF, Output.leafF] at hev
      | startNs _ _ => simp [Output.treeF, Output.leafF] at hev
      | endNs _ => simp [Output.treeF, Output.leafF] at hev
  theorem forestF_extra : ∀ (ns : List Node), forestAttrVals ns = true → forestDtQuoted ns = true →
      ∀ ev ∈ Output.forestF ns, XExtra ev
    | [], _, _ => by simp [Output.forestF]
    | n :: ns, hv, hq => by
      simp only [forestAttrVals, Bool.and_eq_true] at hv
      simp only [forestDtQuoted, Bool.and_eq_true] at hq
      intro ev hev
      simp only [Output.forestF, List.mem_append] at hev
      rcases hev with hev | hev
      · exact treeF_extra n hv.1 hq.1 ev hev
      · exact forestF_extra ns hv.2 hq.2 ev hev
end

/-! ### inside the hypotheses of C08's events-level round trip (xhtml) -/

theorem piSafe_xml_no_gt : ∀ (s : Str) (q : Bool), '>' ∉ s → Reader.piSafe true q s = true := by
  intro s
  induction s with
  | nil => intro q _; rfl
  | cons c cs ih =>
    intro q h
    have hc : c ≠ '>' := fun e => h (by simp [e])
    have hcs : '>' ∉ cs := fun e => h (by simp [e])
    simp only [Reader.piSafe, Bool.and_eq_true, Bool.not_eq_true']
    exact ⟨by simp [hc], ih _ hcs⟩

theorem xattrsOk_of_good {cfg : Cfg} (hm : CfgMarkupOk cfg) {al : AttrList} (ha : ∀ b ∈ al, AttrGood cfg b)
    (hx : ∀ q ∈ Output.fAttrs al, Reader.attrValOkB q.2 = true) : Reader.XAttrsOk (Output.fAttrs al) := by
  intro p hp
  refine ⟨?_, fun _ => hx p hp⟩
  rw [(fAttrs_plain hm ha).2] at hp
  obtain ⟨b, hb, rfl⟩ := List.mem_map.mp hp
  exact Reader.nameOk_of_B (hm.attrs _ (ha b hb).1).1

theorem fevGood_okX {cfg : Cfg} (hm : CfgMarkupOk cfg) (o : Output.Opts) {ev : Output.FEv} (h : FEvGood cfg ev)
    (hx : XExtra ev) (f : Reader.Flags) :
    Reader.XhtmlOkP o false f ev ∧ Reader.cdAfter false ev = false := by
  cases ev with
  | start t a =>
    obtain ⟨ht, al, rfl, ha⟩ := h
    obtain ⟨hn, _, _⟩ := hm.tags _ ht
    exact ⟨⟨Reader.nameOk_of_B hn, xattrsOk_of_good hm ha hx⟩, rfl⟩
  | empty t a =>
    obtain ⟨ht, al, rfl, ha⟩ := h
    obtain ⟨hn, _, _⟩ := hm.tags _ ht
    exact ⟨⟨Reader.nameOk_of_B hn, xattrsOk_of_good hm ha hx⟩, rfl⟩
  | end_ t => exact ⟨Reader.nameOk_of_B (hm.tags _ h).1, rfl⟩
  | text s fl =>
    have : fl = false := h
    subst this
    exact ⟨rfl, rfl⟩
  | pi t d =>
    refine ⟨?_, rfl⟩
    have h' : (List.contains t '>' || List.contains d '>') = false := h
    simp only [Bool.or_eq_false_iff] at h'
    show Reader.piSafe true false (t ++ ' ' :: d) = true
    apply piSafe_xml_no_gt
    intro hmem
    simp only [List.mem_append, List.mem_cons] at hmem
    rcases hmem with h1 | h1 | h1
    · have : List.contains t '>' = true := by simpa using h1
      rw [h'.1] at this; cases this
    · cases h1
    · have : List.contains d '>' = true := by simpa using h1
      rw [h'.2] at this; cases this
  | doctype n p s => exact ⟨fun _ => hx, rfl⟩
  | comment _ => exact absurd h (by simp [FEvGood])
  | xmlDecl _ _ _ => exact ⟨fun _ => hx, rfl⟩
  | startNs _ _ => exact absurd h (by simp [FEvGood])
  | endNs _ => exact absurd h (by simp [FEvGood])
  | startCdata => exact absurd h (by simp [FEvGood])
  | endCdata => exact absurd h (by simp [FEvGood])

theorem okAllXP_of_good {cfg : Cfg} (hm : CfgMarkupOk cfg) (o : Output.Opts) : ∀ (evs : List Output.FEv),
    (∀ ev ∈ evs, FEvGood cfg ev ∧ XExtra ev) → ∀ f, Reader.XhtmlOkAllP o false f evs := by
  intro evs
  induction evs with
  | nil => intro _ f; trivial
  | cons ev rest ih =>
    intro h f
    obtain ⟨h1, h2⟩ := fevGood_okX hm o (h ev (by simp)).1 (h ev (by simp)).2 f
    simp only [Reader.XhtmlOkAllP]
    rw [h2]
    exact ⟨h1, ih (fun e he => h e (by simp [he])) _⟩

/-- the reader never enters a CDATA section on a sanitized event list -/
theorem foldXP_cd_none {cfg : Cfg} (hm : CfgMarkupOk cfg) (o : Output.Opts) : ∀ (evs : List Output.FEv),
    (∀ ev ∈ evs, FEvGood cfg ev ∧ XExtra ev) → ∀ (r : Reader.RC) (f : Reader.Flags), r.cd = none →
      (Reader.foldXP o evs r f).1.cd = none := by
  intro evs
  induction evs with
  | nil => intro _ r f hr; simpa [Reader.foldXP] using hr
  | cons ev rest ih =>
    intro h r f hr
    obtain ⟨h1, h2⟩ := fevGood_okX hm o (h ev (by simp)).1 (h ev (by simp)).2 f
    have hfl := (Reader.xhtmlEvP_flags o r f ev (by rw [hr]; exact h1)).1
    rw [hr] at hfl
    simp only [Option.isSome_none, h2] at hfl
    have hcd : (Reader.xhtmlEvP o r f ev).1.cd = none := by
      cases hc : (Reader.xhtmlEvP o r f ev).1.cd with
      | none => rfl
      | some b => rw [hc] at hfl; cases hfl
    have := ih (fun e he => h e (by simp [he])) (Reader.xhtmlEvP o r f ev).1 (Reader.xhtmlEvP o r f ev).2 hcd
    simpa [Reader.foldXP] using this

/-! ### the guarantees, on the tokens read back -/

theorem xhtmlEvP_safe (hd : Genshi.Gen.SanClass.commentsDotall = true) {cfg : Cfg} (hm : CfgMarkupOk cfg)
    (hcss : CssNamesPlain cfg) (o : Output.Opts) {ev : Output.FEv} (hg : FEvGood cfg ev) (r : Reader.RC)
    (f : Reader.Flags) (hcd : r.cd = none) (hr : ∀ t ∈ r.toks, TokSafeP cfg t) :
    ∀ t ∈ (Reader.xhtmlEvP o r f ev).1.toks, TokSafeP cfg t := by
  obtain ⟨rcd, rbuf, rtoks⟩ := r
  simp only at hcd; subst hcd
  have hfl := flushToks_safeP (buf := rbuf) hr
  cases ev with
  | start t a =>
    obtain ⟨ht, al, rfl, ha⟩ := hg
    intro x hx
    simp only [Reader.xhtmlEvP, Reader.xhtmlEvC, Reader.RC.ofRS, Reader.RC.toRS, Reader.xhtmlEv, List.mem_cons] at hx
    rcases hx with rfl | hx
    · exact ⟨ht, xhtmlAttrToks_safe hd hm hcss ha⟩
    · exact hfl x hx
  | empty t a =>
    obtain ⟨ht, al, rfl, ha⟩ := hg
    intro x hx
    simp only [Reader.xhtmlEvP, Reader.xhtmlEvC, Reader.RC.ofRS, Reader.RC.toRS, Reader.xhtmlEv] at hx
    split at hx
    · simp only [List.mem_cons] at hx
      rcases hx with rfl | hx
      · exact ⟨ht, xhtmlAttrToks_safe hd hm hcss ha⟩
      · exact hfl x hx
    · simp only [List.mem_cons] at hx
      rcases hx with rfl | rfl | hx
      · exact ht
      · exact ⟨ht, xhtmlAttrToks_safe hd hm hcss ha⟩
      · exact hfl x hx
  | end_ t =>
    intro x hx
    simp only [Reader.xhtmlEvP, Reader.xhtmlEvC, Reader.RC.ofRS, Reader.RC.toRS, Reader.xhtmlEv, List.mem_cons] at hx
    rcases hx with rfl | hx
    · exact hg
    · exact hfl x hx
  | text s fl =>
    intro x hx
    simp only [Reader.xhtmlEvP, Reader.xhtmlEvC, Reader.RC.ofRS, Reader.RC.toRS, Reader.xhtmlEv] at hx
    exact hr x hx
  | pi t d =>
    intro x hx
    simp only [Reader.xhtmlEvP, List.mem_cons] at hx
    rcases hx with rfl | hx
    · trivial
    · exact hfl x hx
  | doctype n p s =>
    intro x hx
    simp only [Reader.xhtmlEvP] at hx
    split at hx
    · exact hr x hx
    · simp only [List.mem_cons] at hx
      rcases hx with rfl | hx
      · trivial
      · exact hfl x hx
  | comment _ => exact absurd hg (by simp [FEvGood])
  | xmlDecl v e s =>
    intro x hx
    simp only [Reader.xhtmlEvP] at hx
    split at hx
    · exact hr x hx
    · simp only [List.mem_cons] at hx
      rcases hx with rfl | hx
      · trivial
      · exact hfl x hx
  | startNs _ _ => exact absurd hg (by simp [FEvGood])
  | endNs _ => exact absurd hg (by simp [FEvGood])
  | startCdata => exact absurd hg (by simp [FEvGood])
  | endCdata => exact absurd hg (by simp [FEvGood])

theorem foldXP_safe (hd : Genshi.Gen.SanClass.commentsDotall = true) {cfg : Cfg} (hm : CfgMarkupOk cfg)
    (hcss : CssNamesPlain cfg) (o : Output.Opts) : ∀ (evs : List Output.FEv),
    (∀ ev ∈ evs, FEvGood cfg ev ∧ XExtra ev) →
    ∀ (r : Reader.RC) (f : Reader.Flags), r.cd = none → (∀ t ∈ r.toks, TokSafeP cfg t) →
      ∀ t ∈ (Reader.foldXP o evs r f).1.toks, TokSafeP cfg t := by
  intro evs
  induction evs with
  | nil => intro _ r f _ hr; simpa [Reader.foldXP] using hr
  | cons ev rest ih =>
    intro h r f hcd hr
    have h1 := xhtmlEvP_safe hd hm hcss o (h ev (by simp)).1 r f hcd hr
    have hcd' : (Reader.xhtmlEvP o r f ev).1.cd = none := by
      have := foldXP_cd_none hm o [ev] (by intro e he; simp only [List.mem_singleton] at he; rw [he]; exact h ev (by simp)) r f hcd
      simpa [Reader.foldXP] using this
    have := ih (fun e he => h e (by simp [he])) (Reader.xhtmlEvP o r f ev).1 (Reader.xhtmlEvP o r f ev).2 hcd' h1
    simpa [Reader.foldXP] using this

/-- every token of the expected XML reading of a sanitized event list carries the guarantees -/
theorem xhtmlExpectedP_safe (hd : Genshi.Gen.SanClass.commentsDotall = true) {cfg : Cfg} (hm : CfgMarkupOk cfg)
    (hcss : CssNamesPlain cfg) (o : Output.Opts) (evs : List Output.FEv)
    (h : ∀ ev ∈ evs, FEvGood cfg ev ∧ XExtra ev) :
    ∀ t ∈ Reader.xhtmlExpectedP o evs, TokSafeP cfg t := by
  intro t ht
  unfold Reader.xhtmlExpectedP at ht
  simp only [List.mem_reverse] at ht
  exact flushToks_safeP (foldXP_safe hd hm hcss o evs h {} {} rfl (by simp)) t ht

end Genshi.San

/-
  C02 — part C: the reader's view of a start tag written by the flattener.
-/
import Genshi.Lemmas.XmlFlatB
import Mathlib.Data.List.TakeDrop
namespace Genshi.Xml
open Genshi Genshi.Xml.Reader

/-! ### splitting names at the colon -/

theorem span_no_colon (l : Str) (h : ':' ∉ l) : l.span (· ≠ ':') = (l, []) := by
  rw [List.span_eq_takeWhile_dropWhile]
  induction l with
  | nil => simp
  | cons c cs ih =>
    have hc : c ≠ ':' := by intro e; apply h; simp [e]
    have hcs : ':' ∉ cs := by intro e; apply h; simp [e]
    have := ih hcs
    simp only [List.takeWhile_cons, List.dropWhile_cons, hc, ne_eq, not_false_eq_true,
      decide_true, if_true]
    simp only [Prod.mk.injEq] at this ⊢
    exact ⟨by rw [this.1], this.2⟩

theorem span_colon (p l : Str) (h : ':' ∉ p) : (p ++ ':' :: l).span (· ≠ ':') = (p, ':' :: l) := by
  rw [List.span_eq_takeWhile_dropWhile]
  induction p with
  | nil => simp
  | cons c cs ih =>
    have hc : c ≠ ':' := by intro e; apply h; simp [e]
    have hcs : ':' ∉ cs := by intro e; apply h; simp [e]
    have := ih hcs
    simp only [List.cons_append, List.takeWhile_cons, List.dropWhile_cons, hc, ne_eq, not_false_eq_true,
      decide_true, if_true]
    simp only [Prod.mk.injEq] at this ⊢
    exact ⟨by rw [this.1], this.2⟩

theorem locOK_parts {l : Str} (h : locOK l = true) :
    l ≠ [] ∧ ':' ∉ l ∧ (l.head?.map isNameStartBad).getD true = false := by
  unfold locOK at h
  simp only [Bool.and_eq_true, Bool.not_eq_true'] at h
  refine ⟨by intro e; simp [e] at h, ?_, h.2⟩
  have := h.1.2
  simpa using this

theorem splitQ_plain (l : Str) (h : ':' ∉ l) : splitQ l = some ([], l) := by
  unfold splitQ; rw [span_no_colon l h]

theorem splitQ_qualified (p l : Str) (hp : p ≠ []) (hpc : ':' ∉ p) (hl : locOK l = true) :
    splitQ (p ++ ':' :: l) = some (p, l) := by
  obtain ⟨h1, h2, h3⟩ := locOK_parts hl
  unfold splitQ
  rw [span_colon p l hpc]
  have e1 : p.isEmpty = false := by simpa using hp
  have e2 : l.isEmpty = false := by simpa using h1
  have e3 : List.elem ':' l = false := by simpa using h2
  simp [e1, e2, h2, h3]

/-! ### declarations among the attributes -/

theorem declLegal_prefix_facts {p u : Str} (hp : p ≠ []) (h : declLegal p u = true) :
    ':' ∉ p ∧ p ≠ xmlnsName ∧ u ≠ [] := by
  unfold declLegal at h
  have he : p.isEmpty = false := by simpa using hp
  simp only [he, Bool.false_eq_true, if_false, Bool.not_eq_true', Bool.or_eq_false_iff] at h
  obtain ⟨⟨⟨⟨⟨h1, h2⟩, h3⟩, _⟩, _⟩, _⟩ := h
  exact ⟨by simpa using h1, by simpa using h3, by simpa using h2⟩

theorem colon_not_mem_xmlns : ':' ∉ xmlnsName := by decide

theorem declOf_nsAttr (p u : Str) (h : declLegal p u = true) :
    declOf (nsAttrName p, u) = some (some (p, u)) := by
  unfold declOf nsAttrName
  by_cases hp : p = []
  · subst hp
    simp only [List.isEmpty_nil, if_true]
    rw [span_no_colon _ colon_not_mem_xmlns]
    simp [h]
  · have he : p.isEmpty = false := by simpa using hp
    simp only [he, Bool.false_eq_true, if_false]
    rw [span_colon _ _ colon_not_mem_xmlns]
    simp [he, h]

theorem declOf_plain (l v : Str) (h : ':' ∉ l) (hx : l ≠ xmlnsName) : declOf (l, v) = none := by
  unfold declOf
  simp only
  rw [span_no_colon l h]
  simp [hx]

theorem declOf_prefixed (p l v : Str) (h : ':' ∉ p) (hx : p ≠ xmlnsName) :
    declOf (p ++ ':' :: l, v) = none := by
  unfold declOf
  simp only
  rw [span_colon p l h]
  simp [hx]

theorem splitAttrs_plain (as : List (Str × Str)) (h : ∀ a ∈ as, declOf a = none) :
    splitAttrs as = some ([], as) := by
  induction as with
  | nil => rfl
  | cons a rest ih =>
    unfold splitAttrs
    rw [ih (fun x hx => h x (by simp [hx])), h a (by simp)]

theorem splitAttrs_decls (ds : List (Str × Str)) (hl : ∀ d ∈ ds, declLegal d.1 d.2 = true)
    (rest : List (Str × Str)) (r : Scope × List (Str × Str)) (hr : splitAttrs rest = some r) :
    splitAttrs (ds.map (fun d => (nsAttrName d.1, d.2)) ++ rest) = some (ds ++ r.1, r.2) := by
  induction ds with
  | nil => simpa using hr
  | cons d ds ih =>
    simp only [List.map_cons, List.cons_append]
    unfold splitAttrs
    rw [ih (fun x hx => hl x (by simp [hx])), declOf_nsAttr d.1 d.2 (hl d (by simp))]

/-! ### scopes -/

def proj (b : Binding) : Str × Str := (b.1, normUri b.2.1)

def scopeOf (bs : List Binding) : Scope := bs.map proj

theorem lookup_scopeOf (bs : List Binding) (p : Str) (hp : p ≠ []) :
    List.lookup p (scopeOf bs) = (uriOf bs p).map normUri := by
  induction bs with
  | nil => simp [scopeOf, uriOf, hp]
  | cons b bs ih =>
    obtain ⟨p', u, a⟩ := b
    simp only [scopeOf, List.map_cons, proj, List.lookup] at ih ⊢
    rw [uriOf_cons]
    by_cases e : p = p'
    · subst e; simp
    · have e1 : (p == p') = false := by simpa using e
      have e2 : ¬ p' = p := fun h => e h.symm
      simp only [e1, e2, if_false]
      exact ih

theorem lookup_scopeOf_nil (bs : List Binding) (u : Str) (h : uriOf bs [] = some u) :
    (List.lookup [] (scopeOf bs)).getD [] = normUri u := by
  induction bs with
  | nil =>
    simp only [uriOf, List.isEmpty_nil, if_true, Option.some.injEq] at h
    subst h
    simp [scopeOf, normUri, noneUri]
  | cons b bs ih =>
    obtain ⟨p', u', a⟩ := b
    simp only [scopeOf, List.map_cons, proj, List.lookup] at ih ⊢
    rw [uriOf_cons] at h
    by_cases e : p' = []
    · subst e; simp at h; subst h; simp
    · have e1 : (([] : Str) == p') = false := by
        simp; exact fun h => e h
      simp only [e, if_false] at h
      simp only [e1]
      exact ih h

theorem bound_prefix_facts {bs : List Binding} (hb : BindingsOK bs) {p u : Str} (hp : p ≠ [])
    (h : uriOf bs p = some u) : ':' ∉ p ∧ p ≠ xmlnsName ∧ normUri u ≠ [] := by
  obtain ⟨a, ha⟩ := uriOf_some_mem bs p u hp h
  have := hb _ ha
  unfold legalB at this
  exact declLegal_prefix_facts hp this

/-! ### names read back -/

theorem resolveElem_of_tagRes {bs : List Binding} (hb : BindingsOK bs) {name : Str} {tag : QName}
    (h : TagRes bs name tag) (htag : tagOK tag = true) :
    resolveElem (scopeOf bs) name = some tag := by
  have htag' : locOK tag.loc = true ∧ nsOK tag.ns = true := by
    unfold tagOK at htag; simpa using htag
  obtain ⟨l1, l2, l3⟩ := locOK_parts htag'.1
  obtain ⟨hns1, _⟩ := nsOK_ne htag'.2
  unfold TagRes at h
  by_cases hn : tag.ns = []
  · rw [if_pos hn] at h
    obtain ⟨h1, u, h2, h3⟩ := h
    unfold resolveElem
    rw [h1, splitQ_plain _ l2]
    simp only
    rw [lookup_scopeOf_nil bs u h2, normUri_falsy h3]
    cases tag; simp_all
  · rw [if_neg hn] at h
    obtain ⟨p, h1, h2⟩ := h
    unfold resolveElem
    by_cases hp : p = []
    · subst hp
      rw [h1]
      simp only [qualify, List.isEmpty_nil, if_true]
      rw [splitQ_plain _ l2]
      simp only
      rw [lookup_scopeOf_nil bs _ h2, normUri_of_ne hns1]
    · obtain ⟨f1, _, f3⟩ := bound_prefix_facts hb hp h2
      have he : p.isEmpty = false := by simpa using hp
      rw [h1]
      simp only [qualify, he, Bool.false_eq_true, if_false]
      rw [splitQ_qualified p tag.loc hp f1 htag'.1]
      cases p with
      | nil => exact absurd rfl hp
      | cons c cs =>
        simp only
        rw [lookup_scopeOf bs _ hp, h2]
        simp only [Option.map_some]
        rw [normUri_of_ne hns1] at f3 ⊢
        have : tag.ns.isEmpty = false := by simpa using hn
        simp [this]

theorem resolveAttrs_of_res {bs : List Binding} (hb : BindingsOK bs) :
    ∀ {out : List (Str × Str)} {attrs : AttrList},
      List.Forall₂ (AttrRes bs) out attrs → (∀ a ∈ attrs, attrOK a = true) →
      resolveAttrs (scopeOf bs) (normAttrs out) = some attrs ∧
      ∀ o ∈ normAttrs out, declOf o = none := by
  intro out attrs h
  induction h with
  | nil => intro _; exact ⟨rfl, by simp [normAttrs]⟩
  | @cons o a out attrs h1 _ ih =>
    intro hok
    obtain ⟨i1, i2⟩ := ih (fun x hx => hok x (by simp [hx]))
    obtain ⟨hloc, hns, hxm, hv⟩ := attrOK_parts (hok a (by simp))
    obtain ⟨l1, l2, l3⟩ := locOK_parts hloc
    obtain ⟨hns1, _⟩ := nsOK_ne hns
    obtain ⟨on, ov⟩ := o
    obtain ⟨aq, av⟩ := a
    unfold AttrRes at h1
    simp only at h1 hv hxm l1 l2 l3 hns1 hloc
    obtain ⟨hval, hname⟩ := h1
    subst hval
    simp only [normAttrs, List.map_cons] at i1 i2 ⊢
    rw [normUri_of_ne hv]
    by_cases hn : aq.ns = []
    · rw [if_pos hn] at hname
      subst hname
      constructor
      · unfold resolveAttrs resolveAttr
        rw [splitQ_plain _ l2, i1]
        cases aq; simp_all
      · intro x hx
        rcases List.mem_cons.mp hx with rfl | hx
        · exact declOf_plain _ _ l2 (fun e => hxm ⟨hn, e⟩)
        · exact i2 x hx
    · rw [if_neg hn] at hname
      obtain ⟨p, hp, hname, hu⟩ := hname
      subst hname
      obtain ⟨f1, f2, f3⟩ := bound_prefix_facts hb hp hu
      constructor
      · unfold resolveAttrs resolveAttr
        rw [splitQ_qualified p aq.loc hp f1 hloc, i1]
        cases p with
        | nil => exact absurd rfl hp
        | cons c cs =>
          simp only
          rw [lookup_scopeOf bs _ hp, hu]
          simp only [Option.map_some]
          rw [normUri_of_ne hns1] at f3 ⊢
          have : aq.ns.isEmpty = false := by simpa using hn
          simp [this]
      · intro x hx
        rcases List.mem_cons.mp hx with rfl | hx
        · exact declOf_prefixed _ _ _ f1 f2
        · exact i2 x hx

end Genshi.Xml

/-
  `FilterTransformation` with a filter that keeps balanced input balanced:
  on a `Good` stream the output is balanced the same way and `Good` again.
  (The event that ends an OUTSIDE run is yielded as it is; a selected element
  directly behind such a run therefore passes unfiltered.)
-/
import Genshi.Lemmas.TfBufBal
namespace Genshi.Tf

/-- the stream filter keeps balanced event lists balanced -/
def FOk (f : List MEv → List MEv) : Prop := ∀ q, BalE q → BalE (f q)

theorem unmark_flush (f : List MEv → List MEv) (q : List MEv) : unmark (flush f q) = evsOf (f q) := by
  unfold flush
  induction f q with
  | nil => rfl
  | cons x l ih => cases x <;> simp_all [unmark, evsOf]

theorem flush_uniform (f : List MEv → List MEv) (q : List MEv) : Uniform .outside (flush f q) := by
  intro p hp; simp [flush] at hp; obtain ⟨_, _, rfl⟩ := hp; rfl

section fil
variable (f : List MEv → List MEv)

theorem filterGo_inOutside_block (blk R : MStream) (h : Uniform .outside blk) :
    ∀ q, filterGo f .inOutside q (blk ++ R) = filterGo f .inOutside (q ++ blk.map (·.2)) R := by
  induction blk with
  | nil => intro q; simp
  | cons p blk ih =>
    intro q
    obtain ⟨m, x⟩ := p
    have hm : m = some .outside := h (m, x) (by simp)
    have hu : Uniform .outside blk := fun r hr => h r (by simp [hr])
    subst hm
    simp [filterGo, ih hu]

theorem filterGo_inEnter_mid (mid : MStream) (x : MEv) (R : MStream) (h : NoExit mid) :
    ∀ q, filterGo f .inEnter q (mid ++ (some .exit, x) :: R) =
      flush f (q ++ (mid.map (·.2) ++ [x])) ++ filterGo f .idle [] R := by
  induction mid with
  | nil => intro q; simp [filterGo]
  | cons p mid ih =>
    intro q
    obtain ⟨m, y⟩ := p
    have hp : m ≠ some .exit := h (m, y) (by simp)
    have hu : NoExit mid := fun r hr => h r (by simp [hr])
    simp [filterGo, hp, ih hu]

theorem filterGo_idle_block (m : Mark) (hne : m ≠ .enter) (hno : m ≠ .outside) (blk R : MStream)
    (h : Uniform m blk) : filterGo f .idle [] (blk ++ R) = blk ++ filterGo f .idle [] R := by
  induction blk with
  | nil => rfl
  | cons p blk ih =>
    obtain ⟨m', x⟩ := p
    have hm : m' = some m := h (m', x) (by simp)
    have hu : Uniform m blk := fun r hr => h r (by simp [hr])
    subst hm
    have h1 : (some m = some Mark.enter) = False := by simp [hne]
    have h2 : (some m = some Mark.outside) = False := by simp [hno]
    simp [filterGo, h1, h2, ih hu]

end fil

/-- what is known about the rest of the stream: whichever of the two boundary states the
    generator is in, its output is balanced like `T` -/
structure FClaim (f : List MEv → List MEv) (R : MStream) (T : Stream) : Prop where
  idle : ∀ st, balance st (unmark (filterGo f .idle [] R)) = balance st T
  out : ∀ q, BalE q → ∀ st, balance st (unmark (filterGo f .inOutside q R)) = balance st T

theorem FClaim.congr {f : List MEv → List MEv} {R : MStream} {T T' : Stream}
    (h : ∀ st, balance st T = balance st T') (c : FClaim f R T) : FClaim f R T' :=
  ⟨fun st => by rw [c.idle st, h st], fun q hq st => by rw [c.out q hq st, h st]⟩

theorem FClaim.nil {f : List MEv → List MEv} (hf : FOk f) : FClaim f [] [] := by
  refine ⟨fun st => by simp [filterGo, unmark], fun q hq st => ?_⟩
  simp only [filterGo]
  split
  · simp [unmark]
  · rw [unmark_flush]
    have := balance_bal st (hf q hq) []
    simpa using this

/-- an item the outer loop passes on (any mark but ENTER / OUTSIDE) -/
theorem FClaim.pass {f : List MEv → List MEv} (hf : FOk f) {R : MStream} {T : Stream} (m : Option Mark)
    (x : MEv) (h1 : m ≠ some .enter) (h2 : m ≠ some .outside) (c : FClaim f R T) :
    FClaim f ((m, x) :: R) (unmark [(m, x)] ++ T) := by
  have key : ∀ st, balance st (unmark ((m, x) :: filterGo f .idle [] R)) =
      balance st (unmark [(m, x)] ++ T) := by
    intro st
    rw [balance_unmark_cons, balance_unmark_cons_app]
    cases effStep (eff x) st with
    | none => rfl
    | some st' => simp [unmark, c.idle st']
  constructor
  · intro st
    simp only [filterGo, h1, h2, ↓reduceIte]
    exact key st
  · intro q hq st
    simp only [filterGo, h2, ↓reduceIte, unmark_append, unmark_flush]
    rw [balance_bal st (hf q hq)]
    exact key st

theorem FClaim.outsideBlock {f : List MEv → List MEv} {R : MStream} {T : Stream} (blk : MStream)
    (hu : Uniform .outside blk) (hb : Bal (unmark blk)) (c : FClaim f R T) : FClaim f (blk ++ R) T := by
  cases blk with
  | nil => simpa using c
  | cons p blk =>
    obtain ⟨m, x⟩ := p
    have hm : m = some .outside := hu (m, x) (by simp)
    have hu' : Uniform .outside blk := fun r hr => hu r (by simp [hr])
    subst hm
    constructor
    · intro st
      have : filterGo f .idle [] (((some Mark.outside, x) :: blk) ++ R) =
          filterGo f .inOutside ([] ++ ((some Mark.outside, x) :: blk).map (·.2)) R := by
        simp [filterGo, filterGo_inOutside_block f blk R hu']
      rw [this]
      exact c.out _ (by simpa using BalE.ofBlock hb) st
    · intro q hq st
      rw [filterGo_inOutside_block f _ R hu]
      exact c.out _ (hq.append (BalE.ofBlock hb)) st

theorem FClaim.otherBlock {f : List MEv → List MEv} (hf : FOk f) {R : MStream} {T : Stream} (m : Mark)
    (blk : MStream) (hne : m ≠ .enter) (hno : m ≠ .outside) (hu : Uniform m blk) (c : FClaim f R T) :
    FClaim f (blk ++ R) (unmark blk ++ T) := by
  induction blk with
  | nil => simpa [unmark] using c
  | cons p blk ih =>
    obtain ⟨m', x⟩ := p
    have hm : m' = some m := hu (m', x) (by simp)
    have hu' : Uniform m blk := fun r hr => hu r (by simp [hr])
    subst hm
    have := FClaim.pass hf (some m) x (by simp [hne]) (by simp [hno]) (ih hu')
    refine FClaim.congr (fun st => ?_) this
    cases x <;> simp [unmark]

theorem FClaim.flat {f : List MEv → List MEv} (hf : FOk f) {mid : MStream} (hm : Flat mid) {R : MStream}
    {T : Stream} (c : FClaim f R T) : FClaim f (mid ++ R) (unmark mid ++ T) := by
  induction hm with
  | nil => simpa [unmark] using c
  | @plain x s' _ ih =>
    have := FClaim.pass hf none x (by simp) (by simp) ih
    refine FClaim.congr (fun st => ?_) this
    cases x <;> simp [unmark]
  | @block m blk s' hne hnx hu hb _ ih =>
    rw [List.append_assoc]
    by_cases hmo : m = .outside
    · subst hmo
      refine FClaim.congr (fun st => ?_) (FClaim.outsideBlock blk hu hb ih)
      rw [unmark_append, List.append_assoc, balance_bal st hb]
    · refine FClaim.congr (fun st => ?_) (FClaim.otherBlock hf m blk hne hmo hu ih)
      rw [unmark_append, List.append_assoc]

theorem FClaim.elem {f : List MEv → List MEv} (hf : FOk f) {R : MStream} {T : Stream} (t : QName)
    (a : AttrList) (mid : MStream) (hm : Flat mid) (hb : Bal (unmark mid)) (c : FClaim f R T) :
    FClaim f ((some .enter, .ev (.start t a)) :: (mid ++ (some .exit, .ev (.end_ t)) :: R)) T := by
  have hE : BalE (([] ++ [MEv.ev (.start t a)]) ++ (mid.map (·.2) ++ [MEv.ev (.end_ t)])) := by
    unfold BalE
    have := bal_elem t a hb
    simpa [evsOf, evsOf_append, evsOf_map_snd] using this
  constructor
  · intro st
    have : filterGo f .idle [] ((some Mark.enter, MEv.ev (.start t a)) :: (mid ++ (some Mark.exit, MEv.ev (.end_ t)) :: R)) =
        flush f (([] ++ [MEv.ev (.start t a)]) ++ (mid.map (·.2) ++ [MEv.ev (.end_ t)])) ++ filterGo f .idle [] R := by
      simp only [filterGo, ↓reduceIte]
      exact filterGo_inEnter_mid f mid _ R hm.noExit _
    rw [this, unmark_append, unmark_flush, balance_bal st (hf _ hE)]
    exact c.idle st
  · intro q hq st
    have h1 : (some Mark.enter = some Mark.outside) = False := by simp
    simp only [filterGo, h1, ↓reduceIte, unmark_append, unmark_flush]
    rw [balance_bal st (hf q hq)]
    -- the element passes: its interior is handled by the outer loop
    have cx : FClaim f ((some Mark.exit, MEv.ev (.end_ t)) :: R) (unmark [(some Mark.exit, MEv.ev (.end_ t))] ++ T) :=
      FClaim.pass hf (some .exit) _ (by simp) (by simp) c
    have cm := FClaim.flat hf hm cx
    rw [balance_unmark_cons]
    simp only [eff, effStep, Option.bind_some]
    rw [cm.idle]
    have := balance_bal st (bal_elem t a hb) T
    simpa [unmark, balance] using this

theorem filter_claim {f : List MEv → List MEv} (hf : FOk f) {s : MStream} (hg : Good s) :
    FClaim f s (unmark s) := by
  induction hg with
  | nil => exact FClaim.nil hf
  | @plain x s' _ ih =>
    have := FClaim.pass hf none x (by simp) (by simp) ih
    refine FClaim.congr (fun st => ?_) this
    cases x <;> simp [unmark]
  | @block m blk s' hne hnx hu hb _ ih =>
    by_cases hmo : m = .outside
    · subst hmo
      refine FClaim.congr (fun st => ?_) (FClaim.outsideBlock blk hu hb ih)
      rw [unmark_append, balance_bal st hb]
    · refine FClaim.congr (fun st => ?_) (FClaim.otherBlock hf m blk hne hmo hu ih)
      rw [unmark_append]
  | @elem t a mid s' hf' hb _ ih =>
    refine FClaim.congr (fun st => ?_) (FClaim.elem hf t a mid hf' hb ih)
    rw [unmark_elem, balance_bal st (bal_elem t a hb)]

theorem filter_balance {f : List MEv → List MEv} (hf : FOk f) {s : MStream} (hg : Good s) :
    ∀ st, balance st (unmark (filterGo f .idle [] s)) = balance st (unmark s) :=
  (filter_claim hf hg).idle


/-! ### the output is `Good` again -/

theorem good_flush {f : List MEv → List MEv} (hf : FOk f) {q : List MEv} (hq : BalE q) {s : MStream}
    (h : Good s) : Good (flush f q ++ s) :=
  Good.block .outside (flush f q) (by decide) (by decide) (flush_uniform f q)
    (by rw [unmark_flush]; exact hf q hq) h

theorem flat_flush {f : List MEv → List MEv} (hf : FOk f) {q : List MEv} (hq : BalE q) {s : MStream}
    (h : Flat s) : Flat (flush f q ++ s) :=
  Flat.block .outside (flush f q) (by decide) (by decide) (flush_uniform f q)
    (by rw [unmark_flush]; exact hf q hq) h

/-- balanced the same way in every context -/
def BalEq (a b : MStream) : Prop := ∀ st Z, balance st (unmark a ++ Z) = balance st (unmark b ++ Z)

theorem BalEq.refl (a : MStream) : BalEq a a := fun _ _ => rfl

theorem BalEq.cons (p : MItem) {a b : MStream} (h : BalEq a b) : BalEq (p :: a) (p :: b) := by
  intro st Z
  obtain ⟨m, x⟩ := p
  rw [balance_unmark_cons_app, balance_unmark_cons_app]
  cases effStep (eff x) st with
  | none => rfl
  | some st' => simp [h st' Z]

theorem BalEq.append_left (l : MStream) {a b : MStream} (h : BalEq a b) : BalEq (l ++ a) (l ++ b) := by
  induction l with
  | nil => exact h
  | cons p l ih => exact BalEq.cons p ih

theorem BalEq.dropLeft {l a b : MStream} (hl : Bal (unmark l)) (h : BalEq a b) : BalEq (l ++ a) b := by
  intro st Z
  rw [unmark_append, List.append_assoc, balance_bal st hl]; exact h st Z

theorem BalEq.addRight {l a b : MStream} (hl : Bal (unmark l)) (h : BalEq a b) : BalEq a (l ++ b) := by
  intro st Z
  rw [unmark_append, List.append_assoc, balance_bal st hl]; exact h st Z

/-- the interior of a bracket that the outer loop walks through (after an OUTSIDE run) -/
theorem filter_mid {f : List MEv → List MEv} (hf : FOk f) {mid : MStream} (hm : Flat mid) :
    (∃ mid', Flat mid' ∧ BalEq mid' mid ∧ ∀ x R, filterGo f .idle [] (mid ++ (some .exit, x) :: R) =
        mid' ++ (some .exit, x) :: filterGo f .idle [] R) ∧
    (∀ q, BalE q → ∃ mid', Flat mid' ∧ BalEq mid' mid ∧ ∀ x R,
        filterGo f .inOutside q (mid ++ (some .exit, x) :: R) =
        mid' ++ (some .exit, x) :: filterGo f .idle [] R) := by
  induction hm with
  | nil =>
    refine ⟨⟨[], Flat.nil, BalEq.refl _, fun x R => by simp [filterGo]⟩, fun q hq => ?_⟩
    refine ⟨flush f q, by simpa using flat_flush hf hq Flat.nil, ?_, fun x R => by simp [filterGo]⟩
    intro st Z
    rw [unmark_flush, balance_bal st (hf q hq)]; rfl
  | @plain y s' _ ih =>
    obtain ⟨⟨m1, f1, b1, e1⟩, _⟩ := ih
    refine ⟨⟨(none, y) :: m1, Flat.plain y f1, BalEq.cons _ b1, fun x R => by simp [filterGo, e1]⟩,
      fun q hq => ?_⟩
    refine ⟨flush f q ++ (none, y) :: m1, flat_flush hf hq (Flat.plain y f1), ?_,
      fun x R => by simp [filterGo, e1]⟩
    exact BalEq.dropLeft (by rw [unmark_flush]; exact hf q hq) (BalEq.cons _ b1)
  | @block m blk s' hne hnx hu hb _ ih =>
    obtain ⟨⟨m1, f1, b1, e1⟩, ihout⟩ := ih
    cases blk with
    | nil => exact ⟨⟨m1, f1, by simpa using b1, by simpa using e1⟩, by simpa using ihout⟩
    | cons p blk =>
      obtain ⟨m', y⟩ := p
      have hm' : m' = some m := hu (m', y) (by simp)
      have hu' : Uniform m blk := fun r hr => hu r (by simp [hr])
      subst hm'
      by_cases hmo : m = .outside
      · subst hmo
        constructor
        · obtain ⟨m2, f2, b2, e2⟩ := ihout (([] : List MEv) ++ ((some Mark.outside, y) :: blk).map (·.2))
            (by simpa using BalE.ofBlock hb)
          refine ⟨m2, f2, BalEq.addRight hb b2, fun x R => ?_⟩
          rw [← e2 x R]
          simp only [List.cons_append, List.append_assoc, filterGo]
          simp [filterGo_inOutside_block f blk _ hu']
        · intro q hq
          obtain ⟨m2, f2, b2, e2⟩ := ihout (q ++ ((some Mark.outside, y) :: blk).map (·.2))
            (hq.append (BalE.ofBlock hb))
          refine ⟨m2, f2, BalEq.addRight hb b2, fun x R => ?_⟩
          rw [← e2 x R, List.append_assoc, filterGo_inOutside_block f _ _ hu]
      · have h1 : (some m = some Mark.enter) = False := by simp [hne]
        have h2 : (some m = some Mark.outside) = False := by simp [hmo]
        constructor
        · refine ⟨((some m, y) :: blk) ++ m1, Flat.block m _ hne hnx hu hb f1, BalEq.append_left _ b1,
            fun x R => ?_⟩
          rw [List.append_assoc, filterGo_idle_block f m hne hmo _ _ hu, e1, List.append_assoc]
        · intro q hq
          refine ⟨flush f q ++ (((some m, y) :: blk) ++ m1), flat_flush hf hq (Flat.block m _ hne hnx hu hb f1),
            BalEq.dropLeft (by rw [unmark_flush]; exact hf q hq) (BalEq.append_left _ b1), fun x R => ?_⟩
          simp only [List.cons_append, List.append_assoc, filterGo, h2, ↓reduceIte]
          rw [filterGo_idle_block f m hne hmo _ _ hu', e1]

structure GClaim (f : List MEv → List MEv) (R : MStream) : Prop where
  idle : Good (filterGo f .idle [] R)
  out : ∀ q, BalE q → Good (filterGo f .inOutside q R)

theorem filter_gclaim {f : List MEv → List MEv} (hf : FOk f) {s : MStream} (hg : Good s) : GClaim f s := by
  induction hg with
  | nil =>
    refine ⟨by simpa [filterGo] using Good.nil, fun q hq => ?_⟩
    simp only [filterGo]
    split
    · exact Good.nil
    · simpa using good_flush hf hq Good.nil
  | @plain x s' _ ih =>
    refine ⟨by simpa [filterGo] using Good.plain x ih.idle, fun q hq => ?_⟩
    simp only [filterGo]
    have : ((none : Option Mark) = some Mark.outside) = False := by simp
    simp only [this, ↓reduceIte]
    exact good_flush hf hq (Good.plain x ih.idle)
  | @block m blk s' hne hnx hu hb _ ih =>
    cases blk with
    | nil => simpa using ih
    | cons p blk =>
      obtain ⟨m', y⟩ := p
      have hm' : m' = some m := hu (m', y) (by simp)
      have hu' : Uniform m blk := fun r hr => hu r (by simp [hr])
      subst hm'
      by_cases hmo : m = .outside
      · subst hmo
        constructor
        · have : filterGo f .idle [] (((some Mark.outside, y) :: blk) ++ s') =
              filterGo f .inOutside ([] ++ ((some Mark.outside, y) :: blk).map (·.2)) s' := by
            simp [filterGo, filterGo_inOutside_block f blk s' hu']
          rw [this]; exact ih.out _ (by simpa using BalE.ofBlock hb)
        · intro q hq
          rw [filterGo_inOutside_block f _ s' hu]
          exact ih.out _ (hq.append (BalE.ofBlock hb))
      · have h2 : (some m = some Mark.outside) = False := by simp [hmo]
        constructor
        · rw [filterGo_idle_block f m hne hmo _ _ hu]
          exact Good.block m _ hne hnx hu hb ih.idle
        · intro q hq
          simp only [List.cons_append, filterGo, h2, ↓reduceIte]
          rw [filterGo_idle_block f m hne hmo _ _ hu']
          exact good_flush hf hq (by simpa using Good.block m _ hne hnx hu hb ih.idle)
  | @elem t a mid s' hf' hb _ ih =>
    have hE : BalE (([] ++ [MEv.ev (.start t a)]) ++ (mid.map (·.2) ++ [MEv.ev (.end_ t)])) := by
      unfold BalE
      have := bal_elem t a hb
      simpa [evsOf, evsOf_append, evsOf_map_snd] using this
    constructor
    · have : filterGo f .idle [] ((some Mark.enter, MEv.ev (.start t a)) :: (mid ++ (some Mark.exit, MEv.ev (.end_ t)) :: s')) =
          flush f (([] ++ [MEv.ev (.start t a)]) ++ (mid.map (·.2) ++ [MEv.ev (.end_ t)])) ++ filterGo f .idle [] s' := by
        simp only [filterGo, ↓reduceIte]
        exact filterGo_inEnter_mid f mid _ s' hf'.noExit _
      rw [this]; exact good_flush hf hE ih.idle
    · intro q hq
      have h1 : (some Mark.enter = some Mark.outside) = False := by simp
      simp only [filterGo, h1, ↓reduceIte]
      obtain ⟨⟨m1, f1, b1, e1⟩, _⟩ := filter_mid hf hf'
      rw [e1]
      refine good_flush hf hq (Good.elem t a m1 f1 ?_ ih.idle)
      have := b1 [] []
      simp only [List.append_nil] at this
      unfold Bal; rw [this]; exact hb

theorem filter_good {f : List MEv → List MEv} (hf : FOk f) {s : MStream} (hg : Good s) :
    Good (filterGo f .idle [] s) := (filter_gclaim hf hg).idle

/-! ### the two filters the correspondence drives -/

theorem fok_id : FOk id := fun _ h => h

theorem balance_dropComments (q : List MEv) :
    ∀ st, balance st (evsOf (dropComments q)) = balance st (evsOf q) := by
  induction q with
  | nil => intro st; rfl
  | cons x q ih =>
    intro st
    cases x with
    | attr t a => simpa [dropComments, evsOf] using ih st
    | brk => simpa [dropComments, evsOf] using ih st
    | ev e =>
      cases e with
      | comment t =>
        have : balance st (evsOf (MEv.ev (Event.comment t) :: q)) = balance st (evsOf q) := by
          simp only [evsOf]; exact balance_skip _ (by rfl) st _
        rw [this, ← ih st]; simp [dropComments]
      | _ =>
        simp only [dropComments, List.filter_cons, evsOf]
        exact balance_cons_congr _ (fun st => by simpa [dropComments] using ih st) st

theorem fok_dropComments : FOk dropComments := by
  intro q hq
  unfold BalE Bal at *
  rw [balance_dropComments]; exact hq

end Genshi.Tf

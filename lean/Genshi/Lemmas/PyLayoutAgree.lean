/-
  C13 — `textOKB` (no expression statement / assignment writes an empty line) from the hypotheses on the tree, so that
  the agreement of the character model and the token model on the line structure holds for supported programs.
-/
import Genshi.Lemmas.PyLayoutText
import Genshi.Lemmas.PyLayoutLines
set_option linter.unusedSimpArgs false
namespace Genshi.Py
open Genshi.Gen

theorem ne_nil_of_headOKc {t : List Char} (h : headOKc t = true) : t.isEmpty = false := by
  cases t with
  | nil => simp [headOKc] at h
  | cons c r => rfl

mutual
theorem textOKS_of : ∀ (s : PyStmt), WFS s → charsOKS s = true → textOKS s = true
  | .expr e, hw, h => by
      simp only [WFS] at hw
      simp only [charsOKS] at h
      simp only [textOKS, ne_nil_of_headOKc (supported_headC hw h)]
      rfl
  | .assign ts v, hw, h => by
      simp only [WFS] at hw
      simp only [charsOKS, Bool.and_eq_true] at h
      have : headOKc (genListC [] cs!" = " ts ++ genC v) = true := by
        cases ts with
        | nil => exact absurd rfl hw.1
        | cons t r =>
          simp only [charsOKL, Bool.and_eq_true] at h
          simp only [genListC, List.nil_append, List.append_assoc]
          exact headOKc_append _ (supported_headC (hw.2.1 t (by simp)) h.1.1)
      simp only [textOKS, ne_nil_of_headOKc this]
      rfl
  | .augAssign _ _ _, _, _ => rfl
  | .return_ _, _, _ => rfl
  | .delete _, _, _ => rfl
  | .pass_, _, _ => rfl
  | .break_, _, _ => rfl
  | .continue_, _, _ => rfl
  | .assert_ _ _, _, _ => rfl
  | .raise_ _ _, _, _ => rfl
  | .global_ _, _, _ => rfl
  | .import_ _, _, _ => rfl
  | .importFrom _ _ _, _, _ => rfl
  | .if_ t b o, hw, h => by
      simp only [WFS] at hw
      simp only [charsOKS, Bool.and_eq_true] at h
      simp [textOKS, textOKB_of b hw.2.1 h.1.2, textOKB_of o hw.2.2.1 h.2]
  | .while_ t b o, hw, h => by
      simp only [WFS] at hw
      simp only [charsOKS, Bool.and_eq_true] at h
      simp [textOKS, textOKB_of b hw.2.1 h.1.2, textOKB_of o hw.2.2.1 h.2]
  | .for_ t it b o, hw, h => by
      simp only [WFS] at hw
      simp only [charsOKS, Bool.and_eq_true] at h
      simp [textOKS, textOKB_of b hw.2.2.1 h.1.2, textOKB_of o hw.2.2.2.1 h.2]
  | .with_ items b, hw, h => by
      simp only [WFS] at hw
      simp only [charsOKS, Bool.and_eq_true] at h
      simp [textOKS, textOKB_of b hw.2.2.1 h.2]
  | .try_ b hs o f, hw, h => by
      simp only [WFS] at hw
      simp only [charsOKS, Bool.and_eq_true] at h
      simp [textOKS, textOKB_of b hw.1 h.1.1.1, textOKB_of hs hw.2.1 h.1.1.2, textOKB_of o hw.2.2.2.1 h.1.2,
        textOKB_of f hw.2.2.2.2.1 h.2]
  | .handler t n b, hw, h => by
      simp only [WFS] at hw
      simp only [charsOKS, Bool.and_eq_true] at h
      simp [textOKS, textOKB_of b hw.2.2.1 h.2]
  | .functionDef name po ar va ko ka body decos ret tp, hw, h => by
      simp only [WFS] at hw
      simp only [charsOKS, Bool.and_eq_true] at h
      simp [textOKS, textOKB_of body hw.2.2.1 h.1.1.2]
  | .classDef name bases kws body decos tp, hw, h => by
      simp only [WFS] at hw
      simp only [charsOKS, Bool.and_eq_true] at h
      simp [textOKS, textOKB_of body hw.2.2.2.2.2.1 h.1.2]
  | .unsupported _, _, _ => rfl
theorem textOKB_of : ∀ (ss : List PyStmt), WFSL ss → charsOKB ss = true → textOKB ss = true
  | [], _, _ => rfl
  | s :: ss, hw, h => by
      simp only [WFSL] at hw
      simp only [charsOKB, Bool.and_eq_true] at h
      simp [textOKB, textOKS_of s hw.1 h.1, textOKB_of ss hw.2 h.2]
end

end Genshi.Py

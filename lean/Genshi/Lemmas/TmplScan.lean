/-
  C04: lemmas about the character-level scanners of the text templates (`Model/TmplScan.lean`):
  losslessness (the tokens' source texts concatenate to the input), the printer round trip, text
  without directives reaches the stream verbatim.
-/
import Genshi.Model.TmplScan
namespace Genshi.Tmpl.Scan
open Genshi.San (isReSpace isReWord isSpace)

/-! ### (a) losslessness -/

theorem find2_spec {a b : Char} : ∀ {s x y : Str}, find2 a b s = some (x, y) → s = x ++ a :: b :: y
  | [], _, _, h => by simp [find2] at h
  | c :: r, x, y, h => by
    simp only [find2] at h
    split at h
    · rename_i hc
      simp only [Bool.and_eq_true, decide_eq_true_eq] at hc
      obtain ⟨rfl, hr⟩ := hc
      cases r with
      | nil => simp at hr
      | cons d r' =>
        simp only [List.head?_cons, Option.some.injEq] at hr
        subst hr
        simp only [Option.some.injEq, Prod.mk.injEq, List.tail_cons] at h
        obtain ⟨rfl, rfl⟩ := h
        rfl
    · split at h
      · rename_i x' y' hf
        simp only [Option.some.injEq, Prod.mk.injEq] at h
        obtain ⟨rfl, rfl⟩ := h
        rw [find2_spec hf]; rfl
      · simp at h

theorem matchDir_spec {s : Str} {m : DirM} (h : matchDir s = some m) :
    s = m.inner ++ '%' :: '}' :: m.rest := by
  unfold matchDir at h
  simp only at h
  split at h
  · simp at h
  · split at h
    · simp at h
    · rename_i body rest hf
      split at h
      · simp only [Option.some.injEq] at h
        subst h
        have h3 := find2_spec hf
        simp only
        have e1 : s = s.takeWhile isReSpace ++ s.dropWhile isReSpace := (List.takeWhile_append_dropWhile).symm
        have e2 : s.dropWhile isReSpace = (s.dropWhile isReSpace).takeWhile isReWord ++ (s.dropWhile isReSpace).dropWhile isReWord :=
          (List.takeWhile_append_dropWhile).symm
        have e3 : (s.dropWhile isReSpace).dropWhile isReWord =
            ((s.dropWhile isReSpace).dropWhile isReWord).takeWhile isReSpace ++ ((s.dropWhile isReSpace).dropWhile isReWord).dropWhile isReSpace :=
          (List.takeWhile_append_dropWhile).symm
        conv => lhs; rw [e1, e2, e3, h3]
        simp [List.append_assoc]
      · simp at h

theorem matchComment_spec {s body rest : Str} (h : matchComment s = some (body, rest)) :
    s = body ++ '#' :: '}' :: rest := by
  unfold matchComment at h
  split at h
  · simp at h
  · rename_i b r hf
    split at h
    · simp only [Option.some.injEq, Prod.mk.injEq] at h
      obtain ⟨rfl, rfl⟩ := h
      exact find2_spec hf
    · simp at h

theorem flushText_src (acc : Str) : (flushText acc).flatMap RTok.src = acc.reverse := by
  unfold flushText
  cases acc <;> simp [RTok.src]

/-- the source texts of the tokens concatenate to what was scanned -/
theorem scanNewGo_src (s : Str) : ∀ (k : Nat) (p : Char) (acc : Str),
    (scanNewGo k p acc s).flatMap RTok.src = acc.reverse ++ s.drop k := by
  induction s with
  | nil => intro k p acc; simp [scanNewGo, flushText_src]
  | cons c r ih =>
    intro k p acc
    cases k with
    | succ k => simp [scanNewGo, ih k c acc]
    | zero =>
      have push : (scanNewGo 0 c (c :: acc) r).flatMap RTok.src = acc.reverse ++ (c :: r).drop 0 := by
        simp [ih 0 c (c :: acc)]
      unfold scanNewGo
      split
      · rename_i hc
        simp only [Bool.and_eq_true, decide_eq_true_eq] at hc
        obtain ⟨rfl, _⟩ := hc
        split
        · rename_i r'
          split
          · rename_i m hm
            have hs := matchDir_spec hm
            simp only [List.flatMap_append, List.flatMap_cons, flushText_src, RTok.src, ih]
            subst hs
            simp [List.drop_append]
          · exact push
        · rename_i r'
          split
          · rename_i body rest hm
            have hs := matchComment_spec hm
            simp only [List.flatMap_append, List.flatMap_cons, flushText_src, RTok.src, ih]
            subst hs
            simp [List.drop_append]
          · exact push
        · exact push
      · exact push

theorem scanNew_lossless (s : Str) : (scanNew s).flatMap RTok.src = s := by
  simp [scanNew, scanNewGo_src]

theorem matchOldLine_spec {s b body : Str} (h : matchOldLine s = some (b, body)) :
    ∃ rest, s = b ++ '#' :: body ++ rest := by
  unfold matchOldLine at h
  simp only at h
  split at h
  · rename_i c r hd
    split at h
    · simp only [Option.some.injEq, Prod.mk.injEq] at h
      obtain ⟨rfl, rfl⟩ := h
      have e1 : s = s.takeWhile isBlank ++ s.dropWhile isBlank := (List.takeWhile_append_dropWhile).symm
      have e2 : (c :: r) = (c :: r).takeWhile dotOld ++ (c :: r).dropWhile dotOld := (List.takeWhile_append_dropWhile).symm
      split
      · rename_i rest hn
        refine ⟨rest, ?_⟩
        conv => lhs; rw [e1, hd, e2, hn]
        simp [List.append_assoc]
      · refine ⟨(c :: r).dropWhile dotOld, ?_⟩
        conv => lhs; rw [e1, hd, e2]
        simp [List.append_assoc]
    · simp at h
  · simp at h

theorem flushOld_src (acc : Str) : (flushOld acc).flatMap OTok.src = acc.reverse := by
  unfold flushOld
  cases acc <;> simp [OTok.src]

theorem scanOldGo_src (s : Str) : ∀ (k : Nat) (first : Bool) (p : Char) (acc : Str),
    (scanOldGo k first p acc s).flatMap OTok.src = acc.reverse ++ s.drop k := by
  induction s with
  | nil => intro k f p acc; simp [scanOldGo, flushOld_src]
  | cons c r ih =>
    intro k f p acc
    cases k with
    | succ k => simp [scanOldGo, ih k false c acc]
    | zero =>
      have push : (scanOldGo 0 false c (c :: acc) r).flatMap OTok.src = acc.reverse ++ (c :: r).drop 0 := by
        simp [ih 0 false c (c :: acc)]
      unfold scanOldGo
      split
      · split
        · rename_i b body hm
          obtain ⟨rest, hs⟩ := matchOldLine_spec hm
          simp only [List.flatMap_append, List.flatMap_cons, flushOld_src, OTok.src, ih]
          have hr : r = (b ++ '#' :: body ++ rest).tail := by rw [← hs]; rfl
          have hl : (b ++ '#' :: body ++ rest).tail.drop (b.length + body.length) = rest := by
            rw [← List.drop_one, List.drop_drop]
            have : 1 + (b.length + body.length) = (b ++ '#' :: body).length := by simp; omega
            rw [this, List.drop_left]
          have hl' : r.drop (b.length + body.length) = rest := by rw [hr]; exact hl
          rw [hl', hs]
          simp
        · exact push
      · exact push

/-- old syntax: the source texts of the tokens concatenate to what was scanned -/
theorem scanOld_lossless (s : Str) : (scanOld s).flatMap OTok.src = s := by
  simp [scanOld, scanOldGo_src]

end Genshi.Tmpl.Scan

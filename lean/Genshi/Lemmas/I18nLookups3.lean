/-
  C19 — look-ups ⊆ extraction, wide form: message directives whose content holds
  directive-carrying elements (SUB events), message directives that share their element with
  other directives (`i18n:comment`, `i18n:ctxt`, `i18n:domain`, `py:if` …), and `i18n:choose`
  inside the simultaneous induction.

  What the pass looks up inside a directive-carrying element of a message / inside a branch of
  a plural choice is not extracted (findings C19-fragments, C19-sub-attrs); the theorem is
  about streams where those look-ups hold no letter (`quietEv`).
-/
import Genshi.Lemmas.I18nLookups2
import Genshi.Lemmas.I18nChooseLookup
namespace Genshi.I18n
open Genshi

/-! ### quiet events: nothing the pass would look up in them has a letter -/

/-- no included plain attribute value with a letter -/
def quietAttrs (cfg : Cfg) (a : TAttrs) : Bool :=
  a.all fun p => match p.2 with
    | .str v => !cfg.includeAttrs.contains p.1.text || !hasLetter (strip v)
    | .parts _ => true

mutual
  /-- text without letter, no included attribute value with a letter, at any depth -/
  def quietEv (cfg : Cfg) : TEvent → Bool
    | .text s => !hasLetter (strip s)
    | .start _ a => quietAttrs cfg a
    | .sub _ b => quietList cfg b
    | _ => true
  def quietList (cfg : Cfg) : List TEvent → Bool
    | [] => true
    | e :: es => quietEv cfg e && quietList cfg es
end

theorem quiet_attrs (cfg : Cfg) (ctx : Ctx) (ta : Bool) : ∀ (a : TAttrs), quietAttrs cfg a = true →
    ∀ l ∈ lkAttrs cfg ctx ta a, hasLetter l.msgid = false
  | [], _, l, hl => by simp [lkAttrs] at hl
  | (n, .str v) :: rest, h, l, hl => by
      simp only [quietAttrs, List.all_cons, Bool.and_eq_true] at h
      simp only [lkAttrs, List.flatMap_cons, lkAttr, List.mem_append] at hl
      rcases hl with hl | hl
      · split at hl
        · rename_i hc
          simp only [List.mem_singleton] at hl; subst hl
          simp only [Bool.and_eq_true] at hc
          have h1 := h.1
          simp only [Bool.or_eq_true, Bool.not_eq_true'] at h1
          rcases h1 with h1 | h1
          · rw [hc.1.2] at h1; cases h1
          · exact h1
        · simp at hl
      · exact quiet_attrs cfg ctx ta rest (by simpa [quietAttrs] using h.2) l (by simpa [lkAttrs] using hl)
  | (n, .parts ps) :: rest, h, l, hl => by
      simp only [quietAttrs, List.all_cons, Bool.and_eq_true] at h
      simp only [lkAttrs, List.flatMap_cons, lkAttr, List.nil_append] at hl
      exact quiet_attrs cfg ctx ta rest (by simpa [quietAttrs] using h.2) l (by simpa [lkAttrs] using hl)

mutual
  theorem quiet_sub (cfg : Cfg) : ∀ (e : TEvent), quietEv cfg e = true → ∀ (ctx : Ctx) (ta : Bool),
      ∀ l ∈ lkSub cfg ctx ta e, hasLetter l.msgid = false
    | .sub ds b, h, ctx, ta, l, hl => by
        simp only [quietEv] at h
        simp only [lkSub] at hl
        exact quiet_list cfg b h _ _ _ 0 l hl
    | .start _ _, _, _, _, l, hl => by simp [lkSub] at hl
    | .end_ _, _, _, _, l, hl => by simp [lkSub] at hl
    | .text _, _, _, _, l, hl => by simp [lkSub] at hl
    | .expr _ _, _, _, _, l, hl => by simp [lkSub] at hl
    | .exec _, _, _, _, l, hl => by simp [lkSub] at hl
    | .other _, _, _, _, l, hl => by simp [lkSub] at hl
  theorem quiet_list (cfg : Cfg) : ∀ (es : List TEvent), quietList cfg es = true → ∀ (ctx : Ctx) (tt ta : Bool) (skip : Nat),
      ∀ l ∈ lkList cfg ctx tt ta skip es, hasLetter l.msgid = false
    | [], _, _, _, _, skip, l, hl => by cases skip <;> simp [lkList] at hl
    | e :: es, h, ctx, tt, ta, skip, l, hl => by
        simp only [quietList, Bool.and_eq_true] at h
        have ih := quiet_list cfg es h.2 ctx tt ta
        cases skip with
        | succ k =>
          simp only [lkList] at hl
          exact ih _ l hl
        | zero =>
          cases e with
          | start t a =>
            simp only [lkList] at hl
            split at hl
            · exact ih _ l hl
            · simp only [List.mem_append] at hl
              rcases hl with hl | hl
              · exact quiet_attrs cfg ctx ta a (by simpa [quietEv] using h.1) l hl
              · exact ih _ l hl
          | text s =>
            simp only [lkList, List.mem_append] at hl
            rcases hl with hl | hl
            · split at hl
              · simp only [List.mem_singleton] at hl; subst hl
                simpa [quietEv] using h.1
              · simp at hl
            · exact ih _ l hl
          | sub ds b =>
            simp only [lkList, List.mem_append] at hl
            rcases hl with hl | hl
            · exact quiet_sub cfg (.sub ds b) h.1 ctx ta l hl
            · exact ih _ l hl
          | end_ t => simp only [lkList] at hl; exact ih _ l hl
          | expr i m => simp only [lkList] at hl; exact ih _ l hl
          | exec m => simp only [lkList] at hl; exact ih _ l hl
          | other o => simp only [lkList] at hl; exact ih _ l hl
end

theorem Incl.letterless {ms : List Message} {ls : List Lookup} (h : ∀ l ∈ ls, hasLetter l.msgid = false) : Incl ms ls :=
  fun l hl => Or.inr (h l hl)

/-- an event of the content of a message (`tt = false`) or of a branch of a plural choice
    (`tt = true`): text that is looked up has no letter; a directive-carrying element is quiet
    and holds no message directive (findings C19-fragments, C19-sub-attrs) -/
def evOK (cfg : Cfg) (tt : Bool) : TEvent → Bool
  | .text s => !tt || !hasLetter (strip s)
  | .sub ds b => quietList cfg b && noMsgEv (.sub ds b)
  | _ => true

theorem evOK_mono (cfg : Cfg) (tt : Bool) (e : TEvent) (h : evOK cfg true e = true) : evOK cfg tt e = true := by
  cases e <;> simp_all [evOK]

/-- the look-ups of the pass in such a list are covered by what the loops of the directive
    `extract` methods report for it (attributes of its START events) -/
theorem incl_evs (cfg : Cfg) (ctx : Ctx) (tt ta st : Bool) (hta : ta = true → st = true) :
    ∀ (evs : List TEvent) (skip : Nat), (∀ e ∈ evs, evOK cfg tt e = true) →
      Incl (evs.flatMap (evMessages cfg st)) (lkList cfg ctx tt ta skip evs)
  | [], skip, _ => by cases skip <;> simp [lkList, Incl.nil]
  | e :: es, skip, h => by
      have ih := fun k => incl_evs cfg ctx tt ta st hta es k (fun x hx => h x (by simp [hx]))
      have he := h e (by simp)
      simp only [List.flatMap_cons]
      cases skip with
      | succ k => simp only [lkList]; exact Incl.right (ih _)
      | zero =>
        cases e with
        | start t a =>
          simp only [lkList, evMessages]
          split
          · exact Incl.right (ih _)
          · exact Incl.append (incl_attrs cfg ctx ta st hta a) (ih _)
        | sub d b =>
          simp only [lkList, evMessages]
          refine Incl.append (Incl.letterless ?_) (ih _)
          simp only [evOK, Bool.and_eq_true] at he
          exact quiet_sub cfg (.sub d b) (by simpa [quietEv] using he.1) ctx ta
        | text s =>
          simp only [lkList, evMessages]
          refine Incl.append (Incl.letterless ?_) (ih _)
          intro l hl
          split at hl
          · rename_i hc
            simp only [List.mem_singleton] at hl; subst hl
            simp only [Bool.and_eq_true] at hc
            simp only [evOK, hc.1, Bool.not_true, Bool.false_or, Bool.not_eq_true'] at he
            exact he
          · simp at hl
        | end_ t => simp only [lkList, evMessages, List.nil_append]; exact ih _
        | expr i m => simp only [lkList, evMessages]; exact Incl.right (ih _)
        | exec m => simp only [lkList, evMessages, List.nil_append]; exact ih _
        | other l => simp only [lkList, evMessages, List.nil_append]; exact ih _

theorem noMsgList_iff : ∀ (l : List TEvent), noMsgList l = true ↔ ∀ e ∈ l, noMsgEv e = true
  | [] => by simp [noMsgList]
  | e :: es => by simp [noMsgList, noMsgList_iff es]

theorem evOK_noMsg (cfg : Cfg) (tt : Bool) (e : TEvent) (h : evOK cfg tt e = true) : noMsgEv e = true := by
  cases e with
  | sub d b => simp only [evOK, Bool.and_eq_true] at h; exact h.2
  | _ => simp [noMsgEv]

/-! ### the two loops over the directives of a SUB event, one extractable directive -/

theorem mem_eraseIdx_of_ne {α} : ∀ (l : List α) (i : Nat) (d e : α), d ∈ l → l[i]? = some e → d ≠ e →
    d ∈ l.eraseIdx i
  | [], _, _, _, h, _, _ => by simp at h
  | x :: xs, 0, d, e, h, hg, hne => by
      simp only [List.getElem?_cons_zero, Option.some.injEq] at hg
      subst hg
      simp only [List.mem_cons] at h
      simp only [List.eraseIdx_zero, List.tail_cons]
      rcases h with h | h
      · exact absurd h hne
      · exact h
  | x :: xs, i + 1, d, e, h, hg, hne => by
      simp only [List.getElem?_cons_succ] at hg
      simp only [List.mem_cons] at h
      simp only [List.eraseIdx_cons_succ, List.mem_cons]
      rcases h with h | h
      · exact Or.inl h
      · exact Or.inr (mem_eraseIdx_of_ne xs i d e h hg hne)

/-- the first loop never removes a message directive -/
theorem subLoop1_keeps (ex : List Str → List Str → Except Err (List Message)) :
    ∀ (fuel idx : Nat) (r r' : SubLoop), subLoop1 ex fuel idx r = .ok r' →
      ∀ d ∈ r.dirs, d.isExtractable = true → d ∈ r'.dirs
  | 0, idx, r, r', h, d, hd, _ => by
      simp only [subLoop1, pure, Except.pure, Except.ok.injEq] at h; subst h; exact hd
  | fuel + 1, idx, r, r', h, d, hd, hde => by
      simp only [subLoop1] at h
      cases hget : r.dirs[idx]? with
      | none => simp only [hget, pure, Except.pure, Except.ok.injEq] at h; subst h; exact hd
      | some e =>
        simp only [hget] at h
        have hkeep : ∀ (e' : Dir), e = e' → e'.isExtractable = false → d ∈ r.dirs.eraseIdx idx := by
          intro e' he' hne'
          subst he'
          exact mem_eraseIdx_of_ne r.dirs idx d e hd hget (by intro hh; subst hh; rw [hde] at hne'; cases hne')
        cases e with
        | comment c =>
          have hk := hkeep _ rfl rfl
          by_cases h1 : r.dirs.length = 1
          · cases hx : ex (r.cs ++ [c]) r.xs with
            | error err => simp [h1, hx, bind, Except.bind] at h
            | ok m =>
              simp only [h1, ↓reduceIte, hx, bind, Except.bind, pure, Except.pure] at h
              exact subLoop1_keeps ex fuel (idx + 1) _ r' h d hk hde
          · simp only [h1, ↓reduceIte, bind, Except.bind, pure, Except.pure] at h
            exact subLoop1_keeps ex fuel (idx + 1) _ r' h d hk hde
        | ctxt c =>
          have hk := hkeep _ rfl rfl
          by_cases h1 : r.dirs.length = 1
          · cases hx : ex r.cs (r.xs ++ [c]) with
            | error err => simp [h1, hx, bind, Except.bind] at h
            | ok m =>
              simp only [h1, ↓reduceIte, hx, bind, Except.bind, pure, Except.pure] at h
              exact subLoop1_keeps ex fuel (idx + 1) _ r' h d hk hde
          · simp only [h1, ↓reduceIte, bind, Except.bind, pure, Except.pure] at h
            exact subLoop1_keeps ex fuel (idx + 1) _ r' h d hk hde
        | domain _ => simp only [Dir.isI18n, ↓reduceIte] at h; exact subLoop1_keeps ex fuel (idx + 1) r r' h d hd hde
        | msg _ => simp only [Dir.isI18n, ↓reduceIte] at h; exact subLoop1_keeps ex fuel (idx + 1) r r' h d hd hde
        | choose _ => simp only [Dir.isI18n, ↓reduceIte] at h; exact subLoop1_keeps ex fuel (idx + 1) r r' h d hd hde
        | singular => simp only [Dir.isI18n, ↓reduceIte] at h; exact subLoop1_keeps ex fuel (idx + 1) r r' h d hd hde
        | plural => simp only [Dir.isI18n, ↓reduceIte] at h; exact subLoop1_keeps ex fuel (idx + 1) r r' h d hd hde
        | strip =>
          simp only [Dir.isI18n, Bool.false_eq_true, ↓reduceIte] at h
          exact subLoop1_keeps ex fuel (idx + 1) _ r' h d (hkeep _ rfl rfl) hde
        | other n =>
          simp only [Dir.isI18n, Bool.false_eq_true, ↓reduceIte] at h
          exact subLoop1_keeps ex fuel (idx + 1) _ r' h d (hkeep _ rfl rfl) hde

/-- what one directive contributes in the second loop -/
def dirExtract (cfg : Cfg) (st : Bool) (cs xs : List Str) (body : List TEvent)
    (ex : List Str → List Str → Except Err (List Message)) (d : Dir) : Except Err (List Message) :=
  match d with
  | .msg params => msgExtract cfg params st cs xs body
  | .choose params => chooseExtract cfg params st cs xs body
  | _ => ex cs xs

theorem subLoop2_cons (cfg : Cfg) (st : Bool) (cs xs : List Str) (body : List TEvent)
    (ex : List Str → List Str → Except Err (List Message)) (d : Dir) (ds : List Dir) :
    subLoop2 cfg st cs xs body ex (d :: ds) =
      (dirExtract cfg st cs xs body ex d).bind (fun ms =>
        (subLoop2 cfg st cs xs body ex ds).bind (fun ms' => .ok (ms ++ ms'))) := by
  cases d <;> rfl

theorem subLoop2_all (cfg : Cfg) (st : Bool) (cs xs : List Str) (body : List TEvent)
    (ex : List Str → List Str → Except Err (List Message)) :
    ∀ (l : List Dir), (∀ x ∈ l, ∃ m, dirExtract cfg st cs xs body ex x = .ok m) →
      ∃ out, subLoop2 cfg st cs xs body ex l = .ok out ∧
        ∀ x ∈ l, ∀ m, dirExtract cfg st cs xs body ex x = .ok m → ∀ y ∈ m, y ∈ out
  | [], _ => ⟨[], rfl, fun _ h => by simp at h⟩
  | d :: ds, h => by
      obtain ⟨m, hm⟩ := h d (by simp)
      obtain ⟨out', hout', hall⟩ := subLoop2_all cfg st cs xs body ex ds (fun x hx => h x (by simp [hx]))
      refine ⟨m ++ out', by rw [subLoop2_cons, hm, hout']; rfl, ?_⟩
      intro x hx m' hm' y hy
      simp only [List.mem_cons] at hx
      rcases hx with hx | hx
      · subst hx
        rw [hm] at hm'
        cases hm'
        exact List.mem_append_left _ hy
      · exact List.mem_append_right _ (hall x hx m' hm' y hy)

theorem dirExtract_other (cfg : Cfg) (st : Bool) (cs xs : List Str) (body : List TEvent)
    (ex : List Str → List Str → Except Err (List Message)) (d : Dir) (h : d.isExtractable = false) :
    dirExtract cfg st cs xs body ex d = ex cs xs := by
  cases d <;> simp_all [dirExtract, Dir.isExtractable]

/-- **the SUB branch of `Translator.extract` for an element with one message directive** `d`
    (and any other directives around it): if the sub-stream can be extracted as a plain stream
    and by the directive, the result holds what the directive reports for some comment /
    context stack. -/
theorem exSub_one (cfg : Cfg) (st : Bool) (cs xs : List Str) (ds : List Dir) (body : List TEvent) (d : Dir)
    (hd : d.isExtractable = true) (hmem : d ∈ ds) (hone : ∀ x ∈ ds, x.isExtractable = true → x = d)
    (hex : Total (fun cs' xs' => exList cfg (cfg.extractText && st) cs' xs' 0 body))
    (hE : ∀ cs' xs', ∃ m, dirExtract cfg st cs' xs' body
      (fun cs' xs' => exList cfg (cfg.extractText && st) cs' xs' 0 body) d = .ok m) :
    ∃ out cs' xs' m, exSub cfg st cs xs (.sub ds body) = .ok out ∧
      dirExtract cfg st cs' xs' body (fun cs' xs' => exList cfg (cfg.extractText && st) cs' xs' 0 body) d = .ok m ∧
      ∀ y ∈ m, y ∈ out := by
  simp only [exSub]
  obtain ⟨r', hr', hsub, _, _⟩ := subLoop1_total (fun cs' xs' => exList cfg (cfg.extractText && st) cs' xs' 0 body)
    hex ds.length 0 ⟨ds, false, false, cs, xs, []⟩
  have hdr : d ∈ r'.dirs := subLoop1_keeps _ _ _ _ _ hr' d hmem hd
  have hne : r'.dirs.isEmpty = false := by
    cases hr : r'.dirs with
    | nil => rw [hr] at hdr; simp at hdr
    | cons _ _ => rfl
  have hall : ∀ x ∈ r'.dirs, ∃ m, dirExtract cfg st r'.cs r'.xs body
      (fun cs' xs' => exList cfg (cfg.extractText && st) cs' xs' 0 body) x = .ok m := by
    intro x hx
    by_cases hxe : x.isExtractable = true
    · rw [hone x (hsub x hx) hxe]; exact hE _ _
    · rw [dirExtract_other _ _ _ _ _ _ x (by simpa using hxe)]; exact hex _ _
  obtain ⟨out2, hout2, hcov⟩ := subLoop2_all cfg st r'.cs r'.xs body _ r'.dirs hall
  obtain ⟨m, hm⟩ := hE r'.cs r'.xs
  refine ⟨r'.out ++ out2, r'.cs, r'.xs, m, ?_, hm, fun y hy => List.mem_append_right _ (hcov d hdr m hm y hy)⟩
  simp only [hr', bind, Except.bind, hne, Bool.false_and, Bool.false_eq_true, ↓reduceIte, pure, Except.pure, hout2]

/-! ### a message directive whose content may hold directive-carrying elements -/

/-- `<t i18n:msg="ps">content</t>` (first disjunct) or `<i18n:msg params="ps">content</i18n:msg>`
    whose content neither starts nor ends with an element (finding C19-msg-element-first-child):
    the content is any event list whose directive-carrying elements are quiet (findings
    C19-fragments, C19-sub-attrs) and whose buffer can be built (as many parameters as
    expressions) -/
def GoodMsg (cfg : Cfg) (ps : List Str) (body : List TEvent) : Prop :=
  (∃ t a rest last B, body = .start t a :: rest ∧ rest.getLast? = some last ∧ last.isEnd = true ∧
      (∀ e ∈ rest.dropLast, evOK cfg false e = true) ∧ mbAppendList (MB.new ps) rest.dropLast = .ok B) ∨
  (∃ first rest B, body = first :: rest ∧ first.isStart = false ∧ (rest.getLast?.getD first).isEnd = false ∧
      (rest.getLast?.getD first).isStart = false ∧ (∀ e ∈ first :: rest, evOK cfg false e = true) ∧
      mbAppendList (MB.new ps) (first :: rest) = .ok B)

theorem isEnd_evOK (cfg : Cfg) (tt : Bool) (e : TEvent) (h : e.isEnd = true) : evOK cfg tt e = true := by
  cases e <;> simp_all [TEvent.isEnd, evOK]

theorem isEnd_evMessages (cfg : Cfg) (st : Bool) (e : TEvent) (h : e.isEnd = true) : evMessages cfg st e = [] := by
  cases e <;> simp_all [TEvent.isEnd, evMessages]

theorem goodMsg_noMsg (cfg : Cfg) (ps : List Str) (body : List TEvent) (hg : GoodMsg cfg ps body) :
    noMsgList body = true := by
  rw [noMsgList_iff]
  rcases hg with ⟨t, a, rest, last, B, rfl, hl, hend, hok, _⟩ | ⟨first, rest, B, rfl, _, _, _, hok, _⟩
  · intro e he
    rw [dropLast_append_last' rest last hl] at he
    simp only [List.mem_cons, List.mem_append, List.not_mem_nil, or_false] at he
    rcases he with rfl | he | rfl
    · rfl
    · exact evOK_noMsg cfg false e (hok e he)
    · exact evOK_noMsg cfg false e (isEnd_evOK cfg false e hend)
  · exact fun e he => evOK_noMsg cfg false e (hok e he)

/-- what `MsgDirective.extract` reports for such an element, the id `MsgDirective.__call__`
    looks up for it, and the look-ups of the pass inside it -/
theorem goodMsg_extract (cfg : Cfg) (ps : List Str) (body : List TEvent) (hg : GoodMsg cfg ps body)
    (st : Bool) (cs xs : List Str) :
    ∃ ms id, msgExtract cfg ps st cs xs body = .ok ms ∧ msgId ps body = .ok (some id) ∧ id ∈ idsOf ms ∧
      ∀ (ctx : Ctx) (ta : Bool), (ta = true → st = true) → Incl ms (lkList cfg ctx false ta 0 body) := by
  rcases hg with ⟨t, a, rest, last, B, rfl, hl, hend, hok, hb⟩ | ⟨first, rest, B, rfl, hf, hle, hls, hok, hB⟩
  · -- attribute form
    have hrest : rest = rest.dropLast ++ [last] := dropLast_append_last' rest last hl
    have hall := appendAll_buffer cfg st rest.dropLast (MB.new ps)
    rw [hb] at hall
    cases ha : appendAll cfg st (MB.new ps) rest.dropLast with
    | error err => rw [ha] at hall; simp [Except.map] at hall
    | ok r =>
      rw [ha] at hall
      simp only [Except.map, Except.ok.injEq] at hall
      obtain ⟨m, hm, hid⟩ := contextify_none_ok B.format (lastSlice cs) (lastSlice xs)
      have hrne : rest ≠ [] := by intro h; subst h; simp at hl
      have hattr := startAttrs_of_appendAll cfg st rest.dropLast (MB.new ps) r ha
      have hmsg : msgExtract cfg ps st cs xs (.start t a :: rest) =
          .ok (startAttrs cfg st (.start t a) ++ r.1 ++ [m]) := by
        simp only [msgExtract, TEvent.isStart, ↓reduceIte]
        cases hr : rest with
        | nil => exact absurd hr hrne
        | cons x y =>
          rw [← hr]
          simp only [ha, bind, Except.bind]
          rw [show r.2 = B from hall]
          simp [hm, pure, Except.pure]
      refine ⟨_, B.format, hmsg, ?_, ?_, ?_⟩
      · rw [msgId_eq ps _ (by simp)]
        have : msgBody (.start t a :: rest) = rest.dropLast := by
          simp [msgBody, TEvent.isStart, hl, hend]
        rw [this, hb]; rfl
      · rw [idsOf_append]
        simp only [List.mem_append]
        right
        simp [idsOf, hid]
      · intro ctx ta hta
        have hokall : ∀ e ∈ TEvent.start t a :: rest, evOK cfg false e = true := by
          intro e he
          rw [hrest] at he
          simp only [List.mem_cons, List.mem_append, List.not_mem_nil, or_false] at he
          rcases he with rfl | he | rfl
          · rfl
          · exact hok e he
          · exact isEnd_evOK cfg false e hend
        refine Incl.mono (incl_evs cfg ctx false ta st hta (.start t a :: rest) 0 hokall) ?_
        intro x hx
        rw [hrest] at hx
        simp only [List.flatMap_cons, List.flatMap_append, List.mem_append, List.flatMap_nil, List.append_nil] at hx
        rw [hattr]
        simp only [List.mem_append]
        rcases hx with hx | hx | hx
        · exact Or.inl (Or.inl (by simpa [evMessages, startAttrs] using hx))
        · exact Or.inl (Or.inr hx)
        · rw [isEnd_evMessages cfg st last hend] at hx; simp at hx
  · -- element form
    obtain ⟨m, hm, hid⟩ := contextify_none_ok B.format (lastSlice cs) (lastSlice xs)
    have hex : msgExtract cfg ps st cs xs (first :: rest) = .ok ((first :: rest).flatMap (evMessages cfg st) ++ [m]) := by
      have hsplit : ∃ init last, first :: rest = init ++ [last] ∧ (first :: rest).dropLast = init ∧
          (first :: rest).getLast?.getD first = last ∧ rest.getLast?.getD first = last := by
        cases hl : rest.getLast? with
        | none =>
          have : rest = [] := by simpa using hl
          subst this
          exact ⟨[], first, rfl, rfl, rfl, rfl⟩
        | some last =>
          have hr := dropLast_append_last' rest last hl
          have hne : rest ≠ [] := by intro h; subst h; simp at hl
          refine ⟨first :: rest.dropLast, last, by rw [List.cons_append, ← hr], ?_, ?_, rfl⟩
          · cases rest with
            | nil => exact absurd rfl hne
            | cons x y => simp
          · rw [List.getLast?_cons_of_ne_nil hne, hl]; rfl
      obtain ⟨init, last, hs, hdl, hgl, hgl'⟩ := hsplit
      rw [hgl'] at hle hls
      have hB' := hB
      rw [hs, mbAppendList_append'] at hB'
      cases hb : mbAppendList (MB.new ps) init with
      | error err => rw [hb] at hB'; simp [Except.bind] at hB'
      | ok b =>
        rw [hb] at hB'
        simp only [Except.bind, mbAppendList_single'] at hB'
        have hall := appendAll_buffer cfg st init (MB.new ps)
        rw [hb] at hall
        cases ha : appendAll cfg st (MB.new ps) init with
        | error err => rw [ha] at hall; simp [Except.map] at hall
        | ok r =>
          rw [ha] at hall
          simp only [Except.map, Except.ok.injEq] at hall
          have hattr := startAttrs_of_appendAll cfg st init (MB.new ps) r ha
          unfold msgExtract
          simp only [hf, Bool.false_eq_true, ↓reduceIte, hdl, hgl, ha, bind, Except.bind]
          rw [show r.2 = b from hall, hB']
          simp only [hm, pure, Except.pure, Except.ok.injEq]
          rw [hs, List.flatMap_append, hattr]
          simp [evMessages_not_start cfg st last hls]
    refine ⟨_, B.format, hex, ?_, ?_, ?_⟩
    · rw [msgId_eq ps _ (by simp)]
      have : msgBody (first :: rest) = first :: rest := by
        simp only [msgBody, hf, Bool.false_eq_true, ↓reduceIte]
        cases hl : rest.getLast? with
        | none =>
          have : rest = [] := by simpa using hl
          subst this; rfl
        | some last =>
          rw [hl] at hle
          simp only [Option.getD_some] at hle
          simp only [hle, Bool.false_eq_true, ↓reduceIte]
          rw [← dropLast_append_last' rest last hl]; rfl
      rw [this, hB]; rfl
    · rw [idsOf_append]
      simp only [List.mem_append]
      right
      simp [idsOf, hid]
    · intro ctx ta hta
      exact Incl.mono (incl_evs cfg ctx false ta st hta (first :: rest) 0 hok) (fun x hx => List.mem_append_left _ hx)

/-! ### a plural choice -/

/-- `<t i18n:choose="n; ps"> pre <ts i18n:singular="">cS</ts> mid <tp i18n:plural="">cP</tp> post </t>`:
    white space, comments and code blocks outside the branches (finding C19-choose-outer-text);
    in the branches text without letter outside expressions and quiet directive-carrying
    elements (findings C19-fragments, C19-sub-attrs); both buffers can be built -/
def GoodChoose (cfg : Cfg) (ps : List Str) (body : List TEvent) : Prop :=
  ∃ (t t' ts ts' tp tp' : QName) (a as ap : TAttrs) (pre mid post cS cP : List TEvent) (C D : MB),
    body = .start t a :: ((pre ++ .sub [.singular] (.start ts as :: (cS ++ [.end_ ts'])) ::
        (mid ++ .sub [.plural] (.start tp ap :: (cP ++ [.end_ tp'])) :: post)) ++ [.end_ t']) ∧
    (∀ e ∈ pre, outerEv e = true) ∧ (∀ e ∈ mid, outerEv e = true) ∧ (∀ e ∈ post, outerEv e = true) ∧
    (∀ e ∈ cS, evOK cfg true e = true) ∧ (∀ e ∈ cP, evOK cfg true e = true) ∧
    mbAppendList (MB.new ps) cS = .ok C ∧ mbAppendList (MB.new ps) cP = .ok D ∧ C.stack ≠ [] ∧ D.stack ≠ []

/-- an event between the tags of the choose element -/
def InnerEv (cfg : Cfg) (e : TEvent) : Prop :=
  outerEv e = true ∨ ∃ (d : Dir) (t t' : QName) (a : TAttrs) (c : List TEvent), (d = .singular ∨ d = .plural) ∧
    e = .sub [d] (.start t a :: (c ++ [.end_ t'])) ∧ ∀ x ∈ c, evOK cfg true x = true

theorem outer_noMsg (e : TEvent) (h : outerEv e = true) : noMsgEv e = true := by
  cases e <;> simp_all [outerEv, noMsgEv]

theorem inner_noMsg (cfg : Cfg) (e : TEvent) (h : InnerEv cfg e) : noMsgEv e = true := by
  rcases h with h | ⟨d, t, t', a, c, hd, rfl, hc⟩
  · exact outer_noMsg e h
  · have hB : noMsgList (.start t a :: (c ++ [.end_ t'])) = true := by
      rw [noMsgList_iff]
      intro e he
      simp only [List.mem_cons, List.mem_append, List.not_mem_nil, or_false] at he
      rcases he with rfl | he | rfl
      · rfl
      · exact evOK_noMsg cfg true e (hc e he)
      · rfl
    rcases hd with rfl | rfl <;> simp [noMsgEv, hasExtractable, Dir.isExtractable, hB]

theorem branchExtract_msgs (cfg : Cfg) (st : Bool) (b : MB) (t t' : QName) (a : TAttrs) (c : List TEvent)
    (q : List Message × MB) (h : branchExtract cfg st b (.start t a :: (c ++ [.end_ t'])) = .ok q) :
    q.1 = extractAttrs cfg st a ++ c.flatMap (evMessages cfg st) := by
  simp only [branchExtract, TEvent.isStart, ↓reduceIte, List.getLast?_append,
    List.getLast?_singleton, Option.some_or, List.dropLast_concat, TEvent.isEnd, bind, Except.bind] at h
  cases ha : appendAll cfg st b c with
  | error err => simp [ha] at h
  | ok r =>
    simp only [ha, pure, Except.pure, Except.ok.injEq] at h
    rw [← h, startAttrs_of_appendAll cfg st c b r ha]
    simp [startAttrs, exprCode]

theorem lkList_outer (cfg : Cfg) (ctx : Ctx) (ta : Bool) (e : TEvent) (he : outerEv e = true) (skip : Nat) (tl : List TEvent) :
    lkList cfg ctx false ta skip (e :: tl) = lkList cfg ctx false ta skip tl := by
  cases skip with
  | succ k => cases e <;> simp_all [outerEv, lkList, skipStep]
  | zero => cases e <;> simp_all [outerEv, lkList]

theorem reorder_branch (d : Dir) (hd : d = .singular ∨ d = .plural) : reorder [d] = ⟨[d], none, none, []⟩ := by
  rcases hd with rfl | rfl <;> simp [reorder, reorderGo]

/-- the look-ups of the pass between the tags of a choose element are covered by what the loop
    of `ChooseDirective.extract` reports -/
theorem chooseLoop_incl (cfg : Cfg) (ctx : Ctx) (st ta : Bool) (hta : ta = true → st = true) (t' : QName) :
    ∀ (inner : List TEvent) (sb pb : MB) (r : List Message × MB × MB), (∀ e ∈ inner, InnerEv cfg e) →
      chooseLoop cfg st sb pb inner = .ok r →
      ∀ skip, Incl r.1 (lkList cfg ctx false ta skip (inner ++ [.end_ t']))
  | [], sb, pb, r, _, h, skip => by
      cases skip <;> simp [lkList, Incl.nil]
  | e :: es, sb, pb, r, hin, h, skip => by
      simp only [chooseLoop, bind, Except.bind] at h
      cases h1 : chooseStep cfg st sb pb e with
      | error err => simp [h1] at h
      | ok r1 =>
        obtain ⟨ms1, sb', pb'⟩ := r1
        simp only [h1] at h
        cases h2 : chooseLoop cfg st sb' pb' es with
        | error err => simp [h2] at h
        | ok r2 =>
          simp only [h2, pure, Except.pure, Except.ok.injEq] at h
          have ih := chooseLoop_incl cfg ctx st ta hta t' es sb' pb' r2 (fun x hx => hin x (by simp [hx])) h2
          subst h
          simp only [List.cons_append]
          rcases hin e (by simp) with ho | ⟨d, t, tE, a, c, hd, rfl, hc⟩
          · rw [lkList_outer cfg ctx ta e ho]
            exact Incl.right (ih skip)
          · -- a branch
            have hms1 : ms1 = extractAttrs cfg st a ++ c.flatMap (evMessages cfg st) := by
              rcases hd with rfl | rfl
              · simp only [chooseStep, chooseStep.loop, bind, Except.bind] at h1
                cases hb : branchExtract cfg st sb (.start t a :: (c ++ [.end_ tE])) with
                | error err => simp [hb] at h1
                | ok q =>
                  simp only [hb, pure, Except.pure, Except.ok.injEq, Prod.mk.injEq] at h1
                  rw [← h1.1, List.append_nil]
                  exact branchExtract_msgs cfg st sb t tE a c q hb
              · simp only [chooseStep, chooseStep.loop, bind, Except.bind] at h1
                cases hb : branchExtract cfg st pb (.start t a :: (c ++ [.end_ tE])) with
                | error err => simp [hb] at h1
                | ok q =>
                  simp only [hb, pure, Except.pure, Except.ok.injEq, Prod.mk.injEq] at h1
                  rw [← h1.1, List.append_nil]
                  exact branchExtract_msgs cfg st pb t tE a c q hb
            cases skip with
            | succ k =>
              simp only [lkList, skipStep]
              exact Incl.right (ih _)
            | zero =>
              simp only [lkList]
              refine Incl.append ?_ (ih 0)
              simp only [lkSub, reorder_branch d hd, List.nil_append]
              have hokall : ∀ e ∈ TEvent.start t a :: (c ++ [.end_ tE]),
                  evOK cfg (cfg.extractText && !hasExtractable [d]) e = true := by
                intro e he
                simp only [List.mem_cons, List.mem_append, List.not_mem_nil, or_false] at he
                rcases he with rfl | he | rfl
                · rfl
                · exact evOK_mono cfg _ e (hc e he)
                · rfl
              have := incl_evs cfg ctx (cfg.extractText && !hasExtractable [d]) (cfg.extractText && ta) st
                (fun h' => hta (by simp only [Bool.and_eq_true] at h'; exact h'.2)) _ 0 hokall
              rw [hms1]
              simpa [evMessages] using this

theorem goodChoose_inner (cfg : Cfg) (ts ts' tp tp' : QName) (as ap : TAttrs) (pre mid post cS cP : List TEvent)
    (hpre : ∀ e ∈ pre, outerEv e = true) (hmid : ∀ e ∈ mid, outerEv e = true) (hpost : ∀ e ∈ post, outerEv e = true)
    (hcS : ∀ e ∈ cS, evOK cfg true e = true) (hcP : ∀ e ∈ cP, evOK cfg true e = true) :
    ∀ e ∈ pre ++ .sub [.singular] (.start ts as :: (cS ++ [.end_ ts'])) ::
        (mid ++ .sub [.plural] (.start tp ap :: (cP ++ [.end_ tp'])) :: post), InnerEv cfg e := by
  intro e he
  simp only [List.mem_append, List.mem_cons] at he
  rcases he with he | rfl | he | rfl | he
  · exact Or.inl (hpre e he)
  · exact Or.inr ⟨.singular, ts, ts', as, cS, Or.inl rfl, rfl, hcS⟩
  · exact Or.inl (hmid e he)
  · exact Or.inr ⟨.plural, tp, tp', ap, cP, Or.inr rfl, rfl, hcP⟩
  · exact Or.inl (hpost e he)

theorem goodChoose_noMsg (cfg : Cfg) (ps : List Str) (body : List TEvent) (hg : GoodChoose cfg ps body) :
    noMsgList body = true := by
  obtain ⟨t, t', ts, ts', tp, tp', a, as, ap, pre, mid, post, cS, cP, C, D, rfl, hpre, hmid, hpost, hcS, hcP, _⟩ := hg
  rw [noMsgList_iff]
  intro e he
  simp only [List.mem_cons, List.mem_append, List.not_mem_nil, or_false] at he
  have hin := goodChoose_inner cfg ts ts' tp tp' as ap pre mid post cS cP hpre hmid hpost hcS hcP
  rcases he with rfl | he | rfl
  · rfl
  · exact inner_noMsg cfg e (hin e (by simpa using he))
  · rfl

/-- `ChooseDirective.extract` on such an element: it returns, and what it reports covers the
    look-ups of the pass inside the element -/
theorem goodChoose_extract (cfg : Cfg) (ps : List Str) (body : List TEvent) (hg : GoodChoose cfg ps body)
    (st : Bool) (cs xs : List Str) :
    ∃ ms, chooseExtract cfg ps st cs xs body = .ok ms ∧
      ∀ (ctx : Ctx) (ta : Bool), (ta = true → st = true) → Incl ms (lkList cfg ctx false ta 0 body) := by
  obtain ⟨t, t', ts, ts', tp, tp', a, as, ap, pre, mid, post, cS, cP, C, D, rfl, hpre, hmid, hpost, hcS, hcP, hC, hD, hCs, hDs⟩ := hg
  obtain ⟨ms, hex⟩ := chooseExtract_ok cfg ps st cs xs t t' ts ts' tp tp' a as ap pre mid post cS cP hpre hmid hpost C D hC hD hCs hDs
  refine ⟨ms, hex, fun ctx ta hta => ?_⟩
  have hin := goodChoose_inner cfg ts ts' tp tp' as ap pre mid post cS cP hpre hmid hpost hcS hcP
  -- the messages: attributes of the element, the loop, the plural message
  have hne : ∀ (l : List TEvent), l ++ [TEvent.end_ t'] ≠ [] := by intro l; simp
  simp only [chooseExtract, TEvent.isStart, ↓reduceIte] at hex
  cases hrest : (pre ++ TEvent.sub [.singular] (.start ts as :: (cS ++ [.end_ ts'])) ::
        (mid ++ TEvent.sub [.plural] (.start tp ap :: (cP ++ [.end_ tp'])) :: post)) ++ [TEvent.end_ t'] with
  | nil => exact absurd hrest (hne _)
  | cons x y =>
    rw [hrest] at hex
    simp only at hex
    rw [← hrest, List.dropLast_concat] at hex
    simp only [bind, Except.bind] at hex
    cases hloop : chooseLoop cfg st (MB.new ps) (MB.new ps)
        (pre ++ TEvent.sub [.singular] (.start ts as :: (cS ++ [.end_ ts'])) ::
          (mid ++ TEvent.sub [.plural] (.start tp ap :: (cP ++ [.end_ tp'])) :: post)) with
    | error err => simp [hloop] at hex
    | ok r =>
      obtain ⟨msL, sbE, pbE⟩ := r
      simp only [hloop] at hex
      cases hctx : contextify (some ngettextName) (.many [some sbE.format, some pbE.format]) (lastSlice cs) (lastSlice xs) with
      | none => simp [hctx] at hex
      | some m =>
        simp only [hctx, pure, Except.pure, Except.ok.injEq] at hex
        have hL := chooseLoop_incl cfg ctx st ta hta t' _ _ _ _ hin hloop
        rw [← hrest]
        subst hex
        simp only [lkList, startAttrs]
        split
        · exact Incl.mono (Incl.right (a := extractAttrs cfg st a) (hL 1)) (fun x hx => List.mem_append_left _ hx)
        · exact Incl.mono (Incl.append (incl_attrs cfg ctx ta st hta a) (hL 0)) (fun x hx => List.mem_append_left _ hx)

/-! ### the streams of the wide theorem -/

/-- `d` is the one message directive among `ds` -/
def OneDir (ds : List Dir) (d : Dir) : Prop := d ∈ ds ∧ ∀ x ∈ ds, x.isExtractable = true → x = d

mutual
  /-- every SUB event either carries no message directive, or exactly one — an `i18n:msg` with
      content as in `GoodMsg`, or an `i18n:choose` as in `GoodChoose` — next to any other
      directives (`i18n:comment`, `i18n:ctxt`, `i18n:domain`, `py:if` …) -/
  def WideEv (cfg : Cfg) : TEvent → Prop
    | .sub ds b =>
        (∃ ps, OneDir ds (.msg ps) ∧ GoodMsg cfg ps b) ∨ (∃ ps, OneDir ds (.choose ps) ∧ GoodChoose cfg ps b) ∨
        (hasExtractable ds = false ∧ WideList cfg b)
    | _ => True
  def WideList (cfg : Cfg) : List TEvent → Prop
    | [] => True
    | e :: es => WideEv cfg e ∧ WideList cfg es
end

/-- the parameters of the first `i18n:msg` among the directives -/
def msgDirOf : List Dir → Option (List Str)
  | [] => none
  | .msg ps :: _ => some ps
  | _ :: ds => msgDirOf ds

mutual
  /-- the message ids the `i18n:msg` directives of the stream look up while rendering -/
  def msgIdsWEv : TEvent → List Str
    | .sub ds b =>
        (match msgDirOf ds with
         | some ps => (match msgId ps b with | .ok (some id) => [id] | _ => [])
         | none => []) ++ (if hasExtractable ds then [] else msgIdsW b)
    | _ => []
  def msgIdsW : List TEvent → List Str
    | [] => []
    | e :: es => msgIdsWEv e ++ msgIdsW es
end

theorem msgDirOf_one : ∀ (ds : List Dir) (ps : List Str), OneDir ds (.msg ps) → msgDirOf ds = some ps
  | [], ps, h => by simp [OneDir] at h
  | d :: ds, ps, h => by
      obtain ⟨hm, hone⟩ := h
      cases d with
      | msg ps' =>
        have := hone (.msg ps') (by simp) rfl
        simp only [Dir.msg.injEq] at this
        simp [msgDirOf, this]
      | domain _ | comment _ | ctxt _ | choose _ | singular | plural | strip | other _ =>
        simp only [msgDirOf]
        refine msgDirOf_one ds ps ⟨?_, fun x hx => hone x (by simp [hx])⟩
        simpa using hm

theorem msgDirOf_none : ∀ (ds : List Dir), (∀ x ∈ ds, ∀ ps, x ≠ .msg ps) → msgDirOf ds = none
  | [], _ => rfl
  | d :: ds, h => by
      cases d with
      | msg ps' => exact absurd rfl (h (.msg ps') (by simp) ps')
      | domain _ | comment _ | ctxt _ | choose _ | singular | plural | strip | other _ =>
        simp only [msgDirOf]
        exact msgDirOf_none ds (fun x hx => h x (by simp [hx]))

theorem hasExtractable_of_mem (ds : List Dir) (d : Dir) (hm : d ∈ ds) (hd : d.isExtractable = true) :
    hasExtractable ds = true := by
  simp only [hasExtractable, List.any_eq_true]
  exact ⟨d, hm, hd⟩

theorem msgIdsWEv_noext (dirs : List Dir) (body : List TEvent) (h : hasExtractable dirs = false) :
    msgIdsWEv (.sub dirs body) = msgIdsW body := by
  have hn : msgDirOf dirs = none := by
    apply msgDirOf_none
    intro x hx ps hxe
    subst hxe
    have := hasExtractable_of_mem dirs _ hx rfl
    rw [h] at this; cases this
  simp [msgIdsWEv, hn, h]

/-- the look-ups of the pass inside an element with a message directive: text is not looked up -/
theorem lkSub_ext (cfg : Cfg) (ctx : Ctx) (ta : Bool) (ds : List Dir) (body : List TEvent)
    (h : hasExtractable ds = true) :
    lkSub cfg ctx ta (.sub ds body) = lkList cfg ((reorder ds).pushed ++ ctx) false (cfg.extractText && ta) 0 body := by
  have hp : hasExtractable (reorder ds).dirs = true := by rw [hasExtractable_perm (reorder_perm ds)]; exact h
  simp [lkSub, hp]

mutual
  theorem ex_lk3_sub (cfg : Cfg) : ∀ (e : TEvent), WideEv cfg e → ∀ (st : Bool) (cs xs : List Str),
      ∃ ms, exSub cfg st cs xs e = .ok ms ∧
        ((cfg.extractText && st) = cfg.extractText → ∀ (ctx : Ctx) (ta : Bool), (ta = true → cfg.extractText = true) →
          Incl ms (lkSub cfg ctx ta e)) ∧ Has ms (msgIdsWEv e)
    | .sub dirs body, h, st, cs, xs => by
        simp only [WideEv] at h
        rcases h with ⟨ps, hone, hg⟩ | ⟨ps, hone, hg⟩ | h
        · -- an `i18n:msg`
          have hnm := goodMsg_noMsg cfg ps body hg
          have hex : Total (fun cs' xs' => exList cfg (cfg.extractText && st) cs' xs' 0 body) := fun cs' xs' => by
            obtain ⟨m, hm, _⟩ := ex_lk_list cfg body hnm 0 (cfg.extractText && st) cs' xs'; exact ⟨m, hm⟩
          obtain ⟨out, cs', xs', m, hout, hm, hsub⟩ := exSub_one cfg st cs xs dirs body (.msg ps) rfl hone.1 hone.2 hex
            (fun cs' xs' => by
              obtain ⟨ms, id, h1, _⟩ := goodMsg_extract cfg ps body hg st cs' xs'
              exact ⟨ms, h1⟩)
          obtain ⟨ms, id, h1, h2, h3, h4⟩ := goodMsg_extract cfg ps body hg st cs' xs'
          have hmm : m = ms := by
            have : dirExtract cfg st cs' xs' body (fun cs' xs' => exList cfg (cfg.extractText && st) cs' xs' 0 body) (.msg ps) =
                msgExtract cfg ps st cs' xs' body := rfl
            rw [this, h1] at hm; exact (Except.ok.inj hm).symm
          subst hmm
          have hext := hasExtractable_of_mem dirs _ hone.1 rfl
          refine ⟨out, hout, fun hst ctx ta hta => ?_, ?_⟩
          · rw [lkSub_ext cfg ctx ta dirs body hext]
            refine Incl.mono (h4 _ _ (fun hta' => ?_)) hsub
            simp only [Bool.and_eq_true] at hta'
            have he := hta hta'.2
            rw [he] at hst
            simpa using hst
          · intro i hi
            simp only [msgIdsWEv, msgDirOf_one dirs ps hone, h2, hext, ↓reduceIte, List.append_nil,
              List.mem_singleton] at hi
            subst hi
            exact Has.mono (ids := [i]) (fun j hj => by simp only [List.mem_singleton] at hj; subst hj; exact h3) hsub i (by simp)
        · -- an `i18n:choose`
          have hnm := goodChoose_noMsg cfg ps body hg
          have hex : Total (fun cs' xs' => exList cfg (cfg.extractText && st) cs' xs' 0 body) := fun cs' xs' => by
            obtain ⟨m, hm, _⟩ := ex_lk_list cfg body hnm 0 (cfg.extractText && st) cs' xs'; exact ⟨m, hm⟩
          obtain ⟨out, cs', xs', m, hout, hm, hsub⟩ := exSub_one cfg st cs xs dirs body (.choose ps) rfl hone.1 hone.2 hex
            (fun cs' xs' => by
              obtain ⟨ms, h1, _⟩ := goodChoose_extract cfg ps body hg st cs' xs'
              exact ⟨ms, h1⟩)
          obtain ⟨ms, h1, h4⟩ := goodChoose_extract cfg ps body hg st cs' xs'
          have hmm : m = ms := by
            have : dirExtract cfg st cs' xs' body (fun cs' xs' => exList cfg (cfg.extractText && st) cs' xs' 0 body) (.choose ps) =
                chooseExtract cfg ps st cs' xs' body := rfl
            rw [this, h1] at hm; exact (Except.ok.inj hm).symm
          subst hmm
          have hext := hasExtractable_of_mem dirs _ hone.1 rfl
          have hnone : msgDirOf dirs = none := by
            apply msgDirOf_none
            intro x hx ps' hxe
            subst hxe
            have := hone.2 _ hx rfl
            cases this
          refine ⟨out, hout, fun hst ctx ta hta => ?_, ?_⟩
          · rw [lkSub_ext cfg ctx ta dirs body hext]
            refine Incl.mono (h4 _ _ (fun hta' => ?_)) hsub
            simp only [Bool.and_eq_true] at hta'
            have he := hta hta'.2
            rw [he] at hst
            simpa using hst
          · simp [msgIdsWEv, hnone, hext, Has.nil]
        · have ih := ex_lk3_list cfg body h.2
          have hex : Total (fun cs' xs' => exList cfg (cfg.extractText && st) cs' xs' 0 body) := fun cs' xs' => by
            obtain ⟨m, hm, _⟩ := ih 0 (cfg.extractText && st) cs' xs'; exact ⟨m, hm⟩
          obtain ⟨out, hout, cs', xs', m, hm, hsub⟩ := exSub_cover cfg st cs xs dirs body h.1 hex
          obtain ⟨m', hm', hincl, hhas⟩ := ih 0 (cfg.extractText && st) cs' xs'
          have hm2 : exList cfg (cfg.extractText && st) cs' xs' 0 body = .ok m := hm
          have hmm : m' = m := by rw [hm'] at hm2; exact Except.ok.inj hm2
          subst hmm
          refine ⟨out, hout, fun hst ctx ta hta => ?_, ?_⟩
          · simp only [lkSub]
            have hperm : hasExtractable (reorder dirs).dirs = false := by
              rw [hasExtractable_perm (reorder_perm dirs)]; exact h.1
            refine Incl.mono (hincl hst _ _ _ ?_ ?_) hsub
            · intro ht; simp only [Bool.and_eq_true] at ht; exact ht.1
            · intro ht; simp only [Bool.and_eq_true] at ht; exact ht.1
          · rw [msgIdsWEv_noext dirs body h.1]
            exact Has.mono hhas hsub
    | .start _ _, _, _, _, _ => ⟨[], rfl, fun _ _ _ _ => by simp [lkSub, Incl.nil], by simp [msgIdsWEv, Has.nil]⟩
    | .end_ _, _, _, _, _ => ⟨[], rfl, fun _ _ _ _ => by simp [lkSub, Incl.nil], by simp [msgIdsWEv, Has.nil]⟩
    | .text _, _, _, _, _ => ⟨[], rfl, fun _ _ _ _ => by simp [lkSub, Incl.nil], by simp [msgIdsWEv, Has.nil]⟩
    | .expr _ _, _, _, _, _ => ⟨[], rfl, fun _ _ _ _ => by simp [lkSub, Incl.nil], by simp [msgIdsWEv, Has.nil]⟩
    | .exec _, _, _, _, _ => ⟨[], rfl, fun _ _ _ _ => by simp [lkSub, Incl.nil], by simp [msgIdsWEv, Has.nil]⟩
    | .other _, _, _, _, _ => ⟨[], rfl, fun _ _ _ _ => by simp [lkSub, Incl.nil], by simp [msgIdsWEv, Has.nil]⟩
  theorem ex_lk3_list (cfg : Cfg) : ∀ (s : List TEvent), WideList cfg s → ∀ (skip : Nat) (st : Bool) (cs xs : List Str),
      ∃ ms, exList cfg st cs xs skip s = .ok ms ∧
        Joint cfg st ms (fun ctx tt ta => lkList cfg ctx tt ta skip s) ∧ Has ms (msgIdsW s)
    | [], _, skip, st, cs, xs => ⟨[], by simp [exList, pure, Except.pure], fun _ _ _ _ _ _ => by
        cases skip <;> simp [lkList, Incl.nil], by simp [msgIdsW, Has.nil]⟩
    | e :: es, h, skip, st, cs, xs => by
        simp only [WideList] at h
        have ihs := ex_lk3_list cfg es h.2
        cases skip with
        | succ k =>
          cases e with
          | start tag attrs =>
            obtain ⟨ms, hms, hj, hh⟩ := ihs (k + 2) st cs xs
            refine ⟨extractAttrs cfg false attrs ++ ms, by simp [exList, hms, bind, Except.bind, pure, Except.pure],
              fun hst ctx tt ta htt hta => ?_, by simpa [msgIdsW, msgIdsWEv] using Has.right hh⟩
            have := hj hst ctx tt ta htt hta
            simp only [lkList, skipStep]
            exact Incl.right (by simpa using this)
          | end_ tag =>
            obtain ⟨ms, hms, hj, hh⟩ := ihs k st cs xs
            refine ⟨ms, by simp [exList, hms], fun hst ctx tt ta htt hta => ?_, by simpa [msgIdsW, msgIdsWEv] using hh⟩
            simpa [lkList, skipStep] using hj hst ctx tt ta htt hta
          | text t =>
            obtain ⟨ms, hms, hj, hh⟩ := ihs (k + 1) st cs xs
            refine ⟨ms, by simp [exList, hms, bind, Except.bind, pure, Except.pure], fun hst ctx tt ta htt hta => ?_,
              by simpa [msgIdsW, msgIdsWEv] using hh⟩
            simpa [lkList, skipStep] using hj hst ctx tt ta htt hta
          | expr i cm =>
            obtain ⟨ms, hms, hj, hh⟩ := ihs (k + 1) st cs xs
            refine ⟨codeMessages cm ++ ms, by simp [exList, hms, bind, Except.bind, pure, Except.pure],
              fun hst ctx tt ta htt hta => ?_, by simpa [msgIdsW, msgIdsWEv] using Has.right hh⟩
            have := hj hst ctx tt ta htt hta
            simp only [lkList, skipStep]
            exact Incl.right this
          | exec cm =>
            obtain ⟨ms, hms, hj, hh⟩ := ihs (k + 1) st cs xs
            refine ⟨codeMessages cm ++ ms, by simp [exList, hms, bind, Except.bind, pure, Except.pure],
              fun hst ctx tt ta htt hta => ?_, by simpa [msgIdsW, msgIdsWEv] using Has.right hh⟩
            have := hj hst ctx tt ta htt hta
            simp only [lkList, skipStep]
            exact Incl.right this
          | sub dirs body =>
            obtain ⟨ms, hms, hj, hh⟩ := ihs (k + 1) st cs xs
            obtain ⟨ms0, hms0, _, hh0⟩ := ex_lk3_sub cfg (.sub dirs body) h.1 false cs xs
            refine ⟨ms0 ++ ms, by simp only [exList]; simp [hms, hms0, bind, Except.bind, pure, Except.pure],
              fun hst ctx tt ta htt hta => ?_, by simpa [msgIdsW] using Has.append hh0 hh⟩
            have := hj hst ctx tt ta htt hta
            simp only [lkList, skipStep]
            exact Incl.right this
          | other l =>
            obtain ⟨ms, hms, hj, hh⟩ := ihs (k + 1) st cs xs
            refine ⟨ms, by simp [exList, hms], fun hst ctx tt ta htt hta => ?_, by simpa [msgIdsW, msgIdsWEv] using hh⟩
            simpa [lkList, skipStep] using hj hst ctx tt ta htt hta
        | zero =>
          cases e with
          | start tag attrs =>
            by_cases hx : excluded cfg tag attrs = true
            · obtain ⟨ms, hms, hj, hh⟩ := ihs 1 st cs xs
              refine ⟨extractAttrs cfg false attrs ++ ms, by simp [exList, hx, hms, bind, Except.bind, pure, Except.pure],
                fun hst ctx tt ta htt hta => ?_, by simpa [msgIdsW, msgIdsWEv] using Has.right hh⟩
              have := hj hst ctx tt ta htt hta
              simp only [lkList, hx, ↓reduceIte]
              exact Incl.right (by simpa using this)
            · obtain ⟨ms, hms, hj, hh⟩ := ihs 0 st cs xs
              refine ⟨extractAttrs cfg st attrs ++ ms, by simp [exList, hx, hms, bind, Except.bind, pure, Except.pure],
                fun hst ctx tt ta htt hta => ?_, by simpa [msgIdsW, msgIdsWEv] using Has.right hh⟩
              simp only [lkList, hx, Bool.false_eq_true, ↓reduceIte]
              exact Incl.append (incl_attrs cfg ctx ta st (fun h' => by rw [hst]; exact hta h') attrs)
                (hj hst ctx tt ta htt hta)
          | end_ tag =>
            obtain ⟨ms, hms, hj, hh⟩ := ihs 0 st cs xs
            refine ⟨ms, by simp [exList, hms], fun hst ctx tt ta htt hta => ?_, by simpa [msgIdsW, msgIdsWEv] using hh⟩
            simpa [lkList] using hj hst ctx tt ta htt hta
          | text t =>
            obtain ⟨ms, hms, hj, hh⟩ := ihs 0 st cs xs
            by_cases hc : (st && !(strip t).isEmpty && hasLetter (strip t)) = true
            · obtain ⟨m, hm, hid⟩ := contextify_none_ok (strip t) (lastSlice cs) (lastSlice xs)
              refine ⟨m :: ms, ?_, fun hst ctx tt ta htt hta => ?_, by simpa [msgIdsW, msgIdsWEv] using Has.cons hh⟩
              · simp only [Bool.and_eq_true] at hc
                have hst1 := hc.1.1
                subst hst1
                simp [exList, hms, bind, Except.bind, pure, Except.pure, hc.1.2, hc.2, hm]
              · simp only [lkList]
                have hrest := hj hst ctx tt ta htt hta
                refine Incl.append (a := [m]) ?_ hrest
                intro l hl
                split at hl
                · simp only [List.mem_singleton] at hl; subst hl
                  left; simp [idsOf, hid]
                · simp at hl
            · refine ⟨ms, ?_, fun hst ctx tt ta htt hta => ?_, by simpa [msgIdsW, msgIdsWEv] using hh⟩
              · simp only [exList]
                simp [hms, bind, Except.bind, pure, Except.pure]
                intro h1 h2 h3
                simp [h1, h2, h3] at hc
              · simp only [lkList]
                have hrest := hj hst ctx tt ta htt hta
                have := Incl.append (a := []) (la := if (tt && !(strip t).isEmpty) = true then
                    [⟨(boundKey ctx).1, (boundKey ctx).2, strip t⟩] else []) ?_ hrest
                · simpa using this
                · intro l hl
                  split at hl
                  · rename_i hlk
                    simp only [List.mem_singleton] at hl; subst hl
                    right
                    simp only [Bool.and_eq_true, Bool.not_eq_true'] at hlk
                    have hste : st = true := by rw [hst]; exact htt hlk.1
                    cases hl' : hasLetter (strip t) with
                    | false => rfl
                    | true => simp [hste, hlk.2, hl'] at hc
                  · simp at hl
          | expr i cm =>
            obtain ⟨ms, hms, hj, hh⟩ := ihs 0 st cs xs
            refine ⟨codeMessages cm ++ ms, by simp [exList, hms, bind, Except.bind, pure, Except.pure],
              fun hst ctx tt ta htt hta => ?_, by simpa [msgIdsW, msgIdsWEv] using Has.right hh⟩
            simp only [lkList]
            exact Incl.right (hj hst ctx tt ta htt hta)
          | exec cm =>
            obtain ⟨ms, hms, hj, hh⟩ := ihs 0 st cs xs
            refine ⟨codeMessages cm ++ ms, by simp [exList, hms, bind, Except.bind, pure, Except.pure],
              fun hst ctx tt ta htt hta => ?_, by simpa [msgIdsW, msgIdsWEv] using Has.right hh⟩
            simp only [lkList]
            exact Incl.right (hj hst ctx tt ta htt hta)
          | sub dirs body =>
            obtain ⟨ms, hms, hj, hh⟩ := ihs 0 st cs xs
            obtain ⟨ms0, hms0, hj0, hh0⟩ := ex_lk3_sub cfg (.sub dirs body) h.1 st cs xs
            refine ⟨ms0 ++ ms, by simp only [exList]; simp [hms, hms0, bind, Except.bind, pure, Except.pure],
              fun hst ctx tt ta htt hta => ?_, by simpa [msgIdsW] using Has.append hh0 hh⟩
            simp only [lkList]
            refine Incl.append (hj0 ?_ ctx ta hta) (hj hst ctx tt ta htt hta)
            simp [hst]
          | other l =>
            obtain ⟨ms, hms, hj, hh⟩ := ihs 0 st cs xs
            refine ⟨ms, by simp [exList, hms], fun hst ctx tt ta htt hta => ?_, by simpa [msgIdsW, msgIdsWEv] using hh⟩
            simpa [lkList] using hj hst ctx tt ta htt hta
end

/-- **lookups ⊆ extraction, wide form** -/
theorem lookups_subset_extract_wide (cfg : Cfg) (ctx : Ctx) (s : TStream) (h : WideList cfg s) :
    ∃ ms, extract cfg s = .ok ms ∧
      (∀ l ∈ lookups cfg ctx true true s, hasLetter l.msgid = true → l.msgid ∈ idsOf ms) ∧
      (∀ id ∈ msgIdsW s, id ∈ idsOf ms) := by
  obtain ⟨ms, hms, hj, hh⟩ := ex_lk3_list cfg s h 0 cfg.extractText [] []
  refine ⟨ms, hms, fun l hl hlet => ?_, hh⟩
  have := hj rfl ctx (cfg.extractText && true) (cfg.extractText && true) (by simp) (by simp) l (by simpa [lookups] using hl)
  rcases this with h1 | h1
  · exact h1
  · rw [hlet] at h1; cases h1

theorem extractWith_default (cfg : Cfg) (s : TStream) : extractWith cfg true [] [] s = extract cfg s := by
  simp [extractWith, extract]

/-- **lookups ⊆ extraction, every argument of both entry points quantified**: the
    `translate_text` / `translate_attrs` arguments of `Translator.__call__`, the template context,
    and the `search_text` / `comment_stack` / `context_stack` arguments of `Translator.extract`
    (`search_text=False` only together with `extract_text=False`: otherwise text is looked up
    that extraction was told not to search) -/
theorem lookups_subset_extract_args (cfg : Cfg) (ctx : Ctx) (s : TStream) (h : WideList cfg s)
    (tt ta st : Bool) (cs xs : List Str) (hst : st = true ∨ cfg.extractText = false) :
    ∃ ms, extractWith cfg st cs xs s = .ok ms ∧
      (∀ l ∈ lookups cfg ctx tt ta s, hasLetter l.msgid = true → l.msgid ∈ idsOf ms) ∧
      (∀ id ∈ msgIdsW s, id ∈ idsOf ms) := by
  obtain ⟨ms, hms, hj, hh⟩ := ex_lk3_list cfg s h 0 (cfg.extractText && st) cs xs
  refine ⟨ms, hms, fun l hl hlet => ?_, hh⟩
  have hst' : (cfg.extractText && st) = cfg.extractText := by
    rcases hst with h1 | h1 <;> simp [h1]
  have := hj hst' ctx (cfg.extractText && tt) (cfg.extractText && ta) (by simp; intro a _; exact a)
    (by simp; intro a _; exact a) l (by simpa [lookups] using hl)
  rcases this with h1 | h1
  · exact h1
  · rw [hlet] at h1; cases h1

/-! ### the streams of the earlier theorem are among the wide ones -/

theorem ok_of_isOk {x : Except Err MB} (h : (match x with | .ok _ => true | .error _ => false) = true) :
    ∃ B, x = .ok B := by
  cases x with
  | ok B => exact ⟨B, rfl⟩
  | error e => simp at h

theorem ok_stack_of_isOk {x : Except Err MB}
    (h : (match x with | .ok b => !b.stack.isEmpty | .error _ => false) = true) : ∃ B, x = .ok B ∧ B.stack ≠ [] := by
  cases x with
  | ok B =>
    refine ⟨B, rfl, ?_⟩
    intro hs
    simp [hs] at h
  | error e => simp at h

theorem noSub_evOK (cfg : Cfg) (tt : Bool) (l : List TEvent) (h : noSubList l = true)
    (ht : tt = false) : ∀ e ∈ l, evOK cfg tt e = true := by
  intro e he
  simp only [noSubList, List.all_eq_true] at h
  have := h e he
  subst ht
  cases e <;> simp_all [evOK]

theorem goodMsgBody_good (cfg : Cfg) (ps : List Str) (b : List TEvent) (h : goodMsgBody ps b = true) : GoodMsg cfg ps b := by
  cases b with
  | nil => simp [goodMsgBody] at h
  | cons first rest =>
    cases first with
    | start t a =>
      simp only [goodMsgBody] at h
      cases hl : rest.getLast? with
      | none => simp [hl] at h
      | some last =>
        simp only [hl, Bool.and_eq_true] at h
        obtain ⟨⟨hend, hns⟩, hok⟩ := h
        obtain ⟨B, hB⟩ := ok_of_isOk hok
        exact Or.inl ⟨t, a, rest, last, B, rfl, hl, hend, noSub_evOK cfg false _ hns rfl, hB⟩
    | _ => simp [goodMsgBody] at h

theorem goodElemBody_good (cfg : Cfg) (ps : List Str) (b : List TEvent) (h : goodElemBody ps b = true) : GoodMsg cfg ps b := by
  cases b with
  | nil => simp [goodElemBody] at h
  | cons first rest =>
    simp only [goodElemBody, Bool.and_eq_true, Bool.not_eq_true'] at h
    obtain ⟨⟨⟨⟨hf, hle⟩, hls⟩, hns⟩, hok⟩ := h
    obtain ⟨B, hB⟩ := ok_of_isOk hok
    exact Or.inr ⟨first, rest, B, rfl, hf, hle, hls, noSub_evOK cfg false _ hns rfl, hB⟩

mutual
  theorem wide_of_okMsgEv (cfg : Cfg) : ∀ (e : TEvent), okMsgEv e = true → WideEv cfg e
    | .sub ds b, h => by
        simp only [okMsgEv, Bool.or_eq_true, Bool.and_eq_true, Bool.not_eq_true'] at h
        simp only [WideEv]
        rcases h with h | h
        · match ds, h with
          | [.msg ps], h =>
            refine Or.inl ⟨ps, ⟨by simp, fun x hx _ => by simpa using hx⟩, ?_⟩
            simp only [Bool.or_eq_true] at h
            rcases h with h | h
            · exact goodMsgBody_good cfg ps b h
            · exact goodElemBody_good cfg ps b h
        · exact Or.inr (Or.inr ⟨h.1, wide_of_okMsgList cfg b h.2⟩)
    | .start _ _, _ => trivial
    | .end_ _, _ => trivial
    | .text _, _ => trivial
    | .expr _ _, _ => trivial
    | .exec _, _ => trivial
    | .other _, _ => trivial
  theorem wide_of_okMsgList (cfg : Cfg) : ∀ (s : List TEvent), okMsgList s = true → WideList cfg s
    | [], _ => trivial
    | e :: es, h => by
        simp only [okMsgList, Bool.and_eq_true] at h
        exact ⟨wide_of_okMsgEv cfg e h.1, wide_of_okMsgList cfg es h.2⟩
end

end Genshi.I18n

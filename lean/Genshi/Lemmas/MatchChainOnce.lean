/-
  C12 — the whole filter as a chain of tree rewrites, `once` templates included: a stage is `specList`
  (replace every match) for a template without the hint and `onceList` (replace the first match in
  document order) for a template with it.  `run_is_chain` with `once_stage_is_onceList` as the second
  kind of link; then the same for real `<py:match>` declarations, through the simulation.
-/
import Genshi.Lemmas.MatchChain
import Genshi.Lemmas.MatchRealOnceTree
namespace Genshi.Match
open Genshi
variable {σ : Type}

/-- the tree rewrite one template stands for -/
def stageOut (t : MT σ) (ns : List Node) : List Event :=
  if t.once then (onceList t t.st [] ns).1 else specList t t.st [] ns

/-- what a template of the chain must be: live, lawful, not reading `updateonly`, with a well-nested body
    (`once` or not) -/
def StageOKO (t : MT σ) : Prop :=
  t.retired = false ∧ Lawful t ∧ FlagFree t ∧ BodyOK t.body

/-- `ChainO M s k ns out`: rewriting the forest `ns` by the templates of the slots `s … s+k-1` of `M`, one
    whole-document tree rewrite (`stageOut`) after the other, gives the events `out` -/
inductive ChainO (M : List (MT σ)) : Nat → Nat → List Node → List Event → Prop
  | done (s : Nat) (ns : List Node) : ChainO M s 0 ns (flattenList ns)
  | step {s k : Nat} {ns ns' : List Node} {out : List Event} {t : MT σ} :
      M[s]? = some t → okList ns' = true → flattenList ns' = stageOut t ns →
      ChainO M (s + 1) k ns' out → ChainO M s (k + 1) ns out

theorem chainO_congr {M M' : List (MT σ)} : ∀ {s k : Nat} {ns : List Node} {out : List Event},
    (∀ j, s ≤ j → M'[j]? = M[j]?) → ChainO M s k ns out → ChainO M' s k ns out := by
  intro s k ns out h hc
  induction hc with
  | done s ns => exact ChainO.done s ns
  | @step s k ns ns' out t ht hok hfl _ ih =>
    exact ChainO.step (by rw [h s (Nat.le_refl s)]; exact ht) hok hfl (ih (fun j hj => h j (by omega)))

/-- **The filter is the chain of tree rewrites, `once` templates included.** -/
theorem run_is_chainO : ∀ (k s f : Nat) (ns : List Node) (M : List (MT σ)) (r : List (MT σ) × List Event),
    okList ns = true → (∀ j t, s ≤ j → j < s + k → M[j]? = some t → StageOKO t) → s + k ≤ M.length →
    (∀ t ∈ M, OKt t) →
    run f s (some (s + k)) (evItems (flattenList ns)) M = some r → ChainO M s k ns r.2 := by
  intro k
  induction k with
  | zero =>
    intro s f ns M r _ _ _ _ h
    have := run_empty_window f s (some (s + 0)) _ M r (by intro j; simpa using win_empty' s j) (noReg_evItems _) h
    rw [this]
    simp only [evs_evItems]
    exact ChainO.done s ns
  | succ k ih =>
    intro s f ns M r hns hst hlen hok h
    have hneu : Neutral (evs (evItems (flattenList ns) : List (Item σ))) := by
      simp only [evs_evItems]; exact neutral_flattenList ns hns
    obtain ⟨f', out1, L, hL, hH⟩ := pipeline_seq f s (some (s + (k + 1))) _ M r.1 r.2 (s + 1) (noReg_evItems _) hneu hok
      (by omega) (by intro n hn; cases hn; omega) h
    obtain ⟨t, ht⟩ : ∃ t, M[s]? = some t := ⟨M[s]'(by omega), List.getElem?_eq_getElem (by omega)⟩
    obtain ⟨hr, hl, _, _⟩ := hst s t (Nat.le_refl s) (by omega) ht
    have hslot : SlotAt s t t.st [] M := ⟨t, ht, Shape.refl t, hr, rfl⟩
    have hout1 : out1 = stageOut t ns := by
      unfold stageOut
      by_cases ho : t.once = true
      · have := (once_stage_is_onceList t t.st s hl ho f' ns [] M (L, out1) hns hslot hL).1
        simpa [ho] using this
      · have ho' : t.once = false := by simpa using ho
        have := (stage_is_spec t t.st s hl ho' f' ns [] M (L, out1) hns hslot hL).1
        simpa [ho'] using this
    have hn1 : Neutral out1 := fun s2 => by
      have := run_track _ _ _ _ _ _ (fun y hy => (hok y hy).1) (fun y hy => absurd hy (noReg_evItems _ y)) hL s2 s2
        (by simpa using hneu s2)
      exact this
    obtain ⟨ns', hns', hfl⟩ := forest_of_neutral out1.length out1 (Nat.le_refl _) hn1
    have hLout := run_outside (noReg_evItems _) hL
    have hLlen := run_len (noReg_evItems _) hL
    have hokL := run_forall static_okt _ _ _ _ _ _ hok (fun y hy => absurd hy (noReg_evItems _ y)) hL
    have hLget : ∀ j, s + 1 ≤ j → L[j]? = M[j]? := fun j hj => hLout j (win_lo_false hj)
    rw [← hfl, show s + (k + 1) = (s + 1) + k by omega] at hH
    have hc := ih (s + 1) f' ns' L r hns'
      (by intro j t' h1 h2 h3; rw [hLget j h1] at h3; exact hst j t' (by omega) (by omega) h3)
      (by rw [hLlen]; omega) hokL hH
    refine ChainO.step ht hns' (by rw [hfl, hout1]) (chainO_congr (fun j hj => (hLget j hj).symm) hc)

/-! ### real templates -/

section
variable {τ : Type}

theorem stageOut_trel {a : MT σ} {b : MT τ} (h : TRel a b) (ns : List Node) : stageOut a ns = stageOut b ns := by
  have ho : a.once = b.once := by
    obtain ⟨_, _, _, _, ho, _⟩ := h
    exact ho
  unfold stageOut
  rw [ho, onceList_trel h ns, specList_trel h ns]

theorem chainO_sim {A : List (MT σ)} {B : List (MT τ)} (h : LRel A B) : ∀ {s k : Nat} {ns : List Node} {out : List Event},
    ChainO B s k ns out → ChainO A s k ns out := by
  intro s k ns out hc
  induction hc with
  | done s ns => exact ChainO.done s ns
  | @step s k ns ns' out t ht hok hfl _ ih =>
    rcases lrel_get h s with ⟨_, g2⟩ | ⟨ta, tb, g1, g2, hab⟩
    · rw [g2] at ht; cases ht
    · rw [g2] at ht
      cases ht
      exact ChainO.step g1 hok (by rw [hfl, stageOut_trel hab]) ih

end

open Genshi.Path in
/-- **The filter over real match templates is a chain of tree rewrites, `once` declarations included.** -/
theorem real_run_is_chainO (ns : NsMap) (vs : Vars) (ds : List Decl) (hok : ∀ d ∈ ds, d.ok ns vs)
    (hb : ∀ d ∈ ds, BodyOK d.body)
    (k s f : Nat) (forest : List Node) (r : List (MT RSt) × List Event) (hns : okList forest = true)
    (hlen : s + k ≤ ds.length)
    (h : run f s (some (s + k)) (evItems (flattenList forest)) (ds.map (Decl.real ns vs)) = some r) :
    ChainO (ds.map (Decl.real ns vs)) s k forest r.2 := by
  have hL := decls_lrel ns vs ds hok
  rcases run_rel f s (some (s + k)) (irel_evItems (σ := RSt) (τ := List AM) (flattenList forest)) hL with
    ⟨h1, _⟩ | ⟨A, B, o, h1, h2, _⟩
  · rw [h1] at h; cases h
  · rw [h1] at h
    cases h
    refine chainO_sim hL (run_is_chainO k s f forest (ds.map (Decl.abs ns vs)) (B, o) hns ?_ (by simpa using hlen) ?_ h2)
    · intro j t hj1 hj2 ht
      rw [List.getElem?_map] at ht
      cases hd : ds[j]? with
      | none => rw [hd] at ht; cases ht
      | some d =>
        rw [hd] at ht
        cases ht
        have hmem : d ∈ ds := List.mem_of_getElem? hd
        exact ⟨rfl, abs_lawful ns vs d.paths d.body d.hints d.force (hok d hmem), abs_flagFree ns vs _ _ _ _, hb d hmem⟩
    · intro t ht
      obtain ⟨d, hd, rfl⟩ := List.mem_map.mp ht
      exact ⟨hb d hd, abs_flagFree ns vs _ _ _ _⟩

end Genshi.Match

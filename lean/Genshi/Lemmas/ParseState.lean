/-
  C07 — the anchored state `_open_tags`: it is the nesting stack of what has been enqueued so far,
  and it never holds a void element.
-/
import Genshi.Lemmas.ParseHtml
namespace Genshi.Parse
open Genshi

/-- after any batch that completes, `_open_tags` is exactly the stack of elements the enqueued events
    have opened and not closed -/
theorem run_html_balance (env : Env) : ∀ (items : List (Item HtmlCb)) (o o' : List Str) (q : Stream),
    run (htmlLayer env) o items = .ok (o', q) → balance (stackOf o) q = some (stackOf o')
  | [], o, o', q, h => by
      simp only [run, Except.ok.injEq, Prod.mk.injEq] at h
      obtain ⟨rfl, rfl⟩ := h; rfl
  | .raise e :: rest, o, o', q, h => by simp [run] at h
  | .cb c :: rest, o, o', q, h => by
      rw [run] at h
      cases hs : (htmlLayer env).step o c with
      | error e => simp [hs] at h
      | ok r =>
        obtain ⟨o1, evs⟩ := r
        simp only [hs] at h
        cases hr : run (htmlLayer env) o1 rest with
        | error e => simp [hr] at h
        | ok r' =>
          obtain ⟨o2, q2⟩ := r'
          simp only [hr, Except.ok.injEq, Prod.mk.injEq] at h
          obtain ⟨rfl, rfl⟩ := h
          rw [balance_append, balance_htmlStep env o o1 c evs hs]
          exact run_html_balance env rest o1 o2 q2 hr

def noVoid (env : Env) (o : List Str) : Bool := o.all fun t => !env.void.contains t

theorem popTo_sublist (env : Env) (tag : Str) : ∀ (o : List Str), ∀ t ∈ (popTo env tag o).1, t ∈ o
  | [], t, h => by simp [popTo] at h
  | x :: o, t, h => by
      simp only [popTo] at h
      split at h
      · exact List.mem_cons_of_mem _ h
      · exact List.mem_cons_of_mem _ (popTo_sublist env tag o t h)

theorem noVoid_htmlStep (env : Env) (o o' : List Str) (c : HtmlCb) (evs : Stream)
    (h : htmlStep env o c = .ok (o', evs)) (hn : noVoid env o = true) : noVoid env o' = true := by
  have hpop : ∀ (o1 : List Str) (tag : Str), noVoid env o1 = true → noVoid env (handleEndtag env o1 tag).1 = true := by
    intro o1 tag h1
    unfold handleEndtag
    split
    · exact h1
    · simp only [noVoid, List.all_eq_true] at h1 ⊢
      intro t ht
      exact h1 t (popTo_sublist env tag o1 t ht)
  have hstart : ∀ (tag : Str) (attrs : List (Str × Option Str)) (o1 : List Str) (e1 : Stream),
      handleStarttag env o tag attrs = .ok (o1, e1) → noVoid env o1 = true := by
    intro tag attrs o1 e1 hs
    unfold handleStarttag at hs
    cases hf : fixAttrs env attrs with
    | error e => simp [hf] at hs
    | ok fixed =>
      simp only [hf] at hs
      split at hs
      · simp only [Except.ok.injEq, Prod.mk.injEq] at hs
        obtain ⟨rfl, _⟩ := hs; exact hn
      · rename_i hv
        simp only [Except.ok.injEq, Prod.mk.injEq] at hs
        obtain ⟨rfl, _⟩ := hs
        simp only [noVoid, List.all_cons, Bool.and_eq_true, Bool.not_eq_true'] at hn ⊢
        exact ⟨by simpa using hv, hn⟩
  cases c with
  | starttag tag attrs => exact hstart tag attrs o' evs h
  | endtag tag =>
    simp only [htmlStep, Except.ok.injEq] at h
    have := hpop o tag hn
    rw [h] at this; exact this
  | startendtag tag attrs =>
    simp only [htmlStep] at h
    cases hs : handleStarttag env o tag attrs with
    | error e => simp [hs] at h
    | ok r =>
      obtain ⟨o1, e1⟩ := r
      simp only [hs, Except.ok.injEq, Prod.mk.injEq] at h
      obtain ⟨rfl, _⟩ := h
      exact hpop o1 tag (hstart tag attrs o1 e1 hs)
  | data s => simp only [htmlStep, Except.ok.injEq, Prod.mk.injEq] at h; obtain ⟨rfl, _⟩ := h; exact hn
  | comment s => simp only [htmlStep, Except.ok.injEq, Prod.mk.injEq] at h; obtain ⟨rfl, _⟩ := h; exact hn
  | pi s => simp only [htmlStep, Except.ok.injEq, Prod.mk.injEq] at h; obtain ⟨rfl, _⟩ := h; exact hn
  | charref name =>
    simp only [htmlStep] at h
    cases hc : charrefText name with
    | error e => simp [hc] at h
    | ok t => simp only [hc, Except.ok.injEq, Prod.mk.injEq] at h; obtain ⟨rfl, _⟩ := h; exact hn
  | entityref name => simp only [htmlStep, Except.ok.injEq, Prod.mk.injEq] at h; obtain ⟨rfl, _⟩ := h; exact hn
  | decl s => simp only [htmlStep, Except.ok.injEq, Prod.mk.injEq] at h; obtain ⟨rfl, _⟩ := h; exact hn

theorem run_html_noVoid (env : Env) : ∀ (items : List (Item HtmlCb)) (o o' : List Str) (q : Stream),
    run (htmlLayer env) o items = .ok (o', q) → noVoid env o = true → noVoid env o' = true
  | [], o, o', q, h, hn => by
      simp only [run, Except.ok.injEq, Prod.mk.injEq] at h
      obtain ⟨rfl, _⟩ := h; exact hn
  | .raise e :: rest, o, o', q, h, _ => by simp [run] at h
  | .cb c :: rest, o, o', q, h, hn => by
      rw [run] at h
      cases hs : (htmlLayer env).step o c with
      | error e => simp [hs] at h
      | ok r =>
        obtain ⟨o1, evs⟩ := r
        simp only [hs] at h
        cases hr : run (htmlLayer env) o1 rest with
        | error e => simp [hr] at h
        | ok r' =>
          obtain ⟨o2, q2⟩ := r'
          simp only [hr, Except.ok.injEq, Prod.mk.injEq] at h
          obtain ⟨rfl, _⟩ := h
          exact run_html_noVoid env rest o1 o2 q2 hr (noVoid_htmlStep env o o1 c evs hs hn)

end Genshi.Parse

/-
  The concrete matchers of the C12 driver against the matcher law.
-/
import Genshi.Lemmas.MatchSync
import Genshi.Model.MatchPath
namespace Genshi.Match
open Genshi

/-- SimplePathStrategy pushes exactly one entry per START -/
theorem simpleStart_tail (frags : List (List Str)) (stack : List (Nat × Nat)) (name : Str) :
    (simpleStart frags stack name).1.tail = stack := by
  unfold simpleStart
  simp only []
  (repeat' split) <;> rfl

end Genshi.Match

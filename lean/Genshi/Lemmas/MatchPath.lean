/-
  The concrete matchers of the C12 driver against the matcher law.
-/
import Genshi.Lemmas.MatchSync
import Genshi.Model.MatchPath
namespace Genshi.Match
open Genshi

/-- SimplePathStrategy pushes exactly one entry per START -/
theorem simpleStart_tail (frags : List (List Str)) (stack : List (Nat × Nat)) (name : Str) :
    (simpleStart frags stack name).1.tail = stack := by
  unfold simpleStart
  simp only []
  (repeat' split) <;> rfl

/-- GenericStrategy pushes exactly one entry per START (none when its root entry is gone) -/
theorem genStart_tail (steps : List (GAxis × GTest)) (gstack : List (List Nat)) (name : Str) :
    (genStart steps gstack name).1.tail = gstack.tail ∨ (genStart steps gstack name).1.tail = gstack := by
  unfold genStart
  cases gstack with
  | nil => left; rfl
  | cons top rest => right; rfl

end Genshi.Match

/-
  C05 `parse ∘ print = id`, part 6: every number `m / 10^e` has a numeral that reads back as
  that number (`Print.numOk (.dec false m e) = true`), so the side condition on number literals
  in `Print.pathsOk` holds for every non-negative decimal.
-/
import Genshi.Lemmas.PathPrintTok
namespace Genshi.Path
namespace Print
open Genshi

/-- the ten digit characters -/
def DigitStr (l : Str) : Prop := ∀ c ∈ l, ∃ k, k < 10 ∧ c = Char.ofNat (48 + k)

theorem dchar : ∀ k, k < 10 →
    XNum.isDigit (Char.ofNat (48 + k)) = true ∧ nameCh (Char.ofNat (48 + k)) = true ∧
    (Char.ofNat (48 + k)).toNat - 48 = k ∧ XNum.isXmlSpace (Char.ofNat (48 + k)) = false ∧
    (Char.ofNat (48 + k) == '-') = false := by decide

theorem DigitStr.append {a b : Str} (ha : DigitStr a) (hb : DigitStr b) : DigitStr (a ++ b) := by
  intro c hc
  rcases List.mem_append.mp hc with h | h
  · exact ha c h
  · exact hb c h

theorem DigitStr.all_digit {l : Str} (h : DigitStr l) : l.all XNum.isDigit = true := by
  simp only [List.all_eq_true]
  intro c hc
  obtain ⟨k, hk, rfl⟩ := h c hc
  exact (dchar k hk).1

theorem DigitStr.all_name {l : Str} (h : DigitStr l) : l.all nameCh = true := by
  simp only [List.all_eq_true]
  intro c hc
  obtain ⟨k, hk, rfl⟩ := h c hc
  exact (dchar k hk).2.1

theorem digitsVal_snoc (l : Str) (d : Char) : XNum.digitsVal (l ++ [d]) = XNum.digitsVal l * 10 + (d.toNat - 48) := by
  simp [XNum.digitsVal, List.foldl_append]

theorem digitsAux_spec : ∀ (fuel n : Nat) (acc : Str), n < fuel →
    ∃ l, XNum.digitsAux fuel n acc = l ++ acc ∧ XNum.digitsVal l = n ∧ DigitStr l ∧ l ≠ [] := by
  intro fuel
  induction fuel with
  | zero => intro n acc h; omega
  | succ fuel ih =>
    intro n acc hn
    have hk : n % 10 < 10 := Nat.mod_lt _ (by omega)
    obtain ⟨_, _, hv, _, _⟩ := dchar (n % 10) hk
    by_cases h0 : n / 10 = 0
    · refine ⟨[Char.ofNat (48 + n % 10)], ?_, ?_, ?_, by simp⟩
      · simp [XNum.digitsAux, h0]
      · simp only [XNum.digitsVal, List.foldl, hv]; omega
      · intro c hc; simp at hc; exact ⟨n % 10, hk, hc⟩
    · obtain ⟨l, hl, hval, hds, _⟩ := ih (n / 10) (Char.ofNat (48 + n % 10) :: acc) (by omega)
      refine ⟨l ++ [Char.ofNat (48 + n % 10)], ?_, ?_, ?_, by simp⟩
      · have : (n / 10 == 0) = false := by simpa using h0
        simp [XNum.digitsAux, this, hl]
      · rw [digitsVal_snoc, hval, hv]; omega
      · exact hds.append (fun c hc => by simp at hc; exact ⟨n % 10, hk, hc⟩)

theorem digits_spec (n : Nat) : XNum.digitsVal (XNum.digits n) = n ∧ DigitStr (XNum.digits n) ∧ XNum.digits n ≠ [] := by
  obtain ⟨l, hl, hv, hd, hne⟩ := digitsAux_spec (n + 1) n [] (by omega)
  simp only [List.append_nil] at hl
  simp only [XNum.digits, hl]
  exact ⟨hv, hd, hne⟩

theorem digitsVal_zeros (j : Nat) (s : Str) : XNum.digitsVal (List.replicate j '0' ++ s) = XNum.digitsVal s := by
  induction j with
  | zero => simp
  | succ j ih =>
    simp only [List.replicate_succ, List.cons_append]
    simp only [XNum.digitsVal, List.foldl] at ih ⊢
    have : (0 * 10 + ('0'.toNat - 48)) = 0 := by decide
    rw [this]; exact ih

theorem padLeft_spec (k : Nat) (s : Str) (hs : DigitStr s) :
    XNum.digitsVal (XNum.padLeft k s) = XNum.digitsVal s ∧ DigitStr (XNum.padLeft k s) ∧ k ≤ (XNum.padLeft k s).length := by
  refine ⟨digitsVal_zeros _ _, ?_, ?_⟩
  · apply DigitStr.append _ hs
    intro c hc
    simp only [List.mem_replicate] at hc
    exact ⟨0, by omega, hc.2⟩
  · simp [XNum.padLeft]; omega

theorem dropWhile_space_id (l : Str) (hl : ∀ c ∈ l, XNum.isXmlSpace c = false) : l.dropWhile XNum.isXmlSpace = l := by
  cases l with
  | nil => rfl
  | cons c cs => simp [List.dropWhile, hl c List.mem_cons_self]

theorem strip_id (s : Str) (h : ∀ c ∈ s, XNum.isXmlSpace c = false) :
    ((s.dropWhile XNum.isXmlSpace).reverse.dropWhile XNum.isXmlSpace).reverse = s := by
  rw [dropWhile_space_id s h, dropWhile_space_id s.reverse (fun c hc => h c (List.mem_reverse.mp hc)),
    List.reverse_reverse]

theorem DigitStr.no_space {l : Str} (h : DigitStr l) : ∀ c ∈ l, XNum.isXmlSpace c = false := by
  intro c hc
  obtain ⟨k, hk, rfl⟩ := h c hc
  exact (dchar k hk).2.2.2.1

theorem dot_nd : ∀ c r', ('.' :: r' : Str) = c :: r' → XNum.isDigit c = false := by
  intro c r' h; cases h; decide

/-- an integer numeral -/
theorem parse_int (ip : Str) (hip : DigitStr ip) (hne : ip ≠ []) :
    XNum.parse ip = .dec false (XNum.digitsVal ip) 0 := by
  obtain ⟨c, cs, rfl⟩ : ∃ c cs, ip = c :: cs := by
    cases ip with
    | nil => exact absurd rfl hne
    | cons c cs => exact ⟨c, cs, rfl⟩
  obtain ⟨k, hk, hck⟩ := hip c List.mem_cons_self
  have hminus : (c == '-') = false := by rw [hck]; exact (dchar k hk).2.2.2.2
  have hneg : ∀ r, (c :: cs) ≠ '-' :: r := by
    intro r h; simp at h; simp [h.1] at hminus
  have htw : (c :: cs).takeWhile XNum.isDigit = c :: cs := by
    have := takeWhile_append_of_all XNum.isDigit (c :: cs) [] hip.all_digit (fun _ _ h => by cases h)
    simpa using this
  have hdw : (c :: cs).dropWhile XNum.isDigit = [] := by
    have := dropWhile_append_of_all XNum.isDigit (c :: cs) [] hip.all_digit (fun _ _ h => by cases h)
    simpa using this
  unfold XNum.parse
  simp only [strip_id _ hip.no_space]
  simp only [htw, hdw]
  simp

/-- a decimal numeral -/
theorem parse_dec (ip fr : Str) (hip : DigitStr ip) (hfr : DigitStr fr) (hne : ip ≠ []) :
    XNum.parse (ip ++ '.' :: fr) = .dec false (XNum.digitsVal (ip ++ fr)) fr.length := by
  obtain ⟨c, cs, rfl⟩ : ∃ c cs, ip = c :: cs := by
    cases ip with
    | nil => exact absurd rfl hne
    | cons c cs => exact ⟨c, cs, rfl⟩
  obtain ⟨k, hk, hck⟩ := hip c List.mem_cons_self
  have hminus : (c == '-') = false := by rw [hck]; exact (dchar k hk).2.2.2.2
  have hneg : ∀ r, (c :: cs ++ '.' :: fr) ≠ '-' :: r := by
    intro r h; simp at h; simp [h.1] at hminus
  have hdot : ∀ d r', ('.' :: fr : Str) = d :: r' → XNum.isDigit d = false := by
    intro d r' h; cases h; decide
  have htw : (c :: cs ++ '.' :: fr).takeWhile XNum.isDigit = c :: cs :=
    takeWhile_append_of_all XNum.isDigit (c :: cs) _ hip.all_digit hdot
  have hdw : (c :: cs ++ '.' :: fr).dropWhile XNum.isDigit = '.' :: fr :=
    dropWhile_append_of_all XNum.isDigit (c :: cs) _ hip.all_digit hdot
  have hsp : ∀ x ∈ (c :: cs ++ '.' :: fr), XNum.isXmlSpace x = false := by
    intro x hx
    rcases List.mem_append.mp hx with h | h
    · exact hip.no_space x h
    · rcases List.mem_cons.mp h with rfl | h'
      · decide
      · exact hfr.no_space x h'
  unfold XNum.parse
  simp only [strip_id _ hsp]
  simp only [htw, hdw]
  simp [hfr.all_digit]

/-- **every non-negative decimal has a numeral that reads back as that number** -/
theorem numOk_all (m e : Nat) : numOk (.dec false m e) = true := by
  obtain ⟨hv, hd, hne⟩ := digits_spec m
  obtain ⟨pv, pd, pl⟩ := padLeft_spec (e + 1) (XNum.digits m) hd
  rw [hv] at pv
  generalize hds : XNum.padLeft (e + 1) (XNum.digits m) = ds at pv pd pl
  have hdsne : ds ≠ [] := by intro h; rw [h] at pl; simp at pl
  by_cases he : e = 0
  · subst he
    have htok : numTok (.dec false m 0) = ds := by simp [numTok, hds]
    have htw : ds.takeWhile XNum.isDigit = ds := by
      have := takeWhile_append_of_all XNum.isDigit ds [] pd.all_digit (fun _ _ h => by cases h)
      simpa using this
    have hsh : numShape ds = true := by
      simp only [numShape, htw, List.drop_length, pd.all_name]
      simp [hdsne]
    simp only [numOk, htok, hsh, parse_int ds pd hdsne, pv, Bool.true_and, decide_eq_true_eq]
  · have hlen : e < ds.length := by omega
    have hsplit : ds = ds.take (ds.length - e) ++ ds.drop (ds.length - e) := (List.take_append_drop _ _).symm
    generalize hip : ds.take (ds.length - e) = ip at hsplit
    generalize hfr : ds.drop (ds.length - e) = fr at hsplit
    have hipd : DigitStr ip := fun c hc => pd c (by rw [hsplit]; exact List.mem_append_left _ hc)
    have hfrd : DigitStr fr := fun c hc => pd c (by rw [hsplit]; exact List.mem_append_right _ hc)
    have hfrl : fr.length = e := by rw [← hfr]; simp; omega
    have hipne : ip ≠ [] := by
      intro h
      have : ip.length = ds.length - e := by rw [← hip]; simp
      rw [h] at this; simp at this; omega
    have hfrne : fr ≠ [] := by intro h; rw [h] at hfrl; simp at hfrl; omega
    have htok : numTok (.dec false m e) = ip ++ '.' :: fr := by
      have : (e == 0) = false := by simpa using he
      simp [numTok, hds, this, hip, hfr]
    have hdot : ∀ d r', ('.' :: fr : Str) = d :: r' → XNum.isDigit d = false := by
      intro d r' h; cases h; decide
    have htw : (ip ++ '.' :: fr).takeWhile XNum.isDigit = ip :=
      takeWhile_append_of_all XNum.isDigit ip _ hipd.all_digit hdot
    have hdw : (ip ++ '.' :: fr).dropWhile XNum.isDigit = '.' :: fr :=
      dropWhile_append_of_all XNum.isDigit ip _ hipd.all_digit hdot
    have hsh : numShape (ip ++ '.' :: fr) = true := by
      simp only [numShape, hdw, htw, hipd.all_name, hfrd.all_digit]
      simp [hipne, hfrne]
      exact List.all_eq_true.mp hfrd.all_digit
    have hpar := parse_dec ip fr hipd hfrd hipne
    rw [← hsplit, pv, hfrl] at hpar
    simp only [numOk, htok, hsh, hpar, Bool.true_and, decide_eq_true_eq]

end Print
end Genshi.Path

/-
  C04 — the token-level printer round trip of the text-template scanner for ARBITRARY delimiters:
  under `Delims.ok` and the "no early occurrence of the end delimiter" conditions, a printed
  directive / comment is scanned as exactly one token (with its command and value), whatever
  follows it.  Generalises `matchDir_print`, `matchComment_print`, `scanNewGo_dir`,
  `scanNewGo_comment` of `Genshi/Lemmas/TmplScanPrint.lean`.
-/
import Genshi.Model.TmplScanD
import Genshi.Lemmas.TmplScanPrint
namespace Genshi.Tmpl.ScanD
open Genshi.Tmpl.Scan Genshi.San

/-! ### prefixes, occurrences -/

theorem dropPrefix?_app (p s : Str) : dropPrefix? p (p ++ s) = some s := by
  induction p with
  | nil => simp [dropPrefix?]
  | cons a p ih => simp [dropPrefix?, ih]

/-- the first occurrence of `p` in `s ++ p ++ rest` is the printed one: `p` does not occur in
    `s ++ p` starting inside `s` -/
def NoOcc (p s : Str) : Prop := ∀ rest, findSub p (s ++ p ++ rest) = some (s, rest)

theorem noOcc_nil (p : Str) : NoOcc p [] := by
  intro rest
  cases p with
  | nil => cases rest <;> simp [findSub, dropPrefix?]
  | cons c p' =>
    have h := dropPrefix?_app (c :: p') rest
    simp only [List.nil_append, List.cons_append] at h ⊢
    simp [findSub, h]

/-- a sufficient condition: the first character of `p` does not occur in `s` -/
theorem noOcc_of_not_mem {p s : Str} {c : Char} {p' : Str} (hp : p = c :: p') (hs : c ∉ s) :
    NoOcc p s := by
  induction s with
  | nil => exact noOcc_nil p
  | cons a s ih =>
    intro rest
    have hca : c ≠ a := fun h => hs (by simp [h])
    have ih' := ih (fun h => hs (List.mem_cons_of_mem _ h)) rest
    subst hp
    simp only [List.cons_append, List.append_assoc] at ih' ⊢
    simp [findSub, dropPrefix?, hca, ih']

/-! ### scanner steps -/

theorem lastCh_append (p : Char) (x y : Str) : lastCh p (x ++ y) = lastCh (lastCh p x) y := by
  induction x generalizing p with
  | nil => rfl
  | cons c x ih => exact ih c

theorem scanDGo_skip (d : Delims) (x : Str) : ∀ (k : Nat) (p : Char) (acc y : Str), x.length = k →
    scanDGo d k p acc (x ++ y) = scanDGo d 0 (lastCh p x) acc y := by
  induction x with
  | nil => intro k p acc y h; simp at h; subst h; rfl
  | cons c x ih =>
    intro k p acc y h
    cases k with
    | zero => simp at h
    | succ k =>
      simp only [List.length_cons, Nat.add_right_cancel_iff] at h
      simp only [List.cons_append, scanDGo, lastCh]
      exact ih k c acc y h

/-- a matched directive at a position not preceded by a backslash is one token; scanning resumes
    behind the end delimiter -/
theorem scanDGo_dir (d : Delims) {p : Char} {acc X : Str} {m : DirM} (hp : p ≠ '\\')
    (hsd : d.sd ≠ []) (hm : matchDirD d X = some m) (hX : X = m.inner ++ d.ed ++ m.rest) :
    scanDGo d 0 p acc (d.sd ++ X) =
      flushText acc ++ RTok.dir m.inner m.cmd m.val ::
        scanDGo d 0 (lastCh p (d.sd ++ m.inner ++ d.ed)) [] m.rest := by
  obtain ⟨c, sd', hsd'⟩ := List.exists_cons_of_ne_nil hsd
  have e : d.sd ++ X = c :: (sd' ++ X) := by rw [hsd']; rfl
  have hdp : dropPrefix? d.sd (c :: (sd' ++ X)) = some X := by
    rw [← e]; exact dropPrefix?_app d.sd X
  have hk : scanDGo d (d.sd.length + m.inner.length + d.ed.length - 1) c [] (sd' ++ X) =
      scanDGo d 0 (lastCh p (d.sd ++ m.inner ++ d.ed)) [] m.rest := by
    have e2 : sd' ++ X = (sd' ++ m.inner ++ d.ed) ++ m.rest := by rw [hX]; simp
    rw [e2, scanDGo_skip d _ _ c [] m.rest (by simp [hsd']; omega)]
    congr 1
    rw [hsd']; rfl
  rw [e]
  conv => lhs; unfold scanDGo
  simp [hp, hdp, hm, hk]

/-- a matched comment (that is not also a directive) is one token -/
theorem scanDGo_comment (d : Delims) {p : Char} {acc X body rest : Str} (hp : p ≠ '\\')
    (hsc : d.sc ≠ []) (hnd : (dropPrefix? d.sd (d.sc ++ X)).bind (matchDirD d) = none)
    (hm : matchCommentD d X = some (body, rest)) (hX : X = body ++ d.ec ++ rest) :
    scanDGo d 0 p acc (d.sc ++ X) =
      flushText acc ++ RTok.comment body ::
        scanDGo d 0 (lastCh p (d.sc ++ body ++ d.ec)) [] rest := by
  obtain ⟨c, sc', hsc'⟩ := List.exists_cons_of_ne_nil hsc
  have e : d.sc ++ X = c :: (sc' ++ X) := by rw [hsc']; rfl
  have hdp : dropPrefix? d.sc (c :: (sc' ++ X)) = some X := by
    rw [← e]; exact dropPrefix?_app d.sc X
  rw [e] at hnd
  have hk : scanDGo d (d.sc.length + body.length + d.ec.length - 1) c [] (sc' ++ X) =
      scanDGo d 0 (lastCh p (d.sc ++ body ++ d.ec)) [] rest := by
    have e2 : sc' ++ X = (sc' ++ body ++ d.ec) ++ rest := by rw [hX]; simp
    rw [e2, scanDGo_skip d _ _ c [] rest (by simp [hsc']; omega)]
    congr 1
    rw [hsc']; rfl
  rw [e]
  conv => lhs; unfold scanDGo
  simp [hp, hdp, hnd, hm, hk]

/-! ### printed directives and comments are matched -/

theorem ok_ed {d : Delims} (hd : d.ok = true) :
    ∃ c r, d.ed = c :: r ∧ isReWord c = false ∧ isReSpace c = false := by
  unfold Delims.ok at hd
  cases he : d.ed with
  | nil => simp [he] at hd
  | cons c r =>
    simp [he] at hd
    exact ⟨c, r, rfl, hd.2.1, hd.2.2⟩

theorem ok_sd {d : Delims} (hd : d.ok = true) : d.sd ≠ [] := by
  unfold Delims.ok at hd
  intro h
  simp [h] at hd

theorem ok_sc {d : Delims} (hd : d.ok = true) : d.sc ≠ [] := by
  unfold Delims.ok at hd
  intro h
  simp [h] at hd

theorem ok_ec {d : Delims} (hd : d.ok = true) : d.ec ≠ [] := by
  unfold Delims.ok at hd
  intro h
  simp [h] at hd

/-- the printed value with its trailing blank -/
def valPad (val : Str) : Str := if val.isEmpty then [] else val ++ [' ']

/-- what is between the delimiters of a printed directive -/
def dirInner (cmd val : Str) : Str := ' ' :: (cmd ++ ' ' :: valPad val)

/-- a directive the documentation describes, for the delimiters `d` -/
structure OkDirD (d : Delims) (cmd val : Str) : Prop where
  cmd_ne : cmd ≠ []
  cmd_word : ∀ c ∈ cmd, isReWord c = true
  /-- the end delimiter does not occur early in `val ␣ ED` -/
  val_free : NoOcc d.ed (valPad val)
  val_head : ∀ c, val.head? = some c → isReSpace c = false
  val_last : ∀ c, val.getLast? = some c → isReSpace c = false

theorem print_dirD (d : Delims) (cmd val rest : Str) :
    printDTok d (.dir cmd val) ++ rest = d.sd ++ (dirInner cmd val ++ d.ed ++ rest) := by
  cases hv : val.isEmpty <;> simp [printDTok, dirInner, valPad, hv]

theorem print_commentD (d : Delims) (b rest : Str) :
    printDTok d (.comment b) ++ rest = d.sc ++ (b ++ d.ec ++ rest) := by
  simp [printDTok]

theorem matchDirD_print (d : Delims) (hd : d.ok = true) {cmd val : Str} (ok : OkDirD d cmd val)
    (rest : Str) :
    matchDirD d (dirInner cmd val ++ d.ed ++ rest) = some ⟨dirInner cmd val, cmd, val, rest⟩ := by
  obtain ⟨e0, ed', hed, he0w, he0s⟩ := ok_ed hd
  obtain ⟨c0, cmd', rfl⟩ := List.exists_cons_of_ne_nil ok.cmd_ne
  have hc0 : isReSpace c0 = false := word_not_space (ok.cmd_word c0 (List.mem_cons_self ..))
  generalize hZ : valPad val ++ d.ed ++ rest = Z
  have hZhead : ∀ c, Z.head? = some c → isReSpace c = false := by
    intro c hc
    subst hZ
    cases val with
    | nil => simp [valPad, hed] at hc; subst hc; exact he0s
    | cons a v => simp [valPad] at hc; subst hc; exact ok.val_head a rfl
  have hZfind : findSub d.ed Z = some (valPad val, rest) := by
    subst hZ; exact ok.val_free rest
  have hstrip : rstripBy isReSpace (valPad val) = val := by
    cases val with
    | nil => simp [valPad, rstripBy]
    | cons a v =>
      simp only [valPad, List.isEmpty_cons, Bool.false_eq_true, if_false]
      rw [rstripBy_snoc _ space_blank]
      exact rstripBy_id _ ok.val_last
  have s1 := span_all (p := isReSpace) [' '] ((c0 :: cmd') ++ ' ' :: Z) (by simp [space_blank])
    (by intro c hc; simp at hc; subst hc; exact hc0)
  have s2 := span_all (p := isReWord) (c0 :: cmd') (' ' :: Z) ok.cmd_word
    (by intro c hc; simp at hc; subst hc; exact word_blank)
  have s3 := span_all (p := isReSpace) [' '] Z (by simp [space_blank]) hZhead
  have e : dirInner (c0 :: cmd') val ++ d.ed ++ rest = [' '] ++ ((c0 :: cmd') ++ ' ' :: Z) := by
    rw [← hZ]; simp [dirInner]
  have e3 : (' ' :: Z) = [' '] ++ Z := rfl
  unfold matchDirD
  simp only [e, s1.1, s1.2, s2.1, s2.2]
  simp only [e3, s3.1, s3.2, hZfind, hstrip]
  simp [dotNew_true, dirInner]

theorem matchCommentD_print (d : Delims) {b : Str} (h : NoOcc d.ec b) (rest : Str) :
    matchCommentD d (b ++ d.ec ++ rest) = some (b, rest) := by
  unfold matchCommentD
  rw [h rest]
  simp [dotNew_true]

/-! ### the token-level round trip -/

/-- a printed directive at a position not preceded by a backslash is one token, and scanning
    resumes behind it (the character in front is then the last one of the printed directive) -/
theorem scanDGo_printed_dir (d : Delims) (hd : d.ok = true) {cmd val : Str} (ok : OkDirD d cmd val)
    (p : Char) (hp : p ≠ '\\') (acc rest : Str) :
    scanDGo d 0 p acc (printDTok d (.dir cmd val) ++ rest) =
      flushText acc ++ RTok.dir (dirInner cmd val) cmd val ::
        scanDGo d 0 (lastCh p (printDTok d (.dir cmd val))) [] rest := by
  have hm := matchDirD_print d hd ok rest
  have h := scanDGo_dir d (p := p) (acc := acc) hp (ok_sd hd) hm rfl
  have e1 := print_dirD d cmd val rest
  have e2 := print_dirD d cmd val []
  simp only [List.append_nil] at e2
  rw [e1, h, e2]
  simp

/-- a printed comment (that is not also matched as a directive) at a position not preceded by a
    backslash is one token -/
theorem scanDGo_printed_comment (d : Delims) (hd : d.ok = true) {b : Str} (h : NoOcc d.ec b)
    (p : Char) (hp : p ≠ '\\') (acc rest : Str)
    (hnd : (dropPrefix? d.sd (d.sc ++ (b ++ d.ec ++ rest))).bind (matchDirD d) = none) :
    scanDGo d 0 p acc (printDTok d (.comment b) ++ rest) =
      flushText acc ++ RTok.comment b ::
        scanDGo d 0 (lastCh p (printDTok d (.comment b))) [] rest := by
  have hm := matchCommentD_print d h rest
  have hs := scanDGo_comment d (p := p) (acc := acc) hp (ok_sc hd) hnd hm rfl
  have e1 := print_commentD d b rest
  have e2 := print_commentD d b []
  simp only [List.append_nil] at e2
  rw [e1, hs, e2]
  simp

/-- the same when the directive start delimiter is no prefix of anything beginning with the comment
    start delimiter (the two start delimiters part somewhere, as `{%` and `{#` do) -/
theorem scanDGo_printed_comment' (d : Delims) (hd : d.ok = true) {b : Str} (h : NoOcc d.ec b)
    (hsep : ∀ y, dropPrefix? d.sd (d.sc ++ y) = none)
    (p : Char) (hp : p ≠ '\\') (acc rest : Str) :
    scanDGo d 0 p acc (printDTok d (.comment b) ++ rest) =
      flushText acc ++ RTok.comment b ::
        scanDGo d 0 (lastCh p (printDTok d (.comment b))) [] rest :=
  scanDGo_printed_comment d hd h p hp acc rest (by rw [hsep]; rfl)

/-- the character in front of what follows a printed directive / comment is the last character of
    the end delimiter -/
theorem lastCh_printed_dir (d : Delims) (hd : d.ok = true) (cmd val : Str) (p : Char) :
    lastCh p (printDTok d (.dir cmd val)) = lastCh ' ' d.ed := by
  obtain ⟨e0, ed', hed, _, _⟩ := ok_ed hd
  have e2 := print_dirD d cmd val []
  simp only [List.append_nil] at e2
  rw [e2, lastCh_append, lastCh_append, hed]
  rfl

theorem lastCh_printed_comment (d : Delims) (hd : d.ok = true) (b : Str) (p : Char) :
    lastCh p (printDTok d (.comment b)) = lastCh ' ' d.ec := by
  obtain ⟨e0, ec', hec⟩ := List.exists_cons_of_ne_nil (ok_ec hd)
  have e2 := print_commentD d b []
  simp only [List.append_nil] at e2
  rw [e2, lastCh_append, lastCh_append, hec]
  rfl

/-! ### non-vacuity: `<< if x >>`, `<# note #>` -/

def dEx : Delims := ⟨['<', '<'], ['>', '>'], ['<', '#'], ['#', '>']⟩

theorem dEx_ok : dEx.ok = true := by decide +kernel
theorem dEx_sd : dEx.sd = ['<', '<'] := rfl
theorem dEx_ed : dEx.ed = ['>', '>'] := rfl
theorem dEx_sc : dEx.sc = ['<', '#'] := rfl
theorem dEx_ec : dEx.ec = ['#', '>'] := rfl

theorem okDir_ex : OkDirD dEx ['i', 'f'] ['x'] where
  cmd_ne := by simp
  cmd_word := by
    intro c hc
    simp at hc
    rcases hc with rfl | rfl <;> decide +kernel
  val_free := noOcc_of_not_mem (c := '>') (p' := ['>']) rfl (by decide)
  val_head := by intro c hc; simp at hc; subst hc; decide +kernel
  val_last := by intro c hc; simp at hc; subst hc; decide +kernel

example (rest : Str) :
    scanD dEx ("<< if x >>".toList ++ rest) =
      RTok.dir " if x ".toList "if".toList "x".toList :: scanDGo dEx 0 '>' [] rest := by
  have h := scanDGo_printed_dir dEx dEx_ok okDir_ex '\n' (by decide) [] rest
  simpa [scanD, flushText, printDTok, dirInner, valPad, lastCh, dEx_sd, dEx_ed] using h

example (rest : Str) :
    scanD dEx ("<# note #>".toList ++ rest) =
      RTok.comment " note ".toList :: scanDGo dEx 0 '>' [] rest := by
  have h := scanDGo_printed_comment' dEx dEx_ok (b := " note ".toList)
    (noOcc_of_not_mem (c := '#') (p' := ['>']) rfl (by decide))
    (by intro y; simp [dEx, dropPrefix?]) '\n' (by decide) [] rest
  simpa [scanD, flushText, printDTok, lastCh, dEx_sc, dEx_ec] using h

end Genshi.Tmpl.ScanD

/-
  C13 — `parse_gen`: the iterating parts of the grammar (boolean operators, comparison chains,
  comma separated sequences, comprehension clauses) on the tokens `genList` writes.
-/
import Genshi.Lemmas.PyParseNodes
namespace Genshi.Py
open Genshi.Gen

/-! ### `and` / `or` -/

theorem genList_nil (pre post : List Tok) : genList pre post [] = [] := by simp [genList]
theorem genList_cons (pre post : List Tok) (e : PyExpr) (es : List PyExpr) :
    genList pre post (e :: es) = pre ++ gen e ++ post ++ genList pre post es := by simp [genList]

theorem genList_append (pre post : List Tok) (a b : List PyExpr) :
    genList pre post (a ++ b) = genList pre post a ++ genList pre post b := by
  induction a with
  | nil => simp [genList_nil]
  | cons e es ih => simp [genList_cons, ih]

theorem belowBool_andList (vs : List PyExpr) (rest : List Tok) (h : closedD rest = true) :
    belowBool (genList [kw cs!"and"] [] vs ++ rest) = true := by
  cases vs with
  | nil => simpa [genList_nil] using closedD_belowBool h
  | cons v vs => simp [genList_cons]; rfl

theorem belowBool_orList (vs : List PyExpr) (rest : List Tok) (h : closedD rest = true) :
    belowBool (genList [kw cs!"or"] [] vs ++ rest) = true := by
  cases vs with
  | nil => simpa [genList_nil] using closedD_belowBool h
  | cons v vs => simp [genList_cons]; rfl

theorem stopsAnd_orList (vs : List PyExpr) (rest : List Tok) (h : closedD rest = true) :
    stopsAnd (genList [kw cs!"or"] [] vs ++ rest) = true := by
  cases vs with
  | nil => simpa [genList_nil] using closedD_and h
  | cons v vs => simp [genList_cons]; rfl

theorem andlF_and (k : Knot) (acc : List PyExpr) (r : List Tok) :
    andlF k acc (.name ['a', 'n', 'd'] :: r) = (k.inv r).bind fun x => k.andl (x.1 :: acc) x.2 := rfl

theorem orlF_or (k : Knot) (acc : List PyExpr) (r : List Tok) :
    orlF k acc (.name ['o', 'r'] :: r) = (k.conj r).bind fun x => k.orl (x.1 :: acc) x.2 := rfl

theorem andl_loop (vs : List PyExpr) (hv : ∀ v ∈ vs, ExprGoal v) :
    ∀ (acc : List PyExpr) (M : Nat), 8 * szL vs + 1 ≤ M → ∀ rest, closedD rest = true →
      (knot M).andl acc (genList [kw cs!"and"] [] vs ++ rest) = some (mkBool cs!"And" (acc.reverse ++ vs), rest) := by
  induction vs with
  | nil =>
    intro acc M hM rest hc
    obtain ⟨m, rfl⟩ : ∃ m, M = m + 1 := ⟨M - 1, by omega⟩
    simp [genList_nil, andl_stop _ _ _ (closedD_and hc)]
  | cons v vs ih =>
    intro acc M hM rest hc
    simp only [szL] at hM
    obtain ⟨m, rfl⟩ : ∃ m, M = m + 2 := ⟨M - 2, by omega⟩
    have gv := hv v (by simp)
    have hi := gv.inv (M := m) (by simp only [need]; omega) (genList [kw cs!"and"] [] vs ++ rest)
      (belowBool_andList vs rest hc)
    simp only [genList_cons, List.append_nil, List.append_assoc, List.cons_append, List.nil_append, kw, knot_andl]
    rw [andlF_and, knot_inv]
    simp only [kw] at hi
    rw [hi]
    simp only [Option.bind_some]
    have := ih (fun x hx => hv x (by simp [hx])) (v :: acc) (m + 1) (by omega) rest hc
    simp only [kw] at this
    rw [this]
    simp

theorem orl_loop (vs : List PyExpr) (hv : ∀ v ∈ vs, ExprGoal v) :
    ∀ (acc : List PyExpr) (M : Nat), 8 * szL vs + 1 ≤ M → ∀ rest, closedD rest = true →
      (knot M).orl acc (genList [kw cs!"or"] [] vs ++ rest) = some (mkBool cs!"Or" (acc.reverse ++ vs), rest) := by
  induction vs with
  | nil =>
    intro acc M hM rest hc
    obtain ⟨m, rfl⟩ : ∃ m, M = m + 1 := ⟨M - 1, by omega⟩
    simp [genList_nil, orl_stop _ _ _ (closedD_or hc)]
  | cons v vs ih =>
    intro acc M hM rest hc
    simp only [szL] at hM
    obtain ⟨m, rfl⟩ : ∃ m, M = m + 2 := ⟨M - 2, by omega⟩
    have gv := hv v (by simp)
    have hi := gv.conj (M := m) (by simp only [need]; omega) (genList [kw cs!"or"] [] vs ++ rest)
      (belowBool_orList vs rest hc) (stopsAnd_orList vs rest hc)
    simp only [genList_cons, List.append_nil, List.append_assoc, List.cons_append, List.nil_append, kw, knot_orl]
    rw [orlF_or, knot_conj]
    simp only [kw] at hi
    rw [hi]
    simp only [Option.bind_some]
    have := ih (fun x hx => hv x (by simp [hx])) (v :: acc) (m + 1) (by omega) rest hc
    simp only [kw] at this
    rw [this]
    simp

theorem mkBool_two (op : Str) (a b : PyExpr) (r : List PyExpr) : mkBool op (a :: b :: r) = .boolOp op (a :: b :: r) := rfl

theorem goal_boolOp (op : Str) (vs : List PyExpr) (hop : op = cs!"And" ∨ op = cs!"Or") (hlen : 2 ≤ vs.length)
    (hv : ∀ v ∈ vs, ExprGoal v) : ExprGoal (.boolOp op vs) := by
  obtain ⟨v0, vs', rfl⟩ : ∃ v0 vs', vs = v0 :: vs' := by
    cases vs with
    | nil => simp at hlen
    | cons a b => exact ⟨a, b, rfl⟩
  obtain ⟨v1, vs'', rfl⟩ : ∃ v1 vs'', vs' = v1 :: vs'' := by
    cases vs' with
    | nil => simp at hlen
    | cons a b => exact ⟨a, b, rfl⟩
  have g0 := hv v0 (by simp)
  have hvs : ∀ v ∈ v1 :: vs'', ExprGoal v := fun x hx => hv x (by simp at hx ⊢; right; exact hx)
  rcases hop with rfl | rfl
  · apply goal_of_paren _ (gen v0 ++ genList [kw cs!"and"] [] (v1 :: vs''))
    · simp [gen, wrapP, parens_all.1, boolTable_ok.1]
    · rfl
    · rfl
    · exact headOK_parenStart (headOK_append _ g0.head)
    · intro n hn rest
      simp only [need, sz, szL] at hn
      obtain ⟨m, rfl⟩ : ∃ m, n = m + 2 := ⟨n - 2, by omega⟩
      simp only [List.append_assoc]
      have hhead : headOK (gen v0 ++ (genList [kw cs!"and"] [] (v1 :: vs'') ++ tRP :: rest)) = true :=
        headOK_append _ g0.head
      have hi := g0.inv (M := m+2) (by simp only [need]; omega)
        (genList [kw cs!"and"] [] (v1 :: vs'') ++ tRP :: rest) (belowBool_andList _ _ (closedD_cons_rp rest))
      have hl := andl_loop (v1 :: vs'') hvs [v0] (m+2) (by simp only [szL]; omega) (tRP :: rest) (closedD_cons_rp rest)
      have : conjF (knot (m+2)) (gen v0 ++ (genList [kw cs!"and"] [] (v1 :: vs'') ++ tRP :: rest))
          = some (.boolOp cs!"And" (v0 :: v1 :: vs''), tRP :: rest) := by
        rw [conjF_def, hi]
        simp only [Option.bind_some]
        rw [hl]
        simp [mkBool_two]
      exact expr_of_conj _ _ _ _ this (headOK_lambda hhead) (closedE_cons_rp rest)
  · apply goal_of_paren _ (gen v0 ++ genList [kw cs!"or"] [] (v1 :: vs''))
    · simp [gen, wrapP, parens_all.1, boolTable_ok.2]
    · rfl
    · rfl
    · exact headOK_parenStart (headOK_append _ g0.head)
    · intro n hn rest
      simp only [need, sz, szL] at hn
      obtain ⟨m, rfl⟩ : ∃ m, n = m + 2 := ⟨n - 2, by omega⟩
      simp only [List.append_assoc]
      have hhead : headOK (gen v0 ++ (genList [kw cs!"or"] [] (v1 :: vs'') ++ tRP :: rest)) = true :=
        headOK_append _ g0.head
      have hi := g0.conj (M := m+2) (by simp only [need]; omega)
        (genList [kw cs!"or"] [] (v1 :: vs'') ++ tRP :: rest) (belowBool_orList _ _ (closedD_cons_rp rest))
        (stopsAnd_orList _ _ (closedD_cons_rp rest))
      have hl := orl_loop (v1 :: vs'') hvs [v0] (m+2) (by simp only [szL]; omega) (tRP :: rest) (closedD_cons_rp rest)
      have : disjF (knot (m+2)) (gen v0 ++ (genList [kw cs!"or"] [] (v1 :: vs'') ++ tRP :: rest))
          = some (.boolOp cs!"Or" (v0 :: v1 :: vs''), tRP :: rest) := by
        rw [disjF_def, hi]
        simp only [Option.bind_some]
        rw [hl]
        simp [mkBool_two]
      exact expr_of_disj _ _ _ _ this (headOK_lambda hhead) (closedE_if (closedE_cons_rp rest))

/-! ### comparison chains -/

theorem cmp_words_ok : ∀ p ∈ AstGen.comparisonOperators, cmpFind (splitBlank p.2) Astgrammar.cmpOps = some p.1 := by decide

theorem cmpFind_mem {ws : List Str} {cls : Str} {tbl : List (List Str × Str)} (h : cmpFind ws tbl = some cls) :
    (ws, cls) ∈ tbl := by
  induction tbl with
  | nil => simp [cmpFind] at h
  | cons p r ih =>
    obtain ⟨a, b⟩ := p
    simp only [cmpFind] at h
    split at h
    · rename_i heq; cases h; subst heq; simp
    · simp [ih h]

theorem atomStart_name_ne {s : Str} (h : atomStart (.name s) = true) (k : Str) (hk : isKeyword k = true)
    (h1 : k ≠ cs!"True") (h2 : k ≠ cs!"False") (h3 : k ≠ cs!"None") : s ≠ k := by
  intro e; subst e
  simp [atomStart, hk, h1, h2, h3] at h

theorem cmpOp_words (ws : List Str) (cls : Str) (h : cmpFind ws Astgrammar.cmpOps = some cls)
    (r : List Tok) (hr : headOK r = true) :
    cmpOp? (ws.map wordTok ++ r) = some (cls, r) ∧ stopsTrailer (ws.map wordTok ++ r) = true
      ∧ stopsPow (ws.map wordTok ++ r) = true ∧ stopsBin (ws.map wordTok ++ r) = true := by
  have hm := cmpFind_mem h
  obtain ⟨t, r', rfl⟩ : ∃ t r', r = t :: r' := by
    cases r with
    | nil => simp [headOK] at hr
    | cons t r' => exact ⟨t, r', rfl⟩
  simp only [headOK] at hr
  simp only [Astgrammar.cmpOps, List.mem_cons, Prod.mk.injEq, List.mem_nil_iff, or_false] at hm
  rcases hm with ⟨rfl, rfl⟩ | ⟨rfl, rfl⟩ | ⟨rfl, rfl⟩ | ⟨rfl, rfl⟩ | ⟨rfl, rfl⟩ | ⟨rfl, rfl⟩ | ⟨rfl, rfl⟩ | ⟨rfl, rfl⟩ | ⟨rfl, rfl⟩ | ⟨rfl, rfl⟩ <;>
    (cases t with
     | name s =>
        have hn := atomStart_name_ne hr cs!"not" (by decide) (by decide) (by decide) (by decide)
        have hi := atomStart_name_ne hr cs!"in" (by decide) (by decide) (by decide) (by decide)
        simp [cmpOp?, tokText, cmpFind, Astgrammar.cmpOps, wordTok, isAlphaC, stopsTrailer, stopsPow, stopsBin, binLevel?, Astgrammar.binLevels, hn, hi, Ne.symm hn, Ne.symm hi]
     | op s =>
        have hn : s ≠ cs!"not" ∧ s ≠ cs!"in" := by
          simp [atomStart] at hr
          rcases hr with ((h | h) | h) | h <;> subst h <;> decide
        simp [cmpOp?, tokText, cmpFind, Astgrammar.cmpOps, wordTok, isAlphaC, stopsTrailer, stopsPow, stopsBin, binLevel?, Astgrammar.binLevels, hn.1, hn.2, Ne.symm hn.1, Ne.symm hn.2]
     | num s => simp [cmpOp?, tokText, cmpFind, Astgrammar.cmpOps, wordTok, isAlphaC, stopsTrailer, stopsPow, stopsBin, binLevel?, Astgrammar.binLevels]
     | str s => simp [cmpOp?, tokText, cmpFind, Astgrammar.cmpOps, wordTok, isAlphaC, stopsTrailer, stopsPow, stopsBin, binLevel?, Astgrammar.binLevels])

/-- a `cmpRhs op e` whose operator the tables know and whose operand parses -/
def CmpGoal (x : PyExpr) : Prop :=
  ∃ op e, x = .cmpRhs op e ∧ (lookup AstGen.comparisonOperators op).isSome = true ∧ ExprGoal e

theorem gen_cmpRhs (op : Str) (e : PyExpr) (h : (lookup AstGen.comparisonOperators op).isSome = true) :
    ∃ ws, gen (.cmpRhs op e) = ws.map wordTok ++ gen e ∧ cmpFind ws Astgrammar.cmpOps = some op := by
  obtain ⟨sym, hsym⟩ := Option.isSome_iff_exists.mp h
  refine ⟨splitBlank sym, ?_, cmp_words_ok _ (lookup_mem hsym)⟩
  simp [gen, opToks, hsym, symToks]

theorem cmpList_stops (rs : List PyExpr) (hr : ∀ x ∈ rs, CmpGoal x) (rest : List Tok) (hc : closedD rest = true) :
    stopsTrailer (genList [] [] rs ++ rest) = true ∧ stopsPow (genList [] [] rs ++ rest) = true
      ∧ stopsBin (genList [] [] rs ++ rest) = true := by
  cases rs with
  | nil =>
    have hb := closedD_belowBool hc
    simpa [genList_nil] using ⟨belowBool_trailer hb, belowBool_pow hb, belowBool_bin hb⟩
  | cons x rs =>
    obtain ⟨op, e, rfl, hop, ge⟩ := hr x (by simp)
    obtain ⟨ws, hg, hf⟩ := gen_cmpRhs op e hop
    have := cmpOp_words ws op hf (gen e ++ (genList [] [] rs ++ rest)) (headOK_append _ ge.head)
    simp only [genList_cons, hg, List.nil_append, List.append_nil, List.append_assoc]
    exact this.2

theorem cmplF_step (k : Knot) (l : PyExpr) (acc : List PyExpr) (toks r : List Tok) (cls : Str)
    (h : cmpOp? toks = some (cls, r)) :
    cmplF k l acc toks = (k.bin 0 r).bind fun x => k.cmpl l (.cmpRhs cls x.1 :: acc) x.2 := by
  simp [cmplF, h]

theorem cmplF_stop_acc (k : Knot) (l a : PyExpr) (acc : List PyExpr) (toks : List Tok) (h : stopsCmp toks = true) :
    cmplF k l (a :: acc) toks = some (.compare l (a :: acc).reverse, toks) := by
  simp [stopsCmp] at h
  simp [cmplF, h]

theorem cmpl_loop (rs : List PyExpr) (hr : ∀ x ∈ rs, CmpGoal x) :
    ∀ (acc : List PyExpr) (M : Nat), 8 * szL rs + 1 ≤ M → ∀ (l : PyExpr) (rest : List Tok), closedD rest = true →
      (acc ≠ [] ∨ rs ≠ []) →
      (knot M).cmpl l acc (genList [] [] rs ++ rest) = some (.compare l (acc.reverse ++ rs), rest) := by
  induction rs with
  | nil =>
    intro acc M hM l rest hc hne
    obtain ⟨m, rfl⟩ : ∃ m, M = m + 1 := ⟨M - 1, by omega⟩
    obtain ⟨a, acc', rfl⟩ : ∃ a acc', acc = a :: acc' := by
      cases acc with
      | nil => simp at hne
      | cons a b => exact ⟨a, b, rfl⟩
    simp only [genList_nil, List.nil_append, knot_cmpl, List.append_nil]
    exact cmplF_stop_acc _ _ _ _ _ (belowBool_cmp (closedD_belowBool hc))
  | cons x rs ih =>
    intro acc M hM l rest hc _
    simp only [szL] at hM
    obtain ⟨m, rfl⟩ : ∃ m, M = m + 2 := ⟨M - 2, by omega⟩
    obtain ⟨op, e, rfl, hop, ge⟩ := hr x (by simp)
    obtain ⟨ws, hg, hf⟩ := gen_cmpRhs op e hop
    have hrs : ∀ y ∈ rs, CmpGoal y := fun y hy => hr y (by simp [hy])
    have hstops := cmpList_stops rs hrs rest hc
    have hw := cmpOp_words ws op hf (gen e ++ (genList [] [] rs ++ rest)) (headOK_append _ ge.head)
    simp only [sz] at hM
    have hb := ge.bin (M := m) (by simp only [need]; omega) 0 (genList [] [] rs ++ rest) hstops.1 hstops.2.1 hstops.2.2
    simp only [genList_cons, hg, List.nil_append, List.append_nil, List.append_assoc, knot_cmpl]
    rw [cmplF_step _ _ _ _ _ _ hw.1, knot_bin, hb]
    simp only [Option.bind_some]
    rw [ih hrs (.cmpRhs op e :: acc) (m + 1) (by omega) l rest hc (Or.inl (by simp))]
    simp

theorem goal_compare (l : PyExpr) (rs : List PyExpr) (gl : ExprGoal l) (hne : rs ≠ [])
    (hr : ∀ x ∈ rs, CmpGoal x) : ExprGoal (.compare l rs) := by
  apply goal_of_paren _ (gen l ++ genList [] [] rs)
  · simp [gen, wrapP, parens_all.2.2.2.2.2.2]
  · rfl
  · rfl
  · exact headOK_parenStart (headOK_append _ gl.head)
  · intro n hn rest
    simp only [need, sz] at hn
    obtain ⟨m, rfl⟩ : ∃ m, n = m + 2 := ⟨n - 2, by omega⟩
    simp only [List.append_assoc]
    have hhead : headOK (gen l ++ (genList [] [] rs ++ tRP :: rest)) = true := headOK_append _ gl.head
    have hstops := cmpList_stops rs hr (tRP :: rest) (closedD_cons_rp rest)
    have hb := gl.bin (M := m+2) (by simp only [need]; omega) 0 (genList [] [] rs ++ tRP :: rest)
      hstops.1 hstops.2.1 hstops.2.2
    have hl := cmpl_loop rs hr [] (m+2) (by omega) l (tRP :: rest) (closedD_cons_rp rest) (Or.inr hne)
    have : cmpF (knot (m+2)) (gen l ++ (genList [] [] rs ++ tRP :: rest)) = some (.compare l rs, tRP :: rest) := by
      rw [cmpF_def, hb]
      simp only [Option.bind_some]
      rw [hl]
      simp
    exact expr_of_cmp _ _ _ _ this (headOK_not hhead) (headOK_lambda hhead) (closedE_cons_rp rest)

end Genshi.Py

/-
  Helper lemmas for C08: a whole document = prolog (optional XML declaration,
  optional DOCTYPE) + body forest, serialised with or without a doctype option;
  what the filter chain hands to the main loop and what the tokenizers read back.
-/
import Genshi.Lemmas.ReaderDoc
import Genshi.Lemmas.OutputTreeNs
namespace Genshi.Output
open Genshi

abbrev DeclT := Str × Option Str × Int

def declF : Option DeclT → List FEv
  | some x => [.xmlDecl x.1 x.2.1 x.2.2]
  | none => []

def dtF : Option DocTypeT → List FEv
  | some x => [.doctype x.1 x.2.1 x.2.2]
  | none => []

def declN : Option DeclT → List Node
  | some x => [.leaf (.xmlDecl x.1 x.2.1 x.2.2)]
  | none => []

def dtN : Option DocTypeT → List Node
  | some x => [.leaf (.doctype x.1 x.2.1 x.2.2)]
  | none => []

/-- a document: XML declaration, DOCTYPE, body -/
def docNodes (decl : Option DeclT) (dt : Option DocTypeT) (body : List Node) : List Node :=
  declN decl ++ (dtN dt ++ body)

/-- the DOCTYPE that is written: the option if given, else the one of the stream -/
def winDt (dopt dt : Option DocTypeT) : Option DocTypeT :=
  match dopt with
  | some x => some x
  | none => dt

theorem forestFu_append (u : Str) (s : Bool) (a b : List Node) :
    forestFu u s (a ++ b) = forestFu u s a ++ forestFu u s b := by
  induction a with
  | nil => simp [forestFu]
  | cons n ns ih => simp [forestFu, ih]

theorem okList_append (a b : List Node) : okList (a ++ b) = (okList a && okList b) := by
  induction a with
  | nil => simp [okList]
  | cons n ns ih => simp [okList, ih, Bool.and_assoc]

theorem forestUniformNs_append (u : Str) (a b : List Node) :
    forestUniformNs u (a ++ b) = (forestUniformNs u a && forestUniformNs u b) := by
  induction a with
  | nil => simp [forestUniformNs]
  | cons n ns ih => simp [forestUniformNs, ih, Bool.and_assoc]

theorem forestFu_doc (u : Str) (s : Bool) (decl : Option DeclT) (dt : Option DocTypeT) (body : List Node) :
    forestFu u s (docNodes decl dt body) = declF decl ++ (dtF dt ++ forestFu u s body) := by
  simp only [docNodes, forestFu_append]
  cases decl <;> cases dt <;> simp [declN, dtN, declF, dtF, forestFu, treeFu, leafF]

theorem okList_doc (decl : Option DeclT) (dt : Option DocTypeT) (body : List Node) (h : okList body = true) :
    okList (docNodes decl dt body) = true := by
  simp only [docNodes, okList_append, h, Bool.and_true]
  cases decl <;> cases dt <;> simp [declN, dtN, okList, Node.ok, Event.isStartEnd]

theorem uniformNs_doc (u : Str) (decl : Option DeclT) (dt : Option DocTypeT) (body : List Node)
    (h : forestUniformNs u body = true) : forestUniformNs u (docNodes decl dt body) = true := by
  simp only [docNodes, forestUniformNs_append, h, Bool.and_true]
  cases decl <;> cases dt <;> simp [declN, dtN, forestUniformNs, uniformNs, leafF]

/-- the filter chain (no whitespace filter) on a forest in namespace `u`, with or without a doctype option -/
theorem filtered_forestU_dt (m : Method) (dropd : Bool) (u : Str) (hu : u ≠ xmlNs) (dopt : Option DocTypeT)
    (ns : List Node) (hok : okList ns = true) (hns : forestUniformNs u ns = true) :
    filtered m { strip := false, cache := false, doctype := dopt, dropXmlDecl := dropd } (flattenList ns) =
      some (withDoctype dopt (forestFu u false ns)) := by
  have := flatten_forestU u hu ns [] false [] hns
  simp only [List.append_nil, flatten, Option.map_some] at this
  have h0 : nsSt u false [] = flatInit m := by simp [nsSt, scopeB, flatInit]
  rw [h0] at this
  simp [filtered, preFlat, emptyTag_flattenList ns hok, this]

def notXdHead : List FEv → Bool
  | .xmlDecl _ _ _ :: _ => false
  | _ => true

theorem docTypeInsert_notXd (d : DocTypeT) (fs : List FEv) (h : notXdHead fs = true) :
    docTypeInsert d fs = .doctype d.1 d.2.1 d.2.2 :: fs := by
  cases fs with
  | nil => rfl
  | cons ev rest => cases ev <;> simp_all [docTypeInsert, notXdHead]

/-- `DocTypeInserter` on a document: the option's DOCTYPE goes behind the XML declaration and in
    front of the stream's own DOCTYPE -/
theorem withDoctype_doc (dopt dt : Option DocTypeT) (decl : Option DeclT) (B : List FEv) (hB : notXdHead B = true) :
    withDoctype dopt (declF decl ++ (dtF dt ++ B)) = declF decl ++ (dtF dopt ++ (dtF dt ++ B)) := by
  cases dopt with
  | none => simp [withDoctype, dtF]
  | some x =>
    cases decl with
    | some y => simp [withDoctype, declF, dtF, docTypeInsert]
    | none =>
      cases dt with
      | some z => simp [withDoctype, declF, dtF, docTypeInsert]
      | none => simp [withDoctype, declF, dtF, docTypeInsert_notXd x B hB]

end Genshi.Output

namespace Genshi.Reader
open Genshi Genshi.Escape Genshi.Output

/-! ### html -/

def dtPiecesOf : Option DocTypeT → List Piece
  | some x => dtPieces x.1 x.2.1 x.2.2
  | none => []

def dtOkOf : Option DocTypeT → Bool
  | some x => dtFieldsOk x.1 x.2.1 x.2.2
  | none => true

/-- html: no `>` in the identifiers of the DOCTYPE that is written (an HTML parser ends the
    declaration at the first `>`, quoted or not: finding C08-doctype-gt-html) -/
def dtNoGtOf : Option DocTypeT → Bool
  | some x => dtNoGt x.2.1 x.2.2
  | none => true

theorem notXdHead_bodyH (u : Str) (s : Bool) (ns : List Node) (h : htmlForestOkP ns = true) :
    notXdHead (forestFu u s ns) = true := by
  cases ns with
  | nil => rfl
  | cons n rest =>
    simp only [htmlForestOkP, Bool.and_eq_true] at h
    cases n with
    | elem t a ks => cases ks <;> simp [forestFu, treeFu, notXdHead]
    | leaf e => cases e <;> simp [htmlTreeOkP, leafOkH] at h <;> simp [forestFu, treeFu, leafF, notXdHead]

theorem okH_decl (decl : Option DeclT) (hd : Bool) (rest : List FEv) (h : HtmlOkAllP false hd rest) :
    HtmlOkAllP false hd (declF decl ++ rest) := by
  cases decl <;> simp [declF, HtmlOkAllP, HtmlOkP, HtmlOk, rawAfter, HtmlOkAllP.isDoctypeEv, h]

theorem okH_dt (d : Option DocTypeT) (hd : Bool) (rest : List FEv)
    (hf : hd = false → dtOkOf d = true ∧ dtNoGtOf d = true)
    (h : HtmlOkAllP false (hd || d.isSome) rest) : HtmlOkAllP false hd (dtF d ++ rest) := by
  cases d with
  | none => simpa [dtF] using h
  | some x =>
    simp only [dtF, List.singleton_append, HtmlOkAllP, HtmlOkP, rawAfter, HtmlOkAllP.isDoctypeEv, true_and]
    refine ⟨fun hh => dtScan_doctypeContent false _ _ _ (hf hh).1 (fun _ => (hf hh).2), ?_⟩
    simpa using h

theorem rawEndP_prolog (decl : Option DeclT) (d1 d2 : Option DocTypeT) (rest : List FEv) :
    rawEndP false (declF decl ++ (dtF d1 ++ (dtF d2 ++ rest))) = rawEndP false rest := by
  cases decl <;> cases d1 <;> cases d2 <;> simp [declF, dtF, rawEndP, rawAfter]

theorem piecesH_prolog (decl : Option DeclT) (d1 d2 : Option DocTypeT) (rest : List FEv) :
    evsPiecesH false (declF decl ++ (dtF d1 ++ (dtF d2 ++ rest))) =
      dtPiecesOf (winDt d1 d2) ++ evsPiecesH (d1.isSome || d2.isSome) rest := by
  cases decl <;> cases d1 <;> cases d2 <;>
    simp [declF, dtF, evsPiecesH, evPieceH, evPieces, hdAfter, dtPiecesOf, winDt]

/-- html, tokenizer level: the events of a document (prolog, doctype option, body) read back -/
theorem html_doc_tokens (o : Opts) (decl : Option DeclT) (dopt dt : Option DocTypeT) (B : List FEv) (ps : List Piece)
    (hB : BodyH B ps) (hwin : dtOkOf (winDt dopt dt) = true) (hgt : dtNoGtOf (winDt dopt dt) = true) :
    tokens false (serSpec .html o {} (declF decl ++ (dtF dopt ++ (dtF dt ++ B)))).flatten =
      some (assemble (dtPiecesOf (winDt dopt dt) ++ ps)) := by
  have hok : HtmlOkAllP false false (declF decl ++ (dtF dopt ++ (dtF dt ++ B))) := by
    apply okH_decl
    apply okH_dt dopt false _ (by intro _; cases dopt <;> simp_all [winDt, dtOkOf, dtNoGtOf])
    apply okH_dt dt _ _ (by intro hh; cases dopt <;> simp_all [winDt, dtOkOf, dtNoGtOf])
    have := hB.ok (false || dopt.isSome || dt.isSome) [] trivial
    simpa using this
  have hend : (foldP (declF decl ++ (dtF dopt ++ (dtF dt ++ B))) {} false).1.raw = false := by
    rw [(html_streamP o _ {} false {} rfl rfl hok).2]
    have := hB.raw []
    simp only [List.append_nil] at this
    show rawEndP false _ = false
    rw [rawEndP_prolog, this]; rfl
  rw [html_tokensP o _ hok hend, htmlExpectedP_eq_assemble, piecesH_prolog]
  have := hB.pieces (dopt.isSome || dt.isSome) []
  simp only [List.append_nil] at this
  rw [this]; simp [evsPiecesH]

/-! ### xhtml -/

def xdPiecesOf (o : Opts) : Option DeclT → List Piece
  | some x => if o.dropXmlDecl then [] else xdPieces x.1 x.2.1 x.2.2
  | none => []

/-- the XML declaration is written only with `drop_xml_decl=False`; then its literal must not hold `>` -/
def xdOkOf (o : Opts) : Option DeclT → Bool
  | some x => o.dropXmlDecl || xdNoGt x.1 x.2.1
  | none => true

theorem notXdHead_bodyX (u : Str) (s : Bool) (ns : List Node) (h : xKidsOkP false ns = true) :
    notXdHead (forestFu u s ns) = true := by
  cases ns with
  | nil => rfl
  | cons n rest =>
    cases n with
    | elem t a ks => cases ks <;> simp [forestFu, treeFu, notXdHead]
    | leaf e =>
      simp only [xKidsOkP, Bool.and_eq_true] at h
      cases e <;> simp [leafOkX] at h <;> simp [forestFu, treeFu, leafF, notXdHead]

def flagsDecl (o : Opts) (f : Flags) : Option DeclT → Flags
  | some x => flagsAfter o false f (.xmlDecl x.1 x.2.1 x.2.2)
  | none => f

def flagsDt (f : Flags) : Option DocTypeT → Flags
  | some _ => { f with hd := true }
  | none => f

theorem okX_decl (o : Opts) (decl : Option DeclT) (f : Flags) (rest : List FEv) (hx : xdOkOf o decl = true)
    (h : XhtmlOkAllP o false (flagsDecl o f decl) rest) : XhtmlOkAllP o false f (declF decl ++ rest) := by
  cases decl with
  | none => simpa [declF, flagsDecl] using h
  | some x =>
    simp only [declF, List.singleton_append, XhtmlOkAllP, XhtmlOkP, Bool.false_eq_true, ↓reduceIte, cdAfter]
    refine ⟨fun hh => piSafe_xmlDeclContent _ _ _ ?_, h⟩
    simp only [xdOkOf, Bool.or_eq_true] at hx
    rcases hx with hx | hx
    · simp [hx] at hh
    · exact hx

theorem okX_dt (o : Opts) (d : Option DocTypeT) (f : Flags) (rest : List FEv) (hf : f.hd = false → dtOkOf d = true)
    (h : XhtmlOkAllP o false (flagsDt f d) rest) : XhtmlOkAllP o false f (dtF d ++ rest) := by
  cases d with
  | none => simpa [dtF, flagsDt] using h
  | some x =>
    simp only [dtF, List.singleton_append, XhtmlOkAllP, XhtmlOkP, Bool.false_eq_true, ↓reduceIte, cdAfter, flagsAfter]
    exact ⟨fun hh => dtScan_doctypeContent true _ _ _ (hf hh) (by intro hx; cases hx), h⟩

theorem flagsDecl_hd (o : Opts) (f : Flags) (decl : Option DeclT) : (flagsDecl o f decl).hd = f.hd := by
  cases decl with
  | none => rfl
  | some x => simp only [flagsDecl, flagsAfter]; split <;> rfl

theorem cdEnd_prolog (decl : Option DeclT) (d1 d2 : Option DocTypeT) (rest : List FEv) :
    cdEnd false (declF decl ++ (dtF d1 ++ (dtF d2 ++ rest))) = cdEnd false rest := by
  cases decl <;> cases d1 <;> cases d2 <;> simp [declF, dtF, cdEnd, cdAfter]

theorem piecesX_prolog (o : Opts) (decl : Option DeclT) (d1 d2 : Option DocTypeT) (rest : List FEv) :
    evsPiecesX o false {} (declF decl ++ (dtF d1 ++ (dtF d2 ++ rest))) =
      xdPiecesOf o decl ++ (dtPiecesOf (winDt d1 d2) ++
        evsPiecesX o false (flagsDt (flagsDt (flagsDecl o {} decl) d1) d2) rest) := by
  cases decl <;> cases d1 <;> cases d2 <;>
    simp [declF, dtF, evsPiecesX, evPieceX, cdAfter, flagsAfter, dtPiecesOf, xdPiecesOf, winDt, flagsDt,
      flagsDecl] <;>
    (cases o.dropXmlDecl <;> simp)

/-- xhtml, tokenizer level: the events of a document (prolog, doctype option, body) read back -/
theorem xhtml_doc_tokens (o : Opts) (decl : Option DeclT) (dopt dt : Option DocTypeT) (B : List FEv) (ps : List Piece)
    (hB : BodyX o false false B ps) (hdecl : xdOkOf o decl = true) (hwin : dtOkOf (winDt dopt dt) = true) :
    tokens true (serSpec .xhtml o {} (declF decl ++ (dtF dopt ++ (dtF dt ++ B)))).flatten =
      some (assemble (xdPiecesOf o decl ++ (dtPiecesOf (winDt dopt dt) ++ ps))) := by
  have hok : XhtmlOkAllP o false {} (declF decl ++ (dtF dopt ++ (dtF dt ++ B))) := by
    apply okX_decl o decl {} _ hdecl
    apply okX_dt o dopt _ _ (by intro _; cases dopt <;> simp_all [winDt, dtOkOf])
    apply okX_dt o dt _ _
    · intro hh
      cases dopt with
      | none => simpa [winDt] using hwin
      | some x => simp [flagsDt] at hh
    · have := hB.ok (flagsDt (flagsDt (flagsDecl o {} decl) dopt) dt) [] trivial
      simpa using this
  have hend : (foldXP o (declF decl ++ (dtF dopt ++ (dtF dt ++ B))) {} {}).1.cd = none := by
    have h2 := (foldXP_pieces o _ {} {} hok).2
    have := hB.cd []
    simp only [List.append_nil] at this
    have h3 : (foldXP o (declF decl ++ (dtF dopt ++ (dtF dt ++ B))) {} {}).1.cd.isSome = false := by
      rw [h2]
      show cdEnd false _ = false
      rw [cdEnd_prolog, this]; rfl
    cases hc : (foldXP o (declF decl ++ (dtF dopt ++ (dtF dt ++ B))) {} {}).1.cd with
    | none => rfl
    | some b => simp [hc] at h3
  rw [xhtml_tokensP o _ hok hend, xhtmlExpectedP_eq_assemble o _ hok, piecesX_prolog]
  have := hB.pieces (flagsDt (flagsDt (flagsDecl o {} decl) dopt) dt) []
  simp only [List.append_nil] at this
  rw [this]; simp [evsPiecesX]

end Genshi.Reader

/-
  C15 — facts about the abstract bounded LRU map (capacity + recency list).
-/
import Genshi.Model.Lru
namespace Genshi.Lru
set_option linter.unusedSectionVars false
variable {K V : Type} [DecidableEq K]

def akeys (l : List (K × V)) : List K := l.map (·.1)

/-- invariant of the abstract map: within the bound, no key twice -/
def AWf (a : ALru K V) : Prop := a.items.length ≤ a.cap ∧ (akeys a.items).Nodup

theorem alookup_eq_none {l : List (K × V)} {k : K} : alookup k l = none ↔ ∀ p ∈ l, p.1 ≠ k := by
  induction l with
  | nil => simp [alookup]
  | cons p r ih =>
    obtain ⟨k', v⟩ := p
    by_cases h : k' = k
    · subst h; simp [alookup]
    · simp [alookup, h, ih]

theorem alookup_isSome {l : List (K × V)} {k : K} : (alookup k l).isSome ↔ k ∈ akeys l := by
  induction l with
  | nil => simp [alookup, akeys]
  | cons p r ih =>
    obtain ⟨k', v⟩ := p
    by_cases h : k' = k
    · subst h; simp [alookup, akeys]
    · have h' : ¬ k = k' := fun e => h e.symm
      simp only [alookup, h, ↓reduceIte, ih, akeys, List.map_cons, List.mem_cons, h', false_or]

theorem akeys_aerase (k : K) (l : List (K × V)) : akeys (aerase k l) = (akeys l).filter (· ≠ k) := by
  unfold akeys aerase
  rw [List.filter_map]
  rfl

theorem aerase_length_le (k : K) (l : List (K × V)) : (aerase k l).length ≤ l.length :=
  List.length_filter_le _ _

theorem aerase_length_lt {k : K} {l : List (K × V)} {v : V} (h : alookup k l = some v) :
    (aerase k l).length < l.length := by
  induction l with
  | nil => simp [alookup] at h
  | cons p r ih =>
    obtain ⟨k', v'⟩ := p
    by_cases hk : k' = k
    · subst hk
      have : aerase k' ((k', v') :: r) = aerase k' r := by simp [aerase]
      rw [this]
      exact Nat.lt_succ_of_le (aerase_length_le _ _)
    · have : aerase k ((k', v') :: r) = (k', v') :: aerase k r := by simp [aerase, hk]
      rw [this]
      simp only [alookup, hk, ↓reduceIte] at h
      simp only [List.length_cons]
      exact Nat.succ_lt_succ (ih h)

theorem akeys_nodup_step {l : List (K × V)} (k : K) (v : V) (h : (akeys l).Nodup) :
    (akeys ((k, v) :: aerase k l)).Nodup := by
  show (k :: akeys (aerase k l)).Nodup
  rw [akeys_aerase]
  refine List.nodup_cons.mpr ⟨by simp, h.sublist List.filter_sublist⟩

theorem akeys_take (n : Nat) (l : List (K × V)) : akeys (l.take n) = (akeys l).take n := by
  simp [akeys, List.map_take]

/-- the bound and key-uniqueness are preserved by every operation -/
theorem astep_awf {a : ALru K V} (h : AWf a) (op : Op K V) :
    AWf (astep a op).1 ∧ (astep a op).1.cap = a.cap := by
  obtain ⟨hb, hn⟩ := h
  cases op with
  | get k =>
    simp only [astep]
    cases hl : alookup k a.items with
    | none => exact ⟨⟨hb, hn⟩, rfl⟩
    | some v =>
      refine ⟨⟨?_, akeys_nodup_step k v hn⟩, rfl⟩
      have := aerase_length_lt hl
      simp only [List.length_cons]; omega
  | set k v =>
    refine ⟨⟨?_, ?_⟩, rfl⟩
    · simp only [astep, List.length_take]; omega
    · simp only [astep]
      rw [akeys_take]
      exact (akeys_nodup_step k v hn).sublist (List.take_sublist _ _)
  | contains k => exact ⟨⟨hb, hn⟩, rfl⟩
  | len => exact ⟨⟨hb, hn⟩, rfl⟩
  | iter => exact ⟨⟨hb, hn⟩, rfl⟩

theorem arun_awf {a : ALru K V} (h : AWf a) (ops : List (Op K V)) :
    AWf (arun a ops).1 ∧ (arun a ops).1.cap = a.cap := by
  induction ops generalizing a with
  | nil => exact ⟨h, rfl⟩
  | cons op ops ih =>
    obtain ⟨h1, hc1⟩ := astep_awf h op
    obtain ⟨h2, hc2⟩ := ih h1
    simp only [arun]
    exact ⟨h2, hc2.trans hc1⟩

theorem aempty_awf (cap : Nat) : AWf (aempty cap : ALru K V) := ⟨Nat.zero_le _, List.nodup_nil⟩

/-- storing a key that is not cached into a full cache drops exactly the last entry of the
    recency list, the least recently used one -/
theorem aset_full_evicts_last {a : ALru K V} {k : K} (v : V) (hk : alookup k a.items = none)
    (hfull : a.items.length = a.cap) (hpos : 0 < a.cap) :
    (astep a (.set k v)).1.items = (k, v) :: a.items.dropLast := by
  simp only [astep, aerase]
  have : a.items.filter (fun p => p.1 ≠ k) = a.items := by
    rw [List.filter_eq_self]; intro p hp; simpa using alookup_eq_none.mp hk p hp
  rw [this]
  obtain ⟨n, hn⟩ : ∃ n, a.cap = n + 1 := ⟨a.cap - 1, by omega⟩
  rw [hn, List.take_succ_cons, List.dropLast_eq_take, hfull, hn]
  rfl

/-- … and nothing is dropped while there is room -/
theorem aset_room_keeps_all {a : ALru K V} {k : K} (v : V) (hk : alookup k a.items = none)
    (hroom : a.items.length < a.cap) :
    (astep a (.set k v)).1.items = (k, v) :: a.items := by
  simp only [astep, aerase]
  have : a.items.filter (fun p => p.1 ≠ k) = a.items := by
    rw [List.filter_eq_self]; intro p hp; simpa using alookup_eq_none.mp hk p hp
  rw [this]
  exact List.take_of_length_le (by simp only [List.length_cons]; omega)

theorem aget_after_set (a : ALru K V) (k : K) (v : V) (hpos : 0 < a.cap) :
    (astep (astep a (.set k v)).1 (.get k)).2 = .val v := by
  obtain ⟨n, hn⟩ : ∃ n, a.cap = n + 1 := ⟨a.cap - 1, by omega⟩
  simp [astep, hn, alookup]

/-- `__iter__` lists the keys of the recency list, and changes nothing -/
theorem aiter_keys (a : ALru K V) : astep a .iter = (a, .keys (akeys a.items)) := rfl

/-- a hit moves the key to the front of the iteration order and keeps the others in order -/
theorem aget_hit_order {a : ALru K V} {k : K} {v : V} (h : alookup k a.items = some v) :
    akeys (astep a (.get k)).1.items = k :: (akeys a.items).filter (· ≠ k) := by
  simp only [astep, h]
  show k :: akeys (aerase k a.items) = _
  rw [akeys_aerase]

/-- a store puts the key first, keeps the others in order, and cuts at the capacity -/
theorem aset_order (a : ALru K V) (k : K) (v : V) :
    akeys (astep a (.set k v)).1.items = (k :: (akeys a.items).filter (· ≠ k)).take a.cap := by
  simp only [astep]
  rw [akeys_take]
  show (k :: akeys (aerase k a.items)).take a.cap = _
  rw [akeys_aerase]

/-- reads do not change the map -/
theorem aread_noop (a : ALru K V) (op : Op K V)
    (h : (∃ k, op = .contains k) ∨ op = .len ∨ op = .iter) : (astep a op).1 = a := by
  rcases h with ⟨k, rfl⟩ | rfl | rfl <;> rfl

/-- a miss changes nothing -/
theorem aget_miss_noop {a : ALru K V} {k : K} (h : alookup k a.items = none) :
    astep a (.get k) = (a, .keyError) := by
  simp [astep, h]

end Genshi.Lru

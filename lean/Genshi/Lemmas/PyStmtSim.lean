/-
  C13 / C03 — statement mode: genshi's scope stack decides every name load as Python's scoping
  rule does.  Part 1: one simulation lemma for the generic load mapper `ml` (two instances related
  by a relation that is preserved by entering a lambda / comprehension scope agree on every
  expression whose loads are in the domain).  Part 2: the instance genshi's stack / Python's rule.
-/
import Genshi.Model.PyScope
namespace Genshi.Py

set_option linter.unusedSectionVars false
section sim
variable {σ₁ σ₂ : Type} (o₁ : NameOps σ₁) (o₂ : NameOps σ₂) (R : σ₁ → σ₂ → Prop) (q : Str → Bool)
variable (Hdec : ∀ a b id, R a b → q id = true → o₁.dec a id = o₂.dec b id)
variable (Hpush : ∀ a b N, R a b → R (o₁.push a N) (o₂.push b N))
include Hdec Hpush

mutual
theorem ml_sim : ∀ (e : PyExpr) (s : σ₁) (t : σ₂) (p : Str → Bool),
    (∀ id, p id = true → o₁.dec s id = o₂.dec t id) → (∀ N, R (o₁.push s N) (o₂.push t N)) →
    loadsOk p q e = true → ml o₁ s e = ml o₂ t e
  | .name id, s, t, p, hp, _, h => by
      simp only [loadsOk] at h
      simp only [ml, loadOf, hp id h]
  | .const _, _, _, _, _, _, _ => rfl
  | .boolOp op vs, s, t, p, hp, hR, h => by
      simp only [loadsOk] at h; simp only [ml, mlL_sim vs s t p hp hR h]
  | .binOp l op r, s, t, p, hp, hR, h => by
      simp only [loadsOk, Bool.and_eq_true] at h
      simp only [ml, ml_sim l s t p hp hR h.1, ml_sim r s t p hp hR h.2]
  | .unaryOp op e, s, t, p, hp, hR, h => by
      simp only [loadsOk] at h; simp only [ml, ml_sim e s t p hp hR h]
  | .lambda po ar va ko ka body, s, t, p, hp, hR, h => by
      simp only [loadsOk, Bool.and_eq_true] at h
      obtain ⟨⟨⟨⟨⟨h1, h2⟩, h3⟩, h4⟩, h5⟩, h6⟩ := h
      simp only [ml, mlL_sim po s t p hp hR h1, mlL_sim ar s t p hp hR h2, mlO_sim va s t p hp hR h3,
        mlL_sim ko s t p hp hR h4, mlO_sim ka s t p hp hR h5,
        ml_sim body _ _ q (fun id hq => Hdec _ _ id (hR _) hq) (fun N => Hpush _ _ N (hR _)) h6]
  | .ifExp c b o, s, t, p, hp, hR, h => by
      simp only [loadsOk, Bool.and_eq_true] at h
      simp only [ml, ml_sim c s t p hp hR h.1.1, ml_sim b s t p hp hR h.1.2, ml_sim o s t p hp hR h.2]
  | .dict items, s, t, p, hp, hR, h => by
      simp only [loadsOk] at h; simp only [ml, mlL_sim items s t p hp hR h]
  | .listComp elt gens, s, t, p, hp, hR, h => by
      simp only [loadsOk, Bool.and_eq_true] at h
      have hq1 := fun id hq => Hdec _ _ id (hR (compNames gens)) hq
      have hR1 := fun N => Hpush _ _ N (hR (compNames gens))
      simp only [ml, ml_sim elt _ _ q hq1 hR1 h.1, mlGens_sim gens s t _ _ p hp hR hq1 hR1 h.2]
  | .genExp elt gens, s, t, p, hp, hR, h => by
      simp only [loadsOk, Bool.and_eq_true] at h
      have hq1 := fun id hq => Hdec _ _ id (hR (compNames gens)) hq
      have hR1 := fun N => Hpush _ _ N (hR (compNames gens))
      simp only [ml, ml_sim elt _ _ q hq1 hR1 h.1, mlGens_sim gens s t _ _ p hp hR hq1 hR1 h.2]
  | .yield_ v, s, t, p, hp, hR, h => by
      simp only [loadsOk] at h; simp only [ml, mlO_sim v s t p hp hR h]
  | .compare l rest, s, t, p, hp, hR, h => by
      simp only [loadsOk, Bool.and_eq_true] at h
      simp only [ml, ml_sim l s t p hp hR h.1, mlL_sim rest s t p hp hR h.2]
  | .call f args kws, s, t, p, hp, hR, h => by
      simp only [loadsOk, Bool.and_eq_true] at h
      simp only [ml, ml_sim f s t p hp hR h.1.1, mlL_sim args s t p hp hR h.1.2, mlL_sim kws s t p hp hR h.2]
  | .attribute v a, s, t, p, hp, hR, h => by
      simp only [loadsOk] at h; simp only [ml, ml_sim v s t p hp hR h]
  | .subscript v sl, s, t, p, hp, hR, h => by
      simp only [loadsOk, Bool.and_eq_true] at h
      simp only [ml, ml_sim v s t p hp hR h.1, ml_sim sl s t p hp hR h.2]
  | .slice l u st, s, t, p, hp, hR, h => by
      simp only [loadsOk, Bool.and_eq_true] at h
      simp only [ml, mlO_sim l s t p hp hR h.1.1, mlO_sim u s t p hp hR h.1.2, mlO_sim st s t p hp hR h.2]
  | .starred e, s, t, p, hp, hR, h => by
      simp only [loadsOk] at h; simp only [ml, ml_sim e s t p hp hR h]
  | .list elts, s, t, p, hp, hR, h => by
      simp only [loadsOk] at h; simp only [ml, mlL_sim elts s t p hp hR h]
  | .tuple elts, s, t, p, hp, hR, h => by
      simp only [loadsOk] at h; simp only [ml, mlL_sim elts s t p hp hR h]
  | .unsupported _, _, _, _, _, _, _ => rfl
  | .keyword n v, s, t, p, hp, hR, h => by
      simp only [loadsOk] at h; simp only [ml, ml_sim v s t p hp hR h]
  | .comp tg it ifs a, s, t, p, hp, hR, h => by
      simp only [loadsOk, Bool.and_eq_true] at h
      simp only [ml, mlT_sim tg s t p hp hR h.1.1, ml_sim it s t p hp hR h.1.2, mlL_sim ifs s t p hp hR h.2]
  | .param n ann d, s, t, p, hp, hR, h => by
      simp only [loadsOk, Bool.and_eq_true] at h
      simp only [ml, mlO_sim ann s t p hp hR h.1, mlO_sim d s t p hp hR h.2]
  | .dictItem k v, s, t, p, hp, hR, h => by
      simp only [loadsOk, Bool.and_eq_true] at h
      simp only [ml, mlO_sim k s t p hp hR h.1, ml_sim v s t p hp hR h.2]
  | .cmpRhs op e, s, t, p, hp, hR, h => by
      simp only [loadsOk] at h; simp only [ml, ml_sim e s t p hp hR h]
theorem mlL_sim : ∀ (es : List PyExpr) (s : σ₁) (t : σ₂) (p : Str → Bool),
    (∀ id, p id = true → o₁.dec s id = o₂.dec t id) → (∀ N, R (o₁.push s N) (o₂.push t N)) →
    loadsOkL p q es = true → mlL o₁ s es = mlL o₂ t es
  | [], _, _, _, _, _, _ => rfl
  | e :: es, s, t, p, hp, hR, h => by
      simp only [loadsOkL, Bool.and_eq_true] at h
      simp only [mlL, ml_sim e s t p hp hR h.1, mlL_sim es s t p hp hR h.2]
theorem mlO_sim : ∀ (o : Option PyExpr) (s : σ₁) (t : σ₂) (p : Str → Bool),
    (∀ id, p id = true → o₁.dec s id = o₂.dec t id) → (∀ N, R (o₁.push s N) (o₂.push t N)) →
    loadsOkO p q o = true → mlO o₁ s o = mlO o₂ t o
  | none, _, _, _, _, _, _ => rfl
  | some e, s, t, p, hp, hR, h => by
      simp only [loadsOkO] at h; simp only [mlO, ml_sim e s t p hp hR h]
theorem mlGens_sim : ∀ (gens : List PyExpr) (s0 : σ₁) (t0 : σ₂) (s1 : σ₁) (t1 : σ₂) (p : Str → Bool),
    (∀ id, p id = true → o₁.dec s0 id = o₂.dec t0 id) → (∀ N, R (o₁.push s0 N) (o₂.push t0 N)) →
    (∀ id, q id = true → o₁.dec s1 id = o₂.dec t1 id) → (∀ N, R (o₁.push s1 N) (o₂.push t1 N)) →
    loadsOkGens p q gens = true → mlGens o₁ s0 s1 gens = mlGens o₂ t0 t1 gens
  | [], _, _, _, _, _, _, _, _, _, _ => rfl
  | .comp tg it ifs a :: r, s0, t0, s1, t1, p, hp0, hR0, hq1, hR1, h => by
      simp only [loadsOkGens, Bool.and_eq_true] at h
      simp only [mlGens, mlT_sim tg s1 t1 q hq1 hR1 h.1.1.1, ml_sim it s0 t0 p hp0 hR0 h.1.1.2,
        mlL_sim ifs s1 t1 q hq1 hR1 h.1.2, mlGens_sim r s1 t1 s1 t1 q hq1 hR1 hq1 hR1 h.2]
  | .name _ :: r, s0, t0, s1, t1, p, _, _, hq1, hR1, h => by
      simp only [loadsOkGens, Bool.and_eq_true] at h
      simp only [mlGens]; rw [ml_sim _ s1 t1 q hq1 hR1 h.1, mlGens_sim r s1 t1 s1 t1 q hq1 hR1 hq1 hR1 h.2]
  | .const _ :: r, s0, t0, s1, t1, p, _, _, hq1, hR1, h => by
      simp only [loadsOkGens, Bool.and_eq_true] at h
      simp only [mlGens]; rw [ml_sim _ s1 t1 q hq1 hR1 h.1, mlGens_sim r s1 t1 s1 t1 q hq1 hR1 hq1 hR1 h.2]
  | .boolOp _ _ :: r, s0, t0, s1, t1, p, _, _, hq1, hR1, h => by
      simp only [loadsOkGens, Bool.and_eq_true] at h
      simp only [mlGens]; rw [ml_sim _ s1 t1 q hq1 hR1 h.1, mlGens_sim r s1 t1 s1 t1 q hq1 hR1 hq1 hR1 h.2]
  | .binOp _ _ _ :: r, s0, t0, s1, t1, p, _, _, hq1, hR1, h => by
      simp only [loadsOkGens, Bool.and_eq_true] at h
      simp only [mlGens]; rw [ml_sim _ s1 t1 q hq1 hR1 h.1, mlGens_sim r s1 t1 s1 t1 q hq1 hR1 hq1 hR1 h.2]
  | .unaryOp _ _ :: r, s0, t0, s1, t1, p, _, _, hq1, hR1, h => by
      simp only [loadsOkGens, Bool.and_eq_true] at h
      simp only [mlGens]; rw [ml_sim _ s1 t1 q hq1 hR1 h.1, mlGens_sim r s1 t1 s1 t1 q hq1 hR1 hq1 hR1 h.2]
  | .lambda _ _ _ _ _ _ :: r, s0, t0, s1, t1, p, _, _, hq1, hR1, h => by
      simp only [loadsOkGens, Bool.and_eq_true] at h
      simp only [mlGens]; rw [ml_sim _ s1 t1 q hq1 hR1 h.1, mlGens_sim r s1 t1 s1 t1 q hq1 hR1 hq1 hR1 h.2]
  | .ifExp _ _ _ :: r, s0, t0, s1, t1, p, _, _, hq1, hR1, h => by
      simp only [loadsOkGens, Bool.and_eq_true] at h
      simp only [mlGens]; rw [ml_sim _ s1 t1 q hq1 hR1 h.1, mlGens_sim r s1 t1 s1 t1 q hq1 hR1 hq1 hR1 h.2]
  | .dict _ :: r, s0, t0, s1, t1, p, _, _, hq1, hR1, h => by
      simp only [loadsOkGens, Bool.and_eq_true] at h
      simp only [mlGens]; rw [ml_sim _ s1 t1 q hq1 hR1 h.1, mlGens_sim r s1 t1 s1 t1 q hq1 hR1 hq1 hR1 h.2]
  | .listComp _ _ :: r, s0, t0, s1, t1, p, _, _, hq1, hR1, h => by
      simp only [loadsOkGens, Bool.and_eq_true] at h
      simp only [mlGens]; rw [ml_sim _ s1 t1 q hq1 hR1 h.1, mlGens_sim r s1 t1 s1 t1 q hq1 hR1 hq1 hR1 h.2]
  | .genExp _ _ :: r, s0, t0, s1, t1, p, _, _, hq1, hR1, h => by
      simp only [loadsOkGens, Bool.and_eq_true] at h
      simp only [mlGens]; rw [ml_sim _ s1 t1 q hq1 hR1 h.1, mlGens_sim r s1 t1 s1 t1 q hq1 hR1 hq1 hR1 h.2]
  | .yield_ _ :: r, s0, t0, s1, t1, p, _, _, hq1, hR1, h => by
      simp only [loadsOkGens, Bool.and_eq_true] at h
      simp only [mlGens]; rw [ml_sim _ s1 t1 q hq1 hR1 h.1, mlGens_sim r s1 t1 s1 t1 q hq1 hR1 hq1 hR1 h.2]
  | .compare _ _ :: r, s0, t0, s1, t1, p, _, _, hq1, hR1, h => by
      simp only [loadsOkGens, Bool.and_eq_true] at h
      simp only [mlGens]; rw [ml_sim _ s1 t1 q hq1 hR1 h.1, mlGens_sim r s1 t1 s1 t1 q hq1 hR1 hq1 hR1 h.2]
  | .call _ _ _ :: r, s0, t0, s1, t1, p, _, _, hq1, hR1, h => by
      simp only [loadsOkGens, Bool.and_eq_true] at h
      simp only [mlGens]; rw [ml_sim _ s1 t1 q hq1 hR1 h.1, mlGens_sim r s1 t1 s1 t1 q hq1 hR1 hq1 hR1 h.2]
  | .attribute _ _ :: r, s0, t0, s1, t1, p, _, _, hq1, hR1, h => by
      simp only [loadsOkGens, Bool.and_eq_true] at h
      simp only [mlGens]; rw [ml_sim _ s1 t1 q hq1 hR1 h.1, mlGens_sim r s1 t1 s1 t1 q hq1 hR1 hq1 hR1 h.2]
  | .subscript _ _ :: r, s0, t0, s1, t1, p, _, _, hq1, hR1, h => by
      simp only [loadsOkGens, Bool.and_eq_true] at h
      simp only [mlGens]; rw [ml_sim _ s1 t1 q hq1 hR1 h.1, mlGens_sim r s1 t1 s1 t1 q hq1 hR1 hq1 hR1 h.2]
  | .slice _ _ _ :: r, s0, t0, s1, t1, p, _, _, hq1, hR1, h => by
      simp only [loadsOkGens, Bool.and_eq_true] at h
      simp only [mlGens]; rw [ml_sim _ s1 t1 q hq1 hR1 h.1, mlGens_sim r s1 t1 s1 t1 q hq1 hR1 hq1 hR1 h.2]
  | .starred _ :: r, s0, t0, s1, t1, p, _, _, hq1, hR1, h => by
      simp only [loadsOkGens, Bool.and_eq_true] at h
      simp only [mlGens]; rw [ml_sim _ s1 t1 q hq1 hR1 h.1, mlGens_sim r s1 t1 s1 t1 q hq1 hR1 hq1 hR1 h.2]
  | .list _ :: r, s0, t0, s1, t1, p, _, _, hq1, hR1, h => by
      simp only [loadsOkGens, Bool.and_eq_true] at h
      simp only [mlGens]; rw [ml_sim _ s1 t1 q hq1 hR1 h.1, mlGens_sim r s1 t1 s1 t1 q hq1 hR1 hq1 hR1 h.2]
  | .tuple _ :: r, s0, t0, s1, t1, p, _, _, hq1, hR1, h => by
      simp only [loadsOkGens, Bool.and_eq_true] at h
      simp only [mlGens]; rw [ml_sim _ s1 t1 q hq1 hR1 h.1, mlGens_sim r s1 t1 s1 t1 q hq1 hR1 hq1 hR1 h.2]
  | .unsupported _ :: r, s0, t0, s1, t1, p, _, _, hq1, hR1, h => by
      simp only [loadsOkGens, Bool.and_eq_true] at h
      simp only [mlGens]; rw [ml_sim _ s1 t1 q hq1 hR1 h.1, mlGens_sim r s1 t1 s1 t1 q hq1 hR1 hq1 hR1 h.2]
  | .keyword _ _ :: r, s0, t0, s1, t1, p, _, _, hq1, hR1, h => by
      simp only [loadsOkGens, Bool.and_eq_true] at h
      simp only [mlGens]; rw [ml_sim _ s1 t1 q hq1 hR1 h.1, mlGens_sim r s1 t1 s1 t1 q hq1 hR1 hq1 hR1 h.2]
  | .param _ _ _ :: r, s0, t0, s1, t1, p, _, _, hq1, hR1, h => by
      simp only [loadsOkGens, Bool.and_eq_true] at h
      simp only [mlGens]; rw [ml_sim _ s1 t1 q hq1 hR1 h.1, mlGens_sim r s1 t1 s1 t1 q hq1 hR1 hq1 hR1 h.2]
  | .dictItem _ _ :: r, s0, t0, s1, t1, p, _, _, hq1, hR1, h => by
      simp only [loadsOkGens, Bool.and_eq_true] at h
      simp only [mlGens]; rw [ml_sim _ s1 t1 q hq1 hR1 h.1, mlGens_sim r s1 t1 s1 t1 q hq1 hR1 hq1 hR1 h.2]
  | .cmpRhs _ _ :: r, s0, t0, s1, t1, p, _, _, hq1, hR1, h => by
      simp only [loadsOkGens, Bool.and_eq_true] at h
      simp only [mlGens]; rw [ml_sim _ s1 t1 q hq1 hR1 h.1, mlGens_sim r s1 t1 s1 t1 q hq1 hR1 hq1 hR1 h.2]
theorem mlT_sim : ∀ (e : PyExpr) (s : σ₁) (t : σ₂) (p : Str → Bool),
    (∀ id, p id = true → o₁.dec s id = o₂.dec t id) → (∀ N, R (o₁.push s N) (o₂.push t N)) →
    loadsOkT p q e = true → mlT o₁ s e = mlT o₂ t e
  | .name _, _, _, _, _, _, _ => rfl
  | .tuple elts, s, t, p, hp, hR, h => by
      simp only [loadsOkT] at h; simp only [mlT, mlTL_sim elts s t p hp hR h]
  | .list elts, s, t, p, hp, hR, h => by
      simp only [loadsOkT] at h; simp only [mlT, mlTL_sim elts s t p hp hR h]
  | .starred e, s, t, p, hp, hR, h => by
      simp only [loadsOkT] at h; simp only [mlT, mlT_sim e s t p hp hR h]
  | .attribute v a, s, t, p, hp, hR, h => by
      simp only [loadsOkT] at h; simp only [mlT, ml_sim v s t p hp hR h]
  | .subscript v sl, s, t, p, hp, hR, h => by
      simp only [loadsOkT, Bool.and_eq_true] at h
      simp only [mlT, ml_sim v s t p hp hR h.1, ml_sim sl s t p hp hR h.2]
  | .const _, _, _, _, _, _, _ => by simp only [mlT]
  | .boolOp _ _, _, _, _, _, _, _ => by simp only [mlT]
  | .binOp _ _ _, _, _, _, _, _, _ => by simp only [mlT]
  | .unaryOp _ _, _, _, _, _, _, _ => by simp only [mlT]
  | .lambda _ _ _ _ _ _, _, _, _, _, _, _ => by simp only [mlT]
  | .ifExp _ _ _, _, _, _, _, _, _ => by simp only [mlT]
  | .dict _, _, _, _, _, _, _ => by simp only [mlT]
  | .listComp _ _, _, _, _, _, _, _ => by simp only [mlT]
  | .genExp _ _, _, _, _, _, _, _ => by simp only [mlT]
  | .yield_ _, _, _, _, _, _, _ => by simp only [mlT]
  | .compare _ _, _, _, _, _, _, _ => by simp only [mlT]
  | .call _ _ _, _, _, _, _, _, _ => by simp only [mlT]
  | .slice _ _ _, _, _, _, _, _, _ => by simp only [mlT]
  | .unsupported _, _, _, _, _, _, _ => by simp only [mlT]
  | .keyword _ _, _, _, _, _, _, _ => by simp only [mlT]
  | .comp _ _ _ _, _, _, _, _, _, _ => by simp only [mlT]
  | .param _ _ _, _, _, _, _, _, _ => by simp only [mlT]
  | .dictItem _ _, _, _, _, _, _, _ => by simp only [mlT]
  | .cmpRhs _ _, _, _, _, _, _, _ => by simp only [mlT]
theorem mlTL_sim : ∀ (es : List PyExpr) (s : σ₁) (t : σ₂) (p : Str → Bool),
    (∀ id, p id = true → o₁.dec s id = o₂.dec t id) → (∀ N, R (o₁.push s N) (o₂.push t N)) →
    loadsOkTL p q es = true → mlTL o₁ s es = mlTL o₂ t es
  | [], _, _, _, _, _, _ => rfl
  | e :: es, s, t, p, hp, hR, h => by
      simp only [loadsOkTL, Bool.and_eq_true] at h
      simp only [mlTL, mlT_sim e s t p hp hR h.1, mlTL_sim es s t p hp hR h.2]
end
end sim

end Genshi.Py

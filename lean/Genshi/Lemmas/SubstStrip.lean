/-
  C01 — the serializer with `strip_whitespace=True`: `WhitespaceFilter` hands the serializer
  one `Markup` text per run, normalised after escaping; re-reading gives the stream with each
  run of character data normalised.
-/
import Genshi.Lemmas.SubstSer
import Genshi.Lemmas.SubstWs
namespace Genshi.Subst
open Genshi.Escape Genshi.Str

/-- the raw text of the buffered pieces is the escaped form of the source characters `pp` -/
def BufRel (buf : List (List Char × Bool)) (pp : List QChar) : Prop :=
  (buf.map fun p => if p.2 then p.1 else escapePy false p.1).flatten = escapeMixed pp

theorem bufRel_nil : BufRel [] [] := rfl

theorem bufRel_empty (pp : List QChar) (h : BufRel [] pp) : pp = [] := by
  unfold BufRel at h
  simp only [List.map_nil, List.flatten_nil] at h
  have := escapeMixed_isEmpty pp
  rw [← h] at this
  cases pp with
  | nil => rfl
  | cons _ _ => simp at this

theorem bufRel_snoc_plain (buf : List (List Char × Bool)) (pp : List QChar) (s : List Char)
    (h : BufRel buf pp) : BufRel (buf ++ [(s, false)]) (pp ++ s.map fun c => (false, c)) := by
  unfold BufRel at h ⊢
  simp only [List.map_append, List.flatten_append, h, List.map_cons, List.map_nil, Bool.false_eq_true,
    ↓reduceIte, List.flatten_cons, List.flatten_nil, List.append_nil, escapeMixed_append]
  rw [escapePy_false_mixed]

theorem bufRel_snoc_safe (buf : List (List Char × Bool)) (pp ps : List QChar)
    (h : BufRel buf pp) : BufRel (buf ++ [(escapeMixed ps, true)]) (pp ++ ps) := by
  unfold BufRel at h ⊢
  simp only [List.map_append, List.flatten_append, h, List.map_cons, List.map_nil,
    ↓reduceIte, List.flatten_cons, List.flatten_nil, List.append_nil, escapeMixed_append]

theorem absorbAll_append (m : Method) (acc : List Ev × List Char) (a b : List RTok) :
    absorbAll m acc (a ++ b) = absorbAll m (absorbAll m acc a) b := by
  simp [absorbAll, List.foldl_append]

/-- what the reader has after the flushed run -/
theorem absorbAll_wsFlush (m : Method) (p : Nat) (out : List Ev) (buf : List (List Char × Bool))
    (pp : List QChar) (h : BufRel buf pp) :
    absorbAll m (out, []) ((wsFlush p buf).map rawOf) =
      (out, if p = 0 then normWs (escapeMixed pp) else escapeMixed pp) := by
  unfold wsFlush
  cases hb : buf.isEmpty
  · unfold BufRel at h
    simp only [Bool.false_eq_true, ↓reduceIte, List.map_cons, List.map_nil, rawOf, absorbAll, List.foldl_cons,
      List.foldl_nil, absorb, List.nil_append, h]
  · have : buf = [] := by simpa using hb
    subst this
    have := bufRel_empty pp h
    subst this
    by_cases hp : p = 0 <;> simp [hp, absorbAll, escapeMixed_nil, normWs, trimTrailing, collapseLines]

theorem flushText_normWs (p : Nat) (pp : List QChar) :
    flushText (if p = 0 then normWs (escapeMixed pp) else escapeMixed pp) = flushDataP p (pp.map (·.2)) := by
  unfold flushDataP
  by_cases hp : p = 0
  · simp only [hp, ↓reduceIte]
    rw [normWs_mixed, flushText_mixed, normWsQ_snd]
  · simp only [hp, ↓reduceIte]
    rw [flushText_mixed]

theorem presStep_pred (pres : List Name) (p : Nat) (t : Name) : presStep pres p t - 1 = p := by
  unfold presStep
  split
  · simp
  · rename_i h
    simp only [Bool.or_eq_true, decide_eq_true_eq, not_or, Nat.not_lt, Nat.le_zero_eq] at h
    simp [h.1]

/-- reading the raw tokens of the filtered token list -/
theorem absorb_coalesceStrip (m : Method) (pres noesc : List Name) (toks : List Tok)
    (hs : ∀ s, Tok.text s true ∈ toks → SafeOk s)
    (ho : ∀ t a, Tok.open t a ∈ toks → openOk m t = true ∧ noesc.contains t = false) :
    ∀ (p : Nat) (out : List Ev) (buf : List (List Char × Bool)) (pp : List QChar), BufRel buf pp →
      (absorbAll m (out, []) ((wsFilter pres noesc p false buf toks).map rawOf)).1 ++
        flushText (absorbAll m (out, []) ((wsFilter pres noesc p false buf toks).map rawOf)).2
      = out ++ coalesceStripGo pres p (pp.map (·.2)) (toks.flatMap tokEvents) := by
  induction toks with
  | nil =>
    intro p out buf pp hrel
    simp only [wsFilter, absorbAll_wsFlush m p out buf pp hrel, flushText_normWs, List.flatMap_nil, coalesceStripGo]
  | cons t ts ih =>
    intro p out buf pp hrel
    have hs' : ∀ s, Tok.text s true ∈ ts → SafeOk s := fun s h => hs s (List.mem_cons_of_mem _ h)
    have ho' : ∀ t a, Tok.open t a ∈ ts → openOk m t = true ∧ noesc.contains t = false :=
      fun t a h => ho t a (List.mem_cons_of_mem _ h)
    have ih' := ih hs' ho'
    cases t with
    | text s f =>
      cases f
      · simp only [wsFilter, Bool.or_false, List.flatMap_cons, tokEvents, List.cons_append, List.nil_append,
          coalesceStripGo, textValue, Bool.false_eq_true, ↓reduceIte]
        rw [ih' p out _ _ (bufRel_snoc_plain buf pp s hrel)]
        simp [List.map_append, List.map_map, Function.comp_def]
      · obtain ⟨ps, rfl⟩ := hs s (by simp)
        simp only [wsFilter, Bool.or_false, List.flatMap_cons, tokEvents, List.cons_append, List.nil_append,
          coalesceStripGo, textValue, ↓reduceIte]
        rw [ih' p out _ _ (bufRel_snoc_safe buf pp ps hrel), unescape_escapeMixed]
        simp [List.map_append]
    | close t =>
      simp only [wsFilter, List.map_append, List.map_cons, absorbAll_append, absorbAll_wsFlush m p out buf pp hrel,
        List.flatMap_cons, tokEvents, List.cons_append, List.nil_append, coalesceStripGo]
      simp only [absorbAll, List.foldl_cons, rawOf, absorb]
      have := ih' (p - 1) (out ++ flushText (if p = 0 then normWs (escapeMixed pp) else escapeMixed pp) ++ [.end_ t])
        [] [] bufRel_nil
      simp only [absorbAll] at this ⊢
      rw [this, flushText_normWs]
      simp
    | «open» t a =>
      obtain ⟨hop, hne⟩ := ho t a (by simp)
      have hse : startEvents m t a = [.start t a] := by
        apply startEvents_nonvoid
        intro hm
        simpa [openOk, hm] using hop
      simp only [wsFilter, List.map_append, List.map_cons, absorbAll_append, absorbAll_wsFlush m p out buf pp hrel,
        List.flatMap_cons, tokEvents, List.cons_append, List.nil_append, coalesceStripGo, hne,
        Bool.or_self]
      simp only [absorbAll, List.foldl_cons, rawOf, absorb, decodeAttrs_escaped, hse]
      have := ih' (presStep pres p t)
        (out ++ flushText (if p = 0 then normWs (escapeMixed pp) else escapeMixed pp) ++ [.start t a]) [] [] bufRel_nil
      simp only [absorbAll, presStep] at this ⊢
      rw [this, flushText_normWs]
      simp
    | empty t a =>
      simp only [wsFilter, List.map_append, List.map_cons, absorbAll_append, absorbAll_wsFlush m p out buf pp hrel,
        List.flatMap_cons, tokEvents, List.cons_append, List.nil_append, coalesceStripGo, presStep_pred]
      simp only [absorbAll, List.foldl_cons, rawOf, absorb, decodeAttrs_escaped]
      have := ih' p (out ++ flushText (if p = 0 then normWs (escapeMixed pp) else escapeMixed pp) ++ [.start t a, .end_ t])
        [] [] bufRel_nil
      simp only [absorbAll] at this ⊢
      rw [this, flushText_normWs]
      have hnil : ∀ q, flushDataP q [] = [] := by
        intro q; by_cases hq : q = 0 <;> simp [flushDataP, hq, flushData, normWs, trimTrailing, collapseLines]
      simp [hnil]

theorem safeOk_normWs (pp : List QChar) : SafeOk (normWs (escapeMixed pp)) :=
  ⟨normWsQ pp, normWs_mixed pp⟩

theorem safeOk_flushed (p : Nat) (pp : List QChar) :
    SafeOk (if p = 0 then normWs (escapeMixed pp) else escapeMixed pp) := by
  by_cases hp : p = 0
  · simp only [hp, ↓reduceIte]; exact safeOk_normWs pp
  · simp only [hp, ↓reduceIte]; exact ⟨pp, rfl⟩

/-- the tokens the filter hands to the serializer -/
theorem wsFilter_toks (m : Method) (pres noesc : List Name) (toks : List Tok)
    (hok : ∀ t ∈ toks, tokOkB m t = true)
    (hs : ∀ s, Tok.text s true ∈ toks → SafeOk s)
    (ho : ∀ t a, Tok.open t a ∈ toks → openOk m t = true ∧ noesc.contains t = false) :
    ∀ (p : Nat) (buf : List (List Char × Bool)) (pp : List QChar), BufRel buf pp →
      ∀ tok ∈ wsFilter pres noesc p false buf toks,
        tokOkB m tok = true ∧ (∀ s f, tok = .text s f → SafeOk s) ∧
        (∀ t a, tok = .open t a → openOk m t = true) := by
  induction toks with
  | nil =>
    intro p buf pp hrel tok htok
    simp only [wsFilter, wsFlush] at htok
    split at htok
    · simp at htok
    · simp only [List.mem_singleton] at htok
      subst htok
      refine ⟨rfl, ?_, by simp⟩
      intro s f he
      simp only [Tok.text.injEq] at he
      rw [← he.1]
      unfold BufRel at hrel
      simp only [hrel]
      exact safeOk_flushed p pp
  | cons t ts ih =>
    intro p buf pp hrel tok htok
    have hok' : ∀ t ∈ ts, tokOkB m t = true := fun x hx => hok x (List.mem_cons_of_mem _ hx)
    have hs' : ∀ s, Tok.text s true ∈ ts → SafeOk s := fun s h => hs s (List.mem_cons_of_mem _ h)
    have ho' : ∀ t a, Tok.open t a ∈ ts → openOk m t = true ∧ noesc.contains t = false :=
      fun t a h => ho t a (List.mem_cons_of_mem _ h)
    have ih' := ih hok' hs' ho'
    have hflush : ∀ tok ∈ wsFlush p buf, tokOkB m tok = true ∧ (∀ s f, tok = .text s f → SafeOk s) ∧
        (∀ t a, tok = .open t a → openOk m t = true) := by
      intro tok htok
      simp only [wsFlush] at htok
      split at htok
      · simp at htok
      · simp only [List.mem_singleton] at htok
        subst htok
        refine ⟨rfl, ?_, by simp⟩
        intro s f he
        simp only [Tok.text.injEq] at he
        rw [← he.1]
        unfold BufRel at hrel
        simp only [hrel]
        exact safeOk_flushed p pp
    cases t with
    | text s f =>
      cases f
      · simp only [wsFilter, Bool.or_false] at htok
        exact ih' p _ _ (bufRel_snoc_plain buf pp s hrel) tok htok
      · obtain ⟨ps, rfl⟩ := hs s (by simp)
        simp only [wsFilter, Bool.or_false] at htok
        exact ih' p _ _ (bufRel_snoc_safe buf pp ps hrel) tok htok
    | close t =>
      simp only [wsFilter, List.mem_append, List.mem_cons] at htok
      rcases htok with h | rfl | h
      · exact hflush tok h
      · exact ⟨hok _ (by simp), by simp, by simp⟩
      · exact ih' _ [] [] bufRel_nil tok h
    | «open» t a =>
      obtain ⟨hop, hne⟩ := ho t a (by simp)
      simp only [wsFilter, List.mem_append, List.mem_cons, hne, Bool.or_self] at htok
      rcases htok with h | rfl | h
      · exact hflush tok h
      · refine ⟨hok _ (by simp), by simp, ?_⟩
        intro t2 a2 he
        simp only [Tok.open.injEq] at he
        rw [← he.1]; exact hop
      · exact ih' _ [] [] bufRel_nil tok h
    | empty t a =>
      simp only [wsFilter, List.mem_append, List.mem_cons] at htok
      rcases htok with h | rfl | h
      · exact hflush tok h
      · exact ⟨hok _ (by simp), by simp, by simp⟩
      · exact ih' _ [] [] bufRel_nil tok h

/-- **re-reading what the serializer wrote with whitespace stripping** gives the stream with
    every run of character data merged, decoded and — outside whitespace-preserving elements —
    normalised -/
theorem readDoc_serialize_strip (m : Method) (evs : List Ev)
    (hev : ∀ e ∈ evs, evOkB m e = true)
    (hsafe : TextsOk evs) (hnest : emptyOkGo m none evs = true) :
    readDoc m (serialize m true evs) = some (coalesceStrip m evs) := by
  have htoks := emptyTags_toks m evs none (by simpa [pendName] using hnest) (by simpa [pendEvents] using hev)
  have hevs := emptyTags_events m evs none (by simpa [pendName] using hnest)
  have ho : ∀ t a, Tok.open t a ∈ emptyTagsGo none evs →
      openOk m t = true ∧ (noescapeElems m).contains t = false := by
    intro t a h
    have h1 := (htoks _ h).2.2 t a rfl
    have h3 := (htoks _ h).1
    simp only [tokOkB, Bool.and_eq_true, Bool.not_eq_true'] at h3
    exact ⟨h1, h3.2⟩
  have hs : ∀ s, Tok.text s true ∈ emptyTagsGo none evs → SafeOk s :=
    fun s h => hsafe s ((htoks _ h).2.1 s rfl)
  have hW := wsFilter_toks m (preserveElems m) (noescapeElems m) (emptyTagsGo none evs)
    (fun t ht => (htoks t ht).1) hs ho 0 [] [] bufRel_nil
  have hraw := serToks_raw m _ (fun t ht => (hW t ht).1)
  simp only [serialize, ↓reduceIte, emptyTags]
  rw [hraw, readDoc_rtoks]
  · have := absorb_coalesceStrip m (preserveElems m) (noescapeElems m) (emptyTagsGo none evs) hs ho 0 [] [] []
      bufRel_nil
    rw [this, hevs]
    simp [coalesceStrip, pendEvents]
  · intro rt hrt
    obtain ⟨tok, htok, rfl⟩ := List.mem_map.mp hrt
    exact rtokOk_rawOf m tok (hW tok htok).1 (fun s hs' => (hW tok htok).2.1 s true hs')

end Genshi.Subst

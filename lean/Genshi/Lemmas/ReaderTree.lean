/-
  Helper lemmas for C08: the html round trip stated over forests
  (`flattenList`), with the expected tokens defined by recursion on the forest.
-/
import Genshi.Lemmas.OutputTree
import Genshi.Lemmas.ReaderHtml
import Genshi.Lemmas.ReaderXhtml
namespace Genshi.Reader
open Genshi Genshi.Output

/-! ### the re-read document as pieces: tokens and character data -/

inductive Piece where
  | tok (t : Tok)
  | chars (s : Str)
  deriving Repr, DecidableEq

/-- a token ends the pending character data (a text token, unless empty); character data is appended -/
def applyPiece (bt : Str × List Tok) : Piece → Str × List Tok
  | .tok t => ([], t :: flushToks bt.1 bt.2)
  | .chars s => (bt.1 ++ s, bt.2)

/-- tokens of a list of pieces: adjacent character data merged, empty text dropped -/
def assemble (ps : List Piece) : List Tok :=
  let bt := ps.foldl applyPiece ([], [])
  (flushToks bt.1 bt.2).reverse

def evPieces : FEv → List Piece
  | .start t a => [.tok (.start t (htmlAttrToks a) false)]
  | .empty t a =>
      if inTable (emptyElems .html) t then [.tok (.start t (htmlAttrToks a) false)]
      else [.tok (.start t (htmlAttrToks a) false), .tok (.end_ t)]
  | .end_ t => [.tok (.end_ t)]
  | .text s _ => [.chars s]
  | .comment s => [.tok (.comment s)]
  | _ => []

def bt (r : RS) : Str × List Tok := (r.buf, r.toks)

theorem flushToks_nil (toks : List Tok) : flushToks [] toks = toks := rfl

theorem bt_htmlEv (r : RS) (ev : FEv) : bt (htmlEv r ev) = (evPieces ev).foldl applyPiece (bt r) := by
  cases ev <;> simp [htmlEv, evPieces, bt, applyPiece]
  split <;> simp [applyPiece, flushToks_nil]

theorem bt_foldl (evs : List FEv) : ∀ r : RS,
    bt (evs.foldl htmlEv r) = (evs.flatMap evPieces).foldl applyPiece (bt r) := by
  induction evs with
  | nil => intro r; rfl
  | cons ev rest ih => intro r; simp [ih, bt_htmlEv, List.foldl_append]

theorem htmlExpected_eq_assemble (evs : List FEv) :
    htmlExpected evs = assemble (evs.flatMap evPieces) := by
  have := bt_foldl evs {}
  simp only [htmlExpected, assemble]
  have h1 : (evs.foldl htmlEv {}).buf = (bt (evs.foldl htmlEv {})).1 := rfl
  have h2 : (evs.foldl htmlEv {}).toks = (bt (evs.foldl htmlEv {})).2 := rfl
  rw [h1, h2, this]; rfl

/-! ### the expected pieces, by recursion on the forest (specification) -/

mutual
  /-- html: start tag with the attributes of `htmlAttrToks`; end tag unless the element is void and
      childless; text and comments verbatim; everything else invisible -/
  def treePieces : Node → List Piece
    | .elem t a ks =>
        .tok (.start t.loc (htmlAttrToks (fAttrs a)) false) ::
          (if ks.isEmpty then (if inTable (emptyElems .html) t.loc then [] else [.tok (.end_ t.loc)])
           else forestPieces ks ++ [.tok (.end_ t.loc)])
    | .leaf (.text s _) => [.chars s]
    | .leaf (.comment s) => [.tok (.comment s)]
    | .leaf _ => []
  def forestPieces : List Node → List Piece
    | [] => []
    | n :: ns => treePieces n ++ forestPieces ns
end

mutual
  theorem pieces_tree : ∀ n : Node, (treeF n).flatMap evPieces = treePieces n
    | .elem t a ks => by
        cases ks with
        | nil =>
          simp only [treeF, List.isEmpty_nil, ↓reduceIte, List.flatMap_cons, List.flatMap_nil, List.append_nil,
            evPieces, treePieces]
          split <;> simp
        | cons k ks' =>
          simp only [treeF, List.isEmpty_cons, Bool.false_eq_true, ↓reduceIte, List.flatMap_cons, List.flatMap_append,
            List.flatMap_nil, List.append_nil, evPieces, treePieces, pieces_forest (k :: ks')]
          simp
    | .leaf e => by cases e <;> simp [treeF, leafF, treePieces, evPieces]
  theorem pieces_forest : ∀ ns : List Node, (forestF ns).flatMap evPieces = forestPieces ns
    | [] => by simp [forestF, forestPieces]
    | n :: ns => by simp [forestF, forestPieces, List.flatMap_append, pieces_tree n, pieces_forest ns]
end

/-! ### the hypotheses, on the forest -/

def nameOkB (n : Str) : Bool := !n.isEmpty && n.all nameChar

theorem nameOk_of_B {n : Str} (h : nameOkB n = true) : NameOk n := by
  simp only [nameOkB, Bool.and_eq_true, Bool.not_eq_true', List.isEmpty_eq_false_iff] at h
  exact ⟨h.1, h.2⟩

/-- children of a script/style element: text only, not Markup, no `</`, no `<` at the end -/
def rawKidsOk : List Node → Bool
  | [] => true
  | .leaf (.text s f) :: rest => !f && rawOk s && rawKidsOk rest
  | _ :: _ => false

mutual
  /-- a tree of the HTML vocabulary inside the hypotheses of the round trip -/
  def htmlTreeOk : Node → Bool
    | .elem t a ks =>
        nameOkB t.loc && (fAttrs a).all (fun p => nameOkB p.1) &&
          (if rawTextElems.contains t.loc then rawKidsOk ks else htmlForestOk ks)
    | .leaf (.text _ f) => !f
    | .leaf (.comment s) => commentOk s
    | .leaf _ => false
  def htmlForestOk : List Node → Bool
    | [] => true
    | n :: ns => htmlTreeOk n && htmlForestOk ns
end

def rawEnd (raw : Bool) (evs : List FEv) : Bool := evs.foldl rawAfter raw

theorem htmlOkAll_append (a b : List FEv) : ∀ raw : Bool,
    HtmlOkAll raw (a ++ b) ↔ HtmlOkAll raw a ∧ HtmlOkAll (rawEnd raw a) b := by
  induction a with
  | nil => intro raw; simp [HtmlOkAll, rawEnd]
  | cons e es ih => intro raw; simp [HtmlOkAll, rawEnd, ih, and_assoc]

theorem rawEnd_append (a b : List FEv) (raw : Bool) : rawEnd raw (a ++ b) = rawEnd (rawEnd raw a) b := by
  simp [rawEnd, List.foldl_append]

theorem foldl_htmlEv_raw (evs : List FEv) : ∀ r : RS, (evs.foldl htmlEv r).raw = rawEnd r.raw evs := by
  induction evs with
  | nil => intro r; rfl
  | cons e es ih => intro r; simp [ih, htmlEv_raw, rawEnd]

/-- raw-text children: all hypotheses hold in raw mode, and the mode stays raw -/
theorem rawKids_ok (ks : List Node) (h : rawKidsOk ks = true) :
    HtmlOkAll true (forestF ks) ∧ rawEnd true (forestF ks) = true := by
  induction ks with
  | nil => simp [forestF, HtmlOkAll, rawEnd]
  | cons k ks' ih =>
    cases k with
    | elem t a kk => simp [rawKidsOk] at h
    | leaf e =>
      cases e with
      | text s f =>
        simp only [rawKidsOk, Bool.and_eq_true, Bool.not_eq_true'] at h
        obtain ⟨⟨hf, hs⟩, hr⟩ := h
        have ih' := ih hr
        subst hf
        simp only [forestF, treeF, leafF, Option.toList_some, List.singleton_append, HtmlOkAll, HtmlOk, rawAfter,
          true_and, rawEnd, List.foldl_cons]
        exact ⟨⟨fun _ => hs, ih'.1⟩, ih'.2⟩
      | _ => simp [rawKidsOk] at h

mutual
  theorem htmlOk_tree : ∀ n : Node, htmlTreeOk n = true →
      HtmlOkAll false (treeF n) ∧ rawEnd false (treeF n) = false
    | .elem t a ks, h => by
        simp only [htmlTreeOk, Bool.and_eq_true] at h
        obtain ⟨⟨ht, ha⟩, hk⟩ := h
        have hT := nameOk_of_B ht
        have hA : ∀ p ∈ fAttrs a, NameOk p.1 := by
          intro p hp
          exact nameOk_of_B (List.all_eq_true.mp ha p hp)
        cases ks with
        | nil =>
          simp only [treeF, List.isEmpty_nil, ↓reduceIte]
          exact ⟨⟨⟨rfl, hT, hA⟩, trivial⟩, rfl⟩
        | cons k ks' =>
          simp only [treeF, List.isEmpty_cons, Bool.false_eq_true, ↓reduceIte]
          rw [show XEv.start t.loc (fAttrs a) :: (forestF (k :: ks') ++ [XEv.end_ t.loc]) =
                [XEv.start t.loc (fAttrs a)] ++ (forestF (k :: ks') ++ [XEv.end_ t.loc]) by rfl]
          by_cases hr : rawTextElems.contains t.loc = true
          · simp only [hr, ↓reduceIte] at hk
            have hkids := rawKids_ok (k :: ks') hk
            refine ⟨?_, ?_⟩
            · have hre : rawEnd false [XEv.start t.loc (fAttrs a)] = true := by
                show rawTextElems.contains t.loc = true; exact hr
              rw [htmlOkAll_append, htmlOkAll_append, hre]
              exact ⟨⟨⟨rfl, hT, hA⟩, trivial⟩, hkids.1, ⟨hT, trivial⟩⟩
            · simp [rawEnd_append, rawEnd, rawAfter]
          · simp only [hr, Bool.false_eq_true, ↓reduceIte] at hk
            have hkids := htmlOk_forest (k :: ks') hk
            have hr' : rawTextElems.contains t.loc = false := by simpa using hr
            refine ⟨?_, ?_⟩
            · have hre : rawEnd false [XEv.start t.loc (fAttrs a)] = false := by
                show rawTextElems.contains t.loc = false; exact hr'
              rw [htmlOkAll_append, htmlOkAll_append, hre]
              exact ⟨⟨⟨rfl, hT, hA⟩, trivial⟩, hkids.1, ⟨hT, trivial⟩⟩
            · simp [rawEnd_append, rawEnd, rawAfter]
    | .leaf e, h => by
        cases e <;> simp [htmlTreeOk] at h <;>
          simp [treeF, leafF, HtmlOkAll, HtmlOk, rawAfter, rawEnd, h]
  theorem htmlOk_forest : ∀ ns : List Node, htmlForestOk ns = true →
      HtmlOkAll false (forestF ns) ∧ rawEnd false (forestF ns) = false
    | [], _ => by simp [forestF, HtmlOkAll, rawEnd]
    | n :: ns, h => by
        simp only [htmlForestOk, Bool.and_eq_true] at h
        have h1 := htmlOk_tree n h.1
        have h2 := htmlOk_forest ns h.2
        simp only [forestF]
        refine ⟨?_, ?_⟩
        · rw [htmlOkAll_append]; exact ⟨h1.1, by rw [h1.2]; exact h2.1⟩
        · rw [rawEnd_append, h1.2, h2.2]
end

/-! ### xhtml -/

def evPiecesX : FEv → List Piece
  | .start t a => [.tok (.start t (xhtmlAttrToks a) false)]
  | .empty t a =>
      if inTable (emptyElems .xhtml) t then [.tok (.start t (xhtmlAttrToks a) true)]
      else [.tok (.start t (xhtmlAttrToks a) false), .tok (.end_ t)]
  | .end_ t => [.tok (.end_ t)]
  | .text s _ => [.chars s]
  | .comment s => [.tok (.comment s)]
  | _ => []

theorem bt_xhtmlEv (r : RS) (ev : FEv) : bt (xhtmlEv r ev) = (evPiecesX ev).foldl applyPiece (bt r) := by
  cases ev <;> simp [xhtmlEv, evPiecesX, bt, applyPiece]
  split <;> simp [applyPiece, flushToks_nil]

theorem bt_foldlX (evs : List FEv) : ∀ r : RS,
    bt (evs.foldl xhtmlEv r) = (evs.flatMap evPiecesX).foldl applyPiece (bt r) := by
  induction evs with
  | nil => intro r; rfl
  | cons ev rest ih => intro r; simp [ih, bt_xhtmlEv, List.foldl_append]

theorem xhtmlExpected_eq_assemble (evs : List FEv) :
    xhtmlExpected evs = assemble (evs.flatMap evPiecesX) := by
  have := bt_foldlX evs {}
  simp only [xhtmlExpected, assemble]
  have h1 : (evs.foldl xhtmlEv {}).buf = (bt (evs.foldl xhtmlEv {})).1 := rfl
  have h2 : (evs.foldl xhtmlEv {}).toks = (bt (evs.foldl xhtmlEv {})).2 := rfl
  rw [h1, h2, this]; rfl

mutual
  /-- xhtml: start tag with the attributes of `xhtmlAttrToks`; a childless void element is
      self-closed, every other element gets its end tag; text and comments verbatim -/
  def treePiecesX : Node → List Piece
    | .elem t a ks =>
        if ks.isEmpty then
          (if inTable (emptyElems .xhtml) t.loc then [.tok (.start t.loc (xhtmlAttrToks (fAttrs a)) true)]
           else [.tok (.start t.loc (xhtmlAttrToks (fAttrs a)) false), .tok (.end_ t.loc)])
        else .tok (.start t.loc (xhtmlAttrToks (fAttrs a)) false) :: (forestPiecesX ks ++ [.tok (.end_ t.loc)])
    | .leaf (.text s _) => [.chars s]
    | .leaf (.comment s) => [.tok (.comment s)]
    | .leaf _ => []
  def forestPiecesX : List Node → List Piece
    | [] => []
    | n :: ns => treePiecesX n ++ forestPiecesX ns
end

mutual
  theorem piecesX_tree : ∀ n : Node, (treeF n).flatMap evPiecesX = treePiecesX n
    | .elem t a ks => by
        cases ks with
        | nil =>
          simp only [treeF, List.isEmpty_nil, ↓reduceIte, List.flatMap_cons, List.flatMap_nil, List.append_nil,
            evPiecesX, treePiecesX]
        | cons k ks' =>
          simp only [treeF, List.isEmpty_cons, Bool.false_eq_true, ↓reduceIte, List.flatMap_cons, List.flatMap_append,
            List.flatMap_nil, List.append_nil, evPiecesX, treePiecesX, piecesX_forest (k :: ks')]
          simp
    | .leaf e => by cases e <;> simp [treeF, leafF, treePiecesX, evPiecesX]
  theorem piecesX_forest : ∀ ns : List Node, (forestF ns).flatMap evPiecesX = forestPiecesX ns
    | [] => by simp [forestF, forestPiecesX]
    | n :: ns => by simp [forestF, forestPiecesX, List.flatMap_append, piecesX_tree n, piecesX_forest ns]
end

def attrValOkB (v : Str) : Bool := v.all fun c => !attrWs c

mutual
  /-- a tree inside the hypotheses of the xhtml round trip -/
  def xhtmlTreeOk : Node → Bool
    | .elem t a ks =>
        nameOkB t.loc && (fAttrs a).all (fun p => nameOkB p.1 && attrValOkB p.2) && xhtmlForestOk ks
    | .leaf (.text _ f) => !f
    | .leaf (.comment s) => commentOk s
    | .leaf _ => false
  def xhtmlForestOk : List Node → Bool
    | [] => true
    | n :: ns => xhtmlTreeOk n && xhtmlForestOk ns
end

mutual
  theorem xhtmlOk_tree (o : Opts) : ∀ n : Node, xhtmlTreeOk n = true → ∀ ev ∈ treeF n, XhtmlOk o ev
    | .elem t a ks, h => by
        simp only [xhtmlTreeOk, Bool.and_eq_true] at h
        obtain ⟨⟨ht, ha⟩, hk⟩ := h
        have hT := nameOk_of_B ht
        have hA : XAttrsOk (fAttrs a) := by
          intro p hp
          have := List.all_eq_true.mp ha p hp
          simp only [Bool.and_eq_true] at this
          exact ⟨nameOk_of_B this.1, fun _ => this.2⟩
        intro ev hev
        cases ks with
        | nil =>
          simp only [treeF, List.isEmpty_nil, ↓reduceIte, List.mem_singleton] at hev
          subst hev; exact ⟨hT, hA⟩
        | cons k ks' =>
          simp only [treeF, List.isEmpty_cons, Bool.false_eq_true, ↓reduceIte, List.mem_cons, List.mem_append,
            List.mem_singleton, List.not_mem_nil, or_false] at hev
          rcases hev with h1 | h1 | h1
          · subst h1; exact ⟨hT, hA⟩
          · exact xhtmlOk_forest o (k :: ks') hk ev h1
          · subst h1; exact hT
    | .leaf e, h => by
        intro ev hev
        cases e <;> simp [xhtmlTreeOk] at h <;> simp [treeF, leafF] at hev <;> subst hev <;>
          simp [XhtmlOk, h]
  theorem xhtmlOk_forest (o : Opts) : ∀ ns : List Node, xhtmlForestOk ns = true → ∀ ev ∈ forestF ns, XhtmlOk o ev
    | [], _ => by simp [forestF]
    | n :: ns, h => by
        simp only [xhtmlForestOk, Bool.and_eq_true] at h
        intro ev hev
        simp only [forestF, List.mem_append] at hev
        rcases hev with h1 | h1
        · exact xhtmlOk_tree o n h.1 ev h1
        · exact xhtmlOk_forest o ns h.2 ev h1
end

end Genshi.Reader

/-
  The lazy pipeline respects the footprint of its links; the commutation lemma; peeling the
  first link off a segment.
-/
import Genshi.Lemmas.TfLazyFp
namespace Genshi.Tf

/-! ### the pipeline respects its footprint -/

/-- `p` holds for no buffer the links read or write -/
def Outside (p : Nat → Bool) (ops : List Op) : Prop :=
  ∀ i, p i = true → i ∉ wrOps ops ∧ i ∉ rdOps ops

theorem Outside.tail {p : Nat → Bool} {op : Op} {ops : List Op} (h : Outside p (op :: ops)) : Outside p ops := by
  intro i hi
  have := h i hi
  simp only [wrOps, rdOps, List.flatMap_cons, List.mem_append, not_or] at this
  exact ⟨this.1.2, this.2.2⟩

theorem Outside.head {p : Nat → Bool} {op : Op} {ops : List Op} (h : Outside p (op :: ops)) :
    ∀ i, p i = true → i ∉ wrOp op ∧ i ∉ rdOp op := by
  intro i hi
  have := h i hi
  simp only [wrOps, rdOps, List.flatMap_cons, List.mem_append, not_or] at this
  exact ⟨this.1.1, this.2.1⟩

theorem actsIn_outside {p : Nat → Bool} {op : Op} {acts : List Act} (ha : ActsIn (wrOp op) (rdOp op) acts)
    (h : ∀ i, p i = true → i ∉ wrOp op ∧ i ∉ rdOp op) :
    ∀ a ∈ acts, (∀ i ∈ a.wr, p i = false) ∧ (∀ i ∈ a.rd, p i = false) := by
  intro a hm
  refine ⟨fun i hi => ?_, fun i hi => ?_⟩
  · cases hp : p i with
    | false => rfl
    | true => exact absurd ((ha a hm).1 i hi) (h i hp).1
  · cases hp : p i with
    | false => rfl
    | true => exact absurd ((ha a hm).2 i hi) (h i hp).2

theorem pushItem_respects (F : Nat) : ∀ (ops : List Op) (p : Nat → Bool), Outside p ops →
    Respects (pushItem F ops) p (wrOps ops)
  | [], p, _ => ⟨fun e cs b x => rfl, fun cs b x cs' b' o h => by
      simp only [pushItem, Out.ok.injEq, Prod.mk.injEq] at h
      obtain ⟨_, rfl, _⟩ := h
      intro i _; rfl⟩
  | op :: ops, p, hout => by
    have ih := pushItem_respects F ops p hout.tail
    refine ⟨fun e cs b x => ?_, fun cs b x cs' b' o h => ?_⟩
    · cases cs with
      | nil => rfl
      | cons c cs =>
        simp only [pushItem]
        cases hs : stepOp op c x with
        | none => rfl
        | some r =>
          obtain ⟨c', acts⟩ := r
          simp only
          rw [execActs_frame ih e acts cs b (actsIn_outside (stepOp_fp op c c' x acts hs) hout.head)]
          cases execActs F (pushItem F ops) acts cs b with
          | ok y => obtain ⟨cs1, b1, o1⟩ := y; rfl
          | err => rfl
          | div => rfl
    · cases cs with
      | nil => simp [pushItem] at h
      | cons c cs =>
        simp only [pushItem] at h
        cases hs : stepOp op c x with
        | none => simp [hs] at h
        | some r =>
          obtain ⟨c', acts⟩ := r
          simp only [hs] at h
          cases he : execActs F (pushItem F ops) acts cs b with
          | err => simp [he] at h
          | div => simp [he] at h
          | ok y =>
            obtain ⟨cs1, b1, o1⟩ := y
            simp only [he, Out.ok.injEq, Prod.mk.injEq] at h
            obtain ⟨_, rfl, _⟩ := h
            intro i hi
            simp only [wrOps, List.flatMap_cons, List.mem_append, not_or] at hi
            exact execActs_stable ih acts cs b cs1 b1 o1
              (fun a ha j hj => (stepOp_fp op c c' x acts hs a ha).1 j hj) he i hi.2 hi.1

/-! ### finishing -/

def mapBF (g : BufF → BufF) : Out (BufF × MStream) → Out (BufF × MStream)
  | .ok (b, o) => .ok (g b, o)
  | .err => .err
  | .div => .div

/-- run `r`, then finish with `k`; outputs concatenated -/
def seqF (r : R) (k : List Ctl → BufF → Out (BufF × MStream)) : Out (BufF × MStream) :=
  match r with
  | .ok (cs, b, o1) =>
      (match k cs b with
       | .ok (b', o2) => .ok (b', o1 ++ o2)
       | .err => .err
       | .div => .div)
  | .err => .err
  | .div => .div

theorem finish_cons (F : Nat) (op : Op) (ops : List Op) (c : Ctl) (cs : List Ctl) (b : BufF) :
    finish F (op :: ops) (c :: cs) b =
      match finOp op c with
      | none => .err
      | some acts => seqF (execActs F (pushItem F ops) acts cs b) (finish F ops) := by
  simp only [finish]
  cases finOp op c with
  | none => rfl
  | some acts =>
    simp only [seqF]
    cases execActs F (pushItem F ops) acts cs b with
    | ok y => obtain ⟨cs1, b1, o1⟩ := y; rfl
    | err => rfl
    | div => rfl

theorem seqF_mapB (g : BufF → BufF) (r : R) (k : List Ctl → BufF → Out (BufF × MStream))
    (hk : ∀ cs b, k cs (g b) = mapBF g (k cs b)) : seqF (mapB g r) k = mapBF g (seqF r k) := by
  cases r with
  | err => rfl
  | div => rfl
  | ok x =>
    obtain ⟨cs, b, o⟩ := x
    simp only [mapB, seqF, hk]
    cases k cs b with
    | err => rfl
    | div => rfl
    | ok y => obtain ⟨b1, o1⟩ := y; rfl

theorem seqF_seqR (r : R) (k1 : List Ctl → BufF → R) (k2 : List Ctl → BufF → Out (BufF × MStream)) :
    seqF (seqR r k1) k2 = seqF r (fun cs b => seqF (k1 cs b) k2) := by
  cases r with
  | err => rfl
  | div => rfl
  | ok x =>
    obtain ⟨cs, b, o⟩ := x
    simp only [seqR, seqF]
    cases k1 cs b with
    | err => rfl
    | div => rfl
    | ok y =>
      obtain ⟨cs1, b1, o1⟩ := y
      simp only
      cases k2 cs1 b1 with
      | err => rfl
      | div => rfl
      | ok z => obtain ⟨b2, o2⟩ := z; simp [List.append_assoc]

theorem seqF_congr (r : R) (k1 k2 : List Ctl → BufF → Out (BufF × MStream)) (h : ∀ cs b, k1 cs b = k2 cs b) :
    seqF r k1 = seqF r k2 := by
  have : k1 = k2 := by funext cs b; exact h cs b
  rw [this]

theorem mapBF_seqF (g : BufF → BufF) (r : R) (k : List Ctl → BufF → Out (BufF × MStream)) :
    mapBF g (seqF r k) = seqF r (fun cs b => mapBF g (k cs b)) := by
  cases r with
  | err => rfl
  | div => rfl
  | ok x =>
    obtain ⟨cs, b, o⟩ := x
    simp only [seqF]
    cases k cs b with
    | err => rfl
    | div => rfl
    | ok y => obtain ⟨b1, o1⟩ := y; rfl

theorem mapBF_mapBF (g h : BufF → BufF) (r : Out (BufF × MStream)) :
    mapBF g (mapBF h r) = mapBF (fun b => g (h b)) r := by
  cases r with
  | ok x => obtain ⟨b, o⟩ := x; rfl
  | err => rfl
  | div => rfl

theorem mapBF_congr (g h : BufF → BufF) (r : Out (BufF × MStream)) (hg : ∀ b, g b = h b) :
    mapBF g r = mapBF h r := by
  have : g = h := funext hg
  rw [this]

theorem finish_frame (F : Nat) : ∀ (ops : List Op) (p : Nat → Bool), Outside p ops → ∀ (e : BufF) cs b,
    finish F ops cs (mergeP p e b) = mapBF (mergeP p e) (finish F ops cs b)
  | [], p, _, e, cs, b => rfl
  | op :: ops, p, hout, e, cs, b => by
    cases cs with
    | nil => rfl
    | cons c cs =>
      rw [finish_cons, finish_cons]
      cases hf : finOp op c with
      | none => rfl
      | some acts =>
        simp only
        rw [execActs_frame (pushItem_respects F ops p hout.tail) e acts cs b
          (actsIn_outside (finOp_fp op c acts hf) hout.head)]
        exact seqF_mapB _ _ _ (fun cs b => finish_frame F ops p hout.tail e cs b)

/-- the links `ops` in the states `cs` on the input `s`, to the end -/
def runFrom (F : Nat) (ops : List Op) (cs : List Ctl) (b : BufF) (s : MStream) : Out (BufF × MStream) :=
  seqF (pushList (pushItem F ops) s cs b) (finish F ops)

theorem runFrom_frame (F : Nat) (ops : List Op) (p : Nat → Bool) (hout : Outside p ops) (e : BufF)
    (cs : List Ctl) (b : BufF) (s : MStream) :
    runFrom F ops cs (mergeP p e b) s = mapBF (mergeP p e) (runFrom F ops cs b s) := by
  simp only [runFrom]
  rw [pushList_frame (pushItem_respects F ops p hout) e]
  exact seqF_mapB _ _ _ (fun cs b => finish_frame F ops p hout e cs b)

theorem runSeg_eq (F : Nat) (ops : List Op) (b : BufF) (s : MStream) :
    runSeg F ops b s =
      (match runFrom F ops (ops.map initCtl) (proBufs ops b) s with
       | .ok (b', o) => .ok (o, b')
       | .err => .err
       | .div => .div) := by
  simp only [runSeg, runFrom, seqF]
  cases pushList (pushItem F ops) s (ops.map initCtl) (proBufs ops b) with
  | err => rfl
  | div => rfl
  | ok x =>
    obtain ⟨cs, b1, o1⟩ := x
    simp only
    cases finish F ops cs b1 with
    | err => rfl
    | div => rfl
    | ok y => obtain ⟨b2, o2⟩ := y; rfl

/-! ### what a link yields and does to the buffers, as pure functions of its actions -/

def contentF (b : BufF) : Content → List MEv
  | .buf id => b id
  | c => content [] c

/-- the items the actions yield, injections expanded with the buffers `b` -/
def flat (b : BufF) : List Act → MStream
  | [] => []
  | .out x :: as => x :: flat b as
  | .inj c :: as => inj (contentF b c) ++ flat b as
  | _ :: as => flat b as

theorem flat_congr {w r : List Nat} {b1 b : BufF} : ∀ {acts : List Act}, ActsIn w r acts →
    (∀ i ∈ r, b1 i = b i) → flat b1 acts = flat b acts
  | [], _, _ => rfl
  | a :: as, ha, h => by
    have ih := flat_congr (acts := as) ha.tail h
    cases a with
    | out x => simp only [flat, ih]
    | reset id => simp only [flat, ih]
    | app id x => simp only [flat, ih]
    | inj c =>
      cases c with
      | buf id =>
        have : b1 id = b id := h id (ha.head.2 id (by simp [Act.rd]))
        simp only [flat, contentF, this, ih]
      | str s => simp only [flat, contentF, ih]
      | evs s => simp only [flat, contentF, ih]

theorem effs_congr {w r : List Nat} : ∀ {acts : List Act} {b1 b : BufF}, ActsIn w r acts →
    (∀ i ∈ w, b1 i = b i) → ∀ i ∈ w, effs acts b1 i = effs acts b i
  | [], b1, b, _, h => h
  | a :: as, b1, b, ha, h => by
    cases a with
    | out x => exact effs_congr (acts := as) ha.tail h
    | inj c => exact effs_congr (acts := as) ha.tail h
    | reset id =>
      simp only [effs]
      refine effs_congr (acts := as) ha.tail (fun i hi => ?_)
      simp only [BufF.set]; split
      · rfl
      · exact h i hi
    | app id x =>
      simp only [effs]
      have hid : id ∈ w := ha.head.1 id (by simp [Act.wr])
      refine effs_congr (acts := as) ha.tail (fun i hi => ?_)
      simp only [BufF.set]; split
      · rw [h id hid]
      · exact h i hi

/-- the effects touch only what the actions write -/
theorem effs_out {w r : List Nat} : ∀ {acts : List Act} {b : BufF}, ActsIn w r acts →
    ∀ i, i ∉ w → effs acts b i = b i
  | [], b, _, i, _ => rfl
  | a :: as, b, ha, i, hi => by
    cases a with
    | out x => exact effs_out (acts := as) ha.tail i hi
    | inj c => exact effs_out (acts := as) ha.tail i hi
    | reset id =>
      simp only [effs]
      rw [effs_out (acts := as) ha.tail i hi]
      have : i ≠ id := by intro hc; subst hc; exact hi (ha.head.1 i (by simp [Act.wr]))
      simp [BufF.set, this]
    | app id x =>
      simp only [effs]
      rw [effs_out (acts := as) ha.tail i hi]
      have : i ≠ id := by intro hc; subst hc; exact hi (ha.head.1 i (by simp [Act.wr]))
      simp [BufF.set, this]

theorem effs_append : ∀ (a1 a2 : List Act) (b : BufF), effs (a1 ++ a2) b = effs a2 (effs a1 b)
  | [], a2, b => rfl
  | a :: a1, a2, b => by
    cases a <;> simp only [List.cons_append, effs] <;> exact effs_append a1 a2 _

theorem flat_append (b : BufF) : ∀ (a1 a2 : List Act), flat b (a1 ++ a2) = flat b a1 ++ flat b a2
  | [], a2 => rfl
  | a :: a1, a2 => by
    cases a <;> simp only [List.cons_append, flat, flat_append b a1 a2, List.append_assoc]

/-! ### the commutation lemma -/

def inW (W : List Nat) : Nat → Bool := fun i => decide (i ∈ W)

theorem seqR_ok_right (r : R) : seqR r (fun cs b => .ok (cs, b, [])) = r := by
  cases r with
  | err => rfl
  | div => rfl
  | ok x => obtain ⟨cs, b, o⟩ := x; simp [seqR]

theorem pushList_single (push : List Ctl → BufF → MItem → R) (x : MItem) (cs : List Ctl) (b : BufF) :
    pushList push [x] cs b = push cs b x := by
  simp only [pushList]
  exact seqR_ok_right _

/-- Running the actions of a link whose written buffers `W` the rest of the pipeline does not
    touch, and whose read buffers `Rd` the rest does not write: the same as pushing everything the
    actions yield (injections read from the initial buffers) and doing the buffer effects apart. -/
theorem execActs_commute (F : Nat) (ops : List Op) (W Rd : List Nat)
    (hW : ∀ i ∈ W, i ∉ wrOps ops ∧ i ∉ rdOps ops) (hR : ∀ i ∈ Rd, i ∉ wrOps ops) (hWR : ∀ i ∈ W, i ∉ Rd) :
    ∀ (acts : List Act) cs b, ActsIn W Rd acts →
    execActs F (pushItem F ops) acts cs b =
      mapB (mergeP (inW W) (effs acts b)) (pushList (pushItem F ops) (flat b acts) cs b) := by
  have hp : Respects (pushItem F ops) (inW W) (wrOps ops) :=
    pushItem_respects F ops (inW W) (fun i hi => hW i (by simpa [inW] using hi))
  have hp1 : ∀ id ∈ W, Respects (pushItem F ops) (fun i => i == id) (wrOps ops) := fun id hid =>
    pushItem_respects F ops _ (fun i hi => by
      have : i = id := by simpa using hi
      subst this; exact hW i hid)
  -- a list pushed first, then the remaining actions
  have QL : ∀ (l : List MItem) (as : List Act) cs b, ActsIn W Rd as →
      (∀ cs b, execActs F (pushItem F ops) as cs b =
        mapB (mergeP (inW W) (effs as b)) (pushList (pushItem F ops) (flat b as) cs b)) →
      seqR (pushList (pushItem F ops) l cs b) (execActs F (pushItem F ops) as) =
        mapB (mergeP (inW W) (effs as b)) (pushList (pushItem F ops) (l ++ flat b as) cs b) := by
    intro l as cs b has ih
    rw [pushList_append]
    cases hl : pushList (pushItem F ops) l cs b with
    | err => rfl
    | div => rfl
    | ok x =>
      obtain ⟨cs1, b1, o1⟩ := x
      have hst := pushList_stable hp l cs b cs1 b1 o1 hl
      have hfl : flat b1 as = flat b as := flat_congr has (fun i hi => hst i (hR i hi))
      have hef : mergeP (inW W) (effs as b1) = mergeP (inW W) (effs as b) := by
        funext bb
        exact mergeP_congr _ _ _ _ (fun i hi => by
          have hiW : i ∈ W := by simpa [inW] using hi
          exact effs_congr has (fun j hj => hst j (hW j hj).1) i hiW)
      simp only [seqR, ih cs1 b1, hfl, hef]
      cases pushList (pushItem F ops) (flat b as) cs1 b1 with
      | err => rfl
      | div => rfl
      | ok y => obtain ⟨cs2, b2, o2⟩ := y; rfl
  intro acts
  induction acts with
  | nil =>
    intro cs b _
    simp only [execActs, flat, pushList, effs, mapB, mergeP_self]
  | cons a as ih =>
    intro cs b ha
    have ih' := fun cs b => ih cs b ha.tail
    cases a with
    | out x =>
      simp only [execActs, flat, effs]
      rw [← pushList_single (pushItem F ops) x cs b]
      exact QL [x] as cs b ha.tail ih'
    | inj c =>
      cases c with
      | buf id =>
        have hid : id ∈ Rd := ha.head.2 id (by simp [Act.rd])
        simp only [execActs, flat, effs, contentF]
        rw [injLoop_const hp id (hR id hid) _ 0 cs b (by omega)]
        simp only [List.drop_zero]
        exact QL _ as cs b ha.tail ih'
      | str s =>
        simp only [execActs, flat, effs, contentF]
        exact QL _ as cs b ha.tail ih'
      | evs s =>
        simp only [execActs, flat, effs, contentF]
        exact QL _ as cs b ha.tail ih'
    | reset id =>
      have hid : id ∈ W := ha.head.1 id (by simp [Act.wr])
      simp only [execActs, flat, effs]
      rw [ih' cs (b.set id [])]
      have hfl : flat (b.set id []) as = flat b as := flat_congr ha.tail (fun i hi => by
        have : i ≠ id := by intro hc; subst hc; exact hWR i hid hi
        simp [BufF.set, this])
      rw [hfl, set_eq_mergeP b id [], pushList_frame (hp1 id hid), mapB_mapB]
      apply mapB_congr
      intro bb
      funext i
      simp only [mergeP, inW]
      by_cases hi : i ∈ W
      · simp [hi]
      · have : i ≠ id := by intro hc; subst hc; exact hi hid
        simp [hi, this]
    | app id x =>
      have hid : id ∈ W := ha.head.1 id (by simp [Act.wr])
      simp only [execActs, flat, effs]
      rw [ih' cs (b.set id (b id ++ [x]))]
      have hfl : flat (b.set id (b id ++ [x])) as = flat b as := flat_congr ha.tail (fun i hi => by
        have : i ≠ id := by intro hc; subst hc; exact hWR i hid hi
        simp [BufF.set, this])
      rw [hfl, set_eq_mergeP b id (b id ++ [x]), pushList_frame (hp1 id hid), mapB_mapB]
      apply mapB_congr
      intro bb
      funext i
      simp only [mergeP, inW]
      by_cases hi : i ∈ W
      · simp [hi]
      · have : i ≠ id := by intro hc; subst hc; exact hi hid
        simp [hi, this]

end Genshi.Tf

/-
  C13 — character level layout.  (1) The writer model of `ASTCodeGenerator` (`genStmtW`: `_new_line`,
  `_write`, `_change_indent` in the order of the visitors) produces exactly the physical lines
  `genStmtC`, rendered as `4 * depth` blanks + text + newline.  (2) The line-structure reader `retok`
  (CPython's indentation stack) reads those characters back as the non-blank lines with
  depth = the generator's indentation level, for every nesting depth.
-/
import Genshi.Model.PyLayout
set_option linter.unusedSimpArgs false
namespace Genshi.Py
open Genshi.Gen

/-! ### the writer and the lines it has started -/

theorem W.flushed_start (w : W) (l : PLine) : (w.start l).flushed = w.flushed ++ l.render ++ ['\n'] := rfl

theorem W.flushed_push (ls : List PLine) : ∀ (w : W), (w.push ls).flushed = w.flushed ++ renderT ls := by
  induction ls with
  | nil => intro w; simp [W.push, renderT]
  | cons l r ih => intro w; simp [W.push, renderT, ih, W.flushed_start]

theorem W.push_append (a b : List PLine) : ∀ (w : W), w.push (a ++ b) = (w.push a).push b := by
  induction a with
  | nil => intro w; rfl
  | cons l r ih => intro w; simp [W.push, ih]

theorem W.indent_push (ls : List PLine) : ∀ (w : W), (w.push ls).indent = w.indent := by
  induction ls with
  | nil => intro w; rfl
  | cons l r ih => intro w; simp [W.push, ih, W.start]

theorem W.newLine_eq (w : W) : w.newLine = w.start ⟨w.indent, []⟩ := by
  simp [W.newLine, W.start, PLine.render]

theorem W.write_start (w : W) (i : Nat) (t s : List Char) : (w.start ⟨i, t⟩).write s = w.start ⟨i, t ++ s⟩ := by
  unfold W.write
  split
  · rename_i h
    rw [List.isEmpty_iff.mp h, List.append_nil]
  · simp [W.start, PLine.render]

theorem W.write_push (w : W) (ls : List PLine) (i : Nat) (t s : List Char) :
    (w.push (ls ++ [⟨i, t⟩])).write s = w.push (ls ++ [⟨i, t ++ s⟩]) := by
  rw [W.push_append, W.push_append]
  exact W.write_start _ i t s

theorem W.write_push1 (w : W) (i : Nat) (t s : List Char) :
    (w.push [⟨i, t⟩]).write s = w.push [⟨i, t ++ s⟩] := W.write_push w [] i t s

theorem W.newLine_push (w : W) : w.newLine = w.push [⟨w.indent, []⟩] := by rw [W.newLine_eq]; rfl

theorem W.newLine_after (w : W) (ls : List PLine) : (w.push ls).newLine = w.push (ls ++ [⟨w.indent, []⟩]) := by
  rw [W.newLine_push, W.indent_push, ← W.push_append]

theorem W.flushed_indentBy (w : W) : w.indentBy.flushed = w.flushed := rfl
theorem W.flushed_dedentBy (w : W) : w.dedentBy.flushed = w.flushed := rfl

theorem W.indentBy_push (ls : List PLine) : ∀ (w : W), (w.push ls).indentBy = w.indentBy.push ls := by
  induction ls with
  | nil => intro w; rfl
  | cons l r ih => intro w; simp only [W.push, ih]; rfl

theorem W.dedentBy_push (ls : List PLine) : ∀ (w : W), (w.push ls).dedentBy = w.dedentBy.push ls := by
  induction ls with
  | nil => intro w; rfl
  | cons l r ih => intro w; simp only [W.push, ih]; rfl

theorem W.dedent_indent (w : W) : w.indentBy.dedentBy = w := by
  cases w; simp [W.indentBy, W.dedentBy]


theorem W.push_nil (w : W) : w.push [] = w := rfl

/-- a block: the header lines are open, the body is visited one level deeper, the level is restored -/
theorem blockW (b : List PyStmt) (ih : ∀ w', genBodyW b w' = w'.push (genBodyC w'.indent b)) (w : W) (L : List PLine) :
    (genBodyW b (w.push L).indentBy).dedentBy = w.push (L ++ genBodyC (w.indent + 1) b) := by
  rw [W.indentBy_push, ih, W.indent_push, ← W.push_append, W.dedentBy_push, W.dedent_indent]
  rfl

theorem decoW_eq (decos : List PyExpr) : ∀ (w : W) (L : List PLine),
    decoW decos (w.push L) = w.push (L ++ decos.map (fun d => (⟨w.indent, '@' :: genC d⟩ : PLine))) := by
  induction decos with
  | nil => intro w L; simp [decoW]
  | cons d r ih =>
    intro w L
    have := ih w (L ++ [⟨w.indent, '@' :: genC d⟩])
    simp only [decoW, List.foldl_cons] at this ⊢
    rw [W.newLine_after, W.write_push, W.write_push]
    simpa using this

mutual
theorem genStmtW_eq : ∀ (s : PyStmt) (w : W), genStmtW s w = w.push (genStmtC w.indent s)
  | .expr e, w => by simp only [genStmtW, genStmtC, W.newLine_push, W.write_push1, List.nil_append]
  | .assign ts v, w => by simp only [genStmtW, genStmtC, W.newLine_push, W.write_push1, List.nil_append]
  | .augAssign t op v, w => by simp only [genStmtW, genStmtC, W.newLine_push, W.write_push1, List.nil_append]
  | .return_ v, w => by simp only [genStmtW, genStmtC, W.newLine_push, W.write_push1, List.nil_append]
  | .delete ts, w => by simp only [genStmtW, genStmtC, W.newLine_push, W.write_push1, List.nil_append]
  | .pass_, w => by simp only [genStmtW, genStmtC, W.newLine_push, W.write_push1, List.nil_append]
  | .break_, w => by simp only [genStmtW, genStmtC, W.newLine_push, W.write_push1, List.nil_append]
  | .continue_, w => by simp only [genStmtW, genStmtC, W.newLine_push, W.write_push1, List.nil_append]
  | .assert_ t m, w => by simp only [genStmtW, genStmtC, W.newLine_push, W.write_push1, List.nil_append]
  | .raise_ e c, w => by
      cases e <;> simp only [genStmtW, genStmtC, W.newLine_push, W.write_push1, List.nil_append]
  | .global_ ns, w => by simp only [genStmtW, genStmtC, W.newLine_push, W.write_push1, List.nil_append]
  | .import_ ns, w => by simp only [genStmtW, genStmtC, W.newLine_push, W.write_push1, List.nil_append]
  | .importFrom m ns lvl, w => by simp only [genStmtW, genStmtC, W.newLine_push, W.write_push1, List.nil_append]
  | .if_ t b o, w => by
      simp only [genStmtW, genStmtC, W.newLine_push, W.write_push1, List.nil_append]
      rw [blockW b (genBodyW_eq b), genElseW_eq o, W.indent_push, ← W.push_append]
      simp
  | .while_ t b o, w => by
      simp only [genStmtW, genStmtC, W.newLine_push, W.write_push1, List.nil_append]
      rw [blockW b (genBodyW_eq b), genElseW_eq o, W.indent_push, ← W.push_append]
      simp
  | .for_ t it b o, w => by
      simp only [genStmtW, genStmtC, W.newLine_push, W.write_push1, List.nil_append]
      rw [blockW b (genBodyW_eq b), genElseW_eq o, W.indent_push, ← W.push_append]
      simp
  | .with_ items b, w => by
      simp only [genStmtW, genStmtC, W.newLine_push, W.write_push1, List.nil_append]
      rw [blockW b (genBodyW_eq b)]
      simp
  | .try_ b hs o f, w => by
      simp only [genStmtW, genStmtC, W.newLine_push, W.write_push1, List.nil_append]
      rw [blockW b (genBodyW_eq b), genBodyW_eq hs, W.indent_push, ← W.push_append]
      cases o with
      | nil =>
        cases f with
        | nil => simp only [W.newLine_after, W.indent_push, ← W.push_append]; simp
        | cons f1 fr =>
          simp only [W.newLine_after, W.write_push, List.nil_append]
          rw [blockW _ (genBodyW_eq (f1 :: fr))]
          simp only [W.indent_push, ← W.push_append]; simp
      | cons o1 orr =>
        simp only [W.newLine_after, W.write_push, List.nil_append]
        rw [blockW _ (genBodyW_eq (o1 :: orr))]
        cases f with
        | nil => simp only [W.indent_push, ← W.push_append]; simp
        | cons f1 fr =>
          simp only [W.newLine_after, W.write_push, List.nil_append]
          rw [blockW _ (genBodyW_eq (f1 :: fr))]
          simp only [W.indent_push, ← W.push_append]; simp
  | .handler t n b, w => by
      simp only [genStmtW, genStmtC, W.newLine_push, W.write_push1, List.nil_append]
      rw [blockW b (genBodyW_eq b)]
      simp
  | .functionDef name po ar va ko ka body decos ret tp, w => by
      simp only [genStmtW, genStmtC]
      have := decoW_eq decos w []
      rw [W.push_nil] at this
      rw [this]
      simp only [W.newLine_after, W.write_push, List.nil_append]
      rw [blockW body (genBodyW_eq body)]
      simp
  | .classDef name bases kws body decos tp, w => by
      simp only [genStmtW, genStmtC]
      have := decoW_eq decos w []
      rw [W.push_nil] at this
      rw [this]
      simp only [W.newLine_after, W.write_push, List.nil_append]
      rw [blockW body (genBodyW_eq body)]
      simp
  | .unsupported _, w => by simp [genStmtW, genStmtC, W.push]
theorem genBodyW_eq : ∀ (ss : List PyStmt) (w : W), genBodyW ss w = w.push (genBodyC w.indent ss)
  | [], w => by simp [genBodyW, genBodyC, W.push]
  | s :: ss, w => by
      simp only [genBodyW, genBodyC]
      rw [genStmtW_eq s w, genBodyW_eq ss, W.indent_push, ← W.push_append]
theorem genElseW_eq : ∀ (ss : List PyStmt) (w : W), genElseW ss w = w.push (genElseC w.indent ss)
  | [], w => by simp [genElseW, genElseC, W.push]
  | s :: ss, w => by
      simp only [genElseW, genElseC, W.newLine_push, W.write_push1, List.nil_append]
      rw [W.indentBy_push, genStmtW_eq s, W.indent_push, ← W.push_append, genBodyW_eq ss, W.indent_push, ← W.push_append,
        W.dedentBy_push, W.dedent_indent]
      simp [W.indentBy]
end

/-! ### the code string -/

theorem renderT_append (a b : List PLine) : renderT (a ++ b) = renderT a ++ renderT b := by
  induction a with
  | nil => rfl
  | cons l r ih => simp [renderT, ih]

/-- `__init__` drops a last line that is whitespace only -/
def trimLast (ls : List PLine) : List PLine :=
  match ls.getLast? with
  | some l => if l.render.all isPySpace then ls.dropLast else ls
  | none => ls

theorem finish_push (ls : List PLine) (h : ls ≠ []) : (W.init.push ls).finish = some (renderT (trimLast ls)) := by
  obtain ⟨ini, l, rfl⟩ : ∃ ini l, ls = ini ++ [l] := ⟨ls.dropLast, ls.getLast h, (List.dropLast_concat_getLast h).symm⟩
  rw [W.push_append]
  have hf : (W.init.push ini).flushed = renderT ini := by rw [W.flushed_push]; rfl
  simp only [W.push, W.start, W.finish, hf, trimLast, List.getLast?_append, List.getLast?_singleton, Option.some_or,
    List.dropLast_concat]
  split
  · rfl
  · simp [renderT_append, renderT]

/-- `ASTCodeGenerator(Module(body)).code` is the rendering of the physical lines -/
theorem codeS_lines (body : List PyStmt) (hok : genOkBody body = true) (hne : genBodyC 0 body ≠ []) :
    codeS body = some (renderT (trimLast (genBodyC 0 body))) := by
  simp only [codeS, hok, if_true]
  rw [genBodyW_eq]
  exact finish_push _ hne

/-! ### reading the line structure back -/

def stkBelow : Nat → List Nat
  | 0 => []
  | d + 1 => 4 * d :: stkBelow d

/-- the indentation stack of the tokenizer at depth `d`: the columns `4d, …, 4, 0` -/
def stk (d : Nat) : List Nat := 4 * d :: stkBelow d

theorem stkBelow_length (d : Nat) : (stkBelow d).length = d := by
  induction d with
  | zero => rfl
  | succ d ih => simp [stkBelow, ih]

theorem dedentTo_stk (i : Nat) : ∀ (d : Nat), i < d → dedentTo (4 * i) (stkBelow d) = some (stk i) := by
  intro d
  induction d with
  | zero => intro h; omega
  | succ d ih =>
    intro h
    simp only [stkBelow, dedentTo]
    by_cases he : i = d
    · subst he; simp [stk]
    · have : i < d := by omega
      have h1 : ¬ (4 * i = 4 * d) := by omega
      have h2 : 4 * i < 4 * d := by omega
      simp [h1, h2, ih this]

def okFrom : Nat → List Nat → Bool
  | _, [] => true
  | d, i :: r => decide (i ≤ d + 1) && okFrom i r

def okHead (ind : Nat) : List Nat → Bool
  | [] => true
  | i :: r => decide (i ≤ ind) && okFrom i r

/-- the indentation depths of the non-blank lines -/
def nbI (ls : List PLine) : List Nat := (ls.filter (fun l => !l.blank)).map (·.indent)

/-- a line text as the visitors write it: no newline inside, and it does not start with whitespace -/
def LineOK (l : PLine) : Prop := '\n' ∉ l.text ∧ ∀ c r, l.text = c :: r → isPySpace c = false

theorem countSp_spaces (n : Nat) (t : List Char) (h : ∀ c r, t = c :: r → c ≠ ' ') : countSp (spaces n ++ t) = n := by
  induction n with
  | zero =>
    simp only [spaces, List.replicate_zero, List.nil_append]
    cases t with
    | nil => rfl
    | cons c r =>
      have := h c r rfl
      unfold countSp
      split
      · rename_i heq; cases heq; exact absurd rfl this
      · rfl
  | succ n ih => simpa [spaces, List.replicate_succ, countSp] using ih

theorem drop_spaces (n : Nat) (t : List Char) : (spaces n ++ t).drop n = t := by
  have : (spaces n).length = n := by simp [spaces]
  rw [List.drop_append_of_le_length (by omega), List.drop_of_length_le (by omega)]
  rfl

theorem notSpace_of_ok {c : Char} (h : isPySpace c = false) : c ≠ ' ' := by
  rintro rfl; simp [isPySpace] at h

theorem retokGo_lines : ∀ (ls : List PLine) (d : Nat), (∀ l ∈ ls, LineOK l) → okFrom d (nbI ls) = true →
    retokGo (stk d) (ls.map PLine.render) = some ((ls.filter (fun l => !l.blank)).map fun l => (l.indent, l.text)) := by
  intro ls
  induction ls with
  | nil => intro d _ _; rfl
  | cons l ls ih =>
    intro d hl hok
    obtain ⟨i, t⟩ := l
    have hlo := hl ⟨i, t⟩ (by simp)
    have hls : ∀ l ∈ ls, LineOK l := fun x hx => hl x (by simp [hx])
    have hsp : ∀ c r, t = c :: r → c ≠ ' ' := fun c r h => notSpace_of_ok (hlo.2 c r h)
    simp only [List.map_cons, retokGo, PLine.render, countSp_spaces (4 * i) t hsp, drop_spaces]
    cases t with
    | nil =>
      simp only [List.isEmpty_nil, if_true]
      have : nbI (⟨i, []⟩ :: ls) = nbI ls := by simp [nbI, PLine.blank]
      rw [this] at hok
      simpa [PLine.blank] using ih d hls hok
    | cons c r =>
      have hnb : nbI (⟨i, c :: r⟩ :: ls) = i :: nbI ls := by simp [nbI, PLine.blank]
      rw [hnb] at hok
      simp only [okFrom, Bool.and_eq_true, decide_eq_true_eq] at hok
      have hrec := ih i hls hok.2
      simp only [List.isEmpty_cons, Bool.false_eq_true, if_false, stk]
      have hflt : (List.filter (fun l => !l.blank) (⟨i, c :: r⟩ :: ls)) = ⟨i, c :: r⟩ :: List.filter (fun l => !l.blank) ls := by
        simp [PLine.blank]
      rw [hflt]
      by_cases h1 : i = d
      · subst h1
        simp only [if_true]
        show Option.map _ (retokGo (stk i) _) = _
        rw [hrec]
        simp [stkBelow_length]
      · by_cases h2 : d < i
        · have hi : i = d + 1 := by omega
          subst hi
          have c1 : ¬ (4 * (d + 1) = 4 * d) := by omega
          have c2 : 4 * d < 4 * (d + 1) := by omega
          simp only [c1, c2, if_false, if_true]
          show Option.map _ (retokGo (stk (d + 1)) _) = _
          rw [hrec]
          simp [stkBelow_length]
        · have hi : i < d := by omega
          have c1 : ¬ (4 * i = 4 * d) := by omega
          have c2 : ¬ (4 * d < 4 * i) := by omega
          simp only [c1, c2, if_false, dedentTo_stk i d hi]
          rw [hrec]
          simp [stk, stkBelow_length]

theorem splitNL_line (a : List Char) (ha : '\n' ∉ a) : ∀ (cur rest : List Char),
    splitNL cur (a ++ '\n' :: rest) = (cur.reverse ++ a) :: splitNL [] rest := by
  induction a with
  | nil => intro cur rest; simp [splitNL]
  | cons c r ih =>
    intro cur rest
    have hc : c ≠ '\n' := fun h => ha (by simp [h])
    have hr : '\n' ∉ r := fun h => ha (by simp [h])
    simp [splitNL, hc, ih hr]

theorem splitNL_renderT (ls : List PLine) (h : ∀ l ∈ ls, '\n' ∉ l.text) : splitNL [] (renderT ls) = ls.map PLine.render := by
  induction ls with
  | nil => rfl
  | cons l r ih =>
    have hl : '\n' ∉ l.render := by
      have := h l (by simp)
      simp [PLine.render, spaces, this]
    simp only [renderT, List.map_cons]
    rw [splitNL_line _ hl, ih (fun x hx => h x (by simp [hx]))]
    rfl

theorem okFrom_of_okHead {ind : Nat} {I : List Nat} (h : okHead ind I = true) : okFrom ind I = true := by
  cases I with
  | nil => rfl
  | cons i r =>
    simp only [okHead, okFrom, Bool.and_eq_true, decide_eq_true_eq] at h ⊢
    exact ⟨by omega, h.2⟩

/-- **reading the rendered lines back**: every non-blank line at the depth it was written with -/
theorem retok_renderT (ls : List PLine) (hl : ∀ l ∈ ls, LineOK l) (hok : okHead 0 (nbI ls) = true) :
    retok (renderT ls) = some ((ls.filter (fun l => !l.blank)).map fun l => (l.indent, l.text)) := by
  unfold retok
  rw [splitNL_renderT ls (fun l h => (hl l h).1)]
  exact retokGo_lines ls 0 hl (okFrom_of_okHead hok)

/-! ### the nesting of the lines the visitors write (no hypothesis on the tree) -/

/-- the lines of a block at level `ind`: nothing left of `ind`, the first non-blank line at `ind`, and
    from one non-blank line to the next the depth grows by at most one -/
def Nest (ind : Nat) (ls : List PLine) : Prop := (∀ l ∈ ls, ind ≤ l.indent) ∧ okHead ind (nbI ls) = true

theorem nbI_append (a b : List PLine) : nbI (a ++ b) = nbI a ++ nbI b := by simp [nbI]

theorem okFrom_append (ind : Nat) (b : List Nat) (hb : okHead ind b = true) : ∀ (a : List Nat) (d : Nat),
    okFrom d a = true → (∀ x ∈ a, ind ≤ x) → ind ≤ d → okFrom d (a ++ b) = true := by
  intro a
  induction a with
  | nil =>
    intro d _ _ hd
    cases b with
    | nil => rfl
    | cons j q =>
      simp only [okHead, Bool.and_eq_true, decide_eq_true_eq] at hb
      simp only [List.nil_append, okFrom, Bool.and_eq_true, decide_eq_true_eq]
      exact ⟨by omega, hb.2⟩
  | cons i r ih =>
    intro d h hall _
    simp only [okFrom, Bool.and_eq_true, decide_eq_true_eq] at h
    simp only [List.cons_append, okFrom, Bool.and_eq_true, decide_eq_true_eq]
    exact ⟨h.1, ih i h.2 (fun x hx => hall x (by simp [hx])) (hall i (by simp))⟩

theorem Nest.nil (ind : Nat) : Nest ind [] := ⟨by simp, rfl⟩

theorem mem_nbI {ls : List PLine} {x : Nat} (h : x ∈ nbI ls) : ∃ l ∈ ls, l.indent = x := by
  simp only [nbI, List.mem_map, List.mem_filter] at h
  obtain ⟨l, ⟨hl, _⟩, rfl⟩ := h
  exact ⟨l, hl, rfl⟩

theorem Nest.append {ind : Nat} {a b : List PLine} (ha : Nest ind a) (hb : Nest ind b) : Nest ind (a ++ b) := by
  refine ⟨?_, ?_⟩
  · intro l hl
    rcases List.mem_append.mp hl with h | h
    · exact ha.1 l h
    · exact hb.1 l h
  · rw [nbI_append]
    cases hA : nbI a with
    | nil => simpa using hb.2
    | cons i r =>
      have h2 := ha.2
      rw [hA] at h2
      simp only [okHead, Bool.and_eq_true, decide_eq_true_eq] at h2
      have hall : ∀ x ∈ i :: r, ind ≤ x := by
        intro x hx
        obtain ⟨l, hl, rfl⟩ := mem_nbI (hA ▸ hx)
        exact ha.1 l hl
      simp only [List.cons_append, okHead, Bool.and_eq_true, decide_eq_true_eq]
      exact ⟨h2.1, okFrom_append ind _ hb.2 r i h2.2 (fun x hx => hall x (by simp [hx])) (hall i (by simp))⟩

theorem Nest.single (ind : Nat) (t : List Char) : Nest ind [⟨ind, t⟩] := by
  refine ⟨by simp, ?_⟩
  cases t <;> simp [nbI, PLine.blank, okHead, okFrom]

/-- a header line at `ind` followed by a block one level deeper -/
theorem Nest.block {ind : Nat} {t : List Char} {b : List PLine} (ht : t ≠ []) (hb : Nest (ind + 1) b) :
    Nest ind (⟨ind, t⟩ :: b) := by
  refine ⟨?_, ?_⟩
  · intro l hl
    rcases List.mem_cons.mp hl with rfl | h
    · exact Nat.le_refl _
    · exact Nat.le_of_succ_le (hb.1 l h)
  · have : nbI (⟨ind, t⟩ :: b) = ind :: nbI b := by
      cases t with
      | nil => exact absurd rfl ht
      | cons c r => simp [nbI, PLine.blank]
    rw [this]
    simp only [okHead, Bool.and_eq_true, decide_eq_true_eq]
    refine ⟨Nat.le_refl _, ?_⟩
    have h2 := hb.2
    cases hB : nbI b with
    | nil => rfl
    | cons j q =>
      rw [hB] at h2
      simp only [okHead, Bool.and_eq_true, decide_eq_true_eq] at h2
      simp only [okFrom, Bool.and_eq_true, decide_eq_true_eq]
      exact h2

theorem Nest.decos (ind : Nat) (decos : List PyExpr) : Nest ind (decos.map fun d => (⟨ind, '@' :: genC d⟩ : PLine)) := by
  induction decos with
  | nil => exact Nest.nil ind
  | cons d r ih => exact Nest.append (a := [_]) (Nest.single ind _) ih

theorem Nest.cons {ind : Nat} {t : List Char} {b : List PLine} (hb : Nest ind b) : Nest ind (⟨ind, t⟩ :: b) :=
  Nest.append (a := [_]) (Nest.single ind t) hb

mutual
theorem nest_stmt : ∀ (s : PyStmt) (ind : Nat), Nest ind (genStmtC ind s)
  | .expr _, ind => Nest.single ind _
  | .assign _ _, ind => Nest.single ind _
  | .augAssign _ _ _, ind => Nest.single ind _
  | .return_ _, ind => Nest.single ind _
  | .delete _, ind => Nest.single ind _
  | .pass_, ind => Nest.single ind _
  | .break_, ind => Nest.single ind _
  | .continue_, ind => Nest.single ind _
  | .assert_ _ _, ind => Nest.single ind _
  | .raise_ e _, ind => by cases e <;> exact Nest.single ind _
  | .global_ _, ind => Nest.single ind _
  | .import_ _, ind => Nest.single ind _
  | .importFrom _ _ _, ind => Nest.single ind _
  | .if_ t b o, ind => by
      simp only [genStmtC]
      have := Nest.append (Nest.block (t := cs!"if " ++ genC t ++ [':']) (by simp) (nest_body b (ind + 1))) (nest_else o ind)
      simpa using this
  | .while_ t b o, ind => by
      simp only [genStmtC]
      have := Nest.append (Nest.block (t := cs!"while " ++ genC t ++ [':']) (by simp) (nest_body b (ind + 1))) (nest_else o ind)
      simpa using this
  | .for_ t it b o, ind => by
      simp only [genStmtC]
      have := Nest.append (Nest.block (t := cs!"for " ++ genC t ++ cs!" in " ++ genC it ++ [':']) (by simp)
        (nest_body b (ind + 1))) (nest_else o ind)
      simpa using this
  | .with_ items b, ind => by
      simp only [genStmtC]
      exact Nest.block (by simp) (nest_body b (ind + 1))
  | .try_ b hs o f, ind => by
      have h1 : Nest ind (⟨ind, cs!"try:"⟩ :: genBodyC (ind + 1) b) := Nest.block (by simp) (nest_body b (ind + 1))
      have h2 := nest_body hs ind
      cases o with
      | nil =>
        cases f with
        | nil =>
          have := Nest.append (Nest.append h1 h2) (Nest.single ind [])
          simpa [genStmtC] using this
        | cons f1 fr =>
          have := Nest.append (Nest.append (Nest.append h1 h2) (Nest.single ind []))
            (Nest.block (t := cs!"finally:") (by simp) (nest_body (f1 :: fr) (ind + 1)))
          simpa [genStmtC] using this
      | cons o1 orr =>
        have h3 : Nest ind (⟨ind, cs!"else:"⟩ :: genBodyC (ind + 1) (o1 :: orr)) :=
          Nest.block (by simp) (nest_body (o1 :: orr) (ind + 1))
        cases f with
        | nil =>
          have := Nest.append (Nest.append h1 h2) h3
          simpa [genStmtC] using this
        | cons f1 fr =>
          have := Nest.append (Nest.append (Nest.append h1 h2) h3)
            (Nest.block (t := cs!"finally:") (by simp) (nest_body (f1 :: fr) (ind + 1)))
          simpa [genStmtC] using this
  | .handler t n b, ind => by
      simp only [genStmtC]
      exact Nest.block (by simp) (nest_body b (ind + 1))
  | .functionDef name po ar va ko ka body decos ret tp, ind => by
      simp only [genStmtC]
      exact Nest.append (Nest.decos ind decos) (Nest.block (by simp) (nest_body body (ind + 1)))
  | .classDef name bases kws body decos tp, ind => by
      simp only [genStmtC]
      exact Nest.append (Nest.decos ind decos) (Nest.block (by simp) (nest_body body (ind + 1)))
  | .unsupported _, ind => Nest.nil ind
theorem nest_body : ∀ (ss : List PyStmt) (ind : Nat), Nest ind (genBodyC ind ss)
  | [], ind => Nest.nil ind
  | s :: ss, ind => by
      simp only [genBodyC]
      exact Nest.append (nest_stmt s ind) (nest_body ss ind)
theorem nest_else : ∀ (ss : List PyStmt) (ind : Nat), Nest ind (genElseC ind ss)
  | [], ind => Nest.nil ind
  | s :: ss, ind => by
      simp only [genElseC]
      exact Nest.block (by simp) (Nest.append (nest_stmt s (ind + 1)) (nest_body ss (ind + 1)))
end

/-! ### the whole way: write, then read the line structure back -/

theorem blank_of_allSpace {l : PLine} (hl : LineOK l) (h : l.render.all isPySpace = true) : l.blank = true := by
  obtain ⟨i, t⟩ := l
  cases t with
  | nil => rfl
  | cons c r =>
    have := hl.2 c r rfl
    simp [PLine.render, this] at h

theorem trimLast_props (ls : List PLine) (hl : ∀ l ∈ ls, LineOK l) :
    (∀ l ∈ trimLast ls, LineOK l) ∧ nbI (trimLast ls) = nbI ls ∧
      (trimLast ls).filter (fun l => !l.blank) = ls.filter (fun l => !l.blank) := by
  unfold trimLast
  cases hg : ls.getLast? with
  | none => exact ⟨hl, rfl, rfl⟩
  | some l =>
    simp only
    split
    · rename_i hsp
      have hne : ls ≠ [] := by rintro rfl; simp at hg
      have hlast : ls.getLast hne = l := by
        have := List.getLast?_eq_some_getLast hne
        rw [this] at hg
        exact Option.some.inj hg
      have hsplit : ls = ls.dropLast ++ [l] := by rw [← hlast]; exact (List.dropLast_concat_getLast hne).symm
      have hb : l.blank = true := blank_of_allSpace (hl l (by rw [hsplit]; simp)) hsp
      have hf : ls.filter (fun l => !l.blank) = ls.dropLast.filter (fun l => !l.blank) := by
        conv => lhs; rw [hsplit]
        simp [List.filter_append, hb]
      refine ⟨fun x hx => hl x ((List.dropLast_sublist ls).subset hx), ?_, hf.symm⟩
      simp only [nbI, hf]
    · exact ⟨hl, rfl, rfl⟩

/-- **Write, then read the line structure back.**  For every module body whose line texts contain no
    newline and do not start with whitespace, the string `ASTCodeGenerator` returns, split into physical
    lines and run through the tokenizer's indentation stack, gives exactly the non-blank lines the
    visitors wrote, each at the depth (`INDENT`s minus `DEDENT`s) of the generator's `self.indent` — for
    every nesting depth; the whitespace-only line `visit_Try` leaves behind changes nothing. -/
theorem retok_codeS (body : List PyStmt) (hok : genOkBody body = true) (hne : genBodyC 0 body ≠ [])
    (hl : ∀ l ∈ genBodyC 0 body, LineOK l) :
    ∃ code, codeS body = some code ∧
      retok code = some (((genBodyC 0 body).filter (fun l => !l.blank)).map fun l => (l.indent, l.text)) := by
  refine ⟨_, codeS_lines body hok hne, ?_⟩
  obtain ⟨p1, p2, p3⟩ := trimLast_props _ hl
  rw [retok_renderT _ p1 (by rw [p2]; exact (nest_body body 0).2), p3]

/-- `LineOK`, decidable -/
def lineOKb (l : PLine) : Bool :=
  !l.text.contains '\n' && (match l.text with | [] => true | c :: _ => !isPySpace c)

theorem lineOK_of_b {l : PLine} (h : lineOKb l = true) : LineOK l := by
  simp only [lineOKb, Bool.and_eq_true, Bool.not_eq_true', List.contains_eq_mem, decide_eq_false_iff_not] at h
  refine ⟨h.1, ?_⟩
  intro c r hc
  rw [hc] at h
  simpa using h.2

end Genshi.Py

/-
  C04: rendering does not depend on *how* a macro is stored — as a directive chain over the
  element's sub-stream (attribute form) or as nested SUB events (element form).
  `StRel`: states equal up to that representation of macros.  `param`: the same task renders
  the same output from related states and ends in related states; `nest_of_chain` /
  `chain_of_nest`: the two representations themselves render alike.  All three by one strong
  induction on the fuel.
-/
import Genshi.Lemmas.TmplEquiv
namespace Genshi.Tmpl

/-- control directives and `py:def` -/
def Dir.ctlDef : Dir → Bool
  | .def_ _ _ => true
  | d => d.ctl

/-- pairs of (directive tail, sub-stream) that render alike: what `attach` leaves of
    `py:replace` and of `py:content` + `py:strip` -/
inductive BasePair : List Dir × List CEv → List Dir × List CEv → Prop
  | repl (x : XExpr) (t : Name) (a : List (Name × Str)) :
      BasePair ([], [.xexpr x]) ([.strip none], [.start t a, .xexpr x, .end_ t])
  | unrepl (x : XExpr) (t : Name) (a : List (Name × Str)) :
      BasePair ([.strip none], [.start t a, .xexpr x, .end_ t]) ([], [.xexpr x])

theorem BasePair.symm {a b} (h : BasePair a b) : BasePair b a := by
  cases h with
  | repl x t a => exact BasePair.unrepl x t a
  | unrepl x t a => exact BasePair.repl x t a

inductive MRel : Macro → Macro → Prop
  | refl (m : Macro) : MRel m m
  | tail (ps : List Param) (pre : List Dir) (T1 T2 : List Dir × List CEv) :
      (∀ d ∈ pre, d.ctlDef = true) → BasePair T1 T2 → MRel ⟨ps, pre ++ T1.1, T1.2⟩ ⟨ps, pre ++ T2.1, T2.2⟩
  | nest (ps : List Param) (pre stay : List Dir) (body : List CEv) :
      (∀ d ∈ pre, d.ctlDef = true) → MRel ⟨ps, pre ++ stay, body⟩ ⟨ps, [], nestSubs pre stay body⟩
  | unnest (ps : List Param) (pre stay : List Dir) (body : List CEv) :
      (∀ d ∈ pre, d.ctlDef = true) → MRel ⟨ps, [], nestSubs pre stay body⟩ ⟨ps, pre ++ stay, body⟩

theorem MRel.symm {a b : Macro} (h : MRel a b) : MRel b a := by
  cases h with
  | refl => exact MRel.refl _
  | tail ps pre T1 T2 hp hb => exact MRel.tail ps pre T2 T1 hp hb.symm
  | nest ps pre stay body hp => exact MRel.unnest ps pre stay body hp
  | unnest ps pre stay body hp => exact MRel.nest ps pre stay body hp

theorem MRel.params {a b : Macro} (h : MRel a b) : a.params = b.params := by
  cases h <;> rfl

structure StRel (a b : St) : Prop where
  scopes : b.scopes = a.scopes
  data : b.data = a.data
  choice : b.choice = a.choice
  mlen : a.macros.length = b.macros.length
  macros : ∀ (i : Nat) (m m' : Macro), a.macros[i]? = some m → b.macros[i]? = some m' → MRel m m'

theorem StRel.refl (a : St) : StRel a a :=
  ⟨rfl, rfl, rfl, rfl, fun i m m' h1 h2 => by rw [h1] at h2; cases h2; exact MRel.refl _⟩

theorem StRel.symm {a b : St} (h : StRel a b) : StRel b a :=
  ⟨h.scopes.symm, h.data.symm, h.choice.symm, h.mlen.symm, fun i m m' h1 h2 => (h.macros i m' m h2 h1).symm⟩

theorem StRel.look {a b : St} (h : StRel a b) : b.look = a.look := by
  funext x; simp [St.look, h.scopes, h.data]

theorem StRel.push {a b : St} (h : StRel a b) (f : Frame) : StRel (a.push f) (b.push f) :=
  ⟨by simp [St.push, h.scopes], h.data, h.choice, h.mlen, h.macros⟩

theorem StRel.pop {a b : St} (h : StRel a b) : StRel a.pop b.pop :=
  ⟨by simp [St.pop, h.scopes], h.data, h.choice, h.mlen, h.macros⟩

theorem StRel.setTop {a b : St} (h : StRel a b) (x : Name) (v : Val) : StRel (a.setTop x v) (b.setTop x v) := by
  have hs := h.scopes
  unfold St.setTop
  rw [hs]
  cases hsc : a.scopes with
  | nil => exact h
  | cons f fs => exact ⟨rfl, h.data, h.choice, h.mlen, h.macros⟩

theorem StRel.setMatched {a b : St} (h : StRel a b) (c : Choice) (cs : List Choice) (m : Bool) :
    StRel (a.setMatched c cs m) (b.setMatched c cs m) :=
  ⟨h.scopes, h.data, rfl, h.mlen, h.macros⟩

theorem StRel.pushChoice {a b : St} (h : StRel a b) (c : Choice) :
    StRel { a with choice := c :: a.choice } { b with choice := c :: b.choice } :=
  ⟨h.scopes, h.data, by simp [h.choice], h.mlen, h.macros⟩

theorem StRel.popChoice {a b : St} (h : StRel a b) : StRel a.popChoice b.popChoice :=
  ⟨h.scopes, h.data, by simp [St.popChoice, h.choice], h.mlen, h.macros⟩

theorem StRel.define {a b : St} (h : StRel a b) (name : Name) {m m' : Macro} (hm : MRel m m') :
    StRel (a.define name m) (b.define name m') := by
  refine ⟨h.scopes, by simp [St.define, h.data, h.mlen], h.choice, by simp [St.define, h.mlen], ?_⟩
  intro i x x' h1 h2
  simp only [St.define] at h1 h2
  by_cases hi : i < a.macros.length
  · rw [List.getElem?_append_left hi] at h1
    rw [List.getElem?_append_left (by rw [← h.mlen]; exact hi)] at h2
    exact h.macros i x x' h1 h2
  · have hi' : a.macros.length ≤ i := Nat.le_of_not_lt hi
    rw [List.getElem?_append_right hi'] at h1
    rw [List.getElem?_append_right (by rw [← h.mlen]; exact hi')] at h2
    rw [h.mlen] at h1
    cases hk : i - b.macros.length with
    | zero =>
      simp only [hk, List.getElem?_cons_zero, Option.some.injEq] at h1 h2
      subst h1 h2; exact hm
    | succ k => simp [hk] at h1

theorem getMacro_rel {a b : St} (h : StRel a b) {v : Val} {m : Macro} (hm : getMacro a v = .ok m) :
    ∃ m', getMacro b v = .ok m' ∧ MRel m m' := by
  cases v with
  | «macro» i =>
    simp only [getMacro] at hm
    cases hmi : a.macros[i]? with
    | none => simp [hmi] at hm
    | some m0 =>
      simp only [hmi, Except.ok.injEq] at hm
      subst hm
      have hlt : i < b.macros.length := by rw [← h.mlen]; exact (List.getElem?_eq_some_iff.1 hmi).1
      exact ⟨b.macros[i], by simp [getMacro, List.getElem?_eq_getElem hlt],
        h.macros i m0 b.macros[i] hmi (List.getElem?_eq_getElem hlt)⟩
  | atom x => simp [getMacro] at hm
  | list xs => simp [getMacro] at hm
  | dict kv => simp [getMacro] at hm
  | undef => simp [getMacro] at hm

/-! construction rules not yet in `TmplEquiv` -/

theorem IOk.def_ (name params ds body) (st : St) :
    IOk (.apply (.def_ name params :: ds) body) st [] (st.define name ⟨params, ds, body⟩) := ⟨1, rfl⟩

theorem IOk.ev_pure {e : Expr} {st : St} {v : Val} {out : List Event}
    (hv : eval st.look e = .ok v) (ho : renderVal v = .ok out) : IOk (.ev (.xexpr (.pure e))) st out st :=
  ⟨1, by simp [run, hv, ho, bind, Except.bind, pure, Except.pure]⟩

theorem IOk.ev_call {f args} {st s1 : St} {o : List Event} {fv vs m scope}
    (hfv : eval st.look f = .ok fv)
    (hvs : evalArgs st.look args = .ok vs) (hm : getMacro st fv = .ok m)
    (hsc : bindParams st.look m.params vs = .ok scope) (h : IOk (.apply m.dirs m.body) (st.push scope) o s1) :
    IOk (.ev (.xexpr (.call f args))) st o s1.pop := by
  obtain ⟨k, h⟩ := h
  exact ⟨k + 1, by simp [run, hfv, hvs, hm, hsc, h, bind, Except.bind, mapSt]⟩

def PProp (n : Nat) : Prop :=
  ∀ (T : ITask) (st st' : St) (o : List Event) (s1 : St),
    run n T st = .ok (o, s1) → StRel st st' → ∃ s1', IOk T st' o s1' ∧ StRel s1 s1'

/-- chain form → nested form -/
def NProp (n : Nat) : Prop :=
  ∀ (pre stay : List Dir) (body : List CEv) (st st' : St) (o : List Event) (s1 : St),
    (∀ d ∈ pre, d.ctlDef = true) → run n (.apply (pre ++ stay) body) st = .ok (o, s1) → StRel st st' →
    ∃ s1', IOk (.flat (nestSubs pre stay body)) st' o s1' ∧ StRel s1 s1'

/-- nested form → chain form -/
def NProp' (n : Nat) : Prop :=
  ∀ (pre stay : List Dir) (body : List CEv) (st st' : St) (o : List Event) (s1 : St),
    (∀ d ∈ pre, d.ctlDef = true) → run n (.flat (nestSubs pre stay body)) st = .ok (o, s1) → StRel st st' →
    ∃ s1', IOk (.apply (pre ++ stay) body) st' o s1' ∧ StRel s1 s1'

/-- same control prefix, base-equivalent tails -/
def GProp (n : Nat) : Prop :=
  ∀ (pre : List Dir) (T1 T2 : List Dir × List CEv) (st st' : St) (o : List Event) (s1 : St),
    (∀ d ∈ pre, d.ctlDef = true) → BasePair T1 T2 → run n (.apply (pre ++ T1.1) T1.2) st = .ok (o, s1) →
    StRel st st' → ∃ s1', IOk (.apply (pre ++ T2.1) T2.2) st' o s1' ∧ StRel s1 s1'

def GLProp (n : Nat) : Prop :=
  ∀ (pre : List Dir) (T1 T2 : List Dir × List CEv) (v : Name) (items : List Val) (st st' : St)
    (o : List Event) (s1 : St), (∀ d ∈ pre, d.ctlDef = true) → BasePair T1 T2 →
    run n (.loop v items (pre ++ T1.1) T1.2) st = .ok (o, s1) →
    StRel st st' → ∃ s1', IOk (.loop v items (pre ++ T2.1) T2.2) st' o s1' ∧ StRel s1 s1'

def GBProp (n : Nat) : Prop :=
  ∀ (pre : List Dir) (T1 T2 : List Dir × List CEv) (bs : List (Name × Expr)) (st st' : St)
    (o : List Event) (s1 : St), (∀ d ∈ pre, d.ctlDef = true) → BasePair T1 T2 →
    run n (.binds bs (pre ++ T1.1) T1.2) st = .ok (o, s1) →
    StRel st st' → ∃ s1', IOk (.binds bs (pre ++ T2.1) T2.2) st' o s1' ∧ StRel s1 s1'

theorem run_pos' {m : Nat} {t : ITask} {st : St} {r : List Event × St} (h : run m t st = .ok r) :
    ∃ k, m = k + 1 := by
  cases m with
  | zero => simp [run] at h
  | succ k => exact ⟨k, rfl⟩

theorem param_step (n : Nat) (hP : ∀ k, k < n → PProp k) (hN : ∀ k, k < n → NProp k)
    (hN' : ∀ k, k < n → NProp' k) (hG : ∀ k, k < n → GProp k) : PProp n := by
  intro T st st' o s1 h hr
  obtain ⟨k, rfl⟩ := run_pos' h
  have hk : k < k + 1 := Nat.lt_succ_self k
  have hlook := hr.look
  cases T with
  | flat body =>
    cases body with
    | nil =>
      simp only [run, Except.ok.injEq, Prod.mk.injEq] at h
      obtain ⟨rfl, rfl⟩ := h
      exact ⟨st', IOk.flat_nil st', hr⟩
    | cons e rest =>
      simp only [run, seq_ok] at h
      obtain ⟨o1, t1, o2, h1, h2, rfl⟩ := h
      obtain ⟨t1', r1, g1⟩ := hP k hk _ _ _ _ _ h1 hr
      obtain ⟨s1', r2, g2⟩ := hP k hk _ _ _ _ _ h2 g1
      exact ⟨s1', IOk.flat_cons r1 r2, g2⟩
  | ev e =>
    cases e with
    | start t a =>
      simp only [run, Except.ok.injEq, Prod.mk.injEq] at h
      obtain ⟨rfl, rfl⟩ := h
      exact ⟨st', IOk.ev_start t a st', hr⟩
    | end_ t =>
      simp only [run, Except.ok.injEq, Prod.mk.injEq] at h
      obtain ⟨rfl, rfl⟩ := h
      exact ⟨st', IOk.ev_end t st', hr⟩
    | text s =>
      simp only [run, Except.ok.injEq, Prod.mk.injEq] at h
      obtain ⟨rfl, rfl⟩ := h
      exact ⟨st', IOk.ev_text s st', hr⟩
    | xexpr x =>
      cases x with
      | pure e0 =>
        simp only [run, bind_ok, pure, Except.pure, Except.ok.injEq, Prod.mk.injEq] at h
        obtain ⟨v, hv, out, hout, rfl, rfl⟩ := h
        exact ⟨st', IOk.ev_pure (by rw [hlook]; exact hv) hout, hr⟩
      | call f args =>
        simp only [run, bind_ok, mapSt_ok] at h
        obtain ⟨fv, hfv, vs, hvs, mc, hmc, scope, hsc, s2, h2, rfl⟩ := h
        obtain ⟨mc', hmc', hrel⟩ := getMacro_rel hr hmc
        have hpush := hr.push scope
        have hsc' : bindParams st'.look mc'.params vs = .ok scope := by rw [← hrel.params, hlook]; exact hsc
        have key : ∃ s2', IOk (.apply mc'.dirs mc'.body) (st'.push scope) o s2' ∧ StRel s2 s2' := by
          cases hrel with
          | refl => exact hP k hk _ _ _ _ _ h2 hpush
          | tail ps pre T1 T2 hp hb => exact hG k hk pre T1 T2 _ _ _ _ hp hb h2 hpush
          | nest ps pre stay body hp =>
            obtain ⟨s2', r, g⟩ := hN k hk pre stay body _ _ _ _ hp h2 hpush
            exact ⟨s2', IOk.apply_nil r, g⟩
          | unnest ps pre stay body hp =>
            obtain ⟨j, rfl⟩ := run_pos' h2
            simp only [run] at h2
            exact hN' j (by omega) pre stay body _ _ _ _ hp h2 hpush
        obtain ⟨s2', r, g⟩ := key
        exact ⟨s2'.pop, IOk.ev_call (by rw [hlook]; exact hfv) (by rw [hlook]; exact hvs) hmc' hsc' r, g.pop⟩
    | sub ds body =>
      simp only [run] at h
      obtain ⟨s1', r, g⟩ := hP k hk _ _ _ _ _ h hr
      exact ⟨s1', IOk.ev_sub r, g⟩
  | apply ds body =>
    cases ds with
    | nil =>
      simp only [run] at h
      obtain ⟨s1', r, g⟩ := hP k hk _ _ _ _ _ h hr
      exact ⟨s1', IOk.apply_nil r, g⟩
    | cons d ds =>
      cases d with
      | def_ name params =>
        simp only [run, Except.ok.injEq, Prod.mk.injEq] at h
        obtain ⟨rfl, rfl⟩ := h
        exact ⟨_, IOk.def_ name params ds body st', hr.define name (MRel.refl _)⟩
      | when e0 =>
        simp only [run] at h
        split at h
        · simp at h
        · rename_i c cs hc
          have hc' : st'.choice = c :: cs := by rw [hr.choice]; exact hc
          cases hm : c.matched with
          | true =>
            simp only [hm, if_true, Except.ok.injEq, Prod.mk.injEq] at h
            obtain ⟨rfl, rfl⟩ := h
            exact ⟨st', IOk.when_iff.2 ⟨c, cs, hc', Or.inl ⟨hm, rfl, rfl⟩⟩, hr⟩
          | false =>
            simp only [hm, Bool.false_eq_true, if_false] at h
            split at h
            · simp at h
            · simp only [bind_ok] at h
              obtain ⟨mm, hmm, h2⟩ := h
              rw [← hlook] at hmm
              cases mm with
              | true =>
                simp only [if_true] at h2
                obtain ⟨s1', r, g⟩ := hP k hk _ _ _ _ _ h2 (hr.setMatched c cs true)
                exact ⟨s1', IOk.when_iff.2 ⟨c, cs, hc', Or.inr ⟨hm, true, hmm, Or.inl ⟨rfl, r⟩⟩⟩, g⟩
              | false =>
                simp only [Bool.false_eq_true, if_false, pure, Except.pure, Except.ok.injEq, Prod.mk.injEq] at h2
                obtain ⟨rfl, rfl⟩ := h2
                exact ⟨_, IOk.when_iff.2 ⟨c, cs, hc', Or.inr ⟨hm, false, hmm, Or.inr ⟨rfl, rfl, rfl⟩⟩⟩,
                  hr.setMatched c cs false⟩
      | otherwise =>
        simp only [run] at h
        split at h
        · simp at h
        · rename_i c cs hc
          have hc' : st'.choice = c :: cs := by rw [hr.choice]; exact hc
          cases hm : c.matched with
          | true =>
            simp only [hm, if_true, Except.ok.injEq, Prod.mk.injEq] at h
            obtain ⟨rfl, rfl⟩ := h
            exact ⟨st', IOk.otherwise_iff.2 ⟨c, cs, hc', Or.inl ⟨hm, rfl, rfl⟩⟩, hr⟩
          | false =>
            simp only [hm, Bool.false_eq_true, if_false] at h
            obtain ⟨s1', r, g⟩ := hP k hk _ _ _ _ _ h (hr.setMatched c cs true)
            exact ⟨s1', IOk.otherwise_iff.2 ⟨c, cs, hc', Or.inr ⟨hm, r⟩⟩, g⟩
      | for_ v e0 =>
        simp only [run, bind_ok] at h
        obtain ⟨it, hit, items, hitems, h2⟩ := h
        rw [← hlook] at hit
        obtain ⟨s1', r, g⟩ := hP k hk _ _ _ _ _ h2 hr
        exact ⟨s1', IOk.for_iff.2 ⟨it, items, hit, hitems, r⟩, g⟩
      | if_ e0 =>
        simp only [run, bind_ok] at h
        obtain ⟨v, hv, h2⟩ := h
        rw [← hlook] at hv
        cases ht : v.truthy with
        | true =>
          simp only [ht, if_true] at h2
          obtain ⟨s1', r, g⟩ := hP k hk _ _ _ _ _ h2 hr
          exact ⟨s1', IOk.if_iff.2 ⟨v, hv, Or.inl ⟨ht, r⟩⟩, g⟩
        | false =>
          simp only [ht, Bool.false_eq_true, if_false, pure, Except.pure, Except.ok.injEq, Prod.mk.injEq] at h2
          obtain ⟨rfl, rfl⟩ := h2
          exact ⟨st', IOk.if_iff.2 ⟨v, hv, Or.inr ⟨ht, rfl, rfl⟩⟩, hr⟩
      | choose e0 =>
        simp only [run, bind_ok, mapSt_ok] at h
        obtain ⟨v, hv, s2, h2, rfl⟩ := h
        rw [← hlook] at hv
        obtain ⟨s2', r, g⟩ := hP k hk _ _ _ _ _ h2 (hr.pushChoice ⟨false, e0.isSome, v⟩)
        exact ⟨s2'.popChoice, IOk.choose_iff.2 ⟨v, s2', hv, r, rfl⟩, g.popChoice⟩
      | with_ bs =>
        simp only [run, mapSt_ok] at h
        obtain ⟨s2, h2, rfl⟩ := h
        obtain ⟨s2', r, g⟩ := hP k hk _ _ _ _ _ h2 (hr.push [])
        exact ⟨s2'.pop, IOk.with_iff.2 ⟨s2', r, rfl⟩, g.pop⟩
      | replace x => simp [run] at h
      | content x => simp [run] at h
      | attrs e0 =>
        cases ds with
        | nil =>
          simp only [run, bind_ok] at h
          obtain ⟨b, hb, h2⟩ := h
          rw [← hlook] at hb
          obtain ⟨s1', ⟨j, r⟩, g⟩ := hP k hk _ _ _ _ _ h2 hr
          exact ⟨s1', ⟨j + 1, by simp [run, hb, r, bind, Except.bind]⟩, g⟩
        | cons d2 ds2 =>
          cases d2 <;> cases ds2 <;> simp only [run] at h <;> try (simp at h; done)
          simp only [bind_ok] at h
          obtain ⟨b, hb, b', hb', h2⟩ := h
          rw [← hlook] at hb hb'
          obtain ⟨s1', ⟨j, r⟩, g⟩ := hP k hk _ _ _ _ _ h2 hr
          exact ⟨s1', ⟨j + 1, by simp [run, hb, hb', r, bind, Except.bind]⟩, g⟩
      | strip c =>
        cases ds with
        | nil =>
          simp only [run, bind_ok] at h
          obtain ⟨b, hb, h2⟩ := h
          rw [← hlook] at hb
          obtain ⟨s1', ⟨j, r⟩, g⟩ := hP k hk _ _ _ _ _ h2 hr
          exact ⟨s1', ⟨j + 1, by simp [run, hb, r, bind, Except.bind]⟩, g⟩
        | cons d2 ds2 => simp [run] at h
  | loop v items ds body =>
    cases items with
    | nil =>
      simp only [run, Except.ok.injEq, Prod.mk.injEq] at h
      obtain ⟨rfl, rfl⟩ := h
      exact ⟨st', IOk.loop_nil_iff.2 ⟨rfl, rfl⟩, hr⟩
    | cons item items =>
      simp only [run, seq_ok] at h
      obtain ⟨o1, t1, o2, h1, h2, rfl⟩ := h
      obtain ⟨t1', r1, g1⟩ := hP k hk _ _ _ _ _ h1 (hr.push [(v, item)])
      obtain ⟨s1', r2, g2⟩ := hP k hk _ _ _ _ _ h2 g1.pop
      exact ⟨s1', IOk.loop_cons_iff.2 ⟨o1, t1', o2, r1, r2, rfl⟩, g2⟩
  | binds bs ds body =>
    cases bs with
    | nil =>
      simp only [run] at h
      obtain ⟨s1', r, g⟩ := hP k hk _ _ _ _ _ h hr
      exact ⟨s1', IOk.binds_nil_iff.2 r, g⟩
    | cons p bs =>
      obtain ⟨x, e0⟩ := p
      simp only [run, bind_ok] at h
      obtain ⟨v, hv, h2⟩ := h
      rw [← hlook] at hv
      obtain ⟨s1', r, g⟩ := hP k hk _ _ _ _ _ h2 (hr.setTop x v)
      exact ⟨s1', IOk.binds_cons_iff.2 ⟨v, hv, r⟩, g⟩

def NLProp (n : Nat) : Prop :=
  ∀ (pre stay : List Dir) (body : List CEv) (v : Name) (items : List Val) (st st' : St) (o : List Event)
    (s1 : St), (∀ d ∈ pre, d.ctlDef = true) → run n (.loop v items (pre ++ stay) body) st = .ok (o, s1) →
    StRel st st' → ∃ s1', IOk (.loop v items [] (nestSubs pre stay body)) st' o s1' ∧ StRel s1 s1'

def NBProp (n : Nat) : Prop :=
  ∀ (pre stay : List Dir) (body : List CEv) (bs : List (Name × Expr)) (st st' : St) (o : List Event)
    (s1 : St), (∀ d ∈ pre, d.ctlDef = true) → run n (.binds bs (pre ++ stay) body) st = .ok (o, s1) →
    StRel st st' → ∃ s1', IOk (.binds bs [] (nestSubs pre stay body)) st' o s1' ∧ StRel s1 s1'

def NLProp' (n : Nat) : Prop :=
  ∀ (pre stay : List Dir) (body : List CEv) (v : Name) (items : List Val) (st st' : St) (o : List Event)
    (s1 : St), (∀ d ∈ pre, d.ctlDef = true) →
    run n (.loop v items [] (nestSubs pre stay body)) st = .ok (o, s1) →
    StRel st st' → ∃ s1', IOk (.loop v items (pre ++ stay) body) st' o s1' ∧ StRel s1 s1'

def NBProp' (n : Nat) : Prop :=
  ∀ (pre stay : List Dir) (body : List CEv) (bs : List (Name × Expr)) (st st' : St) (o : List Event)
    (s1 : St), (∀ d ∈ pre, d.ctlDef = true) →
    run n (.binds bs [] (nestSubs pre stay body)) st = .ok (o, s1) →
    StRel st st' → ∃ s1', IOk (.binds bs (pre ++ stay) body) st' o s1' ∧ StRel s1 s1'

theorem nest_step (n : Nat) (hPn : PProp n) (hN : ∀ k, k < n → NProp k) (hNL : ∀ k, k < n → NLProp k)
    (hNB : ∀ k, k < n → NBProp k) : NProp n := by
  intro pre stay body st st' o s1 hp h hr
  cases pre with
  | nil =>
    obtain ⟨s1', r, g⟩ := hPn _ _ _ _ _ (by simpa using h) hr
    exact ⟨s1', by simpa [nestSubs] using IOk.mkSub r, g⟩
  | cons d pre =>
    have hd := hp d (List.mem_cons_self ..)
    have hp' : ∀ x ∈ pre, x.ctlDef = true := fun x hx => hp x (List.mem_cons_of_mem _ hx)
    obtain ⟨k, rfl⟩ := run_pos' h
    have hk : k < k + 1 := Nat.lt_succ_self k
    have hlook := hr.look
    simp only [List.cons_append] at h
    simp only [nestSubs]
    -- it suffices to render `apply [d] X'` on the right
    suffices hsuff : ∃ s1', IOk (.apply [d] (nestSubs pre stay body)) st' o s1' ∧ StRel s1 s1' by
      obtain ⟨s1', r, g⟩ := hsuff
      exact ⟨s1', IOk.flat_single (IOk.ev_sub r), g⟩
    cases d with
    | def_ name params =>
      simp only [run, Except.ok.injEq, Prod.mk.injEq] at h
      obtain ⟨rfl, rfl⟩ := h
      exact ⟨_, IOk.def_ name params [] _ st', hr.define name (MRel.nest params pre stay body hp')⟩
    | when e0 =>
      simp only [run] at h
      split at h
      · simp at h
      · rename_i c cs hc
        have hc' : st'.choice = c :: cs := by rw [hr.choice]; exact hc
        cases hm : c.matched with
        | true =>
          simp only [hm, if_true, Except.ok.injEq, Prod.mk.injEq] at h
          obtain ⟨rfl, rfl⟩ := h
          exact ⟨st', IOk.when_iff.2 ⟨c, cs, hc', Or.inl ⟨hm, rfl, rfl⟩⟩, hr⟩
        | false =>
          simp only [hm, Bool.false_eq_true, if_false] at h
          split at h
          · simp at h
          · simp only [bind_ok] at h
            obtain ⟨mm, hmm, h2⟩ := h
            rw [← hlook] at hmm
            cases mm with
            | true =>
              simp only [if_true] at h2
              obtain ⟨s1', r, g⟩ := hN k hk pre stay body _ _ _ _ hp' h2 (hr.setMatched c cs true)
              exact ⟨s1', IOk.when_iff.2 ⟨c, cs, hc', Or.inr ⟨hm, true, hmm, Or.inl ⟨rfl, IOk.apply_nil r⟩⟩⟩, g⟩
            | false =>
              simp only [Bool.false_eq_true, if_false, pure, Except.pure, Except.ok.injEq, Prod.mk.injEq] at h2
              obtain ⟨rfl, rfl⟩ := h2
              exact ⟨_, IOk.when_iff.2 ⟨c, cs, hc', Or.inr ⟨hm, false, hmm, Or.inr ⟨rfl, rfl, rfl⟩⟩⟩,
                hr.setMatched c cs false⟩
    | otherwise =>
      simp only [run] at h
      split at h
      · simp at h
      · rename_i c cs hc
        have hc' : st'.choice = c :: cs := by rw [hr.choice]; exact hc
        cases hm : c.matched with
        | true =>
          simp only [hm, if_true, Except.ok.injEq, Prod.mk.injEq] at h
          obtain ⟨rfl, rfl⟩ := h
          exact ⟨st', IOk.otherwise_iff.2 ⟨c, cs, hc', Or.inl ⟨hm, rfl, rfl⟩⟩, hr⟩
        | false =>
          simp only [hm, Bool.false_eq_true, if_false] at h
          obtain ⟨s1', r, g⟩ := hN k hk pre stay body _ _ _ _ hp' h (hr.setMatched c cs true)
          exact ⟨s1', IOk.otherwise_iff.2 ⟨c, cs, hc', Or.inr ⟨hm, IOk.apply_nil r⟩⟩, g⟩
    | for_ v e0 =>
      simp only [run, bind_ok] at h
      obtain ⟨it, hit, items, hitems, h2⟩ := h
      rw [← hlook] at hit
      obtain ⟨s1', r, g⟩ := hNL k hk pre stay body v items _ _ _ _ hp' h2 hr
      exact ⟨s1', IOk.for_iff.2 ⟨it, items, hit, hitems, r⟩, g⟩
    | if_ e0 =>
      simp only [run, bind_ok] at h
      obtain ⟨v, hv, h2⟩ := h
      rw [← hlook] at hv
      cases ht : v.truthy with
      | true =>
        simp only [ht, if_true] at h2
        obtain ⟨s1', r, g⟩ := hN k hk pre stay body _ _ _ _ hp' h2 hr
        exact ⟨s1', IOk.if_iff.2 ⟨v, hv, Or.inl ⟨ht, IOk.apply_nil r⟩⟩, g⟩
      | false =>
        simp only [ht, Bool.false_eq_true, if_false, pure, Except.pure, Except.ok.injEq, Prod.mk.injEq] at h2
        obtain ⟨rfl, rfl⟩ := h2
        exact ⟨st', IOk.if_iff.2 ⟨v, hv, Or.inr ⟨ht, rfl, rfl⟩⟩, hr⟩
    | choose e0 =>
      simp only [run, bind_ok, mapSt_ok] at h
      obtain ⟨v, hv, s2, h2, rfl⟩ := h
      rw [← hlook] at hv
      obtain ⟨s2', r, g⟩ := hN k hk pre stay body _ _ _ _ hp' h2 (hr.pushChoice ⟨false, e0.isSome, v⟩)
      exact ⟨s2'.popChoice, IOk.choose_iff.2 ⟨v, s2', hv, IOk.apply_nil r, rfl⟩, g.popChoice⟩
    | with_ bs =>
      simp only [run, mapSt_ok] at h
      obtain ⟨s2, h2, rfl⟩ := h
      obtain ⟨s2', r, g⟩ := hNB k hk pre stay body bs _ _ _ _ hp' h2 (hr.push [])
      exact ⟨s2'.pop, IOk.with_iff.2 ⟨s2', r, rfl⟩, g.pop⟩
    | replace x => simp [Dir.ctlDef, Dir.ctl] at hd
    | content x => simp [Dir.ctlDef, Dir.ctl] at hd
    | attrs e0 => simp [Dir.ctlDef, Dir.ctl] at hd
    | strip c => simp [Dir.ctlDef, Dir.ctl] at hd

theorem nestL_step (n : Nat) (hN : ∀ k, k < n → NProp k) (hNL : ∀ k, k < n → NLProp k) : NLProp n := by
  intro pre stay body v items st st' o s1 hp h hr
  obtain ⟨k, rfl⟩ := run_pos' h
  have hk : k < k + 1 := Nat.lt_succ_self k
  cases items with
  | nil =>
    simp only [run, Except.ok.injEq, Prod.mk.injEq] at h
    obtain ⟨rfl, rfl⟩ := h
    exact ⟨st', IOk.loop_nil_iff.2 ⟨rfl, rfl⟩, hr⟩
  | cons item items =>
    simp only [run, seq_ok] at h
    obtain ⟨o1, t1, o2, h1, h2, rfl⟩ := h
    obtain ⟨t1', r1, g1⟩ := hN k hk pre stay body _ _ _ _ hp h1 (hr.push [(v, item)])
    obtain ⟨s1', r2, g2⟩ := hNL k hk pre stay body v items _ _ _ _ hp h2 g1.pop
    exact ⟨s1', IOk.loop_cons_iff.2 ⟨o1, t1', o2, IOk.apply_nil r1, r2, rfl⟩, g2⟩

theorem nestB_step (n : Nat) (hN : ∀ k, k < n → NProp k) (hNB : ∀ k, k < n → NBProp k) : NBProp n := by
  intro pre stay body bs st st' o s1 hp h hr
  obtain ⟨k, rfl⟩ := run_pos' h
  have hk : k < k + 1 := Nat.lt_succ_self k
  cases bs with
  | nil =>
    simp only [run] at h
    obtain ⟨s1', r, g⟩ := hN k hk pre stay body _ _ _ _ hp h hr
    exact ⟨s1', IOk.binds_nil_iff.2 (IOk.apply_nil r), g⟩
  | cons p bs =>
    obtain ⟨x, e0⟩ := p
    simp only [run, bind_ok] at h
    obtain ⟨v, hv, h2⟩ := h
    rw [← hr.look] at hv
    obtain ⟨s1', r, g⟩ := hNB k hk pre stay body bs _ _ _ _ hp h2 (hr.setTop x v)
    exact ⟨s1', IOk.binds_cons_iff.2 ⟨v, hv, r⟩, g⟩

theorem flat_single_run {e : CEv} {m : Nat} {st s1 : St} {o : List Event}
    (h : run (m + 1) (.flat [e]) st = .ok (o, s1)) : run m (.ev e) st = .ok (o, s1) := by
  simp only [run, seq_ok] at h
  obtain ⟨o1, t1, o2, h1, h2, rfl⟩ := h
  obtain ⟨k, rfl⟩ := run_pos' h2
  simp only [run, Except.ok.injEq, Prod.mk.injEq] at h2
  obtain ⟨rfl, rfl⟩ := h2
  simpa using h1

/-- `apply [] X` two steps down is `flat X` -/
theorem apply_nil_run {X : List CEv} {m : Nat} {st s1 : St} {o : List Event}
    (h : run (m + 1) (.apply [] X) st = .ok (o, s1)) : run m (.flat X) st = .ok (o, s1) := by
  simpa only [run] using h

theorem unnest_step (n : Nat) (hP : ∀ k, k ≤ n → PProp k) (hN' : ∀ k, k < n → NProp' k)
    (hNL' : ∀ k, k < n → NLProp' k) (hNB' : ∀ k, k < n → NBProp' k) : NProp' n := by
  intro pre stay body st st' o s1 hp h hr
  cases pre with
  | nil =>
    simp only [nestSubs, mkSub] at h
    split at h
    · rename_i he
      have : stay = [] := by simpa using he
      subst this
      obtain ⟨s1', r, g⟩ := hP n (Nat.le_refl n) _ _ _ _ _ h hr
      exact ⟨s1', by simpa using IOk.apply_nil r, g⟩
    · obtain ⟨k, rfl⟩ := run_pos' h
      have h1 := flat_single_run h
      obtain ⟨j, rfl⟩ := run_pos' h1
      simp only [run] at h1
      obtain ⟨s1', r, g⟩ := hP j (by omega) _ _ _ _ _ h1 hr
      exact ⟨s1', by simpa using r, g⟩
  | cons d pre =>
    have hd := hp d (List.mem_cons_self ..)
    have hp' : ∀ x ∈ pre, x.ctlDef = true := fun x hx => hp x (List.mem_cons_of_mem _ hx)
    have hlook := hr.look
    simp only [nestSubs] at h
    obtain ⟨k, rfl⟩ := run_pos' h
    have h1 := flat_single_run h
    obtain ⟨j, rfl⟩ := run_pos' h1
    simp only [run] at h1
    -- h1 : run j (apply [d] X') st = ok (o, s1)
    obtain ⟨i, rfl⟩ := run_pos' h1
    simp only [List.cons_append]
    cases d with
    | def_ name params =>
      simp only [run, Except.ok.injEq, Prod.mk.injEq] at h1
      obtain ⟨rfl, rfl⟩ := h1
      exact ⟨_, IOk.def_ name params (pre ++ stay) body st', hr.define name (MRel.unnest params pre stay body hp')⟩
    | when e0 =>
      simp only [run] at h1
      split at h1
      · simp at h1
      · rename_i c cs hc
        have hc' : st'.choice = c :: cs := by rw [hr.choice]; exact hc
        cases hm : c.matched with
        | true =>
          simp only [hm, if_true, Except.ok.injEq, Prod.mk.injEq] at h1
          obtain ⟨rfl, rfl⟩ := h1
          exact ⟨st', IOk.when_iff.2 ⟨c, cs, hc', Or.inl ⟨hm, rfl, rfl⟩⟩, hr⟩
        | false =>
          simp only [hm, Bool.false_eq_true, if_false] at h1
          split at h1
          · simp at h1
          · simp only [bind_ok] at h1
            obtain ⟨mm, hmm, h2⟩ := h1
            rw [← hlook] at hmm
            cases mm with
            | true =>
              simp only [if_true] at h2
              obtain ⟨i2, rfl⟩ := run_pos' h2
              obtain ⟨s1', r, g⟩ := hN' i2 (by omega) pre stay body _ _ _ _ hp' (apply_nil_run h2)
                (hr.setMatched c cs true)
              exact ⟨s1', IOk.when_iff.2 ⟨c, cs, hc', Or.inr ⟨hm, true, hmm, Or.inl ⟨rfl, r⟩⟩⟩, g⟩
            | false =>
              simp only [Bool.false_eq_true, if_false, pure, Except.pure, Except.ok.injEq, Prod.mk.injEq] at h2
              obtain ⟨rfl, rfl⟩ := h2
              exact ⟨_, IOk.when_iff.2 ⟨c, cs, hc', Or.inr ⟨hm, false, hmm, Or.inr ⟨rfl, rfl, rfl⟩⟩⟩,
                hr.setMatched c cs false⟩
    | otherwise =>
      simp only [run] at h1
      split at h1
      · simp at h1
      · rename_i c cs hc
        have hc' : st'.choice = c :: cs := by rw [hr.choice]; exact hc
        cases hm : c.matched with
        | true =>
          simp only [hm, if_true, Except.ok.injEq, Prod.mk.injEq] at h1
          obtain ⟨rfl, rfl⟩ := h1
          exact ⟨st', IOk.otherwise_iff.2 ⟨c, cs, hc', Or.inl ⟨hm, rfl, rfl⟩⟩, hr⟩
        | false =>
          simp only [hm, Bool.false_eq_true, if_false] at h1
          obtain ⟨i2, rfl⟩ := run_pos' h1
          obtain ⟨s1', r, g⟩ := hN' i2 (by omega) pre stay body _ _ _ _ hp' (apply_nil_run h1)
            (hr.setMatched c cs true)
          exact ⟨s1', IOk.otherwise_iff.2 ⟨c, cs, hc', Or.inr ⟨hm, r⟩⟩, g⟩
    | for_ v e0 =>
      simp only [run, bind_ok] at h1
      obtain ⟨it, hit, items, hitems, h2⟩ := h1
      rw [← hlook] at hit
      obtain ⟨s1', r, g⟩ := hNL' i (by omega) pre stay body v items _ _ _ _ hp' h2 hr
      exact ⟨s1', IOk.for_iff.2 ⟨it, items, hit, hitems, r⟩, g⟩
    | if_ e0 =>
      simp only [run, bind_ok] at h1
      obtain ⟨v, hv, h2⟩ := h1
      rw [← hlook] at hv
      cases ht : v.truthy with
      | true =>
        simp only [ht, if_true] at h2
        obtain ⟨i2, rfl⟩ := run_pos' h2
        obtain ⟨s1', r, g⟩ := hN' i2 (by omega) pre stay body _ _ _ _ hp' (apply_nil_run h2) hr
        exact ⟨s1', IOk.if_iff.2 ⟨v, hv, Or.inl ⟨ht, r⟩⟩, g⟩
      | false =>
        simp only [ht, Bool.false_eq_true, if_false, pure, Except.pure, Except.ok.injEq, Prod.mk.injEq] at h2
        obtain ⟨rfl, rfl⟩ := h2
        exact ⟨st', IOk.if_iff.2 ⟨v, hv, Or.inr ⟨ht, rfl, rfl⟩⟩, hr⟩
    | choose e0 =>
      simp only [run, bind_ok, mapSt_ok] at h1
      obtain ⟨v, hv, s2, h2, rfl⟩ := h1
      rw [← hlook] at hv
      obtain ⟨i2, rfl⟩ := run_pos' h2
      obtain ⟨s2', r, g⟩ := hN' i2 (by omega) pre stay body _ _ _ _ hp' (apply_nil_run h2)
        (hr.pushChoice ⟨false, e0.isSome, v⟩)
      exact ⟨s2'.popChoice, IOk.choose_iff.2 ⟨v, s2', hv, r, rfl⟩, g.popChoice⟩
    | with_ bs =>
      simp only [run, mapSt_ok] at h1
      obtain ⟨s2, h2, rfl⟩ := h1
      obtain ⟨s2', r, g⟩ := hNB' i (by omega) pre stay body bs _ _ _ _ hp' h2 (hr.push [])
      exact ⟨s2'.pop, IOk.with_iff.2 ⟨s2', r, rfl⟩, g.pop⟩
    | replace x => simp [Dir.ctlDef, Dir.ctl] at hd
    | content x => simp [Dir.ctlDef, Dir.ctl] at hd
    | attrs e0 => simp [Dir.ctlDef, Dir.ctl] at hd
    | strip c => simp [Dir.ctlDef, Dir.ctl] at hd

theorem unnestL_step (n : Nat) (hN' : ∀ k, k < n → NProp' k) (hNL' : ∀ k, k < n → NLProp' k) : NLProp' n := by
  intro pre stay body v items st st' o s1 hp h hr
  obtain ⟨k, rfl⟩ := run_pos' h
  have hk : k < k + 1 := Nat.lt_succ_self k
  cases items with
  | nil =>
    simp only [run, Except.ok.injEq, Prod.mk.injEq] at h
    obtain ⟨rfl, rfl⟩ := h
    exact ⟨st', IOk.loop_nil_iff.2 ⟨rfl, rfl⟩, hr⟩
  | cons item items =>
    simp only [run, seq_ok] at h
    obtain ⟨o1, t1, o2, h1, h2, rfl⟩ := h
    obtain ⟨j, rfl⟩ := run_pos' h1
    obtain ⟨t1', r1, g1⟩ := hN' j (by omega) pre stay body _ _ _ _ hp (apply_nil_run h1) (hr.push [(v, item)])
    obtain ⟨s1', r2, g2⟩ := hNL' (j + 1) hk pre stay body v items _ _ _ _ hp h2 g1.pop
    exact ⟨s1', IOk.loop_cons_iff.2 ⟨o1, t1', o2, r1, r2, rfl⟩, g2⟩

theorem unnestB_step (n : Nat) (hN' : ∀ k, k < n → NProp' k) (hNB' : ∀ k, k < n → NBProp' k) : NBProp' n := by
  intro pre stay body bs st st' o s1 hp h hr
  obtain ⟨k, rfl⟩ := run_pos' h
  have hk : k < k + 1 := Nat.lt_succ_self k
  cases bs with
  | nil =>
    simp only [run] at h
    obtain ⟨j, rfl⟩ := run_pos' h
    obtain ⟨s1', r, g⟩ := hN' j (by omega) pre stay body _ _ _ _ hp (apply_nil_run h) hr
    exact ⟨s1', IOk.binds_nil_iff.2 r, g⟩
  | cons p bs =>
    obtain ⟨x, e0⟩ := p
    simp only [run, bind_ok] at h
    obtain ⟨v, hv, h2⟩ := h
    rw [← hr.look] at hv
    obtain ⟨s1', r, g⟩ := hNB' k hk pre stay body bs _ _ _ _ hp h2 (hr.setTop x v)
    exact ⟨s1', IOk.binds_cons_iff.2 ⟨v, hv, r⟩, g⟩

/-- the base pairs themselves -/
theorem base_step (n : Nat) (hP : ∀ k, k < n → PProp k) (T1 T2 : List Dir × List CEv) (hb : BasePair T1 T2)
    (st st' : St) (o : List Event) (s1 : St) (h : run n (.apply T1.1 T1.2) st = .ok (o, s1))
    (hr : StRel st st') : ∃ s1', IOk (.apply T2.1 T2.2) st' o s1' ∧ StRel s1 s1' := by
  obtain ⟨k, rfl⟩ := run_pos' h
  cases hb with
  | repl x t a =>
    simp only [run] at h
    obtain ⟨s1', r, g⟩ := hP k (Nat.lt_succ_self k) _ _ _ _ _ h hr
    exact ⟨s1', (replace_tail_eq x t a st' o s1').1 (IOk.apply_nil r), g⟩
  | unrepl x t a =>
    simp only [run, stripBody, stripCond, bind, Except.bind, pure, Except.pure, if_true, List.dropLast] at h
    obtain ⟨s1', r, g⟩ := hP k (Nat.lt_succ_self k) _ _ _ _ _ h hr
    exact ⟨s1', IOk.apply_nil r, g⟩

theorem g_step (n : Nat) (hP : ∀ k, k < n → PProp k) (hG : ∀ k, k < n → GProp k)
    (hGL : ∀ k, k < n → GLProp k) (hGB : ∀ k, k < n → GBProp k) : GProp n := by
  intro pre T1 T2 st st' o s1 hp hb h hr
  cases pre with
  | nil => exact base_step n hP T1 T2 hb st st' o s1 (by simpa using h) hr
  | cons d pre =>
    have hd := hp d (List.mem_cons_self ..)
    have hp' : ∀ x ∈ pre, x.ctlDef = true := fun x hx => hp x (List.mem_cons_of_mem _ hx)
    obtain ⟨k, rfl⟩ := run_pos' h
    have hk : k < k + 1 := Nat.lt_succ_self k
    have hlook := hr.look
    simp only [List.cons_append] at h ⊢
    cases d with
    | def_ name params =>
      simp only [run, Except.ok.injEq, Prod.mk.injEq] at h
      obtain ⟨rfl, rfl⟩ := h
      exact ⟨_, IOk.def_ name params _ _ st', hr.define name (MRel.tail params pre T1 T2 hp' hb)⟩
    | when e0 =>
      simp only [run] at h
      split at h
      · simp at h
      · rename_i c cs hc
        have hc' : st'.choice = c :: cs := by rw [hr.choice]; exact hc
        cases hm : c.matched with
        | true =>
          simp only [hm, if_true, Except.ok.injEq, Prod.mk.injEq] at h
          obtain ⟨rfl, rfl⟩ := h
          exact ⟨st', IOk.when_iff.2 ⟨c, cs, hc', Or.inl ⟨hm, rfl, rfl⟩⟩, hr⟩
        | false =>
          simp only [hm, Bool.false_eq_true, if_false] at h
          split at h
          · simp at h
          · simp only [bind_ok] at h
            obtain ⟨mm, hmm, h2⟩ := h
            rw [← hlook] at hmm
            cases mm with
            | true =>
              simp only [if_true] at h2
              obtain ⟨s1', r, g⟩ := hG k hk pre T1 T2 _ _ _ _ hp' hb h2 (hr.setMatched c cs true)
              exact ⟨s1', IOk.when_iff.2 ⟨c, cs, hc', Or.inr ⟨hm, true, hmm, Or.inl ⟨rfl, r⟩⟩⟩, g⟩
            | false =>
              simp only [Bool.false_eq_true, if_false, pure, Except.pure, Except.ok.injEq, Prod.mk.injEq] at h2
              obtain ⟨rfl, rfl⟩ := h2
              exact ⟨_, IOk.when_iff.2 ⟨c, cs, hc', Or.inr ⟨hm, false, hmm, Or.inr ⟨rfl, rfl, rfl⟩⟩⟩,
                hr.setMatched c cs false⟩
    | otherwise =>
      simp only [run] at h
      split at h
      · simp at h
      · rename_i c cs hc
        have hc' : st'.choice = c :: cs := by rw [hr.choice]; exact hc
        cases hm : c.matched with
        | true =>
          simp only [hm, if_true, Except.ok.injEq, Prod.mk.injEq] at h
          obtain ⟨rfl, rfl⟩ := h
          exact ⟨st', IOk.otherwise_iff.2 ⟨c, cs, hc', Or.inl ⟨hm, rfl, rfl⟩⟩, hr⟩
        | false =>
          simp only [hm, Bool.false_eq_true, if_false] at h
          obtain ⟨s1', r, g⟩ := hG k hk pre T1 T2 _ _ _ _ hp' hb h (hr.setMatched c cs true)
          exact ⟨s1', IOk.otherwise_iff.2 ⟨c, cs, hc', Or.inr ⟨hm, r⟩⟩, g⟩
    | for_ v e0 =>
      simp only [run, bind_ok] at h
      obtain ⟨it, hit, items, hitems, h2⟩ := h
      rw [← hlook] at hit
      obtain ⟨s1', r, g⟩ := hGL k hk pre T1 T2 v items _ _ _ _ hp' hb h2 hr
      exact ⟨s1', IOk.for_iff.2 ⟨it, items, hit, hitems, r⟩, g⟩
    | if_ e0 =>
      simp only [run, bind_ok] at h
      obtain ⟨v, hv, h2⟩ := h
      rw [← hlook] at hv
      cases ht : v.truthy with
      | true =>
        simp only [ht, if_true] at h2
        obtain ⟨s1', r, g⟩ := hG k hk pre T1 T2 _ _ _ _ hp' hb h2 hr
        exact ⟨s1', IOk.if_iff.2 ⟨v, hv, Or.inl ⟨ht, r⟩⟩, g⟩
      | false =>
        simp only [ht, Bool.false_eq_true, if_false, pure, Except.pure, Except.ok.injEq, Prod.mk.injEq] at h2
        obtain ⟨rfl, rfl⟩ := h2
        exact ⟨st', IOk.if_iff.2 ⟨v, hv, Or.inr ⟨ht, rfl, rfl⟩⟩, hr⟩
    | choose e0 =>
      simp only [run, bind_ok, mapSt_ok] at h
      obtain ⟨v, hv, s2, h2, rfl⟩ := h
      rw [← hlook] at hv
      obtain ⟨s2', r, g⟩ := hG k hk pre T1 T2 _ _ _ _ hp' hb h2 (hr.pushChoice ⟨false, e0.isSome, v⟩)
      exact ⟨s2'.popChoice, IOk.choose_iff.2 ⟨v, s2', hv, r, rfl⟩, g.popChoice⟩
    | with_ bs =>
      simp only [run, mapSt_ok] at h
      obtain ⟨s2, h2, rfl⟩ := h
      obtain ⟨s2', r, g⟩ := hGB k hk pre T1 T2 bs _ _ _ _ hp' hb h2 (hr.push [])
      exact ⟨s2'.pop, IOk.with_iff.2 ⟨s2', r, rfl⟩, g.pop⟩
    | replace x => simp [Dir.ctlDef, Dir.ctl] at hd
    | content x => simp [Dir.ctlDef, Dir.ctl] at hd
    | attrs e0 => simp [Dir.ctlDef, Dir.ctl] at hd
    | strip c => simp [Dir.ctlDef, Dir.ctl] at hd

theorem gL_step (n : Nat) (hG : ∀ k, k < n → GProp k) (hGL : ∀ k, k < n → GLProp k) : GLProp n := by
  intro pre T1 T2 v items st st' o s1 hp hb h hr
  obtain ⟨k, rfl⟩ := run_pos' h
  have hk : k < k + 1 := Nat.lt_succ_self k
  cases items with
  | nil =>
    simp only [run, Except.ok.injEq, Prod.mk.injEq] at h
    obtain ⟨rfl, rfl⟩ := h
    exact ⟨st', IOk.loop_nil_iff.2 ⟨rfl, rfl⟩, hr⟩
  | cons item items =>
    simp only [run, seq_ok] at h
    obtain ⟨o1, t1, o2, h1, h2, rfl⟩ := h
    obtain ⟨t1', r1, g1⟩ := hG k hk pre T1 T2 _ _ _ _ hp hb h1 (hr.push [(v, item)])
    obtain ⟨s1', r2, g2⟩ := hGL k hk pre T1 T2 v items _ _ _ _ hp hb h2 g1.pop
    exact ⟨s1', IOk.loop_cons_iff.2 ⟨o1, t1', o2, r1, r2, rfl⟩, g2⟩

theorem gB_step (n : Nat) (hG : ∀ k, k < n → GProp k) (hGB : ∀ k, k < n → GBProp k) : GBProp n := by
  intro pre T1 T2 bs st st' o s1 hp hb h hr
  obtain ⟨k, rfl⟩ := run_pos' h
  have hk : k < k + 1 := Nat.lt_succ_self k
  cases bs with
  | nil =>
    simp only [run] at h
    obtain ⟨s1', r, g⟩ := hG k hk pre T1 T2 _ _ _ _ hp hb h hr
    exact ⟨s1', IOk.binds_nil_iff.2 r, g⟩
  | cons p bs =>
    obtain ⟨x, e0⟩ := p
    simp only [run, bind_ok] at h
    obtain ⟨v, hv, h2⟩ := h
    rw [← hr.look] at hv
    obtain ⟨s1', r, g⟩ := hGB k hk pre T1 T2 bs _ _ _ _ hp hb h2 (hr.setTop x v)
    exact ⟨s1', IOk.binds_cons_iff.2 ⟨v, hv, r⟩, g⟩

structure AllProps (n : Nat) : Prop where
  p : PProp n
  n1 : NProp n
  nl : NLProp n
  nb : NBProp n
  n1' : NProp' n
  nl' : NLProp' n
  nb' : NBProp' n
  g : GProp n
  gl : GLProp n
  gb : GBProp n

/-- all ten statements, by one strong induction on the fuel -/
theorem param_all : ∀ n, AllProps n := by
  intro n
  induction n using Nat.strongRecOn with
  | ind n ih =>
    have hP : PProp n := param_step n (fun k hk => (ih k hk).p) (fun k hk => (ih k hk).n1)
      (fun k hk => (ih k hk).n1') (fun k hk => (ih k hk).g)
    have hPle : ∀ k, k ≤ n → PProp k := by
      intro k hk
      rcases Nat.lt_or_eq_of_le hk with h | rfl
      · exact (ih k h).p
      · exact hP
    exact {
      p := hP
      n1 := nest_step n hP (fun k hk => (ih k hk).n1) (fun k hk => (ih k hk).nl) (fun k hk => (ih k hk).nb)
      nl := nestL_step n (fun k hk => (ih k hk).n1) (fun k hk => (ih k hk).nl)
      nb := nestB_step n (fun k hk => (ih k hk).n1) (fun k hk => (ih k hk).nb)
      n1' := unnest_step n hPle (fun k hk => (ih k hk).n1') (fun k hk => (ih k hk).nl')
        (fun k hk => (ih k hk).nb')
      nl' := unnestL_step n (fun k hk => (ih k hk).n1') (fun k hk => (ih k hk).nl')
      nb' := unnestB_step n (fun k hk => (ih k hk).n1') (fun k hk => (ih k hk).nb')
      g := g_step n (fun k hk => (ih k hk).p) (fun k hk => (ih k hk).g) (fun k hk => (ih k hk).gl)
        (fun k hk => (ih k hk).gb)
      gl := gL_step n (fun k hk => (ih k hk).g) (fun k hk => (ih k hk).gl)
      gb := gB_step n (fun k hk => (ih k hk).g) (fun k hk => (ih k hk).gb) }

/-- **Parametricity.**  Related states (equal up to the stored form of macros) are
    indistinguishable: every task renders the same output from them and ends in related states. -/
theorem param {T : ITask} {st st' s1 : St} {o : List Event} (h : IOk T st o s1) (hr : StRel st st') :
    ∃ s1', IOk T st' o s1' ∧ StRel s1 s1' := by
  obtain ⟨n, h⟩ := h
  exact (param_all n).p T st st' o s1 h hr

theorem nest_of_chain {pre stay : List Dir} {body : List CEv} {st st' s1 : St} {o : List Event}
    (hp : ∀ d ∈ pre, d.ctlDef = true) (h : IOk (.apply (pre ++ stay) body) st o s1) (hr : StRel st st') :
    ∃ s1', IOk (.flat (nestSubs pre stay body)) st' o s1' ∧ StRel s1 s1' := by
  obtain ⟨n, h⟩ := h
  exact (param_all n).n1 pre stay body st st' o s1 hp h hr

theorem chain_of_nest {pre stay : List Dir} {body : List CEv} {st st' s1 : St} {o : List Event}
    (hp : ∀ d ∈ pre, d.ctlDef = true) (h : IOk (.flat (nestSubs pre stay body)) st o s1) (hr : StRel st st') :
    ∃ s1', IOk (.apply (pre ++ stay) body) st' o s1' ∧ StRel s1 s1' := by
  obtain ⟨n, h⟩ := h
  exact (param_all n).n1' pre stay body st st' o s1 hp h hr

/-- same control/def prefix, `py:replace` tail vs `py:content` + `py:strip` tail -/
theorem tail_pair {pre : List Dir} {T1 T2 : List Dir × List CEv} {st st' s1 : St} {o : List Event}
    (hp : ∀ d ∈ pre, d.ctlDef = true) (hb : BasePair T1 T2) (h : IOk (.apply (pre ++ T1.1) T1.2) st o s1)
    (hr : StRel st st') : ∃ s1', IOk (.apply (pre ++ T2.1) T2.2) st' o s1' ∧ StRel s1 s1' := by
  obtain ⟨n, h⟩ := h
  exact (param_all n).g pre T1 T2 st st' o s1 hp hb h hr

/-! ### node level -/

theorem ctlDef_keeps {d : Dir} (h : d.ctlDef = true) : d.rank ≠ 8 ∧ d.rank ≠ 9 := by
  cases d <;> simp [Dir.ctlDef, Dir.ctl, Dir.rank] at h ⊢

theorem attach_ctlDef_prefix (pre : List Dir) (hpre : ∀ d ∈ pre, d.ctlDef = true) (tl : List Dir)
    (body : List CEv) :
    attach (pre ++ tl) body = (pre ++ (attach tl body).1, (attach tl body).2) := by
  induction pre with
  | nil => simp
  | cons d pre ih =>
    simp only [List.cons_append]
    rw [attach_keep d _ body (ctlDef_keeps (hpre d (List.mem_cons_self ..))),
      ih (fun x hx => hpre x (List.mem_cons_of_mem _ hx))]

theorem compile_nestNodes (pre : List Dir) (hpre : ∀ d ∈ pre, d.ctlDef = true) (inner : TNode)
    (ds : List Dir) (b : List CEv) (hin : compileNode inner = mkSub ds b) :
    compileNode (nestNodes pre inner) = nestSubs pre ds b := by
  induction pre with
  | nil => simpa [nestNodes, nestSubs] using hin
  | cons d pre ih =>
    have ih' := ih (fun x hx => hpre x (List.mem_cons_of_mem _ hx))
    simp only [nestNodes, compileNode, compileNodes, List.append_nil, nestSubs]
    rw [attach_keep d [] _ (ctlDef_keeps (hpre d (List.mem_cons_self ..)))]
    simp [attach, mkSub, ih']

end Genshi.Tmpl

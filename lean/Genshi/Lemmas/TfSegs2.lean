/-
  copy / cut on a stream cut into contiguous selections: the buffer after the
  run (both `accumulate` modes) and what `cut` leaves in the stream.
-/
import Genshi.Lemmas.TfSegs
import Genshi.Lemmas.TfBufBal
namespace Genshi.Tf

/-- the buffer after one more segment -/
def bufStep (acc : Bool) (b : List MEv) (seg : Seg) : List MEv :=
  if seg.selected then (if acc then b else []) ++ seg.flat.map (·.2) else b

theorem copyBuf_boundary (acc : Bool) (m : Mark) (hm : m ≠ .enter) :
    ∀ segs, SegsOk segs → headNotRun m segs → ∀ buf,
      copyBuf acc (.inRun m) buf (flatSegs segs) = copyBuf acc .idle buf (flatSegs segs) := by
  intro segs hok hh buf
  cases segs with
  | nil => simp [flatSegs, copyBuf]
  | cons seg rest =>
    cases seg with
    | plain x =>
      have : ((none : Option Mark) = some m) = False := by simp
      simp [flatSegs, Seg.flat, copyBuf]
    | run m' p blk =>
      obtain ⟨⟨hne, _, hu⟩, _, _⟩ := hok
      have hmm : m' ≠ m := hh
      simp only [flatSegs, Seg.flat]
      rw [copyBuf_inRun_other acc m m' hmm hne p blk _ hu, copyBuf_idle_block acc m' hne p blk _ hu]
    | elem e mid x =>
      have : (some Mark.enter = some m) = False := by
        simp; intro h; exact hm h.symm
      simp only [flatSegs, flat_elem_append, copyBuf, this, ↓reduceIte, startSt]

/-- `copy(buffer, accumulate)`: with `accumulate` the buffer grows by every contiguous selection,
    without it the buffer is the last contiguous selection (or what it held before) -/
theorem copyBuf_segs (acc : Bool) : ∀ segs, SegsOk segs → ∀ buf,
    copyBuf acc .idle buf (flatSegs segs) = segs.foldl (bufStep acc) buf := by
  intro segs
  induction segs with
  | nil => intro _ buf; simp [flatSegs, copyBuf]
  | cons seg rest ih =>
    intro hok buf
    obtain ⟨hseg, hadj, hrest⟩ := hok
    cases seg with
    | plain x =>
      simp only [flatSegs, Seg.flat, List.foldl_cons, bufStep, Seg.selected]
      simpa [copyBuf] using ih hrest buf
    | run m p blk =>
      obtain ⟨hne, _, hu⟩ := hseg
      simp only [flatSegs, Seg.flat, List.foldl_cons]
      rw [copyBuf_idle_block acc m hne p blk _ hu, copyBuf_boundary acc m hne rest hrest hadj, ih hrest]
      simp [bufStep, Seg.selected, Seg.flat]
    | elem e mid x =>
      simp only [flatSegs, flat_elem_append, List.foldl_cons]
      simp only [copyBuf, startSt, ↓reduceIte]
      rw [copyBuf_inEnter_mid acc mid x _ (Inner.noExit hseg), ih hrest]
      simp [bufStep, Seg.selected, Seg.flat]

/-! ### cut -/

/-- no attribute selection among the segments -/
def NoAttrRun : List Seg → Prop
  | [] => True
  | .run m _ _ :: rest => m ≠ .attr ∧ NoAttrRun rest
  | _ :: rest => NoAttrRun rest

theorem cutGo_inRun_block' (acc : Bool) {m : Mark} (hma : m ≠ .attr) {blk : MStream} (hu : Uniform m blk)
    (s : MStream) : ∀ b names, blk ≠ [] →
      cutGo acc (.inRun m) b names (blk ++ s) = cutGo acc (.inRun m) false names s := by
  induction blk with
  | nil => intro b names h; exact absurd rfl h
  | cons p blk ih =>
    intro b names _
    obtain ⟨m', x⟩ := p
    have hm : m' = some m := hu (m', x) (by simp)
    have hu' : Uniform m blk := fun q hq => hu q (by simp [hq])
    subst hm
    have : (m = Mark.attr) = False := by simp [hma]
    simp only [List.cons_append, cutGo, ↓reduceIte, this, decide_false, Bool.false_and, Bool.false_eq_true]
    cases blk with
    | nil => rfl
    | cons q blk => exact ih hu' _ _ (by simp)

/-- the unselected segments -/
def keepSegs (segs : List Seg) : List Seg := segs.filter fun seg => !seg.selected

theorem keepSegs_nil : keepSegs [] = [] := rfl
theorem keepSegs_plain (x : MEv) (r : List Seg) : keepSegs (.plain x :: r) = .plain x :: keepSegs r := by
  simp [keepSegs, Seg.selected]
theorem keepSegs_run (m : Mark) (p : MItem) (blk : MStream) (r : List Seg) :
    keepSegs (.run m p blk :: r) = keepSegs r := by
  simp [keepSegs, Seg.selected]
theorem keepSegs_elem (e x : MEv) (mid : MStream) (r : List Seg) :
    keepSegs (.elem e mid x :: r) = keepSegs r := by
  simp [keepSegs, Seg.selected]

/-- what `cut` leaves: the unselected segments, with BREAK pseudo-events between them; as
    events (BREAK is dropped by `_unmark`) exactly the unselected part of the input -/
theorem cut_segs_unmark (acc : Bool) : ∀ segs, SegsOk segs → NoAttrRun segs →
    (∀ b names, ∃ out, cutGo acc .idle b names (flatSegs segs) = some out ∧
      unmark out = unmark (flatSegs (keepSegs segs))) ∧
    (∀ m, m ≠ .enter → m ≠ .attr → headNotRun m segs → ∀ b names,
      ∃ out, cutGo acc (.inRun m) b names (flatSegs segs) = some out ∧
      unmark out = unmark (flatSegs (keepSegs segs))) := by
  intro segs
  induction segs with
  | nil =>
    intro _ _
    refine ⟨fun b names => ?_, fun m _ _ _ b names => ?_⟩ <;>
    · simp only [flatSegs, cutGo, keepSegs_nil]
      cases b <;> simp [brkItem, unmark]
  | cons seg rest ih =>
    intro hok hna
    obtain ⟨hseg, hadj, hrest⟩ := hok
    cases seg with
    | plain x =>
      obtain ⟨ih1, _⟩ := ih hrest hna
      have hidle : ∀ b names, ∃ out, cutGo acc .idle b names (flatSegs (Seg.plain x :: rest)) = some out ∧
          unmark out = unmark (flatSegs (keepSegs (Seg.plain x :: rest))) := by
        intro b names
        obtain ⟨o, h1, h2⟩ := ih1 true names
        refine ⟨(none, x) :: o, by simp [flatSegs, Seg.flat, cutGo, h1], ?_⟩
        rw [keepSegs_plain]
        simp only [flatSegs, Seg.flat, List.singleton_append]
        cases x <;> simp [unmark, h2]
      refine ⟨hidle, fun m _ hma _ b names => ?_⟩
      obtain ⟨o, h1, h2⟩ := hidle b names
      have hne : ((none : Option Mark) = some m) = False := by simp
      have hma' : (m = Mark.attr) = False := by simp [hma]
      refine ⟨o, ?_, h2⟩
      simp only [flatSegs, Seg.flat, List.singleton_append, cutGo, hne, ↓reduceIte, hma', decide_false,
        Bool.false_and, Bool.false_eq_true] at h1 ⊢
      exact h1
    | run m' p blk =>
      obtain ⟨hne, _, hu⟩ := hseg
      obtain ⟨hma', hna'⟩ := hna
      obtain ⟨_, ih2⟩ := ih hrest hna'
      obtain ⟨m0, x⟩ := p
      have hm0 : m0 = some m' := hu (m0, x) (by simp)
      subst hm0
      have hu' : Uniform m' blk := fun q hq => hu q (by simp [hq])
      have hattr : (m' = Mark.attr) = False := by simp [hma']
      -- after the first event of the run the generator is in `inRun m'`
      have tail : ∀ names, ∃ out, cutGo acc (.inRun m') false names (blk ++ flatSegs rest) = some out ∧
          unmark out = unmark (flatSegs (keepSegs rest)) := by
        intro names
        cases blk with
        | nil => simpa using ih2 m' hne hma' hadj false names
        | cons q blk =>
          rw [cutGo_inRun_block' acc hma' hu' _ false names (by simp)]
          exact ih2 m' hne hma' hadj false names
      have fin : ∀ (pre : MStream), BrkPre pre → ∀ names,
          ∃ out, (pre ++ ·) <$> cutGo acc (.inRun m') false names (blk ++ flatSegs rest) = some out ∧
          unmark out = unmark (flatSegs (keepSegs (Seg.run m' (some m', x) blk :: rest))) := by
        intro pre hpre names
        obtain ⟨o, h1, h2⟩ := tail names
        refine ⟨pre ++ o, by simp [h1], ?_⟩
        rw [unmark_brk_prefix hpre, h2, keepSegs_run]
      constructor
      · intro b names
        simp only [flatSegs, Seg.flat, List.cons_append, cutGo, startSt, hne, ↓reduceIte, hattr]
        exact fin _ (brkPre_ite _) names
      · intro m hm hma hh b names
        have hmm : m' ≠ m := hh
        have hne2 : (some m' = some m) = False := by simp [hmm]
        have hma2 : (m = Mark.attr) = False := by simp [hma]
        simp only [flatSegs, Seg.flat, List.cons_append, cutGo, hne2, ↓reduceIte, hma2, decide_false,
          Bool.false_and, Bool.false_eq_true, startSt, hne, hattr]
        exact fin _ (brkPre_ite _) names
    | elem e mid x =>
      obtain ⟨ih1, _⟩ := ih hrest hna
      have fin : ∀ (pre : MStream), BrkPre pre → ∀ b names,
          ∃ out, (pre ++ ·) <$> cutGo acc .inEnter b names (mid ++ (some .exit, x) :: flatSegs rest) = some out ∧
          unmark out = unmark (flatSegs (keepSegs (Seg.elem e mid x :: rest))) := by
        intro pre hpre b names
        rw [cutGo_inEnter_mid acc mid x _ (Inner.noExit hseg)]
        obtain ⟨o, h1, h2⟩ := ih1 false names
        refine ⟨pre ++ o, by simp [h1], ?_⟩
        rw [unmark_brk_prefix hpre, h2, keepSegs_elem]
      have hea : (Mark.enter = Mark.attr) = False := by simp
      constructor
      · intro b names
        simp only [flatSegs, flat_elem_append, cutGo, startSt, ↓reduceIte, hea]
        exact fin _ (brkPre_ite _) _ names
      · intro m hm hma _ b names
        have hne2 : (some Mark.enter = some m) = False := by
          simp; intro h; exact hm h.symm
        have hma2 : (m = Mark.attr) = False := by simp [hma]
        simp only [flatSegs, flat_elem_append, cutGo, hne2, ↓reduceIte, hma2, decide_false,
          Bool.false_and, Bool.false_eq_true, startSt, hea]
        exact fin _ (brkPre_ite _) _ names

end Genshi.Tf

/-
  C05 `parse ∘ print = id`, part 4: steps with predicates, location paths, unions — including
  the parser's habit of never moving past the last token (`at_end`).
-/
import Genshi.Lemmas.PathPrintExpr
namespace Genshi.Path
namespace Print
open Genshi

/-- the parser stands at `q`: the tokens `rem` are left; if none is left it stands on the last
    token `last` of what it has just read -/
def At (ts : List Str) (q : Nat) (last : Str) (rem : List Str) : Prop :=
  ts.drop q = if rem = [] then [last] else rem

/-- nothing, or at least two tokens, are left -/
def Rem (rem : List Str) : Prop := rem = [] ∨ ∃ y z r, rem = y :: z :: r

/-- a token on which the loops over predicates, steps and union operands all stop -/
def LastOk (x : Str) : Prop := x ≠ ['['] ∧ startsWithSlash x = false ∧ x ≠ ['|']

/-- what can follow a node test: `[`, `/` or `|` -/
def SepHead (rem : List Str) : Prop := ∀ y r, rem = y :: r → y = ['['] ∨ y = ['/'] ∨ y = ['|']

theorem sepHead_facts {y : Str} (h : y = ['['] ∨ y = ['/'] ∨ y = ['|']) :
    y ≠ ['('] ∧ y ≠ ['(', ')'] ∧ y ≠ [':'] := by
  rcases h with rfl | rfl | rfl <;> decide

theorem At.nil {ts : List Str} {q : Nat} {last : Str} (h : At ts q last []) : ts.drop q = [last] := by
  simpa [At] using h

theorem At.cons {ts : List Str} {q : Nat} {last y : Str} {r : List Str} (h : At ts q last (y :: r)) :
    ts.drop q = y :: r := by
  simpa [At] using h

theorem at_of_drop_nil {ts : List Str} {q : Nat} {x : Str} (h : ts.drop q = [x]) : At ts q x [] := by
  simpa [At] using h

theorem at_of_drop_cons {ts : List Str} {q : Nat} {x y : Str} {r : List Str} (h : ts.drop q = y :: r) :
    At ts q x (y :: r) := by
  simpa [At] using h

theorem lastOk_name (n : Str) (h : nameOk n = true) : LastOk n := by
  obtain ⟨_, _, _, _, _, _, _, _, _, g10, g11, g12, _⟩ := nameOk_facts n h
  exact ⟨g10, g12, g11⟩

theorem lastOk_star : LastOk ['*'] := by refine ⟨?_, ?_, ?_⟩ <;> decide
theorem lastOk_unit : LastOk ['(', ')'] := by refine ⟨?_, ?_, ?_⟩ <;> decide
theorem lastOk_rpar : LastOk rpar := by refine ⟨?_, ?_, ?_⟩ <;> decide
theorem lastOk_rbr : LastOk [']'] := by refine ⟨?_, ?_, ?_⟩ <;> decide

/-! ## the node test of a step -/

/-- a single-token name test -/
theorem nodeTest_one (ts : List Str) (p : Nat) (attr : Bool) (c : Str) (rem : List Str) (hr : Rem rem)
    (hs : SepHead rem) (h : ts.drop p = c :: rem) :
    ∃ q, nodeTest ts p attr =
        .ok (if c == ['*'] then .principal attr else if c == ['.'] then .node else .localName attr c, q) ∧
      At ts q c rem := by
  rcases hr with rfl | ⟨y, z, r, rfl⟩
  · refine ⟨p, ?_, at_of_drop_nil h⟩
    by_cases h1 : c = ['*']
    · simp [nodeTest, peek_drop_one h, cur_drop h, atEnd_drop_one h, h1, bind, Except.bind, pure, Except.pure]
    · by_cases h2 : c = ['.']
      · simp [nodeTest, peek_drop_one h, cur_drop h, atEnd_drop_one h, h2, bind, Except.bind, pure, Except.pure]
      · simp [nodeTest, peek_drop_one h, cur_drop h, atEnd_drop_one h, h1, h2, bind, Except.bind, pure, Except.pure]
  · obtain ⟨s1, s2, s3⟩ := sepHead_facts (hs y _ rfl)
    refine ⟨p + 1, ?_, at_of_drop_cons (drop_succ h)⟩
    by_cases h1 : c = ['*']
    · simp [nodeTest, peek_drop_two h, cur_drop h, atEnd_drop_two h, next_drop h, s1, s2, s3, h1,
        bind, Except.bind, pure, Except.pure]
    · by_cases h2 : c = ['.']
      · simp [nodeTest, peek_drop_two h, cur_drop h, atEnd_drop_two h, next_drop h, s1, s2, s3, h2,
          bind, Except.bind, pure, Except.pure]
      · simp [nodeTest, peek_drop_two h, cur_drop h, atEnd_drop_two h, next_drop h, s1, s2, s3, h1, h2,
          bind, Except.bind, pure, Except.pure]

/-- a prefixed name test -/
theorem nodeTest_q (ts : List Str) (p : Nat) (attr : Bool) (pf c : Str) (rem : List Str) (hr : Rem rem)
    (h : ts.drop p = pf :: [':'] :: c :: rem) :
    ∃ q, nodeTest ts p attr = .ok (if c == ['*'] then .qprincipal attr pf else .qname attr pf c, q) ∧
      At ts q c rem := by
  have hd1 := drop_succ h
  have hd2 := drop_succ hd1
  rcases hr with rfl | ⟨y, z, r, rfl⟩
  · refine ⟨p + 1 + 1, ?_, at_of_drop_nil hd2⟩
    by_cases h1 : c = ['*']
    · simp [nodeTest, peek_drop_two h, cur_drop h, next_drop h, next_drop hd1, atEnd_drop_one hd2, h1,
        bind, Except.bind, pure, Except.pure]
    · simp [nodeTest, peek_drop_two h, cur_drop h, next_drop h, next_drop hd1, atEnd_drop_one hd2, h1,
        bind, Except.bind, pure, Except.pure]
  · refine ⟨p + 1 + 1 + 1, ?_, at_of_drop_cons (drop_succ hd2)⟩
    by_cases h1 : c = ['*']
    · simp [nodeTest, peek_drop_two h, cur_drop h, next_drop h, next_drop hd1, next_drop hd2, atEnd_drop_two hd2, h1,
        bind, Except.bind, pure, Except.pure]
    · simp [nodeTest, peek_drop_two h, cur_drop h, next_drop h, next_drop hd1, next_drop hd2, atEnd_drop_two hd2, h1,
        bind, Except.bind, pure, Except.pure]

/-- `name()` -/
theorem nodeTest_type0 (ts : List Str) (p : Nat) (attr : Bool) (name : Str) (nt : NodeTest)
    (hnt : nodeTypeOf name [] = .ok nt) (rem : List Str) (hr : Rem rem)
    (h : ts.drop p = name :: ['(', ')'] :: rem) :
    ∃ q, nodeTest ts p attr = .ok (nt, q) ∧ At ts q ['(', ')'] rem := by
  have hd1 := drop_succ h
  rcases hr with rfl | ⟨y, z, r, rfl⟩
  · refine ⟨p + 1, ?_, at_of_drop_nil hd1⟩
    simp [nodeTest, nodeType, peek_drop_two h, cur_drop h, next_drop h, atEnd_drop_one hd1, hnt,
      bind, Except.bind, pure, Except.pure]
  · refine ⟨p + 1 + 1, ?_, at_of_drop_cons (drop_succ hd1)⟩
    simp [nodeTest, nodeType, peek_drop_two h, cur_drop h, next_drop h, atEnd_drop_two hd1, next_drop hd1, hnt,
      bind, Except.bind, pure, Except.pure]

def piTok : Str := ['p','r','o','c','e','s','s','i','n','g','-','i','n','s','t','r','u','c','t','i','o','n']

/-- `processing-instruction("target")` -/
theorem nodeTest_pi (ts : List Str) (p : Nat) (attr : Bool) (tg : Str) (rem : List Str) (hr : Rem rem)
    (h : ts.drop p = piTok :: lpar :: quoteTok tg :: rpar :: rem) :
    ∃ q, nodeTest ts p attr = .ok (.pi (some tg), q) ∧ At ts q rpar rem := by
  have hd1 := drop_succ h
  have hd2 := drop_succ hd1
  have hd3 := drop_succ hd2
  obtain ⟨g1, g2, g3⟩ := quoteTok_facts tg
  simp only [Bool.and_eq_true, decide_eq_true_eq] at g1
  have hne : (quoteTok tg != [')']) = true := by
    unfold quoteTok; split <;> simp
  have hnt : nodeTypeOf piTok [tg] = .ok (.pi (some tg)) := rfl
  rcases hr with rfl | ⟨y, z, r, rfl⟩
  · refine ⟨p + 1 + 1 + 1, ?_, at_of_drop_nil hd3⟩
    simp [nodeTest, nodeType, peek_drop_two h, cur_drop h, next_drop h, next_drop hd1, next_drop hd2, hne, g1.2, g2,
      atEnd_drop_one hd3, hnt, lpar, bind, Except.bind, pure, Except.pure]
  · refine ⟨p + 1 + 1 + 1 + 1, ?_, at_of_drop_cons (drop_succ hd3)⟩
    simp [nodeTest, nodeType, peek_drop_two h, cur_drop h, next_drop h, next_drop hd1, next_drop hd2, hne, g1.2, g2,
      atEnd_drop_two hd3, next_drop hd3, hnt, lpar, bind, Except.bind, pure, Except.pure]

/-- the node test of a step, whatever follows -/
theorem nodeTest_step (ts : List Str) (p : Nat) (attr : Bool) (t : NodeTest) (ht : stepTestOk attr t = true)
    (rem : List Str) (hr : Rem rem) (hs : SepHead rem) (h : ts.drop p = stepTestToks t ++ rem) :
    ∃ q last, nodeTest ts p attr = .ok (t, q) ∧ At ts q last rem ∧ LastOk last := by
  cases t with
  | principal a =>
    have ha : a = attr := by simpa [stepTestOk, testOk, testAttr] using ht
    subst ha
    obtain ⟨q, hq, hat⟩ := nodeTest_one ts p a ['*'] rem hr hs (by simpa [stepTestToks] using h)
    exact ⟨q, _, by simpa using hq, hat, lastOk_star⟩
  | localName a n =>
    simp only [stepTestOk, testOk, testAttr, Bool.and_eq_true, beq_iff_eq, Option.some.injEq] at ht
    obtain ⟨hn, rfl⟩ := ht
    obtain ⟨_, _, _, _, _, _, g7, g8, _⟩ := nameOk_facts n hn
    obtain ⟨q, hq, hat⟩ := nodeTest_one ts p a n rem hr hs (by simpa [stepTestToks] using h)
    exact ⟨q, _, by simpa [g7, g8] using hq, hat, lastOk_name n hn⟩
  | qprincipal a pf =>
    simp only [stepTestOk, testOk, testAttr, Bool.and_eq_true, beq_iff_eq, Option.some.injEq] at ht
    obtain ⟨_, rfl⟩ := ht
    obtain ⟨q, hq, hat⟩ := nodeTest_q ts p a pf ['*'] rem hr (by simpa [stepTestToks] using h)
    exact ⟨q, _, by simpa using hq, hat, lastOk_star⟩
  | qname a pf n =>
    simp only [stepTestOk, testOk, testAttr, Bool.and_eq_true, beq_iff_eq, Option.some.injEq] at ht
    obtain ⟨⟨_, hn⟩, rfl⟩ := ht
    obtain ⟨_, _, _, _, _, _, g7, _⟩ := nameOk_facts n hn
    obtain ⟨q, hq, hat⟩ := nodeTest_q ts p a pf n rem hr (by simpa [stepTestToks] using h)
    exact ⟨q, _, by simpa [g7] using hq, hat, lastOk_name n hn⟩
  | comment =>
    obtain ⟨q, hq, hat⟩ := nodeTest_type0 ts p attr _ .comment rfl rem hr (by simpa [stepTestToks] using h)
    exact ⟨q, _, hq, hat, lastOk_unit⟩
  | node =>
    obtain ⟨q, hq, hat⟩ := nodeTest_type0 ts p attr _ .node rfl rem hr (by simpa [stepTestToks] using h)
    exact ⟨q, _, hq, hat, lastOk_unit⟩
  | text =>
    obtain ⟨q, hq, hat⟩ := nodeTest_type0 ts p attr _ .text rfl rem hr (by simpa [stepTestToks] using h)
    exact ⟨q, _, hq, hat, lastOk_unit⟩
  | pi tg =>
    cases tg with
    | none =>
      obtain ⟨q, hq, hat⟩ := nodeTest_type0 ts p attr _ (.pi none) rfl rem hr (by simpa [stepTestToks] using h)
      exact ⟨q, _, hq, hat, lastOk_unit⟩
    | some tg =>
      obtain ⟨q, hq, hat⟩ := nodeTest_pi ts p attr tg rem hr (by simpa [stepTestToks, piTok] using h)
      exact ⟨q, _, hq, hat, lastOk_rpar⟩

/-! ## predicates -/

theorem predsToks_length (ps : List Expr) : 2 * ps.length ≤ (predsToks ps).length := by
  induction ps with
  | nil => simp [predsToks]
  | cons e r ih => simp [predsToks, predToks]; omega

theorem rem_preds (ps : List Expr) (rem : List Str) (hr : Rem rem) : Rem (predsToks ps ++ rem) := by
  cases ps with
  | nil => simpa [predsToks] using hr
  | cons e r =>
    obtain ⟨y, r', hy⟩ := exists_cons_append (toks e) [']'] (predsToks r ++ rem)
    refine Or.inr ⟨['['], y, r', ?_⟩
    simp [predsToks, predToks, ← hy]

theorem drop_length_le {ts : List Str} {q : Nat} {l : List Str} (h : ts.drop q = l) : l.length ≤ ts.length := by
  have := congrArg List.length h
  simp only [List.length_drop] at this
  omega

/-- the `while self.cur_token == '['` loop of `_location_step` -/
theorem predLoop_print (ts : List Str) (rem : List Str) (hr : Rem rem)
    (hh : ∀ y r, rem = y :: r → y ≠ ['[']) :
    ∀ (ps : List Expr) (acc : List Expr) (f q : Nat) (last : Str),
      (∀ e ∈ ps, exprOk e = true) → At ts q last (predsToks ps ++ rem) → LastOk last →
      12 * ts.length + 9 + ps.length ≤ f →
      ∃ q' last', predLoop ts f q acc = .ok (acc ++ ps, q') ∧ At ts q' last' rem ∧ LastOk last' := by
  intro ps
  induction ps with
  | nil =>
    intro acc f q last _ hat hl hf
    obtain ⟨f', rfl⟩ : ∃ f', f = f' + 1 := ⟨f - 1, by omega⟩
    simp only [predsToks, List.nil_append] at hat
    refine ⟨q, last, ?_, hat, hl⟩
    rcases hr with rfl | ⟨y, z, r, rfl⟩
    · have hb : (last == ['[']) = false := by simpa using hl.1
      simp [predLoop, cur_drop hat.nil, hb, bind, Except.bind, pure, Except.pure]
    · have hb : (y == ['[']) = false := by simpa using hh y _ rfl
      simp [predLoop, cur_drop hat.cons, hb, bind, Except.bind, pure, Except.pure]
  | cons e ps ih =>
    intro acc f q last hok hat hl hf
    obtain ⟨f', rfl⟩ : ∃ f', f = f' + 1 := ⟨f - 1, by omega⟩
    have hd : ts.drop q = ['['] :: (toks e ++ [']'] :: (predsToks ps ++ rem)) := by
      have : predsToks (e :: ps) ++ rem = ['['] :: (toks e ++ [']'] :: (predsToks ps ++ rem)) := by
        simp [predsToks, predToks]
      rw [this] at hat
      exact hat.cons
    obtain ⟨y, r', hy⟩ := exists_cons_append (toks e) [']'] (predsToks ps ++ rem)
    have hd' : ts.drop q = ['['] :: y :: r' := by rw [hd, hy]
    have hlen : (toks e).length ≤ ts.length := by
      have := drop_length_le hd
      simp at this; omega
    obtain ⟨q1, hq1, hdq1⟩ := orExpr_print ts e (hok e List.mem_cons_self) f' (q + 1) [']'] (predsToks ps ++ rem)
      (drop_succ hd) (.rbr 0) (by simp at hf; omega)
    have hrem := rem_preds ps rem hr
    -- the position after `]`
    have hadv : ∃ q2, predicate ts f' q = .ok (e, q2) ∧ At ts q2 [']'] (predsToks ps ++ rem) := by
      rcases hrem with hnil | ⟨y2, z2, r2, hc⟩
      · rw [hnil] at hdq1
        refine ⟨q1, ?_, by rw [hnil]; exact at_of_drop_nil hdq1⟩
        simp [predicate, next_drop hd', hq1, cur_drop hdq1, atEnd_drop_one hdq1, bind, Except.bind, pure, Except.pure]
      · rw [hc] at hdq1
        refine ⟨q1 + 1, ?_, by rw [hc]; exact at_of_drop_cons (drop_succ hdq1)⟩
        simp [predicate, next_drop hd', hq1, cur_drop hdq1, atEnd_drop_two hdq1, next_drop hdq1,
          bind, Except.bind, pure, Except.pure]
    obtain ⟨q2, hq2, hat2⟩ := hadv
    obtain ⟨q', last', hq', hat', hl'⟩ := ih (acc ++ [e]) f' q2 [']']
      (fun x hx => hok x (List.mem_cons_of_mem _ hx)) hat2 lastOk_rbr (by simp at hf ⊢; omega)
    refine ⟨q', last', ?_, hat', hl'⟩
    rw [predLoop]
    simp only [cur_drop hd', beq_self_eq_true, if_true, hq2, bind, Except.bind]
    rw [hq']
    simp

/-! ## one step -/

theorem axisTok_eq (a : Axis) : axisTok a = axisName a := by cases a <;> rfl

theorem stepToks_cons (s : Step) : ∃ y r, stepToks s = axisTok s.axis :: [':', ':'] :: y :: r := by
  obtain ⟨y, r, hy⟩ : ∃ y r, stepTestToks s.test = y :: r := by
    cases s.test with
    | pi tg => cases tg <;> exact ⟨_, _, rfl⟩
    | _ => exact ⟨_, _, rfl⟩
  exact ⟨y, r ++ predsToks s.preds, by simp [stepToks, hy]⟩

theorem sepHead_preds (ps : List Expr) (rem : List Str) (hh : ∀ y r, rem = y :: r → y = ['/'] ∨ y = ['|']) :
    SepHead (predsToks ps ++ rem) := by
  intro y r h
  cases ps with
  | nil =>
    simp [predsToks] at h
    rcases hh y r h with h1 | h1
    · exact Or.inr (Or.inl h1)
    · exact Or.inr (Or.inr h1)
  | cons e ps =>
    simp [predsToks, predToks] at h
    exact Or.inl h.1.symm

/-- `_location_step` on a printed step -/
theorem locationStep_print (ts : List Str) (s : Step) (hs : stepOk s = true) (rem : List Str) (hr : Rem rem)
    (hh : ∀ y r, rem = y :: r → y = ['/'] ∨ y = ['|']) (f pos : Nat)
    (h : ts.drop pos = stepToks s ++ rem) (hf : 13 * ts.length + 9 ≤ f) :
    ∃ q last, locationStep ts f pos = .ok ((some s.axis, s.test, s.preds), q) ∧ At ts q last rem ∧ LastOk last := by
  simp only [stepOk, Bool.and_eq_true, List.all_eq_true] at hs
  obtain ⟨hst, hps⟩ := hs
  obtain ⟨y, r, hyr⟩ := stepToks_cons s
  have h' : ts.drop pos = axisName s.axis :: [':', ':'] :: y :: (r ++ rem) := by
    rw [h, hyr, axisTok_eq]; rfl
  obtain ⟨a1, a2, a3, _⟩ := axisName_plain s.axis
  have hd1 := drop_succ h'
  have hd2 : ts.drop (pos + 1 + 1) = stepTestToks s.test ++ (predsToks s.preds ++ rem) := by
    have := drop_succ (drop_succ (show ts.drop pos = axisTok s.axis :: [':', ':'] :: (stepTestToks s.test ++ (predsToks s.preds ++ rem)) by
      rw [h]; simp [stepToks]))
    exact this
  obtain ⟨q1, last1, hq1, hat1, hl1⟩ := nodeTest_step ts (pos + 1 + 1) (s.axis == .attribute) s.test hst
    (predsToks s.preds ++ rem) (rem_preds _ _ hr) (sepHead_preds _ _ hh) hd2
  have hplen : s.preds.length ≤ ts.length := by
    have h1 := drop_length_le hd2
    have h2 := predsToks_length s.preds
    simp at h1; omega
  obtain ⟨q2, last2, hq2, hat2, hl2⟩ := predLoop_print ts rem hr
    (fun y r hy => by rcases hh y r hy with h1 | h1 <;> (rw [h1]; decide))
    s.preds [] f q1 last1 (fun e he => hps e he) hat1 hl1 (by omega)
  refine ⟨q2, last2, ?_, hat2, hl2⟩
  have hb : (some s.axis == some Axis.attribute) = (s.axis == Axis.attribute) := by
    cases s.axis <;> rfl
  have e1 : (axisName s.axis == ['@']) = false := by simpa using a1
  have e2 : (axisName s.axis == ['.']) = false := by simpa using a2
  have e3 : (axisName s.axis == ['.', '.']) = false := by simpa using a3
  simp only [locationStep, cur_drop h', e1, e2, e3, peek_drop_two h', axisForName_axisName, next_drop h', next_drop hd1,
    hb, hq1, hq2, bind, Except.bind, pure, Except.pure, Bool.false_eq_true, if_false, beq_self_eq_true, if_true,
    List.nil_append]

/-! ## location paths -/

theorem restToks_length (r : List Step) : r.length ≤ (restToks r).length := by
  induction r with
  | nil => simp [restToks]
  | cons s r ih => simp [restToks]; omega

theorem rem_rest (r : List Step) (rem : List Str) (hr : Rem rem) : Rem (restToks r ++ rem) := by
  cases r with
  | nil => simpa [restToks] using hr
  | cons s r =>
    obtain ⟨y, r', hy⟩ := stepToks_cons s
    exact Or.inr ⟨['/'], axisTok s.axis, [':', ':'] :: y :: (r' ++ (restToks r ++ rem)), by simp [restToks, hy]⟩

/-- the `while True` loop of `_location_path`, entered at the first token of a step -/
theorem locLoop_print (ts : List Str) (rem : List Str) (hr : Rem rem) (hh : ∀ y r, rem = y :: r → y = ['|']) :
    ∀ (r : List Step) (s : Step) (acc : List Step) (f pos : Nat),
      stepOk s = true → (∀ x ∈ r, stepOk x = true) →
      ts.drop pos = stepToks s ++ (restToks r ++ rem) → 13 * ts.length + 10 + r.length + 1 ≤ f →
      ∃ q last, locLoop ts f pos acc = .ok (acc ++ s :: r, q) ∧ At ts q last rem ∧ LastOk last := by
  intro r
  induction r with
  | nil =>
    intro s acc f pos hs _ h hf
    obtain ⟨f', rfl⟩ : ∃ f', f = f' + 1 := ⟨f - 1, by omega⟩
    simp only [restToks, List.nil_append] at h
    obtain ⟨y, r', hyr⟩ := stepToks_cons s
    have h' : ts.drop pos = axisName s.axis :: ([':', ':'] :: y :: r' ++ rem) := by
      rw [h, hyr, axisTok_eq]; rfl
    obtain ⟨_, _, _, a4⟩ := axisName_plain s.axis
    obtain ⟨q, last, hq, hat, hl⟩ := locationStep_print ts s hs rem hr
      (fun y r hy => Or.inr (hh y r hy)) f' pos h (by omega)
    refine ⟨q, last, ?_, hat, hl⟩
    rw [locLoop]
    rcases hr with rfl | ⟨y2, z2, r2, rfl⟩
    · simp [cur_drop h', a4, hq, cur_drop hat.nil, atEnd_drop_one hat.nil, bind, Except.bind, pure, Except.pure]
    · have hy2 := hh y2 _ rfl
      subst hy2
      have hsl : startsWithSlash ['|'] = false := by decide
      simp [cur_drop h', a4, hq, cur_drop hat.cons, atEnd_drop_two hat.cons, hsl, bind, Except.bind, pure, Except.pure]
  | cons s' r ih =>
    intro s acc f pos hs hrs h hf
    obtain ⟨f', rfl⟩ : ∃ f', f = f' + 1 + 1 := ⟨f - 2, by simp at hf; omega⟩
    obtain ⟨y, r', hyr⟩ := stepToks_cons s
    have h' : ts.drop pos = axisName s.axis :: ([':', ':'] :: y :: r' ++ (restToks (s' :: r) ++ rem)) := by
      rw [h, hyr, axisTok_eq]; rfl
    obtain ⟨_, _, _, a4⟩ := axisName_plain s.axis
    have hrem := rem_rest (s' :: r) rem hr
    obtain ⟨q, last, hq, hat, hl⟩ := locationStep_print ts s hs (restToks (s' :: r) ++ rem) hrem
      (fun y r hy => by simp [restToks] at hy; exact Or.inl hy.1.symm) (f' + 1) pos h (by omega)
    obtain ⟨y', r'', hyr'⟩ := stepToks_cons s'
    have hdq : ts.drop q = ['/'] :: axisName s'.axis :: ([':', ':'] :: y' :: r'' ++ (restToks r ++ rem)) := by
      have : restToks (s' :: r) ++ rem = ['/'] :: axisName s'.axis :: ([':', ':'] :: y' :: r'' ++ (restToks r ++ rem)) := by
        simp [restToks, hyr', axisTok_eq]
      rw [this] at hat
      exact hat.cons
    obtain ⟨_, _, _, b4⟩ := axisName_plain s'.axis
    have hd1 : ts.drop (q + 1) = stepToks s' ++ (restToks r ++ rem) := by
      rw [drop_succ hdq, hyr', axisTok_eq]; simp
    obtain ⟨q', last', hq', hat', hl'⟩ := ih s' (acc ++ [s]) (f' + 1) (q + 1)
      (hrs s' List.mem_cons_self) (fun x hx => hrs x (List.mem_cons_of_mem _ hx)) hd1 (by simp at hf ⊢; omega)
    refine ⟨q', last', ?_, hat', hl'⟩
    have hsl : startsWithSlash ['/'] = true := by decide
    rw [locLoop]
    simp only [cur_drop h', a4, hq, cur_drop hdq, atEnd_drop_two hdq, hsl, bind, Except.bind, pure, Except.pure,
      Bool.false_eq_true, if_false, Bool.not_true, Bool.or_self, Option.getD_some]
    rw [locLoop_slash ts f' q (acc ++ [s]) _ _ (by simp) b4 hdq, hq']
    simp

/-! ## unions -/

theorem unionToks_length (ps : List LocPath) : ps.length ≤ (unionToks ps).length := by
  induction ps with
  | nil => simp [unionToks]
  | cons p r ih => simp [unionToks]; omega

theorem pathOk_cons (p : LocPath) (h : pathOk p = true) :
    ∃ s r, p = s :: r ∧ stepOk s = true ∧ ∀ x ∈ r, stepOk x = true := by
  cases p with
  | nil => simp [pathOk] at h
  | cons s r =>
    simp only [pathOk, List.isEmpty_cons, Bool.not_false, Bool.true_and, List.all_cons, Bool.and_eq_true,
      List.all_eq_true] at h
    exact ⟨s, r, rfl, h.1, h.2⟩

theorem rem_union (ps : List LocPath) (hps : ∀ p ∈ ps, pathOk p = true) : Rem (unionToks ps) := by
  cases ps with
  | nil => exact Or.inl rfl
  | cons p r =>
    obtain ⟨s, r', rfl, _, _⟩ := pathOk_cons p (hps p List.mem_cons_self)
    obtain ⟨y, r'', hy⟩ := stepToks_cons s
    exact Or.inr ⟨['|'], axisTok s.axis, [':', ':'] :: y :: (r'' ++ (restToks r' ++ unionToks r)), by simp [unionToks, pathToks, hy]⟩

theorem head_union (ps : List LocPath) : ∀ y r, unionToks ps = y :: r → y = ['|'] := by
  intro y r h
  cases ps with
  | nil => simp [unionToks] at h
  | cons p r' => simp [unionToks] at h; exact h.1.symm

/-- the `while self.cur_token == '|'` loop of `parse` -/
theorem unionLoop_print (ts : List Str) :
    ∀ (ps : List LocPath) (acc : List LocPath) (f q : Nat) (last : Str),
      (∀ p ∈ ps, pathOk p = true) → At ts q last (unionToks ps) → LastOk last →
      14 * ts.length + 12 + ps.length ≤ f →
      ∃ q' last', unionLoop ts f q acc = .ok (acc ++ ps, q') ∧ At ts q' last' [] := by
  intro ps
  induction ps with
  | nil =>
    intro acc f q last _ hat hl hf
    obtain ⟨f', rfl⟩ : ∃ f', f = f' + 1 := ⟨f - 1, by omega⟩
    refine ⟨q, last, ?_, hat⟩
    have hb : (last == ['|']) = false := by simpa using hl.2.2
    simp [unionLoop, cur_drop hat.nil, hb, bind, Except.bind, pure, Except.pure]
  | cons p ps ih =>
    intro acc f q last hps hat hl hf
    obtain ⟨f', rfl⟩ : ∃ f', f = f' + 1 := ⟨f - 1, by omega⟩
    obtain ⟨s, r, rfl, hs, hrs⟩ := pathOk_cons p (hps p List.mem_cons_self)
    obtain ⟨y, r', hyr⟩ := stepToks_cons s
    have hd : ts.drop q = ['|'] :: (stepToks s ++ (restToks r ++ unionToks ps)) := by
      have : unionToks ((s :: r) :: ps) = ['|'] :: (stepToks s ++ (restToks r ++ unionToks ps)) := by
        simp [unionToks, pathToks]
      rw [this] at hat
      exact hat.cons
    have hd' : ts.drop q = ['|'] :: axisTok s.axis :: ([':', ':'] :: y :: r' ++ (restToks r ++ unionToks ps)) := by
      rw [hd, hyr]; rfl
    have hps' : ∀ p ∈ ps, pathOk p = true := fun x hx => hps x (List.mem_cons_of_mem _ hx)
    have hrl : r.length ≤ ts.length := by
      have h1 := drop_length_le hd
      have h2 := restToks_length r
      simp at h1; omega
    obtain ⟨q1, last1, hq1, hat1, hl1⟩ := locLoop_print ts (unionToks ps) (rem_union ps hps') (head_union ps)
      r s [] f' (q + 1) hs hrs (drop_succ hd) (by simp at hf; omega)
    obtain ⟨q', last', hq', hat'⟩ := ih (acc ++ [s :: r]) f' q1 last1 hps' hat1 hl1 (by simp at hf ⊢; omega)
    refine ⟨q', last', ?_, hat'⟩
    rw [unionLoop]
    simp only [cur_drop hd', next_drop hd', hq1, beq_self_eq_true, if_true, bind, Except.bind, List.nil_append]
    rw [hq']
    simp

/-- **`PathParser(tokens).parse()` reads every printed union of location paths back.** -/
theorem parseTokens_print (ps : List LocPath) (h : pathsOk ps = true) :
    parseTokens (pathsToks ps) = .ok ps := by
  cases ps with
  | nil => simp [pathsOk] at h
  | cons p rest =>
    simp only [pathsOk, List.isEmpty_cons, Bool.not_false, Bool.true_and, List.all_cons, Bool.and_eq_true,
      List.all_eq_true] at h
    obtain ⟨hp, hrest⟩ := h
    obtain ⟨s, r, rfl, hs, hrs⟩ := pathOk_cons p hp
    have hts : pathsToks ((s :: r) :: rest) = stepToks s ++ (restToks r ++ unionToks rest) := by
      simp [pathsToks, pathToks]
    generalize htsd : pathsToks ((s :: r) :: rest) = ts at hts
    have hd0 : ts.drop 0 = stepToks s ++ (restToks r ++ unionToks rest) := by simpa using hts
    have hrl : r.length + rest.length ≤ ts.length := by
      have h2 := restToks_length r
      have h3 := unionToks_length rest
      rw [hts]; simp; omega
    obtain ⟨q1, last1, hq1, hat1, hl1⟩ := locLoop_print ts (unionToks rest) (rem_union rest hrest) (head_union rest)
      r s [] (16 * (ts.length + 2)) 0 hs hrs hd0 (by omega)
    obtain ⟨q', last', hq', hat'⟩ := unionLoop_print ts rest [s :: r] (16 * (ts.length + 2)) q1 last1 hrest hat1 hl1
      (by omega)
    simp only [parseTokens, hq1, hq', bind, Except.bind, atEnd_drop_one hat'.nil, pure, Except.pure, List.nil_append]
    simp

end Print
end Genshi.Path

/-
  Basic facts about the flattener's binding list: look-ups, `_find_prefix`,
  the prefix generator (freshness by a pigeonhole argument).
-/
import Genshi.Model.XmlFlatten
import Genshi.Lemmas.XmlNum
import Batteries.Data.List.Perm
import Mathlib.Data.List.Nodup
namespace Genshi.Xml
open Genshi

theorem uriOf_cons (p' u : Str) (a : Bool) (bs : List Binding) (p : Str) :
    uriOf ((p', u, a) :: bs) p = if p' = p then some u else uriOf bs p := rfl

theorem autoOf_cons (p' u : Str) (a : Bool) (bs : List Binding) (p : Str) :
    autoOf ((p', u, a) :: bs) p = if p' = p then a else autoOf bs p := rfl

/-- a bound non-empty prefix comes from a binding in the list -/
theorem uriOf_some_mem (bs : List Binding) (p u : Str) (hp : p ≠ []) (h : uriOf bs p = some u) :
    ∃ a, (p, u, a) ∈ bs := by
  induction bs with
  | nil => simp [uriOf, hp] at h
  | cons b bs ih =>
    obtain ⟨p', u', a'⟩ := b
    rw [uriOf_cons] at h
    by_cases hpp : p' = p
    · simp only [hpp, if_true, Option.some.injEq] at h
      subst hpp; subst h
      exact ⟨a', by simp⟩
    · simp only [hpp, if_false] at h
      obtain ⟨a, ha⟩ := ih h
      exact ⟨a, by simp [ha]⟩

theorem uriOf_none_of_not_mem (bs : List Binding) (p : Str) (hp : p ≠ [])
    (h : p ∉ bs.map (·.1)) : uriOf bs p = none := by
  induction bs with
  | nil => simp [uriOf, hp]
  | cons b bs ih =>
    obtain ⟨p', u', a'⟩ := b
    simp only [List.map_cons, List.mem_cons, not_or] at h
    rw [uriOf_cons]
    have : p' ≠ p := fun e => h.1 e.symm
    simp only [this, if_false]
    exact ih h.2

theorem uriOf_ne_none_of_mem (bs : List Binding) (p : Str) (h : p ∈ bs.map (·.1)) : uriOf bs p ≠ none := by
  induction bs with
  | nil => simp at h
  | cons b bs ih =>
    obtain ⟨p', u', a'⟩ := b
    rw [uriOf_cons]
    by_cases hpp : p' = p
    · simp [hpp]
    · simp only [hpp, if_false]
      apply ih
      simp only [List.map_cons, List.mem_cons] at h
      rcases h with h | h
      · exact absurd h.symm hpp
      · exact h

theorem findGo_sound (full : List Binding) (uri : Str) (fa : Bool) (bs : List Binding) (p : Str)
    (h : findGo full uri fa bs = some p) :
    uriOf full p = some uri ∧ (fa = true → p ≠ []) := by
  induction bs with
  | nil => simp [findGo] at h
  | cons b bs ih =>
    obtain ⟨p', u', a'⟩ := b
    unfold findGo at h
    split at h
    · rename_i hc
      simp only [Option.some.injEq] at h
      subst h
      refine ⟨hc.2.2, ?_⟩
      intro hfa
      rcases hc.2.1 with h1 | h1
      · intro e; apply h1; simp [e]
      · simp [hfa] at h1
    · exact ih h

theorem findPrefix_sound (bs : List Binding) (uri : Str) (fa : Bool) (p : Str)
    (h : findPrefix bs uri fa = some p) :
    uriOf bs p = some uri ∧ (fa = true → p ≠ []) := by
  unfold findPrefix at h
  split at h
  · rename_i hc
    simp only [Option.some.injEq] at h
    subst h
    exact ⟨hc.2, fun hfa => by simp [hfa] at hc⟩
  · exact findGo_sound bs uri fa bs p h

/-- completeness of the search: a usable binding is found (perhaps an inner one) -/
theorem findGo_complete (full : List Binding) (uri : Str) (fa : Bool) (bs : List Binding)
    (p : Str) (a : Bool) (hm : (p, uri, a) ∈ bs) (hp : p ≠ []) (hu : uriOf full p = some uri) :
    (findGo full uri fa bs).isSome = true := by
  induction bs with
  | nil => simp at hm
  | cons b bs ih =>
    obtain ⟨p', u', a'⟩ := b
    unfold findGo
    split
    · rfl
    · rename_i hc
      simp only [List.mem_cons, Prod.mk.injEq] at hm
      rcases hm with ⟨h1, h2, _⟩ | hm
      · exfalso; apply hc
        subst h1; subst h2
        exact ⟨rfl, Or.inl (by simpa using hp), hu⟩
      · exact ih hm

theorem findPrefix_complete (bs : List Binding) (uri : Str) (fa : Bool) (p : Str)
    (hp : p ≠ []) (hu : uriOf bs p = some uri) : (findPrefix bs uri fa).isSome = true := by
  unfold findPrefix
  split
  · rfl
  · obtain ⟨a, ha⟩ := uriOf_some_mem bs p uri hp hu
    exact findGo_complete bs uri fa bs p a ha hp hu

/-! ### the prefix generator -/

theorem nsName_ne_nil (n : Nat) : nsName n ≠ [] := by simp [nsName]

/-- if the loop gives a bound name, every candidate it tried was bound -/
theorem genLoop_bound_all (bs : List Binding) : ∀ (fuel val : Nat),
    uriOf bs (genLoop bs val fuel).1 ≠ none →
    ∀ i, i ≤ fuel → uriOf bs (nsName (val + 1 + i)) ≠ none := by
  intro fuel
  induction fuel with
  | zero =>
    intro val h i hi
    have : i = 0 := by omega
    subst this
    simpa [genLoop] using h
  | succ f ih =>
    intro val h i hi
    unfold genLoop at h
    by_cases hc : uriOf bs (nsName (val + 1)) = none
    · simp [hc] at h
    · simp only [hc, if_false] at h
      cases i with
      | zero => simpa using hc
      | succ j =>
        have := ih (val + 1) h j (by omega)
        have e : val + 1 + 1 + j = val + 1 + (j + 1) := by omega
        rwa [e] at this

/-- `bindings.length + 1` candidates are enough: the generated prefix is not bound -/
theorem genLoop_fresh (bs : List Binding) (val : Nat) :
    uriOf bs (genLoop bs val (bs.length + 1)).1 = none := by
  apply Classical.byContradiction
  intro h
  have hall := genLoop_bound_all bs (bs.length + 1) val h
  let names := (List.range (bs.length + 2)).map fun i => nsName (val + 1 + i)
  have hnd : names.Nodup := by
    apply List.Nodup.map_on _ List.nodup_range
    intro a _ b _ hab
    have := nsName_injective hab
    omega
  have hsub : names ⊆ bs.map (·.1) := by
    intro x hx
    simp only [names, List.mem_map, List.mem_range] at hx
    obtain ⟨i, hi, rfl⟩ := hx
    apply Classical.byContradiction
    intro hn
    exact hall i (by omega) (uriOf_none_of_not_mem bs _ (nsName_ne_nil _) hn)
  have := (List.subperm_of_subset hnd hsub).length_le
  simp [names] at this
  omega

theorem genLoop_prefix (bs : List Binding) : ∀ (fuel val : Nat),
    ∃ n, (genLoop bs val fuel).1 = nsName n := by
  intro fuel
  induction fuel with
  | zero => intro val; exact ⟨val + 1, rfl⟩
  | succ f ih =>
    intro val
    unfold genLoop
    by_cases hc : uriOf bs (nsName (val + 1)) = none
    · simp only [hc, if_true]; exact ⟨val + 1, rfl⟩
    · simp only [hc, if_false]; exact ih (val + 1)

end Genshi.Xml

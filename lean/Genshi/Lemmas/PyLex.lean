/-
  C03 — the expression boundaries found by `lex`: for text `pre ${inner} post` the expression chunk
  is exactly `inner`, for every `inner` built from blanks, operators, words, string literals and
  balanced braces nested to any depth.
-/
import Genshi.Model.PyLex
namespace Genshi.Py.Lex

/-- characters the brace scanner passes over one at a time, without a special meaning -/
def plainChar (c : Char) : Bool := isBlank c || c = '\n' || (isOpChar c && c != '{' && c != '}')

/-- the inside of a string literal with quote `q` -/
inductive StrBody (q : Char) : List Char → Prop where
  | nil : StrBody q []
  | char (c : Char) (r : List Char) : c ≠ q → c ≠ '\n' → c ≠ '\\' → StrBody q r → StrBody q (c :: r)
  | esc (d : Char) (r : List Char) : StrBody q r → StrBody q ('\\' :: d :: r)

/-- expression text the scanner passes over as a whole: balanced in braces outside string literals -/
inductive Scannable : List Char → Prop where
  | nil : Scannable []
  | plain (c : Char) (r : List Char) : plainChar c = true → Scannable r → Scannable (c :: r)
  | word (c : Char) (r : List Char) : isWord c = true → Scannable r → Scannable (c :: r)
  | str (q : Char) (body r : List Char) : (q = '\'' ∨ q = '"') → StrBody q body → Scannable r →
      Scannable (q :: (body ++ q :: r))
  | braces (inner r : List Char) : Scannable inner → Scannable r → Scannable ('{' :: (inner ++ '}' :: r))
  | comment (body r : List Char) : (∀ c ∈ body, c ≠ '\n' ∧ c ≠ '\r') → Scannable r →
      Scannable ('#' :: (body ++ '\n' :: r))
  | crlf (r : List Char) : Scannable r → Scannable ('\r' :: '\n' :: r)

theorem scanStr_body (q : Char) (hq : q ≠ '\\') (body : List Char) (h : StrBody q body) :
    ∀ (fuel : Nat) (acc rest : List Char), body.length + 1 ≤ fuel →
      scanStr q fuel acc (body ++ q :: rest) = .ok (q :: (body.reverse ++ acc), rest) := by
  induction h with
  | nil =>
    intro fuel acc rest hf
    obtain ⟨f, rfl⟩ : ∃ f, fuel = f + 1 := ⟨fuel - 1, by simp at hf; omega⟩
    simp [scanStr]
  | char c r h1 h2 h3 _ ih =>
    intro fuel acc rest hf
    obtain ⟨f, rfl⟩ : ∃ f, fuel = f + 1 := ⟨fuel - 1, by simp at hf; omega⟩
    have := ih f (c :: acc) rest (by simp at hf ⊢; omega)
    simp [scanStr, h1, h2, h3, this]
  | esc d r _ ih =>
    intro fuel acc rest hf
    obtain ⟨f, rfl⟩ : ∃ f, fuel = f + 1 := ⟨fuel - 1, by simp at hf; omega⟩
    have := ih f (d :: '\\' :: acc) rest (by simp at hf ⊢; omega)
    have hb : ¬ ('\\' = q) := fun e => hq e.symm
    simp [scanStr, hb, this]

theorem takeWhileRev_eq (p : Char → Bool) : ∀ (r acc : List Char),
    takeWhileRev p acc r = ((r.takeWhile p).reverse ++ acc, r.dropWhile p)
  | [], acc => by simp [takeWhileRev]
  | c :: r, acc => by
      by_cases h : p c = true
      · simp [takeWhileRev, h, takeWhileRev_eq p r (c :: acc)]
      · simp [takeWhileRev, h]

/-- what follows does not continue a word -/
def NoWordStart (rest : List Char) : Prop := ∀ c r, rest = c :: r → isWord c = false

theorem takeWhile_word_append (r rest : List Char) (h : NoWordStart rest) :
    (r ++ rest).takeWhile isWord = r.takeWhile isWord ∧ (r ++ rest).dropWhile isWord = r.dropWhile isWord ++ rest := by
  induction r with
  | nil =>
    cases rest with
    | nil => simp
    | cons c r' => have := h c r' rfl; simp [this]
  | cons c r ih =>
    by_cases hc : isWord c = true
    · simp [hc, ih.1, ih.2]
    · simp [hc]

theorem plain_not_word {c : Char} (h : plainChar c = true) : isWord c = false := by
  simp only [plainChar, isBlank, isOpChar, Bool.or_eq_true, Bool.and_eq_true, decide_eq_true_eq,
    List.contains_cons, List.contains_nil, Bool.or_false, beq_iff_eq] at h
  rcases h with (((rfl | rfl) | rfl) | rfl) | ⟨⟨h, _⟩, _⟩
  any_goals decide
  rcases h with rfl | rfl | rfl | rfl | rfl | rfl | rfl | rfl | rfl | rfl | rfl | rfl | rfl | rfl | rfl | rfl | rfl | rfl
    | rfl | rfl | rfl | rfl | rfl | rfl | rfl <;> decide

/-- a sub-derivation for what follows the leading word characters -/
theorem scannable_dropWord : ∀ (r : List Char), Scannable r → Scannable (r.dropWhile isWord)
  | [], _ => by simpa using Scannable.nil
  | c :: r, h => by
      by_cases hc : isWord c = true
      · simp only [List.dropWhile_cons, hc, if_true]
        cases h with
        | plain _ _ hp _ => rw [plain_not_word hp] at hc; cases hc
        | word _ _ _ hr => exact scannable_dropWord r hr
        | str q body r' hq _ _ => rcases hq with rfl | rfl <;> exact absurd hc (by decide)
        | braces _ _ _ _ => exact absurd hc (by decide)
        | comment _ _ _ _ => exact absurd hc (by decide)
        | crlf _ _ => exact absurd hc (by decide)
      · simpa [hc] using h

theorem op_not_word {c : Char} (h : isOpChar c = true) : isWord c = false := by
  simp only [isOpChar, List.contains_cons, List.contains_nil, Bool.or_false, Bool.or_eq_true, beq_iff_eq] at h
  rcases h with rfl | rfl | rfl | rfl | rfl | rfl | rfl | rfl | rfl | rfl | rfl | rfl | rfl | rfl | rfl | rfl | rfl | rfl
    | rfl | rfl | rfl | rfl | rfl | rfl | rfl <;> decide

theorem word_facts {c : Char} (hw : isWord c = true) :
    isBlank c = false ∧ c ≠ '\n' ∧ c ≠ '\r' ∧ c ≠ '#' ∧ c ≠ '\'' ∧ c ≠ '"' ∧ c ≠ '{' ∧ c ≠ '}' ∧ isOpChar c = false := by
  have ne : ∀ k : Char, isWord k = false → c ≠ k := fun k hk e => by subst e; rw [hw] at hk; cases hk
  refine ⟨?_, ne _ (by decide), ne _ (by decide), ne _ (by decide), ne _ (by decide), ne _ (by decide), ne _ (by decide),
    ne _ (by decide), ?_⟩
  · simp [isBlank, ne ' ' (by decide), ne '\t' (by decide), ne '\x0c' (by decide)]
  · cases ho : isOpChar c with
    | false => rfl
    | true => rw [op_not_word ho] at hw; cases hw

theorem scan_word (c : Char) (hw : isWord c = true) (f level : Nat) (acc r : List Char) :
    scanBraces (f + 1) level acc (c :: r)
      = scanBraces f level ((r.takeWhile isWord).reverse ++ c :: acc) (r.dropWhile isWord) := by
  obtain ⟨h1, h2, h3, h4, h5, h6, h7, h8, h9⟩ := word_facts hw
  simp [scanBraces, h1, h2, h3, h4, h5, h6, h7, h8, h9, hw, takeWhileRev_eq]

theorem scan_plain (c : Char) (h : plainChar c = true) (f level : Nat) (acc r : List Char) :
    scanBraces (f + 1) level acc (c :: r) = scanBraces f level (c :: acc) r := by
  simp only [plainChar, isBlank, isOpChar, Bool.or_eq_true, Bool.and_eq_true, decide_eq_true_eq,
    List.contains_cons, List.contains_nil, Bool.or_false, beq_iff_eq] at h
  rcases h with (((rfl | rfl) | rfl) | rfl) | ⟨⟨h, h'⟩, h''⟩
  any_goals simp [scanBraces, isBlank]
  rcases h with rfl | rfl | rfl | rfl | rfl | rfl | rfl | rfl | rfl | rfl | rfl | rfl | rfl | rfl | rfl | rfl | rfl | rfl
    | rfl | rfl | rfl | rfl | rfl | rfl | rfl <;> first
    | (simp at h'; done)
    | (simp at h''; done)
    | simp [scanBraces, isBlank, isOpChar]

theorem scan_open (f level : Nat) (acc r : List Char) :
    scanBraces (f + 1) level acc ('{' :: r) = scanBraces f (level + 1) ('{' :: acc) r := by
  simp [scanBraces, isBlank]

theorem scan_close (f level : Nat) (acc r : List Char) (h : level ≠ 1) :
    scanBraces (f + 1) level acc ('}' :: r) = scanBraces f (level - 1) ('}' :: acc) r := by
  simp [scanBraces, isBlank, h]

theorem scan_close1 (f : Nat) (acc r : List Char) : scanBraces (f + 1) 1 acc ('}' :: r) = .ok (acc, r) := by
  simp [scanBraces, isBlank]

theorem scan_str (q : Char) (hq : q = '\'' ∨ q = '"') (body : List Char) (hb : StrBody q body) (f level : Nat)
    (acc r : List Char) (hf : body.length + 1 ≤ f) :
    scanBraces (f + 1) level acc (q :: (body ++ q :: r)) = scanBraces f level (q :: (body.reverse ++ q :: acc)) r := by
  have hne : q ≠ '\\' := by rcases hq with rfl | rfl <;> decide
  have hs := scanStr_body q hne body hb f (q :: acc) r hf
  rcases hq with rfl | rfl <;> simp [scanBraces, isBlank, hs]

theorem scan_crlf (f level : Nat) (acc r : List Char) :
    scanBraces (f + 1) level acc ('\r' :: '\n' :: r) = scanBraces f level ('\n' :: '\r' :: acc) r := by
  simp [scanBraces, isBlank]

theorem takeWhile_line (body r : List Char) (h : ∀ c ∈ body, c ≠ '\n' ∧ c ≠ '\r') :
    (body ++ '\n' :: r).takeWhile (fun d => d != '\n' && d != '\r') = body
      ∧ (body ++ '\n' :: r).dropWhile (fun d => d != '\n' && d != '\r') = '\n' :: r := by
  induction body with
  | nil => simp
  | cons c b ih =>
    have hc := h c (by simp)
    have := ih (fun x hx => h x (by simp [hx]))
    simp [hc.1, hc.2, this.1, this.2]

theorem scan_comment (body : List Char) (h : ∀ c ∈ body, c ≠ '\n' ∧ c ≠ '\r') (f level : Nat) (acc r : List Char) :
    scanBraces (f + 1) level acc ('#' :: (body ++ '\n' :: r)) = scanBraces f level (body.reverse ++ '#' :: acc) ('\n' :: r) := by
  have := takeWhile_line body r h
  simp [scanBraces, isBlank, takeWhileRev_eq, this.1, this.2]

theorem noWord_close (r : List Char) : NoWordStart ('}' :: r) := by
  intro c r' e
  obtain ⟨rfl, _⟩ := List.cons.inj e
  decide

/-- the brace scanner passes over scannable text as a whole, at any nesting level -/
theorem scan_skip : ∀ (n : Nat) (inner : List Char), inner.length ≤ n → Scannable inner →
    ∀ (fuel level : Nat) (acc rest : List Char), 1 ≤ level → inner.length + 1 ≤ fuel → NoWordStart rest →
      ∃ fuel', fuel ≤ fuel' + inner.length ∧
        scanBraces fuel level acc (inner ++ rest) = scanBraces fuel' level (inner.reverse ++ acc) rest := by
  intro n
  induction n with
  | zero =>
    intro inner hn _ fuel level acc rest _ _ _
    have : inner = [] := by cases inner <;> simp_all
    subst this
    exact ⟨fuel, by simp, rfl⟩
  | succ n ih =>
    intro inner hn hs fuel level acc rest hl hf hw
    cases hs with
    | nil => exact ⟨fuel, by simp, rfl⟩
    | plain c r hp hr =>
      obtain ⟨f, rfl⟩ : ∃ f, fuel = f + 1 := ⟨fuel - 1, by omega⟩
      simp only [List.length_cons] at hn hf
      obtain ⟨f', h1, h2⟩ := ih r (by omega) hr f level (c :: acc) rest hl (by omega) hw
      refine ⟨f', by simp only [List.length_cons]; omega, ?_⟩
      simp only [List.cons_append, scan_plain c hp, h2]
      simp
    | word c r hc hr =>
      obtain ⟨f, rfl⟩ : ∃ f, fuel = f + 1 := ⟨fuel - 1, by omega⟩
      simp only [List.length_cons] at hn hf
      have hsplit := takeWhile_word_append r rest hw
      have hlen : (r.takeWhile isWord).length + (r.dropWhile isWord).length = r.length := by
        rw [← List.length_append, List.takeWhile_append_dropWhile]
      obtain ⟨f', h1, h2⟩ := ih (r.dropWhile isWord) (by omega) (scannable_dropWord r hr) f level
        ((r.takeWhile isWord).reverse ++ c :: acc) rest hl (by omega) hw
      refine ⟨f', by simp only [List.length_cons]; omega, ?_⟩
      simp only [List.cons_append, scan_word c hc, hsplit.1, hsplit.2, h2]
      congr 1
      have : r.reverse = (r.dropWhile isWord).reverse ++ (r.takeWhile isWord).reverse := by
        rw [← List.reverse_append, List.takeWhile_append_dropWhile]
      simp [this]
    | str q body r hq hb hr =>
      obtain ⟨f, rfl⟩ : ∃ f, fuel = f + 1 := ⟨fuel - 1, by omega⟩
      simp only [List.length_cons, List.length_append] at hn hf
      obtain ⟨f', h1, h2⟩ := ih r (by omega) hr f level (q :: (body.reverse ++ q :: acc)) rest hl (by omega) hw
      refine ⟨f', by simp only [List.length_cons, List.length_append]; omega, ?_⟩
      simp only [List.cons_append, List.append_assoc]
      rw [scan_str q hq body hb f level acc (r ++ rest) (by omega), h2]
      simp
    | comment body r hb hr =>
      obtain ⟨f, rfl⟩ : ∃ f, fuel = f + 1 := ⟨fuel - 1, by omega⟩
      simp only [List.length_cons, List.length_append] at hn hf
      obtain ⟨f1, rfl⟩ : ∃ f1, f = f1 + 1 := ⟨f - 1, by omega⟩
      obtain ⟨f', h1, h2⟩ := ih r (by omega) hr f1 level ('\n' :: (body.reverse ++ '#' :: acc)) rest hl (by omega) hw
      refine ⟨f', by simp only [List.length_cons, List.length_append]; omega, ?_⟩
      simp only [List.cons_append, List.append_assoc]
      rw [scan_comment body hb, scan_plain '\n' (by decide), h2]
      simp
    | crlf r hr =>
      obtain ⟨f, rfl⟩ : ∃ f, fuel = f + 1 := ⟨fuel - 1, by omega⟩
      simp only [List.length_cons] at hn hf
      obtain ⟨f', h1, h2⟩ := ih r (by omega) hr f level ('\n' :: '\r' :: acc) rest hl (by omega) hw
      refine ⟨f', by simp only [List.length_cons]; omega, ?_⟩
      simp only [List.cons_append]
      rw [scan_crlf, h2]
      simp
    | braces inner' r hi hr =>
      obtain ⟨f, rfl⟩ : ∃ f, fuel = f + 1 := ⟨fuel - 1, by omega⟩
      simp only [List.length_cons, List.length_append] at hn hf
      obtain ⟨f1, a1, a2⟩ := ih inner' (by omega) hi f (level + 1) ('{' :: acc) ('}' :: (r ++ rest)) (by omega) (by omega)
        (noWord_close _)
      obtain ⟨f2, rfl⟩ : ∃ f2, f1 = f2 + 1 := ⟨f1 - 1, by omega⟩
      obtain ⟨f3, b1, b2⟩ := ih r (by omega) hr f2 level ('}' :: (inner'.reverse ++ '{' :: acc)) rest hl (by omega) hw
      refine ⟨f3, by simp only [List.length_cons, List.length_append]; omega, ?_⟩
      simp only [List.cons_append, List.append_assoc]
      rw [scan_open, a2, scan_close _ _ _ _ (by omega), Nat.add_sub_cancel, b2]
      simp

/-- `${inner}`: the scanner returns exactly `inner` and what follows the closing brace -/
theorem scanBraces_inner (inner post : List Char) (h : Scannable inner) (fuel : Nat) (hf : inner.length + 2 ≤ fuel) :
    scanBraces fuel 1 [] (inner ++ '}' :: post) = .ok (inner.reverse, post) := by
  obtain ⟨f', h1, h2⟩ := scan_skip inner.length inner (Nat.le_refl _) h fuel 1 []
    ('}' :: post) (Nat.le_refl _) (by omega) (noWord_close _)
  obtain ⟨f, rfl⟩ : ∃ f, f' = f + 1 := ⟨f' - 1, by omega⟩
  rw [h2, scan_close1]
  simp

/-! ### the chunk loop -/

theorem lexGo_text (t : List Char) (ht : ∀ c ∈ t, c ≠ '$') :
    ∀ (fuel : Nat) (lit : List Char) (out : List (Bool × List Char)) (rest : List Char), t.length ≤ fuel →
      lexGo fuel lit out (t ++ rest) = lexGo (fuel - t.length) (t.reverse ++ lit) out rest := by
  induction t with
  | nil => intro fuel lit out rest _; simp
  | cons c t ih =>
    intro fuel lit out rest hf
    obtain ⟨f, rfl⟩ : ∃ f, fuel = f + 1 := ⟨fuel - 1, by simp at hf; omega⟩
    have hc : c ≠ '$' := ht c (by simp)
    have := ih (fun x hx => ht x (by simp [hx])) f (c :: lit) out rest (by simp at hf; omega)
    simp only [List.cons_append, List.length_cons, Nat.add_sub_add_right]
    rw [lexGo]
    · rw [this]; simp
    · intro e; exact absurd e hc
    · intro _ _ e; exact absurd e hc

theorem lexGo_end (f : Nat) (lit : List Char) (out : List (Bool × List Char)) :
    lexGo (f + 1) lit out [] = .ok (flush lit out).reverse := by
  simp [lexGo]

/-- `${inner}` becomes an expression chunk with exactly the text between the braces -/
theorem lexGo_expr (f : Nat) (lit : List Char) (out : List (Bool × List Char)) (inner post : List Char)
    (h : Scannable inner) :
    lexGo (f + 1) lit out ('$' :: '{' :: (inner ++ '}' :: post)) = lexGo f [] ((true, inner) :: flush lit out) post := by
  simp only [lexGo, if_true]
  rw [scanBraces_inner inner post h _ (by simp only [List.length_append, List.length_cons]; omega)]
  simp

/-- `$$` is the escape for a literal `$`: the text before it is emitted, the second `$` starts the next literal -/
theorem lexGo_dollar2 (f : Nat) (lit : List Char) (out : List (Bool × List Char)) (r : List Char) :
    lexGo (f + 1) lit out ('$' :: '$' :: r) = lexGo f ['$'] (flush lit out) r := by
  simp [lexGo, isNameStart]

/-- `$name.attr`: the longest run of name characters after a name start -/
theorem lexGo_name (f : Nat) (lit : List Char) (out : List (Bool × List Char)) (c : Char) (r : List Char)
    (hc : isNameStart c = true) :
    lexGo (f + 1) lit out ('$' :: c :: r)
      = lexGo f [] ((true, stripAscii (c :: r.takeWhile isNameChar)) :: flush lit out) (r.dropWhile isNameChar) := by
  have h1 : c ≠ '{' := by rintro rfl; exact absurd hc (by decide)
  simp [lexGo, h1, hc, takeWhileRev_eq]

def textChunk (t : List Char) : List (Bool × List Char) := if t.isEmpty then [] else [(false, t)]

/-- **Expression boundaries.**  In `pre ${inner} post` (no `$` in `pre` and `post`) the expression
    chunk is exactly `inner`, for every scannable `inner`: blanks, operators, words, string
    literals (with escapes, braces and `$` inside them) and balanced braces nested to any depth. -/
theorem lex_expr (pre inner post : List Char) (hpre : ∀ c ∈ pre, c ≠ '$') (hpost : ∀ c ∈ post, c ≠ '$')
    (hi : Scannable inner) :
    lex (pre ++ '$' :: '{' :: (inner ++ '}' :: post)) = .ok (textChunk pre ++ [(true, inner)] ++ textChunk post) := by
  unfold lex
  rw [lexGo_text pre hpre _ _ _ _ (by simp; omega)]
  have e1 : (pre ++ '$' :: '{' :: (inner ++ '}' :: post)).length + 1 - pre.length = (inner.length + post.length + 3) + 1 := by
    simp; omega
  rw [e1, lexGo_expr _ _ _ _ _ hi]
  have := lexGo_text post hpost (inner.length + post.length + 3) [] ((true, inner) :: flush (pre.reverse ++ []) []) []
    (by omega)
  simp only [List.append_nil] at this ⊢
  rw [this]
  obtain ⟨k, hk⟩ : ∃ k, inner.length + post.length + 3 - post.length = k + 1 := ⟨inner.length + 2, by omega⟩
  rw [hk, lexGo_end]
  cases pre <;> cases post <;> simp [flush, textChunk]

end Genshi.Py.Lex

/-
  Helper lemmas for C09: two whitespace filters whose normalisations agree up to
  the white-space normal form give outputs that agree up to the normal form —
  in every context, with or without a doctype option.
-/
import Genshi.Lemmas.OutputWsAbsorb
import Genshi.Lemmas.OutputWsDoctype
namespace Genshi.Output
open Genshi Genshi.Escape

/-- equal in every context, up to the white-space normal form -/
def WsEq (a b : Str) : Prop := ∀ A B : Str, wsNorm (A ++ (a ++ B)) = wsNorm (A ++ (b ++ B))

theorem WsEq.rfl' (a : Str) : WsEq a a := fun _ _ => rfl

theorem WsEq.append {a a' b b' : Str} (h1 : WsEq a a') (h2 : WsEq b b') : WsEq (a ++ b) (a' ++ b') := by
  intro A B
  have e1 := h1 A (b ++ B)
  have e2 := h2 (A ++ a') B
  simp only [List.append_assoc] at e1 e2 ⊢
  rw [e1, e2]

theorem wsEq_wsNorm (x : Str) : WsEq (wsNorm x) x := fun A B => wsNorm_absorb A x B

theorem wsEq_stdNorm (p : Bool) (x : Str) : WsEq (stdNorm p x) (idNorm p x) := by
  unfold stdNorm idNorm
  cases p
  · simpa using wsEq_wsNorm x
  · exact WsEq.rfl' x

/-- two events are the same, or both are Markup text with contents equal up to the normal form -/
def EvRel {ν : Type} (e1 e2 : XEv ν) : Prop :=
  e1 = e2 ∨ ∃ s1 s2, e1 = .text s1 true ∧ e2 = .text s2 true ∧ WsEq s1 s2

inductive ListRel {ν : Type} : List (XEv ν) → List (XEv ν) → Prop where
  | nil : ListRel [] []
  | cons {e1 e2 : XEv ν} {l1 l2 : List (XEv ν)} : EvRel e1 e2 → ListRel l1 l2 → ListRel (e1 :: l1) (e2 :: l2)

theorem ListRel.refl {ν : Type} (l : List (XEv ν)) : ListRel l l := by
  induction l with
  | nil => exact .nil
  | cons e es ih => exact .cons (Or.inl rfl) ih

theorem ListRel.append {ν : Type} {a a' b b' : List (XEv ν)} (h1 : ListRel a a') (h2 : ListRel b b') :
    ListRel (a ++ b) (a' ++ b') := by
  induction h1 with
  | nil => simpa using h2
  | cons he _ ih => exact .cons he ih

/-- the two filters hand on related streams -/
theorem wsFilterG_rel (n1 n2 : Bool → Str → Str) (h : ∀ p x, WsEq (n1 p x) (n2 p x)) (cfg : WsCfg)
    (es : List QEv) : ∀ wst : WsSt, ListRel (wsFilterG n1 cfg wst es) (wsFilterG n2 cfg wst es) := by
  have hflush : ∀ wst : WsSt, ListRel (wsFlushG n1 wst) (wsFlushG n2 wst) := by
    intro wst
    unfold wsFlushG
    by_cases he : wst.textbuf.isEmpty = true
    · simp only [he, ↓reduceIte]; exact .nil
    · simp only [he, Bool.false_eq_true, ↓reduceIte]
      exact .cons (Or.inr ⟨_, _, rfl, rfl, h _ _⟩) .nil
  induction es with
  | nil => intro wst; simpa [wsFilterG] using hflush wst
  | cons ev rest ih =>
    intro wst
    cases ev with
    | text s safe => simp only [wsFilterG]; exact ih _
    | start t a => simp only [wsFilterG]; exact (hflush wst).append (.cons (Or.inl rfl) (ih _))
    | empty t a => simp only [wsFilterG]; exact (hflush wst).append (.cons (Or.inl rfl) (ih _))
    | end_ t => simp only [wsFilterG]; exact (hflush wst).append (.cons (Or.inl rfl) (ih _))
    | comment s => simp only [wsFilterG]; exact (hflush wst).append (.cons (Or.inl rfl) (ih _))
    | pi t d => simp only [wsFilterG]; exact (hflush wst).append (.cons (Or.inl rfl) (ih _))
    | doctype n p q => simp only [wsFilterG]; exact (hflush wst).append (.cons (Or.inl rfl) (ih _))
    | xmlDecl v e q => simp only [wsFilterG]; exact (hflush wst).append (.cons (Or.inl rfl) (ih _))
    | startNs p u => simp only [wsFilterG]; exact (hflush wst).append (.cons (Or.inl rfl) (ih _))
    | endNs p => simp only [wsFilterG]; exact (hflush wst).append (.cons (Or.inl rfl) (ih _))
    | startCdata => simp only [wsFilterG]; exact (hflush wst).append (.cons (Or.inl rfl) (ih _))
    | endCdata => simp only [wsFilterG]; exact (hflush wst).append (.cons (Or.inl rfl) (ih _))

/-- `none` together, or related results -/
def OptRel {α : Type} (R : α → α → Prop) : Option α → Option α → Prop
  | none, none => True
  | some a, some b => R a b
  | _, _ => False

/-- the flattener (no cache) keeps streams related -/
theorem flatten_rel {X Y : List QEv} (h : ListRel X Y) :
    ∀ fst : FlatSt, OptRel ListRel (flatten false fst X) (flatten false fst Y) := by
  induction h with
  | nil => intro fst; simp [flatten, OptRel]; exact .nil
  | @cons e1 e2 l1 l2 he _ ih =>
    intro fst
    rcases he with heq | ⟨s1, s2, h1, h2, hw⟩
    · subst heq
      cases hs : flatStep false fst e1 with
      | none => rw [flatten_cons_none _ _ _ hs, flatten_cons_none _ _ _ hs]; trivial
      | some r =>
        rw [flatten_cons_some' _ _ _ _ hs, flatten_cons_some' _ _ _ _ hs]
        have := ih r.1
        cases hf1 : flatten false r.1 l1 <;> cases hf2 : flatten false r.1 l2 <;> simp_all [OptRel]
        exact (ListRel.refl r.2).append this
    · subst h1; subst h2
      rw [flatten_text_cons, flatten_text_cons]
      have := ih fst
      cases hf1 : flatten false fst l1 <;> cases hf2 : flatten false fst l2 <;> simp_all [OptRel]
      exact .cons (Or.inr ⟨_, _, rfl, rfl, hw⟩) this

/-- `DocTypeInserter` keeps streams related -/
theorem docTypeInsert_rel (d : DocTypeT) {F G : List FEv} (h : ListRel F G) :
    ListRel (docTypeInsert d F) (docTypeInsert d G) := by
  cases h with
  | nil => exact ListRel.refl _
  | @cons e1 e2 l1 l2 he hl =>
    rcases he with heq | ⟨s1, s2, h1, h2, hw⟩
    · subst heq
      cases e1 <;> simp only [docTypeInsert] <;>
        first
        | exact .cons (Or.inl rfl) (.cons (Or.inl rfl) hl)
    · subst h1; subst h2
      simp only [docTypeInsert]
      exact .cons (Or.inl rfl) (.cons (Or.inr ⟨_, _, rfl, rfl, hw⟩) hl)

/-- the main loop (no cache) writes related outputs for related streams -/
theorem loop_rel (m : Method) (o : Opts) {F G : List FEv} (h : ListRel F G) :
    ∀ lst : LoopSt, WsEq (loop m o false lst F).flatten (loop m o false lst G).flatten := by
  induction h with
  | nil => intro lst; exact WsEq.rfl' _
  | @cons e1 e2 l1 l2 he _ ih =>
    intro lst
    rcases he with heq | ⟨s1, s2, h1, h2, hw⟩
    · subst heq
      simp only [loop, List.flatten_append]
      exact (WsEq.rfl' _).append (ih _)
    · subst h1; subst h2
      simp only [loop, step, List.flatten_append, List.flatten_cons, List.flatten_nil, List.append_nil]
      exact hw.append (ih _)

end Genshi.Output

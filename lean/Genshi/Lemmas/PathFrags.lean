/-
  SimplePathStrategy on paths with several fragments: the nodes it reports are the XPath
  node set of the path (`simple_marks`).

  The entry `(fid, p, ic)` on the matcher's stack is read through the reference semantics
  (`ESem`): a context-bound entry stands for "the rest of fragment 0 from test `p` on, then the
  rest of the path"; a context-ignoring entry for `SemIc` — the current fragment may start
  anywhere below, or a matched prefix (`p` is the longest, the shorter ones are its borders:
  `Lemmas/PathKmp*.lean`) is continued.  One event keeps the reading (`visit`); when a
  fragment is completed the matcher moves to the next one and forgets the other candidates
  of the completed fragment — sound by the domination lemma `semIc_dom`.
-/
import Genshi.Lemmas.PathFragsRef
import Genshi.Lemmas.PathNonPos
import Genshi.Model.PathFrags
namespace Genshi.Path.Frags
open Genshi Genshi.Path Genshi.Path.Ref Genshi.Path.Kmp

/-! ## A stack machine over the events of a tree -/

theorem selB_none (vs : List Val) (x : List Nat) : selB vs [none] x = false := by
  cases vs with
  | nil => simp [selB, matched]
  | cons v vs => cases vs <;> simp [selB, matched]

section Tree
variable {α X : Type}

mutual
  theorem stackTree (step : List α → Event → List α × Val) (Ok : α → X → Prop) (Sem : α → X → LNode → LNode → Prop)
      (hend : ∀ st tg, step st (.end_ tg) = (st.drop 1, .none))
      (hvisit : ∀ (E : α) (x : X), Ok E x → ∀ (c : LNode), c.node.clean = true → ∀ rest : List α,
        ∃ (E' : α) (x' : X) (m : Bool), Ok E' x' ∧
          step (E :: rest) (nodeEvent c.node)
            = ((if (nodeEvent c.node).isStart then E' :: E :: rest else E :: rest), if m then .bool true else .none) ∧
          ∀ t : LNode, Sem E x c t ↔ ((m = true ∧ (c.loc == t.loc) = true) ∨ ∃ k ∈ childrenOf c, Sem E' x' k t)) :
      ∀ (n : Node), n.clean = true → ∀ (loc : List Nat) (E : α) (x : X) (rest : List α), Ok E x →
        (runOne step (E :: rest) n.flatten).2 = E :: rest ∧
        okVals (runOne step (E :: rest) n.flatten).1 (eventLocs n loc) ∧
        ∀ t : LNode, selB (runOne step (E :: rest) n.flatten).1 (eventLocs n loc) t.loc = true ↔ Sem E x ⟨loc, n⟩ t
    | .elem tg ats ks, hcl, loc, E, x, rest, hE => by
        obtain ⟨E', x', m, hE', hs, hsem⟩ := hvisit E x hE ⟨loc, .elem tg ats ks⟩ hcl rest
        simp only [nodeEvent, Event.isStart, if_true] at hs
        have hk := stackTreeList step Ok Sem hend hvisit ks (by simpa [Node.clean] using hcl) loc 0 E' x' (E :: rest) hE'
        simp only [Node.flatten, eventLocs, runOne_cons, runOne_append]
        rw [hs]
        simp only []
        rw [hk.1]
        refine ⟨by simp [runOne, hend], ?_, fun t => ?_⟩
        · simp only [okVals]
          refine ⟨by cases m <;> simp, ?_⟩
          rw [okVals_append _ _ _ _ (by rw [runOne_length, eventLocsList_length])]
          exact ⟨hk.2.1, by simp [runOne, hend, okVals]⟩
        rw [selB_cons, selB_append _ _ _ _ (by rw [runOne_length, eventLocsList_length]), hsem t]
        simp only [Bool.or_eq_true, Bool.and_eq_true, hk.2.2 t, selB_none, Bool.false_eq_true, or_false]
        have hkids : childrenOf ⟨loc, .elem tg ats ks⟩ = kidsAt ks loc 0 := rfl
        rw [hkids]
        cases m <;> simp [Val.truthy]
    | .leaf e, hcl, loc, E, x, rest, hE => by
        obtain ⟨E', x', m, hE', hs, hsem⟩ := hvisit E x hE ⟨loc, .leaf e⟩ hcl rest
        simp only [Node.clean, Bool.and_eq_true, Bool.not_eq_true'] at hcl
        obtain ⟨hend', hstart⟩ := isEnd_of_not_startEnd hcl.1
        simp only [nodeEvent, hstart, Bool.false_eq_true, if_false] at hs
        simp only [Node.flatten, eventLocs, runOne, hs]
        refine ⟨trivial, by cases m <;> simp [okVals], fun t => ?_⟩
        rw [hsem t]
        have hkids : childrenOf ⟨loc, .leaf e⟩ = [] := rfl
        rw [hkids]
        cases m <;> simp [selB, matched, Val.truthy]
  theorem stackTreeList (step : List α → Event → List α × Val) (Ok : α → X → Prop) (Sem : α → X → LNode → LNode → Prop)
      (hend : ∀ st tg, step st (.end_ tg) = (st.drop 1, .none))
      (hvisit : ∀ (E : α) (x : X), Ok E x → ∀ (c : LNode), c.node.clean = true → ∀ rest : List α,
        ∃ (E' : α) (x' : X) (m : Bool), Ok E' x' ∧
          step (E :: rest) (nodeEvent c.node)
            = ((if (nodeEvent c.node).isStart then E' :: E :: rest else E :: rest), if m then .bool true else .none) ∧
          ∀ t : LNode, Sem E x c t ↔ ((m = true ∧ (c.loc == t.loc) = true) ∨ ∃ k ∈ childrenOf c, Sem E' x' k t)) :
      ∀ (ks : List Node), cleanList ks = true → ∀ (loc : List Nat) (i : Nat) (E : α) (x : X) (rest : List α), Ok E x →
        (runOne step (E :: rest) (flattenList ks)).2 = E :: rest ∧
        okVals (runOne step (E :: rest) (flattenList ks)).1 (eventLocsList ks loc i) ∧
        ∀ t : LNode, selB (runOne step (E :: rest) (flattenList ks)).1 (eventLocsList ks loc i) t.loc = true ↔
          ∃ k ∈ kidsAt ks loc i, Sem E x k t
    | [], _, loc, i, E, x, rest, _ => by simp [Genshi.flattenList, eventLocsList, runOne, selB, matched, kidsAt, okVals]
    | k :: ks, hcl, loc, i, E, x, rest, hE => by
        simp only [cleanList, Bool.and_eq_true] at hcl
        have h1 := stackTree step Ok Sem hend hvisit k hcl.1 (loc ++ [i]) E x rest hE
        have h2 := stackTreeList step Ok Sem hend hvisit ks hcl.2 loc (i + 1) E x rest hE
        simp only [Genshi.flattenList, eventLocsList, runOne_append]
        rw [h1.1]
        refine ⟨h2.1, ?_, fun t => ?_⟩
        · rw [okVals_append _ _ _ _ (by rw [runOne_length, eventLocs_length])]
          exact ⟨h1.2.1, h2.2.1⟩
        rw [selB_append _ _ _ _ (by rw [runOne_length, eventLocs_length])]
        simp only [Bool.or_eq_true, h1.2.2 t, h2.2.2 t, kidsAt, List.zipIdx_cons, List.map_cons, List.mem_cons,
          exists_eq_or_imp]
end

end Tree

/-! ## Fragment lists -/

/-- the steps a fragment after the first stands for -/
def fragSteps (f : Frag) : LocPath :=
  fragPath (if f.selfBeginning then .descendantOrSelf else .descendant) f.tests

def tailPath : List Frag → LocPath
  | [] => []
  | f :: fs => fragSteps f ++ tailPath fs

/-- the path after the fragments before index `i` -/
def restPath (frags : List Frag) (i : Nat) : LocPath := tailPath (frags.drop i)

theorem restPath_get (frags : List Frag) (i : Nat) (f : Frag) (h : frags[i]? = some f) :
    restPath frags i = fragSteps f ++ restPath frags (i + 1) := by
  obtain ⟨hlt, hs⟩ := List.getElem?_eq_some_iff.mp h
  simp only [restPath]
  rw [List.drop_eq_getElem_cons hlt, hs]
  rfl

theorem restPath_end (frags : List Frag) (i : Nat) (h : frags.length ≤ i) : restPath frags i = [] := by
  simp only [restPath, List.drop_eq_nil_of_le h, tailPath]

/-- what `SimplePathStrategy.__init__` builds for a supported path (without a final attribute
    step): failure tables computed by `calculate_pi`, supported tests, no empty fragment except
    a leading one (path starting with `descendant::` / `descendant-or-self::`) -/
structure FragsOk (frags : List Frag) : Prop where
  pi : ∀ f ∈ frags, f.pi = calculatePi f.tests
  attr : ∀ f ∈ frags, f.attr = none
  simple : ∀ f ∈ frags, ∀ t ∈ f.tests, simpleT t = true
  tail : ∀ i f, frags[i + 1]? = some f → f.tests ≠ []
  head : ∃ f0, frags[0]? = some f0 ∧ (f0.tests = [] → f0.selfBeginning = false ∧ 2 ≤ frags.length)

section
variable (ns : NsMap)

/-- the supported tests read an event as the reference semantics reads the node -/
theorem simple_matches (g : NodeTest) (hg : simpleT g = true) (n : Node) (hn : n.clean = true) :
    g.matches (nodeEvent n) ns = testNode g n ns := by
  rcases simpleT_cases g hg with ⟨a, rfl⟩ | rfl | rfl <;> cases n with
  | elem tg ats ks => simp [nodeEvent, NodeTest.matches, NodeTest.apply, testNode, Val.truthy]
  | leaf e =>
    cases e <;> simp_all [Node.clean, Event.isStartEnd, nodeEvent, NodeTest.matches, NodeTest.apply, testNode,
      Val.truthy]

theorem icLoop_succ (frags : List Frag) (e : Event) (fuel fid p : Nat) (frag : Frag) (h : frags[fid]? = some frag) :
    icLoop frags e ns (fuel + 1) fid p =
      if kmpStep ns frag p e == frag.tests.length then
        if fid + 1 == frags.length then (fid, kmpStep ns frag p e, frag.tests.length, frag.attr)
        else
          match frags[fid + 1]? with
          | some nxt => if !nxt.selfBeginning then (fid + 1, 0, frag.tests.length, frag.attr)
                        else icLoop frags e ns fuel (fid + 1) 0
          | none => (fid + 1, 0, frag.tests.length, frag.attr)
      else (fid, kmpStep ns frag p e, frag.tests.length, frag.attr) := by
  simp only [icLoop, h, kmpStep]
  rfl

end

section
variable (ns : NsMap) (xvs : XVars)

/-- **the context-ignoring loop at one node.**  From a valid entry `(fid, p)` (`p` the longest
    matched prefix of fragment `fid` on the chain `rw`) the loop ends in a valid entry
    `(fid', p')` for the children, reports a match iff the last fragment is completed, and the
    node set still designated is unchanged. -/
theorem icLoop_spec (frags : List Frag) (hok : FragsOk frags) (c : LNode) (hcl : c.node.clean = true) :
    ∀ (fuel fid p : Nat) (rw : List Event) (frag : Frag), frags[fid]? = some frag → frag.tests ≠ [] →
      frags.length - fid < fuel →
      IsMax (Fof frag.tests) frag.tests.length (textOf ns rw) rw.length p →
      ∃ (fid' p' L : Nat) (rw' : List Event) (frag' : Frag),
        icLoop frags (nodeEvent c.node) ns fuel fid p = (fid', p', L, none) ∧
        frags[fid']? = some frag' ∧ frag'.tests ≠ [] ∧
        IsMax (Fof frag'.tests) frag'.tests.length (textOf ns rw') rw'.length p' ∧
        ∀ t : LNode, SemIc ns xvs frag.tests (restPath frags (fid + 1)) rw c t ↔
          (((fid' + 1 == frags.length && p' == L) = true ∧ (c.loc == t.loc) = true) ∨
           ∃ k ∈ childrenOf c, SemIc ns xvs frag'.tests (restPath frags (fid' + 1)) rw' k t) := by
  intro fuel
  induction fuel with
  | zero => intro fid p rw frag _ _ h; omega
  | succ fuel ih =>
    intro fid p rw frag hfrag hne hfuel hmax
    have h1 := hne
    have hmem : frag ∈ frags := List.mem_of_getElem? hfrag
    have hflt : fid < frags.length := (List.getElem?_eq_some_iff.mp hfrag).1
    have hn : 0 < frag.tests.length := by cases hft : frag.tests <;> simp_all
    have hs : Simple (Fof frag.tests) frag.tests.length := simple_of_mem _ (hok.simple frag hmem)
    have hmax' := kmpStep_max ns frag hne hs (hok.pi frag hmem) rw p hmax (nodeEvent c.node)
    have hmt : ∀ i, i < frag.tests.length →
        (Fof frag.tests i).matches (nodeEvent c.node) ns = testNode (Fof frag.tests i) c.node ns :=
      fun i hi => simple_matches ns _ (hs i hi) c.node hcl
    have hstep := fun t => semIc_step ns xvs frag.tests hne (restPath frags (fid + 1)) rw c t (nodeEvent c.node) hmt
    rw [icLoop_succ ns frags _ fuel fid p frag hfrag, hok.attr frag hmem]
    by_cases hp : (kmpStep ns frag p (nodeEvent c.node) == frag.tests.length) = true
    · simp only [hp, if_true]
      have hpe : kmpStep ns frag p (nodeEvent c.node) = frag.tests.length := by simpa using hp
      have hsufF : Suf (Fof frag.tests) frag.tests.length (textOf ns (nodeEvent c.node :: rw)) (rw.length + 1)
          frag.tests.length := by
        have := hmax'.1; rwa [hpe] at this
      by_cases hlast : (fid + 1 == frags.length) = true
      · simp only [hlast, if_true]
        refine ⟨fid, _, _, nodeEvent c.node :: rw, frag, rfl, hfrag, h1, hmax', fun t => ?_⟩
        rw [hstep t, restPath_end frags (fid + 1) (by simp at hlast; omega)]
        simp [hlast, hp, hsufF, reach]
      · simp only [hlast, Bool.false_eq_true, if_false]
        have hlt : fid + 1 < frags.length := by simp at hlast; omega
        obtain ⟨nxt, hnxt⟩ : ∃ nxt, frags[fid + 1]? = some nxt := ⟨frags[fid + 1], List.getElem?_eq_getElem hlt⟩
        simp only [hnxt]
        have hnne : nxt.tests ≠ [] := hok.tail fid nxt hnxt
        have hR : restPath frags (fid + 1) = fragSteps nxt ++ restPath frags (fid + 1 + 1) :=
          restPath_get frags (fid + 1) nxt hnxt
        obtain ⟨g, G, hgG⟩ : ∃ g G, nxt.tests = g :: G := by
          cases hnt : nxt.tests with
          | nil => exact absurd hnt hnne
          | cons g G => exact ⟨g, G, rfl⟩
        have hdom : ∀ t, SemIc ns xvs frag.tests (restPath frags (fid + 1)) rw c t ↔
            reach ns xvs (restPath frags (fid + 1)) c t = true := by
          intro t
          have hmono : Mono ns xvs (restPath frags (fid + 1)) t := by
            rw [hR]; unfold fragSteps; rw [hgG]
            split
            · exact mono_dos ns xvs g G _ t
            · exact mono_desc ns xvs g G _ t
          constructor
          · exact semIc_dom ns xvs _ hne _ rw t hmono c
          · intro h; exact (hstep t).mpr (Or.inl ⟨hsufF, h⟩)
        by_cases hsb : nxt.selfBeginning = true
        · simp only [hsb, Bool.not_true, Bool.false_eq_true, if_false]
          obtain ⟨fid', p', L, rw', frag', e1, e2, e3, e4, e5⟩ :=
            ih (fid + 1) 0 [] nxt hnxt hnne (by omega) (isMax_nil ns nxt.tests)
          refine ⟨fid', p', L, rw', frag', e1, e2, e3, e4, fun t => ?_⟩
          rw [hdom t, ← e5 t, semIc_nil, hR]
          simp [fragSteps, hsb]
        · have hsb' : nxt.selfBeginning = false := by simpa using hsb
          simp only [hsb', Bool.not_false, if_true]
          refine ⟨fid + 1, 0, _, [], nxt, rfl, hnxt, hnne, isMax_nil ns nxt.tests, fun t => ?_⟩
          rw [hdom t, hR]
          have hm0 : (fid + 1 + 1 == frags.length && 0 == frag.tests.length) = false := by
            have : (0 == frag.tests.length) = false := by simp; omega
            simp [this]
          simp only [fragSteps, hsb', Bool.false_eq_true, if_false, hgG, hm0, false_and, false_or]
          rw [reach_descFrag]
          simp only [List.any_eq_true, semIc_nil]
    · simp only [hp, Bool.false_eq_true, if_false]
      refine ⟨fid, _, _, nodeEvent c.node :: rw, frag, rfl, hfrag, h1, hmax', fun t => ?_⟩
      rw [hstep t]
      have hpne : kmpStep ns frag p (nodeEvent c.node) ≠ frag.tests.length := by simpa using hp
      have hns : ¬ Suf (Fof frag.tests) frag.tests.length (textOf ns (nodeEvent c.node :: rw)) (rw.length + 1)
          frag.tests.length := by
        intro h
        have h1 := hmax'.2 _ h
        have h2 := hmax'.1.1
        omega
      simp [hns, hp]

end

/-! ## One call of the matcher, by the kind of entry on top of its stack -/

section
variable (ns : NsMap)

/-- the result computed from what the context-ignoring loop returns -/
def icResult (frags : List Frag) (e : Event) (r : Nat × Nat × Nat × Option NodeTest) : Val :=
  if r.1 + 1 == frags.length && r.2.1 == r.2.2.1 then
    (match r.2.2.2 with
     | some a => attrResult a e ns
     | none => .bool true)
  else .none

/-- what the matcher pushes and reports from a context-ignoring entry `(fid, p)` -/
def icOut (frags : List Frag) (e : Event) (fid p : Nat) : PEntry × Val :=
  (⟨some ((icLoop frags e ns (frags.length + 1) fid p).1, (icLoop frags e ns (frags.length + 1) fid p).2.1), true⟩,
   icResult ns frags e (icLoop frags e ns (frags.length + 1) fid p))

/-- what the matcher pushes and reports from the context-bound entry `(0, p)` -/
def boundOut (frags : List Frag) (e : Event) (f0 : Frag) (p : Nat) : PEntry × Val :=
  if !fragTest f0 p e ns then (⟨none, false⟩, .none)
  else if p + 1 == f0.tests.length then
    if frags.length == 1 then
      (⟨none, false⟩, match f0.attr with
        | some a => attrResult a e ns
        | none => .bool true)
    else if !((frags[1]?.map Frag.selfBeginning).getD false) then (⟨some (1, 0), true⟩, .none)
    else icOut ns frags e 1 0
  else (⟨some (0, p + 1), false⟩, .none)

theorem pStep_ic (frags : List Frag) (ig : Bool) (fid p : Nat) (rest : PState) (e : Event)
    (he : e.isEnd = false) (hm : e.isNsOrCdata = false) :
    pStep (some frags) ig ns (⟨some (fid, p), true⟩ :: rest) e =
      ((if e.isStart then (icOut ns frags e fid p).1 :: ⟨some (fid, p), true⟩ :: rest
        else ⟨some (fid, p), true⟩ :: rest),
       (icOut ns frags e fid p).2) := by
  simp only [pStep, he, hm, Bool.false_eq_true, if_false, if_true, Bool.not_true, Bool.false_and, icResult, icOut]
  generalize icLoop frags e ns (frags.length + 1) fid p = r
  obtain ⟨r1, r2, r3, r4⟩ := r
  cases r4 <;> by_cases h : (r1 + 1 == frags.length && r2 == r3) = true <;> simp [h]

/-- the first event when the first non-empty fragment is entered through
    `descendant-or-self::` (a leading `//`) -/
theorem pStep_ic_root (frags : List Frag) (fid : Nat) (e : Event)
    (he : e.isEnd = false) (hm : e.isNsOrCdata = false)
    (hsk : skipEmpty frags (frags.length + 1) 0 = fid) (hpos : 0 < fid)
    (hsb : (frags[fid]?.map Frag.selfBeginning).getD false = true) :
    pStep (some frags) false ns [] e =
      ((if e.isStart then [(icOut ns frags e fid 0).1] else []), (icOut ns frags e fid 0).2) := by
  have hd : decide (fid > 0) = true := by simpa using hpos
  simp only [pStep, he, hm, hsk, hsb, hd, Bool.false_eq_true, if_false, if_true, Bool.not_true, Bool.false_and,
    Bool.false_or, icResult, icOut]
  generalize icLoop frags e ns (frags.length + 1) fid 0 = r
  obtain ⟨r1, r2, r3, r4⟩ := r
  cases r4 <;> by_cases h : (r1 + 1 == frags.length && r2 == r3) = true <;> simp [h]

/-- the first event in pattern mode (`ignore_context = True`): the first non-empty fragment is
    matched context-free from the root on -/
theorem pStep_ic_root_pat (frags : List Frag) (fid : Nat) (e : Event)
    (he : e.isEnd = false) (hm : e.isNsOrCdata = false)
    (hsk : skipEmpty frags (frags.length + 1) 0 = fid) :
    pStep (some frags) true ns [] e =
      ((if e.isStart then [(icOut ns frags e fid 0).1] else []), (icOut ns frags e fid 0).2) := by
  simp only [pStep, he, hm, hsk, Bool.false_eq_true, if_false, if_true, Bool.not_true, Bool.false_and,
    Bool.true_or, Bool.and_false, icResult, icOut]
  generalize icLoop frags e ns (frags.length + 1) fid 0 = r
  obtain ⟨r1, r2, r3, r4⟩ := r
  cases r4 <;> by_cases h : (r1 + 1 == frags.length && r2 == r3) = true <;> simp [h]

/-- the first event when the fragment in front can only start below the context node
    (`child::` or `descendant::` first) -/
theorem pStep_skip_root (frags : List Frag) (fid : Nat) (e : Event)
    (he : e.isEnd = false) (hm : e.isNsOrCdata = false)
    (hsk : skipEmpty frags (frags.length + 1) 0 = fid)
    (hsb : (frags[fid]?.map Frag.selfBeginning).getD false = false) :
    pStep (some frags) false ns [] e = ([⟨some (fid, 0), decide (fid > 0)⟩], .none) := by
  simp only [pStep, he, hm, hsk, hsb, Bool.false_eq_true, if_false, if_true, Bool.not_false, Bool.and_self,
    Bool.false_or, Bool.not_true]

/-- the entry of the fragment that is bound to the context node -/
theorem pStep_bound (frags : List Frag) (ig : Bool) (f0 : Frag) (h0 : frags[0]? = some f0) (p : Nat)
    (hp : p < f0.tests.length) (rest : PState) (e : Event) (he : e.isEnd = false) (hm : e.isNsOrCdata = false) :
    pStep (some frags) ig ns (⟨some (0, p), false⟩ :: rest) e =
      ((if e.isStart then (boundOut ns frags e f0 p).1 :: ⟨some (0, p), false⟩ :: rest
        else ⟨some (0, p), false⟩ :: rest),
       (boundOut ns frags e f0 p).2) := by
  have hpl : (p == f0.tests.length) = false := by simp; omega
  unfold boundOut
  by_cases hft : fragTest f0 p e ns = true
  · by_cases hp1 : (p + 1 == f0.tests.length) = true
    · by_cases hfl : (frags.length == 1) = true
      · have hfl' : (0 + 1 != frags.length) = false := by simp at hfl ⊢; omega
        have hfl2 : (0 + 1 == frags.length) = true := by simp at hfl ⊢; omega
        simp only [pStep, he, hm, Bool.false_eq_true, if_false, Bool.not_false, if_true, h0, hpl, hft, hp1, hfl, hfl',
          hfl2, Bool.and_false, Bool.not_true, Bool.and_self]
        cases f0.attr <;> rfl
      · have hfl' : (0 + 1 != frags.length) = true := by simp at hfl ⊢; omega
        by_cases hsb : (frags[1]?.map Frag.selfBeginning).getD false = true
        · simp only [pStep, he, hm, Bool.false_eq_true, if_false, Bool.not_false, if_true, h0, hpl, hft, hp1, hfl, hfl',
            Bool.and_self, Nat.zero_add, hsb, Bool.not_true, icResult, icOut, Bool.false_and]
          generalize icLoop frags e ns (frags.length + 1) 1 0 = r
          obtain ⟨r1, r2, r3, r4⟩ := r
          cases r4 <;> by_cases h : (r1 + 1 == frags.length && r2 == r3) = true <;> simp [h]
        · simp only [pStep, he, hm, Bool.false_eq_true, if_false, Bool.not_false, if_true, h0, hpl, hft, hp1, hfl, hfl',
            Bool.and_self, Nat.zero_add, hsb, Bool.not_true]
    · simp only [pStep, he, hm, Bool.false_eq_true, if_false, Bool.not_false, if_true, h0, hpl, hft, hp1,
        Bool.false_and, Bool.and_false, Bool.not_true]
  · simp only [pStep, he, hm, Bool.false_eq_true, if_false, Bool.not_false, if_true, h0, hpl, hft]

/-- the first event when the path starts with `self::` -/
theorem pStep_bound_root (frags : List Frag) (f0 : Frag) (h0 : frags[0]? = some f0)
    (hp : 0 < f0.tests.length) (e : Event) (he : e.isEnd = false) (hm : e.isNsOrCdata = false)
    (hsk : skipEmpty frags (frags.length + 1) 0 = 0) (hsb0 : f0.selfBeginning = true) :
    pStep (some frags) false ns [] e =
      ((if e.isStart then [(boundOut ns frags e f0 0).1] else []), (boundOut ns frags e f0 0).2) := by
  have hpl : (0 == f0.tests.length) = false := by simp; omega
  have hd : decide (0 > 0) = false := by simp
  unfold boundOut
  by_cases hft : fragTest f0 0 e ns = true
  · by_cases hp1 : (0 + 1 == f0.tests.length) = true
    · by_cases hfl : (frags.length == 1) = true
      · have hfl' : (0 + 1 != frags.length) = false := by simp at hfl ⊢; omega
        have hfl2 : (0 + 1 == frags.length) = true := by simp at hfl ⊢; omega
        simp only [pStep, he, hm, hsk, hd, Bool.false_eq_true, if_false, Bool.not_false, if_true, h0, hpl, hft, hp1, hfl,
          hfl', hfl2, Bool.and_false, Bool.not_true, Bool.and_self, Option.map_some, Option.getD_some, hsb0,
          Bool.false_and, Bool.or_self]
        cases f0.attr <;> rfl
      · have hfl' : (0 + 1 != frags.length) = true := by simp at hfl ⊢; omega
        by_cases hsb : (frags[1]?.map Frag.selfBeginning).getD false = true
        · simp only [pStep, he, hm, hsk, hd, Bool.false_eq_true, if_false, Bool.not_false, if_true, h0, hpl, hft, hp1,
            hfl, hfl', Bool.and_self, Nat.zero_add, hsb, Bool.not_true, icResult, icOut, Bool.false_and,
            Option.map_some, Option.getD_some, hsb0, Bool.or_self]
          generalize icLoop frags e ns (frags.length + 1) 1 0 = r
          obtain ⟨r1, r2, r3, r4⟩ := r
          cases r4 <;> by_cases h : (r1 + 1 == frags.length && r2 == r3) = true <;> simp [h]
        · simp only [pStep, he, hm, hsk, hd, Bool.false_eq_true, if_false, Bool.not_false, if_true, h0, hpl, hft, hp1,
            hfl, hfl', Bool.and_self, Nat.zero_add, hsb, Bool.not_true, Option.map_some, Option.getD_some, hsb0,
            Bool.false_and, Bool.or_self]
    · simp only [pStep, he, hm, hsk, hd, Bool.false_eq_true, if_false, Bool.not_false, if_true, h0, hpl, hft, hp1,
        Bool.false_and, Bool.and_false, Bool.not_true, Option.map_some, Option.getD_some, hsb0, Bool.or_self]
  · simp only [pStep, he, hm, hsk, hd, Bool.false_eq_true, if_false, Bool.not_false, if_true, h0, hpl, hft,
      Option.map_some, Option.getD_some, hsb0, Bool.not_true, Bool.false_and, Bool.or_self]

end

/-! ## Reading the stack entries through the reference semantics -/

section
variable (ns : NsMap) (xvs : XVars) (frags : List Frag)

/-- valid stack entries (`rw`: the events since the current fragment was entered) -/
def EOk (E : PEntry) (rw : List Event) : Prop :=
  match E with
  | ⟨none, ic⟩ => ic = false
  | ⟨some (fid, p), false⟩ => fid = 0 ∧ ∃ f0, frags[0]? = some f0 ∧ p < f0.tests.length
  | ⟨some (fid, p), true⟩ =>
      ∃ frag, frags[fid]? = some frag ∧ frag.tests ≠ [] ∧
        IsMax (Fof frag.tests) frag.tests.length (textOf ns rw) rw.length p

/-- the nodes at or below `c` that an entry still designates -/
def ESem (E : PEntry) (rw : List Event) (c t : LNode) : Prop :=
  match E with
  | ⟨none, _⟩ => False
  | ⟨some (_, p), false⟩ =>
      ∃ f0, frags[0]? = some f0 ∧
        reach ns xvs (fragPath .self (f0.tests.drop p) ++ restPath frags 1) c t = true
  | ⟨some (fid, p), true⟩ =>
      ∃ frag, frags[fid]? = some frag ∧ SemIc ns xvs frag.tests (restPath frags (fid + 1)) rw c t

theorem nodeEvent_ok (n : Node) (hcl : n.clean = true) :
    (nodeEvent n).isEnd = false ∧ (nodeEvent n).isNsOrCdata = false := by
  cases n with
  | elem tg ats ks => exact ⟨rfl, rfl⟩
  | leaf e =>
    simp only [Node.clean, Bool.and_eq_true, Bool.not_eq_true'] at hcl
    exact ⟨(isEnd_of_not_startEnd hcl.1).1, hcl.2⟩

/-- a context-ignoring entry at one node -/
theorem icOut_sem (hok : FragsOk frags) (c : LNode) (hcl : c.node.clean = true) (fid p : Nat) (rw : List Event)
    (frag : Frag) (hfrag : frags[fid]? = some frag) (h1 : frag.tests ≠ [])
    (hmax : IsMax (Fof frag.tests) frag.tests.length (textOf ns rw) rw.length p) :
    ∃ (rw' : List Event) (m : Bool), EOk ns frags (icOut ns frags (nodeEvent c.node) fid p).1 rw' ∧
      (icOut ns frags (nodeEvent c.node) fid p).2 = (if m then .bool true else .none) ∧
      ∀ t : LNode, SemIc ns xvs frag.tests (restPath frags (fid + 1)) rw c t ↔
        ((m = true ∧ (c.loc == t.loc) = true) ∨
         ∃ k ∈ childrenOf c, ESem ns xvs frags (icOut ns frags (nodeEvent c.node) fid p).1 rw' k t) := by
  obtain ⟨fid', p', L, rw', frag', e1, e2, e3, e4, e5⟩ :=
    icLoop_spec ns xvs frags hok c hcl (frags.length + 1) fid p rw frag hfrag h1 (by omega) hmax
  refine ⟨rw', (fid' + 1 == frags.length && p' == L), ?_, ?_, fun t => ?_⟩
  · simp only [icOut, e1, EOk]
    exact ⟨frag', e2, e3, e4⟩
  · simp only [icOut, e1, icResult]
  · rw [e5 t]
    simp only [icOut, e1, ESem]
    constructor
    · rintro (h | ⟨k, hk, h⟩)
      · exact Or.inl h
      · exact Or.inr ⟨k, hk, frag', e2, h⟩
    · rintro (h | ⟨k, hk, f, hf, h⟩)
      · exact Or.inl h
      · rw [e2] at hf; cases hf
        exact Or.inr ⟨k, hk, h⟩

/-- the context-bound entry at one node -/
theorem boundOut_sem (hok : FragsOk frags) (c : LNode) (hcl : c.node.clean = true) (f0 : Frag)
    (h0 : frags[0]? = some f0) (p : Nat) (hp : p < f0.tests.length) :
    ∃ (rw' : List Event) (m : Bool), EOk ns frags (boundOut ns frags (nodeEvent c.node) f0 p).1 rw' ∧
      (boundOut ns frags (nodeEvent c.node) f0 p).2 = (if m then .bool true else .none) ∧
      ∀ t : LNode, reach ns xvs (fragPath .self (f0.tests.drop p) ++ restPath frags 1) c t = true ↔
        ((m = true ∧ (c.loc == t.loc) = true) ∨
         ∃ k ∈ childrenOf c, ESem ns xvs frags (boundOut ns frags (nodeEvent c.node) f0 p).1 rw' k t) := by
  have hmem : f0 ∈ frags := List.mem_of_getElem? h0
  have hs : Simple (Fof f0.tests) f0.tests.length := simple_of_mem _ (hok.simple f0 hmem)
  have hft : fragTest f0 p (nodeEvent c.node) ns = testNode (Fof f0.tests p) c.node ns := by
    rw [fragTest_eq, simple_matches ns _ (hs p hp) c.node hcl]; simp [hp]
  have hflpos : 0 < frags.length := (List.getElem?_eq_some_iff.mp h0).1
  have hunf := fun t => reach_self_drop ns xvs f0.tests (restPath frags 1) p hp c t
  unfold boundOut
  by_cases ht : testNode (Fof f0.tests p) c.node ns = true
  · rw [hft, ht]
    simp only [Bool.not_true, Bool.false_eq_true, if_false]
    by_cases hp1 : (p + 1 == f0.tests.length) = true
    · have hp1' : p + 1 = f0.tests.length := by simpa using hp1
      simp only [hp1, if_true]
      by_cases hfl : (frags.length == 1) = true
      · simp only [hfl, if_true, hok.attr f0 hmem]
        refine ⟨[], true, rfl, rfl, fun t => ?_⟩
        rw [hunf t, restPath_end frags 1 (by simp at hfl; omega)]
        simp [ht, hp1', reach, ESem]
      · simp only [hfl, Bool.false_eq_true, if_false]
        have hlt : 1 < frags.length := by simp at hfl; omega
        obtain ⟨nxt, hnxt⟩ : ∃ nxt, frags[1]? = some nxt := ⟨frags[1], List.getElem?_eq_getElem hlt⟩
        have hnne : nxt.tests ≠ [] := hok.tail 0 nxt hnxt
        have hR : restPath frags 1 = fragSteps nxt ++ restPath frags (1 + 1) := restPath_get frags 1 nxt hnxt
        obtain ⟨g, G, hgG⟩ : ∃ g G, nxt.tests = g :: G := by
          cases hnt : nxt.tests with
          | nil => exact absurd hnt hnne
          | cons g G => exact ⟨g, G, rfl⟩
        by_cases hsb : nxt.selfBeginning = true
        · simp only [hnxt, Option.map_some, Option.getD_some, hsb, Bool.not_true, Bool.false_eq_true, if_false]
          obtain ⟨rw', m, o1, o2, o3⟩ := icOut_sem ns xvs frags hok c hcl 1 0 [] nxt hnxt hnne (isMax_nil ns nxt.tests)
          refine ⟨rw', m, o1, o2, fun t => ?_⟩
          rw [← o3 t, semIc_nil, hunf t, hR]
          simp [ht, hp1', fragSteps, hsb]
        · have hsb' : nxt.selfBeginning = false := by simpa using hsb
          simp only [hnxt, Option.map_some, Option.getD_some, hsb', Bool.not_false, if_true]
          refine ⟨[], false, ⟨nxt, hnxt, hnne, isMax_nil ns nxt.tests⟩, rfl, fun t => ?_⟩
          rw [hunf t, hR]
          simp only [ht, hp1', true_and, Nat.lt_irrefl, false_and, or_false, fragSteps, hsb', Bool.false_eq_true,
            if_false, hgG, ESem]
          rw [reach_descFrag]
          simp only [List.any_eq_true, hnxt, Option.some.injEq, exists_eq_left', semIc_nil, hgG, false_or]
    · have hp1' : p + 1 ≠ f0.tests.length := by simpa using hp1
      simp only [hp1, Bool.false_eq_true, if_false]
      refine ⟨[], false, ⟨rfl, f0, h0, by omega⟩, rfl, fun t => ?_⟩
      rw [hunf t]
      simp only [ht, hp1', true_and, false_and, false_or, ESem, Bool.false_eq_true]
      constructor
      · rintro ⟨_, k, hk, h⟩; exact ⟨k, hk, f0, h0, h⟩
      · rintro ⟨k, hk, f, hf, h⟩
        rw [h0] at hf; cases hf
        exact ⟨by omega, k, hk, h⟩
  · have ht' : testNode (Fof f0.tests p) c.node ns = false := by simpa using ht
    rw [hft, ht']
    simp only [Bool.not_false, if_true]
    refine ⟨[], false, rfl, rfl, fun t => ?_⟩
    rw [hunf t]
    simp [ht', ESem]

/-- **one event**: the matcher's step on a valid entry gives a valid entry for the children,
    and the entry designates: this node iff a match is reported, plus whatever the new entry
    designates below the children -/
theorem visit (hok : FragsOk frags) (ig : Bool) (E : PEntry) (rw : List Event) (hE : EOk ns frags E rw) (c : LNode)
    (hcl : c.node.clean = true) (rest : PState) :
    ∃ (E' : PEntry) (rw' : List Event) (m : Bool), EOk ns frags E' rw' ∧
      pStep (some frags) ig ns (E :: rest) (nodeEvent c.node)
        = ((if (nodeEvent c.node).isStart then E' :: E :: rest else E :: rest), if m then .bool true else .none) ∧
      ∀ t : LNode, ESem ns xvs frags E rw c t ↔
        ((m = true ∧ (c.loc == t.loc) = true) ∨ ∃ k ∈ childrenOf c, ESem ns xvs frags E' rw' k t) := by
  obtain ⟨he, hm⟩ := nodeEvent_ok c.node hcl
  obtain ⟨fp, ic⟩ := E
  cases fp with
  | none =>
    simp only [EOk] at hE
    subst hE
    refine ⟨⟨none, false⟩, [], false, rfl, ?_, fun t => ?_⟩
    · simp only [pStep, he, hm, Bool.false_eq_true, if_false]
    simp [ESem]
  | some fpv =>
    obtain ⟨fid, p⟩ := fpv
    cases ic with
    | false =>
      obtain ⟨rfl, f0, h0, hp⟩ := hE
      obtain ⟨rw', m, o1, o2, o3⟩ := boundOut_sem ns xvs frags hok c hcl f0 h0 p hp
      refine ⟨_, rw', m, o1, ?_, fun t => ?_⟩
      · rw [pStep_bound ns frags ig f0 h0 p hp rest _ he hm, o2]
      · rw [← o3 t]
        simp only [ESem]
        constructor
        · rintro ⟨f, hf, h⟩; rw [h0] at hf; cases hf; exact h
        · intro h; exact ⟨f0, h0, h⟩
    | true =>
      obtain ⟨frag, hfrag, h1, hmax⟩ := hE
      obtain ⟨rw', m, o1, o2, o3⟩ := icOut_sem ns xvs frags hok c hcl fid p rw frag hfrag h1 hmax
      refine ⟨_, rw', m, o1, ?_, fun t => ?_⟩
      · rw [pStep_ic ns frags ig fid p rest _ he hm, o2]
      · rw [← o3 t]
        simp only [ESem]
        constructor
        · rintro ⟨f, hf, h⟩; rw [hfrag] at hf; cases hf; exact h
        · intro h; exact ⟨frag, hfrag, h⟩

/-- the whole element tree, once the first event is dealt with -/
theorem rootRun (hok : FragsOk frags) (ig : Bool) (tag : QName) (attrs : AttrList) (kids : List Node)
    (hcl : cleanList kids = true)
    (E' : PEntry) (rw' : List Event) (m : Bool) (hE' : EOk ns frags E' rw')
    (hroot : pStep (some frags) ig ns [] (.start tag attrs) = ([E'], if m then .bool true else .none)) :
    okVals (runOne (pStep (some frags) ig ns) [] (Node.elem tag attrs kids).flatten).1
        (eventLocs (.elem tag attrs kids) []) ∧
    ∀ t : LNode, selB (runOne (pStep (some frags) ig ns) [] (Node.elem tag attrs kids).flatten).1
        (eventLocs (.elem tag attrs kids) []) t.loc = true ↔
      ((m = true ∧ (([] : List Nat) == t.loc) = true) ∨ ∃ k ∈ kidsAt kids [] 0, ESem ns xvs frags E' rw' k t) := by
  have hk := stackTreeList (pStep (some frags) ig ns) (EOk ns frags) (ESem ns xvs frags)
    (fun st tg => pStep_end ns frags ig st tg)
    (fun E x hE c hc rest => visit ns xvs frags hok ig E x hE c hc rest) kids hcl [] 0 E' rw' [] hE'
  simp only [Node.flatten, eventLocs, runOne_cons, runOne_append]
  rw [hroot]
  simp only []
  rw [hk.1]
  refine ⟨?_, fun t => ?_⟩
  · simp only [okVals]
    refine ⟨by cases m <;> simp, ?_⟩
    rw [okVals_append _ _ _ _ (by rw [runOne_length, eventLocsList_length])]
    exact ⟨hk.2.1, by simp [runOne, pStep_end, okVals]⟩
  · rw [selB_cons, selB_append _ _ _ _ (by rw [runOne_length, eventLocsList_length])]
    simp only [Bool.or_eq_true, Bool.and_eq_true, hk.2.2 t, selB_none, Bool.false_eq_true, or_false]
    cases m <;> simp [Val.truthy]

/-! ## The path a fragment list stands for -/

/-- the steps of the first fragment: nothing (the path starts with `descendant::` /
    `descendant-or-self::`), `self::t1/child::t2…`, or `child::t1/child::t2…` -/
def headPath (f0 : Frag) : LocPath :=
  if f0.selfBeginning then fragPath .self f0.tests else childChain f0.tests

/-- the location path with these fragments -/
def normPath : List Frag → LocPath
  | [] => []
  | f0 :: fs => headPath f0 ++ tailPath fs

theorem skipEmpty_val (hok : FragsOk frags) (f0 : Frag) (h0 : frags[0]? = some f0) :
    skipEmpty frags (frags.length + 1) 0 = if f0.tests = [] then 1 else 0 := by
  by_cases hemp : f0.tests = []
  · obtain ⟨f0', h0', hh⟩ := hok.head
    rw [h0] at h0'; cases h0'
    obtain ⟨_, h2⟩ := hh hemp
    obtain ⟨f1, hf1⟩ : ∃ f1, frags[1]? = some f1 := ⟨frags[1], List.getElem?_eq_getElem (by omega)⟩
    have hne1 := hok.tail 0 f1 hf1
    obtain ⟨n, hn⟩ : ∃ n, frags.length = n + 1 := ⟨frags.length - 1, by omega⟩
    have hi1 : f1.tests.isEmpty = false := by cases h : f1.tests <;> simp_all
    simp only [hn, skipEmpty, h0, hemp, List.isEmpty_nil, if_true, hf1, hi1, Bool.false_eq_true, if_false, Nat.zero_add]
  · have hi : f0.tests.isEmpty = false := by cases h : f0.tests <;> simp_all
    simp [skipEmpty, h0, hemp, hi]

/-- **SimplePathStrategy designates the XPath node set.**  For every fragment list as
    `SimplePathStrategy.__init__` builds it (any number of fragments), relative mode and every
    element tree: the matcher reports `None` / `True`, and `True` exactly at the nodes the
    reference semantics reaches from the root through the path the fragments stand for. -/
theorem simple_marks (hok : FragsOk frags) (tag : QName) (attrs : AttrList) (kids : List Node)
    (hcl : cleanList kids = true) :
    okVals (runOne (pStep (some frags) false ns) [] (Node.elem tag attrs kids).flatten).1
        (eventLocs (.elem tag attrs kids) []) ∧
    ∀ t : LNode, selB (runOne (pStep (some frags) false ns) [] (Node.elem tag attrs kids).flatten).1
        (eventLocs (.elem tag attrs kids) []) t.loc = true ↔
      reach ns xvs (normPath frags) ⟨[], .elem tag attrs kids⟩ t = true := by
  obtain ⟨f0, h0, hhead⟩ := hok.head
  have hsk := skipEmpty_val frags hok f0 h0
  have hclr : (⟨[], .elem tag attrs kids⟩ : LNode).node.clean = true := by simpa [Node.clean] using hcl
  have hkids : childrenOf ⟨[], .elem tag attrs kids⟩ = kidsAt kids [] 0 := rfl
  have hnorm : normPath frags = headPath f0 ++ restPath frags 1 := by
    cases frags with
    | nil => simp at h0
    | cons a fs => simp at h0; subst h0; rfl
  rw [hnorm]
  by_cases hemp : f0.tests = []
  · obtain ⟨hsb0, h2⟩ := hhead hemp
    rw [if_pos hemp] at hsk
    obtain ⟨f1, hf1⟩ : ∃ f1, frags[1]? = some f1 := ⟨frags[1], List.getElem?_eq_getElem (by omega)⟩
    have hne1 := hok.tail 0 f1 hf1
    obtain ⟨g, G, hgG⟩ : ∃ g G, f1.tests = g :: G := by
      cases hnt : f1.tests with
      | nil => exact absurd hnt hne1
      | cons g G => exact ⟨g, G, rfl⟩
    have hR : restPath frags 1 = fragSteps f1 ++ restPath frags (1 + 1) := restPath_get frags 1 f1 hf1
    have hhp : headPath f0 = [] := by simp [headPath, hsb0, hemp, childChain]
    rw [hhp, List.nil_append, hR]
    by_cases hsb : f1.selfBeginning = true
    · obtain ⟨rw', m, o1, o2, o3⟩ :=
        icOut_sem ns xvs frags hok ⟨[], .elem tag attrs kids⟩ hclr 1 0 [] f1 hf1 hne1 (isMax_nil ns f1.tests)
      have hroot := pStep_ic_root ns frags 1 (.start tag attrs) rfl rfl hsk (by omega) (by simp [hf1, hsb])
      simp only [nodeEvent] at o1 o2 o3
      rw [o2] at hroot
      simp only [Event.isStart, if_true] at hroot
      obtain ⟨r1, r2⟩ := rootRun ns xvs frags hok false tag attrs kids hcl _ rw' m o1 hroot
      refine ⟨r1, fun t => ?_⟩
      rw [r2 t, ← hkids, ← o3 t, semIc_nil]
      simp [fragSteps, hsb]
    · have hsb' : f1.selfBeginning = false := by simpa using hsb
      have hroot := pStep_skip_root ns frags 1 (.start tag attrs) rfl rfl hsk (by simp [hf1, hsb'])
      have hd : decide (1 > 0) = true := by decide
      rw [hd] at hroot
      obtain ⟨r1, r2⟩ := rootRun ns xvs frags hok false tag attrs kids hcl ⟨some (1, 0), true⟩ [] false
        ⟨f1, hf1, hne1, isMax_nil ns f1.tests⟩ hroot
      refine ⟨r1, fun t => ?_⟩
      rw [r2 t]
      simp only [fragSteps, hsb', Bool.false_eq_true, if_false, hgG, false_and, false_or, ESem]
      rw [reach_descFrag, hkids]
      simp only [List.any_eq_true, hf1, Option.some.injEq, exists_eq_left', semIc_nil, hgG]
  · rw [if_neg hemp] at hsk
    have hpos : 0 < f0.tests.length := by cases h : f0.tests <;> simp_all
    obtain ⟨g, G, hgG⟩ : ∃ g G, f0.tests = g :: G := by
      cases hnt : f0.tests with
      | nil => exact absurd hnt hemp
      | cons g G => exact ⟨g, G, rfl⟩
    by_cases hsb0 : f0.selfBeginning = true
    · obtain ⟨rw', m, o1, o2, o3⟩ := boundOut_sem ns xvs frags hok ⟨[], .elem tag attrs kids⟩ hclr f0 h0 0 hpos
      have hroot := pStep_bound_root ns frags f0 h0 hpos (.start tag attrs) rfl rfl hsk hsb0
      simp only [nodeEvent] at o1 o2 o3
      rw [o2] at hroot
      simp only [Event.isStart, if_true] at hroot
      obtain ⟨r1, r2⟩ := rootRun ns xvs frags hok false tag attrs kids hcl _ rw' m o1 hroot
      refine ⟨r1, fun t => ?_⟩
      rw [r2 t, ← hkids, ← o3 t]
      simp [headPath, hsb0]
    · have hsb0' : f0.selfBeginning = false := by simpa using hsb0
      have hroot := pStep_skip_root ns frags 0 (.start tag attrs) rfl rfl hsk (by simp [h0, hsb0'])
      have hd : decide (0 > 0) = false := by decide
      rw [hd] at hroot
      obtain ⟨r1, r2⟩ := rootRun ns xvs frags hok false tag attrs kids hcl ⟨some (0, 0), false⟩ [] false
        ⟨rfl, f0, h0, hpos⟩ hroot
      refine ⟨r1, fun t => ?_⟩
      rw [r2 t]
      simp only [headPath, hsb0', Bool.false_eq_true, if_false, hgG, false_and, false_or, ESem]
      rw [reach_chain_cons, hkids]
      simp only [List.any_eq_true, h0, Option.some.injEq, exists_eq_left', hgG, List.drop_zero]

/-- the path a fragment list matches as a PATTERN: its first step taken on the
    descendant-or-self axis from the root -/
def patPath : List Frag → LocPath
  | [] => []
  | f0 :: fs =>
      if f0.tests = [] then
        (match fs with
         | [] => []
         | f1 :: fs' => fragPath .descendantOrSelf f1.tests ++ tailPath fs')
      else fragPath .descendantOrSelf f0.tests ++ tailPath fs

/-- **SimplePathStrategy as a pattern** (`ignore_context = True`, match templates): `True`
    exactly at the nodes `descendant-or-self::first/rest` selects from the root -/
theorem simple_marks_pattern (hok : FragsOk frags) (tag : QName) (attrs : AttrList) (kids : List Node)
    (hcl : cleanList kids = true) :
    okVals (runOne (pStep (some frags) true ns) [] (Node.elem tag attrs kids).flatten).1
        (eventLocs (.elem tag attrs kids) []) ∧
    ∀ t : LNode, selB (runOne (pStep (some frags) true ns) [] (Node.elem tag attrs kids).flatten).1
        (eventLocs (.elem tag attrs kids) []) t.loc = true ↔
      reach ns xvs (patPath frags) ⟨[], .elem tag attrs kids⟩ t = true := by
  obtain ⟨f0, h0, hhead⟩ := hok.head
  have hsk := skipEmpty_val frags hok f0 h0
  have hclr : (⟨[], .elem tag attrs kids⟩ : LNode).node.clean = true := by simpa [Node.clean] using hcl
  have hkids : childrenOf ⟨[], .elem tag attrs kids⟩ = kidsAt kids [] 0 := rfl
  by_cases hemp : f0.tests = []
  · obtain ⟨hsb0, h2⟩ := hhead hemp
    rw [if_pos hemp] at hsk
    obtain ⟨f1, hf1⟩ : ∃ f1, frags[1]? = some f1 := ⟨frags[1], List.getElem?_eq_getElem (by omega)⟩
    have hne1 := hok.tail 0 f1 hf1
    have hpat : patPath frags = fragPath .descendantOrSelf f1.tests ++ restPath frags (1 + 1) := by
      cases frags with
      | nil => simp at h0
      | cons a fs =>
        simp at h0; subst h0
        cases fs with
        | nil => simp at h2
        | cons b fs' => simp at hf1; subst hf1; simp [patPath, hemp, restPath]
    obtain ⟨rw', m, o1, o2, o3⟩ :=
      icOut_sem ns xvs frags hok ⟨[], .elem tag attrs kids⟩ hclr 1 0 [] f1 hf1 hne1 (isMax_nil ns f1.tests)
    have hroot := pStep_ic_root_pat ns frags 1 (.start tag attrs) rfl rfl hsk
    simp only [nodeEvent] at o1 o2 o3
    rw [o2] at hroot
    simp only [Event.isStart, if_true] at hroot
    obtain ⟨r1, r2⟩ := rootRun ns xvs frags hok true tag attrs kids hcl _ rw' m o1 hroot
    refine ⟨r1, fun t => ?_⟩
    rw [r2 t, ← hkids, ← o3 t, semIc_nil, hpat]
  · rw [if_neg hemp] at hsk
    have hpat : patPath frags = fragPath .descendantOrSelf f0.tests ++ restPath frags (0 + 1) := by
      cases frags with
      | nil => simp at h0
      | cons a fs => simp at h0; subst h0; simp [patPath, hemp, restPath]
    obtain ⟨rw', m, o1, o2, o3⟩ :=
      icOut_sem ns xvs frags hok ⟨[], .elem tag attrs kids⟩ hclr 0 0 [] f0 h0 hemp (isMax_nil ns f0.tests)
    have hroot := pStep_ic_root_pat ns frags 0 (.start tag attrs) rfl rfl hsk
    simp only [nodeEvent] at o1 o2 o3
    rw [o2] at hroot
    simp only [Event.isStart, if_true] at hroot
    obtain ⟨r1, r2⟩ := rootRun ns xvs frags hok true tag attrs kids hcl _ rw' m o1 hroot
    refine ⟨r1, fun t => ?_⟩
    rw [r2 t, ← hkids, ← o3 t, semIc_nil, hpat]

/-- GenericStrategy's step list in pattern mode is that path -/
theorem gSteps_pattern (hok : FragsOk frags) : gSteps (normPath frags) true = patPath frags := by
  obtain ⟨f0, h0, hhead⟩ := hok.head
  cases frags with
  | nil => simp at h0
  | cons a fs =>
    simp at h0; subst h0
    by_cases hemp : a.tests = []
    · obtain ⟨hsb0, h2⟩ := hhead hemp
      cases fs with
      | nil => simp at h2
      | cons f1 fs' =>
        have hne1 := hok.tail 0 f1 rfl
        have hs1 := hok.simple f1 (by simp)
        cases hts : f1.tests with
        | nil => exact absurd hts hne1
        | cons g G =>
          have hg := hs1 g (by simp [hts])
          have hsd : ∀ (ax : Axis) (r : LocPath), stripDot (⟨ax, g, []⟩ :: r) = ⟨ax, g, []⟩ :: r := by
            intro ax r
            cases r with
            | nil => rfl
            | cons x xs =>
              rcases simpleT_cases g hg with ⟨n, rfl⟩ | rfl | rfl <;> simp [stripDot]
          simp only [normPath, headPath, hsb0, hemp, patPath, tailPath, fragSteps, hts, fragPath, childChain,
            List.map_nil, List.nil_append, List.cons_append, Bool.false_eq_true, if_false, if_true]
          split <;> simp [gSteps, hsd]
    · have hs0 := hok.simple a (by simp)
      cases hts : a.tests with
      | nil => exact absurd hts hemp
      | cons g G =>
        have hg := hs0 g (by simp [hts])
        have hsd : ∀ (ax : Axis) (r : LocPath), stripDot (⟨ax, g, []⟩ :: r) = ⟨ax, g, []⟩ :: r := by
          intro ax r
          cases r with
          | nil => rfl
          | cons x xs =>
            rcases simpleT_cases g hg with ⟨n, rfl⟩ | rfl | rfl <;> simp [stripDot]
        have hne : (g :: G = []) = False := by simp
        simp only [normPath, headPath, patPath, hts, hne, if_false, fragPath, childChain, List.map_cons,
          List.cons_append]
        split <;> simp [gSteps, hsd]

end

/-! ## `SimplePathStrategy.__init__` on the path of a fragment list -/

theorem fragLoop_chain_app (ts : List NodeTest) (rest : LocPath) (frs : List Frag) (acc : List NodeTest) (sb : Bool) :
    fragLoop (childChain ts ++ rest) frs acc sb = fragLoop rest frs (acc ++ ts) sb := by
  induction ts generalizing acc with
  | nil => simp [childChain]
  | cons t ts ih =>
    simp only [childChain, List.map_cons, List.cons_append, fragLoop]
    have := ih (acc ++ [t])
    simp only [childChain] at this
    rw [this]
    simp

/-- the fragments after the first: non-empty, tables by `calculate_pi`, no attribute -/
def TailOk (fs : List Frag) : Prop :=
  ∀ f ∈ fs, f.tests ≠ [] ∧ f.pi = calculatePi f.tests ∧ f.attr = none

theorem fragLoop_tail : ∀ (fs : List Frag), TailOk fs → ∀ (frs : List Frag) (acc : List NodeTest) (sb : Bool),
    fragLoop (tailPath fs) frs acc sb = some (frs ++ ⟨acc, calculatePi acc, none, sb⟩ :: fs)
  | [], _, frs, acc, sb => by simp [tailPath, fragLoop]
  | f :: fs, hok, frs, acc, sb => by
      obtain ⟨hne, hpi, hattr⟩ := hok f List.mem_cons_self
      obtain ⟨g, G, hgG⟩ : ∃ g G, f.tests = g :: G := by
        cases hnt : f.tests with
        | nil => exact absurd hnt hne
        | cons g G => exact ⟨g, G, rfl⟩
      have ih := fragLoop_tail fs (fun f' hf' => hok f' (List.mem_cons_of_mem _ hf'))
      have hf : f = ⟨g :: G, calculatePi (g :: G), none, f.selfBeginning⟩ := by
        cases f; simp_all
      simp only [tailPath, fragSteps, hgG, fragPath, List.cons_append]
      by_cases hsb : f.selfBeginning = true
      · simp only [hsb, if_true, fragLoop]
        rw [fragLoop_chain_app, ih]
        rw [hf]; simp [hsb]
      · have hsb' : f.selfBeginning = false := by simpa using hsb
        simp only [hsb', Bool.false_eq_true, if_false, fragLoop]
        rw [fragLoop_chain_app, ih]
        rw [hf]; simp [hsb']

theorem tailOk_of_fragsOk (f0 : Frag) (fs : List Frag) (hok : FragsOk (f0 :: fs)) : TailOk fs := by
  intro f hf
  obtain ⟨i, hi⟩ := List.getElem?_of_mem hf
  exact ⟨hok.tail i f (by simpa using hi), hok.pi f (List.mem_cons_of_mem _ hf), hok.attr f (List.mem_cons_of_mem _ hf)⟩

/-- `__init__` gives back the fragment list the path was built from -/
theorem fragments_normPath (frags : List Frag) (hok : FragsOk frags) : fragments (normPath frags) = some frags := by
  obtain ⟨f0, h0, hhead⟩ := hok.head
  cases frags with
  | nil => simp at h0
  | cons a fs =>
    simp at h0; subst h0
    have htail := tailOk_of_fragsOk a fs hok
    have hpi := hok.pi a List.mem_cons_self
    have hattr := hok.attr a List.mem_cons_self
    simp only [fragments, normPath, headPath]
    by_cases hsb : a.selfBeginning = true
    · simp only [hsb, if_true]
      cases hts : a.tests with
      | nil => have := (hhead hts).1; rw [hsb] at this; cases this
      | cons g G =>
        simp only [fragPath, List.cons_append, fragLoop, List.getLast?_nil]
        rw [fragLoop_chain_app, fragLoop_tail fs htail]
        cases a; simp_all
    · have hsb' : a.selfBeginning = false := by simpa using hsb
      simp only [hsb', Bool.false_eq_true, if_false]
      rw [fragLoop_chain_app, fragLoop_tail fs htail]
      cases a; simp_all

/-- the steps of the path of a fragment list: supported tests, no predicates, no attribute axis -/
theorem mem_fragPath (ax : Axis) (ts : List NodeTest) (s : Step) (hs : s ∈ fragPath ax ts) :
    (s.axis = ax ∨ s.axis = .child) ∧ s.test ∈ ts ∧ s.preds = [] := by
  cases ts with
  | nil => simp [fragPath] at hs
  | cons t0 ts =>
    simp only [fragPath, childChain, List.mem_cons, List.mem_map] at hs
    rcases hs with rfl | ⟨t, ht, rfl⟩
    · exact ⟨Or.inl rfl, by simp, rfl⟩
    · exact ⟨Or.inr rfl, by simp [ht], rfl⟩

theorem mem_tailPath : ∀ (fs : List Frag) (s : Step), s ∈ tailPath fs →
    s.axis ≠ .attribute ∧ (∃ f ∈ fs, s.test ∈ f.tests) ∧ s.preds = []
  | [], s, hs => by simp [tailPath] at hs
  | f :: fs, s, hs => by
      simp only [tailPath, List.mem_append] at hs
      rcases hs with hs | hs
      · obtain ⟨h1, h2, h3⟩ := mem_fragPath _ _ s hs
        refine ⟨?_, ⟨f, List.mem_cons_self, h2⟩, h3⟩
        rcases h1 with h | h <;> rw [h]
        · split <;> simp
        · simp
      · obtain ⟨h1, ⟨f', hf', h2⟩, h3⟩ := mem_tailPath fs s hs
        exact ⟨h1, ⟨f', List.mem_cons_of_mem _ hf', h2⟩, h3⟩

theorem mem_normPath (frags : List Frag) (s : Step) (hs : s ∈ normPath frags) :
    s.axis ≠ .attribute ∧ (∃ f ∈ frags, s.test ∈ f.tests) ∧ s.preds = [] := by
  cases frags with
  | nil => simp [normPath] at hs
  | cons f0 fs =>
    simp only [normPath, List.mem_append] at hs
    rcases hs with hs | hs
    · unfold headPath at hs
      split at hs
      · obtain ⟨h1, h2, h3⟩ := mem_fragPath _ _ s hs
        refine ⟨?_, ⟨f0, List.mem_cons_self, h2⟩, h3⟩
        rcases h1 with h | h <;> rw [h] <;> simp
      · simp only [childChain, List.mem_map] at hs
        obtain ⟨t, ht, rfl⟩ := hs
        exact ⟨by simp, ⟨f0, List.mem_cons_self, ht⟩, rfl⟩
    · obtain ⟨h1, ⟨f', hf', h2⟩, h3⟩ := mem_tailPath fs s hs
      exact ⟨h1, ⟨f', List.mem_cons_of_mem _ hf', h2⟩, h3⟩

theorem normPath_ne (frags : List Frag) (hok : FragsOk frags) : 0 < (normPath frags).length := by
  obtain ⟨f0, h0, hhead⟩ := hok.head
  cases frags with
  | nil => simp at h0
  | cons a fs =>
    simp at h0; subst h0
    by_cases hemp : a.tests = []
    · obtain ⟨_, h2⟩ := hhead hemp
      cases fs with
      | nil => simp at h2
      | cons f1 fs' =>
        have hne1 := hok.tail 0 f1 rfl
        cases hts : f1.tests with
        | nil => exact absurd hts hne1
        | cons g G => simp [normPath, tailPath, fragSteps, hts, fragPath]; omega
    · cases hts : a.tests with
      | nil => exact absurd hts hemp
      | cons g G =>
        simp only [normPath, headPath, hts, List.length_append]
        split <;> simp [fragPath, childChain] <;> omega

theorem stepsOk_normPath (ns : NsMap) (vs : Vars) (frags : List Frag) (hok : FragsOk frags) :
    StepsOk ns vs (normPath frags) := by
  refine ⟨normPath_ne frags hok, fun s hs => (mem_normPath frags s hs).1, ?_, ?_, ?_⟩
  · intro s hs
    obtain ⟨_, ⟨f, hf, ht⟩, _⟩ := mem_normPath frags s hs
    rcases simpleT_cases s.test (hok.simple f hf _ ht) with ⟨n, h⟩ | h | h <;> rw [h] <;> simp [NodeTest.elemWf]
  · intro s hs q hq
    rw [(mem_normPath frags s hs).2.2] at hq; simp at hq
  · intro s hs q hq
    rw [(mem_normPath frags s hs).2.2] at hq; simp at hq

theorem mem_patPath (frags : List Frag) (s : Step) (hs : s ∈ patPath frags) :
    s.axis ≠ .attribute ∧ (∃ f ∈ frags, s.test ∈ f.tests) ∧ s.preds = [] := by
  have hfp : ∀ (f : Frag), s ∈ fragPath .descendantOrSelf f.tests →
      s.axis ≠ .attribute ∧ s.test ∈ f.tests ∧ s.preds = [] := by
    intro f h
    obtain ⟨h1, h2, h3⟩ := mem_fragPath _ _ s h
    refine ⟨?_, h2, h3⟩
    rcases h1 with h | h <;> rw [h] <;> simp
  cases frags with
  | nil => simp [patPath] at hs
  | cons f0 fs =>
    simp only [patPath] at hs
    split at hs
    · cases fs with
      | nil => simp at hs
      | cons f1 fs' =>
        simp only [List.mem_append] at hs
        rcases hs with hs | hs
        · obtain ⟨h1, h2, h3⟩ := hfp f1 hs
          exact ⟨h1, ⟨f1, by simp, h2⟩, h3⟩
        · obtain ⟨h1, ⟨f', hf', h2⟩, h3⟩ := mem_tailPath fs' s hs
          exact ⟨h1, ⟨f', by simp [hf'], h2⟩, h3⟩
    · simp only [List.mem_append] at hs
      rcases hs with hs | hs
      · obtain ⟨h1, h2, h3⟩ := hfp f0 hs
        exact ⟨h1, ⟨f0, by simp, h2⟩, h3⟩
      · obtain ⟨h1, ⟨f', hf', h2⟩, h3⟩ := mem_tailPath fs s hs
        exact ⟨h1, ⟨f', by simp [hf'], h2⟩, h3⟩

theorem patPath_head (frags : List Frag) (hok : FragsOk frags) :
    ∃ g r, patPath frags = ⟨.descendantOrSelf, g, []⟩ :: r := by
  obtain ⟨f0, h0, hhead⟩ := hok.head
  cases frags with
  | nil => simp at h0
  | cons a fs =>
    simp at h0; subst h0
    by_cases hemp : a.tests = []
    · obtain ⟨_, h2⟩ := hhead hemp
      cases fs with
      | nil => simp at h2
      | cons f1 fs' =>
        have hne1 := hok.tail 0 f1 rfl
        cases hts : f1.tests with
        | nil => exact absurd hts hne1
        | cons g G => exact ⟨g, _, by simp [patPath, hemp, hts, fragPath]; rfl⟩
    · cases hts : a.tests with
      | nil => exact absurd hts hemp
      | cons g G => exact ⟨g, _, by simp [patPath, hts, fragPath]; rfl⟩

theorem stepsOk_patPath (ns : NsMap) (vs : Vars) (frags : List Frag) (hok : FragsOk frags) :
    StepsOk ns vs (patPath frags) := by
  obtain ⟨g, r, hgr⟩ := patPath_head frags hok
  refine ⟨by rw [hgr]; simp, fun s hs => (mem_patPath frags s hs).1, ?_, ?_, ?_⟩
  · intro s hs
    obtain ⟨_, ⟨f, hf, ht⟩, _⟩ := mem_patPath frags s hs
    rcases simpleT_cases s.test (hok.simple f hf _ ht) with ⟨n, h⟩ | h | h <;> rw [h] <;> simp [NodeTest.elemWf]
  · intro s hs q hq
    rw [(mem_patPath frags s hs).2.2] at hq; simp at hq
  · intro s hs q hq
    rw [(mem_patPath frags s hs).2.2] at hq; simp at hq

theorem runTest_simpleL (frags : Option (List Frag)) (ic : Bool) (ns : NsMap) (vs : Vars) (t : PState)
    (es : List Event) :
    runTest [.simple frags ic] ns vs [.p t] es = (runOne (pStep frags ic ns) t es).1 := by
  induction es generalizing t with
  | nil => rfl
  | cons e es ih =>
    simp only [runTest, multiStep, List.zip_cons_cons, List.zip_nil_right, List.map_cons, List.map_nil,
      Matcher.step, List.foldl_cons, List.foldl_nil, Val.isNone, runOne]
    rw [ih]
    simp

/-- SimplePathStrategy on the path of any fragment list, as an operand: it designates the
    XPath node set of that path -/
theorem operand_simple_frags (ns : NsMap) (vs : Vars) (frags : List Frag) (hok : FragsOk frags)
    (tag : QName) (attrs : AttrList) (kids : List Node) (hcl : cleanList kids = true) :
    Operand ns vs (toXVars vs) (.elem tag attrs kids) (normPath frags)
      (.simple (fragments (normPath frags)) false) (.p []) := by
  obtain ⟨h1, h2⟩ := simple_marks ns (toXVars vs) frags hok tag attrs kids hcl
  refine ⟨?_, fun x => ?_, ?_⟩
  · rw [runTest_simpleL, fragments_normPath frags hok]; exact h1
  · rw [runTest_simpleL, fragments_normPath frags hok]
    exact Bool.eq_iff_iff.mpr (h2 x)
  · have hne := normPath_ne frags hok
    cases hl : (normPath frags).getLast? with
    | none => simp [List.getLast?_eq_none_iff] at hl; rw [hl] at hne; simp at hne
    | some last => exact ⟨last, rfl, (mem_normPath frags last (List.mem_of_getLast? hl)).1⟩

/-! ## Checking a fragment list; the strategy `Path.__init__` picks -/

/-- `FragsOk` as a computation -/
def fragsOkB (frags : List Frag) : Bool :=
  frags.all (fun f => f.pi == calculatePi f.tests && f.attr.isNone && f.tests.all simpleT) &&
  (frags.drop 1).all (fun f => !f.tests.isEmpty) &&
  (match frags with
   | [] => false
   | f0 :: fs => !f0.tests.isEmpty || (!f0.selfBeginning && !fs.isEmpty))

theorem fragsOk_of_B (frags : List Frag) (h : fragsOkB frags = true) : FragsOk frags := by
  simp only [fragsOkB, Bool.and_eq_true, List.all_eq_true] at h
  obtain ⟨⟨h1, h2⟩, h3⟩ := h
  refine ⟨?_, ?_, ?_, ?_, ?_⟩
  · intro f hf; obtain ⟨⟨a, _⟩, _⟩ := h1 f hf; simpa using a
  · intro f hf; obtain ⟨⟨_, b⟩, _⟩ := h1 f hf; simpa using b
  · intro f hf t ht; obtain ⟨_, c⟩ := h1 f hf
    first | exact c t ht | (simp only [List.all_eq_true] at c; exact c t ht)
  · intro i f hf
    have hmem : f ∈ frags.drop 1 := by
      have : (frags.drop 1)[i]? = some f := by rw [List.getElem?_drop]; simpa [Nat.add_comm] using hf
      exact List.mem_of_getElem? this
    have := h2 f hmem
    intro he; simp [he] at this
  · cases frags with
    | nil => simp at h3
    | cons f0 fs =>
      refine ⟨f0, rfl, fun he => ?_⟩
      simp [he] at h3
      exact ⟨h3.1, by cases fs <;> simp_all⟩

theorem simpleSupports_normPath (frags : List Frag) (hok : FragsOk frags) : simpleSupports (normPath frags) = true := by
  have hne := normPath_ne frags hok
  have hall : ∀ s ∈ normPath frags, s.axis ≠ .attribute ∧ s.preds = [] ∧ simpleT s.test = true := by
    intro s hs
    obtain ⟨h1, ⟨f, hf, ht⟩, h3⟩ := mem_normPath frags s hs
    exact ⟨h1, h3, hok.simple f hf _ ht⟩
  cases hp : normPath frags with
  | nil => rw [hp] at hne; simp at hne
  | cons s0 rest =>
    rw [hp] at hall
    simp only [simpleSupports, Bool.and_eq_true, List.all_eq_true, bne_iff_ne, ne_eq]
    refine ⟨⟨(hall s0 List.mem_cons_self).1, fun s hs => ?_⟩,
      fun s hs => (hall s (List.dropLast_subset _ hs)).1⟩
    obtain ⟨_, h2, h3⟩ := hall s hs
    rcases simpleT_cases s.test h3 with ⟨n, h⟩ | h | h <;> simp [h2, h]

/-- `Path.__init__` hands the path of a fragment list with two or more steps to
    SimplePathStrategy -/
theorem chooses_simple (frags : List Frag) (hok : FragsOk frags) (h2 : 2 ≤ (normPath frags).length) :
    chooseStrategy (normPath frags) = some .simple := by
  have ho : strategyOrder = [.single, .simple, .generic] := by decide
  have h1 : singleSupports (normPath frags) = false := by simp [singleSupports]; omega
  simp [chooseStrategy, ho, List.find?, Strategy.supports, h1, simpleSupports_normPath frags hok]

/-! ## The driver-side computations are the notions used above -/

theorem fragPathM_eq (ax : Axis) (ts : List NodeTest) : FragsM.fragPathM ax ts = fragPath ax ts := by
  cases ts <;> rfl

theorem tailPathM_eq : ∀ fs : List Frag, FragsM.tailPathM fs = tailPath fs
  | [] => rfl
  | f :: fs => by simp only [FragsM.tailPathM, tailPath, fragSteps, fragPathM_eq, tailPathM_eq fs]

theorem normPathM_eq (frags : List Frag) : FragsM.normPathM frags = normPath frags := by
  cases frags with
  | nil => rfl
  | cons f0 fs =>
    simp only [FragsM.normPathM, normPath, headPath, fragPathM_eq, tailPathM_eq]
    rfl

theorem simpleTM_eq : FragsM.simpleTM = simpleT := by
  funext t; cases t <;> rfl

theorem fragsOkM_eq (frags : List Frag) : FragsM.fragsOkM frags = fragsOkB frags := by
  simp only [FragsM.fragsOkM, fragsOkB, simpleTM_eq]
  cases frags <;> rfl

/-- a path the driver reports as in scope (`C17 inscope` answers `(T T)`) satisfies the
    hypotheses of the fragment theorems -/
theorem inScope_sound (p : LocPath) (h : FragsM.inScope p = some (true, true)) :
    ∃ frags, fragments p = some frags ∧ FragsOk frags ∧ normPath frags = p := by
  unfold FragsM.inScope at h
  cases hf : fragments p with
  | none => simp [hf] at h
  | some frags =>
    simp only [hf, Option.some.injEq, Prod.mk.injEq, decide_eq_true_eq] at h
    exact ⟨frags, rfl, fragsOk_of_B frags (by rw [← fragsOkM_eq]; exact h.1), by rw [← normPathM_eq]; exact h.2⟩

end Genshi.Path.Frags

/-
  C01 — the serializers' event cache and the `noescape` flag of `HTMLSerializer`.

    * `serToksC_eq_serToks`   the loop with its cache writes what the loop without a cache writes
                              (any cache whose entries are what the uncached branch writes)
    * `serToks_append`, `flagRun_close`   the flag after a prefix; after an END it is `false`
                              whatever came before
    * `serToks_eq_serEncl`    for streams whose raw-text elements have no element children the
                              flag is "the innermost open element is a raw-text element": which
                              text is escaped depends on the enclosing elements only
-/
import Genshi.Model.SubstEmit
namespace Genshi.Subst
open Genshi.Escape Genshi.Str

/-! ### the cache is unobservable -/

/-- every entry is what the uncached branch writes for its key -/
def CacheOk (m : Method) (c : Cache) : Prop := ∀ k v, (k, v) ∈ c → v = emitTok m k

theorem cacheOk_nil (m : Method) : CacheOk m [] := by
  intro k v h; cases h

theorem cacheOk_cons (m : Method) (c : Cache) (k : Tok) (h : CacheOk m c) :
    CacheOk m ((k, emitTok m k) :: c) := by
  intro k' v' hm
  rcases List.mem_cons.mp hm with h1 | h1
  · cases h1; rfl
  · exact h k' v' h1

theorem cacheGet_mem (c : Cache) (k : Tok) (v : List Char) (h : cacheGet c k = some v) : (k, v) ∈ c := by
  induction c with
  | nil => simp [cacheGet] at h
  | cons p rest ih =>
    obtain ⟨k', v'⟩ := p
    by_cases hk : k' = k
    · simp [cacheGet, hk] at h
      subst hk; subst h
      exact List.mem_cons_self
    · simp [cacheGet, hk] at h
      exact List.mem_cons_of_mem _ (ih h)

theorem cacheGet_ok (m : Method) (c : Cache) (hc : CacheOk m c) (k : Tok) (v : List Char)
    (h : cacheGet c k = some v) : v = emitTok m k :=
  hc k v (cacheGet_mem c k v h)

theorem serToksC_eq_serToks (m : Method) (toks : List Tok) :
    ∀ (c : Cache) (ne : Bool), CacheOk m c → serToksC m c ne toks = serToks m ne toks := by
  induction toks with
  | nil => intro c ne _; simp [serToksC, serToks]
  | cons tok rest ih =>
    intro c ne hc
    cases tok with
    | text s f =>
      cases f with
      | true => simp [serToksC, serToks, ih c ne hc]
      | false =>
        cases ne with
        | true => simp [serToksC, serToks, ih c true hc]
        | false =>
          simp only [serToksC, serToks, Bool.or_self, Bool.false_eq_true, if_false]
          cases hg : cacheGet c (.text s false) with
          | some out =>
            have := cacheGet_ok m c hc _ _ hg
            simp [this, emitTok, ih c false hc]
          | none =>
            have hc' := cacheOk_cons m c (.text s false) hc
            simp only [emitTok] at hc'
            simp [ih _ false hc']
    | «open» t a =>
      simp only [serToksC, serToks]
      cases hg : cacheGet c (.open t a) with
      | some out =>
        have := cacheGet_ok m c hc _ _ hg
        simp [this, emitTok, ih c _ hc]
      | none =>
        have hc' := cacheOk_cons m c (.open t a) hc
        simp only [emitTok] at hc'
        simp [ih _ _ hc']
    | empty t a =>
      simp only [serToksC, serToks]
      cases hg : cacheGet c (.empty t a) with
      | some out =>
        have := cacheGet_ok m c hc _ _ hg
        simp [this, emitTok, ih c _ hc]
      | none =>
        have hc' := cacheOk_cons m c (.empty t a) hc
        simp only [emitTok] at hc'
        simp [ih _ _ hc']
    | close t =>
      simp only [serToksC, serToks]
      cases hg : cacheGet c (.close t) with
      | some out =>
        have := cacheGet_ok m c hc _ _ hg
        simp [this, emitTok, ih c _ hc]
      | none =>
        have hc' := cacheOk_cons m c (.close t) hc
        simp only [emitTok] at hc'
        simp [ih _ _ hc']

theorem serializeC_eq_serialize (m : Method) (strip : Bool) (evs : List Ev) :
    serializeC m strip evs = serialize m strip evs := by
  simp only [serializeC, serialize]
  exact serToksC_eq_serToks m _ [] false (cacheOk_nil m)

/-! ### the life cycle of the flag -/

/-- `noescape` after one event -/
def flagStep (m : Method) (ne : Bool) : Tok → Bool
  | .open t _ => ne || (noescapeElems m).contains t
  | .close _ => false
  | _ => ne

/-- `noescape` after a run of events -/
def flagRun (m : Method) (ne : Bool) (toks : List Tok) : Bool := toks.foldl (flagStep m) ne

theorem serToks_append (m : Method) (pre rest : List Tok) :
    ∀ ne, serToks m ne (pre ++ rest) = serToks m ne pre ++ serToks m (flagRun m ne pre) rest := by
  induction pre with
  | nil => intro ne; simp [serToks, flagRun]
  | cons tok pre ih =>
    intro ne
    cases tok with
    | text s f => cases f <;> simp [serToks, flagRun, flagStep, ih ne]
    | «open» t a => simp [serToks, flagRun, flagStep, ih]
    | empty t a => simp [serToks, flagRun, flagStep, ih ne]
    | close t => simp [serToks, flagRun, flagStep, ih false]

/-- after an END the flag is `false`, whatever was written before and whatever the flag was -/
theorem flagRun_close (m : Method) (ne : Bool) (pre : List Tok) (t : Name) :
    flagRun m ne (pre ++ [.close t]) = false := by
  simp [flagRun, List.foldl_append, flagStep]

/-- the serializers other than html never set the flag -/
theorem flagRun_not_html (m : Method) (hm : m ≠ .html) (toks : List Tok) : flagRun m false toks = false := by
  have hn : noescapeElems m = [] := by cases m <;> simp_all [noescapeElems]
  induction toks with
  | nil => simp [flagRun]
  | cons tok rest ih =>
    have hs : flagStep m false tok = false := by cases tok <;> simp [flagStep, hn]
    simpa [flagRun, hs] using ih

/-! ### escaping is decided by the enclosing elements -/

/-- below the innermost open element no raw-text element is open (kept by `rawLeafGo`: nothing is
    opened inside a raw-text element) -/
def stackOk (m : Method) (st : List Name) : Bool := st.tail.all fun t => !(noescapeElems m).contains t

theorem topRaw_tail (m : Method) (st : List Name) (h : stackOk m st = true) : topRaw m st.tail = false := by
  cases st with
  | nil => simp [topRaw]
  | cons t st =>
    cases st with
    | nil => simp [topRaw]
    | cons u st => simp [stackOk] at h; simp [topRaw, h.1]

theorem stackOk_tail (m : Method) (st : List Name) (h : stackOk m st = true) : stackOk m st.tail = true := by
  cases st with
  | nil => simp [stackOk]
  | cons t st =>
    cases st with
    | nil => simp [stackOk]
    | cons u st => simp [stackOk] at h ⊢; exact h.2

theorem stackOk_push (m : Method) (st : List Name) (t : Name) (h : stackOk m st = true)
    (ht : topRaw m st = false) : stackOk m (t :: st) = true := by
  cases st with
  | nil => simp [stackOk]
  | cons u st => simp [stackOk, topRaw] at h ht ⊢; exact ⟨ht, h⟩

theorem serToks_eq_serEncl (m : Method) (toks : List Tok) :
    ∀ st, stackOk m st = true → rawLeafGo m st toks = true →
      serToks m (topRaw m st) toks = serEncl m st toks := by
  induction toks with
  | nil => intro st _ _; simp [serToks, serEncl]
  | cons tok rest ih =>
    intro st hs h
    cases tok with
    | text s f =>
      simp only [rawLeafGo] at h
      cases f <;> simp [serToks, serEncl, ih st hs h]
    | «open» t a =>
      simp only [rawLeafGo, Bool.and_eq_true, Bool.not_eq_true'] at h
      have := ih (t :: st) (stackOk_push m st t hs h.1) h.2
      simp only [topRaw] at this
      simp only [serToks, serEncl, h.1, Bool.false_or, this]
    | empty t a =>
      simp only [rawLeafGo, Bool.and_eq_true, Bool.not_eq_true'] at h
      simp [serToks, serEncl, ih st hs h.2]
    | close t =>
      simp only [rawLeafGo] at h
      have := ih st.tail (stackOk_tail m st hs) h
      rw [topRaw_tail m st hs] at this
      simp [serToks, serEncl, this]

end Genshi.Subst

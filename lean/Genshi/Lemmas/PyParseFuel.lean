/-
  C13 — the fuel of `pyParse` suffices: the measure `sz` is linear in the number of regenerated tokens.
-/
import Genshi.Lemmas.PyParseMain
namespace Genshi.Py
open Genshi.Gen

theorem wrapP_len (kind : Str) (toks : List Tok) : toks.length ≤ (wrapP kind toks).length := by
  unfold wrapP; split <;> simp <;> omega

theorem wrapP_len2 (kind : Str) (toks : List Tok) (h : parenthesised kind = true) :
    (wrapP kind toks).length = toks.length + 2 := by
  simp [wrapP, h]

theorem drop1_len (l : List Tok) : l.length ≤ (l.drop 1).length + 1 := by
  cases l <;> simp

theorem paramsToks_len (a : List Tok) (e : Bool) (b c d f : List Tok) :
    a.length + b.length + c.length + d.length + f.length ≤ (paramsToks a e b c d f).length + 1 := by
  unfold paramsToks
  have := drop1_len (a ++ (if e then [] else [tComma, tSlash]) ++ b ++ c ++ d ++ f)
  simp only [List.length_append] at this ⊢
  omega

theorem varargToks_len (v : List Tok) (n k : Bool) (h : n = false) : (varargToks v n k).length = v.length := by
  subst h; simp [varargToks]

theorem cmpSym_len : ∀ p ∈ AstGen.comparisonOperators, 1 ≤ (symToks p.2).length := by decide

mutual
theorem sz_le : ∀ (e : PyExpr), WF e → sz e + 1 ≤ 3 * (gen e).length
  | .name id, _ => by simp [sz, gen]
  | .const c, h => by
      have := (spine_const c h).head
      cases hg : gen (.const c) with
      | nil => simp [hg, headOK] at this
      | cons t r => simp [sz]; omega
  | .boolOp op vs, h => by
      simp only [WF] at h
      obtain ⟨v, rest, rfl⟩ : ∃ v rest, vs = v :: rest := by
        cases vs with
        | nil => simp at h
        | cons a b => exact ⟨a, b, rfl⟩
      have h1 := sz_le v h.2.2.1.1
      have h2 := szL_le rest h.2.2.1.2 (opToks AstGen.boolOperators op) []
      simp only [sz, szL, gen, wrapP_len2 _ _ parens_all.1, List.length_append] at *
      omega
  | .binOp l op r, h => by
      simp only [WF] at h
      have h1 := sz_le l h.2.1
      have h2 := sz_le r h.2.2.1
      simp only [sz, gen, wrapP_len2 _ _ parens_all.2.1, List.length_append] at *
      omega
  | .unaryOp op e, h => by
      simp only [WF] at h
      have h1 := sz_le e h.2.1
      simp only [sz, gen, wrapP_len2 _ _ parens_all.2.2.1, List.length_append] at *
      omega
  | .lambda po ar va ko ka body, h => by
      simp only [WF] at h
      obtain ⟨h1, h2, h3, h4, h5, h6, _⟩ := h
      have b1 := szL_le po h1 [tComma] []
      have b2 := szL_le ar h2 [tComma] []
      have b3 := szO_le va h3 [tComma, tStar]
      have b4 := szL_le ko h4 [tComma] []
      have b5 := szO_le ka h5 [tComma, tDStar]
      have b6 := sz_le body h6
      have hv : (genOpt [tComma, tStar] va).length ≤
          (varargToks (genOpt [tComma, tStar] va) va.isNone ko.isEmpty).length := by
        cases va with
        | none => simp [genOpt]
        | some v => simp [varargToks]
      have hp := paramsToks_len (genList [tComma] [] po) po.isEmpty (genList [tComma] [] ar)
        (varargToks (genOpt [tComma, tStar] va) va.isNone ko.isEmpty) (genList [tComma] [] ko)
        (genOpt [tComma, tDStar] ka)
      simp only [sz, gen, wrapP_len2 _ _ parens_all.2.2.2.1, List.length_append, List.length_cons] at *
      omega
  | .ifExp t b o, h => by
      simp only [WF] at h
      have h1 := sz_le t h.1
      have h2 := sz_le b h.2.1
      have h3 := sz_le o h.2.2.1
      simp only [sz, gen, wrapP_len2 _ _ parens_all.2.2.2.2.1, List.length_append, List.length_cons] at *
      omega
  | .dict items, h => by
      simp only [WF] at h
      have h1 := szL_le items h.1 [] [tComma]
      simp only [sz, gen, List.length_append, List.length_cons] at *
      omega
  | .listComp elt gens, h => by
      simp only [WF] at h
      have h1 := sz_le elt h.1
      have h2 := szL_le gens h.2.2.1 [] []
      simp only [sz, gen, List.length_append, List.length_cons] at *
      omega
  | .genExp elt gens, h => by
      simp only [WF] at h
      have h1 := sz_le elt h.1
      have h2 := szL_le gens h.2.2.1 [] []
      simp only [sz, gen, List.length_append, List.length_cons] at *
      omega
  | .yield_ v, h => by
      simp only [WF] at h
      have h1 := szO_le v h.1 []
      simp only [sz, gen, wrapP_len2 _ _ parens_all.2.2.2.2.2.1, List.length_append, List.length_cons] at *
      omega
  | .compare l rest, h => by
      simp only [WF] at h
      have h1 := sz_le l h.1
      have h2 := szL_le rest h.2.2.1 [] []
      simp only [sz, gen, wrapP_len2 _ _ parens_all.2.2.2.2.2.2, List.length_append] at *
      omega
  | .call f args kws, h => by
      simp only [WF] at h
      have h1 := sz_le f h.1
      have h2 := szL_le args h.2.2.1 [tComma] []
      have h3 := szL_le kws h.2.2.2.2.1 [tComma] []
      have hd := drop1_len (genList [tComma] [] args ++ genList [tComma] [] kws)
      simp only [sz, gen, List.length_append, List.length_cons] at *
      omega
  | .attribute v a, h => by
      simp only [WF] at h
      have h1 := sz_le v h.1
      rw [gen_attribute v a h.2.2.2]
      simp only [sz, List.length_append, List.length_cons] at *
      omega
  | .subscript v s, h => by
      simp only [WF] at h
      have h1 := sz_le v h.1
      rw [gen_subscript]
      rcases h.2.2.2 with hs | hs
      · have h2 := sz_le s h.2.2.1
        have : sliceToks s = gen s := by cases s <;> first | rfl | simp [isExpr] at hs
        simp only [sz, this, List.length_append, List.length_cons] at *
        omega
      · cases s with
        | slice l u st =>
          have hw := h.2.2.1
          simp only [WF] at hw
          have b1 := szO_le l hw.1 []
          have b2 := szO_le u hw.2.1 []
          have b3 := szO_le st hw.2.2.1 [tColon]
          simp only [sz, sliceToks, List.length_append, List.length_cons] at *
          omega
        | _ => simp [isSlice] at hs
  | .slice l u st, h => by
      simp only [WF] at h
      have b1 := szO_le l h.1 []
      have b2 := szO_le u h.2.1 []
      have b3 := szO_le st h.2.2.1 [tColon]
      simp only [sz, gen, List.length_append, List.length_cons] at *
      omega
  | .starred e, h => by
      simp only [WF] at h
      have h1 := sz_le e h.1
      simp only [sz, gen, List.length_cons] at *
      omega
  | .list elts, h => by
      simp only [WF] at h
      have h1 := szL_le elts h.1 [] [tComma]
      simp only [sz, gen, List.length_append, List.length_cons] at *
      omega
  | .tuple elts, h => by
      simp only [WF] at h
      have h1 := szL_le elts h.1 [] [tComma]
      simp only [sz, gen, List.length_append, List.length_cons] at *
      omega
  | .unsupported _, h => by simp [WF] at h
  | .keyword none v, h => by
      simp only [WF] at h
      have h1 := sz_le v h.2.1
      simp only [sz, gen, List.length_cons] at *
      omega
  | .keyword (some n) v, h => by
      simp only [WF] at h
      have h1 := sz_le v h.2.1
      simp only [sz, gen, List.length_cons] at *
      omega
  | .comp t it ifs a, h => by
      simp only [WF] at h
      have h1 := sz_le t h.1
      have h2 := sz_le it h.2.2.1
      have h3 := szL_le ifs h.2.2.2.2.1 [kw cs!"if"] []
      simp only [sz, gen, List.length_append, List.length_cons] at *
      omega
  | .param n ann d, h => by
      simp only [WF] at h
      have h1 := szO_le ann h.2.1 [tColon]
      have h2 := szO_le d h.2.2.1 [tEq]
      simp only [sz, gen, List.length_append, List.length_cons] at *
      omega
  | .dictItem k v, h => by
      simp only [WF] at h
      have h1 := szO_le k h.1 []
      have h2 := sz_le v h.2.2.1
      simp only [sz, gen, List.length_append, List.length_cons] at *
      omega
  | .cmpRhs op e, h => by
      simp only [WF] at h
      have h1 := sz_le e h.2.1
      obtain ⟨sym, hsym⟩ := Option.isSome_iff_exists.mp h.1
      have := cmpSym_len _ (lookup_mem hsym)
      simp only [sz, gen, opToks, hsym, List.length_append] at *
      omega
theorem szL_le : ∀ (es : List PyExpr), WFL es → ∀ pre post, szL es ≤ 3 * (genList pre post es).length
  | [], _ => by intro pre post; simp [szL]
  | e :: es, h => by
      simp only [WFL] at h
      intro pre post
      have h1 := sz_le e h.1
      have h2 := szL_le es h.2 pre post
      simp only [szL, genList_cons, List.length_append] at *
      omega
theorem szO_le : ∀ (o : Option PyExpr), WFO o → ∀ pre, szO o ≤ 3 * (genOpt pre o).length
  | none, _ => by intro pre; simp [szO]
  | some e, h => by
      simp only [WFO] at h
      intro pre
      have h1 := sz_le e h
      simp only [szO, genOpt, List.length_append] at *
      omega
end

end Genshi.Py

/-
  The eager filter terminates on every well-nested, registration-free stream: the body of a match
  is matched against strictly later templates only.
-/
import Genshi.Lemmas.MatchPipeline
namespace Genshi.Match
open Genshi
variable {σ : Type}

theorem run_total : ∀ (k : Nat) (n : Nat) (s : Nat) (e : Option Nat) (M : List (MT σ)) (items : List (Item σ)),
    M.length - s ≤ k → items.length ≤ n → NoReg items → Neutral (evs items) → (∀ t ∈ M, BodyOK t.body) →
    ∃ f r, run f s e items M = some r := by
  intro k
  induction k with
  | zero =>
    -- no template in the window can exist: everything passes
    intro n
    induction n with
    | zero =>
      intro s e M items _ hn _ _ _
      have : items = [] := List.length_eq_zero_iff.mp (by omega)
      subst this
      exact ⟨1, (M, []), by simp [run]⟩
    | succ n ihn =>
      intro s e M items hk hn hnr hneu hok
      cases items with
      | nil => exact ⟨1, (M, []), by simp [run]⟩
      | cons it rest =>
        cases it with
        | reg t => exact absurd (by simp) (hnr t)
        | ev x =>
          have hnr' : NoReg rest := fun y hy => hnr y (by simp [hy])
          simp only [evs_ev] at hneu
          by_cases hS : isStart x = true
          · -- the scan cannot fire: no slot ≥ s exists
            have hnone : (scan x s e 0 M).2 = none := by
              cases hsc : (scan x s e 0 M).2 with
              | none => rfl
              | some idx =>
                exfalso
                obtain ⟨hwi, ⟨t, ht, _⟩, _⟩ := scan_first x s e M idx hsc
                have h1 := ((inWindow_iff _ _ _).mp hwi).1
                have h2 := (List.getElem?_eq_some_iff.mp ht).1
                omega
            generalize hsc : scan x s e 0 M = sc at hnone
            obtain ⟨M1, hit⟩ := sc
            simp only at hnone; subst hnone
            have hl1 : M1.length = M.length := by have := scan_length x s e 0 M; rw [hsc] at this; exact this
            have hok1 : ∀ t ∈ M1, BodyOK t.body := by
              have := scan_forall static_bodyOK x s e 0 M hok; rw [hsc] at this; exact this
            -- the rest is not neutral by itself; use the element structure
            cases x with
            | start tg at_ =>
              have hcl := closed_of_neutral hneu
              have hl1' : lvl 1 (evs rest) = some 0 := by simpa [Closed, lvl, isStart] using hcl
              obtain ⟨inner, tail, a'', hst, _, _⟩ := strip_append rest 0 0 ([] : List (Item σ)) (by simpa using hl1')
              obtain ⟨hrest, hnin, htail, hnre⟩ := neutral_start_split hneu hst
              subst htail
              have hnoin : NoReg inner := fun y hy => hnr' y (by rw [hrest]; simp [hy])
              have hnore : NoReg a'' := fun y hy => hnr' y (by rw [hrest]; simp [hy])
              have hlen : inner.length + a''.length + 1 = rest.length := by rw [hrest]; simp; omega
              simp only [List.length_cons] at hn
              obtain ⟨f1, r1, h1⟩ := ihn s e M1 inner (by omega) (by omega) hnoin hnin hok1
              have hok2 := run_forall static_bodyOK _ _ _ _ _ _ hok1 (fun y hy => absurd hy (hnoin y)) h1
              have hl2 := run_len hnoin h1
              have hok3 := scanEnd_forall static_bodyOK (Event.end_ tg) s e 0 r1.1 hok2
              obtain ⟨f2, r2, h2⟩ := ihn s e (scanEnd (Event.end_ tg) s e 0 r1.1) a''
                (by rw [scanEnd_length, hl2, hl1]; exact hk) (by omega) hnore hnre hok3
              have hend : run (f2 + 1) s e (.ev (Event.end_ tg) :: a'') r1.1 = some (r2.1, Event.end_ tg :: r2.2) := by
                simp only [run, isStart, isEnd, Bool.false_eq_true, ↓reduceIte, h2, emit, Option.map_some]
              have hj := run_append_join f1 (f2 + 1) s e inner (.ev (Event.end_ tg) :: a'') 0 M1 _ _
                (closed_of_neutral hnin) h1 hend
              refine ⟨f1 + (f2 + 1) + 1, (r2.1, Event.start tg at_ :: (r1.2 ++ Event.end_ tg :: r2.2)), ?_⟩
              simp only [run, isStart, ↓reduceIte, hsc, hrest, hj, emit, Option.map_some]
            | _ => simp [isStart] at hS
          · by_cases hE : isEnd x = true
            · exfalso
              have := hneu []
              cases x with
              | end_ tg => simp [track] at this
              | _ => simp [isEnd] at hE
            · have hneu' : Neutral (evs rest) := by
                intro st
                have := hneu st
                rw [track_other x (by simpa using hS) (by simpa using hE)] at this
                exact this
              simp only [List.length_cons] at hn
              obtain ⟨f1, r1, h1⟩ := ihn s e M rest hk (by omega) hnr' hneu' hok
              refine ⟨f1 + 1, (r1.1, x :: r1.2), ?_⟩
              simp only [run, hS, Bool.false_eq_true, ↓reduceIte, hE, h1, emit, Option.map_some]
  | succ k ihk =>
    intro n
    induction n with
    | zero =>
      intro s e M items _ hn _ _ _
      have : items = [] := List.length_eq_zero_iff.mp (by omega)
      subst this
      exact ⟨1, (M, []), by simp [run]⟩
    | succ n ihn =>
      intro s e M items hk hn hnr hneu hok
      cases items with
      | nil => exact ⟨1, (M, []), by simp [run]⟩
      | cons it rest =>
        cases it with
        | reg t => exact absurd (by simp) (hnr t)
        | ev x =>
          have hnr' : NoReg rest := fun y hy => hnr y (by simp [hy])
          simp only [evs_ev] at hneu
          simp only [List.length_cons] at hn
          by_cases hS : isStart x = true
          · cases x with
            | start tg at_ =>
              have hcl := closed_of_neutral hneu
              have hl1' : lvl 1 (evs rest) = some 0 := by simpa [Closed, lvl, isStart] using hcl
              obtain ⟨inner, tail, a'', hst, _, _⟩ := strip_append rest 0 0 ([] : List (Item σ)) (by simpa using hl1')
              obtain ⟨hrest, hnin, htail, hnre⟩ := neutral_start_split hneu hst
              subst htail
              have hnoin : NoReg inner := fun y hy => hnr' y (by rw [hrest]; simp [hy])
              have hnore : NoReg a'' := fun y hy => hnr' y (by rw [hrest]; simp [hy])
              have hlen : inner.length + a''.length + 1 = rest.length := by rw [hrest]; simp; omega
              generalize hsc : scan (Event.start tg at_) s e 0 M = sc
              obtain ⟨M1, hit⟩ := sc
              have hl1 : M1.length = M.length := by have := scan_length (Event.start tg at_) s e 0 M; rw [hsc] at this; exact this
              have hok1 : ∀ t ∈ M1, BodyOK t.body := by
                have := scan_forall static_bodyOK (Event.start tg at_) s e 0 M hok; rw [hsc] at this; exact this
              cases hit with
              | none =>
                obtain ⟨f1, r1, h1⟩ := ihn s e M1 inner (by omega) (by omega) hnoin hnin hok1
                have hok2 := run_forall static_bodyOK _ _ _ _ _ _ hok1 (fun y hy => absurd hy (hnoin y)) h1
                have hl2 := run_len hnoin h1
                have hok3 := scanEnd_forall static_bodyOK (Event.end_ tg) s e 0 r1.1 hok2
                obtain ⟨f2, r2, h2⟩ := ihn s e (scanEnd (Event.end_ tg) s e 0 r1.1) a''
                  (by rw [scanEnd_length, hl2, hl1]; exact hk) (by omega) hnore hnre hok3
                have hend : run (f2 + 1) s e (.ev (Event.end_ tg) :: a'') r1.1 = some (r2.1, Event.end_ tg :: r2.2) := by
                  simp only [run, isStart, isEnd, Bool.false_eq_true, ↓reduceIte, h2, emit, Option.map_some]
                have hj := run_append_join f1 (f2 + 1) s e inner (.ev (Event.end_ tg) :: a'') 0 M1 _ _
                  (closed_of_neutral hnin) h1 hend
                refine ⟨f1 + (f2 + 1) + 1, (r2.1, Event.start tg at_ :: (r1.2 ++ Event.end_ tg :: r2.2)), ?_⟩
                simp only [run, isStart, ↓reduceIte, hsc, hrest, hj, emit, Option.map_some]
              | some idx =>
                obtain ⟨hwi, ⟨t0, ht0, _⟩, _⟩ := scan_first (Event.start tg at_) s e M idx (by rw [hsc])
                have hsidx := ((inWindow_iff _ _ _).mp hwi).1
                have hidxl := (List.getElem?_eq_some_iff.mp ht0).1
                obtain ⟨t, ht⟩ : ∃ t, M1[idx]? = some t := ⟨M1[idx]'(by omega), List.getElem?_eq_getElem (by omega)⟩
                have htb : BodyOK t.body := hok1 t (getElem?_mem_of ht)
                have hok2 : ∀ y ∈ fired t idx M1, BodyOK y.body := by
                  unfold fired; split
                  · exact retireAt_forall static_bodyOK idx M1 hok1
                  · exact hok1
                have hlf := fired_length t idx M1
                obtain ⟨f3, r3, h3⟩ := ihn s (some (preEnd t idx)) (fired t idx M1) inner (by omega) (by omega) hnoin hnin hok2
                obtain ⟨M3, innerOut⟩ := r3
                have hok3 := run_forall static_bodyOK _ _ _ _ _ _ hok2 (fun y hy => absurd hy (hnoin y)) h3
                have hl3 := run_len hnoin h3
                have hio : Neutral innerOut := fun s2 =>
                  run_track _ _ _ _ _ _ hok2 (fun y hy => absurd hy (hnoin y)) h3 s2 s2 (hnin s2)
                have hbody : Neutral (instantiate t.body (Event.start tg at_ :: innerOut ++ [Event.end_ tg])) :=
                  instantiate_neutral htb (neutral_wrap tg at_ hio)
                -- the body is matched against strictly later templates
                obtain ⟨f4, r4, h4⟩ := ihk ((evItems (instantiate t.body (Event.start tg at_ :: innerOut ++ [Event.end_ tg])) : List (Item σ)).length)
                  (idx + 1) e M3 _ (by omega) (Nat.le_refl _) (noReg_evItems _) (by simpa using hbody) hok3
                obtain ⟨M4, outb⟩ := r4
                have hok4 := run_forall static_bodyOK _ _ _ _ _ _ hok3 (fun y hy => absurd hy (noReg_evItems _ y)) h4
                have hl4 := run_len (noReg_evItems _) h4
                have hok5 := updRange_forall static_bodyOK (Event.end_ tg) s (idx + 1) 0 M4 hok4
                obtain ⟨f5, r5, h5⟩ := ihn s e (updRange (Event.end_ tg) s (idx + 1) 0 M4) a''
                  (by rw [updRange_length]; omega) (by omega) hnore hnre hok5
                refine ⟨f3 + f4 + f5 + 1, (r5.1, outb ++ r5.2), ?_⟩
                have e3 := run_mono_le h3 (show f3 ≤ f3 + f4 + f5 by omega)
                have e4 := run_mono_le h4 (show f4 ≤ f3 + f4 + f5 by omega)
                have e5 := run_mono_le h5 (show f5 ≤ f3 + f4 + f5 by omega)
                simp only [run, isStart, ↓reduceIte, hsc, ht, hst, e3, e4, e5, Option.map_some]
            | _ => simp [isStart] at hS
          · by_cases hE : isEnd x = true
            · exfalso
              have := hneu []
              cases x with
              | end_ tg => simp [track] at this
              | _ => simp [isEnd] at hE
            · have hneu' : Neutral (evs rest) := by
                intro st
                have := hneu st
                rw [track_other x (by simpa using hS) (by simpa using hE)] at this
                exact this
              obtain ⟨f1, r1, h1⟩ := ihn s e M rest hk (by omega) hnr' hneu' hok
              refine ⟨f1 + 1, (r1.1, x :: r1.2), ?_⟩
              simp only [run, hS, Bool.false_eq_true, ↓reduceIte, hE, h1, emit, Option.map_some]

/-- **Termination**: on every well-nested, registration-free stream the eager filter yields a result
    when given enough fuel. -/
theorem run_terminates (s : Nat) (e : Option Nat) (M : List (MT σ)) (items : List (Item σ)) (hnr : NoReg items)
    (hneu : Neutral (evs items)) (hok : ∀ t ∈ M, BodyOK t.body) : ∃ f r, run f s e items M = some r :=
  run_total (M.length - s) items.length s e M items (Nat.le_refl _) (Nat.le_refl _) hnr hneu hok

end Genshi.Match

namespace Genshi.Match
open Genshi
variable {σ : Type}

/-- leading registrations just extend the template list -/
theorem run_regs : ∀ (regs : List (MT σ)) (f s : Nat) (e : Option Nat) (rest : List (Item σ)) (M : List (MT σ)),
    run (f + regs.length) s e (regs.map Item.reg ++ rest) M = run f s e rest (M ++ regs) ∨ f = 0 := by
  intro regs
  induction regs with
  | nil => intro f s e rest M; left; simp
  | cons t ts ih =>
    intro f s e rest M
    cases f with
    | zero => right; rfl
    | succ f =>
      left
      simp only [List.map_cons, List.cons_append, List.length_cons]
      rw [show f + 1 + (ts.length + 1) = (f + 1 + ts.length) + 1 by omega]
      simp only [run]
      rcases ih (f + 1) s e rest (M ++ [t]) with h | h
      · rw [h]; simp
      · omega

/-- **A whole render** of a template whose `py:match` declarations are the first children of the root:
    the root START passes untested (no template is registered yet), the declarations register, the
    content is filtered with the registered list, and the root END passes (the matchers are told). -/
theorem render_declarations_first (f : Nat) (tg : QName) (at_ : AttrList) (regs : List (MT σ)) (content : List (Item σ))
    (hnr : NoReg content) (hcl : Closed (evs content)) (M' : List (MT σ)) (out : List Event)
    (h : run f 0 none content regs = some (M', out)) :
    render (f + regs.length + 3) (.ev (.start tg at_) :: (regs.map Item.reg ++ (content ++ [.ev (.end_ tg)]))) =
      some (.start tg at_ :: (out ++ [.end_ tg])) := by
  have hf := run_fuel_pos h
  obtain ⟨f0, rfl⟩ : ∃ f0, f = f0 + 1 := ⟨f - 1, by omega⟩
  have hend : run 2 0 none [Item.ev (Event.end_ tg)] M' = some (scanEnd (Event.end_ tg) 0 none 0 M', [Event.end_ tg]) := by
    simp [run, isStart, isEnd, emit]
  have hj := run_append_join (f0 + 1) 2 0 none content [.ev (Event.end_ tg)] 0 regs _ _ hcl h hend
  unfold render
  rw [show f0 + 1 + regs.length + 3 = (f0 + 1 + 2 + regs.length) + 1 by omega]
  simp only [run, isStart, ↓reduceIte, scan]
  rcases run_regs regs (f0 + 1 + 2) 0 none (content ++ [.ev (Event.end_ tg)]) [] with h1 | h1
  · rw [h1, List.nil_append, hj]; simp [emit]
  · omega

end Genshi.Match

/-
  Helper lemmas for C08 / C09: Markup (pre-escaped) text.
  * a Markup TEXT event that is the escape of some string is written exactly like
    the plain TEXT event of that string (outside CDATA / script / style), and like
    the plain event of the same string inside;
  * escaping commutes with the white-space normal form, so what `WhitespaceFilter`
    hands on for escaped text is again the escape of some string.
-/
import Genshi.Model.OutputWs
import Genshi.Lemmas.Output
import Genshi.Lemmas.Escape
namespace Genshi.Output
open Genshi Genshi.Escape

/-! ### Markup text as plain text -/

/-- the text is the escape of what `unescape` makes of it -/
def ProperEsc (s : Str) : Prop := escapeSpec false (unescape s) = s

instance (s : Str) : Decidable (ProperEsc s) := by unfold ProperEsc; infer_instance

theorem properEsc_escape (x : Str) : ProperEsc (escapeSpec false x) := by
  unfold ProperEsc; rw [unescape_escapeSpec]

/-- the plain event that is written the same way in this context -/
def desafeEv (c : Ctx) : FEv → FEv
  | .text s true => if c.raw then .text s false else .text (unescape s) false
  | ev => ev

/-- the stream with every Markup text replaced by the plain text that is written the same way -/
def desafe (m : Method) (o : Opts) : Ctx → List FEv → List FEv
  | _, [] => []
  | c, ev :: rest => desafeEv c ev :: desafe m o (ctxAfter m o c ev) rest

/-- every Markup text outside raw contexts is the escape of some string -/
def SafeProper (m : Method) (o : Opts) : Ctx → List FEv → Prop
  | _, [] => True
  | c, ev :: rest =>
      (match ev with
       | .text s true => c.raw = false → ProperEsc s
       | _ => True) ∧ SafeProper m o (ctxAfter m o c ev) rest

theorem ctxAfter_desafeEv (m : Method) (o : Opts) (c : Ctx) (ev : FEv) :
    ctxAfter m o c (desafeEv c ev) = ctxAfter m o c ev := by
  cases ev with
  | text s f =>
    cases f
    · rfl
    · simp only [desafeEv]; split <;> simp [ctxAfter]
  | _ => rfl

theorem emit_desafeEv (m : Method) (o : Opts) (c : Ctx) (ev : FEv)
    (h : match ev with
         | .text s true => c.raw = false → ProperEsc s
         | _ => True) :
    emit m o c (desafeEv c ev) = emit m o c ev := by
  cases ev with
  | text s f =>
    cases f with
    | false => rfl
    | true =>
      by_cases hr : c.raw = true
      · simp [desafeEv, hr, emit]
      · have hr' : c.raw = false := by simpa using hr
        have hp : ProperEsc s := h hr'
        simp only [desafeEv, hr', Bool.false_eq_true, ↓reduceIte, emit]
        rw [hp]
  | _ => rfl

/-- Markup text that is properly escaped is unobservable as such: the output is that of the
    stream with plain text in its place -/
theorem serSpec_desafe (m : Method) (o : Opts) (evs : List FEv) :
    ∀ c : Ctx, SafeProper m o c evs → serSpec m o c evs = serSpec m o c (desafe m o c evs) := by
  induction evs with
  | nil => intro c _; rfl
  | cons ev rest ih =>
    intro c h
    simp only [serSpec, desafe]
    rw [emit_desafeEv m o c ev h.1, ctxAfter_desafeEv, ← ih _ h.2]

/-! ### escaping commutes with the white-space normal form -/

theorem escC_ws (c : Char) (h : isBlank c = true ∨ c = '\n') : escC false c = [c] := by
  rcases h with h | h
  · simp only [isBlank, Bool.or_eq_true, beq_iff_eq] at h
    rcases h with h | h <;> subst h <;> decide
  · subst h; decide

theorem escC_nonws (c : Char) (hb : isBlank c = false) (hn : (c == '\n') = false) :
    escC false c ≠ [] ∧ (∀ d ∈ escC false c, isBlank d = false ∧ (d == '\n') = false) := by
  unfold escC
  by_cases h1 : c = '&'
  · subst h1; simp [amp]; decide
  by_cases h2 : c = '<'
  · subst h2; simp [lt]; decide
  by_cases h3 : c = '>'
  · subst h3; simp [gt]; decide
  by_cases h4 : c = '"'
  · subst h4; simp; decide
  have hn2 : c ≠ '\n' := by simpa using hn
  simp [h1, h2, h3, h4, hb, hn2]

theorem trimGo_nonws (w : Str) (hne : w ≠ []) (hw : ∀ d ∈ w, isBlank d = false ∧ (d == '\n') = false) :
    ∀ (p Y : Str), trimGo p (w ++ Y) = p ++ w ++ trimGo [] Y := by
  induction w with
  | nil => exact absurd rfl hne
  | cons c cs ih =>
    intro p Y
    have hc := hw c (by simp)
    simp only [List.cons_append, trimGo, hc.1, hc.2, Bool.false_eq_true, ↓reduceIte]
    by_cases hcs : cs = []
    · subst hcs; simp
    · rw [ih hcs (fun d hd => hw d (by simp [hd])) [] Y]; simp

theorem collapseGo_nonws (w : Str) (hne : w ≠ []) (hw : ∀ d ∈ w, (d == '\n') = false) :
    ∀ (b : Bool) (Y : Str), collapseGo b (w ++ Y) = w ++ collapseGo false Y := by
  induction w with
  | nil => exact absurd rfl hne
  | cons c cs ih =>
    intro b Y
    have hc := hw c (by simp)
    simp only [List.cons_append, collapseGo, hc, Bool.false_eq_true, ↓reduceIte]
    by_cases hcs : cs = []
    · subst hcs; simp
    · rw [ih hcs (fun d hd => hw d (by simp [hd])) false Y]

theorem escape_blanks (p : Str) (hp : p.all isBlank = true) : escapeSpec false p = p := by
  induction p with
  | nil => rfl
  | cons c cs ih =>
    simp only [List.all_cons, Bool.and_eq_true] at hp
    simp only [escapeSpec, List.flatMap_cons] at ih ⊢
    rw [escC_ws c (Or.inl hp.1), ih hp.2]; rfl

theorem trimGo_escape (x : Str) : ∀ p : Str, p.all isBlank = true →
    trimGo p (escapeSpec false x) = escapeSpec false (trimGo p x) := by
  induction x with
  | nil => intro p hp; simp [escapeSpec, trimGo]; exact (escape_blanks p hp).symm
  | cons c cs ih =>
    intro p hp
    have hcons : escapeSpec false (c :: cs) = escC false c ++ escapeSpec false cs := by simp [escapeSpec]
    by_cases hb : isBlank c = true
    · rw [hcons, escC_ws c (Or.inl hb)]
      simp only [List.singleton_append, trimGo, hb, ↓reduceIte]
      exact ih (p ++ [c]) (by simp [hp, hb])
    · have hb' : isBlank c = false := by simpa using hb
      by_cases hn : (c == '\n') = true
      · have hc : c = '\n' := by simpa using hn
        subst hc
        rw [hcons, escC_ws '\n' (Or.inr rfl)]
        simp only [List.singleton_append, trimGo, hb', Bool.false_eq_true, ↓reduceIte, BEq.rfl]
        rw [ih [] (by simp)]
        simp [escapeSpec, escC_ws '\n' (Or.inr rfl)]
      · have hn' : (c == '\n') = false := by simpa using hn
        obtain ⟨hne, hw⟩ := escC_nonws c hb' hn'
        rw [hcons, trimGo_nonws _ hne hw, ih [] (by simp)]
        simp only [trimGo, hb', hn', Bool.false_eq_true, ↓reduceIte]
        simp [escapeSpec, List.flatMap_append, escape_blanks p hp]
        have := escape_blanks p hp
        simp only [escapeSpec] at this
        rw [this]

theorem collapseGo_escape (x : Str) : ∀ b : Bool,
    collapseGo b (escapeSpec false x) = escapeSpec false (collapseGo b x) := by
  induction x with
  | nil => intro b; simp [escapeSpec, collapseGo]
  | cons c cs ih =>
    intro b
    have hcons : escapeSpec false (c :: cs) = escC false c ++ escapeSpec false cs := by simp [escapeSpec]
    by_cases hn : (c == '\n') = true
    · have hc : c = '\n' := by simpa using hn
      subst hc
      rw [hcons, escC_ws '\n' (Or.inr rfl)]
      cases b
      · simp only [List.singleton_append, collapseGo, BEq.rfl, ↓reduceIte, Bool.false_eq_true]
        rw [ih true]; simp [escapeSpec, escC_ws '\n' (Or.inr rfl)]
      · simp only [List.singleton_append, collapseGo, BEq.rfl, ↓reduceIte]
        exact ih true
    · have hn' : (c == '\n') = false := by simpa using hn
      have hne : escC false c ≠ [] := by
        unfold escC
        by_cases h1 : c = '&' <;> by_cases h2 : c = '<' <;> by_cases h3 : c = '>' <;> by_cases h4 : c = '"' <;>
          simp [h1, h2, h3, h4, amp, lt, gt]
      have hw : ∀ d ∈ escC false c, (d == '\n') = false := by
        unfold escC
        by_cases h1 : c = '&'
        · subst h1; simp [amp]
        by_cases h2 : c = '<'
        · subst h2; simp [lt]
        by_cases h3 : c = '>'
        · subst h3; simp [gt]
        by_cases h4 : c = '"'
        · subst h4; simp
        have hn2 : c ≠ '\n' := by simpa using hn'
        simp [h1, h2, h3, h4, hn2]
      rw [hcons, collapseGo_nonws _ hne hw, ih false]
      simp [collapseGo, hn', escapeSpec]

/-- escaping commutes with the white-space normal form -/
theorem wsNorm_escape (x : Str) : wsNorm (escapeSpec false x) = escapeSpec false (wsNorm x) := by
  simp only [wsNorm, trim, collapse]
  rw [trimGo_escape x [] (by simp), collapseGo_escape]

/-- hence what the whitespace filter makes of escaped text is again escaped text -/
theorem properEsc_stdNorm (p : Bool) (x : Str) : ProperEsc (stdNorm p (escapeSpec false x)) := by
  unfold stdNorm
  cases p
  · simp only [Bool.false_eq_true, ↓reduceIte]; rw [wsNorm_escape]; exact properEsc_escape _
  · exact properEsc_escape _

end Genshi.Output

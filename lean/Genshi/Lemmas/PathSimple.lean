/-
  SimplePathStrategy vs GenericStrategy (C17 `simple_eq_generic`, proved part):
  relative mode, one fragment of child-axis steps.  The pair (fragment index,
  matched prefix length) on Simple's stack stands for the one candidate position
  on Generic's stack.
-/
import Genshi.Lemmas.PathStream
import Genshi.Lemmas.PathSingle
namespace Genshi.Path
open Genshi

section
variable (ns : NsMap) (vs : Vars)

/-- a path of child-axis steps without predicates -/
def childChain (tests : List NodeTest) : LocPath := tests.map fun t => ⟨.child, t, []⟩

theorem fragLoop_chain (tests acc : List NodeTest) :
    fragLoop (childChain tests) [] acc false = some [⟨acc ++ tests, calculatePi (acc ++ tests), none, false⟩] := by
  induction tests generalizing acc with
  | nil => simp [childChain, fragLoop]
  | cons t ts ih =>
    simp only [childChain, List.map_cons, fragLoop]
    have := ih (acc ++ [t])
    simp only [childChain] at this
    rw [this]
    simp

theorem fragments_chain (tests : List NodeTest) :
    fragments (childChain tests) = some [⟨tests, calculatePi tests, none, false⟩] := by
  have := fragLoop_chain tests []
  simpa [fragments] using this

theorem realLen_chain (tests : List NodeTest) (h : tests ≠ []) :
    realLen (dotSlash :: childChain tests) = tests.length + 1 := by
  unfold realLen
  cases hl : (dotSlash :: childChain tests).getLast? with
  | none => simp at hl
  | some last =>
    have : last.axis = .child := by
      have hne : childChain tests ≠ [] := by simpa [childChain] using h
      rw [List.getLast?_cons_of_ne_nil hne] at hl
      simp only [childChain, List.getLast?_map] at hl
      cases hg : tests.getLast? <;> simp [hg] at hl
      rw [← hl]
    simp [this, childChain]

theorem chain_getElem (tests : List NodeTest) (d : Nat) :
    (dotSlash :: childChain tests)[d + 1]? = (tests[d]?).map fun t => ⟨.child, t, []⟩ := by
  simp [childChain]

/-- GenericStrategy at a single candidate position inside a chain of child steps -/
theorem gStep_chain (tests : List NodeTest) (hne : tests ≠ []) (st : GState) (e : Event) (d c : Nat) (t : NodeTest)
    (rest : List (List GPos)) (hstack : st.stack = [⟨d + 1, [c]⟩] :: rest) (ht : tests[d]? = some t)
    (he : e.isEnd = false) (hm : e.isNsOrCdata = false) :
    gStep (dotSlash :: childChain tests) ns vs st e =
      (if !t.matches e ns then (⟨if e.isStart then [] :: st.stack else st.stack, st.store⟩, .none)
       else if d + 1 == tests.length then
         (⟨if e.isStart then [] :: st.stack else st.stack, st.store⟩, .bool true)
       else (⟨if e.isStart then [⟨d + 2, [st.store.length]⟩] :: st.stack else st.stack, st.store ++ [[]]⟩, .none)) := by
  unfold gStep
  simp only [he, hm, Bool.false_eq_true, if_false, hstack, List.headD_cons, List.map_cons, List.map_nil,
    List.length_cons (a := (d + 1, [c], ([] : List Nat))), List.length_nil, realLen_chain tests hne]
  rw [show 2 * (dotSlash :: childChain tests).length + (0 + 1) + 2
        = (2 * (dotSlash :: childChain tests).length + 2) + 1 from by omega]
  have hlast : lastResult (dotSlash :: childChain tests) e ns = .bool true := by
    unfold lastResult
    cases hl : (dotSlash :: childChain tests).getLast? with
    | none => rfl
    | some last =>
      have hne' : childChain tests ≠ [] := by simpa [childChain] using hne
      rw [List.getLast?_cons_of_ne_nil hne'] at hl
      simp only [childChain, List.getLast?_map] at hl
      cases hg : tests.getLast? <;> simp [hg] at hl
      rw [← hl]; simp
  have hnext : ((dotSlash :: childChain tests)[d + 1 + 1]?.map Step.axis).getD .child = .child := by
    rw [chain_getElem]; cases tests[d + 1]? <;> simp
  have hnext2 : (Option.map (Step.axis ∘ fun t => ({ axis := Axis.child, test := t, preds := [] } : Step))
      tests[d + 1]?).getD Axis.child = Axis.child := by
    cases tests[d + 1]? <;> rfl
  simp only [gLoop, chain_getElem, ht, Option.map_some, isDescLike, gPreds, hlast, hnext, gLoop_nil,
    Bool.not_true, Bool.false_eq_true, if_false, Val.truthy, if_true]
  by_cases h1 : t.matches e ns = true <;> by_cases h2 : (d + 1 == tests.length) = true <;>
    by_cases h3 : e.isStart = true <;> simp_all [pushSelf, gLoop_nil]

/-- SimplePathStrategy inside its one context-bound fragment -/
theorem pStep_chain (tests : List NodeTest) (pi : List Nat) (e : Event) (p : Nat) (t : NodeTest)
    (rest : PState) (ht : tests[p]? = some t) (he : e.isEnd = false) (hm : e.isNsOrCdata = false) :
    pStep (some [⟨tests, pi, none, false⟩]) false ns (⟨some (0, p), false⟩ :: rest) e =
      (if !t.matches e ns then
         ((if e.isStart then ⟨none, false⟩ :: ⟨some (0, p), false⟩ :: rest else ⟨some (0, p), false⟩ :: rest), .none)
       else if p + 1 == tests.length then
         ((if e.isStart then ⟨none, false⟩ :: ⟨some (0, p), false⟩ :: rest else ⟨some (0, p), false⟩ :: rest), .bool true)
       else
         ((if e.isStart then ⟨some (0, p + 1), false⟩ :: ⟨some (0, p), false⟩ :: rest
           else ⟨some (0, p), false⟩ :: rest), .none)) := by
  have hlt : p < tests.length := by
    rcases Nat.lt_or_ge p tests.length with h | h
    · exact h
    · rw [List.getElem?_eq_none_iff.mpr h] at ht; cases ht
  have hne : (p == tests.length) = false := by simp; omega
  simp only [pStep, he, hm, Bool.false_eq_true, if_false, List.length_cons, List.length_nil,
    List.getElem?_cons_zero, fragTest, ht, hne]
  by_cases h1 : t.matches e ns = true <;> by_cases h2 : (p + 1 == tests.length) = true <;>
    by_cases h3 : e.isStart = true <;> simp_all

theorem pStep_dead (frags : List Frag) (e : Event) (rest : PState)
    (he : e.isEnd = false) (hm : e.isNsOrCdata = false) :
    pStep (some frags) false ns (⟨none, false⟩ :: rest) e =
      ((if e.isStart then ⟨none, false⟩ :: ⟨none, false⟩ :: rest else ⟨none, false⟩ :: rest), .none) := by
  simp only [pStep, he, hm, Bool.false_eq_true, if_false]

theorem pStep_root (tests : List NodeTest) (hne : tests ≠ []) (pi : List Nat) (e : Event)
    (he : e.isEnd = false) (hm : e.isNsOrCdata = false) :
    pStep (some [⟨tests, pi, none, false⟩]) false ns [] e = ([⟨some (0, 0), false⟩], .none) := by
  have h1 : tests.isEmpty = false := by cases tests <;> simp_all
  simp [pStep, he, hm, skipEmpty, h1]

theorem gStep_root_chain (tests : List NodeTest) (hne : tests ≠ []) (st : GState) (tag : QName) (attrs : AttrList)
    (rest : List (List GPos)) (hstack : st.stack = [⟨0, [0]⟩] :: rest) :
    gStep (dotSlash :: childChain tests) ns vs st (.start tag attrs) =
      (⟨[⟨1, [st.store.length]⟩] :: st.stack, st.store ++ [[]]⟩, .none) := by
  unfold gStep
  simp only [Event.isEnd, Event.isNsOrCdata, Bool.false_eq_true, if_false, hstack, List.headD_cons,
    List.map_cons, List.map_nil, List.length_cons (a := (0, [0], ([] : List Nat))), List.length_nil,
    Event.isStart, if_true, realLen_chain tests hne]
  rw [show 2 * (dotSlash :: childChain tests).length + (0 + 1) + 2
        = (2 * (dotSlash :: childChain tests).length + 2) + 1 from by omega]
  have hlen : (0 + 1 == tests.length + 1) = false := by
    cases tests with
    | nil => exact absurd rfl hne
    | cons _ _ => simp
  have hnext : (Option.map Step.axis (dotSlash :: childChain tests)[0 + 1]?).getD Axis.child = Axis.child := by
    rw [chain_getElem]; cases tests[0]? <;> rfl
  simp [gLoop, gLoop_nil, dotSlash, isDescLike, NodeTest.matches, NodeTest.apply, Val.truthy, gPreds,
    hlen, pushSelf, childChain]
  cases tests with
  | nil => exact absurd rfl hne
  | cons t ts => simp [gLoop_nil]

/-- one stack level: a live candidate (Generic: position `d`, Simple: `d - 1` tests matched) or
    a dead subtree -/
def LvlRel (n d : Nat) (gl : List GPos) (pl : PEntry) : Prop :=
  (∃ c, gl = [⟨d, [c]⟩] ∧ pl = ⟨some (0, d - 1), false⟩ ∧ 1 ≤ d ∧ d ≤ n) ∨ (gl = [] ∧ pl = ⟨none, false⟩)

inductive StkRel (n : Nat) : Nat → List (List GPos) → PState → Prop
  | one {gl : List GPos} {pl : PEntry} : LvlRel n 1 gl pl → StkRel n 1 [gl, [⟨0, [0]⟩]] [pl]
  | succ {d : Nat} {gs : List (List GPos)} {ps : PState} {gl : List GPos} {pl : PEntry} :
      StkRel n d gs ps → LvlRel n (d + 1) gl pl → StkRel n (d + 1) (gl :: gs) (pl :: ps)

theorem StkRel.top {n d : Nat} {gs : List (List GPos)} {ps : PState} (h : StkRel n d gs ps) :
    ∃ gl gr pl pr, gs = gl :: gr ∧ ps = pl :: pr ∧ LvlRel n d gl pl := by
  cases h with
  | one hl => exact ⟨_, _, _, _, rfl, rfl, hl⟩
  | succ _ hl => exact ⟨_, _, _, _, rfl, rfl, hl⟩

theorem StkRel.pos {n d : Nat} {gs : List (List GPos)} {ps : PState} (h : StkRel n d gs ps) : 1 ≤ d := by
  cases h <;> omega

def RChain (n d : Nat) (g : GState) (t : PState) : Prop := StkRel n d g.stack t

theorem sim_chain (tests : List NodeTest) (hne : tests ≠ []) (pi : List Nat) :
    Sim (gStep (dotSlash :: childChain tests) ns vs) (pStep (some [⟨tests, pi, none, false⟩]) false ns)
      (RChain tests.length) 1 := by
  have key : ∀ d g t e, e.isEnd = false → e.isNsOrCdata = false → RChain tests.length d g t →
      (gStep (dotSlash :: childChain tests) ns vs g e).2 = (pStep (some [⟨tests, pi, none, false⟩]) false ns t e).2 ∧
      (if e.isStart then RChain tests.length (d + 1) else RChain tests.length d)
        (gStep (dotSlash :: childChain tests) ns vs g e).1 (pStep (some [⟨tests, pi, none, false⟩]) false ns t e).1 := by
    intro d g t e hend hmk hr
    obtain ⟨stk, sto⟩ := g
    unfold RChain at hr
    simp only at hr
    obtain ⟨gl, gr, pl, pr, hg, ht, hl⟩ := StkRel.top hr
    subst hg ht
    rcases hl with ⟨c, hgl, hpl, hd1, hdn⟩ | ⟨hgl, hpl⟩
    · obtain ⟨d0, rfl⟩ : ∃ d0, d = d0 + 1 := ⟨d - 1, by omega⟩
      have hlt : d0 < tests.length := by omega
      obtain ⟨tt, htt⟩ : ∃ tt, tests[d0]? = some tt := ⟨tests[d0], by simp [hlt]⟩
      subst hgl hpl
      simp only [Nat.add_sub_cancel] at hr ⊢
      rw [gStep_chain ns vs tests hne ⟨_, sto⟩ e d0 c tt gr rfl htt hend hmk,
          pStep_chain ns tests pi e d0 tt pr htt hend hmk]
      by_cases h1 : tt.matches e ns = true <;> by_cases h2 : (d0 + 1 == tests.length) = true <;>
        by_cases h3 : e.isStart = true <;> simp [h1, h2, h3, RChain] <;>
        first
          | exact hr
          | exact StkRel.succ hr (Or.inr ⟨rfl, rfl⟩)
          | exact StkRel.succ hr (Or.inl ⟨_, rfl, rfl, by omega, by simp at h2; omega⟩)
    · subst hgl hpl
      rw [gStep_empty _ ns vs ⟨_, sto⟩ e gr rfl hend hmk, pStep_dead ns _ e pr hend hmk]
      by_cases h3 : e.isStart = true <;> simp [h3, RChain]
      · exact StkRel.succ hr (Or.inr ⟨rfl, rfl⟩)
      · exact hr
  refine ⟨?_, ?_, ?_⟩
  · intro d _ g t tag attrs hr
    simpa [Event.isStart] using key d g t (.start tag attrs) rfl rfl hr
  · intro d hd g t tag hr
    rw [gStep_end]
    simp only [pStep, Event.isEnd, if_true]
    refine ⟨trivial, ?_⟩
    obtain ⟨stk, sto⟩ := g
    unfold RChain at hr ⊢
    simp only at hr ⊢
    cases hr with
    | one _ => omega
    | succ h' _ => simpa using h'
  · intro d _ g t e he hr
    obtain ⟨hend, hstart⟩ := isEnd_of_not_startEnd he
    by_cases hmk : e.isNsOrCdata = true
    · rw [gStep_marker _ _ _ _ _ hend hmk]
      simp only [pStep, hend, hmk, Bool.false_eq_true, if_false, if_true]
      exact ⟨trivial, hr⟩
    · have := key d g t e hend (by simpa using hmk) hr
      simpa [hstart] using this

end
end Genshi.Path

/-
  C02 — idempotence at the level of events: parsing the flattened output again
  and flattening that gives the same flattened output, for streams shaped like
  the parser's (`idemOK`).
-/
import Genshi.Lemmas.XmlFlatD
namespace Genshi.Xml
open Genshi Genshi.Xml.Reader

/-! ### the declarations `takePending` makes -/

def pushed (t : TagSt) (P : List (Str × Str)) : List (Str × Str) :=
  (takePending t P).declared.drop t.declared.length

theorem takePending_declared (P : List (Str × Str)) :
    ∀ t : TagSt, (takePending t P).declared = t.declared ++ pushed t P := by
  induction P with
  | nil => intro t; simp [pushed, takePending]
  | cons d rest ih =>
    intro t
    obtain ⟨p, u⟩ := d
    unfold pushed
    have key : ∀ t' : TagSt, t'.declared = t.declared ++ [(p, u)] →
        (takePending t' rest).declared = t.declared ++ (takePending t' rest).declared.drop t.declared.length := by
      intro t' ht'
      rw [ih t', ht']
      simp
    unfold takePending
    split
    · exact key _ rfl
    · have := ih t
      unfold pushed at this
      exact this

theorem takePending_idem (P : List (Str × Str)) :
    ∀ t : TagSt, takePending t (pushed t P) = takePending t P := by
  induction P with
  | nil => intro t; simp [pushed, takePending]
  | cons d rest ih =>
    intro t
    obtain ⟨p, u⟩ := d
    by_cases hc : uriOf t.bindings p ≠ some u ∧ (¬ p.isEmpty ∨ falsyUri u ∨ findPrefix t.bindings u false = none)
    · have e1 : takePending t ((p, u) :: rest) =
          takePending { t with bindings := (p, u, false) :: t.bindings, declared := t.declared ++ [(p, u)] } rest := by
        rw [takePending, if_pos hc]
      have e2 : pushed t ((p, u) :: rest) =
          (p, u) :: pushed { t with bindings := (p, u, false) :: t.bindings, declared := t.declared ++ [(p, u)] } rest := by
        unfold pushed
        rw [e1, takePending_declared rest]
        simp [pushed]
      rw [e2, e1]
      rw [takePending, if_pos hc]
      exact ih _
    · have e1 : takePending t ((p, u) :: rest) = takePending t rest := by
        rw [takePending, if_neg hc]
      have e2 : pushed t ((p, u) :: rest) = pushed t rest := by
        unfold pushed; rw [e1]
      rw [e2, e1]
      exact ih t

/-! ### feeding namespace events to the flattener -/

theorem flatRun_cons (pref : List (Str × Str)) (st : FSt) (x : XEv) (xs : List XEv) :
    flatRun pref st (x :: xs) = (flatStep pref st x).2 ++ flatRun pref (flatStep pref st x).1 xs := rfl

def nsEv (D : List (Str × Str)) : List XEv := D.map fun d => .ev (.startNs d.1 d.2)

theorem filter_ne_id (pend : List (Str × Str)) (p : Str) (h : p ∉ pend.map Prod.fst) :
    pend.filter (fun d => d.1 ≠ p) = pend := by
  apply List.filter_eq_self.mpr
  intro d hd
  simp only [ne_eq, decide_not, Bool.not_eq_eq_eq_not, Bool.not_true, decide_eq_false_iff_not]
  intro e
  exact h (List.mem_map.mpr ⟨d, hd, e⟩)

theorem flatRun_nsEv (pref : List (Str × Str)) (D : List (Str × Str)) :
    ∀ (st : FSt) (rest : List XEv), (D.map Prod.fst).Nodup → (∀ p ∈ D.map Prod.fst, p ∉ st.pending.map Prod.fst) →
      flatRun pref st (nsEv D ++ rest) = flatRun pref { st with pending := st.pending ++ D } rest := by
  induction D with
  | nil => intro st rest _ _; simp [nsEv]
  | cons d ds ih =>
    intro st rest hnd hdis
    obtain ⟨p, u⟩ := d
    simp only [List.map_cons, List.nodup_cons] at hnd
    simp only [nsEv, List.map_cons, List.cons_append]
    rw [flatRun_cons]
    simp only [flatStep, List.nil_append]
    rw [filter_ne_id st.pending p (hdis p (by simp))]
    have := ih { st with pending := st.pending ++ [(p, u)] } rest hnd.2 (by
      intro q hq
      simp only [List.map_append, List.map_cons, List.map_nil, List.mem_append, List.mem_singleton, not_or]
      refine ⟨hdis q (by simp [hq]), ?_⟩
      intro e; subst e; exact hnd.1 hq)
    simp only [nsEv] at this
    rw [this]
    simp

theorem flatRun_endNs (pref : List (Str × Str)) (ps : List Str) :
    ∀ (st : FSt) (rest : List XEv), st.pending = [] →
      flatRun pref st (endNsEvents ps ++ rest) = flatRun pref st rest := by
  unfold endNsEvents
  generalize ps.reverse = l
  induction l with
  | nil => intro st rest _; simp
  | cons p l ih =>
    intro st rest hp
    simp only [List.map_cons, List.cons_append]
    rw [flatRun_cons]
    simp only [flatStep, List.nil_append, hp, List.filter_nil]
    have : ({ st with pending := [] } : FSt) = st := by cases st; simp_all
    rw [this]
    exact ih st rest hp

theorem nsEvents_eq (D : List (Str × Str)) (h : ∀ d ∈ D, d.2 ≠ []) :
    nsEvents (D.map fun d => (d.1, normUri d.2)) = nsEv D := by
  unfold nsEvents nsEv
  rw [List.map_map]
  apply List.map_congr_left
  intro d hd
  have hne := h d hd
  simp only [Function.comp]
  by_cases e : d.2 = noneUri
  · simp [normUri, e]
  · have : normUri d.2 = d.2 := by simp [normUri, e]
    rw [this]
    have : d.2.isEmpty = false := by simpa using hne
    simp [this]

end Genshi.Xml

namespace Genshi.Xml
open Genshi Genshi.Xml.Reader

theorem pushed_subset (P : List (Str × Str)) : ∀ (t : TagSt) (d : Str × Str), d ∈ pushed t P → d ∈ P := by
  induction P with
  | nil => intro t d h; simp [pushed, takePending] at h
  | cons x rest ih =>
    intro t d h
    obtain ⟨p, u⟩ := x
    by_cases hc : uriOf t.bindings p ≠ some u ∧ (¬ p.isEmpty ∨ falsyUri u ∨ findPrefix t.bindings u false = none)
    · have e1 : takePending t ((p, u) :: rest) =
          takePending { t with bindings := (p, u, false) :: t.bindings, declared := t.declared ++ [(p, u)] } rest := by
        rw [takePending, if_pos hc]
      have e2 : pushed t ((p, u) :: rest) =
          (p, u) :: pushed { t with bindings := (p, u, false) :: t.bindings, declared := t.declared ++ [(p, u)] } rest := by
        unfold pushed
        rw [e1, takePending_declared rest]
        simp [pushed]
      rw [e2] at h
      rcases List.mem_cons.mp h with rfl | h
      · simp
      · exact List.mem_cons_of_mem _ (ih _ d h)
    · have e1 : takePending t ((p, u) :: rest) = takePending t rest := by
        rw [takePending, if_neg hc]
      have e2 : pushed t ((p, u) :: rest) = pushed t rest := by
        unfold pushed; rw [e1]
      rw [e2] at h
      exact List.mem_cons_of_mem _ (ih t d h)

/-- `flatStart` looks at the pending declarations only through `takePending` -/
theorem flatStart_congr (pref : List (Str × Str)) (st st' : FSt) (tag : QName) (attrs : AttrList)
    (hb : st'.bindings = st.bindings) (hc : st'.counter = st.counter)
    (ht : takePending { bindings := st.bindings, declared := [], counter := st.counter } st'.pending =
          takePending { bindings := st.bindings, declared := [], counter := st.counter } st.pending) :
    flatStart pref st' tag attrs = flatStart pref st tag attrs := by
  unfold flatStart
  simp only [hb, hc, ht]

inductive PFrames : List Binding → List (Str × Nat) → List (Str × QName × Scope × List Str) →
    List (QName × Bool) → Prop
  | nil (bs : List Binding) : PFrames bs [] [] []
  | cons {bs : List Binding} {name : Str} {n : Nat} {q : QName} {d : Bool} {ps : List Str}
      {elems : List (Str × Nat)} {open_ : List (Str × QName × Scope × List Str)} {stack : List (QName × Bool)} :
      PFrames (bs.drop n) elems open_ stack →
      PFrames bs ((name, n) :: elems) ((name, q, scopeOf (bs.drop n), ps) :: open_) ((q, d) :: stack)

structure IRel (st1 st2 : FSt) (pst : PSt) (ck : CkSt) (inRun : Bool) : Prop where
  bind : st2.bindings = st1.bindings
  elems : st2.elems = st1.elems
  counter : st2.counter = st1.counter
  pend2 : st2.pending = []
  pend1 : inRun = false → st1.pending = []
  pend1ne : ∀ d ∈ st1.pending, d.2 ≠ []
  scope : pst.scope = scopeOf st1.bindings
  frames : PFrames st1.bindings st1.elems pst.open_ ck.stack

/-- the start-tag part shared by START and EMPTY -/
theorem idem_start (pref : List (Str × Str)) (hpref : prefOK pref = true)
    (st1 st2 : FSt) (rst : RSt) (pst : PSt) (ck : CkSt) (inRun : Bool) (inv : Inv st1 rst ck)
    (rel : IRel st1 st2 pst ck inRun) (tag : QName) (attrs : AttrList) (d' : Bool)
    (hd' : ckStartLike ck tag attrs = some d')
    (hno : (flatStart pref st1 tag attrs).2.2 =
      takePending { bindings := st1.bindings, declared := [], counter := st1.counter } st1.pending) :
    resolveTag pst.scope (flatStart pref st1 tag attrs).1 (normAttrs (flatStart pref st1 tag attrs).2.1) =
      some (tag, attrs, scopeOf (flatStart pref st1 tag attrs).2.2.bindings) ∧
    (∃ plain, splitAttrs (normAttrs (flatStart pref st1 tag attrs).2.1) =
      some ((flatStart pref st1 tag attrs).2.2.declared.map (fun d => (d.1, normUri d.2)), plain)) ∧
    nsEvents ((flatStart pref st1 tag attrs).2.2.declared.map (fun d => (d.1, normUri d.2))) =
      nsEv (flatStart pref st1 tag attrs).2.2.declared ∧
    (∀ rest, flatRun pref st2 (nsEv (flatStart pref st1 tag attrs).2.2.declared ++ rest) =
      flatRun pref { st2 with pending := (flatStart pref st1 tag attrs).2.2.declared } rest) ∧
    flatStart pref { st2 with pending := (flatStart pref st1 tag attrs).2.2.declared } tag attrs =
      flatStart pref st1 tag attrs := by
  obtain ⟨rt, ti, _, plain, hsplit⟩ := flatStart_spec pref hpref st1 rst ck inv tag attrs d' hd'
  have hdecl : (flatStart pref st1 tag attrs).2.2.declared =
      pushed { bindings := st1.bindings, declared := [], counter := st1.counter } st1.pending := by
    rw [hno]; simp [pushed]
  refine ⟨?_, ⟨plain, hsplit⟩, ?_, ?_, ?_⟩
  · rw [rel.scope, ← inv.scope]; exact rt
  · apply nsEvents_eq
    intro d hd
    rw [hdecl] at hd
    exact rel.pend1ne d (pushed_subset _ _ d hd)
  · intro rest
    have := flatRun_nsEv pref (flatStart pref st1 tag attrs).2.2.declared st2 rest ti.nodup
      (by rw [rel.pend2]; simp)
    rw [this, rel.pend2]; simp
  · apply flatStart_congr
    · exact rel.bind
    · exact rel.counter
    · simp only
      rw [hdecl, takePending_idem]

end Genshi.Xml

namespace Genshi.Xml
open Genshi Genshi.Xml.Reader

theorem idemGo_cons (pref : List (Str × Str)) (st : FSt) (inRun : Bool) (x : XEv) (xs : List XEv) :
    idemGo pref st inRun (x :: xs) =
      ((match x with
        | .ev (.startNs _ u) => !u.isEmpty
        | .ev (.start t a) =>
            decide ((flatStart pref st t a).2.2 =
              takePending { bindings := st.bindings, declared := [], counter := st.counter } st.pending)
        | .empty t a =>
            decide ((flatStart pref st t a).2.2 =
              takePending { bindings := st.bindings, declared := [], counter := st.counter } st.pending)
        | _ => !inRun) &&
       idemGo pref (flatStep pref st x).1 (match x with | .ev (.startNs _ _) => true | _ => false) xs) := rfl

theorem ckStep_stack_ns {ck ck' : CkSt} {p u : Str} (h : ckStep ck (.ev (.startNs p u)) = some ck') :
    ck'.stack = ck.stack := by
  simp only [ckStep] at h
  split at h
  · cases h
  · split at h <;> (simp only [Option.some.injEq] at h; subst h; rfl)

theorem ckStep_stack_endNs {ck ck' : CkSt} {p : Str} (h : ckStep ck (.ev (.endNs p)) = some ck') :
    ck'.stack = ck.stack := by
  simp only [ckStep] at h
  split at h <;> (simp only [Option.some.injEq] at h; subst h; rfl)

/-- events that pass through the flattener unchanged -/
def isPlain : Event → Bool
  | .text _ _ => true
  | .comment _ => true
  | .pi _ _ => true
  | .startCdata => true
  | .endCdata => true
  | .doctype _ _ _ => true
  | _ => false

theorem flatStep_plain (pref : List (Str × Str)) (st : FSt) (e : Event) (h : isPlain e = true) :
    flatStep pref st (.ev e) = (st, [.other e]) := by
  cases e <;> simp_all [isPlain, flatStep]

theorem ckStep_stack_plain {ck ck' : CkSt} {e : Event} (he : isPlain e = true) (h : ckStep ck (.ev e) = some ck') :
    ck'.stack = ck.stack := by
  cases e <;> simp only [isPlain] at he <;> try cases he
  all_goals (simp only [ckStep] at h)
  all_goals (first
    | (simp only [Option.some.injEq] at h; subst h; rfl)
    | (split at h <;> first | (simp only [Option.some.injEq] at h; subst h; rfl) | cases h))

theorem idem_run (pref : List (Str × Str)) (hpref : prefOK pref = true) :
    ∀ (xs : List XEv) (st1 st2 : FSt) (pst : PSt) (ck : CkSt) (inRun : Bool),
      (∃ rst, Inv st1 rst ck) → docGo ck xs = true → idemGo pref st1 inRun xs = true →
      IRel st1 st2 pst ck inRun →
      ∃ xs2, reparseX pst ((flatRun pref st1 xs).map normF) = some xs2 ∧
        flatRun pref st2 xs2 = flatRun pref st1 xs := by
  intro xs
  induction xs with
  | nil =>
    intro st1 st2 pst ck inRun _ _ _ _
    exact ⟨[], by simp [flatRun, reparseX], by simp [flatRun]⟩
  | cons x xs ih =>
    intro st1 st2 pst ck inRun hinv hdoc hidem rel
    obtain ⟨rst, inv⟩ := hinv
    simp only [docGo] at hdoc
    cases hck : ckStep ck x with
    | none => rw [hck] at hdoc; cases hdoc
    | some ck' =>
      rw [hck] at hdoc
      simp only at hdoc
      obtain ⟨rst', inv', _⟩ := step_sim pref hpref st1 rst ck inv x ck' hck
      rw [idemGo_cons, Bool.and_eq_true] at hidem
      obtain ⟨hcond, hidem'⟩ := hidem
      rw [flatRun_cons]
      cases x with
      | empty tag attrs =>
        simp only [decide_eq_true_eq] at hcond
        simp only [ckStep, Option.map_eq_some_iff] at hck
        obtain ⟨d', hd', rfl⟩ := hck
        obtain ⟨h1, ⟨plain, h2⟩, h3, h4, h5⟩ := idem_start pref hpref st1 st2 rst pst ck inRun inv rel tag attrs d' hd' hcond
        have hstep1 : flatStep pref st1 (.empty tag attrs) =
            ({ bindings := st1.bindings, pending := [], elems := st1.elems, counter := (flatStart pref st1 tag attrs).2.2.counter },
             [.empty (flatStart pref st1 tag attrs).1 (flatStart pref st1 tag attrs).2.1]) := by
          simp only [flatStep]
        rw [hstep1] at hidem' inv' ⊢
        have rel' : IRel { bindings := st1.bindings, pending := [], elems := st1.elems, counter := (flatStart pref st1 tag attrs).2.2.counter }
            { bindings := st2.bindings, pending := [], elems := st2.elems, counter := (flatStart pref st1 tag attrs).2.2.counter } pst
            { ck with pendD := none, rootSeen := true } false :=
          ⟨rel.bind, rel.elems, rfl, rfl, fun _ => rfl, by simp, rel.scope, rel.frames⟩
        obtain ⟨xs2, r1, r2⟩ := ih _ _ pst _ false ⟨rst', inv'⟩ hdoc hidem' rel'
        refine ⟨nsEvents ((flatStart pref st1 tag attrs).2.2.declared.map (fun d => (d.1, normUri d.2))) ++
          [.empty tag attrs] ++ endNsEvents (((flatStart pref st1 tag attrs).2.2.declared.map
            (fun d => (d.1, normUri d.2))).map Prod.fst) ++ xs2, ?_, ?_⟩
        · simp only [List.map_append, List.map_cons, List.map_nil, normF, List.cons_append, List.nil_append]
          rw [reparseX]
          simp only [h1, h2, r1, Option.map_some]
        · rw [h3]
          simp only [List.append_assoc]
          rw [h4, List.cons_append, List.nil_append, flatRun_cons]
          have hs2 : flatStep pref { st2 with pending := (flatStart pref st1 tag attrs).2.2.declared } (.empty tag attrs) =
              ({ bindings := st2.bindings, pending := [], elems := st2.elems, counter := (flatStart pref st1 tag attrs).2.2.counter },
               [.empty (flatStart pref st1 tag attrs).1 (flatStart pref st1 tag attrs).2.1]) := by
            simp only [flatStep, h5]
          rw [hs2]
          simp only
          rw [flatRun_endNs pref _ _ _ rfl, r2]
      | ev e =>
        cases e with
        | start tag attrs =>
          simp only [decide_eq_true_eq] at hcond
          simp only [ckStep, Option.map_eq_some_iff] at hck
          obtain ⟨d', hd', rfl⟩ := hck
          obtain ⟨h1, ⟨plain, h2⟩, h3, h4, h5⟩ := idem_start pref hpref st1 st2 rst pst ck inRun inv rel tag attrs d' hd' hcond
          obtain ⟨_, ti, _, _⟩ := flatStart_spec pref hpref st1 rst ck inv tag attrs d' hd'
          have hstep1 : flatStep pref st1 (.ev (.start tag attrs)) =
              ({ bindings := (flatStart pref st1 tag attrs).2.2.bindings, pending := [], elems := ((flatStart pref st1 tag attrs).1, (flatStart pref st1 tag attrs).2.2.declared.length) :: st1.elems, counter := (flatStart pref st1 tag attrs).2.2.counter },
               [.start (flatStart pref st1 tag attrs).1 (flatStart pref st1 tag attrs).2.1]) := by
            simp only [flatStep]
          rw [hstep1] at hidem' inv' ⊢
          obtain ⟨front, hb, hf⟩ := ti.front
          have hlen : front.length = (flatStart pref st1 tag attrs).2.2.declared.length := by
            have := congrArg List.length hf
            simpa using this
          have hdrop : (flatStart pref st1 tag attrs).2.2.bindings.drop
              (flatStart pref st1 tag attrs).2.2.declared.length = st1.bindings := by
            rw [hb, ← hlen]; simp
          have fr := @PFrames.cons (flatStart pref st1 tag attrs).2.2.bindings (flatStart pref st1 tag attrs).1
            (flatStart pref st1 tag attrs).2.2.declared.length tag ck.dTruthy
            (((flatStart pref st1 tag attrs).2.2.declared.map (fun d => (d.1, normUri d.2))).map Prod.fst)
            st1.elems pst.open_ ck.stack (by rw [hdrop]; exact rel.frames)
          rw [hdrop, ← rel.scope] at fr
          have rel' : IRel
              { bindings := (flatStart pref st1 tag attrs).2.2.bindings, pending := [], elems := ((flatStart pref st1 tag attrs).1, (flatStart pref st1 tag attrs).2.2.declared.length) :: st1.elems, counter := (flatStart pref st1 tag attrs).2.2.counter }
              { bindings := (flatStart pref st1 tag attrs).2.2.bindings, pending := [], elems := ((flatStart pref st1 tag attrs).1, (flatStart pref st1 tag attrs).2.2.declared.length) :: st2.elems, counter := (flatStart pref st1 tag attrs).2.2.counter }
              ⟨((flatStart pref st1 tag attrs).1, tag, pst.scope,
                  ((flatStart pref st1 tag attrs).2.2.declared.map (fun d => (d.1, normUri d.2))).map Prod.fst) :: pst.open_,
                scopeOf (flatStart pref st1 tag attrs).2.2.bindings⟩
              { ck with stack := (tag, ck.dTruthy) :: ck.stack, dTruthy := d', pendD := none, rootSeen := true } false :=
            ⟨rfl, by simp [rel.elems], rfl, rfl, fun _ => rfl, by simp, rfl, fr⟩
          obtain ⟨xs2, r1, r2⟩ := ih _ _ _ _ false ⟨rst', inv'⟩ hdoc hidem' rel'
          refine ⟨nsEvents ((flatStart pref st1 tag attrs).2.2.declared.map (fun d => (d.1, normUri d.2))) ++
            [.ev (.start tag attrs)] ++ xs2, ?_, ?_⟩
          · simp only [List.map_append, List.map_cons, List.map_nil, normF, List.cons_append, List.nil_append]
            rw [reparseX]
            simp only [h1, h2, r1, Option.map_some]
          · rw [h3]
            simp only [List.append_assoc]
            rw [h4, List.cons_append, List.nil_append, flatRun_cons]
            have hs2 : flatStep pref { st2 with pending := (flatStart pref st1 tag attrs).2.2.declared }
                (.ev (.start tag attrs)) =
                ({ bindings := (flatStart pref st1 tag attrs).2.2.bindings, pending := [], elems := ((flatStart pref st1 tag attrs).1, (flatStart pref st1 tag attrs).2.2.declared.length) :: st2.elems, counter := (flatStart pref st1 tag attrs).2.2.counter },
                 [.start (flatStart pref st1 tag attrs).1 (flatStart pref st1 tag attrs).2.1]) := by
              simp only [flatStep, h5]
            rw [hs2]
            simp only
            rw [r2]
        | end_ tag =>
          simp only [Bool.not_eq_true'] at hcond
          simp only [ckStep] at hck
          cases hs : ck.stack with
          | nil => rw [hs] at hck; cases hck
          | cons top rest' =>
            obtain ⟨t', d⟩ := top
            rw [hs] at hck
            simp only at hck
            by_cases ht : tag = t'
            · subst ht
              simp only [if_true, Option.some.injEq] at hck
              subst hck
              have fr := rel.frames
              rw [hs] at fr
              generalize hb : st1.bindings = bs0 at fr
              generalize he : st1.elems = elems0 at fr
              generalize ho : pst.open_ = open0 at fr
              cases fr with
              | @cons _ name n _ _ ps elems open_ _ fr' =>
                subst hb
                have hstep1 : flatStep pref st1 (.ev (.end_ tag)) =
                    ({ st1 with bindings := st1.bindings.drop n, elems := elems }, [.end_ name]) := by
                  simp only [flatStep, he]
                rw [hstep1] at hidem' inv' ⊢
                have rel' : IRel { st1 with bindings := st1.bindings.drop n, elems := elems }
                    { st2 with bindings := st2.bindings.drop n, elems := elems }
                    ⟨open_, scopeOf (st1.bindings.drop n)⟩ { ck with stack := rest', dTruthy := d } false :=
                  ⟨by simp [rel.bind], rfl, rel.counter, rel.pend2, fun _ => rel.pend1 hcond, rel.pend1ne, rfl, fr'⟩
                obtain ⟨xs2, r1, r2⟩ := ih _ _ _ _ false ⟨rst', inv'⟩ hdoc hidem' rel'
                refine ⟨[.ev (.end_ tag)] ++ endNsEvents ps ++ xs2, ?_, ?_⟩
                · simp only [List.map_append, List.map_cons, List.map_nil, normF, List.cons_append, List.nil_append]
                  rw [reparseX]
                  simp only [ho, if_true, r1, Option.map_some]
                  simp
                · simp only [List.cons_append, List.nil_append, List.append_assoc]
                  rw [flatRun_cons]
                  have hs2 : flatStep pref st2 (.ev (.end_ tag)) =
                      ({ st2 with bindings := st2.bindings.drop n, elems := elems }, [.end_ name]) := by
                    simp only [flatStep, rel.elems, he]
                  rw [hs2]
                  simp only
                  rw [flatRun_endNs pref ps _ xs2 (by simpa using rel.pend2), r2]
                  simp
            · simp [ht] at hck
        | startNs p u =>
          simp only [Bool.not_eq_true'] at hcond
          have hne : u ≠ [] := by intro e; simp [e] at hcond
          have hstep1 : flatStep pref st1 (.ev (.startNs p u)) =
              ({ st1 with pending := st1.pending.filter (fun d => d.1 ≠ p) ++ [(p, u)] }, []) := by
            simp only [flatStep]
          rw [hstep1] at hidem' inv' ⊢
          have rel' : IRel { st1 with pending := st1.pending.filter (fun d => d.1 ≠ p) ++ [(p, u)] } st2 pst ck' true := by
            refine ⟨rel.bind, rel.elems, rel.counter, rel.pend2, (fun e => by cases e), ?_, rel.scope, ?_⟩
            · intro d hd
              simp only [List.mem_append, List.mem_singleton] at hd
              rcases hd with hd | rfl
              · exact rel.pend1ne d (List.mem_filter.mp hd).1
              · exact hne
            · rw [ckStep_stack_ns hck]; exact rel.frames
          obtain ⟨xs2, r1, r2⟩ := ih _ st2 pst ck' true ⟨rst', inv'⟩ hdoc hidem' rel'
          exact ⟨xs2, by simpa using r1, by simpa using r2⟩
        | endNs p =>
          simp only [Bool.not_eq_true'] at hcond
          have hp1 := rel.pend1 hcond
          have hstep1 : flatStep pref st1 (.ev (.endNs p)) = (st1, []) := by
            simp only [flatStep, hp1, List.filter_nil]
            cases st1; simp_all
          rw [hstep1] at hidem' inv' ⊢
          have rel' : IRel st1 st2 pst ck' false :=
            ⟨rel.bind, rel.elems, rel.counter, rel.pend2, fun _ => hp1, rel.pend1ne, rel.scope,
              by rw [ckStep_stack_endNs hck]; exact rel.frames⟩
          obtain ⟨xs2, r1, r2⟩ := ih _ st2 pst ck' false ⟨rst', inv'⟩ hdoc hidem' rel'
          exact ⟨xs2, by simpa using r1, by simpa using r2⟩
        | xmlDecl v e s => simp [ckStep] at hck
        | text s f =>
          simp only [Bool.not_eq_true'] at hcond
          rw [flatStep_plain pref st1 _ rfl] at hidem' inv' ⊢
          have rel' : IRel st1 st2 pst ck' false :=
            ⟨rel.bind, rel.elems, rel.counter, rel.pend2, fun _ => rel.pend1 hcond, rel.pend1ne, rel.scope,
              by rw [ckStep_stack_plain rfl hck]; exact rel.frames⟩
          obtain ⟨xs2, r1, r2⟩ := ih _ st2 pst ck' false ⟨rst', inv'⟩ hdoc hidem' rel'
          refine ⟨.ev (.text s f) :: xs2, ?_, ?_⟩
          · simp only [List.map_append, List.map_cons, List.map_nil, normF, List.cons_append, List.nil_append]
            rw [reparseX]; simp only [r1, Option.map_some]
          · rw [flatRun_cons, flatStep_plain pref st2 _ rfl]; simp only [r2]
        | comment s =>
          simp only [Bool.not_eq_true'] at hcond
          rw [flatStep_plain pref st1 _ rfl] at hidem' inv' ⊢
          have rel' : IRel st1 st2 pst ck' false :=
            ⟨rel.bind, rel.elems, rel.counter, rel.pend2, fun _ => rel.pend1 hcond, rel.pend1ne, rel.scope,
              by rw [ckStep_stack_plain rfl hck]; exact rel.frames⟩
          obtain ⟨xs2, r1, r2⟩ := ih _ st2 pst ck' false ⟨rst', inv'⟩ hdoc hidem' rel'
          refine ⟨.ev (.comment s) :: xs2, ?_, ?_⟩
          · simp only [List.map_append, List.map_cons, List.map_nil, normF, List.cons_append, List.nil_append]
            rw [reparseX]; simp only [r1, Option.map_some]
          · rw [flatRun_cons, flatStep_plain pref st2 _ rfl]; simp only [r2]
        | pi t d =>
          simp only [Bool.not_eq_true'] at hcond
          rw [flatStep_plain pref st1 _ rfl] at hidem' inv' ⊢
          have rel' : IRel st1 st2 pst ck' false :=
            ⟨rel.bind, rel.elems, rel.counter, rel.pend2, fun _ => rel.pend1 hcond, rel.pend1ne, rel.scope,
              by rw [ckStep_stack_plain rfl hck]; exact rel.frames⟩
          obtain ⟨xs2, r1, r2⟩ := ih _ st2 pst ck' false ⟨rst', inv'⟩ hdoc hidem' rel'
          refine ⟨.ev (.pi t d) :: xs2, ?_, ?_⟩
          · simp only [List.map_append, List.map_cons, List.map_nil, normF, List.cons_append, List.nil_append]
            rw [reparseX]; simp only [r1, Option.map_some]
          · rw [flatRun_cons, flatStep_plain pref st2 _ rfl]; simp only [r2]
        | startCdata =>
          simp only [Bool.not_eq_true'] at hcond
          rw [flatStep_plain pref st1 _ rfl] at hidem' inv' ⊢
          have rel' : IRel st1 st2 pst ck' false :=
            ⟨rel.bind, rel.elems, rel.counter, rel.pend2, fun _ => rel.pend1 hcond, rel.pend1ne, rel.scope,
              by rw [ckStep_stack_plain rfl hck]; exact rel.frames⟩
          obtain ⟨xs2, r1, r2⟩ := ih _ st2 pst ck' false ⟨rst', inv'⟩ hdoc hidem' rel'
          refine ⟨.ev .startCdata :: xs2, ?_, ?_⟩
          · simp only [List.map_append, List.map_cons, List.map_nil, normF, List.cons_append, List.nil_append]
            rw [reparseX]; simp only [r1, Option.map_some]
          · rw [flatRun_cons, flatStep_plain pref st2 _ rfl]; simp only [r2]
        | endCdata =>
          simp only [Bool.not_eq_true'] at hcond
          rw [flatStep_plain pref st1 _ rfl] at hidem' inv' ⊢
          have rel' : IRel st1 st2 pst ck' false :=
            ⟨rel.bind, rel.elems, rel.counter, rel.pend2, fun _ => rel.pend1 hcond, rel.pend1ne, rel.scope,
              by rw [ckStep_stack_plain rfl hck]; exact rel.frames⟩
          obtain ⟨xs2, r1, r2⟩ := ih _ st2 pst ck' false ⟨rst', inv'⟩ hdoc hidem' rel'
          refine ⟨.ev .endCdata :: xs2, ?_, ?_⟩
          · simp only [List.map_append, List.map_cons, List.map_nil, normF, List.cons_append, List.nil_append]
            rw [reparseX]; simp only [r1, Option.map_some]
          · rw [flatRun_cons, flatStep_plain pref st2 _ rfl]; simp only [r2]
        | doctype n p s =>
          simp only [Bool.not_eq_true'] at hcond
          rw [flatStep_plain pref st1 _ rfl] at hidem' inv' ⊢
          have rel' : IRel st1 st2 pst ck' false :=
            ⟨rel.bind, rel.elems, rel.counter, rel.pend2, fun _ => rel.pend1 hcond, rel.pend1ne, rel.scope,
              by rw [ckStep_stack_plain rfl hck]; exact rel.frames⟩
          obtain ⟨xs2, r1, r2⟩ := ih _ st2 pst ck' false ⟨rst', inv'⟩ hdoc hidem' rel'
          refine ⟨.ev (.doctype n p s) :: xs2, ?_, ?_⟩
          · simp only [List.map_append, List.map_cons, List.map_nil, normF, List.cons_append, List.nil_append]
            rw [reparseX]; simp only [r1, Option.map_some]
          · rw [flatRun_cons, flatStep_plain pref st2 _ rfl]; simp only [r2]

end Genshi.Xml

namespace Genshi.Xml
open Genshi Genshi.Xml.Reader

theorem irel_init : IRel FSt.init FSt.init PSt.init CkSt.init false :=
  ⟨rfl, rfl, rfl, rfl, fun _ => rfl, by simp [FSt.init], inv_init.scope, PFrames.nil _⟩

/-- **idempotence at the level of events**: for streams shaped like the
    parser's (`idemOK`) inside `docOK`, reading the flattened output back
    (`reparseX`) and flattening again gives the same flattened output -/
theorem idem_flatten (pref : List (Str × Str)) (hpref : prefOK pref = true) (xs : List XEv)
    (h1 : docOK xs = true) (h2 : idemOK pref xs = true) :
    ∃ xs2, reparseX PSt.init ((flatten pref xs).map normF) = some xs2 ∧ flatten pref xs2 = flatten pref xs := by
  unfold docOK at h1
  unfold idemOK at h2
  split at h1
  · rename_i v e s rest
    rw [idemGo_cons, Bool.and_eq_true] at h2
    have hst : (flatStep pref FSt.init (.ev (.xmlDecl v e s))).1 = FSt.init := rfl
    rw [hst] at h2
    obtain ⟨xs2, r1, r2⟩ := idem_run pref hpref rest _ _ _ _ false ⟨_, inv_init⟩ h1 h2.2 irel_init
    refine ⟨.ev (.xmlDecl v e s) :: xs2, ?_, ?_⟩
    · simp only [flatten, flatRun_cons, hst, flatStep, List.map_append, List.map_cons, List.map_nil, normF,
        List.cons_append, List.nil_append]
      rw [reparseX]
      simp only [r1, Option.map_some]
    · simp only [flatten, flatRun_cons, hst]
      rw [r2]
  · obtain ⟨xs2, r1, r2⟩ := idem_run pref hpref xs _ _ _ _ false ⟨_, inv_init⟩ h1 h2 irel_init
    exact ⟨xs2, r1, r2⟩

end Genshi.Xml

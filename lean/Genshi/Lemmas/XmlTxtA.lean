/-
  C02 — the names the flattener writes can be written: every prefix it binds is
  empty or an XML name the encoding can represent, every URI it declares can be
  an attribute value (part A: one start tag).
-/
import Genshi.Lemmas.XmlEncode
import Genshi.Lemmas.XmlFlatB
namespace Genshi.Xml
open Genshi Genshi.Escape Genshi.Xml.Reader

def BindTxt (rep : Char → Bool) (bs : List Binding) : Prop :=
  ∀ b ∈ bs, prefixTxt rep b.1 = true ∧ uriTxt b.2.1 = true

def DeclTxt (rep : Char → Bool) (ds : List (Str × Str)) : Prop :=
  ∀ d ∈ ds, prefixTxt rep d.1 = true ∧ uriTxt d.2 = true

structure TagTxt (rep : Char → Bool) (t : TagSt) : Prop where
  bind : BindTxt rep t.bindings
  decl : DeclTxt rep t.declared

theorem TagTxt.push {rep : Char → Bool} {t : TagSt} (h : TagTxt rep t) (p u : Str) (a : Bool) (c : Nat)
    (hp : prefixTxt rep p = true) (hu : uriTxt u = true) :
    TagTxt rep { bindings := (p, u, a) :: t.bindings, declared := t.declared ++ [(p, u)], counter := c } := by
  constructor
  · intro b hb
    rcases List.mem_cons.mp hb with rfl | hb
    · exact ⟨hp, hu⟩
    · exact h.bind b hb
  · intro d hd
    rcases List.mem_append.mp hd with hd | hd
    · exact h.decl d hd
    · simp only [List.mem_singleton] at hd; subst hd; exact ⟨hp, hu⟩

theorem takePending_txt (rep : Char → Bool) (P : List (Str × Str)) :
    ∀ t : TagSt, TagTxt rep t → DeclTxt rep P → TagTxt rep (takePending t P) := by
  induction P with
  | nil => intro t h _; exact h
  | cons d rest ih =>
    intro t h hP
    obtain ⟨p, u⟩ := d
    have hd := hP (p, u) (by simp)
    have hrest : DeclTxt rep rest := fun x hx => hP x (by simp [hx])
    unfold takePending
    split
    · exact ih _ (h.push p u false t.counter hd.1 hd.2) hrest
    · exact ih t h hrest

/-! ### generated prefixes are names -/

theorem digit_not_stop : ∀ m, m < 10 → isNameStop (digitChar m) = false ∧ (digitChar m).toNat < 128 := by
  decide

theorem digitChar_mod (k : Nat) : digitChar k = digitChar (k % 10) := by
  simp [digitChar]

theorem decF_chars : ∀ (f n : Nat) (c : Char), c ∈ decF f n → ∃ k, c = digitChar k := by
  intro f
  induction f with
  | zero => intro n c h; simp only [decF, List.mem_singleton] at h; exact ⟨n, h⟩
  | succ f ih =>
    intro n c h
    unfold decF at h
    split at h
    · simp only [List.mem_singleton] at h; exact ⟨n, h⟩
    · rcases List.mem_append.mp h with h | h
      · exact ih _ c h
      · simp only [List.mem_singleton] at h; exact ⟨n, h⟩

theorem nsName_txt (rep : Char → Bool) (hr : AsciiRep rep) (n : Nat) : nameTxt rep (nsName n) = true := by
  have hc : ∀ c ∈ nsName n, isNameStop c = false ∧ c.toNat < 128 := by
    intro c hc
    simp only [nsName, List.mem_cons] at hc
    rcases hc with rfl | rfl | hc
    · decide
    · decide
    · obtain ⟨k, rfl⟩ := decF_chars n n c hc
      rw [digitChar_mod]
      exact digit_not_stop _ (Nat.mod_lt _ (by decide))
  unfold nameTxt validName
  have hc2 : ∀ c ∈ 'n' :: 's' :: dec n, isNameStop c = false ∧ c.toNat < 128 := hc
  simp only [nsName, Bool.and_eq_true, List.all_eq_true, Bool.not_eq_true']
  exact ⟨⟨by decide, fun c h => (hc2 c h).1⟩, fun c h => hr c (hc2 c h).2⟩

end Genshi.Xml

namespace Genshi.Xml
open Genshi Genshi.Escape Genshi.Xml.Reader

theorem prefTxt_lookup {rep : Char → Bool} {pref : List (Str × Str)} (h : prefTxt rep pref = true)
    {uri p : Str} (hl : List.lookup uri pref = some p) : prefixTxt rep p = true := by
  induction pref with
  | nil => simp at hl
  | cons e es ih =>
    obtain ⟨k, v⟩ := e
    unfold prefTxt at h ih
    simp only [List.all_cons, Bool.and_eq_true] at h
    simp only [List.lookup] at hl
    by_cases hk : uri = k
    · subst hk; simp at hl; subst hl; exact h.1
    · have : (uri == k) = false := by simpa using hk
      simp only [this] at hl
      exact ih h.2 hl

theorem genLoop_txt (rep : Char → Bool) (hr : AsciiRep rep) (bs : List Binding) (val fuel : Nat) :
    nameTxt rep (genLoop bs val fuel).1 = true := by
  obtain ⟨n, hn⟩ := genLoop_prefix bs fuel val
  rw [hn]; exact nsName_txt rep hr n

theorem prefixTxt_of_nameTxt {rep : Char → Bool} {p : Str} (h : nameTxt rep p = true) : prefixTxt rep p = true := by
  unfold prefixTxt; simp [h]

theorem freshPrefix_txt (rep : Char → Bool) (hr : AsciiRep rep) (pref : List (Str × Str))
    (hp : prefTxt rep pref = true) (bs : List Binding) (uri : Str) (c : Nat) :
    prefixTxt rep (freshPrefix pref bs uri c).1 = true := by
  unfold freshPrefix
  cases hl : List.lookup uri pref with
  | none => exact prefixTxt_of_nameTxt (genLoop_txt rep hr bs c _)
  | some p =>
    simp only
    split
    · exact prefTxt_lookup hp hl
    · exact prefixTxt_of_nameTxt (genLoop_txt rep hr bs c _)

theorem freshPrefix_ne_nil (pref : List (Str × Str)) (bs : List Binding) (uri : Str) (c : Nat) :
    (freshPrefix pref bs uri c).1 ≠ [] := by
  have hg : (genLoop bs c (bs.length + 1)).1 ≠ [] := by
    obtain ⟨n, hn⟩ := genLoop_prefix bs (bs.length + 1) c
    rw [hn]; exact nsName_ne_nil n
  unfold freshPrefix
  cases List.lookup uri pref with
  | none => exact hg
  | some p =>
    simp only
    split
    · rename_i hc
      intro e
      apply hc.1
      simp only at e
      simp [e]
    · exact hg

theorem declare_txt (rep : Char → Bool) (hr : AsciiRep rep) (pref : List (Str × Str))
    (hp : prefTxt rep pref = true) (t : TagSt) (h : TagTxt rep t) (uri : Str) (hu : uriTxt uri = true)
    (pfx : Option Str) (hpfx : ∀ p, pfx = some p → prefixTxt rep p = true) :
    TagTxt rep (declare pref t uri pfx).2 ∧ prefixTxt rep (declare pref t uri pfx).1 = true := by
  unfold declare
  cases pfx with
  | none =>
    simp only
    exact ⟨h.push _ uri true _ (freshPrefix_txt rep hr pref hp _ _ _) hu, freshPrefix_txt rep hr pref hp _ _ _⟩
  | some p =>
    simp only
    split
    · exact ⟨h.push _ uri true _ (freshPrefix_txt rep hr pref hp _ _ _) hu, freshPrefix_txt rep hr pref hp _ _ _⟩
    · exact ⟨h.push p uri true _ (hpfx p rfl) hu, hpfx p rfl⟩

theorem prefixTxt_nil (rep : Char → Bool) : prefixTxt rep [] = true := by simp [prefixTxt]

theorem uriTxt_nil : uriTxt [] = true := by decide

theorem validName_append_colon {p l : Str} (hp : validName p = true) (hl : validName l = true) :
    validName (p ++ ':' :: l) = true := by
  obtain ⟨c, cs, rfl, _⟩ := validName_head hp
  unfold validName at hp hl ⊢
  cases l with
  | nil => simp at hl
  | cons d ds =>
    simp only [List.cons_append, Bool.and_eq_true, Bool.not_eq_true', List.all_cons, List.all_append,
      List.all_eq_true] at hp hl ⊢
    refine ⟨hp.1, hp.2.1, ⟨fun x hx => hp.2.2 x hx, by decide, hl.2.1, fun x hx => hl.2.2 x hx⟩⟩

theorem nameTxt_qualified (rep : Char → Bool) (hr : AsciiRep rep) {p l : Str}
    (hp : nameTxt rep p = true) (hl : nameTxt rep l = true) : nameTxt rep (p ++ ':' :: l) = true := by
  unfold nameTxt at *
  simp only [Bool.and_eq_true] at hp hl ⊢
  refine ⟨validName_append_colon hp.1 hl.1, ?_⟩
  simp only [List.all_append, List.all_cons, Bool.and_eq_true]
  exact ⟨hp.2, hr _ (by decide), hl.2⟩

theorem nameTxt_qualify (rep : Char → Bool) (hr : AsciiRep rep) {p l : Str}
    (hp : prefixTxt rep p = true) (hl : nameTxt rep l = true) : nameTxt rep (qualify p l) = true := by
  unfold qualify
  by_cases he : p.isEmpty = true
  · simp [he, hl]
  · simp only [he, Bool.false_eq_true, if_false]
    unfold prefixTxt at hp
    simp only [he, Bool.false_or] at hp
    exact nameTxt_qualified rep hr hp hl

/-- a bound non-empty prefix can be written -/
theorem BindTxt.of_uriOf {rep : Char → Bool} {bs : List Binding} (h : BindTxt rep bs) {p u : Str}
    (hu : uriOf bs p = some u) : prefixTxt rep p = true := by
  by_cases hp : p = []
  · subst hp; exact prefixTxt_nil rep
  · obtain ⟨a, ha⟩ := uriOf_some_mem bs p u hp hu
    exact (h _ ha).1

theorem qnameTxt_parts {rep : Char → Bool} {q : QName} (h : qnameTxt rep q = true) :
    nameTxt rep q.loc = true ∧ uriTxt q.ns = true := by
  unfold qnameTxt at h; simpa using h

theorem flatTag_txt (rep : Char → Bool) (hr : AsciiRep rep) (pref : List (Str × Str))
    (hp : prefTxt rep pref = true) (t : TagSt) (h : TagTxt rep t) (tag : QName) (hq : qnameTxt rep tag = true) :
    TagTxt rep (flatTag pref t tag).2 ∧ nameTxt rep (flatTag pref t tag).1 = true := by
  obtain ⟨hl, hu⟩ := qnameTxt_parts hq
  unfold flatTag
  split
  · split
    · split
      · exact ⟨(declare_txt rep hr pref hp t h [] uriTxt_nil (some []) (fun p e => by cases e; exact prefixTxt_nil rep)).1, hl⟩
      · exact ⟨h, hl⟩
    · exact ⟨h, hl⟩
  · split
    · rename_i p hf
      exact ⟨h, nameTxt_qualify rep hr (h.bind.of_uriOf (findPrefix_sound _ _ _ _ hf).1) hl⟩
    · have := declare_txt rep hr pref hp t h tag.ns hu (some []) (fun p e => by cases e; exact prefixTxt_nil rep)
      exact ⟨this.1, nameTxt_qualify rep hr this.2 hl⟩

theorem attrsTxt_parts {rep : Char → Bool} {a : QName × Str} {rest : AttrList}
    (h : attrsTxt rep (a :: rest) = true) :
    qnameTxt rep a.1 = true ∧ attrValOK a.2 = true ∧ attrsTxt rep rest = true := by
  unfold attrsTxt at *
  simp only [List.all_cons, Bool.and_eq_true] at h
  exact ⟨h.1.1, h.1.2, h.2⟩

theorem flatAttrs_txt (rep : Char → Bool) (hr : AsciiRep rep) (pref : List (Str × Str))
    (hp : prefTxt rep pref = true) (attrs : AttrList) :
    ∀ (t : TagSt), TagTxt rep t → attrsTxt rep attrs = true →
      TagTxt rep (flatAttrs pref t attrs).2 ∧
      ∀ o ∈ (flatAttrs pref t attrs).1, nameTxt rep o.1 = true ∧ attrValOK o.2 = true := by
  induction attrs with
  | nil => intro t h _; exact ⟨h, by simp [flatAttrs]⟩
  | cons av rest ih =>
    intro t h ha
    obtain ⟨a, v⟩ := av
    obtain ⟨hq, hv, hrest⟩ := attrsTxt_parts ha
    obtain ⟨hl, hu⟩ := qnameTxt_parts hq
    unfold flatAttrs
    split
    · obtain ⟨i1, i2⟩ := ih t h hrest
      refine ⟨i1, ?_⟩
      intro o ho
      rcases List.mem_cons.mp ho with rfl | ho
      · exact ⟨hl, hv⟩
      · exact i2 o ho
    · split
      · rename_i p hf
        obtain ⟨i1, i2⟩ := ih t h hrest
        refine ⟨i1, ?_⟩
        intro o ho
        rcases List.mem_cons.mp ho with rfl | ho
        · have hs := findPrefix_sound _ _ _ _ hf
          have hpp := h.bind.of_uriOf hs.1
          have hne : p.isEmpty = false := by simpa using hs.2 rfl
          unfold prefixTxt at hpp
          simp only [hne, Bool.false_or] at hpp
          exact ⟨nameTxt_qualified rep hr hpp hl, hv⟩
        · exact i2 o ho
      · have hd := declare_txt rep hr pref hp t h a.ns hu none (fun p e => by cases e)
        obtain ⟨i1, i2⟩ := ih _ hd.1 hrest
        refine ⟨i1, ?_⟩
        intro o ho
        rcases List.mem_cons.mp ho with rfl | ho
        · have hne : (declare pref t a.ns none).1 ≠ [] := by
            unfold declare
            exact freshPrefix_ne_nil pref t.bindings a.ns t.counter
          have hpp := hd.2
          have hne' : (declare pref t a.ns none).1.isEmpty = false := by simpa using hne
          unfold prefixTxt at hpp
          simp only [hne', Bool.false_or] at hpp
          exact ⟨nameTxt_qualified rep hr hpp hl, hv⟩
        · exact i2 o ho

end Genshi.Xml

/-
  C09 — helper lemmas, part B: the invariant of the flattener's cache and the
  simulation "with cache = without cache" on the full namespace model.
-/
import Genshi.Lemmas.OutputFlattenCacheA
namespace Genshi.Xml
open Genshi

/-! ### a start tag without declarations -/

theorem flatStartT_eq (pref : List (Str × Str)) (st : FSt) (tag : QName) (a : TAttrs) :
    flatStartT pref st tag a =
      let t0 := takePending { bindings := st.bindings, declared := [], counter := st.counter } st.pending
      let r1 := flatTag pref t0 tag
      let r2 := flatAttrsT pref r1.2 a
      (r1.1, r2.2.declared.map (fun d => (nsAttrName d.1, (d.2, false))) ++ r2.1, r2.2) := rfl

/-- A start tag that writes no declaration: its flattened form is the same for every state with
    the same bindings and nothing pending (whatever the counter and the open elements), and the
    tag state is left as it was. -/
theorem flatStartT_nodecl (pref : List (Str × Str)) (st : FSt) (tag : QName) (a : TAttrs)
    (h : (flatStartT pref st tag a).2.2.declared = []) :
    (flatStartT pref st tag a).2.2 = ⟨st.bindings, [], st.counter⟩ ∧
    ∀ st' : FSt, st'.bindings = st.bindings → st'.pending = [] →
      flatStartT pref st' tag a =
        ((flatStartT pref st tag a).1, (flatStartT pref st tag a).2.1, ⟨st.bindings, [], st'.counter⟩) := by
  rw [flatStartT_eq] at h ⊢
  simp only at h ⊢
  generalize hT0 : ({ bindings := st.bindings, declared := [], counter := st.counter } : TagSt) = T0 at h ⊢
  have hT0d : T0.declared = [] := by rw [← hT0]
  have l0 := takePending_len st.pending T0
  have l1 := flatTag_len pref (takePending T0 st.pending) tag
  have l2 := flatAttrsT_len pref a (flatTag pref (takePending T0 st.pending) tag).2
  have h0 : (flatAttrsT pref (flatTag pref (takePending T0 st.pending) tag).2 a).2.declared.length = 0 := by
    rw [h]; rfl
  have hT0l : T0.declared.length = 0 := by rw [hT0d]; rfl
  have e0 : takePending T0 st.pending = T0 := takePending_same st.pending T0 (by omega)
  rw [e0] at l1 l2 h0 h ⊢
  obtain ⟨e1, e1c⟩ := flatTag_same pref T0 tag (by omega)
  rw [e1] at l2 h0 h ⊢
  obtain ⟨e2, e2c⟩ := flatAttrsT_same pref a T0 (by omega)
  rw [e2]
  refine ⟨rfl, ?_⟩
  intro st' hb hp
  rw [flatStartT_eq]
  simp only [hp, hb, takePending]
  have eT : ({ bindings := st.bindings, declared := [], counter := st'.counter } : TagSt) = T0.wc st'.counter := by
    rw [← hT0]; rfl
  rw [eT, e1c, e2c]
  simp only [hT0d, TagSt.wc, List.map_nil, List.nil_append]

/-! ### the cache invariant -/

/-- THE invariant of the flattener's cache: every entry is what the miss path computes for its
    key under the bindings now in scope (with nothing pending, for every counter value and every
    stack of open elements), and that computation writes no declaration and leaves the bindings
    alone. -/
def CacheOk (pref : List (Str × Str)) (bs : List Binding) (cache : Cache) : Prop :=
  ∀ k o, (k, o) ∈ cache → ∀ st : FSt, st.bindings = bs → st.pending = [] →
    flatStartT pref st k.tag (typedOf k.attrs) = (o.1, o.2, ⟨bs, [], st.counter⟩)

theorem cacheOk_nil (pref : List (Str × Str)) (bs : List Binding) : CacheOk pref bs [] := by
  intro k o h; cases h

theorem cacheOk_cons (pref : List (Str × Str)) (bs : List Binding) (cache : Cache) (k : CKey) (o : COut)
    (h : CacheOk pref bs cache)
    (hk : ∀ st : FSt, st.bindings = bs → st.pending = [] →
      flatStartT pref st k.tag (typedOf k.attrs) = (o.1, o.2, ⟨bs, [], st.counter⟩)) :
    CacheOk pref bs ((k, o) :: cache) := by
  intro k' o' hm
  rcases List.mem_cons.1 hm with e | hm
  · cases e; exact hk
  · exact h k' o' hm

theorem clookup_mem (cache : Cache) (k : CKey) (o : COut) (h : clookup cache k = some o) : (k, o) ∈ cache := by
  induction cache with
  | nil => simp [clookup] at h
  | cons x rest ih =>
    obtain ⟨k', o'⟩ := x
    simp only [clookup] at h
    by_cases e : k' = k
    · simp only [e, ↓reduceIte, Option.some.injEq] at h
      subst e; subst h; exact List.mem_cons_self
    · simp only [e, ↓reduceIte] at h
      exact List.mem_cons_of_mem _ (ih h)

/-- a start tag without Markup values is its own key with plain values -/
theorem cacheable_typed (a : TAttrs) (h : cacheable a = true) : typedOf (plainOf a) = a := by
  induction a with
  | nil => rfl
  | cons x rest ih =>
    obtain ⟨n, v, f⟩ := x
    simp only [cacheable, List.any_cons, Bool.not_or, Bool.and_eq_true, Bool.not_eq_eq_eq_not,
      Bool.not_true] at h
    have ih' := ih (by simp only [cacheable, Bool.not_eq_eq_eq_not, Bool.not_true]; exact h.2)
    simp only [typedOf, plainOf, List.map_cons, List.map_map] at ih' ⊢
    rw [ih', h.1]

theorem chit_false (c : CSt) (ie : Bool) (tag : QName) (a : TAttrs) : chit false c ie tag a = none := by
  simp [chit]

theorem chit_some (c : CSt) (ie : Bool) (tag : QName) (a : TAttrs) (o : COut)
    (h : chit true c ie tag a = some o) :
    c.st.pending = [] ∧ cacheable a = true ∧ (keyOf ie tag a, o) ∈ c.cache := by
  unfold chit at h
  by_cases hc : (true && c.st.pending.isEmpty && cacheable a) = true
  · rw [if_pos hc] at h
    simp only [Bool.true_and, Bool.and_eq_true, List.isEmpty_iff] at hc
    exact ⟨hc.1, hc.2, clookup_mem _ _ _ h⟩
  · rw [if_neg hc] at h; cases h

/-! ### one step -/

theorem FSt.eta_pending (st : FSt) (h : st.pending = []) :
    ({ bindings := st.bindings, pending := [], elems := st.elems, counter := st.counter } : FSt) = st := by
  obtain ⟨b, p, e, c⟩ := st
  simp only at h
  subst h; rfl

/-- START / EMPTY: with the cache (under the invariant) the same events come out and the same
    flattener state is reached as without, and the invariant holds afterwards -/
theorem cstepTag_cache (pref : List (Str × Str)) (st : FSt) (cache cache2 : Cache) (ie : Bool) (tag : QName)
    (a : TAttrs) (h : CacheOk pref st.bindings cache) :
    (cstepTag pref true ⟨st, cache⟩ ie tag a).2 = (cstepTag pref false ⟨st, cache2⟩ ie tag a).2 ∧
    (cstepTag pref true ⟨st, cache⟩ ie tag a).1.st = (cstepTag pref false ⟨st, cache2⟩ ie tag a).1.st ∧
    CacheOk pref (cstepTag pref true ⟨st, cache⟩ ie tag a).1.st.bindings
      (cstepTag pref true ⟨st, cache⟩ ie tag a).1.cache := by
  have hmiss : cstepTag pref false ⟨st, cache2⟩ ie tag a = cmiss pref false ⟨st, cache2⟩ ie tag a := by
    simp only [cstepTag, chit_false]
  rw [hmiss]
  cases hh : chit true ⟨st, cache⟩ ie tag a with
  | some o =>
    obtain ⟨hp, hca, hmem⟩ := chit_some _ _ _ _ _ hh
    simp only at hp hmem
    have hk := h _ _ hmem st rfl hp
    simp only [keyOf, cacheable_typed a hca] at hk
    have e1 : cstepTag pref true ⟨st, cache⟩ ie tag a =
        ({ st := if ie then st else { st with elems := (o.1, 0) :: st.elems }, cache := cache },
         [.tag ie o.1 o.2]) := by
      simp only [cstepTag, hh]
    rw [e1]
    simp only [cmiss, hk]
    refine ⟨trivial, ?_, ?_⟩
    · cases ie
      · simp only [Bool.false_eq_true, ↓reduceIte, List.length_nil]
        obtain ⟨b, p, e, c⟩ := st
        simp only at hp
        subst hp; rfl
      · simp only [↓reduceIte]
        exact (FSt.eta_pending st hp).symm
    · cases ie <;> exact h
  | none =>
    have e1 : cstepTag pref true ⟨st, cache⟩ ie tag a = cmiss pref true ⟨st, cache⟩ ie tag a := by
      simp only [cstepTag, hh]
    rw [e1]
    refine ⟨rfl, ?_, ?_⟩
    · simp only [cmiss]
    · by_cases hd : (flatStartT pref st tag a).2.2.declared = []
      · obtain ⟨ht, hall⟩ := flatStartT_nodecl pref st tag a hd
        have hb : (cmiss pref true ⟨st, cache⟩ ie tag a).1.st.bindings = st.bindings := by
          cases ie
          · simp only [cmiss, Bool.false_eq_true, ↓reduceIte, ht]
          · simp only [cmiss, ↓reduceIte]
        rw [hb]
        by_cases hca : cacheable a = true
        · have hc : (cmiss pref true ⟨st, cache⟩ ie tag a).1.cache =
              (keyOf ie tag a, ((flatStartT pref st tag a).1, (flatStartT pref st tag a).2.1)) :: cache := by
            simp only [cmiss, hd, List.isEmpty_nil, ↓reduceIte, hca, Bool.and_self]
          rw [hc]
          apply cacheOk_cons _ _ _ _ _ h
          intro st' hb' hp'
          simp only [keyOf, cacheable_typed a hca]
          exact hall st' hb' hp'
        · have hc : (cmiss pref true ⟨st, cache⟩ ie tag a).1.cache = cache := by
            simp only [cmiss, hd, List.isEmpty_nil, ↓reduceIte, hca, Bool.and_false, Bool.false_eq_true]
          rw [hc]; exact h
      · have hne : (flatStartT pref st tag a).2.2.declared.isEmpty = false := by
          cases hx : (flatStartT pref st tag a).2.2.declared with
          | nil => exact absurd hx hd
          | cons _ _ => rfl
        cases ie
        · have hc : (cmiss pref true ⟨st, cache⟩ false tag a).1.cache = [] := by
            simp only [cmiss, hne, Bool.false_eq_true, ↓reduceIte]
          rw [hc]; exact cacheOk_nil _ _
        · have hc : (cmiss pref true ⟨st, cache⟩ true tag a).1.cache = cache := by
            simp only [cmiss, hne, Bool.false_eq_true, ↓reduceIte]
          rw [hc]
          simp only [cmiss, ↓reduceIte]
          exact h

end Genshi.Xml

/-
  C19 — `MessageBuffer.translate` with directive-carrying elements in the message: the groups
  of such an element start with `SUB_START` and end with `SUB_END`; its events are collected in
  a sub-stream and come out as one SUB event.  Effects of groups on the pair (out, sub).
-/
import Genshi.Lemmas.I18nRun
namespace Genshi.I18n
open Genshi

/-- the two places `translate` writes to: the output and the open sub-stream -/
abbrev IOs := List TEvent × Option (List TEvent)

def TrState.io (st : TrState) : IOs := (st.out, st.sub)

def ioEmit (x : IOs) (es : List TEvent) : IOs :=
  match x.2 with
  | some s => (x.1, some (s ++ es))
  | none => (x.1 ++ es, none)

theorem io_emit (st : TrState) (es : List TEvent) : (st.emit es).io = ioEmit st.io es := by
  unfold TrState.emit TrState.io ioEmit
  cases h : st.sub <;> simp [h]

theorem ioEmit_ioEmit (x : IOs) (a b : List TEvent) : ioEmit (ioEmit x a) b = ioEmit x (a ++ b) := by
  obtain ⟨o, s⟩ := x
  cases s <;> simp [ioEmit, List.append_assoc]

theorem ioEmit_nil (x : IOs) : ioEmit x [] = x := by
  obtain ⟨o, s⟩ := x
  cases s <;> simp [ioEmit]

theorem emit_emit (st : TrState) (a b : List TEvent) : (st.emit a).emit b = st.emit (a ++ b) := by
  unfold TrState.emit
  cases h : st.sub <;> simp [h, List.append_assoc]

theorem emit_nil (st : TrState) : st.emit [] = st := by
  unfold TrState.emit
  cases h : st.sub <;> simp [h]
  · cases st; simp_all
  · cases st; simp_all

@[simp] theorem emit_rem (st : TrState) (es : List TEvent) : (st.emit es).rem = st.rem := by
  unfold TrState.emit; cases st.sub <;> rfl
@[simp] theorem emit_bad (st : TrState) (es : List TEvent) : (st.emit es).badSub = st.badSub := by
  unfold TrState.emit; cases st.sub <;> rfl

/-! ### groups in any mode -/

theorem runGroup_quietE (b : MB) (k : Nat) : ∀ (g : List MEv) (st : TrState) (p : Option Str),
    quiet p = true → simpleG g = true → runGroup b k g st p = .ok (st.emit (tags g), p)
  | [], st, p, _, _ => by simp [runGroup, tags, emit_nil, pure, Except.pure]
  | .ev (.expr _ _) :: g, st, p, hq, hg => by
      simp only [runGroup, tags]
      exact runGroup_quietE b k g st p hq (by simpa [simpleG, MEv.simple] using hg)
  | .ev (.text _) :: g, st, p, hq, hg => by
      simp only [runGroup, tags, flush_quiet _ st p hq, bind, Except.bind]
      exact runGroup_quietE b k g st p hq (by simpa [simpleG, MEv.simple] using hg)
  | .ev (.start t a) :: g, st, p, hq, hg => by
      simp only [runGroup, tags, flush_quiet _ _ p hq, bind, Except.bind]
      rw [runGroup_quietE b k g _ p hq (by simpa [simpleG, MEv.simple] using hg), emit_emit]
      rfl
  | .ev (.end_ t) :: g, st, p, hq, hg => by
      simp only [runGroup, tags, flush_quiet _ st p hq, bind, Except.bind]
      rw [runGroup_quietE b k g _ p hq (by simpa [simpleG, MEv.simple] using hg), emit_emit]
      rfl
  | .ev (.exec _) :: g, _, _, _, h => by simp [simpleG, MEv.simple] at h
  | .ev (.sub _ _) :: g, _, _, _, h => by simp [simpleG, MEv.simple] at h
  | .ev (.other _) :: g, _, _, _, h => by simp [simpleG, MEv.simple] at h
  | .subStart :: g, _, _, _, h => by simp [simpleG, MEv.simple] at h
  | .subEnd :: g, _, _, _, h => by simp [simpleG, MEv.simple] at h

theorem flush_someE (vs : List (Str × TEvent)) (st : TrState) (s : Str) (e : List TEvent)
    (hs : s ≠ []) (hy : yieldParts vs s = .ok e) :
    flushPending vs st (some s) = .ok (st.emit e, none) := by
  have : s.isEmpty = false := by cases s <;> simp_all
  simp [flushPending, this, hy, bind, Except.bind, pure, Except.pure]

/-- a group with an event that makes `translate` emit the string -/
def flushing (g : List MEv) : Bool := g.any fun x => match x with | .ev (.expr _ _) => false | _ => true

/-- a simple group with a flushing event emits `groupOut` and leaves no string pending -/
theorem runGroup_flushE (b : MB) (k : Nat) (s : Str) (e : List TEvent) (hs : s ≠ [])
    (hy : yieldParts b.values s = .ok e) : ∀ (g : List MEv) (st : TrState),
    simpleG g = true → flushing g = true →
    runGroup b k g st (some s) = .ok (st.emit (groupOut e g), none)
  | [], st, _, hf => by simp [flushing] at hf
  | .ev (.expr _ _) :: g, st, hg, hf => by
      simp only [runGroup, groupOut]
      exact runGroup_flushE b k s e hs hy g st (by simpa [simpleG, MEv.simple] using hg) (by simpa [flushing] using hf)
  | .ev (.text _) :: g, st, hg, _ => by
      simp only [runGroup, groupOut, flush_someE _ st s e hs hy, bind, Except.bind]
      rw [runGroup_quietE b k g _ none rfl (by simpa [simpleG, MEv.simple] using hg), emit_emit]
  | .ev (.start t a) :: g, st, hg, _ => by
      simp only [runGroup, groupOut, bind, Except.bind]
      rw [flush_someE _ _ s e hs hy]
      simp only
      rw [runGroup_quietE b k g _ none rfl (by simpa [simpleG, MEv.simple] using hg), emit_emit, emit_emit]
      rfl
  | .ev (.end_ t) :: g, st, hg, _ => by
      simp only [runGroup, groupOut, flush_someE _ st s e hs hy, bind, Except.bind]
      rw [runGroup_quietE b k g _ none rfl (by simpa [simpleG, MEv.simple] using hg), emit_emit, emit_emit]
      simp
  | .ev (.exec _) :: g, _, h, _ => by simp [simpleG, MEv.simple] at h
  | .ev (.sub _ _) :: g, _, h, _ => by simp [simpleG, MEv.simple] at h
  | .ev (.other _) :: g, _, h, _ => by simp [simpleG, MEv.simple] at h
  | .subStart :: g, _, h, _ => by simp [simpleG, MEv.simple] at h
  | .subEnd :: g, _, h, _ => by simp [simpleG, MEv.simple] at h

/-- for every string (also the empty one): a flushing simple group leaves a quiet pending string -/
theorem runGroup_flushE' (b : MB) (k : Nat) (s : Str) (e : List TEvent)
    (hy : yieldParts b.values s = .ok e) (g : List MEv) (st : TrState)
    (hg : simpleG g = true) (hf : flushing g = true) :
    ∃ p, runGroup b k g st (some s) = .ok (st.emit (groupOut e g), p) ∧ quiet p = true := by
  by_cases hs : s = []
  · subst hs
    have he : e = [] := by rw [yieldParts_nil] at hy; exact (Except.ok.inj hy).symm
    subst he
    exact ⟨some [], by rw [runGroup_quietE b k g st (some []) rfl hg, groupOut_nil_eq_tags g hg], rfl⟩
  · exact ⟨none, runGroup_flushE b k s e hs hy g st hg hf, rfl⟩

theorem runGroup_append (b : MB) (k : Nat) : ∀ (g1 g2 : List MEv) (st : TrState) (p : Option Str),
    runGroup b k (g1 ++ g2) st p = (runGroup b k g1 st p).bind (fun r => runGroup b k g2 r.1 r.2)
  | [], g2, st, p => by simp [runGroup, Except.bind, pure, Except.pure]
  | x :: g1, g2, st, p => by
      cases x with
      | subStart => simp only [List.cons_append, runGroup]; exact runGroup_append b k g1 g2 _ p
      | subEnd =>
        simp only [List.cons_append, runGroup]
        split
        · exact runGroup_append b k g1 g2 _ p
        · exact runGroup_append b k g1 g2 _ p
        · simp [Except.bind]
      | ev e =>
        cases e with
        | expr i m => simp only [List.cons_append, runGroup]; exact runGroup_append b k g1 g2 st p
        | text t =>
          simp only [List.cons_append, runGroup, bind]
          cases flushPending b.values st p with
          | error err => simp [Except.bind]
          | ok r => simp only [Except.bind]; exact runGroup_append b k g1 g2 _ _
        | start t a =>
          simp only [List.cons_append, runGroup, bind]
          cases flushPending b.values (st.emit [.start t a]) p with
          | error err => simp [Except.bind]
          | ok r => simp only [Except.bind]; exact runGroup_append b k g1 g2 _ _
        | end_ t =>
          simp only [List.cons_append, runGroup, bind]
          cases flushPending b.values st p with
          | error err => simp [Except.bind]
          | ok r => simp only [Except.bind]; exact runGroup_append b k g1 g2 _ _
        | exec m =>
          simp only [List.cons_append, runGroup, bind]
          cases flushPending b.values st p with
          | error err => simp [Except.bind]
          | ok r => simp only [Except.bind]; exact runGroup_append b k g1 g2 _ _
        | sub d bd =>
          simp only [List.cons_append, runGroup, bind]
          cases flushPending b.values st p with
          | error err => simp [Except.bind]
          | ok r => simp only [Except.bind]; exact runGroup_append b k g1 g2 _ _
        | other l =>
          simp only [List.cons_append, runGroup, bind]
          cases flushPending b.values st p with
          | error err => simp [Except.bind]
          | ok r => simp only [Except.bind]; exact runGroup_append b k g1 g2 _ _


theorem runGroup_nonflushing (b : MB) (k : Nat) (e : List TEvent) : ∀ (g : List MEv) (st : TrState) (p : Option Str),
    flushing g = false → runGroup b k g st p = .ok (st, p) ∧ groupOut e g = e
  | [], st, p, _ => ⟨rfl, rfl⟩
  | .ev (.expr _ _) :: g, st, p, h => by
      simp only [runGroup, groupOut]
      exact runGroup_nonflushing b k e g st p (by simpa [flushing] using h)
  | .ev (.text _) :: g, _, _, h => by simp [flushing] at h
  | .ev (.start _ _) :: g, _, _, h => by simp [flushing] at h
  | .ev (.end_ _) :: g, _, _, h => by simp [flushing] at h
  | .ev (.exec _) :: g, _, _, h => by simp [flushing] at h
  | .ev (.sub _ _) :: g, _, _, h => by simp [flushing] at h
  | .ev (.other _) :: g, _, _, h => by simp [flushing] at h
  | .subStart :: g, _, _, h => by simp [flushing] at h
  | .subEnd :: g, _, _, h => by simp [flushing] at h

/-- a simple group followed by the final flush, in any mode -/
theorem runGroup_outE (b : MB) (k : Nat) (s : Str) (e : List TEvent)
    (hy : yieldParts b.values s = .ok e) (g : List MEv) (st : TrState) (hg : simpleG g = true) :
    (do let r ← runGroup b k g st (some s); let r2 ← flushPending b.values r.1 r.2; pure r2.1) =
      .ok (st.emit (groupOut e g)) := by
  cases hf : flushing g with
  | true =>
    obtain ⟨p, hrun, hq⟩ := runGroup_flushE' b k s e hy g st hg hf
    simp [hrun, bind, Except.bind, flush_quiet _ _ p hq, pure, Except.pure]
  | false =>
    obtain ⟨hrun, hout⟩ := runGroup_nonflushing b k e g st (some s) hf
    rw [hrun, hout]
    by_cases hs : s = []
    · subst hs
      have he : e = [] := by rw [yieldParts_nil] at hy; exact (Except.ok.inj hy).symm
      subst he
      simp [bind, Except.bind, flush_quiet _ _ (some []) rfl, pure, Except.pure, emit_nil]
    · simp [bind, Except.bind, flush_someE _ st s e hs hy, pure, Except.pure]

/-- the result of one part, as its effect on (out, sub) -/
structure PartEff (b : MB) (k : Nat) (s : Str) (st : TrState) (more : List (List MEv)) (x : IOs) : Prop where
  run : ∃ st', runPart b k s st = .ok st' ∧ st'.io = x ∧ st'.rem = setGroups st.rem k more ∧ st'.badSub = st.badSub

theorem runPart_unfold (b : MB) (k : Nat) (s : Str) (st : TrState) (g : List MEv) (more : List (List MEv))
    (hrem : st.rem k = some (g :: more)) :
    runPart b k s st =
      (do let r ← runGroup b k g { st with rem := setGroups st.rem k more } (some s)
          let r2 ← flushPending b.values r.1 r.2
          pure r2.1) := by
  unfold runPart
  simp only [hrem, bind, Except.bind, pure, Except.pure]

theorem partEff_plain (b : MB) (k : Nat) (s : Str) (e : List TEvent) (hy : yieldParts b.values s = .ok e)
    (st : TrState) (g : List MEv) (more : List (List MEv)) (hrem : st.rem k = some (g :: more))
    (hg : simpleG g = true) : PartEff b k s st more (ioEmit st.io (groupOut e g)) := by
  refine ⟨⟨({ st with rem := setGroups st.rem k more } : TrState).emit (groupOut e g), ?_, ?_, by simp, by simp⟩⟩
  · rw [runPart_unfold b k s st g more hrem]
    exact runGroup_outE b k s e hy g _ hg
  · rw [io_emit]; rfl

theorem partEff_open (b : MB) (k : Nat) (s : Str) (e : List TEvent) (hy : yieldParts b.values s = .ok e)
    (st : TrState) (g : List MEv) (more : List (List MEv)) (hrem : st.rem k = some ((.subStart :: g) :: more))
    (hg : simpleG g = true) (hf : flushing g = true) (hsub : st.sub = none) :
    PartEff b k s st more (st.out, some (groupOut e g)) := by
  obtain ⟨p, hrun, hq⟩ := runGroup_flushE' b k s e hy g
    ({ st with rem := setGroups st.rem k more, sub := some [] } : TrState) hg hf
  refine ⟨⟨({ st with rem := setGroups st.rem k more, sub := some [] } : TrState).emit (groupOut e g), ?_, ?_, by simp, by simp⟩⟩
  · rw [runPart_unfold b k s st _ more hrem]
    simp only [runGroup, hrun, bind, Except.bind, flush_quiet _ _ p hq, pure, Except.pure]
  · rw [io_emit]; simp [TrState.io, ioEmit]

theorem runGroup_subEnd (b : MB) (k : Nat) (st : TrState) (p : Option Str) (ds : List Dir) (acc : List TEvent)
    (hd : assocGet b.subdirs k = some ds) (hs : st.sub = some acc) :
    runGroup b k [.subEnd] st p = .ok ({ st with out := st.out ++ [.sub ds acc], sub := none }, p) := by
  simp [runGroup, hd, hs, pure, Except.pure]

theorem partEff_close (b : MB) (k : Nat) (s : Str) (e : List TEvent) (hy : yieldParts b.values s = .ok e)
    (st : TrState) (g : List MEv) (more : List (List MEv)) (ds : List Dir) (acc : List TEvent)
    (hrem : st.rem k = some ((g ++ [.subEnd]) :: more))
    (hg : simpleG g = true) (hf : flushing g = true) (hsub : st.sub = some acc)
    (hd : assocGet b.subdirs k = some ds) :
    PartEff b k s st more (st.out ++ [.sub ds (acc ++ groupOut e g)], none) := by
  obtain ⟨p, hrun, hq⟩ := runGroup_flushE' b k s e hy g
    ({ st with rem := setGroups st.rem k more } : TrState) hg hf
  have hsub' : (({ st with rem := setGroups st.rem k more } : TrState).emit (groupOut e g)).sub = some (acc ++ groupOut e g) := by
    simp [TrState.emit, hsub]
  have hend := runGroup_subEnd b k _ p ds _ hd hsub'
  refine ⟨⟨{ (({ st with rem := setGroups st.rem k more } : TrState).emit (groupOut e g)) with
      out := (({ st with rem := setGroups st.rem k more } : TrState).emit (groupOut e g)).out ++ [.sub ds (acc ++ groupOut e g)],
      sub := none }, ?_, ?_, ?_, ?_⟩⟩
  · rw [runPart_unfold b k s st _ more hrem, runGroup_append, hrun]
    simp only [Except.bind, hend, bind, flush_quiet _ _ p hq, pure, Except.pure]
  · simp [TrState.io, TrState.emit, hsub]
  · simp [TrState.emit, hsub]
  · simp [TrState.emit, hsub]

theorem partEff_both (b : MB) (k : Nat) (s : Str) (e : List TEvent) (hy : yieldParts b.values s = .ok e)
    (st : TrState) (g : List MEv) (more : List (List MEv)) (ds : List Dir)
    (hrem : st.rem k = some ((.subStart :: (g ++ [.subEnd])) :: more))
    (hg : simpleG g = true) (hf : flushing g = true) (hsub : st.sub = none)
    (hd : assocGet b.subdirs k = some ds) :
    PartEff b k s st more (st.out ++ [.sub ds (groupOut e g)], none) := by
  obtain ⟨p, hrun, hq⟩ := runGroup_flushE' b k s e hy g
    ({ st with rem := setGroups st.rem k more, sub := some [] } : TrState) hg hf
  have hsub' : (({ st with rem := setGroups st.rem k more, sub := some [] } : TrState).emit (groupOut e g)).sub = some ([] ++ groupOut e g) := by
    simp [TrState.emit]
  have hend := runGroup_subEnd b k _ p ds _ hd hsub'
  refine ⟨⟨{ (({ st with rem := setGroups st.rem k more, sub := some [] } : TrState).emit (groupOut e g)) with
      out := (({ st with rem := setGroups st.rem k more, sub := some [] } : TrState).emit (groupOut e g)).out ++ [.sub ds ([] ++ groupOut e g)],
      sub := none }, ?_, ?_, ?_, ?_⟩⟩
  · rw [runPart_unfold b k s st _ more hrem]
    simp only [runGroup]
    rw [runGroup_append, hrun]
    simp only [Except.bind, hend, bind, flush_quiet _ _ p hq, pure, Except.pure]
  · simp [TrState.io, TrState.emit]
  · simp [TrState.emit]
  · simp [TrState.emit]


/-! ### the groups of a directive-carrying element -/

def mapFirst {α} (f : α → α) : List α → List α
  | [] => []
  | x :: xs => f x :: xs

def mapLast {α} (f : α → α) : List α → List α
  | [] => []
  | [x] => [f x]
  | x :: y :: xs => x :: mapLast f (y :: xs)

/-- `SUB_START` in front of the first group, `SUB_END` behind the last -/
def wrapK : Option (List Dir) → List (List MEv) → List (List MEv)
  | none, gs => gs
  | some _, gs => mapFirst (MEv.subStart :: ·) (mapLast (· ++ [MEv.subEnd]) gs)

theorem mapLast_length {α} (f : α → α) : ∀ (l : List α), (mapLast f l).length = l.length
  | [] => rfl
  | [_] => rfl
  | x :: y :: xs => by simp [mapLast, mapLast_length f (y :: xs)]

theorem mapFirst_length {α} (f : α → α) (l : List α) : (mapFirst f l).length = l.length := by
  cases l <;> simp [mapFirst]

theorem wrapK_length (kd : Option (List Dir)) (gs : List (List MEv)) : (wrapK kd gs).length = gs.length := by
  cases kd <;> simp [wrapK, mapFirst_length, mapLast_length]

theorem mapLast_getElem? {α} (f : α → α) : ∀ (l : List α) (i : Nat) (x : α), l[i]? = some x →
    (mapLast f l)[i]? = some (if i + 1 = l.length then f x else x)
  | [], i, x, h => by simp at h
  | [y], i, x, h => by
      cases i with
      | zero => simp at h; subst h; simp [mapLast]
      | succ i => simp at h
  | y :: z :: xs, 0, x, h => by simp at h; subst h; simp [mapLast]
  | y :: z :: xs, i + 1, x, h => by
      have := mapLast_getElem? f (z :: xs) i x (by simpa using h)
      simp only [mapLast, List.getElem?_cons_succ, List.length_cons] at this ⊢
      rw [this]
      by_cases hc : i + 1 = xs.length + 1 <;> simp [hc]

theorem mapFirst_getElem? {α} (f : α → α) (l : List α) (i : Nat) (x : α) (h : l[i]? = some x) :
    (mapFirst f l)[i]? = some (if i = 0 then f x else x) := by
  cases l with
  | nil => simp at h
  | cons y ys =>
    cases i with
    | zero => simp at h; subst h; simp [mapFirst]
    | succ i => simpa [mapFirst] using h

theorem wrapK_getElem? (ds : List Dir) (gs : List (List MEv)) (i : Nat) (g : List MEv) (h : gs[i]? = some g) :
    (wrapK (some ds) gs)[i]? =
      some ((if i = 0 then [MEv.subStart] else []) ++ g ++ (if i + 1 = gs.length then [MEv.subEnd] else [])) := by
  simp only [wrapK]
  have h1 := mapLast_getElem? (· ++ [MEv.subEnd]) gs i g h
  have h2 := mapFirst_getElem? (MEv.subStart :: ·) _ i _ h1
  rw [h2]
  by_cases hi : i = 0 <;> by_cases hl : i + 1 = gs.length <;> simp_all

theorem drop_of_getElem? {α} : ∀ (l : List α) (i : Nat) (x : α), l[i]? = some x → l.drop i = x :: l.drop (i + 1)
  | [], i, x, h => by simp at h
  | y :: ys, 0, x, h => by simp at h; subst h; simp
  | y :: ys, i + 1, x, h => by
      simp only [List.getElem?_cons_succ] at h
      simpa using drop_of_getElem? ys i x h

theorem GoodElem.at {gs : List (List MEv)} {t : QName} {a : TAttrs} {m : Nat} (h : GoodElem gs t a m)
    (i : Nat) (g : List MEv) (hg : gs[i]? = some g) :
    simpleG g = true ∧ ∀ e, groupOut e g = expectedOut t a m i e := by
  have hlt : i < gs.length := by
    rcases Nat.lt_or_ge i gs.length with hl | hl
    · exact hl
    · rw [List.getElem?_eq_none hl] at hg; cases hg
  have hgi : g = gs[i] := by rw [List.getElem?_eq_getElem hlt] at hg; exact (Option.some.inj hg).symm
  subst hgi
  exact ⟨h.simple _ (List.getElem_mem hlt), fun e => h.out i hlt e⟩

theorem flushing_of_groupOut (g : List MEv) (h : groupOut [] g ≠ []) : flushing g = true := by
  cases hf : flushing g with
  | true => rfl
  | false =>
    have := (runGroup_nonflushing (MB.new []) 0 [] g { rem := fun _ => none, sub := none, out := [] } none hf).2
    exact absurd this h

/-- element numbers: tag, attributes and, for a directive-carrying element, its directives -/
abbrev WorldK := Nat → Option (QName × TAttrs × Option (List Dir))

/-- effect of the gap `j` of an element with `m` child elements on (out, sub) -/
def gapEff (kd : Option (List Dir)) (t : QName) (a : TAttrs) (m j : Nat) (e : List TEvent) (x : IOs) : IOs :=
  match kd with
  | none => ioEmit x (expectedOut t a m j e)
  | some ds =>
      if j = 0 then
        if m = 0 then (x.1 ++ [.sub ds (.start t a :: (e ++ [.end_ t]))], none)
        else (x.1, some (.start t a :: e))
      else if j = m then (x.1 ++ [.sub ds (x.2.getD [] ++ (e ++ [.end_ t]))], none)
      else ioEmit x e

/-- one gap of an element, whatever its kind -/
theorem gap_part (b : MB) (n : Nat) (s : Str) (e : List TEvent) (hy : yieldParts b.values s = .ok e)
    (st : TrState) (kd : Option (List Dir)) (t : QName) (a : TAttrs) (gs' : List (List MEv)) (m j : Nat)
    (hge : GoodElem gs' t a m) (hj : j ≤ m)
    (hrem : st.rem n = some ((wrapK kd gs').drop j))
    (hmode : ∀ ds, kd = some ds → assocGet b.subdirs n = some ds ∧ (j = 0 → st.sub = none) ∧ (0 < j → st.sub.isSome = true)) :
    PartEff b n s st ((wrapK kd gs').drop (j + 1)) (gapEff kd t a m j e st.io) := by
  have hlt : j < gs'.length := by rw [hge.len]; omega
  obtain ⟨g, hg?⟩ : ∃ g, gs'[j]? = some g := ⟨gs'[j], List.getElem?_eq_getElem hlt⟩
  obtain ⟨hsimple, hout⟩ := hge.at j g hg?
  cases kd with
  | none =>
    have hdrop := drop_of_getElem? (wrapK none gs') j g (by simpa [wrapK] using hg?)
    have := partEff_plain b n s e hy st g ((wrapK none gs').drop (j + 1)) (by rw [hrem, hdrop]) hsimple
    rw [hout e] at this
    simpa [gapEff] using this
  | some ds =>
    obtain ⟨hsd, hm0, hmpos⟩ := hmode ds rfl
    have hget := wrapK_getElem? ds gs' j g hg?
    rw [hge.len] at hget
    have hdrop := drop_of_getElem? (wrapK (some ds) gs') j _ hget
    by_cases hj0 : j = 0
    · subst hj0
      have hfl : flushing g = true := flushing_of_groupOut _ (by rw [hout []]; simp [expectedOut])
      by_cases hm : m = 0
      · subst hm
        have := partEff_both b n s e hy st g ((wrapK (some ds) gs').drop 1) ds
          (by rw [hrem, hdrop]; simp) hsimple hfl (hm0 rfl) hsd
        rw [hout e] at this
        simpa [gapEff, expectedOut, TrState.io] using this
      · have hne : ¬ (0 + 1 = m + 1) := by omega
        have hm' : ¬ (0 = m) := fun h => hm h.symm
        have := partEff_open b n s e hy st g ((wrapK (some ds) gs').drop 1) (by rw [hrem, hdrop]; simp [hm])
          hsimple hfl (hm0 rfl)
        rw [hout e] at this
        simpa [gapEff, hm, hm', expectedOut, TrState.io] using this
    · have hpos : 0 < j := Nat.pos_of_ne_zero hj0
      obtain ⟨acc, hacc⟩ := Option.isSome_iff_exists.mp (hmpos hpos)
      by_cases hjm : j = m
      · subst hjm
        have hfl : flushing g = true := flushing_of_groupOut _ (by rw [hout []]; simp [expectedOut])
        have := partEff_close b n s e hy st g ((wrapK (some ds) gs').drop (j + 1)) ds acc
          (by rw [hrem, hdrop]; simp [hj0]) hsimple hfl hacc hsd
        rw [hout e] at this
        simpa [gapEff, hj0, expectedOut, TrState.io, hacc] using this
      · have hne : ¬ (j + 1 = m + 1) := by omega
        have := partEff_plain b n s e hy st g ((wrapK (some ds) gs').drop (j + 1)) (by rw [hrem, hdrop]; simp [hj0, hjm]) hsimple
        rw [hout e] at this
        simpa [gapEff, hj0, hjm, expectedOut] using this


/-! ### translation trees with directive-carrying elements -/

/-- the groups of an element of kind `kd` with `m` child elements -/
def GoodElemK (gs : List (List MEv)) (kd : Option (List Dir)) (t : QName) (a : TAttrs) (m : Nat) : Prop :=
  ∃ gs', GoodElem gs' t a m ∧ gs = wrapK kd gs'

mutual
  /-- as `XNode.good`, with kinds: a directive-carrying element must not lie inside another
      one (`inSub`), and its directives are filed under its number (`sd`) -/
  def XNode.goodK (W : WorldK) (sd : Nat → Option (List Dir)) (rem : Groups) : Bool → XNode → Prop
    | inSub, .ph n _ r => n ≠ 0 ∧ ∃ t a kd gs, W n = some (t, a, kd) ∧ rem n = some gs ∧
        GoodElemK gs kd t a r.length ∧ (∀ ds, kd = some ds → inSub = false ∧ sd n = some ds) ∧
        r.goodK W sd rem (inSub || kd.isSome)
  def XRest.goodK (W : WorldK) (sd : Nat → Option (List Dir)) (rem : Groups) : Bool → XRest → Prop
    | _, .nil => True
    | inSub, .cons x _ r => x.goodK W sd rem inSub ∧ r.goodK W sd rem inSub
end

mutual
  /-- the translated message; a directive-carrying element comes out as one SUB event -/
  def XNode.renderK (W : WorldK) (Y : Str → List TEvent) : XNode → List TEvent
    | .ph n s0 r =>
        match W n with
        | some (t, a, none) => .start t a :: (Y s0 ++ (r.renderK W Y ++ [.end_ t]))
        | some (t, a, some ds) => [.sub ds (.start t a :: (Y s0 ++ (r.renderK W Y ++ [.end_ t])))]
        | none => []
  def XRest.renderK (W : WorldK) (Y : Str → List TEvent) : XRest → List TEvent
    | .nil => []
    | .cons x s r => x.renderK W Y ++ (Y s ++ r.renderK W Y)
end

mutual
  theorem XNode.goodK_congr (W : WorldK) (sd : Nat → Option (List Dir)) (rem rem' : Groups) : ∀ (x : XNode) (inSub : Bool),
      (∀ k ∈ x.nums, rem' k = rem k) → x.goodK W sd rem inSub → x.goodK W sd rem' inSub
    | .ph n s0 r, inSub, h, hg => by
        simp only [XNode.goodK] at hg ⊢
        obtain ⟨hn, t, a, kd, gs, hw, hr, hge, hk, hrest⟩ := hg
        refine ⟨hn, t, a, kd, gs, hw, ?_, hge, hk, ?_⟩
        · rw [h n (by simp [XNode.nums])]; exact hr
        · exact XRest.goodK_congr W sd rem rem' r _ (fun k hk' => h k (by simp [XNode.nums, hk'])) hrest
  theorem XRest.goodK_congr (W : WorldK) (sd : Nat → Option (List Dir)) (rem rem' : Groups) : ∀ (r : XRest) (inSub : Bool),
      (∀ k ∈ r.nums, rem' k = rem k) → r.goodK W sd rem inSub → r.goodK W sd rem' inSub
    | .nil, _, _, _ => trivial
    | .cons x s r, inSub, h, hg => by
        simp only [XRest.goodK] at hg ⊢
        exact ⟨XNode.goodK_congr W sd rem rem' x inSub (fun k hk => h k (by simp [XRest.nums, hk])) hg.1,
               XRest.goodK_congr W sd rem rem' r inSub (fun k hk => h k (by simp [XRest.nums, hk])) hg.2⟩
end

/-- effect of the gaps `j, j+1, …` of an element and of the child placeholders between them -/
def restIO (W : WorldK) (Y : Str → List TEvent) (kd : Option (List Dir)) (t : QName) (a : TAttrs) (m : Nat) :
    Nat → Str → XRest → IOs → IOs
  | j, s0, .nil, x => gapEff kd t a m j (Y s0) x
  | j, s0, .cons c s r, x => restIO W Y kd t a m (j + 1) s r (ioEmit (gapEff kd t a m j (Y s0) x) (c.renderK W Y))

theorem restIO_plain (W : WorldK) (Y : Str → List TEvent) (t : QName) (a : TAttrs) (m : Nat) :
    ∀ (r : XRest) (j : Nat) (s0 : Str) (x : IOs), j + r.length = m →
      restIO W Y none t a m j s0 r x =
        ioEmit x ((if j = 0 then [.start t a] else []) ++ (Y s0 ++ (r.renderK W Y ++ [.end_ t])))
  | .nil, j, s0, x, h => by
      simp only [XRest.length, Nat.add_zero] at h
      simp [restIO, gapEff, expectedOut, XRest.renderK, h]
  | .cons c s r, j, s0, x, h => by
      simp only [XRest.length] at h
      have hj : j ≠ m := by omega
      rw [restIO, restIO_plain W Y t a m r (j + 1) s _ (by omega)]
      simp [gapEff, expectedOut, XRest.renderK, hj, ioEmit_ioEmit, List.append_assoc]

/-- inside a directive-carrying element (after its first gap): everything is collected and
    comes out as one SUB event at the last gap -/
theorem restIO_sub_tail (W : WorldK) (Y : Str → List TEvent) (ds : List Dir) (t : QName) (a : TAttrs) (m : Nat) :
    ∀ (r : XRest) (j : Nat) (s0 : Str) (out acc : List TEvent), 0 < j → j + r.length = m →
      restIO W Y (some ds) t a m j s0 r (out, some acc) =
        (out ++ [.sub ds (acc ++ (Y s0 ++ (r.renderK W Y ++ [.end_ t])))], none)
  | .nil, j, s0, out, acc, hj, h => by
      simp only [XRest.length, Nat.add_zero] at h
      subst h
      have hj0 : j ≠ 0 := by omega
      simp [restIO, gapEff, hj0, XRest.renderK]
  | .cons c s r, j, s0, out, acc, hj, h => by
      simp only [XRest.length] at h
      have hj0 : j ≠ 0 := by omega
      have hjm : j ≠ m := by omega
      rw [restIO]
      simp only [gapEff, hj0, hjm, ↓reduceIte, ioEmit]
      rw [restIO_sub_tail W Y ds t a m r (j + 1) s out _ (by omega) (by omega)]
      simp [XRest.renderK, List.append_assoc]

theorem restIO_sub (W : WorldK) (Y : Str → List TEvent) (ds : List Dir) (t : QName) (a : TAttrs)
    (r : XRest) (s0 : Str) (out : List TEvent) :
    restIO W Y (some ds) t a r.length 0 s0 r (out, none) =
      (out ++ [.sub ds (.start t a :: (Y s0 ++ (r.renderK W Y ++ [.end_ t])))], none) := by
  cases r with
  | nil => simp [restIO, gapEff, XRest.length, XRest.renderK]
  | cons c s r =>
    have hm : (XRest.cons c s r).length ≠ 0 := by simp [XRest.length]
    rw [restIO]
    simp only [gapEff, ↓reduceIte, hm, ioEmit]
    rw [restIO_sub_tail W Y ds t a _ r 1 s out _ (by omega) (by simp [XRest.length]; omega)]
    simp [XRest.renderK, List.append_assoc]

/-- running `parts` from `st` has the effect `f` on (out, sub), touches only the groups of `nums` -/
def RanK (b : MB) (parts more : List (Nat × Str)) (st : TrState) (x : IOs) (nums : List Nat) : Prop :=
  ∃ st', runParts b (parts ++ more) st = runParts b more st' ∧ st'.io = x ∧
    st'.badSub = st.badSub ∧ ∀ k, k ∉ nums → st'.rem k = st.rem k


theorem ioEmit_isSome (x : IOs) (es : List TEvent) : (ioEmit x es).2.isSome = x.2.isSome := by
  obtain ⟨o, sb⟩ := x
  cases sb <;> simp [ioEmit]

theorem io_sub (st : TrState) : st.io.2 = st.sub := rfl

/-- mode of the (out, sub) pair after a gap that is not the last one -/
theorem gapEff_isSome (kd : Option (List Dir)) (t : QName) (a : TAttrs) (m j : Nat) (e : List TEvent) (x : IOs)
    (hjm : j < m) (hmode : kd.isSome = true → 0 < j → x.2.isSome = true) :
    (gapEff kd t a m j e x).2.isSome = (x.2.isSome || kd.isSome) := by
  cases kd with
  | none => simp [gapEff, ioEmit_isSome]
  | some ds =>
    by_cases hj0 : j = 0
    · have hm : m ≠ 0 := by omega
      simp [gapEff, hj0, hm]
    · have hne : j ≠ m := by omega
      simp [gapEff, hj0, hne, ioEmit_isSome, hmode rfl (Nat.pos_of_ne_zero hj0)]

/-- the condition on the mode in front of the gap `j` of an element of kind `kd` -/
def ModeOK (sd : Nat → Option (List Dir)) (n : Nat) (kd : Option (List Dir)) (j : Nat) (sub : Option (List TEvent))
    (inSub' : Bool) : Prop :=
  match kd with
  | none => sub.isSome = inSub'
  | some ds => sd n = some ds ∧ inSub' = true ∧ (j = 0 → sub = none) ∧ (0 < j → sub.isSome = true)

mutual
  theorem run_nodeK (b : MB) (W : WorldK) (Y : Str → List TEvent) : ∀ (x : XNode) (st : TrState) (more : List (Nat × Str))
      (inSub : Bool), x.goodK W (assocGet b.subdirs) st.rem inSub → x.nums.Nodup → st.sub.isSome = inSub →
      (∀ s ∈ x.segs, yieldParts b.values s = .ok (Y s)) →
      RanK b x.parts more st (ioEmit st.io (x.renderK W Y)) x.nums
    | .ph n s0 r, st, more, inSub, hg, hnd, hmode, hseg => by
        simp only [XNode.goodK] at hg
        obtain ⟨hn, t, a, kd, gs, hw, hrem, ⟨gs', hge, hgs⟩, hk, hrest⟩ := hg
        subst hgs
        have hm : ModeOK (assocGet b.subdirs) n kd 0 st.sub (inSub || kd.isSome) := by
          cases kd with
          | none => simpa [ModeOK] using hmode
          | some ds =>
            obtain ⟨hi, hsd⟩ := hk ds rfl
            subst hi
            refine ⟨hsd, by simp, fun _ => ?_, fun h => absurd h (by omega)⟩
            cases hs : st.sub with
            | none => rfl
            | some _ => rw [hs] at hmode; simp at hmode
        have := run_restK b W Y r n t a kd gs' r.length 0 s0 st more (inSub || kd.isSome) hn (by simpa using hrem) hge
          (by simp) hrest (by simpa [XNode.nums] using hnd) hm (by simpa [XNode.segs] using hseg)
        simp only [XNode.parts, XNode.renderK, hw, XNode.nums]
        cases kd with
        | none =>
          rw [restIO_plain W Y t a r.length r 0 s0 _ (by simp)] at this
          simpa using this
        | some ds =>
          have hnone : st.sub = none := hm.2.2.1 rfl
          have hio : st.io = (st.out, none) := by simp [TrState.io, hnone]
          rw [hio, restIO_sub] at this
          simpa [hio, ioEmit] using this
  theorem run_restK (b : MB) (W : WorldK) (Y : Str → List TEvent) : ∀ (r : XRest) (n : Nat) (t : QName) (a : TAttrs)
      (kd : Option (List Dir)) (gs' : List (List MEv)) (m j : Nat) (s0 : Str) (st : TrState) (more : List (Nat × Str))
      (inSub' : Bool),
      n ≠ 0 → st.rem n = some ((wrapK kd gs').drop j) → GoodElem gs' t a m → j + r.length = m →
      r.goodK W (assocGet b.subdirs) st.rem inSub' → (n :: r.nums).Nodup →
      ModeOK (assocGet b.subdirs) n kd j st.sub inSub' →
      (∀ s ∈ s0 :: r.segs, yieldParts b.values s = .ok (Y s)) →
      RanK b (XRest.parts n s0 r) more st (restIO W Y kd t a m j s0 r st.io) (n :: r.nums)
    | .nil, n, t, a, kd, gs', m, j, s0, st, more, inSub', hn, hrem, hge, hj, _, _, hmode, hseg => by
        simp only [XRest.length, Nat.add_zero] at hj
        subst hj
        have hgp := gap_part b n s0 (Y s0) (hseg s0 (by simp)) st kd t a gs' j j hge (Nat.le_refl _) hrem
          (fun ds hds => by
            subst hds
            obtain ⟨h1, _, h3, h4⟩ := hmode
            exact ⟨h1, h3, h4⟩)
        obtain ⟨st', hrun, hio, hrem', hbad⟩ := hgp.run
        refine ⟨st', ?_, ?_, hbad, ?_⟩
        · simp only [XRest.parts, partOf_ne_zero n s0 hn, List.cons_append, List.nil_append, runParts, hrun,
            bind, Except.bind]
        · simpa [restIO] using hio
        · intro k hk
          simp only [XRest.nums, List.mem_cons, List.not_mem_nil, or_false] at hk
          rw [hrem']; exact setGroups_other _ _ _ _ hk
    | .cons x s r, n, t, a, kd, gs', m, j, s0, st, more, inSub', hn, hrem, hge, hj, hgood, hnd, hmode, hseg => by
        simp only [XRest.length] at hj
        simp only [XRest.goodK] at hgood
        simp only [XRest.nums, List.nodup_cons, List.mem_append, not_or, List.nodup_append] at hnd
        obtain ⟨⟨hnx, hnr⟩, hxnd, hrnd, hdisj⟩ := hnd
        have hjm : j < m := by omega
        -- the gap `j`
        have hgp := gap_part b n s0 (Y s0) (hseg s0 (by simp)) st kd t a gs' m j hge (by omega) hrem
          (fun ds hds => by
            subst hds
            obtain ⟨h1, _, h3, h4⟩ := hmode
            exact ⟨h1, h3, h4⟩)
        obtain ⟨st1, hrun1, hio1, hrem1', hbad1⟩ := hgp.run
        have hrem1 : ∀ k, k ≠ n → st1.rem k = st.rem k := fun k hk => by rw [hrem1']; exact setGroups_other _ _ _ _ hk
        -- the mode for the children
        have hmode1 : st1.sub.isSome = inSub' := by
          have := gapEff_isSome kd t a m j (Y s0) st.io hjm (fun hk hj' => by
            cases kd with
            | none => simp at hk
            | some ds => exact hmode.2.2.2 hj')
          rw [← hio1] at this
          rw [show st1.sub = st1.io.2 from rfl, this, io_sub]
          cases kd with
          | none => simpa [ModeOK] using hmode
          | some ds => obtain ⟨_, h2, _, _⟩ := hmode; simp [h2]
        -- the child placeholder
        have hxg : x.goodK W (assocGet b.subdirs) st1.rem inSub' :=
          XNode.goodK_congr W _ st.rem st1.rem x inSub' (fun k hk => hrem1 k (fun h => hnx (h ▸ hk))) hgood.1
        obtain ⟨st2, hrun2, hio2, hbad2, hrem2⟩ :=
          run_nodeK b W Y x st1 (XRest.parts n s r ++ more) inSub' hxg hxnd hmode1
            (fun s' hs' => hseg s' (by simp [XRest.segs, hs']))
        -- the remaining gaps
        have hremn : st2.rem n = some ((wrapK kd gs').drop (j + 1)) := by
          rw [hrem2 n hnx, hrem1']; exact setGroups_same _ _ _
        have hrg : r.goodK W (assocGet b.subdirs) st2.rem inSub' :=
          XRest.goodK_congr W _ st.rem st2.rem r inSub' (fun k hk => by
            have hkx : k ∉ x.nums := fun h => hdisj k h k hk rfl
            rw [hrem2 k hkx, hrem1 k (fun h => hnr (h ▸ hk))]) hgood.2
        have hsome2 : st2.sub.isSome = st1.sub.isSome := by
          rw [show st2.sub = st2.io.2 from rfl, hio2, ioEmit_isSome]; rfl
        have hmode2 : ModeOK (assocGet b.subdirs) n kd (j + 1) st2.sub inSub' := by
          cases kd with
          | none => simp only [ModeOK]; rw [hsome2, hmode1]
          | some ds =>
            obtain ⟨h1, h2, _, _⟩ := hmode
            refine ⟨h1, h2, fun h => absurd h (by omega), fun _ => ?_⟩
            rw [hsome2, hmode1, h2]
        obtain ⟨st3, hrun3, hio3, hbad3, hrem3⟩ :=
          run_restK b W Y r n t a kd gs' m (j + 1) s st2 more inSub' hn hremn hge (by omega) hrg
            (by simp [List.nodup_cons, hnr, hrnd]) hmode2
            (fun s' hs' => hseg s' (by
              simp only [List.mem_cons] at hs'
              rcases hs' with rfl | hs'
              · simp [XRest.segs]
              · simp [XRest.segs, hs']))
        refine ⟨st3, ?_, ?_, ?_, ?_⟩
        · simp only [XRest.parts, partOf_ne_zero n s0 hn, List.cons_append, List.nil_append, List.append_assoc,
            runParts, hrun1, bind, Except.bind]
          rw [hrun2, hrun3]
        · rw [hio3, hio2, hio1]; simp [restIO]
        · rw [hbad3, hbad2, hbad1]
        · intro k hk
          simp only [XRest.nums, List.mem_cons, List.mem_append, not_or] at hk
          rw [hrem3 k (by simp [hk.1, hk.2.2]), hrem2 k hk.2.1, hrem1 k hk.1]
end


/-! ### the top level, with kinds -/

mutual
  theorem XNode.goodK_nums_ne_zero (W : WorldK) (sd : Nat → Option (List Dir)) (rem : Groups) :
      ∀ (x : XNode) (inSub : Bool), x.goodK W sd rem inSub → 0 ∉ x.nums
    | .ph n s0 r, inSub, h => by
        simp only [XNode.goodK] at h
        obtain ⟨hn, t, a, kd, gs, _, _, _, _, hr⟩ := h
        simp only [XNode.nums, List.mem_cons, not_or]
        exact ⟨fun h0 => hn h0.symm, XRest.goodK_nums_ne_zero W sd rem r _ hr⟩
  theorem XRest.goodK_nums_ne_zero (W : WorldK) (sd : Nat → Option (List Dir)) (rem : Groups) :
      ∀ (r : XRest) (inSub : Bool), r.goodK W sd rem inSub → 0 ∉ r.nums
    | .nil, _, _ => by simp [XRest.nums]
    | .cons x s r, inSub, h => by
        simp only [XRest.goodK] at h
        simp only [XRest.nums, List.mem_append, not_or]
        exact ⟨XNode.goodK_nums_ne_zero W sd rem x inSub h.1, XRest.goodK_nums_ne_zero W sd rem r inSub h.2⟩
end

theorem run_topK (b : MB) (W : WorldK) (Y : Str → List TEvent) : ∀ (r : XRest) (s0 : Str) (st : TrState),
    r.goodK W (assocGet b.subdirs) st.rem false → r.nums.Nodup → st.sub = none →
    (∀ s ∈ s0 :: r.segs, yieldParts b.values s = .ok (Y s)) →
    ((∀ s ∈ s0 :: r.topSegs, s = []) ∨ Textual0 st.rem) →
    ∃ st', runParts b (XRest.parts 0 s0 r) st = .ok st' ∧ st'.out = st.out ++ (Y s0 ++ r.renderK W Y) ∧
      st'.sub = none ∧ st'.badSub = st.badSub
  | .nil, s0, st, _, _, hsub, hseg, htop => by
      obtain ⟨st', h1, h2, h3, h4, _, _⟩ := run_top_seg b Y s0 st (hseg s0 (by simp)) hsub
        (htop.imp (fun h => h s0 (by simp)) id)
      exact ⟨st', by simpa [XRest.parts] using h1, by simpa [XRest.renderK] using h2, h3, h4⟩
  | .cons x s r, s0, st, hgood, hnd, hsub, hseg, htop => by
      simp only [XRest.goodK] at hgood
      simp only [XRest.nums, List.nodup_append] at hnd
      obtain ⟨hxnd, hrnd, hdisj⟩ := hnd
      obtain ⟨st1, h1, hout1, hsub1, hbad1, hrem1, htex1⟩ := run_top_seg b Y s0 st (hseg s0 (by simp)) hsub
        (htop.imp (fun h => h s0 (by simp)) id)
      have hx0 : 0 ∉ x.nums := XNode.goodK_nums_ne_zero W _ st.rem x false hgood.1
      have hr0 : 0 ∉ r.nums := XRest.goodK_nums_ne_zero W _ st.rem r false hgood.2
      have hxg : x.goodK W (assocGet b.subdirs) st1.rem false :=
        XNode.goodK_congr W _ st.rem st1.rem x false (fun k hk => hrem1 k (fun h => hx0 (h ▸ hk))) hgood.1
      obtain ⟨st2, hrun2, hio2, hbad2, hrem2⟩ :=
        run_nodeK b W Y x st1 (XRest.parts 0 s r) false hxg hxnd (by simp [hsub1])
          (fun s' hs' => hseg s' (by simp [XRest.segs, hs']))
      have hio2' : st2.out = st1.out ++ x.renderK W Y ∧ st2.sub = none := by
        have : st2.io = (st1.out ++ x.renderK W Y, none) := by
          rw [hio2]; simp [TrState.io, hsub1, ioEmit]
        simp only [TrState.io, Prod.mk.injEq] at this
        exact this
      have hrg : r.goodK W (assocGet b.subdirs) st2.rem false :=
        XRest.goodK_congr W _ st.rem st2.rem r false (fun k hk => by
          have hkx : k ∉ x.nums := fun h => hdisj k h k hk rfl
          rw [hrem2 k hkx, hrem1 k (fun h => hr0 (h ▸ hk))]) hgood.2
      have htop2 : (∀ s' ∈ s :: r.topSegs, s' = []) ∨ Textual0 st2.rem := by
        rcases htop with h | h
        · left; intro s' hs'
          apply h s'
          simp only [List.mem_cons] at hs'
          rcases hs' with rfl | hs'
          · simp [XRest.topSegs]
          · simp [XRest.topSegs, hs']
        · right
          obtain ⟨gs, hg0, hgs⟩ := htex1 h
          exact ⟨gs, by rw [hrem2 0 hx0]; exact hg0, hgs⟩
      obtain ⟨st3, hrun3, hout3, hsub3, hbad3⟩ :=
        run_topK b W Y r s st2 hrg hrnd hio2'.2 (fun s' hs' => hseg s' (by
          simp only [List.mem_cons] at hs'
          rcases hs' with rfl | hs'
          · simp [XRest.segs]
          · simp [XRest.segs, hs'])) htop2
      refine ⟨st3, ?_, ?_, hsub3, ?_⟩
      · simp only [XRest.parts]
        rw [runParts_append, h1]
        simp only [Except.bind]
        rw [hrun2, hrun3]
      · rw [hout3, hio2'.1, hout1]; simp [XRest.renderK, List.append_assoc]
      · rw [hbad3, hbad2, hbad1]

/-- **MessageBuffer.translate on a linearised translation tree**, directive-carrying elements
    included: such an element comes out as one SUB event holding its directives, its START
    event, the translated content and its END event. -/
theorem translate_treeK (b : MB) (W : WorldK) (Y : Str → List TEvent) (s0 : Str) (r : XRest)
    (hp0 : plainSeg s0 = true) (hp : r.plain = true)
    (hgood : r.goodK W (assocGet b.subdirs) b.events false) (hnd : r.nums.Nodup)
    (hseg : ∀ s ∈ s0 :: r.segs, yieldParts b.values s = .ok (Y s))
    (htop : (∀ s ∈ s0 :: r.topSegs, s = []) ∨ Textual0 b.events) :
    b.translate (s0 ++ r.fmt) = .ok (Y s0 ++ r.renderK W Y) := by
  unfold MB.translate
  rw [parseMsg_fmt s0 r hp0 hp]
  obtain ⟨st', hrun, hout, _, hbad⟩ :=
    run_topK b W Y r s0 { rem := b.events, sub := none, out := [] } hgood hnd rfl hseg htop
  simp only [bind, Except.bind, hrun]
  simp at hbad hout
  simp [hbad, hout, pure, Except.pure]

end Genshi.I18n

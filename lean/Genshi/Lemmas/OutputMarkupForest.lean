/-
  Helper lemmas for C08: Markup (pre-escaped) text LEAVES of a forest.  `plainF m raw ns` replaces
  every Markup text leaf by the plain text leaf that is written the same way (its `unescape`; inside
  script / style under html the text itself); on the domain `mkDom` (a Markup leaf outside raw
  context is the escape of some string: `ProperEsc`; script / style hold only text; no CDATA
  markers) the serializers write the same for both forests, with or without a doctype option.
  Forest-level counterpart of `serSpec_desafe` (Lemmas/OutputSafeText).  Mathlib-free.
-/
import Genshi.Lemmas.OutputWsRender
namespace Genshi.Output
open Genshi Genshi.Escape Genshi.Reader

mutual
  def plainT (m : Method) (raw : Bool) : Node → Node
    | .elem t a ks => .elem t a (plainF m (rawOf m t) ks)
    | .leaf e =>
        match e with
        | .text s f => .leaf (.text (if f && !raw then unescape s else s) false)
        | e => .leaf e
  def plainF (m : Method) (raw : Bool) : List Node → List Node
    | [] => []
    | n :: ns => plainT m raw n :: plainF m raw ns
end

mutual
  def mkDomT (m : Method) (rawP : Bool) : Node → Bool
    | .elem t _ ks => !rawP && mkDomF m (rawOf m t) ks
    | .leaf e =>
        match e with
        | .text s f => if f && !rawP then decide (ProperEsc s) else true
        | .comment _ => !rawP
        | .pi _ _ => !rawP
        | .doctype _ _ _ => !rawP
        | .xmlDecl _ _ _ => !rawP
        | _ => false
  def mkDomF (m : Method) (rawP : Bool) : List Node → Bool
    | [] => true
    | n :: ns => mkDomT m rawP n && mkDomF m rawP ns
end

/-- the forests with Markup text leaves the theorems are about -/
def mkDom (m : Method) (ns : List Node) : Bool := mkDomF m false ns

/-- written alike from every context with the right raw flag, and the flag is the same afterwards -/
structure MkOut (m : Method) (o : Opts) (u : Str) (s : Bool) (c : Ctx) (rawP : Bool) (X Y : List Node) : Prop where
  out : OutEq m o u s c X Y
  raw : (wsCtxEnd m o c (forestFu u s X)).raw = rawP

theorem plainF_isEmpty (m : Method) (raw : Bool) (ns : List Node) : (plainF m raw ns).isEmpty = ns.isEmpty := by
  cases ns <;> simp [plainF]

mutual
  theorem mk_tree (m : Method) (o : Opts) (u : Str) : ∀ (n : Node) (rawP : Bool) (c : Ctx) (s : Bool),
      c.raw = rawP → mkDomT m rawP n = true → MkOut m o u s c rawP [n] [plainT m rawP n]
    | .elem t a ks, rawP, c, s, hc, hd => by
        simp only [mkDomT, Bool.and_eq_true, Bool.not_eq_true'] at hd
        obtain ⟨hr, hk⟩ := hd
        subst hr
        cases ks with
        | nil =>
          refine ⟨⟨rfl, rfl⟩, ?_⟩
          simp [forestFu, treeFu, wsCtxEnd, ctxAfter, hc]
        | cons k ks' =>
          have hc1 : (ctxAfter m o c (.start t.loc (declAttr u s ++ fAttrs a))).raw = rawOf m t := by
            simp only [ctxAfter, rawOf]
            cases m <;> simp [hc] <;> split <;> simp_all
          have ih := mk_forest m o u (k :: ks') (rawOf m t)
            (ctxAfter m o c (.start t.loc (declAttr u s ++ fAttrs a))) true hc1 hk
          have hel := outEq_elem m o u s c t a (k :: ks') (plainF m (rawOf m t) (k :: ks')) (by simp)
            (by simp [plainF]) ih.out ih.raw
          simp only [plainT]
          exact ⟨hel.1, hel.2⟩
    | .leaf e, rawP, c, s, hc, hd => by
        cases e with
        | text x f =>
          refine ⟨⟨?_, rfl⟩, by simpa [forestFu, treeFu, leafF, wsCtxEnd, ctxAfter] using hc⟩
          cases f with
          | false => simp [plainT]
          | true =>
            cases rawP with
            | true => simp [plainT, forestFu, treeFu, leafF, serSpec, emit, hc]
            | false =>
              have hp : ProperEsc x := by simpa [mkDomT] using hd
              simp only [plainT, Bool.true_and, Bool.not_false, ↓reduceIte, forestFu, treeFu, leafF,
                Option.toList_some, List.append_nil, serSpec, emit, hc, Bool.false_eq_true]
              rw [hp]
        | comment x =>
          have hr : rawP = false := by simpa [mkDomT] using hd
          subst hr
          exact ⟨⟨rfl, rfl⟩, by simp [forestFu, treeFu, leafF, wsCtxEnd, ctxAfter, hc]⟩
        | pi x y =>
          have hr : rawP = false := by simpa [mkDomT] using hd
          subst hr
          exact ⟨⟨rfl, rfl⟩, by simp [forestFu, treeFu, leafF, wsCtxEnd, ctxAfter, hc]⟩
        | doctype x y z =>
          have hr : rawP = false := by simpa [mkDomT] using hd
          subst hr
          exact ⟨⟨rfl, rfl⟩, by simp [forestFu, treeFu, leafF, wsCtxEnd, ctxAfter, hc]⟩
        | xmlDecl x y z =>
          have hr : rawP = false := by simpa [mkDomT] using hd
          subst hr
          refine ⟨⟨rfl, rfl⟩, ?_⟩
          simp only [forestFu, treeFu, leafF, Option.toList_some, List.append_nil, wsCtxEnd, List.foldl_cons,
            List.foldl_nil, ctxAfter]
          split <;> simp [hc]
        | _ => simp [mkDomT] at hd
  theorem mk_forest (m : Method) (o : Opts) (u : Str) : ∀ (ns : List Node) (rawP : Bool) (c : Ctx) (s : Bool),
      c.raw = rawP → mkDomF m rawP ns = true → MkOut m o u s c rawP ns (plainF m rawP ns)
    | [], rawP, c, s, hc, _ => ⟨⟨rfl, rfl⟩, by simpa [forestFu, wsCtxEnd] using hc⟩
    | n :: ns, rawP, c, s, hc, hd => by
        simp only [mkDomF, Bool.and_eq_true] at hd
        have h1 := mk_tree m o u n rawP c s hc hd.1
        have h2 := mk_forest m o u ns rawP _ s h1.raw hd.2
        refine ⟨?_, ?_⟩
        · have := OutEq.append h1.out h2.out
          simpa [plainF] using this
        · have : forestFu u s (n :: ns) = forestFu u s [n] ++ forestFu u s ns := by simp [forestFu]
          rw [this, wsf_ctxEnd_append]; exact h2.raw
end

/-! ### the plain forest is a forest in the same namespace -/

mutual
  theorem ok_plainT (m : Method) : ∀ (n : Node) (r : Bool), (plainT m r n).ok = n.ok
    | .elem t a ks, r => by simp [plainT, Node.ok, okList_plainF m ks (rawOf m t)]
    | .leaf e, r => by cases e <;> simp [plainT, Node.ok, Event.isStartEnd]
  theorem okList_plainF (m : Method) : ∀ (ns : List Node) (r : Bool), okList (plainF m r ns) = okList ns
    | [], r => rfl
    | n :: ns, r => by simp [plainF, okList, ok_plainT m n r, okList_plainF m ns r]
end

mutual
  theorem uniformNs_plainT (u : Str) (m : Method) : ∀ (n : Node) (r : Bool),
      uniformNs u (plainT m r n) = uniformNs u n
    | .elem t a ks, r => by simp [plainT, uniformNs, uniformNs_plainF u m ks (rawOf m t)]
    | .leaf e, r => by cases e <;> simp [plainT, uniformNs, leafF]
  theorem uniformNs_plainF (u : Str) (m : Method) : ∀ (ns : List Node) (r : Bool),
      forestUniformNs u (plainF m r ns) = forestUniformNs u ns
    | [], r => rfl
    | n :: ns, r => by simp [plainF, forestUniformNs, uniformNs_plainT u m n r, uniformNs_plainF u m ns r]
end

theorem goodHead_mkDom (m : Method) (n : Node) (rest rest' : List Node) (hd : mkDomT m false n = true)
    (hx : ∀ v e s, n ≠ .leaf (.xmlDecl v e s)) :
    goodHead (n :: rest) = true ∧ goodHead (plainT m false n :: rest') = true := by
  cases n with
  | elem t a ks => simp [goodHead, plainT]
  | leaf e =>
    cases e <;> first
      | exact absurd rfl (hx _ _ _)
      | (simp [mkDomT] at hd; done)
      | simp [goodHead, plainT]

/-- the main loop behind `DocTypeInserter` writes the same for the forest and its plain form -/
theorem serSpec_mk_dt_eq (m : Method) (o : Opts) (u : Str) (dopt : Option DocTypeT) (ns : List Node)
    (hd : mkDom m ns = true) :
    serSpec m o {} (withDoctype dopt (forestFu u false ns)) =
      serSpec m o {} (withDoctype dopt (forestFu u false (plainF m false ns))) := by
  cases dopt with
  | none => exact (mk_forest m o u ns false {} false rfl hd).out.1
  | some d =>
    simp only [withDoctype]
    cases ns with
    | nil => rfl
    | cons n rest =>
      have hd2 : mkDomT m false n = true ∧ mkDomF m false rest = true := by
        simpa [mkDom, mkDomF] using hd
      by_cases hx : ∃ v e s, n = .leaf (.xmlDecl v e s)
      · obtain ⟨v, e, s, rfl⟩ := hx
        simp only [plainF, plainT, forestFu, treeFu, leafF, Option.toList_some, List.singleton_append, docTypeInsert,
          serSpec]
        rw [(mk_forest m o u rest false _ false (by simp only [ctxAfter]; split <;> rfl) hd2.2).out.1]
      · have hx' : ∀ v e s, n ≠ .leaf (.xmlDecl v e s) := fun v e s h => hx ⟨v, e, s, h⟩
        have hg := goodHead_mkDom m n rest (plainF m false rest) hd2.1 hx'
        rw [docTypeInsert_notXd d _ (notXdHead_goodHead u false _ hg.1)]
        have : plainF m false (n :: rest) = plainT m false n :: plainF m false rest := rfl
        rw [this, docTypeInsert_notXd d _ (notXdHead_goodHead u false _ hg.2)]
        simp only [serSpec]
        rw [(mk_forest m o u (n :: rest) false _ false rfl hd).out.1]
        rfl

end Genshi.Output

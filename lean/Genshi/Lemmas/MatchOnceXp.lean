/-
  C12 — `once` replaces the first XPath match in document order.
  `onceList` (matcher asked along the ancestors) = `mkOnceKids` by the marks of a run over every event
  (lawful, leaf-free matcher: `spec_once_node/list`), = `xpOnceForest` by the relation on locations the
  marks stand for (`mkOnceNode_markB`), which for real templates is `patternSel` (`patternMarks_eq_markB`).
-/
import Genshi.Model.MatchOnceXp
import Genshi.Lemmas.MatchMarks
import Genshi.Lemmas.MatchXpInst
import Genshi.Lemmas.MatchRealOnceTree
namespace Genshi.Match
open Genshi Genshi.Path Genshi.Path.Ref

/-! ### the mark form (a proof device: one Boolean per event, as `mkKids` in Model/MatchReal.lean) -/

mutual
  /-- output, the marks left (`[]` once an element was replaced), whether an element was replaced -/
  def mkOnceNode (body : List BItem) : Node → List Bool → List Event × List Bool × Bool
    | .leaf e, ms => ([e], ms.tail, false)
    | .elem tg at_ kids, ms =>
      if ms.headD false then (instantiate body (.start tg at_ :: (flattenList kids ++ [.end_ tg])), [], true)
      else
        let r := mkOnceKids body kids ms.tail
        (.start tg at_ :: (r.1 ++ [.end_ tg]), r.2.1.tail, r.2.2)
  def mkOnceKids (body : List BItem) : List Node → List Bool → List Event × List Bool × Bool
    | [], ms => ([], ms, false)
    | n :: ns, ms =>
      let a := mkOnceNode body n ms
      if a.2.2 then (a.1 ++ flattenList ns, [], true)
      else
        let b := mkOnceKids body ns a.2.1
        (a.1 ++ b.1, b.2.1, b.2.2)
end

section
variable {σ : Type}

mutual
  theorem spec_once_node (t : MT σ) (hl : Lawful t) (hf : LeafFree t) (b : σ) :
      ∀ (n : Node) (anc : List Open), n.ok = true →
        ∀ rest, mkOnceNode t.body n ((marksOf t.step (openSt t.step b anc) n.flatten).1 ++ rest)
          = ((onceNode t b anc n).1, (if (onceNode t b anc n).2 then [] else rest), (onceNode t b anc n).2)
    | .leaf e, anc, hok => by
        intro rest
        simp [Node.flatten, marksOf, mkOnceNode, onceNode]
    | .elem tg at_ kids, anc, hok => by
        intro rest
        simp only [Node.ok] at hok
        have ih := spec_once_list t hl hf b kids ((tg, at_) :: anc) hok
        have hs1 : (t.step (openSt t.step b anc) (.start tg at_) false).1 = openSt t.step b ((tg, at_) :: anc) := rfl
        simp only [Node.flatten, marksOf, hs1, marksOf_append, mkOnceNode, List.cons_append, List.tail_cons,
          List.headD_cons, List.append_assoc, ih, onceNode, List.nil_append]
        by_cases hv : (t.step (openSt t.step b anc) (.start tg at_) false).2 = true
        · simp [hv]
        · have hv' : (t.step (openSt t.step b anc) (.start tg at_) false).2 = false := by simpa using hv
          simp only [hv', Bool.false_eq_true, ↓reduceIte]
          by_cases hfl : (onceList t b ((tg, at_) :: anc) kids).2 = true
          · simp [hfl]
          · have hfl' : (onceList t b ((tg, at_) :: anc) kids).2 = false := by simpa using hfl
            simp [hfl']
  theorem spec_once_list (t : MT σ) (hl : Lawful t) (hf : LeafFree t) (b : σ) :
      ∀ (ns : List Node) (anc : List Open), okList ns = true →
        ∀ rest, mkOnceKids t.body ns ((marksOf t.step (openSt t.step b anc) (flattenList ns)).1 ++ rest)
          = ((onceList t b anc ns).1, (if (onceList t b anc ns).2 then [] else rest), (onceList t b anc ns).2)
    | [], anc, _ => by
        intro rest
        simp [flattenList, marksOf, mkOnceKids, onceList]
    | n :: ns, anc, hok => by
        intro rest
        simp only [okList, Bool.and_eq_true] at hok
        have h1 := spec_once_node t hl hf b n anc hok.1
        have hst := (spec_marks_node t hl hf b n anc hok.1).1
        have h2 := spec_once_list t hl hf b ns anc hok.2
        simp only [flattenList, marksOf_append, hst, mkOnceKids, List.append_assoc, h1, onceList]
        by_cases hfl : (onceNode t b anc n).2 = true
        · simp [hfl]
        · have hfl' : (onceNode t b anc n).2 = false := by simpa using hfl
          simp only [hfl', Bool.false_eq_true, ↓reduceIte, h2]
end

end

mutual
  theorem mkOnceNode_markB (sel : List Nat → Bool) (body : List BItem) :
      ∀ (n : Node) (loc : List Nat) (tl : List Bool),
        mkOnceNode body n (markB sel (eventLocs n loc) ++ tl)
          = ((xpOnceNode sel body loc n).1, (if (xpOnceNode sel body loc n).2 then [] else tl), (xpOnceNode sel body loc n).2)
    | .leaf e, loc, tl => by simp [mkOnceNode, xpOnceNode, eventLocs, markB]
    | .elem tg at_ kids, loc, tl => by
        have hk := mkOnceKids_markB sel body kids loc 0 ([false] ++ tl)
        have hm : markB sel (eventLocs (.elem tg at_ kids) loc) ++ tl
            = sel loc :: (markB sel (eventLocsList kids loc 0) ++ ([false] ++ tl)) := by
          simp [eventLocs, markB]
        rw [hm]
        simp only [mkOnceNode, List.tail_cons, List.headD_cons, hk, xpOnceNode]
        cases sel loc
        · simp only [Bool.false_eq_true, ↓reduceIte]
          cases (xpOnceKids sel body loc 0 kids).2 <;> simp
        · simp
  theorem mkOnceKids_markB (sel : List Nat → Bool) (body : List BItem) :
      ∀ (ks : List Node) (loc : List Nat) (i : Nat) (tl : List Bool),
        mkOnceKids body ks (markB sel (eventLocsList ks loc i) ++ tl)
          = ((xpOnceKids sel body loc i ks).1, (if (xpOnceKids sel body loc i ks).2 then [] else tl),
             (xpOnceKids sel body loc i ks).2)
    | [], loc, i, tl => by simp [mkOnceKids, xpOnceKids, eventLocsList, markB]
    | k :: ks, loc, i, tl => by
        have h1 := mkOnceNode_markB sel body k (loc ++ [i]) (markB sel (eventLocsList ks loc (i + 1)) ++ tl)
        have h2 := mkOnceKids_markB sel body ks loc (i + 1) tl
        simp only [eventLocsList, markB_append, List.append_assoc, mkOnceKids, h1, xpOnceKids]
        cases (xpOnceNode sel body (loc ++ [i]) k).2
        · simp only [Bool.false_eq_true, ↓reduceIte, h2]
        · simp
end

/-- a whole forest, the marks of the trees laid end to end -/
theorem mkOnceKids_forest (sel : Node → List Nat → Bool) (mk : Node → List Bool) (body : List BItem) :
    ∀ (forest : List Node),
      (∀ top ∈ forest, ∀ tl, mkOnceNode body top (mk top ++ tl)
          = ((xpOnceNode (sel top) body [] top).1, (if (xpOnceNode (sel top) body [] top).2 then [] else tl),
             (xpOnceNode (sel top) body [] top).2)) →
      ∀ tl, mkOnceKids body forest (forest.flatMap mk ++ tl)
          = ((xpOnceForest sel body forest).1, (if (xpOnceForest sel body forest).2 then [] else tl),
             (xpOnceForest sel body forest).2)
  | [], _, tl => by simp [mkOnceKids, xpOnceForest]
  | n :: ns, h, tl => by
      have h1 := h n List.mem_cons_self (ns.flatMap mk ++ tl)
      have h2 := mkOnceKids_forest sel mk body ns (fun t ht => h t (List.mem_cons_of_mem _ ht)) tl
      simp only [List.flatMap_cons, List.append_assoc, mkOnceKids, h1, xpOnceForest]
      cases (xpOnceNode (sel n) body [] n).2
      · simp only [Bool.false_eq_true, ↓reduceIte, h2]
      · simp

/-- `mkOnceKids ∘ patternMarks` = `xpOnceForest ∘ patternSel` -/
theorem xpOnceForest_eq_mkOnceKids (ns : NsMap) (vs : Vars) (force : Option Strategy) (paths : List LocPath)
    (body : List BItem) (forest : List Node) (h : ∀ top ∈ forest, TopOk ns vs force paths top) :
    (mkOnceKids body forest (forest.flatMap (patternMarks paths ns vs force))).1
      = (xpOnceForest (patternSel paths ns (toXVars vs)) body forest).1 := by
  have := mkOnceKids_forest (patternSel paths ns (toXVars vs)) (patternMarks paths ns vs force) body forest
    (fun top ht tl => by
      rcases h top ht with ⟨e, rfl⟩ | hop
      · simp [patternMarks, Node.flatten, runTest, mkOnceNode, xpOnceNode]
      · rw [patternMarks_eq_markB ns vs force top paths hop]
        exact mkOnceNode_markB _ body top [] tl) []
  rw [List.append_nil] at this
  rw [this]

/-- **`once` replaces the first XPath match in document order** (real templates). -/
theorem real_once_stage_is_xpOnce (ns : NsMap) (vs : Vars) (ds : List Decl) (hok : ∀ d ∈ ds, d.ok ns vs)
    (i : Nat) (d : Decl) (hd : ds[i]? = some d) (ho : d.hints.matchOnce = true)
    (hp : ∀ p ∈ d.paths, PatternXp ns vs d.force p)
    (f : Nat) (forest : List Node) (r : List (MT RSt) × List Event) (hns : okList forest = true)
    (ht : ∀ top ∈ forest, TreeFor ns vs d.paths top)
    (h : run f i (some (i + 1)) (evItems (flattenList forest)) (ds.map (Decl.real ns vs)) = some r) :
    r.2 = (xpOnceForest (patternSel d.paths ns (toXVars vs)) d.body forest).1 := by
  have hdok := hok d (List.mem_of_getElem? hd)
  have hl : Lawful (d.abs ns vs) := abs_lawful ns vs d.paths d.body d.hints d.force hdok
  have hlf : LeafFree (d.abs ns vs) := abs_leafFree ns vs d.paths d.body d.hints d.force hdok
  have htr : TRel (d.real ns vs) (d.abs ns vs) := real_trel ns vs d.paths d.body d.hints d.force hdok
  rw [real_once_stage_is_onceList ns vs ds hok i d hd ho f forest r hns h, onceList_trel htr forest]
  have hm := spec_once_list (d.abs ns vs) hl hlf (d.abs ns vs).st forest [] hns []
  simp only [List.append_nil, openSt] at hm
  have hmf := marks_forest (d.abs ns vs) hl hlf (d.abs ns vs).st forest hns
  have hper : ∀ top : Node, (marksOf (d.abs ns vs).step (d.abs ns vs).st top.flatten).1 = patternMarks d.paths ns vs d.force top := by
    intro top
    have := marks_sim ns vs (pathTest d.paths true d.force).1 hdok top.flatten (pathTest d.paths true d.force).2
      ((pathTest d.paths true d.force).1.map initA) (init_rel ns vs d.paths d.force hdok)
    rw [real_marks] at this
    exact this.symm
  rw [hmf] at hm
  simp only [hper] at hm
  have hbody : (d.abs ns vs).body = d.body := rfl
  rw [hbody] at hm
  have h1 := congrArg Prod.fst hm
  simp only at h1
  rw [← h1]
  exact xpOnceForest_eq_mkOnceKids ns vs d.force d.paths d.body forest
    (fun top hm => topOk_of_static ns vs d.force d.paths hp top (ht top hm))

end Genshi.Match

/-
  C11: the prepared templates in the loader's cache are files of the set (`In`), so a family of caches that
  grows with the fuel is eventually constant.
-/
import Genshi.Lemmas.InclGrow
namespace Genshi.Incl

/-- every prepared template is a file of the set -/
def In (files : Files) (c : Cache) : Prop := ∀ n, n ∈ c.map (·.1) → n ∈ files.names

theorem In.cons {files : Files} {c : Cache} (h : In files c) {name : Name} (b : List Node) (hn : name ∈ files.names) :
    In files ((name, b) :: c) := by
  intro n hm
  simp only [List.map_cons, List.mem_cons] at hm
  rcases hm with rfl | hm
  · exact hn
  · exact h n hm

def PJIn (files : Files) (J : PJ) : Prop := ∀ inl name c r, In files c → J inl name c = .ok r → In files r.2

mutual
theorem prepN_in (files : Files) {J : PJ} (hJ : PJIn files J) (inl : List Name) :
    ∀ (n : Node) (c : Cache) (r : List Node × Cache), In files c → prepN files J inl n c = .ok r → In files r.2
  | .text s, c, r, hc, h => by cases h; exact hc
  | .var x, c, r, hc, h => by cases h; exact hc
  | .call m, c, r, hc, h => by cases h; exact hc
  | .select, c, r, hc, h => by cases h; exact hc
  | .elem t b, c, r, hc, h => by
    rw [prepN_elem] at h; obtain ⟨r0, h0, he⟩ := bind_wrap_ok (g := fun b' => [.elem t b']) h
    rw [he]; exact prepL_in files hJ inl b c r0 hc h0
  | .cond cd b, c, r, hc, h => by
    rw [prepN_cond] at h; obtain ⟨r0, h0, he⟩ := bind_wrap_ok (g := fun b' => [.cond cd b']) h
    rw [he]; exact prepL_in files hJ inl b c r0 hc h0
  | .loop x xs b, c, r, hc, h => by
    rw [prepN_loop] at h; obtain ⟨r0, h0, he⟩ := bind_wrap_ok (g := fun b' => [.loop x xs b']) h
    rw [he]; exact prepL_in files hJ inl b c r0 hc h0
  | .defn m b, c, r, hc, h => by
    rw [prepN_defn] at h; obtain ⟨r0, h0, he⟩ := bind_wrap_ok (g := fun b' => [.defn m b']) h
    rw [he]; exact prepL_in files hJ inl b c r0 hc h0
  | .matchT t b, c, r, hc, h => by
    rw [prepN_matchT] at h; obtain ⟨r0, h0, he⟩ := bind_wrap_ok (g := fun b' => [.matchT t b']) h
    rw [he]; exact prepL_in files hJ inl b c r0 hc h0
  | .inlined b, c, r, hc, h => by
    rw [prepN_inlined] at h; obtain ⟨r0, h0, he⟩ := bind_wrap_ok (g := fun b' => [.inlined b']) h
    rw [he]; exact prepL_in files hJ inl b c r0 hc h0
  | .include (.dyn ps) cls hasFb fb pos, c, r, hc, h => by
    rw [prepN_dyn] at h
    obtain ⟨r0, h0, he⟩ := bind_wrap_ok (g := fun b' => [.include (.dyn ps) cls hasFb b' pos]) h
    rw [he]; exact prepL_in files hJ inl fb c r0 hc h0
  | .include (.static hh) cls hasFb fb pos, c, r, hc, h => by
    rw [prepN_static] at h
    cases hres : resolve pos hh with
    | none => simp [hres] at h
    | some name =>
      simp only [hres] at h
      cases hfind : files.find name with
      | none =>
        simp only [hfind] at h
        cases hasFb with
        | true =>
          simp only [if_true] at h
          exact prepL_in files hJ inl fb c r hc h
        | false =>
          simp only [Bool.false_eq_true, if_false] at h
          obtain ⟨r0, h0, he⟩ := bind_wrap_ok (g := fun b' => [.include (.static hh) cls false b' pos]) h
          rw [he]; exact prepL_in files hJ inl fb c r0 hc h0
      | some f =>
        simp only [hfind] at h
        by_cases hk : f.kind = cls
        · simp only [hk, ne_eq, not_true_eq_false, if_false] at h
          cases hb : f.body with
          | none => simp [hb] at h
          | some body =>
            simp only [hb] at h
            by_cases hin : name ∈ inl
            · simp only [hin, if_true] at h
              obtain ⟨r0, h0, he⟩ := bind_wrap_ok (g := fun b' => [.include (.static hh) cls hasFb b' pos]) h
              rw [he]; exact prepL_in files hJ inl fb c r0 hc h0
            · simp only [hin, if_false] at h
              obtain ⟨r0, h0, he⟩ := bind_wrap_ok (g := fun b' => [.inlined b']) h
              rw [he]; exact hJ _ _ _ _ hc h0
        · simp [hk] at h
termination_by structural n => n
theorem prepL_in (files : Files) {J : PJ} (hJ : PJIn files J) (inl : List Name) :
    ∀ (ns : List Node) (c : Cache) (r : List Node × Cache), In files c → prepL files J inl ns c = .ok r → In files r.2
  | [], c, r, hc, h => by cases h; exact hc
  | n :: ns, c, r, hc, h => by
    rw [prepL_cons] at h
    cases hn : prepN files J inl n c with
    | fuel => simp [hn] at h
    | err e => simp [hn] at h
    | ok r1 =>
      simp only [hn, Res.bind_ok] at h
      obtain ⟨r0, h0, he⟩ := bind_wrap_ok (g := fun b' => r1.1 ++ b') h
      rw [he]
      exact prepL_in files hJ inl ns r1.2 r0 (prepN_in files hJ inl n c r1 hc hn) h0
termination_by structural ns => ns
end

theorem prepT_in (files : Files) : ∀ f : Nat, PJIn files (prepT files f)
  | 0 => by intro inl name c r _ h; simp [prepT] at h
  | f + 1 => by
    intro inl name c r hc h
    simp only [prepT] at h
    cases hl : c.lookup name with
    | some b => simp only [hl] at h; cases h; exact hc
    | none =>
      simp only [hl] at h
      cases hfind : files.find name with
      | none => simp [hfind] at h
      | some ff =>
        obtain ⟨k, fb⟩ := ff
        cases fb with
        | none => simp [hfind] at h
        | some body =>
          simp only [hfind] at h
          cases hx : prepL files (prepT files f) inl body c with
          | fuel => simp [hx] at h
          | err e => simp [hx] at h
          | ok r0 =>
            simp only [hx, Res.bind_ok, Res.ok.injEq] at h
            rw [← h]
            exact (prepL_in files (prepT_in files f) inl body c r0 hc hx).cons _ (find_mem_names hfind)

def PCJIn (files : Files) (JC : PCJ) : Prop := ∀ inl name c, In files c → In files (JC inl name c)

mutual
theorem pcN_in (files : Files) {J : PJ} {JC : PCJ} (hJ : PJIn files J) (hJC : PCJIn files JC) (inl : List Name) :
    ∀ (n : Node) (c : Cache), In files c → In files (pcN files J JC inl n c)
  | .text _, c, hc => hc
  | .var _, c, hc => hc
  | .call _, c, hc => hc
  | .select, c, hc => hc
  | .elem t b, c, hc => by rw [pcN_elem]; exact pcL_in files hJ hJC inl b c hc
  | .cond cd b, c, hc => by rw [pcN_cond]; exact pcL_in files hJ hJC inl b c hc
  | .loop x xs b, c, hc => by rw [pcN_loop]; exact pcL_in files hJ hJC inl b c hc
  | .defn m b, c, hc => by rw [pcN_defn]; exact pcL_in files hJ hJC inl b c hc
  | .matchT t b, c, hc => by rw [pcN_matchT]; exact pcL_in files hJ hJC inl b c hc
  | .inlined b, c, hc => by rw [pcN_inlined]; exact pcL_in files hJ hJC inl b c hc
  | .include (.dyn ps) cls hasFb fb pos, c, hc => by rw [pcN_dyn]; exact pcL_in files hJ hJC inl fb c hc
  | .include (.static hh) cls hasFb fb pos, c, hc => by
    rw [pcN_static]
    cases resolve pos hh with
    | none => exact hc
    | some name =>
      simp only
      cases files.find name with
      | none => exact pcL_in files hJ hJC inl fb c hc
      | some f =>
        simp only
        by_cases hk : f.kind = cls
        · simp only [hk, ne_eq, not_true_eq_false, if_false]
          cases f.body with
          | none => exact hc
          | some body =>
            simp only
            by_cases hin : name ∈ inl
            · simp only [hin, if_true]; exact pcL_in files hJ hJC inl fb c hc
            · simp only [hin, if_false]; exact hJC _ _ _ hc
        · simp only [ne_eq, hk, not_false_eq_true, if_true]; exact hc
termination_by structural n => n
theorem pcL_in (files : Files) {J : PJ} {JC : PCJ} (hJ : PJIn files J) (hJC : PCJIn files JC) (inl : List Name) :
    ∀ (ns : List Node) (c : Cache), In files c → In files (pcL files J JC inl ns c)
  | [], c, hc => hc
  | n :: ns, c, hc => by
    rw [pcL_cons]
    cases hn : prepN files J inl n c with
    | fuel => exact pcN_in files hJ hJC inl n c hc
    | err e => exact pcN_in files hJ hJC inl n c hc
    | ok r1 => exact pcL_in files hJ hJC inl ns r1.2 (prepN_in files hJ inl n c r1 hc hn)
termination_by structural ns => ns
end

theorem pcT_in (files : Files) : ∀ f : Nat, PCJIn files (pcT files f)
  | 0 => fun _ _ _ hc => hc
  | f + 1 => by
    intro inl name c hc
    simp only [pcT]
    cases c.lookup name with
    | some b => exact hc
    | none =>
      simp only
      cases hfind : files.find name with
      | none => exact hc
      | some ff =>
        obtain ⟨k, fb⟩ := ff
        cases fb with
        | none => exact hc
        | some body =>
          simp only
          cases hx : prepL files (prepT files f) inl body c with
          | fuel => exact pcL_in files (prepT_in files f) (pcT_in files f) inl body c hc
          | err e => exact pcL_in files (prepT_in files f) (pcT_in files f) inl body c hc
          | ok r0 => exact (prepL_in files (prepT_in files f) inl body c r0 hc hx).cons _ (find_mem_names hfind)

theorem loadInl_in (files : Files) (name : Name) (cls : Kind) (c : Cache) (r : List Node × Cache) (hc : In files c)
    (h : loadInl files name cls c = .ok r) : In files r.2 := by
  simp only [loadInl] at h
  cases hfind : files.find name with
  | none => simp [hfind] at h
  | some f =>
    simp only [hfind] at h
    by_cases hk : f.kind = cls
    · simp only [hk, ne_eq, not_true_eq_false, if_false] at h
      cases hb : f.body with
      | none => simp [hb] at h
      | some body =>
        simp only [hb] at h
        exact prepT_in files _ _ _ _ _ hc h
    · simp [hk] at h

theorem loadInlC_in (files : Files) (name : Name) (cls : Kind) (c : Cache) (hc : In files c) :
    In files (loadInlC files name cls c) := by
  simp only [loadInlC]
  cases files.find name with
  | none => exact hc
  | some f =>
    simp only
    by_cases hk : f.kind = cls
    · simp only [hk, ne_eq, not_true_eq_false, if_false]
      cases f.body with
      | none => exact hc
      | some body => exact pcT_in files _ _ _ _ hc
    · simp only [ne_eq, hk, not_false_eq_true, if_true]; exact hc

theorem replayLoads_in (files : Files) : ∀ (t : List Load) (c : Cache), In files c → In files (replayLoads files c t)
  | [], c, hc => hc
  | a :: t, c, hc => by
    simp only [replayLoads]
    cases hx : loadInl files a.1 a.2 c with
    | fuel => exact replayLoads_in files t _ (loadInlC_in files a.1 a.2 c hc)
    | err e => exact replayLoads_in files t _ (loadInlC_in files a.1 a.2 c hc)
    | ok r => exact replayLoads_in files t _ (loadInl_in files a.1 a.2 c r hc hx)

/-! ## a non-increasing sequence of naturals is eventually constant -/

theorem antitone_const : ∀ (k : Nat) (μ : Nat → Nat), μ 0 ≤ k → (∀ f g, f ≤ g → μ g ≤ μ f) →
    ∃ f0, ∀ g, f0 ≤ g → μ g = μ f0
  | 0, μ, h0, hm => ⟨0, fun g _ => by have := hm 0 g (Nat.zero_le _); omega⟩
  | k + 1, μ, h0, hm => by
    by_cases hc : ∀ g, μ g = μ 0
    · exact ⟨0, fun g _ => hc g⟩
    · obtain ⟨g1, hg1⟩ := Classical.not_forall.mp hc
      have hk : μ g1 ≤ k := by have := hm 0 g1 (Nat.zero_le _); omega
      obtain ⟨f0, hf0⟩ := antitone_const k (fun f => μ (g1 + f)) hk (fun f g hfg => hm _ _ (by omega))
      refine ⟨g1 + f0, fun g hg => ?_⟩
      have h2 : μ (g1 + (g - g1)) = μ (g1 + f0) := hf0 (g - g1) (by omega)
      rwa [show g1 + (g - g1) = g by omega] at h2

/-- a family of caches over a file set that grows with the index is eventually constant (as sets of names) -/
theorem growing_caches_const (files : Files) (S : Nat → Cache) (hin : ∀ f, In files (S f))
    (hmono : ∀ f g, f ≤ g → Sub (S f) (S g)) : ∃ f0, ∀ g, f0 ≤ g → Sub (S g) (S f0) := by
  let μ : Nat → Nat := fun f => (files.names.filter fun n => decide (n ∉ (S f).map (·.1))).length
  have hμ : ∀ f g, f ≤ g → μ g ≤ μ f := by
    intro f g hfg
    apply filter_length_le
    intro x hx
    simp only [decide_eq_true_eq] at hx ⊢
    exact fun h => hx (hmono f g hfg x h)
  obtain ⟨f0, hf0⟩ := antitone_const (μ 0) μ (Nat.le_refl _) hμ
  refine ⟨f0, fun g hg n hn => ?_⟩
  apply Classical.byContradiction
  intro hnot
  have hlt : μ g < μ f0 := by
    apply filter_length_lt _ _ _ n _ _ _ (hin g n hn)
    · intro x hx
      simp only [decide_eq_true_eq] at hx ⊢
      exact fun h => hx (hmono f0 g hg x h)
    · simpa using hnot
    · simpa using hn
  have := hf0 g hg
  omega

end Genshi.Incl

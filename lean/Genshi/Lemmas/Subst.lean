/-
  Helper lemmas for C01: escaped text seen by the reader.
-/
import Genshi.Lemmas.Escape
import Genshi.Model.SubstRead
namespace Genshi.Subst
open Genshi.Escape Genshi.Str

theorem takeWhile_append_stop {α : Type} (p : α → Bool) (a b : List α)
    (ha : ∀ x ∈ a, p x = true) (hb : ∀ x, b.head? = some x → p x = false) :
    (a ++ b).takeWhile p = a := by
  induction a with
  | nil =>
    cases b with
    | nil => rfl
    | cons y ys => simp [List.takeWhile, hb y rfl]
  | cons x xs ih =>
    have hx : p x = true := ha x (by simp)
    simp only [List.cons_append, List.takeWhile, hx]
    rw [ih (fun y hy => ha y (List.mem_cons_of_mem _ hy))]

/-- what characters an escaped character can produce -/
theorem escC_chars (q : Bool) (c x : Char) (h : x ∈ escC q c) :
    x ≠ '<' ∧ x ≠ '>' ∧ (q = true → x ≠ '"') := by
  unfold escC at h
  by_cases h1 : c = '&'
  · subst h1; simp [amp] at h; rcases h with h | h | h | h | h <;> subst h <;> simp
  by_cases h2 : c = '<'
  · subst h2; simp [lt] at h; rcases h with h | h | h | h <;> subst h <;> simp
  by_cases h3 : c = '>'
  · subst h3; simp [gt] at h; rcases h with h | h | h | h <;> subst h <;> simp
  by_cases h4 : c = '"'
  · subst h4
    cases q
    · simp at h; subst h; simp
    · simp [qt] at h; rcases h with h | h | h | h | h <;> subst h <;> simp
  · simp [h1, h2, h3, h4] at h; subst h; exact ⟨h2, h3, fun _ => h4⟩

theorem escapeSpec_chars (q : Bool) (s : List Char) (x : Char) (h : x ∈ escapeSpec q s) :
    x ≠ '<' ∧ x ≠ '>' ∧ (q = true → x ≠ '"') := by
  unfold escapeSpec at h
  obtain ⟨c, _, hc⟩ := List.mem_flatMap.mp h
  exact escC_chars q c x hc

/-! ### `ampsOk` -/

theorem ampsOk_append_block (b rest : List Char) (hb : ∀ r, ampsOk (b ++ r) = ampsOk r) :
    ampsOk (b ++ rest) = ampsOk rest := hb rest

theorem ampsOk_escC (q : Bool) (c : Char) (rest : List Char) :
    ampsOk (escC q c ++ rest) = ampsOk rest := by
  unfold escC
  by_cases h1 : c = '&'
  · subst h1; simp [amp, ampsOk, entityFollows, List.isPrefixOf]
  by_cases h2 : c = '<'
  · subst h2; simp [lt, ampsOk, entityFollows, List.isPrefixOf]
  by_cases h3 : c = '>'
  · subst h3; simp [gt, ampsOk, entityFollows, List.isPrefixOf]
  by_cases h4 : c = '"'
  · subst h4; cases q <;> simp [qt, ampsOk, entityFollows, List.isPrefixOf]
  · simp [h1, h2, h3, h4, ampsOk]

theorem ampsOk_escapeSpec (q : Bool) (s rest : List Char) :
    ampsOk (escapeSpec q s ++ rest) = ampsOk rest := by
  induction s with
  | nil => simp [escapeSpec]
  | cons c cs ih =>
    simp only [escapeSpec, List.flatMap_cons, List.append_assoc] at ih ⊢
    rw [ampsOk_escC, ih]

/-- `ampsOk` says what its name promises: wherever the text is cut at an `&`, a reference follows -/
theorem ampsOk_spec (s : List Char) :
    ampsOk s = true ↔ ∀ pre post, s = pre ++ '&' :: post → entityFollows post = true := by
  induction s with
  | nil => simp [ampsOk]
  | cons c cs ih =>
    simp only [ampsOk, Bool.and_eq_true, Bool.or_eq_true, bne_iff_ne, ne_eq]
    constructor
    · rintro ⟨h1, h2⟩ pre post heq
      cases pre with
      | nil =>
        simp only [List.nil_append, List.cons.injEq] at heq
        obtain ⟨rfl, rfl⟩ := heq
        rcases h1 with h1 | h1
        · exact absurd rfl h1
        · exact h1
      | cons p ps =>
        simp only [List.cons_append, List.cons.injEq] at heq
        exact (ih.mp h2) ps post heq.2
    · intro h
      refine ⟨?_, ih.mpr fun pre post heq => h (c :: pre) post (by simp [heq])⟩
      by_cases hc : c = '&'
      · subst hc; exact Or.inr (h [] cs rfl)
      · exact Or.inl hc

end Genshi.Subst

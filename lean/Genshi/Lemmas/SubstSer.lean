/-
  C01 — the serializer's output is a sequence of raw tokens the reader accepts, and what the
  reader makes of it is the stream with its character data merged and decoded.
-/
import Genshi.Lemmas.SubstRead
import Genshi.Lemmas.SubstMixed
namespace Genshi.Subst
open Genshi.Escape Genshi.Str

/-- a `Markup` text the theorems can see through: escaped text (each character under either
    `quotes` setting).  This is what `escape(v)`, `Markup('…%s…') % v` without tags, `join`
    of plain strings … produce. -/
def SafeOk (s : List Char) : Prop := ∃ ps : List QChar, s = escapeMixed ps

def TextsOk (evs : List Ev) : Prop := ∀ s, Ev.text s true ∈ evs → SafeOk s

theorem isNameB_iff (t : Name) : isNameB t = true ↔ IsName t := by
  unfold isNameB IsName
  cases t with
  | nil => simp
  | cons c cs => simp

/-- the raw token a serializer token is written as (outside raw-text elements) -/
def rawOf : Tok → RTok
  | .text s true => .text s
  | .text s false => .text (escapePy false s)
  | .open t a => .open t (a.map fun p => (p.1, escapePy true p.2))
  | .empty t a => .empty t (a.map fun p => (p.1, escapePy true p.2))
  | .close t => .close t

def tokOkB (m : Method) : Tok → Bool
  | .text _ _ => true
  | .open t a => isNameB t && attrsOkB m a && !(noescapeElems m).contains t
  | .empty t a => isNameB t && attrsOkB m a && !(noescapeElems m).contains t
  | .close t => isNameB t

theorem attrText_eq (n : Name) (v : List Char) : attrText n v = attrRaw n (escapePy true v) := by
  simp [attrText, attrRaw, emitAttr]

theorem emitAttrM_plain (m : Method) (all : List (Name × List Char)) (n : Name) (v : List Char)
    (h : plainAttrName m n = true) : emitAttrM m all n v = attrRaw n (escapePy true v) := by
  cases m with
  | xml => simp [emitAttrM, attrText_eq]
  | xhtml =>
    simp only [plainAttrName, Bool.and_eq_true, Bool.not_eq_true', bne_iff_ne, ne_eq] at h
    obtain ⟨⟨hb, hl⟩, hs⟩ := h
    simp only [emitAttrM, hb, Bool.false_eq_true, ↓reduceIte, hl, decide_false, Bool.false_and, hs,
      attrText_eq]
  | html =>
    simp only [plainAttrName, Bool.and_eq_true, Bool.not_eq_true', bne_iff_ne, ne_eq] at h
    obtain ⟨⟨hb, hc⟩, hx⟩ := h
    simp only [emitAttrM, hb, Bool.false_eq_true, ↓reduceIte, hc, hx, attrText_eq]

theorem emitAttrs_plain_aux (m : Method) (all l : List (Name × List Char))
    (h : ∀ p ∈ l, plainAttrName m p.1 = true) :
    l.flatMap (fun p => emitAttrM m all p.1 p.2) = l.flatMap (fun p => attrRaw p.1 (escapePy true p.2)) := by
  induction l with
  | nil => rfl
  | cons p ps ih =>
    simp only [List.flatMap_cons]
    rw [emitAttrM_plain m all p.1 p.2 (h p (by simp)), ih fun q hq => h q (List.mem_cons_of_mem _ hq)]

theorem emitAttrs_plain (m : Method) (a : List (Name × List Char)) (h : attrsOkB m a = true) :
    emitAttrs m a = attrsRaw (a.map fun p => (p.1, escapePy true p.2)) := by
  unfold emitAttrs attrsRaw
  rw [List.flatMap_map]
  apply emitAttrs_plain_aux
  intro p hp
  have := (List.all_eq_true.mp h) p hp
  simp only [Bool.and_eq_true] at this
  exact this.2

/-- the serializer loop writes the raw tokens -/
theorem serToks_raw (m : Method) (toks : List Tok) (h : ∀ t ∈ toks, tokOkB m t = true) :
    serToks m false toks = (toks.map rawOf).flatMap (emitRTok m) := by
  induction toks with
  | nil => rfl
  | cons t ts ih =>
    have ht := h t (by simp)
    have ih' := ih fun x hx => h x (List.mem_cons_of_mem _ hx)
    cases t with
    | text s f =>
      cases f
      · simp [serToks, rawOf, emitRTok, emitText, ih']
      · simp [serToks, rawOf, emitRTok, ih']
    | close t =>
      simp [serToks, rawOf, emitRTok, emitClose, ih']
    | «open» t a =>
      simp only [tokOkB, Bool.and_eq_true, Bool.not_eq_true'] at ht
      simp only [serToks, ht.2, Bool.or_false, ih', List.map_cons, List.flatMap_cons, rawOf]
      congr 1
      simp [emitOpen, emitRTok, emitAttrs_plain m a ht.1.2]
    | empty t a =>
      simp only [tokOkB, Bool.and_eq_true, Bool.not_eq_true'] at ht
      simp only [serToks, ih', List.map_cons, List.flatMap_cons, rawOf]
      congr 1
      cases m with
      | xml => simp [emitEmpty, emitRTok, emitAttrs_plain _ a ht.1.2]
      | xhtml =>
        simp only [emitEmpty, emitRTok, emitAttrs_plain _ a ht.1.2, emitClose]
        split <;> simp
      | html =>
        simp only [emitEmpty, emitRTok, emitAttrs_plain _ a ht.1.2, emitClose]
        split <;> simp

/-! ### what the reader makes of it -/

theorem safeOk_no_lt (s : List Char) (h : SafeOk s) : ∀ c ∈ s, c ≠ '<' := by
  obtain ⟨ps, rfl⟩ := h
  intro c hc
  obtain ⟨p, _, hp⟩ := List.mem_flatMap.mp hc
  exact (escC_chars p.1 p.2 c hp).1

theorem rawAttrsOk_map (m : Method) (a : List (Name × List Char)) (h : attrsOkB m a = true) :
    RawAttrsOk (a.map fun p => (p.1, escapePy true p.2)) := by
  intro q hq
  obtain ⟨p, hp, rfl⟩ := List.mem_map.mp hq
  have := (List.all_eq_true.mp h) p hp
  simp only [Bool.and_eq_true] at this
  refine ⟨(isNameB_iff _).mp this.1, ?_⟩
  intro c hc
  simp only [escapePy_eq_spec] at hc
  exact (escapeSpec_chars true p.2 c hc).2.2 rfl

theorem rtokOk_rawOf (m : Method) (tok : Tok) (h : tokOkB m tok = true)
    (hs : ∀ s, tok = .text s true → SafeOk s) : RTokOk m (rawOf tok) := by
  cases tok with
  | text s f =>
    cases f
    · intro c hc
      simp only [rawOf, escapePy_eq_spec] at hc
      exact (escapeSpec_chars false s c hc).1
    · exact safeOk_no_lt s (hs s rfl)
  | close t => exact (isNameB_iff t).mp h
  | «open» t a =>
    simp only [tokOkB, Bool.and_eq_true, Bool.not_eq_true'] at h
    exact ⟨⟨(isNameB_iff t).mp h.1.1, rawAttrsOk_map m a h.1.2⟩, h.2⟩
  | empty t a =>
    simp only [tokOkB, Bool.and_eq_true, Bool.not_eq_true'] at h
    exact ⟨⟨(isNameB_iff t).mp h.1.1, rawAttrsOk_map m a h.1.2⟩, h.2⟩

theorem escapeMixed_nil : escapeMixed [] = [] := rfl

theorem flushText_mixed (pp : List QChar) : flushText (escapeMixed pp) = flushData (pp.map (·.2)) := by
  unfold flushText flushData
  rw [escapeMixed_isEmpty, unescape_escapeMixed]
  cases pp <;> simp

theorem decodeAttrs_escaped (a : List (Name × List Char)) :
    decodeAttrs (a.map fun p => (p.1, escapePy true p.2)) = a := by
  unfold decodeAttrs
  rw [List.map_map]
  conv => rhs; rw [← List.map_id a]
  apply List.map_congr_left
  intro p _
  simp [escapePy_eq_spec, unescape_escapeSpec]

theorem escapePy_false_mixed (s : List Char) :
    escapePy false s = escapeMixed (s.map fun c => (false, c)) := by
  rw [escapePy_eq_spec, escapeSpec_eq_mixed]

/-- reading the raw tokens of a token list = merging and decoding its character data -/
theorem absorb_coalesce (m : Method) (toks : List Tok)
    (hs : ∀ s, Tok.text s true ∈ toks → SafeOk s)
    (ho : ∀ t a, Tok.open t a ∈ toks → openOk m t = true) :
    ∀ (out : List Ev) (pp : List QChar),
      (absorbAll m (out, escapeMixed pp) (toks.map rawOf)).1 ++
        flushText (absorbAll m (out, escapeMixed pp) (toks.map rawOf)).2
      = out ++ coalesceGo (pp.map (·.2)) (toks.flatMap tokEvents) := by
  induction toks with
  | nil =>
    intro out pp
    simp [absorbAll, coalesceGo, flushText_mixed]
  | cons t ts ih =>
    intro out pp
    have hs' : ∀ s, Tok.text s true ∈ ts → SafeOk s := fun s h => hs s (List.mem_cons_of_mem _ h)
    have ho' : ∀ t a, Tok.open t a ∈ ts → openOk m t = true := fun t a h => ho t a (List.mem_cons_of_mem _ h)
    have ih' := ih hs' ho'
    simp only [List.map_cons, absorbAll, List.foldl_cons, List.flatMap_cons] at ih' ⊢
    cases t with
    | text s f =>
      cases f
      · simp only [rawOf, absorb, tokEvents, List.cons_append, List.nil_append, coalesceGo, textValue,
          Bool.false_eq_true, ↓reduceIte]
        rw [escapePy_false_mixed, ← escapeMixed_append]
        have := ih' out (pp ++ s.map fun c => (false, c))
        rw [this]
        simp [List.map_append, List.map_map, Function.comp_def]
      · obtain ⟨ps, rfl⟩ := hs s (by simp)
        simp only [rawOf, absorb, tokEvents, List.cons_append, List.nil_append, coalesceGo, textValue,
          ↓reduceIte]
        rw [← escapeMixed_append]
        have := ih' out (pp ++ ps)
        rw [this, unescape_escapeMixed]
        simp [List.map_append]
    | close t =>
      simp only [rawOf, absorb, tokEvents, List.cons_append, List.nil_append, coalesceGo]
      have := ih' (out ++ flushText (escapeMixed pp) ++ [.end_ t]) []
      rw [escapeMixed_nil] at this
      rw [this, flushText_mixed]
      simp
    | «open» t a =>
      have hop := ho t a (by simp)
      have hse : startEvents m t a = [.start t a] := by
        apply startEvents_nonvoid
        intro hm
        simpa [openOk, hm] using hop
      simp only [rawOf, absorb, tokEvents, List.cons_append, List.nil_append, coalesceGo,
        decodeAttrs_escaped, hse]
      have := ih' (out ++ flushText (escapeMixed pp) ++ [.start t a]) []
      rw [escapeMixed_nil] at this
      rw [this, flushText_mixed]
      simp
    | empty t a =>
      simp only [rawOf, absorb, tokEvents, List.cons_append, List.nil_append, coalesceGo,
        decodeAttrs_escaped]
      have := ih' (out ++ flushText (escapeMixed pp) ++ [.start t a, .end_ t]) []
      rw [escapeMixed_nil] at this
      rw [this, flushText_mixed]
      simp [flushData]

/-! ### EmptyTagFilter -/

def pendName (pend : Option (Name × List (Name × List Char))) : Option Name := pend.map (·.1)

def pendEvents (pend : Option (Name × List (Name × List Char))) : List Ev :=
  match pend with
  | some (t, a) => [.start t a]
  | none => []

/-- the filter loses nothing: its tokens stand for the events it was given -/
theorem emptyTags_events (m : Method) (evs : List Ev) :
    ∀ pend, emptyOkGo m (pendName pend) evs = true →
      (emptyTagsGo pend evs).flatMap tokEvents = pendEvents pend ++ evs := by
  induction evs with
  | nil =>
    intro pend h
    cases pend with
    | none => rfl
    | some p => simp [pendName, emptyOkGo] at h
  | cons e es ih =>
    intro pend h
    cases pend with
    | none =>
      cases e with
      | start t a =>
        simp only [pendName, Option.map_none, emptyOkGo] at h
        have := ih (some (t, a)) (by simpa [pendName] using h)
        simpa [emptyTagsGo, pendEvents] using this
      | end_ t =>
        simp only [pendName, Option.map_none, emptyOkGo] at h
        have := ih none (by simpa [pendName] using h)
        simp [emptyTagsGo, pendEvents, tokEvents] at this ⊢
        exact this
      | text s f =>
        simp only [pendName, Option.map_none, emptyOkGo] at h
        have := ih none (by simpa [pendName] using h)
        simp [emptyTagsGo, pendEvents, tokEvents] at this ⊢
        exact this
    | some p =>
      obtain ⟨t, a⟩ := p
      cases e with
      | start t' a' =>
        simp only [pendName, Option.map_some, emptyOkGo, Bool.and_eq_true] at h
        have := ih (some (t', a')) (by simpa [pendName] using h.2)
        simp [emptyTagsGo, pendEvents, tokEvents] at this ⊢
        exact this
      | end_ t' =>
        simp only [pendName, Option.map_some, emptyOkGo, Bool.and_eq_true, beq_iff_eq] at h
        have := ih none (by simpa [pendName] using h.2)
        simp [emptyTagsGo, pendEvents, tokEvents, h.1] at this ⊢
        exact this
      | text s f =>
        simp only [pendName, Option.map_some, emptyOkGo, Bool.and_eq_true] at h
        have := ih none (by simpa [pendName] using h.2)
        simp [emptyTagsGo, pendEvents, tokEvents] at this ⊢
        exact this

/-- every token the filter yields comes from an event (or the pending START) -/
theorem emptyTags_toks (m : Method) (evs : List Ev) :
    ∀ pend, emptyOkGo m (pendName pend) evs = true →
      (∀ e ∈ pendEvents pend ++ evs, evOkB m e = true) →
      ∀ tok ∈ emptyTagsGo pend evs,
        tokOkB m tok = true ∧
        (∀ s, tok = .text s true → Ev.text s true ∈ evs) ∧
        (∀ t a, tok = .open t a → openOk m t = true) := by
  induction evs with
  | nil => intro pend _ _ tok htok; cases pend <;> simp [emptyTagsGo] at htok
  | cons e es ih =>
    intro pend h hev tok htok
    cases pend with
    | none =>
      cases e with
      | start t a =>
        simp only [pendName, Option.map_none, emptyOkGo] at h
        simp only [emptyTagsGo] at htok
        have := ih (some (t, a)) (by simpa [pendName] using h)
          (by intro e he; exact hev e (by simpa [pendEvents] using he)) tok htok
        exact ⟨this.1, fun s hs => List.mem_cons_of_mem _ (this.2.1 s hs), this.2.2⟩
      | end_ t =>
        simp only [pendName, Option.map_none, emptyOkGo] at h
        simp only [emptyTagsGo, List.mem_cons] at htok
        rcases htok with rfl | htok
        · exact ⟨by simpa [tokOkB, evOkB] using hev (.end_ t) (by simp [pendEvents]), by simp, by simp⟩
        · have := ih none (by simpa [pendName] using h)
            (by intro e he; exact hev e (by simp [pendEvents] at he ⊢; exact Or.inr he)) tok htok
          exact ⟨this.1, fun s hs => List.mem_cons_of_mem _ (this.2.1 s hs), this.2.2⟩
      | text s f =>
        simp only [pendName, Option.map_none, emptyOkGo] at h
        simp only [emptyTagsGo, List.mem_cons] at htok
        rcases htok with rfl | htok
        · refine ⟨rfl, ?_, by simp⟩
          intro s' hs'
          simp only [Tok.text.injEq] at hs'
          obtain ⟨rfl, rfl⟩ := hs'
          simp
        · have := ih none (by simpa [pendName] using h)
            (by intro e he; exact hev e (by simp [pendEvents] at he ⊢; exact Or.inr he)) tok htok
          exact ⟨this.1, fun s hs => List.mem_cons_of_mem _ (this.2.1 s hs), this.2.2⟩
    | some p =>
      obtain ⟨t, a⟩ := p
      have hta : evOkB m (.start t a) = true := hev _ (by simp [pendEvents])
      cases e with
      | start t' a' =>
        simp only [pendName, Option.map_some, emptyOkGo, Bool.and_eq_true] at h
        simp only [emptyTagsGo, List.mem_cons] at htok
        rcases htok with rfl | htok
        · exact ⟨by simpa [tokOkB, evOkB] using hta, by simp, by intro t2 a2 he; simp at he; rw [← he.1]; exact h.1⟩
        · have := ih (some (t', a')) (by simpa [pendName] using h.2)
            (by intro e he; exact hev e (by simp [pendEvents] at he ⊢; exact Or.inr he)) tok htok
          exact ⟨this.1, fun s hs => List.mem_cons_of_mem _ (this.2.1 s hs), this.2.2⟩
      | end_ t' =>
        simp only [pendName, Option.map_some, emptyOkGo, Bool.and_eq_true] at h
        simp only [emptyTagsGo, List.mem_cons] at htok
        rcases htok with rfl | htok
        · exact ⟨by simpa [tokOkB, evOkB] using hta, by simp, by simp⟩
        · have := ih none (by simpa [pendName] using h.2)
            (by intro e he; exact hev e (by simp [pendEvents] at he ⊢; exact Or.inr (Or.inr he))) tok htok
          exact ⟨this.1, fun s hs => List.mem_cons_of_mem _ (this.2.1 s hs), this.2.2⟩
      | text s f =>
        simp only [pendName, Option.map_some, emptyOkGo, Bool.and_eq_true] at h
        simp only [emptyTagsGo, List.mem_cons] at htok
        rcases htok with rfl | rfl | htok
        · exact ⟨by simpa [tokOkB, evOkB] using hta, by simp, by intro t2 a2 he; simp at he; rw [← he.1]; exact h.1⟩
        · refine ⟨rfl, ?_, by simp⟩
          intro s' hs'
          simp only [Tok.text.injEq] at hs'
          obtain ⟨rfl, rfl⟩ := hs'
          simp
        · have := ih none (by simpa [pendName] using h.2)
            (by intro e he; exact hev e (by simp [pendEvents] at he ⊢; exact Or.inr (Or.inr he))) tok htok
          exact ⟨this.1, fun s hs => List.mem_cons_of_mem _ (this.2.1 s hs), this.2.2⟩

/-- **re-reading what the serializer wrote (no whitespace stripping)** gives the stream
    with its character data merged and decoded -/
theorem readDoc_serialize_nostrip (m : Method) (evs : List Ev)
    (hev : ∀ e ∈ evs, evOkB m e = true) (hsafe : TextsOk evs) (hnest : emptyOkGo m none evs = true) :
    readDoc m (serialize m false evs) = some (coalesce evs) := by
  have htoks := emptyTags_toks m evs none (by simpa [pendName] using hnest) (by simpa [pendEvents] using hev)
  have hraw := serToks_raw m (emptyTags evs) (fun t ht => (htoks t ht).1)
  simp only [serialize, Bool.false_eq_true, ↓reduceIte]
  rw [hraw, readDoc_rtoks]
  · have := absorb_coalesce m (emptyTags evs)
      (fun s hs => hsafe s ((htoks _ hs).2.1 s rfl))
      (fun t a ht => (htoks _ ht).2.2 t a rfl) [] []
    rw [escapeMixed_nil] at this
    have hev2 := emptyTags_events m evs none (by simpa [pendName] using hnest)
    rw [this]
    unfold emptyTags
    rw [hev2]
    simp [coalesce, pendEvents]
  · intro rt hrt
    obtain ⟨tok, htok, rfl⟩ := List.mem_map.mp hrt
    exact rtokOk_rawOf m tok (htoks tok htok).1 (fun s hs => hsafe s ((htoks tok htok).2.1 s hs))

end Genshi.Subst

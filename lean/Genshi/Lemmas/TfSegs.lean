/-
  The documented effect of each operation, stated on a marked stream cut into
  its contiguous selections (`Seg`): unmarked events, maximal runs of one mark,
  ENTER … EXIT brackets.  Every theorem has the form
  `op (flatSegs segs) = segs.flatMap (what the operation does to one segment)`,
  so what is not selected is literally unchanged.
-/
import Genshi.Lemmas.TfBuf
namespace Genshi.Tf

inductive Seg where
  | plain (x : MEv)
  | run (m : Mark) (p : MItem) (blk : MStream)
  | elem (e : MEv) (mid : MStream) (x : MEv)

def Seg.flat : Seg → MStream
  | .plain x => [(none, x)]
  | .run _ p blk => p :: blk
  | .elem e mid x => (some .enter, e) :: (mid ++ [(some .exit, x)])

def flatSegs : List Seg → MStream
  | [] => []
  | seg :: rest => seg.flat ++ flatSegs rest

def Seg.selected : Seg → Bool
  | .plain _ => false
  | _ => true

def Seg.Ok : Seg → Prop
  | .plain _ => True
  | .run m p blk => m ≠ .enter ∧ m ≠ .exit ∧ Uniform m (p :: blk)
  | .elem _ mid _ => Inner mid

/-- runs are maximal: a run is not directly followed by a run of the same mark -/
def headNotRun (m : Mark) : List Seg → Prop
  | .run m' _ _ :: _ => m' ≠ m
  | _ => True

def SegsOk : List Seg → Prop
  | [] => True
  | seg :: rest => seg.Ok ∧ (match seg with
      | .run m _ _ => headNotRun m rest
      | _ => True) ∧ SegsOk rest

theorem Inner.noExit {l : MStream} (h : Inner l) : NoExit l := fun p hp => (h p hp).2

theorem flat_elem_append (e x : MEv) (mid s : MStream) :
    (Seg.elem e mid x).flat ++ s = (some .enter, e) :: (mid ++ (some .exit, x) :: s) := by
  simp [Seg.flat]

section run
variable (pre post : MStream) (keep : Bool)

/-- at a selection boundary the inner loop pushes the event back and the outer loop resumes -/
theorem runGo_boundary (m : Mark) (hm : m ≠ .enter) :
    ∀ segs, SegsOk segs → headNotRun m segs →
      runGo pre post keep (.inRun m) (flatSegs segs) = post ++ runGo pre post keep .idle (flatSegs segs) := by
  intro segs hok hh
  cases segs with
  | nil => simp [flatSegs, runGo]
  | cons seg rest =>
    cases seg with
    | plain x =>
      have : ((none : Option Mark) = some m) = False := by simp
      simp [flatSegs, Seg.flat, runGo]
    | run m' p blk =>
      obtain ⟨⟨hne, _, hu⟩, _, _⟩ := hok
      have hmm : m' ≠ m := hh
      simp only [flatSegs, Seg.flat]
      rw [runGo_inRun_other pre post keep m m' hmm hne p blk _ hu,
        runGo_idle_block pre post keep m' hne p blk _ hu]
    | elem e mid x =>
      obtain ⟨hin, _, _⟩ := hok
      simp only [flatSegs, flat_elem_append]
      rw [runGo_inRun_elem pre post keep m hm e mid x _ hin.noExit,
        runGo_idle_elem pre post keep e mid x _ hin.noExit]

/-- what the shared loop does to one segment -/
def runSpec (seg : Seg) : MStream :=
  if seg.selected then pre ++ (K keep seg.flat ++ post) else seg.flat

/-- replace / before / after / wrap: every contiguous selection becomes
    `pre ++ (the selection, kept or dropped) ++ post`; nothing else changes -/
theorem runGo_segs : ∀ segs, SegsOk segs →
    runGo pre post keep .idle (flatSegs segs) = segs.flatMap (runSpec pre post keep) := by
  intro segs
  induction segs with
  | nil => intro _; simp [flatSegs, runGo]
  | cons seg rest ih =>
    intro hok
    obtain ⟨hseg, hadj, hrest⟩ := hok
    cases seg with
    | plain x =>
      simp [flatSegs, Seg.flat, runGo, runSpec, Seg.selected, ih hrest]
    | run m p blk =>
      obtain ⟨hne, _, hu⟩ := hseg
      simp only [flatSegs, Seg.flat]
      rw [runGo_idle_block pre post keep m hne p blk _ hu,
        runGo_boundary pre post keep m hne rest hrest hadj, ih hrest]
      simp [runSpec, Seg.selected, Seg.flat]
    | elem e mid x =>
      simp only [flatSegs, flat_elem_append]
      rw [runGo_idle_elem pre post keep e mid x _ (Inner.noExit hseg), ih hrest]
      simp [runSpec, Seg.selected, Seg.flat]

end run

/-! ### element-only operations -/

/-- segment-wise description of an element-only operation -/
def elemSpec (g : MEv → MStream → MEv → MStream) : Seg → MStream
  | .elem e mid x => g e mid x
  | seg => seg.flat

/-- an operation that passes everything but ENTER … EXIT brackets through -/
theorem segs_elem_spec (f : MStream → MStream) (g : MEv → MStream → MEv → MStream)
    (hnil : f [] = [])
    (hinner : ∀ l s, Inner l → f (l ++ s) = l ++ f s)
    (helem : ∀ e mid x s, Inner mid →
      f ((some .enter, e) :: (mid ++ (some .exit, x) :: s)) = g e mid x ++ f s) :
    ∀ segs, SegsOk segs → f (flatSegs segs) = segs.flatMap (elemSpec g) := by
  intro segs
  induction segs with
  | nil => intro _; simpa [flatSegs] using hnil
  | cons seg rest ih =>
    intro hok
    obtain ⟨hseg, _, hrest⟩ := hok
    cases seg with
    | plain x =>
      have : Inner (Seg.plain x).flat := by intro p hp; simp [Seg.flat] at hp; simp [hp]
      rw [flatSegs, List.flatMap_cons, hinner _ _ this, ih hrest]; rfl
    | run m p blk =>
      obtain ⟨hne, hnx, hu⟩ := hseg
      have : Inner (Seg.run m p blk).flat := Inner.ofUniform hne hnx hu
      rw [flatSegs, List.flatMap_cons, hinner _ _ this, ih hrest]; rfl
    | elem e mid x =>
      rw [flatSegs, List.flatMap_cons, flat_elem_append, helem e mid x _ hseg, ih hrest]; rfl

theorem unwrap_segs : ∀ segs, SegsOk segs →
    unwrap (flatSegs segs) = segs.flatMap (elemSpec (fun _ mid _ => mid)) :=
  segs_elem_spec unwrap (fun _ mid _ => mid) rfl
    (fun l s h => by rw [unwrap_append, unwrap_inner h])
    (fun e mid x s h => unwrap_elem e x mid s h)

theorem empty_segs : ∀ segs, SegsOk segs →
    empty (flatSegs segs) = segs.flatMap (elemSpec (fun e _ x => [(some .enter, e), (some .exit, x)])) :=
  segs_elem_spec empty (fun e _ x => [(some .enter, e), (some .exit, x)]) rfl
    (fun l s h => emptyGo_inner l s h)
    (fun e mid x s h => by unfold empty; rw [empty_elem e x mid s h]; simp)

theorem prepend_segs (c : List MEv) : ∀ segs, SegsOk segs →
    prepend c (flatSegs segs) = segs.flatMap (elemSpec (fun e mid x => (some .enter, e) :: ((inj c ++ mid) ++ [(some .exit, x)]))) :=
  segs_elem_spec (prepend c) (fun e mid x => (some .enter, e) :: ((inj c ++ mid) ++ [(some .exit, x)])) rfl
    (fun l s h => prepend_inner c l s h)
    (fun e mid x s h => by rw [prepend_elem c e x mid s h]; simp)

theorem append_segs (c : List MEv) : ∀ segs, SegsOk segs →
    append c (flatSegs segs) = segs.flatMap (elemSpec (fun e mid x => (some .enter, e) :: ((mid ++ inj c) ++ [(some .exit, x)]))) :=
  segs_elem_spec (append c) (fun e mid x => (some .enter, e) :: ((mid ++ inj c) ++ [(some .exit, x)])) rfl
    (fun l s h => appendGo_inner c l s h)
    (fun e mid x s h => by unfold append; rw [append_elem c e x mid s h]; simp)

theorem rename_segs (n : QName) : ∀ segs, SegsOk segs →
    rename n (flatSegs segs) = segs.flatMap (elemSpec (fun e mid x => renameEv n (some .enter, e) :: (mid ++ [renameEv n (some .exit, x)]))) :=
  segs_elem_spec (rename n)
    (fun e mid x => renameEv n (some .enter, e) :: (mid ++ [renameEv n (some .exit, x)])) rfl
    (fun l s h => by
      have : rename n (l ++ s) = rename n l ++ rename n s := by simp [rename]
      rw [this, rename_inner n h])
    (fun e mid x s h => by
      have h1 : rename n ((some Mark.enter, e) :: (mid ++ (some Mark.exit, x) :: s)) =
          renameEv n (some .enter, e) :: (rename n mid ++ renameEv n (some .exit, x) :: rename n s) := by
        simp [rename]
      rw [h1, rename_inner n h]; simp)

theorem setAttr_inner (n : QName) (v : Option Str) {l : MStream} (h : Inner l) : setAttr n v l = l := by
  unfold setAttr
  induction l with
  | nil => rfl
  | cons p l ih =>
    obtain ⟨m, x⟩ := p
    have h1 : m ≠ some .enter := (h (m, x) (by simp)).1
    have : attrEv n v (m, x) = (m, x) := by
      rcases m with _ | m
      · rfl
      · cases m <;> first | rfl | exact absurd rfl h1
    rw [List.map_cons, this, ih h.tail]

theorem setAttr_segs (n : QName) (v : Option Str) : ∀ segs, SegsOk segs →
    setAttr n v (flatSegs segs) = segs.flatMap (elemSpec (fun e mid x => attrEv n v (some .enter, e) :: (mid ++ [(some .exit, x)]))) :=
  segs_elem_spec (setAttr n v)
    (fun e mid x => attrEv n v (some .enter, e) :: (mid ++ [(some .exit, x)])) rfl
    (fun l s h => by
      have : setAttr n v (l ++ s) = setAttr n v l ++ setAttr n v s := by simp [setAttr]
      rw [this, setAttr_inner n v h])
    (fun e mid x s h => by
      have h1 : setAttr n v ((some Mark.enter, e) :: (mid ++ (some Mark.exit, x) :: s)) =
          attrEv n v (some .enter, e) :: (setAttr n v mid ++ attrEv n v (some .exit, x) :: setAttr n v s) := by
        simp [setAttr]
      have h2 : attrEv n v (some Mark.exit, x) = (some .exit, x) := rfl
      rw [h1, setAttr_inner n v h, h2]; simp)

/-! ### remove -/

/-- without attribute selections removal is literally "drop what is marked" -/
theorem remove_filter (s : MStream) (h : ∀ p ∈ s, p.1 ≠ some .attr) :
    remove s = s.filter (fun p => p.1.isNone) := by
  unfold remove
  induction s with
  | nil => rfl
  | cons p s ih =>
    obtain ⟨m, x⟩ := p
    have h1 : m ≠ some .attr := h (m, x) (by simp)
    have ih' := ih (fun q hq => h q (by simp [hq]))
    rcases m with _ | m
    · simp [removeGo, ih']
    · cases m <;> first | (exact absurd rfl h1) | simp [removeGo, ih']

/-- an attribute selection: the pseudo-event goes, the attribute is taken off its element -/
theorem remove_attr_sel (tag t : QName) (a at_ : AttrList) (ha : a ≠ []) (s : MStream) :
    remove ((some .attr, .attr tag a) :: (none, .ev (.start t at_)) :: s) =
      (none, .ev (.start t (attrsSub at_ (a.map (·.1))))) :: remove s := by
  cases a with
  | nil => exact absurd rfl ha
  | cons p a => simp [remove, removeGo, attrNames, MEv.isStart, stripAttrs]


/-! ### the output of a select is a list of such segments -/

theorem segs_cons_marked (m : Mark) (x : MEv) (hne : m ≠ .enter) (hnx : m ≠ .exit) :
    ∀ segs, SegsOk segs → ∃ segs', SegsOk segs' ∧ flatSegs segs' = (some m, x) :: flatSegs segs := by
  intro segs hok
  cases segs with
  | nil => exact ⟨[.run m (some m, x) []], ⟨⟨hne, hnx, by intro p hp; simp at hp; simp [hp]⟩, trivial, trivial⟩, by simp [flatSegs, Seg.flat]⟩
  | cons seg rest =>
    by_cases hrun : ∃ p blk, seg = .run m p blk
    · obtain ⟨p, blk, rfl⟩ := hrun
      obtain ⟨⟨_, _, hu⟩, hadj, hrest⟩ := hok
      refine ⟨.run m (some m, x) (p :: blk) :: rest, ⟨⟨hne, hnx, ?_⟩, hadj, hrest⟩, by simp [flatSegs, Seg.flat]⟩
      intro q hq
      rcases List.mem_cons.mp hq with rfl | hq
      · rfl
      · exact hu q hq
    · refine ⟨.run m (some m, x) [] :: seg :: rest, ⟨⟨hne, hnx, by intro p hp; simp at hp; simp [hp]⟩, ?_, hok⟩,
        by simp [flatSegs, Seg.flat]⟩
      cases seg with
      | run m' p blk =>
        intro h; exact hrun ⟨p, blk, by rw [h]⟩
      | _ => trivial

theorem select_segs_aux : ∀ (n : Nat) (s : MStream) (rs : List Res) (outer : List QName),
    s.length ≤ n → balance outer (unmark s) = some [] → selOk 0 rs s = true →
    ∃ segs, SegsOk segs ∧ selectGo 0 rs s = flatSegs segs := by
  intro n
  induction n with
  | zero =>
    intro s rs outer hl _ _
    have : s = [] := List.length_eq_zero_iff.mp (Nat.le_zero.mp hl)
    subst this
    exact ⟨[], trivial, by simp [selectGo, flatSegs]⟩
  | succ n ih =>
    intro s rs outer hl hb hok
    cases s with
    | nil => exact ⟨[], trivial, by simp [selectGo, flatSegs]⟩
    | cons p s =>
      obtain ⟨m, x⟩ := p
      have hl' : s.length ≤ n := by simpa using hl
      obtain ⟨st', hb'⟩ := balance_tail hb
      have plainCase : ∀ rs', selOk 0 rs' s = true →
          ∃ segs, SegsOk segs ∧ (none, x) :: selectGo 0 rs' s = flatSegs segs := by
        intro rs' h
        obtain ⟨segs, h1, h2⟩ := ih s rs' st' hl' hb' h
        exact ⟨.plain x :: segs, ⟨trivial, trivial, h1⟩, by simp [flatSegs, Seg.flat, h2]⟩
      have markedCase : ∀ rs' (m' : Mark), m' ≠ .enter → m' ≠ .exit → selOk 0 rs' s = true →
          ∀ y, ∃ segs, SegsOk segs ∧ (some m', y) :: selectGo 0 rs' s = flatSegs segs := by
        intro rs' m' h1 h2 h y
        obtain ⟨segs, hs1, hs2⟩ := ih s rs' st' hl' hb' h
        obtain ⟨segs', hs3, hs4⟩ := segs_cons_marked m' y h1 h2 segs hs1
        exact ⟨segs', hs3, by rw [hs4, hs2]⟩
      cases m with
      | none =>
        simp only [selOk] at hok
        simpa [selectGo] using plainCase rs hok
      | some m =>
        simp only [selOk] at hok
        cases hr : rs.headD .none with
        | none =>
          simp only [hr] at hok
          simp only [selectGo, hr]; exact plainCase _ hok
        | attrs a =>
          simp only [hr] at hok
          simp only [selectGo, hr]
          obtain ⟨segs, h1, h2⟩ := plainCase _ hok
          obtain ⟨segs', h3, h4⟩ := segs_cons_marked .attr (.attr (attrTag x) a) (by decide) (by decide) segs h1
          exact ⟨segs', h3, by rw [h4, h2]⟩
        | self =>
          simp only [hr, Bool.and_eq_true] at hok
          simp only [selectGo, hr]; exact markedCase _ .outside (by decide) (by decide) hok.2 x
        | event e => simp only [hr] at hok; exact absurd hok (by decide)
        | text t => simp only [hr] at hok; exact absurd hok (by decide)
        | hit =>
          simp only [hr, Bool.and_eq_true, Bool.not_eq_true'] at hok
          by_cases hx : x.isStart = true
          · simp only [hx, ↓reduceIte] at hok
            cases x with
            | attr t a => simp [MEv.isStart] at hx
            | brk => simp [MEv.isStart] at hx
            | ev e =>
              cases e with
              | start t a =>
                have hb2 : balance ([] ++ t :: outer) (unmark s) = some [] := by
                  simpa [unmark, balance] using hb
                obtain ⟨mid, m', rest, e1, e2, e3, e4, e5, e6⟩ := select_sub rs.tail s [] t outer hb2
                have hlr : rest.length ≤ n := by
                  have : s.length = mid.length + (rest.length + 1) := by rw [e1]; simp
                  omega
                simp only [List.length_nil, Nat.zero_add] at e2 e3 e4
                rw [e4] at hok
                obtain ⟨segs, h1, h2⟩ := ih rest rs.tail outer hlr e6 hok.2
                refine ⟨.elem (.ev (.start t a)) (mid.map fun p => (some Mark.inside, p.2)) (.ev (.end_ t)) :: segs,
                  ⟨?_, trivial, h1⟩, ?_⟩
                · intro p hp
                  simp at hp
                  obtain ⟨_, _, _, rfl⟩ := hp
                  simp
                · simp only [selectGo, hr, MEv.isStart, ↓reduceIte, e2, flatSegs, flat_elem_append, h2]
              | _ => simp [MEv.isStart] at hx
          · have hx' : x.isStart = false := by simpa using hx
            simp only [hx', Bool.false_eq_true, ↓reduceIte] at hok
            simp only [selectGo, hr, hx', Bool.false_eq_true, ↓reduceIte]
            exact markedCase _ .outside (by decide) (by decide) hok.2 x

/-- after a `select` on a well-nested stream the marked stream is a list of segments:
    the per-operation theorems above apply to it -/
theorem select_segs (rs : List Res) (s : MStream) (hwn : WellNested (unmark s))
    (hok : selOk 0 rs s = true) : ∃ segs, SegsOk segs ∧ selectGo 0 rs s = flatSegs segs :=
  select_segs_aux s.length s rs [] (Nat.le_refl _) hwn hok

end Genshi.Tf

/-
  C11: one request on a loader with an arbitrary cache, marker-free inline mode (`Mode.inlineU`, the code as
  it is) against the marked one (`Mode.inlineM`, the mode of the simulation): same results, the marker-free
  mode needing no more fuel; run-time mode is monotone in the fuel.  Used for the sequence theorems.
-/
import Genshi.Lemmas.InclErase
namespace Genshi.Incl

/-- the body of `renderOn` -/
def runOn (m : Mode) (files : Files) (fuel : Nat) (c : Cache) (q : Req) : R :=
  (loadT m files q.1 q.2.1 { St.init q.2.2 with cache := c }).bind fun r =>
    renderL m files (render m files fuel) (.ofKind q.2.1) r.1 r.2

theorem renderOn_def (m : Mode) (files : Files) (fuel : Nat) (c : Cache) (q : Req) :
    renderOn m files fuel c q =
      match runOn m files fuel c q with
      | .ok r => (.ok r.1, r.2.cache)
      | .err e => (.err e, c)
      | .fuel => (.fuel, c) := rfl

theorem renderOn_fst (m : Mode) (files : Files) (fuel : Nat) (c : Cache) (q : Req) :
    (renderOn m files fuel c q).1 = (runOn m files fuel c q).map (·.1) := by
  rw [renderOn_def]
  cases runOn m files fuel c q <;> rfl

theorem runOn_down (files : Files) (fuel : Nat) (c : Cache) (q : Req) :
    Le (mapE (runOn .inlineM files fuel c q)) (runOn .inlineU files fuel c q) := by
  have hload := loadT_erase files q.1 q.2.1 { St.init q.2.2 with cache := c }
  have hinit : eraseSt { St.init q.2.2 with cache := c } = { St.init q.2.2 with cache := c } := rfl
  rw [hinit] at hload
  simp only [runOn, hload]
  cases hl : loadT .inlineM files q.1 q.2.1 { St.init q.2.2 with cache := c } with
  | fuel => exact .inl rfl
  | err e => exact .inr rfl
  | ok p =>
    simp only [Res.bind_ok, Res.map_ok]
    have hd := erase_down files (fuel + 1) (.ofKind q.2.1) p.1 p.2
    rw [render_succ, render_succ] at hd
    exact hd

/-- a result of the marked mode is the result of the marker-free mode with the same fuel — outcome and cache -/
theorem renderOn_U_of_M (files : Files) (fuel : Nat) (c : Cache) (q : Req)
    (h : (renderOn .inlineM files fuel c q).1 ≠ .fuel) :
    renderOn .inlineU files fuel c q = renderOn .inlineM files fuel c q := by
  have hd := runOn_down files fuel c q
  rw [renderOn_def] at h
  rw [renderOn_def, renderOn_def]
  cases hm : runOn .inlineM files fuel c q with
  | fuel => simp [hm] at h
  | err e =>
    rw [hm] at hd
    rcases hd with hd | hd
    · simp at hd
    · rw [← hd]; rfl
  | ok r =>
    rw [hm] at hd
    rcases hd with hd | hd
    · simp [mapE, Res.map] at hd
    · rw [← hd]; rfl

theorem runOn_up (files : Files) (fuel : Nat) (c : Cache) (q : Req) :
    Up (runOn .inlineU files fuel c q) (fun g => runOn .inlineM files g c q) := by
  have hload := loadT_erase files q.1 q.2.1 { St.init q.2.2 with cache := c }
  have hinit : eraseSt { St.init q.2.2 with cache := c } = { St.init q.2.2 with cache := c } := rfl
  rw [hinit] at hload
  simp only [runOn, hload]
  cases hl : loadT .inlineM files q.1 q.2.1 { St.init q.2.2 with cache := c } with
  | fuel => exact .inl rfl
  | err e => exact .inr ⟨0, .err e, fun _ _ => rfl, rfl⟩
  | ok p =>
    simp only [Res.bind_ok, Res.map_ok]
    have hu := erase_up files (fuel + 1) (.ofKind q.2.1) p.1 p.2
    rw [render_succ] at hu
    rcases hu with hu | ⟨g0, y, hy, hm⟩
    · exact .inl hu
    · refine .inr ⟨g0, y, fun g hg => ?_, hm⟩
      have := hy (g + 1) (by omega)
      simp only [render_succ] at this
      exact this

/-- a result of the marker-free mode is the result of the marked mode with enough fuel — outcome and cache -/
theorem renderOn_M_of_U (files : Files) (fuel : Nat) (c : Cache) (q : Req)
    (h : (renderOn .inlineU files fuel c q).1 ≠ .fuel) :
    ∃ g0, ∀ g, g0 ≤ g → renderOn .inlineM files g c q = renderOn .inlineU files fuel c q := by
  rw [renderOn_fst] at h
  rcases runOn_up files fuel c q with hu | ⟨g0, y, hy, hm⟩
  · rw [hu] at h; exact absurd rfl h
  · refine ⟨g0, fun g hg => ?_⟩
    have h2 := hy g hg
    simp only at h2
    rw [renderOn_def, renderOn_def, h2, ← hm]
    cases y <;> rfl

theorem runOn_le (m : Mode) (files : Files) {f g : Nat} (hfg : f ≤ g) (c : Cache) (q : Req) :
    Le (runOn m files f c q) (runOn m files g c q) :=
  Le.bind (Le.refl _) fun r => renderL_le m files (render_le m files hfg) r.1 (.ofKind q.2.1) r.2

/-- fuel is only a bound, for a request on any loader state -/
theorem renderOn_mono (m : Mode) (files : Files) {f g : Nat} (hfg : f ≤ g) (c : Cache) (q : Req) (x : Res (List Ev))
    (h : (renderOn m files f c q).1 = x) (hx : x ≠ .fuel) : (renderOn m files g c q).1 = x := by
  rw [renderOn_fst] at h ⊢
  rcases runOn_le m files hfg c q with hl | hl
  · rw [hl] at h; exact absurd h.symm hx
  · rw [← hl]; exact h

end Genshi.Incl

/-
  C13 / C03 — statement mode: the rewriting loses nothing.  `unxf (ml ops s e) = e` for every
  instance of the generic load mapper (whatever the decisions are: a load is either kept or wrapped
  into `_lookup_name(__data__, 'x')`), and `unxfB (xsB L ss).1 = ss` for the statement transformer.
-/
import Genshi.Model.PyStmtX
import Genshi.Lemmas.PyUnxf
namespace Genshi.Py

variable {σ : Type} (ops : NameOps σ)

theorem unxf_loadOf (s : σ) (id : Str) : unxf (loadOf ops s id) = .name id := by
  unfold loadOf
  split
  · rfl
  · show collapse (.call (unxf (.name cs!"_lookup_name")) (unxfL [.name cs!"__data__", strConst id]) (unxfL [])) = _
    exact collapse_name id

mutual
theorem unxf_ml : ∀ (e : PyExpr) (s : σ), noLookup e = true → unxf (ml ops s e) = e
  | .name id, s, _ => by simp only [ml]; exact unxf_loadOf ops s id
  | .const _, _, _ => rfl
  | .boolOp op vs, s, h => by simp only [noLookup] at h; simp [ml, unxf, unxf_mlL vs s h]
  | .binOp l op r, s, h => by
      simp only [noLookup, Bool.and_eq_true] at h; simp [ml, unxf, unxf_ml l s h.1, unxf_ml r s h.2]
  | .unaryOp op e, s, h => by simp only [noLookup] at h; simp [ml, unxf, unxf_ml e s h]
  | .lambda po ar va ko ka body, s, h => by
      simp only [noLookup, Bool.and_eq_true] at h
      obtain ⟨⟨⟨⟨⟨h1, h2⟩, h3⟩, h4⟩, h5⟩, h6⟩ := h
      simp [ml, unxf, unxf_mlL po s h1, unxf_mlL ar s h2, unxf_mlO va s h3, unxf_mlL ko s h4, unxf_mlO ka s h5,
        unxf_ml body _ h6]
  | .ifExp t b o, s, h => by
      simp only [noLookup, Bool.and_eq_true] at h
      simp [ml, unxf, unxf_ml t s h.1.1, unxf_ml b s h.1.2, unxf_ml o s h.2]
  | .dict items, s, h => by simp only [noLookup] at h; simp [ml, unxf, unxf_mlL items s h]
  | .listComp elt gens, s, h => by
      simp only [noLookup, Bool.and_eq_true] at h
      simp [ml, unxf, unxf_ml elt _ h.1.2, unxf_mlGens gens s _ h.2]
  | .genExp elt gens, s, h => by
      simp only [noLookup, Bool.and_eq_true] at h
      simp [ml, unxf, unxf_ml elt _ h.1.2, unxf_mlGens gens s _ h.2]
  | .yield_ v, s, h => by simp only [noLookup] at h; simp [ml, unxf, unxf_mlO v s h]
  | .compare l rest, s, h => by
      simp only [noLookup, Bool.and_eq_true] at h; simp [ml, unxf, unxf_ml l s h.1, unxf_mlL rest s h.2]
  | .call f args kws, s, h => by
      simp only [noLookup, Bool.and_eq_true] at h
      simp only [ml, unxf, unxf_ml f s h.1.1.2, unxf_mlL args s h.1.2, unxf_mlL kws s h.2]
      exact collapse_plain f args kws h.1.1.1
  | .attribute v a, s, h => by simp only [noLookup] at h; simp [ml, unxf, unxf_ml v s h]
  | .subscript v sl, s, h => by
      simp only [noLookup, Bool.and_eq_true] at h; simp [ml, unxf, unxf_ml v s h.1, unxf_ml sl s h.2]
  | .slice l u st, s, h => by
      simp only [noLookup, Bool.and_eq_true] at h
      simp [ml, unxf, unxf_mlO l s h.1.1, unxf_mlO u s h.1.2, unxf_mlO st s h.2]
  | .starred e, s, h => by simp only [noLookup] at h; simp [ml, unxf, unxf_ml e s h]
  | .list elts, s, h => by simp only [noLookup] at h; simp [ml, unxf, unxf_mlL elts s h]
  | .tuple elts, s, h => by simp only [noLookup] at h; simp [ml, unxf, unxf_mlL elts s h]
  | .unsupported _, _, _ => rfl
  | .keyword n v, s, h => by simp only [noLookup] at h; simp [ml, unxf, unxf_ml v s h]
  | .comp t it ifs a, s, h => by
      simp only [noLookup, Bool.and_eq_true] at h
      simp [ml, unxf, unxf_mlT t s h.1.1, unxf_ml it s h.1.2, unxf_mlL ifs s h.2]
  | .param n ann d, s, h => by
      simp only [noLookup, Bool.and_eq_true] at h; simp [ml, unxf, unxf_mlO ann s h.1, unxf_mlO d s h.2]
  | .dictItem k v, s, h => by
      simp only [noLookup, Bool.and_eq_true] at h; simp [ml, unxf, unxf_mlO k s h.1, unxf_ml v s h.2]
  | .cmpRhs op e, s, h => by simp only [noLookup] at h; simp [ml, unxf, unxf_ml e s h]
theorem unxf_mlL : ∀ (es : List PyExpr) (s : σ), noLookupL es = true → unxfL (mlL ops s es) = es
  | [], _, _ => rfl
  | e :: es, s, h => by
      simp only [noLookupL, Bool.and_eq_true] at h; simp [mlL, unxfL, unxf_ml e s h.1, unxf_mlL es s h.2]
theorem unxf_mlO : ∀ (o : Option PyExpr) (s : σ), noLookupO o = true → unxfO (mlO ops s o) = o
  | none, _, _ => rfl
  | some e, s, h => by simp only [noLookupO] at h; simp [mlO, unxfO, unxf_ml e s h]
theorem unxf_mlGens : ∀ (gens : List PyExpr) (s0 s1 : σ), noLookupL gens = true →
    unxfL (mlGens ops s0 s1 gens) = gens
  | [], _, _, _ => rfl
  | .comp t it ifs a :: r, s0, s1, h => by
      simp only [noLookupL, noLookup, Bool.and_eq_true] at h
      simp [mlGens, unxfL, unxf, unxf_mlT t s1 h.1.1.1, unxf_ml it s0 h.1.1.2, unxf_mlL ifs s1 h.1.2,
        unxf_mlGens r s1 s1 h.2]
  | .name _ :: r, s0, s1, h => by
      simp only [noLookupL, Bool.and_eq_true] at h
      simp only [mlGens, unxfL]; rw [unxf_ml _ s1 h.1, unxf_mlGens r s1 s1 h.2]
  | .const _ :: r, s0, s1, h => by
      simp only [noLookupL, Bool.and_eq_true] at h
      simp only [mlGens, unxfL]; rw [unxf_ml _ s1 h.1, unxf_mlGens r s1 s1 h.2]
  | .boolOp _ _ :: r, s0, s1, h => by
      simp only [noLookupL, Bool.and_eq_true] at h
      simp only [mlGens, unxfL]; rw [unxf_ml _ s1 h.1, unxf_mlGens r s1 s1 h.2]
  | .binOp _ _ _ :: r, s0, s1, h => by
      simp only [noLookupL, Bool.and_eq_true] at h
      simp only [mlGens, unxfL]; rw [unxf_ml _ s1 h.1, unxf_mlGens r s1 s1 h.2]
  | .unaryOp _ _ :: r, s0, s1, h => by
      simp only [noLookupL, Bool.and_eq_true] at h
      simp only [mlGens, unxfL]; rw [unxf_ml _ s1 h.1, unxf_mlGens r s1 s1 h.2]
  | .lambda _ _ _ _ _ _ :: r, s0, s1, h => by
      simp only [noLookupL, Bool.and_eq_true] at h
      simp only [mlGens, unxfL]; rw [unxf_ml _ s1 h.1, unxf_mlGens r s1 s1 h.2]
  | .ifExp _ _ _ :: r, s0, s1, h => by
      simp only [noLookupL, Bool.and_eq_true] at h
      simp only [mlGens, unxfL]; rw [unxf_ml _ s1 h.1, unxf_mlGens r s1 s1 h.2]
  | .dict _ :: r, s0, s1, h => by
      simp only [noLookupL, Bool.and_eq_true] at h
      simp only [mlGens, unxfL]; rw [unxf_ml _ s1 h.1, unxf_mlGens r s1 s1 h.2]
  | .listComp _ _ :: r, s0, s1, h => by
      simp only [noLookupL, Bool.and_eq_true] at h
      simp only [mlGens, unxfL]; rw [unxf_ml _ s1 h.1, unxf_mlGens r s1 s1 h.2]
  | .genExp _ _ :: r, s0, s1, h => by
      simp only [noLookupL, Bool.and_eq_true] at h
      simp only [mlGens, unxfL]; rw [unxf_ml _ s1 h.1, unxf_mlGens r s1 s1 h.2]
  | .yield_ _ :: r, s0, s1, h => by
      simp only [noLookupL, Bool.and_eq_true] at h
      simp only [mlGens, unxfL]; rw [unxf_ml _ s1 h.1, unxf_mlGens r s1 s1 h.2]
  | .compare _ _ :: r, s0, s1, h => by
      simp only [noLookupL, Bool.and_eq_true] at h
      simp only [mlGens, unxfL]; rw [unxf_ml _ s1 h.1, unxf_mlGens r s1 s1 h.2]
  | .call _ _ _ :: r, s0, s1, h => by
      simp only [noLookupL, Bool.and_eq_true] at h
      simp only [mlGens, unxfL]; rw [unxf_ml _ s1 h.1, unxf_mlGens r s1 s1 h.2]
  | .attribute _ _ :: r, s0, s1, h => by
      simp only [noLookupL, Bool.and_eq_true] at h
      simp only [mlGens, unxfL]; rw [unxf_ml _ s1 h.1, unxf_mlGens r s1 s1 h.2]
  | .subscript _ _ :: r, s0, s1, h => by
      simp only [noLookupL, Bool.and_eq_true] at h
      simp only [mlGens, unxfL]; rw [unxf_ml _ s1 h.1, unxf_mlGens r s1 s1 h.2]
  | .slice _ _ _ :: r, s0, s1, h => by
      simp only [noLookupL, Bool.and_eq_true] at h
      simp only [mlGens, unxfL]; rw [unxf_ml _ s1 h.1, unxf_mlGens r s1 s1 h.2]
  | .starred _ :: r, s0, s1, h => by
      simp only [noLookupL, Bool.and_eq_true] at h
      simp only [mlGens, unxfL]; rw [unxf_ml _ s1 h.1, unxf_mlGens r s1 s1 h.2]
  | .list _ :: r, s0, s1, h => by
      simp only [noLookupL, Bool.and_eq_true] at h
      simp only [mlGens, unxfL]; rw [unxf_ml _ s1 h.1, unxf_mlGens r s1 s1 h.2]
  | .tuple _ :: r, s0, s1, h => by
      simp only [noLookupL, Bool.and_eq_true] at h
      simp only [mlGens, unxfL]; rw [unxf_ml _ s1 h.1, unxf_mlGens r s1 s1 h.2]
  | .unsupported _ :: r, s0, s1, h => by
      simp only [noLookupL, Bool.and_eq_true] at h
      simp only [mlGens, unxfL]; rw [unxf_ml _ s1 h.1, unxf_mlGens r s1 s1 h.2]
  | .keyword _ _ :: r, s0, s1, h => by
      simp only [noLookupL, Bool.and_eq_true] at h
      simp only [mlGens, unxfL]; rw [unxf_ml _ s1 h.1, unxf_mlGens r s1 s1 h.2]
  | .param _ _ _ :: r, s0, s1, h => by
      simp only [noLookupL, Bool.and_eq_true] at h
      simp only [mlGens, unxfL]; rw [unxf_ml _ s1 h.1, unxf_mlGens r s1 s1 h.2]
  | .dictItem _ _ :: r, s0, s1, h => by
      simp only [noLookupL, Bool.and_eq_true] at h
      simp only [mlGens, unxfL]; rw [unxf_ml _ s1 h.1, unxf_mlGens r s1 s1 h.2]
  | .cmpRhs _ _ :: r, s0, s1, h => by
      simp only [noLookupL, Bool.and_eq_true] at h
      simp only [mlGens, unxfL]; rw [unxf_ml _ s1 h.1, unxf_mlGens r s1 s1 h.2]
theorem unxf_mlT : ∀ (e : PyExpr) (s : σ), noLookup e = true → unxf (mlT ops s e) = e
  | .name _, _, _ => rfl
  | .tuple elts, s, h => by simp only [noLookup] at h; simp [mlT, unxf, unxf_mlTL elts s h]
  | .list elts, s, h => by simp only [noLookup] at h; simp [mlT, unxf, unxf_mlTL elts s h]
  | .starred e, s, h => by simp only [noLookup] at h; simp [mlT, unxf, unxf_mlT e s h]
  | .attribute v a, s, h => by simp only [noLookup] at h; simp [mlT, unxf, unxf_ml v s h]
  | .subscript v sl, s, h => by
      simp only [noLookup, Bool.and_eq_true] at h; simp [mlT, unxf, unxf_ml v s h.1, unxf_ml sl s h.2]
  | .const _, s, h => by simpa [mlT] using unxf_id _ h
  | .boolOp _ _, s, h => by simpa [mlT] using unxf_id _ h
  | .binOp _ _ _, s, h => by simpa [mlT] using unxf_id _ h
  | .unaryOp _ _, s, h => by simpa [mlT] using unxf_id _ h
  | .lambda _ _ _ _ _ _, s, h => by simpa [mlT] using unxf_id _ h
  | .ifExp _ _ _, s, h => by simpa [mlT] using unxf_id _ h
  | .dict _, s, h => by simpa [mlT] using unxf_id _ h
  | .listComp _ _, s, h => by simpa [mlT] using unxf_id _ h
  | .genExp _ _, s, h => by simpa [mlT] using unxf_id _ h
  | .yield_ _, s, h => by simpa [mlT] using unxf_id _ h
  | .compare _ _, s, h => by simpa [mlT] using unxf_id _ h
  | .call _ _ _, s, h => by simpa [mlT] using unxf_id _ h
  | .slice _ _ _, s, h => by simpa [mlT] using unxf_id _ h
  | .unsupported _, s, h => by simpa [mlT] using unxf_id _ h
  | .keyword _ _, s, h => by simpa [mlT] using unxf_id _ h
  | .comp _ _ _ _, s, h => by simpa [mlT] using unxf_id _ h
  | .param _ _ _, s, h => by simpa [mlT] using unxf_id _ h
  | .dictItem _ _, s, h => by simpa [mlT] using unxf_id _ h
  | .cmpRhs _ _, s, h => by simpa [mlT] using unxf_id _ h
theorem unxf_mlTL : ∀ (es : List PyExpr) (s : σ), noLookupL es = true → unxfL (mlTL ops s es) = es
  | [], _, _ => rfl
  | e :: es, s, h => by
      simp only [noLookupL, Bool.and_eq_true] at h
      simp [mlTL, unxfL, unxf_mlT e s h.1, unxf_mlTL es s h.2]
end

end Genshi.Py

/-! ### statements -/
namespace Genshi.Py

def noLookupItems : List (PyExpr × Option PyExpr) → Bool
  | [] => true
  | (c, v) :: r => noLookup c && noLookupO v && noLookupItems r

mutual
/-- the program does not itself call the lookup helpers (the names are reserved) -/
def noLookupS : PyStmt → Bool
  | .expr e => noLookup e
  | .assign ts v => noLookupL ts && noLookup v
  | .augAssign t _ v => noLookup t && noLookup v
  | .return_ v => noLookupO v
  | .delete ts => noLookupL ts
  | .pass_ => true
  | .break_ => true
  | .continue_ => true
  | .assert_ t m => noLookup t && noLookupO m
  | .raise_ e c => noLookupO e && noLookupO c
  | .global_ _ => true
  | .import_ _ => true
  | .importFrom _ _ _ => true
  | .if_ t b o => noLookup t && noLookupB b && noLookupB o
  | .while_ t b o => noLookup t && noLookupB b && noLookupB o
  | .for_ t it b o => noLookup t && noLookup it && noLookupB b && noLookupB o
  | .with_ items b => noLookupItems items && noLookupB b
  | .try_ b hs o f => noLookupB b && noLookupB hs && noLookupB o && noLookupB f
  | .handler t _ b => noLookupO t && noLookupB b
  | .functionDef _ po ar va ko ka body decos ret _ =>
      noLookupL po && noLookupL ar && noLookupO va && noLookupL ko && noLookupO ka && noLookupB body
        && noLookupL decos && noLookupO ret
  | .classDef _ bases kws body decos _ => noLookupL bases && noLookupL kws && noLookupB body && noLookupL decos
  | .unsupported _ => true
def noLookupB : List PyStmt → Bool
  | [] => true
  | s :: ss => noLookupS s && noLookupB ss
end

theorem unxf_xt (L : List Scope) (e : PyExpr) (h : noLookup e = true) : unxf (xt L e) = e := unxf_ml genshiOps e L h
theorem unxf_xtL (L : List Scope) (es : List PyExpr) (h : noLookupL es = true) : unxfL (xtL L es) = es :=
  unxf_mlL genshiOps es L h
theorem unxf_xtO (L : List Scope) (o : Option PyExpr) (h : noLookupO o = true) : unxfO (xtO L o) = o :=
  unxf_mlO genshiOps o L h
theorem unxf_xtTL (L : List Scope) (es : List PyExpr) (h : noLookupL es = true) : unxfL (xtTL L es) = es :=
  unxf_mlTL genshiOps es L h

mutual
theorem unxf_xsTgt : ∀ (t : PyExpr) (L : List Scope), noLookup t = true → unxf (xsTgt L t).1 = t
  | .name _, _, _ => rfl
  | .tuple elts, L, h => by simp only [noLookup] at h; simp [xsTgt, unxf, unxf_xsTgtL elts L h]
  | .list elts, L, h => by simp only [noLookup] at h; simp [xsTgt, unxf, unxf_xsTgtL elts L h]
  | .starred e, L, h => by simp only [noLookup] at h; simp [xsTgt, unxf, unxf_xsTgt e L h]
  | .attribute v a, L, h => by simp only [noLookup] at h; simp [xsTgt, unxf, unxf_xt L v h]
  | .subscript v sl, L, h => by
      simp only [noLookup, Bool.and_eq_true] at h; simp [xsTgt, unxf, unxf_xt L v h.1, unxf_xt L sl h.2]
  | .const _, L, h => by simpa [xsTgt] using unxf_id _ h
  | .boolOp _ _, L, h => by simpa [xsTgt] using unxf_id _ h
  | .binOp _ _ _, L, h => by simpa [xsTgt] using unxf_id _ h
  | .unaryOp _ _, L, h => by simpa [xsTgt] using unxf_id _ h
  | .lambda _ _ _ _ _ _, L, h => by simpa [xsTgt] using unxf_id _ h
  | .ifExp _ _ _, L, h => by simpa [xsTgt] using unxf_id _ h
  | .dict _, L, h => by simpa [xsTgt] using unxf_id _ h
  | .listComp _ _, L, h => by simpa [xsTgt] using unxf_id _ h
  | .genExp _ _, L, h => by simpa [xsTgt] using unxf_id _ h
  | .yield_ _, L, h => by simpa [xsTgt] using unxf_id _ h
  | .compare _ _, L, h => by simpa [xsTgt] using unxf_id _ h
  | .call _ _ _, L, h => by simpa [xsTgt] using unxf_id _ h
  | .slice _ _ _, L, h => by simpa [xsTgt] using unxf_id _ h
  | .unsupported _, L, h => by simpa [xsTgt] using unxf_id _ h
  | .keyword _ _, L, h => by simpa [xsTgt] using unxf_id _ h
  | .comp _ _ _ _, L, h => by simpa [xsTgt] using unxf_id _ h
  | .param _ _ _, L, h => by simpa [xsTgt] using unxf_id _ h
  | .dictItem _ _, L, h => by simpa [xsTgt] using unxf_id _ h
  | .cmpRhs _ _, L, h => by simpa [xsTgt] using unxf_id _ h
theorem unxf_xsTgtL : ∀ (ts : List PyExpr) (L : List Scope), noLookupL ts = true → unxfL (xsTgtL L ts).1 = ts
  | [], _, _ => rfl
  | e :: es, L, h => by
      simp only [noLookupL, Bool.and_eq_true] at h
      simp [xsTgtL, unxfL, unxf_xsTgt e L h.1, unxf_xsTgtL es _ h.2]
end

theorem unxf_xsItems : ∀ (items : List (PyExpr × Option PyExpr)) (L : List Scope), noLookupItems items = true →
    unxfItems (xsItems L items).1 = items
  | [], _, _ => rfl
  | (c, none) :: r, L, h => by
      simp only [noLookupItems, noLookupO, Bool.and_eq_true, and_true] at h
      simp [xsItems, unxfItems, unxfO, unxf_xt L c h.1, unxf_xsItems r L h.2]
  | (c, some v) :: r, L, h => by
      simp only [noLookupItems, noLookupO, Bool.and_eq_true] at h
      simp [xsItems, unxfItems, unxfO, unxf_xt L c h.1.1, unxf_xsTgt v L h.1.2, unxf_xsItems r _ h.2]

mutual
theorem unxfS_xsS : ∀ (s : PyStmt) (L : List Scope), noLookupS s = true → unxfS (xsS L s).1 = s
  | .expr e, L, h => by simp only [noLookupS] at h; simp [xsS, unxfS, unxf_xt L e h]
  | .assign ts v, L, h => by
      simp only [noLookupS, Bool.and_eq_true] at h
      simp [xsS, unxfS, unxf_xsTgtL ts L h.1, unxf_xt _ v h.2]
  | .augAssign t op v, L, h => by
      simp only [noLookupS, Bool.and_eq_true] at h
      simp [xsS, unxfS, unxf_xsTgt t L h.1, unxf_xt _ v h.2]
  | .return_ v, L, h => by simp only [noLookupS] at h; simp [xsS, unxfS, unxf_xtO L v h]
  | .delete ts, L, h => by simp only [noLookupS] at h; simp [xsS, unxfS, unxf_xtTL L ts h]
  | .pass_, _, _ => rfl
  | .break_, _, _ => rfl
  | .continue_, _, _ => rfl
  | .assert_ t m, L, h => by
      simp only [noLookupS, Bool.and_eq_true] at h; simp [xsS, unxfS, unxf_xt L t h.1, unxf_xtO L m h.2]
  | .raise_ e c, L, h => by
      simp only [noLookupS, Bool.and_eq_true] at h; simp [xsS, unxfS, unxf_xtO L e h.1, unxf_xtO L c h.2]
  | .global_ _, _, _ => rfl
  | .import_ _, _, _ => rfl
  | .importFrom m ns lvl, L, _ => by
      simp only [xsS]; split <;> rfl
  | .if_ t b o, L, h => by
      simp only [noLookupS, Bool.and_eq_true] at h
      simp [xsS, unxfS, unxf_xt L t h.1.1, unxfB_xsB b L h.1.2, unxfB_xsB o _ h.2]
  | .while_ t b o, L, h => by
      simp only [noLookupS, Bool.and_eq_true] at h
      simp [xsS, unxfS, unxf_xt L t h.1.1, unxfB_xsB b L h.1.2, unxfB_xsB o _ h.2]
  | .for_ t it b o, L, h => by
      simp only [noLookupS, Bool.and_eq_true] at h
      simp [xsS, unxfS, unxf_xsTgt t L h.1.1.1, unxf_xt _ it h.1.1.2, unxfB_xsB b _ h.1.2, unxfB_xsB o _ h.2]
  | .with_ items b, L, h => by
      simp only [noLookupS, Bool.and_eq_true] at h
      simp [xsS, unxfS, unxf_xsItems items L h.1, unxfB_xsB b _ h.2]
  | .try_ b hs o f, L, h => by
      simp only [noLookupS, Bool.and_eq_true] at h
      simp [xsS, unxfS, unxfB_xsB b L h.1.1.1, unxfB_xsB hs _ h.1.1.2, unxfB_xsB o _ h.1.2, unxfB_xsB f _ h.2]
  | .handler t n b, L, h => by
      simp only [noLookupS, Bool.and_eq_true] at h
      simp [xsS, unxfS, unxf_xtO L t h.1, unxfB_xsB b L h.2]
  | .functionDef name po ar va ko ka body decos ret tp, L, h => by
      simp only [noLookupS, Bool.and_eq_true] at h
      obtain ⟨⟨⟨⟨⟨⟨⟨h1, h2⟩, h3⟩, h4⟩, h5⟩, h6⟩, h7⟩, h8⟩ := h
      simp [xsS, unxfS, unxf_xtL _ po h1, unxf_xtL _ ar h2, unxf_xtO _ va h3, unxf_xtL _ ko h4, unxf_xtO _ ka h5,
        unxfB_xsB body _ h6, unxf_xtL _ decos h7, unxf_xtO _ ret h8]
  | .classDef name bases kws body decos tp, L, h => by
      simp only [noLookupS, Bool.and_eq_true] at h
      obtain ⟨⟨⟨h1, h2⟩, h3⟩, h4⟩ := h
      simp [xsS, unxfS, unxf_xtL _ bases h1, unxf_xtL _ kws h2, unxfB_xsB body _ h3, unxf_xtL _ decos h4]
  | .unsupported _, _, _ => rfl
theorem unxfB_xsB : ∀ (ss : List PyStmt) (L : List Scope), noLookupB ss = true → unxfB (xsB L ss).1 = ss
  | [], _, _ => rfl
  | s :: ss, L, h => by
      simp only [noLookupB, Bool.and_eq_true] at h
      simp [xsB, unxfB, unxfS_xsS s L h.1, unxfB_xsB ss _ h.2]
end

end Genshi.Py

/-
  C02 — part D: from the token loop to `tokenize`, for element content.
-/
import Genshi.Lemmas.XmlTokC
namespace Genshi.Xml
open Genshi Genshi.Escape Genshi.Xml.Reader

theorem normEol_of_no_cr (s : Str) (h : '\r' ∉ s) : normEol s = s := by
  induction s with
  | nil => rfl
  | cons c cs ih =>
    have hc : c ≠ '\r' := fun e => h (by simp [e])
    have hcs : '\r' ∉ cs := fun e => h (by simp [e])
    unfold normEol
    split
    · rename_i heq; cases heq
    · rename_i heq; injection heq with h1 h2; exact absurd h1 hc
    · rename_i heq; injection heq with h1 h2; exact absurd h1 hc
    · rename_i heq; injection heq with h1 h2; subst h1; subst h2; rw [ih hcs]

/-- `tokenize` is the token loop when the text does not begin with an XML declaration -/
theorem tokenize_of_tokGo (out : Str) (toks : List FEv) (hcr : '\r' ∉ out)
    (hx : ∀ rest, stripPrefix ['<', '?', 'x', 'm', 'l'] out = some rest →
      ∃ c r, rest = c :: r ∧ isSpace c = false)
    (h : tokGo (out.length + 1) out = some toks) : tokenize out = some toks := by
  unfold tokenize
  simp only [normEol_of_no_cr out hcr]
  cases hs : stripPrefix ['<', '?', 'x', 'm', 'l'] out with
  | none => simpa using h
  | some rest =>
    obtain ⟨c, r, rfl, hc⟩ := hx rest hs
    simp only [hc, Bool.false_eq_true, if_false]
    exact h

theorem stripPrefix_decl_second (c : Char) (r : Str) (hc : c ≠ '?') :
    stripPrefix ['<', '?', 'x', 'm', 'l'] ('<' :: c :: r) = none := by
  simp [stripPrefix, List.isPrefixOf]
  intro e; exact absurd e.symm hc

theorem stripPrefix_decl_first (c : Char) (r : Str) (hc : c ≠ '<') :
    stripPrefix ['<', '?', 'x', 'm', 'l'] (c :: r) = none := by
  simp [stripPrefix, List.isPrefixOf]
  intro e; exact absurd e.symm hc

theorem validName_head_ne {n : Str} (hn : validName n = true) :
    ∃ c cs, n = c :: cs ∧ c ≠ '?' ∧ isSpace c = false := by
  obtain ⟨c, cs, rfl, hc⟩ := validName_head hn
  exact ⟨c, cs, rfl, by intro e; subst e; revert hc; decide, not_space_of_not_stop hc⟩

/-- the serialisation of element content never looks like the beginning of an XML declaration -/
theorem body_no_decl (fs : List FEv) (h : bodyOK fs = true) (st : SerSt) (hst : st.inCdata = false)
    (out : Str) (hser : serRun st fs = some out) :
    ∀ rest, stripPrefix ['<', '?', 'x', 'm', 'l'] out = some rest → ∃ c r, rest = c :: r ∧ isSpace c = false := by
  intro rest hr
  cases fs with
  | nil =>
    simp only [serRun, Option.some.injEq] at hser
    subst hser
    simp [stripPrefix, List.isPrefixOf] at hr
  | cons e es =>
    rw [serRun_cons] at hser
    cases e with
    | start n a =>
      simp only [bodyOK, Bool.and_eq_true] at h
      obtain ⟨c, cs, rfl, hq, _⟩ := validName_head_ne h.1.1
      simp only [serStep, emitStart] at hser
      cases hrun : serRun st es with
      | none => rw [hrun] at hser; cases hser
      | some o =>
        rw [hrun] at hser
        simp only [Option.map_some, Option.some.injEq] at hser
        subst hser
        simp only [List.cons_append] at hr
        rw [stripPrefix_decl_second c _ hq] at hr
        cases hr
    | empty n a =>
      simp only [bodyOK, Bool.and_eq_true] at h
      obtain ⟨c, cs, rfl, hq, _⟩ := validName_head_ne h.1.1
      simp only [serStep, emitStart] at hser
      cases hrun : serRun st es with
      | none => rw [hrun] at hser; cases hser
      | some o =>
        rw [hrun] at hser
        simp only [Option.map_some, Option.some.injEq] at hser
        subst hser
        simp only [List.cons_append] at hr
        rw [stripPrefix_decl_second c _ hq] at hr
        cases hr
    | end_ n =>
      simp only [serStep, emitEnd] at hser
      cases hrun : serRun st es with
      | none => rw [hrun] at hser; cases hser
      | some o =>
        rw [hrun] at hser
        simp only [Option.map_some, Option.some.injEq] at hser
        subst hser
        simp only [List.cons_append] at hr
        rw [stripPrefix_decl_second '/' _ (by decide)] at hr
        cases hr
    | other ev =>
      cases ev with
      | text s safe =>
        simp only [bodyOK, Bool.and_eq_true, Bool.not_eq_true'] at h
        obtain ⟨⟨⟨⟨hsafe, hne⟩, hok⟩, _⟩, _⟩ := h
        subst hsafe
        have hs : s ≠ [] := by intro e; simp [e] at hne
        simp only [serStep, hst, Bool.false_eq_true, or_self, if_false] at hser
        cases hrun : serRun st es with
        | none => rw [hrun] at hser; cases hser
        | some o =>
          rw [hrun] at hser
          simp only [Option.map_some, Option.some.injEq] at hser
          subst hser
          obtain ⟨c1, _, _, _, c5⟩ := escapePy_chars false s
          obtain ⟨c, cs, hcs⟩ : ∃ c cs, escapePy false s = c :: cs := by
            cases hq : escapePy false s with
            | nil => exact absurd hq (c5 hs)
            | cons c cs => exact ⟨c, cs, rfl⟩
          rw [hcs] at hr c1
          simp only [List.cons_append] at hr
          rw [stripPrefix_decl_first c _ (fun e => c1 (by simp [e]))] at hr
          cases hr
      | comment s =>
        simp only [serStep] at hser
        cases hrun : serRun st es with
        | none => rw [hrun] at hser; cases hser
        | some o =>
          rw [hrun] at hser
          simp only [Option.map_some, Option.some.injEq] at hser
          subst hser
          simp only [List.cons_append] at hr
          rw [stripPrefix_decl_second '!' _ (by decide)] at hr
          cases hr
      | pi t d =>
        simp only [bodyOK, Bool.and_eq_true] at h
        have hp := h.1
        unfold piOK at hp
        simp only [Bool.and_eq_true, Bool.not_eq_true', decide_eq_true_eq] at hp
        obtain ⟨⟨⟨⟨⟨p1, _⟩, p3⟩, _⟩, _⟩, _⟩ := hp
        simp only [serStep] at hser
        cases hrun : serRun st es with
        | none => rw [hrun] at hser; cases hser
        | some o =>
          rw [hrun] at hser
          simp only [Option.map_some, Option.some.injEq] at hser
          subst hser
          -- `<?` target ` ` …: a prefix `<?xml` means the target starts with `xml` and goes on
          simp only [List.cons_append, List.append_assoc, stripPrefix] at hr
          split at hr
          · rename_i hpre
            simp only [Option.some.injEq] at hr
            subst hr
            obtain ⟨t', ht'⟩ := List.isPrefixOf_iff_prefix.mp hpre
            simp only [List.cons_append, List.cons.injEq, true_and] at ht'
            match t, p1, p3, ht' with
            | [], p1, _, _ => simp [validName] at p1
            | [a], _, _, ht' => simp at ht'
            | [a, b], _, _, ht' => simp at ht'
            | [a, b, c], _, p3, ht' =>
              simp only [List.cons_append, List.cons.injEq, List.nil_append] at ht'
              obtain ⟨rfl, rfl, rfl, _⟩ := ht'
              exact absurd (by decide) p3
            | a :: b :: c :: e :: more, p1, _, ht' =>
              simp only [List.cons_append, List.cons.injEq] at ht'
              obtain ⟨rfl, rfl, rfl, rfl⟩ := ht'
              refine ⟨e, more ++ ' ' :: (d ++ '?' :: '>' :: o), by simp, ?_⟩
              unfold validName at p1
              simp only [Bool.and_eq_true, List.all_eq_true] at p1
              have := p1.2 e (by simp)
              exact not_space_of_not_stop (by simpa using this)
          · cases hr
      | startCdata =>
        simp only [serStep] at hser
        cases hrun : serRun { st with inCdata := true } es with
        | none => rw [hrun] at hser; cases hser
        | some o =>
          rw [hrun] at hser
          simp only [Option.map_some, Option.some.injEq] at hser
          subst hser
          simp only [List.cons_append] at hr
          rw [stripPrefix_decl_second '!' _ (by decide)] at hr
          cases hr
      | endCdata => simp [bodyOK] at h
      | doctype n p s => simp [bodyOK] at h
      | xmlDecl v e s => simp [bodyOK] at h
      | startNs p u => simp [bodyOK] at h
      | endNs p => simp [bodyOK] at h
      | start t a => simp [bodyOK] at h
      | end_ t => simp [bodyOK] at h

/-- **the tokenizer is a left inverse of the serializer on element content** -/
theorem tokenize_serRun (fs : List FEv) (h : bodyOK fs = true) :
    ∃ out, serRun SerSt.init fs = some out ∧ tokenize out = some (fs.map normF) := by
  obtain ⟨out, r⟩ := tokGo_body fs h SerSt.init rfl
  exact ⟨out, r.ser, tokenize_of_tokGo out _ r.nocr (body_no_decl fs h SerSt.init rfl out r.ser)
    (r.tok _ (Nat.lt_succ_self _))⟩

end Genshi.Xml

/-
  C02 — part D: from the token loop to `tokenize`, for element content.
-/
import Genshi.Lemmas.XmlTokC
namespace Genshi.Xml
open Genshi Genshi.Escape Genshi.Xml.Reader

theorem normEol_of_no_cr (s : Str) (h : '\r' ∉ s) : normEol s = s := by
  induction s with
  | nil => rfl
  | cons c cs ih =>
    have hc : c ≠ '\r' := fun e => h (by simp [e])
    have hcs : '\r' ∉ cs := fun e => h (by simp [e])
    unfold normEol
    split
    · rename_i heq; cases heq
    · rename_i heq; injection heq with h1 h2; exact absurd h1 hc
    · rename_i heq; injection heq with h1 h2; exact absurd h1 hc
    · rename_i heq; injection heq with h1 h2; subst h1; subst h2; rw [ih hcs]

/-- `tokenize` is the token loop when the text does not begin with an XML declaration -/
theorem tokenize_of_tokGo (out : Str) (toks : List FEv) (hcr : '\r' ∉ out)
    (hx : ∀ rest, stripPrefix ['<', '?', 'x', 'm', 'l'] out = some rest →
      ∃ c r, rest = c :: r ∧ isSpace c = false)
    (h : tokGo (out.length + 1) out = some toks) : tokenize out = some toks := by
  unfold tokenize
  simp only [normEol_of_no_cr out hcr]
  cases hs : stripPrefix ['<', '?', 'x', 'm', 'l'] out with
  | none => simpa using h
  | some rest =>
    obtain ⟨c, r, rfl, hc⟩ := hx rest hs
    simp only [hc, Bool.false_eq_true, if_false]
    exact h

theorem stripPrefix_decl_second (c : Char) (r : Str) (hc : c ≠ '?') :
    stripPrefix ['<', '?', 'x', 'm', 'l'] ('<' :: c :: r) = none := by
  simp [stripPrefix, List.isPrefixOf]
  intro e; exact absurd e.symm hc

theorem stripPrefix_decl_first (c : Char) (r : Str) (hc : c ≠ '<') :
    stripPrefix ['<', '?', 'x', 'm', 'l'] (c :: r) = none := by
  simp [stripPrefix, List.isPrefixOf]
  intro e; exact absurd e.symm hc

theorem validName_head_ne {n : Str} (hn : validName n = true) :
    ∃ c cs, n = c :: cs ∧ c ≠ '?' ∧ isSpace c = false := by
  obtain ⟨c, cs, rfl, hc⟩ := validName_head hn
  exact ⟨c, cs, rfl, by intro e; subst e; revert hc; decide, not_space_of_not_stop hc⟩

/-- the serialisation of element content never looks like the beginning of an XML declaration -/
theorem body_no_decl (rep : Char → Bool) (hrep : AsciiRep rep) (dt : Bool) (fs : List FEv)
    (h : contentOK dt fs = true) (st : SerSt) (hst : st.inCdata = false)
    (hdt : dt = true → st.haveDoctype = false)
    (out : Str) (hser : serRunEnc rep st fs = some out) :
    ∀ rest, stripPrefix ['<', '?', 'x', 'm', 'l'] out = some rest → ∃ c r, rest = c :: r ∧ isSpace c = false := by
  intro rest hr
  cases fs with
  | nil =>
    simp only [serRunEnc, Option.some.injEq] at hser
    subst hser
    simp [stripPrefix, List.isPrefixOf] at hr
  | cons e es =>
    rw [serRunEnc_cons] at hser
    cases e with
    | start n a =>
      simp only [contentOK, Bool.and_eq_true] at h
      obtain ⟨c, cs, rfl, hq, _⟩ := validName_head_ne h.1.1
      simp only [serStepEnc] at hser
      cases hrun : serRunEnc rep st es with
      | none => rw [hrun] at hser; cases hser
      | some o =>
        rw [hrun] at hser
        simp only [Option.map_some, Option.some.injEq] at hser
        subst hser
        simp only [List.cons_append] at hr
        rw [stripPrefix_decl_second c _ hq] at hr
        cases hr
    | empty n a =>
      simp only [contentOK, Bool.and_eq_true] at h
      obtain ⟨c, cs, rfl, hq, _⟩ := validName_head_ne h.1.1
      simp only [serStepEnc] at hser
      cases hrun : serRunEnc rep st es with
      | none => rw [hrun] at hser; cases hser
      | some o =>
        rw [hrun] at hser
        simp only [Option.map_some, Option.some.injEq] at hser
        subst hser
        simp only [List.cons_append] at hr
        rw [stripPrefix_decl_second c _ hq] at hr
        cases hr
    | end_ n =>
      simp only [serStepEnc, serStep, emitEnd] at hser
      cases hrun : serRunEnc rep st es with
      | none => rw [hrun] at hser; cases hser
      | some o =>
        rw [hrun] at hser
        simp only [Option.map_some, Option.some.injEq] at hser
        subst hser
        simp only [List.cons_append] at hr
        rw [stripPrefix_decl_second '/' _ (by decide)] at hr
        cases hr
    | other ev =>
      cases ev with
      | text s safe =>
        simp only [contentOK, Bool.and_eq_true, Bool.not_eq_true'] at h
        obtain ⟨⟨⟨⟨hsafe, hne⟩, hok⟩, _⟩, _⟩ := h
        subst hsafe
        have hs : s ≠ [] := by intro e; simp [e] at hne
        simp only [serStepEnc, hst, Bool.false_eq_true, or_self, if_false] at hser
        cases hrun : serRunEnc rep st es with
        | none => rw [hrun] at hser; cases hser
        | some o =>
          rw [hrun] at hser
          simp only [Option.map_some, Option.some.injEq] at hser
          subst hser
          obtain ⟨c1, _, _, _, c5⟩ := encEscStr_chars rep hrep false s
          obtain ⟨c, cs, hcs⟩ : ∃ c cs, encEscStr rep false s = c :: cs := by
            cases hq : encEscStr rep false s with
            | nil => exact absurd hq (c5 hs)
            | cons c cs => exact ⟨c, cs, rfl⟩
          rw [hcs] at hr c1
          simp only [List.cons_append] at hr
          rw [stripPrefix_decl_first c _ (fun e => c1 (by simp [e]))] at hr
          cases hr
      | comment s =>
        simp only [serStepEnc, serStep] at hser
        cases hrun : serRunEnc rep st es with
        | none => rw [hrun] at hser; cases hser
        | some o =>
          rw [hrun] at hser
          simp only [Option.map_some, Option.some.injEq] at hser
          subst hser
          simp only [List.cons_append] at hr
          rw [stripPrefix_decl_second '!' _ (by decide)] at hr
          cases hr
      | pi t d =>
        simp only [contentOK, Bool.and_eq_true] at h
        have hp := h.1
        unfold piOK at hp
        simp only [Bool.and_eq_true, Bool.not_eq_true', decide_eq_true_eq] at hp
        obtain ⟨⟨⟨⟨⟨p1, _⟩, p3⟩, _⟩, _⟩, _⟩ := hp
        simp only [serStepEnc, serStep] at hser
        cases hrun : serRunEnc rep st es with
        | none => rw [hrun] at hser; cases hser
        | some o =>
          rw [hrun] at hser
          simp only [Option.map_some, Option.some.injEq] at hser
          subst hser
          -- `<?` target ` ` …: a prefix `<?xml` means the target starts with `xml` and goes on
          simp only [List.cons_append, List.append_assoc, stripPrefix] at hr
          split at hr
          · rename_i hpre
            simp only [Option.some.injEq] at hr
            subst hr
            obtain ⟨t', ht'⟩ := List.isPrefixOf_iff_prefix.mp hpre
            simp only [List.cons_append, List.cons.injEq, true_and] at ht'
            match t, p1, p3, ht' with
            | [], p1, _, _ => simp [validName] at p1
            | [a], _, _, ht' => simp at ht'
            | [a, b], _, _, ht' => simp at ht'
            | [a, b, c], _, p3, ht' =>
              simp only [List.cons_append, List.cons.injEq, List.nil_append] at ht'
              obtain ⟨rfl, rfl, rfl, _⟩ := ht'
              exact absurd (by decide) p3
            | a :: b :: c :: e :: more, p1, _, ht' =>
              simp only [List.cons_append, List.cons.injEq] at ht'
              obtain ⟨rfl, rfl, rfl, rfl⟩ := ht'
              refine ⟨e, more ++ ' ' :: (d ++ '?' :: '>' :: o), by simp, ?_⟩
              unfold validName at p1
              simp only [Bool.and_eq_true, List.all_eq_true] at p1
              have := p1.2 e (by simp)
              exact not_space_of_not_stop (by simpa using this)
          · cases hr
      | startCdata =>
        simp only [serStepEnc, serStep] at hser
        cases hrun : serRunEnc rep { st with inCdata := true } es with
        | none => rw [hrun] at hser; cases hser
        | some o =>
          rw [hrun] at hser
          simp only [Option.map_some, Option.some.injEq] at hser
          subst hser
          simp only [List.cons_append] at hr
          rw [stripPrefix_decl_second '!' _ (by decide)] at hr
          cases hr
      | endCdata => simp [contentOK] at h
      | doctype n p s =>
        cases dt with
        | false => simp [contentOK] at h
        | true =>
          simp only [contentOK, Bool.and_eq_true] at h
          obtain ⟨m, hm1, _, ⟨r0, hm0⟩, _⟩ := doctype_piece n p s h.1.1
          simp only [serStepEnc, serStep, hdt rfl, Bool.false_eq_true, if_false, hm1, Option.map_some] at hser
          cases hrun : serRunEnc rep { st with haveDoctype := true } es with
          | none => rw [hrun] at hser; cases hser
          | some o =>
            rw [hrun] at hser
            simp only [Option.map_some, Option.some.injEq] at hser
            subst hser
            rw [hm0] at hr
            simp only [List.cons_append] at hr
            rw [stripPrefix_decl_second '!' _ (by decide)] at hr
            cases hr
      | xmlDecl v e s => simp [contentOK] at h
      | startNs p u => simp [contentOK] at h
      | endNs p => simp [contentOK] at h
      | start t a => simp [contentOK] at h
      | end_ t => simp [contentOK] at h

theorem cr_not_mem_declTail (v : Str) (enc : Option Str) (sa : Int) (h : declOK v enc sa = true) :
    '\r' ∉ declTail v enc sa := by
  unfold declOK at h
  simp only [Bool.and_eq_true] at h
  have hv : '\r' ∉ v := by
    intro hm
    have := h.1.1
    unfold validVersion at this
    simp only [Bool.and_eq_true, List.all_eq_true] at this
    have := this.2 '\r' hm
    revert this; decide
  have he : '\r' ∉ encPart enc := by
    cases enc with
    | none => simp [encPart]
    | some e =>
      have h2 := h.1.2
      simp only at h2
      unfold validEncName at h2
      cases e with
      | nil => simp at h2
      | cons c cs =>
        simp only [Bool.and_eq_true, List.all_eq_true] at h2
        have hc : c ≠ '\r' := by intro e; subst e; have := h2.1; revert this; decide
        have hcs : '\r' ∉ cs := by intro hm; have := h2.2 '\r' hm; revert this; decide
        simp only [encPart, List.isEmpty_cons, Bool.false_eq_true, if_false]
        exact nm_app (nm_app (by decide) (nm_cons hc hcs)) (by decide)
  have hs : '\r' ∉ saPart sa := by
    unfold saPart
    split
    · simp
    · split <;> decide
  rw [declTail_eq]
  exact nm_app (nm_app (nm_app (nm_app (nm_app (by decide) hv) (by decide)) he) hs) (by decide)

/-- **the tokenizer is a left inverse of the serializer (followed by `encode`)** on content
    with at most one DOCTYPE -/
theorem tokenize_content (rep : Char → Bool) (hr : AsciiRep rep) (fs : List FEv) (h : contentOK true fs = true)
    (st : SerSt) (hst : st.inCdata = false) (hdt : st.haveDoctype = false) :
    ∃ out, serRunEnc rep st fs = some out ∧ tokenize out = some (tokOf fs) := by
  obtain ⟨out, r⟩ := tokGo_content rep hr true fs h st hst (fun _ => hdt)
  exact ⟨out, r.ser, tokenize_of_tokGo out _ r.nocr
    (body_no_decl rep hr true fs h st hst (fun _ => hdt) out r.ser) (r.tok _ (Nat.lt_succ_self _))⟩

/-- … and on whole documents (`docTextOK`) -/
theorem tokenize_doc (rep : Char → Bool) (hr : AsciiRep rep) (fs : List FEv) (h : docTextOK fs = true) :
    ∃ out, serRunEnc rep SerSt.init fs = some out ∧ tokenize out = some (tokOf fs) := by
  unfold docTextOK at h
  split at h
  · rename_i v e sa rest
    simp only [Bool.and_eq_true, Bool.not_eq_true'] at h
    obtain ⟨⟨hd, hnt⟩, hc⟩ := h
    obtain ⟨out', r⟩ := tokGo_content rep hr true rest hc { SerSt.init with haveDecl := true } rfl (fun _ => rfl)
    obtain ⟨w1, w2⟩ := ws_res rep _ rest out' r hnt
    have hs := r.ser
    simp only [SerSt.init] at hs
    refine ⟨emitDecl v e sa ++ out', by simp [serRunEnc_cons, serStepEnc, serStep, SerSt.init, hs], ?_⟩
    have hcr : '\r' ∉ emitDecl v e sa ++ out' := by
      rw [emitDecl_eq]
      exact nm_app (nm_app (by decide) (cr_not_mem_declTail v e sa hd)) r.nocr
    unfold tokenize
    simp only [normEol_of_no_cr _ hcr]
    have e1 : emitDecl v e sa ++ out' = ['<', '?', 'x', 'm', 'l'] ++ (declTail v e sa ++ out') := by
      rw [emitDecl_eq]; simp
    rw [e1, stripPrefix_append]
    have e2 : ∃ r', declTail v e sa ++ out' = ' ' :: r' := by
      simp only [declTail_eq, List.cons_append, List.append_assoc]
      exact ⟨_, rfl⟩
    obtain ⟨r', hr'⟩ := e2
    simp only [hr', isSpace_sp, if_true]
    rw [← hr', takeDecl_emit v e sa hd out']
    simp only
    rw [w2 _ (Nat.lt_succ_self _)]
    simp [tokOf]
  · rename_i hne
    exact tokenize_content rep hr fs h SerSt.init rfl rfl

/-! ### `encode` after the serializer -/

theorem encodeText_append (rep : Char → Bool) (a b : Str) :
    encodeText rep (a ++ b) = encodeText rep a ++ encodeText rep b := by
  simp [encodeText]

theorem encodeText_rep (rep : Char → Bool) (s : Str) (h : s.all rep = true) : encodeText rep s = s := by
  induction s with
  | nil => rfl
  | cons c cs ih =>
    simp only [List.all_cons, Bool.and_eq_true] at h
    have := ih h.2
    simp only [encodeText, List.flatMap_cons] at this ⊢
    rw [this]; simp [h.1]

theorem emitAttrsEnc_all (a : List (Str × Str)) : emitAttrsEnc (fun _ => true) a = emitAttrs a := by
  induction a with
  | nil => rfl
  | cons x xs ih =>
    obtain ⟨k, v⟩ := x
    unfold emitAttrsEnc at ih ⊢
    simp only [List.map_cons, emitAttrsWith, emitAttrs]
    rw [ih]
    simp [encAttr, encEscStr, encodeText_all]

theorem serRunEnc_all (st : SerSt) (fs : List FEv) : serRunEnc (fun _ => true) st fs = serRun st fs := by
  induction fs generalizing st with
  | nil => rfl
  | cons e es ih =>
    have hstep : serStepEnc (fun _ => true) st e = serStep st e := by
      cases e with
      | start n a => simp [serStepEnc, serStep, emitStart, emitAttrsEnc_all]
      | empty n a => simp [serStepEnc, serStep, emitStart, emitAttrsEnc_all]
      | end_ n => rfl
      | other ev =>
        cases ev with
        | text s f => simp only [serStepEnc, serStep, encEscStr, encodeText_all]
        | _ => rfl
    rw [serRunEnc_cons, serRun_cons, hstep]
    cases serStep st e with
    | none => rfl
    | some r => obtain ⟨st', out⟩ := r; simp only [ih]


/-! ### the namespace stage does not see the line breaks of the prolog -/

theorem resolveGo_ws (rst : RSt) (h : rst.open_.isEmpty = true) (es : List FEv) :
    resolveGo rst (wsTok :: es) = resolveGo rst es := by
  unfold wsTok
  rw [resolveGo]
  simp [h, isSpace]

theorem resolveGo_tokOf : ∀ (fs : List FEv) (rst : RSt),
    resolveGo rst (tokOf fs) = resolveGo rst (fs.map normF) := by
  intro fs
  induction fs with
  | nil => intro rst; rfl
  | cons e es ih =>
    intro rst
    cases e with
    | start n a => simp only [tokOf, List.map_cons, normF]; rw [resolveGo, resolveGo]; simp only [ih]
    | empty n a => simp only [tokOf, List.map_cons, normF]; rw [resolveGo, resolveGo]; simp only [ih]
    | end_ n => simp only [tokOf, List.map_cons, normF]; rw [resolveGo, resolveGo]; simp only [ih]
    | other ev =>
      cases ev with
      | text s f => simp only [tokOf, List.map_cons, normF]; rw [resolveGo, resolveGo]; simp only [ih]
      | comment s => simp only [tokOf, List.map_cons, normF]; rw [resolveGo, resolveGo]; simp only [ih]
      | pi t d => simp only [tokOf, List.map_cons, normF]; rw [resolveGo, resolveGo]; simp only [ih]
      | startCdata => simp only [tokOf, List.map_cons, normF]; rw [resolveGo, resolveGo]; simp only [ih]
      | endCdata => simp only [tokOf, List.map_cons, normF]; rw [resolveGo, resolveGo]; simp only [ih]
      | doctype n p s =>
        simp only [tokOf, List.map_cons, normF]
        rw [resolveGo, resolveGo]
        by_cases hc : (rst.rootSeen || rst.doctypeSeen || !rst.open_.isEmpty) = true
        · simp [hc]
        · simp only [hc, Bool.false_eq_true, if_false]
          have ho : rst.open_.isEmpty = true := by
            cases h1 : rst.open_.isEmpty <;> simp_all
          rw [resolveGo_ws _ (by simpa using ho), ih]
      | xmlDecl v e s => simp only [tokOf, List.map_cons, normF]; simp [resolveGo]
      | startNs p u => simp only [tokOf, List.map_cons, normF]; simp [resolveGo]
      | endNs p => simp only [tokOf, List.map_cons, normF]; simp [resolveGo]
      | start t a => simp only [tokOf, List.map_cons, normF]; simp [resolveGo]
      | end_ t => simp only [tokOf, List.map_cons, normF]; simp [resolveGo]

theorem resolve_tokOf (fs : List FEv) : resolve (tokOf fs) = resolve (fs.map normF) := by
  cases fs with
  | nil => rfl
  | cons e es =>
    cases e with
    | start n a => simp only [tokOf, List.map_cons, normF, resolve]; exact resolveGo_tokOf (FEv.start n a :: es) _
    | empty n a => simp only [tokOf, List.map_cons, normF, resolve]; exact resolveGo_tokOf (FEv.empty n a :: es) _
    | end_ n => simp only [tokOf, List.map_cons, normF, resolve]; exact resolveGo_tokOf (FEv.end_ n :: es) _
    | other ev =>
      cases ev with
      | xmlDecl v e s =>
        simp only [tokOf, List.map_cons, normF, resolve]
        rw [resolveGo_ws _ rfl, resolveGo_tokOf]
      | text s f => simp only [tokOf, List.map_cons, normF, resolve]; exact resolveGo_tokOf (FEv.other (.text s f) :: es) _
      | comment s => simp only [tokOf, List.map_cons, normF, resolve]; exact resolveGo_tokOf (FEv.other (.comment s) :: es) _
      | pi t d => simp only [tokOf, List.map_cons, normF, resolve]; exact resolveGo_tokOf (FEv.other (.pi t d) :: es) _
      | startCdata => simp only [tokOf, List.map_cons, normF, resolve]; exact resolveGo_tokOf (FEv.other .startCdata :: es) _
      | endCdata => simp only [tokOf, List.map_cons, normF, resolve]; exact resolveGo_tokOf (FEv.other .endCdata :: es) _
      | doctype n p s => simp only [tokOf, List.map_cons, normF, resolve]; exact resolveGo_tokOf (FEv.other (.doctype n p s) :: es) _
      | startNs p u => simp only [tokOf, List.map_cons, normF, resolve]; exact resolveGo_tokOf (FEv.other (.startNs p u) :: es) _
      | endNs p => simp only [tokOf, List.map_cons, normF, resolve]; exact resolveGo_tokOf (FEv.other (.endNs p) :: es) _
      | start t a => simp only [tokOf, List.map_cons, normF, resolve]; exact resolveGo_tokOf (FEv.other (.start t a) :: es) _
      | end_ t => simp only [tokOf, List.map_cons, normF, resolve]; exact resolveGo_tokOf (FEv.other (.end_ t) :: es) _

end Genshi.Xml

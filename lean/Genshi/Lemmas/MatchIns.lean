/-
  Inserting a template that never fires anywhere into the template list changes nothing:
  the simulation behind `nonmatching_template_irrelevant`.
-/
import Genshi.Lemmas.MatchRun
import Genshi.Lemmas.MatchPoint
namespace Genshi.Match
open Genshi
variable {σ : Type}

/-- insert `tn` before position `k` -/
def ins (tn : MT σ) : Nat → List (MT σ) → List (MT σ)
  | 0, mts => tn :: mts
  | _ + 1, [] => [tn]
  | k + 1, t :: ts => t :: ins tn k ts

/-- where slot `i` of the old list sits in the new one -/
def sh (k i : Nat) : Nat := if i < k then i else i + 1

theorem sh_succ (k i : Nat) : sh (k + 1) (i + 1) = sh k i + 1 := by
  unfold sh; split <;> split <;> omega

theorem sh_zero (i : Nat) : sh 0 i = i + 1 := by simp [sh]

theorem sh_lt_iff (k a b : Nat) : sh k a < sh k b ↔ a < b := by
  unfold sh; split <;> split <;> omega

theorem sh_ne (k i : Nat) : sh k i ≠ k := by unfold sh; split <;> omega

theorem ins_length (tn : MT σ) : ∀ (k : Nat) (mts : List (MT σ)), (ins tn k mts).length = mts.length + 1 := by
  intro k mts
  induction mts generalizing k with
  | nil => cases k <;> rfl
  | cons t ts ih => cases k <;> simp [ins, ih]

theorem ins_get (tn : MT σ) : ∀ (k : Nat) (mts : List (MT σ)) (i : Nat), k ≤ mts.length →
    (ins tn k mts)[sh k i]? = mts[i]? := by
  intro k mts
  induction mts generalizing k with
  | nil => intro i hk; simp at hk; subst hk; simp [ins, sh]
  | cons t ts ih =>
    intro i hk
    cases k with
    | zero => simp [ins, sh]
    | succ k =>
      cases i with
      | zero => simp [ins, sh]
      | succ i =>
        rw [sh_succ]
        simp only [ins, List.getElem?_cons_succ]
        exact ih k i (by simpa using hk)

theorem ins_append (tn t : MT σ) : ∀ (k : Nat) (mts : List (MT σ)), k ≤ mts.length →
    ins tn k mts ++ [t] = ins tn k (mts ++ [t]) := by
  intro k mts
  induction mts generalizing k with
  | nil => intro hk; simp at hk; subst hk; rfl
  | cons x xs ih =>
    intro hk
    cases k with
    | zero => rfl
    | succ k => simp [ins, ih k (by simpa using hk)]

/-! generic forms of the list operations, with the window as a predicate on positions -/

/-- apply `g` to the slots whose position satisfies `w` -/
def mapW (w : Nat → Bool) (g : MT σ → MT σ) : List (MT σ) → List (MT σ)
  | [] => []
  | t :: ts => (if w 0 then g t else t) :: mapW (fun p => w (p + 1)) g ts

/-- the scan with positions relative to the head of the list -/
def scanP (w : Nat → Bool) (e : Event) : List (MT σ) → List (MT σ) × Option Nat
  | [] => ([], none)
  | t :: ts =>
    if w 0 then
      let r := t.test e false
      if r.2 then ({ r.1 with hits := r.1.hits + 1 } :: ts, some 0)
      else
        let q := scanP (fun p => w (p + 1)) e ts
        (r.1 :: q.1, q.2.map (· + 1))
    else
      let q := scanP (fun p => w (p + 1)) e ts
      (t :: q.1, q.2.map (· + 1))

theorem scan_eq_scanP (e : Event) (s : Nat) (en : Option Nat) : ∀ (j : Nat) (mts : List (MT σ)),
    scan e s en j mts =
      ((scanP (fun p => inWindow s en (j + p)) e mts).1, (scanP (fun p => inWindow s en (j + p)) e mts).2.map (j + ·)) := by
  intro j mts
  induction mts generalizing j with
  | nil => simp [scan, scanP]
  | cons t ts ih =>
    unfold scan scanP
    have hfun : (fun p => inWindow s en (j + (p + 1))) = (fun p => inWindow s en (j + 1 + p)) := by
      funext p; rw [show j + (p + 1) = j + 1 + p by omega]
    by_cases hw : inWindow s en j = true
    · simp only [Nat.add_zero, hw, ↓reduceIte]
      by_cases hf : (t.test e false).2 = true
      · simp [hf]
      · simp only [hf, Bool.false_eq_true, ↓reduceIte]
        rw [ih (j + 1), hfun]
        simp only [Option.map_map]
        congr 2
        funext x; simp; omega
    · simp only [Nat.add_zero, hw, Bool.false_eq_true, ↓reduceIte]
      rw [ih (j + 1), hfun]
      simp only [Option.map_map]
      congr 2
      funext x; simp; omega

theorem scanEnd_eq_mapW (e : Event) (s : Nat) (en : Option Nat) : ∀ (j : Nat) (mts : List (MT σ)),
    scanEnd e s en j mts = mapW (fun p => inWindow s en (j + p)) (fun t => (t.test e false).1) mts := by
  intro j mts
  induction mts generalizing j with
  | nil => rfl
  | cons t ts ih =>
    simp only [scanEnd, mapW, Nat.add_zero]
    rw [ih (j + 1)]
    congr 2
    funext p; rw [show j + (p + 1) = j + 1 + p by omega]

theorem updRange_eq_mapW (e : Event) (lo hi : Nat) : ∀ (j : Nat) (mts : List (MT σ)),
    updRange e lo hi j mts =
      mapW (fun p => decide (lo ≤ j + p) && decide (j + p < hi)) (fun t => (t.test e true).1) mts := by
  intro j mts
  induction mts generalizing j with
  | nil => rfl
  | cons t ts ih =>
    simp only [updRange, mapW, Nat.add_zero]
    rw [ih (j + 1)]
    congr 2
    funext p; rw [show j + (p + 1) = j + 1 + p by omega]

theorem mapW_congr {w w' : Nat → Bool} (g : MT σ → MT σ) (h : ∀ p, w p = w' p) (mts : List (MT σ)) :
    mapW w g mts = mapW w' g mts := by
  have : w = w' := funext h
  rw [this]

theorem mapW_ins (g : MT σ → MT σ) (tn : MT σ) : ∀ (k : Nat) (mts : List (MT σ)) (w w' : Nat → Bool),
    k ≤ mts.length → (∀ p, w' (sh k p) = w p) →
    mapW w' g (ins tn k mts) = ins (if w' k then g tn else tn) k (mapW w g mts) := by
  intro k mts
  induction mts generalizing k with
  | nil =>
    intro w w' hk _
    simp at hk; subst hk
    simp [ins, mapW]
  | cons t ts ih =>
    intro w w' hk hw
    cases k with
    | zero =>
      simp only [ins, mapW]
      congr 1
      have h0 := hw 0
      simp only [sh_zero] at h0
      congr 1
      · simp only [h0]
      · apply mapW_congr
        intro p
        have := hw (p + 1)
        simp only [sh_zero] at this
        rw [← this]
    | succ k =>
      simp only [ins, mapW]
      have h0 := hw 0
      simp only [sh, Nat.zero_lt_succ, ↓reduceIte] at h0
      rw [h0]
      congr 1
      rw [ih k (fun p => w (p + 1)) (fun p => w' (p + 1)) (by simpa using hk)
        (by intro p; have := hw (p + 1); rw [sh_succ] at this; exact this)]

/-- scanning the list with a never-firing template inserted: the same template fires (at its
    shifted position), the other slots end up the same, the inserted one may have been asked -/
theorem scanP_ins (e : Event) (tn : MT σ) (hn : NeverFires tn) :
    ∀ (k : Nat) (mts : List (MT σ)) (w w' : Nat → Bool),
    k ≤ mts.length → (∀ p, w' (sh k p) = w p) →
    ∃ tn', Shape tn tn' ∧
      scanP w' e (ins tn k mts) = (ins tn' k (scanP w e mts).1, (scanP w e mts).2.map (sh k)) := by
  intro k mts
  induction mts generalizing k with
  | nil =>
    intro w w' hk _
    simp at hk; subst hk
    simp only [ins, scanP]
    by_cases h0 : w' 0 = true
    · simp only [h0, ↓reduceIte, (test_neverFires hn e false).1, Bool.false_eq_true]
      exact ⟨_, test_shape tn e false, rfl⟩
    · simp only [h0, Bool.false_eq_true, ↓reduceIte]
      exact ⟨tn, Shape.refl tn, rfl⟩
  | cons t ts ih =>
    intro w w' hk hw
    cases k with
    | zero =>
      have hfun : (fun p => w' (p + 1)) = w := by
        funext p; have := hw p; simp only [sh_zero] at this; exact this
      simp only [ins]
      conv => enter [1, tn', 2, 1]; unfold scanP
      by_cases h0 : w' 0 = true
      · simp only [h0, ↓reduceIte, (test_neverFires hn e false).1, Bool.false_eq_true, hfun]
        refine ⟨_, test_shape tn e false, ?_⟩
        congr 1
      · simp only [h0, Bool.false_eq_true, ↓reduceIte, hfun]
        refine ⟨tn, Shape.refl tn, ?_⟩
        congr 1
    | succ k =>
      have h0 := hw 0
      simp only [sh, Nat.zero_lt_succ, ↓reduceIte] at h0
      obtain ⟨tn', hsh, hrec⟩ := ih k (fun p => w (p + 1)) (fun p => w' (p + 1)) (by simpa using hk)
        (by intro p; have := hw (p + 1); rw [sh_succ] at this; exact this)
      simp only [ins]
      unfold scanP
      rw [h0]
      by_cases hw0 : w 0 = true
      · simp only [hw0, ↓reduceIte]
        by_cases hf : (t.test e false).2 = true
        · simp only [hf, ↓reduceIte]
          exact ⟨tn, Shape.refl tn, by simp [ins, sh]⟩
        · simp only [hf, Bool.false_eq_true, ↓reduceIte, hrec]
          refine ⟨tn', hsh, ?_⟩
          simp only [ins, Prod.mk.injEq, true_and]
          cases (scanP (fun p => w (p + 1)) e ts).2 <;> simp [sh_succ]
      · simp only [hw0, Bool.false_eq_true, ↓reduceIte, hrec]
        refine ⟨tn', hsh, ?_⟩
        simp only [ins, Prod.mk.injEq, true_and]
        cases (scanP (fun p => w (p + 1)) e ts).2 <;> simp [sh_succ]

theorem retireAt_ins (tn : MT σ) : ∀ (k : Nat) (mts : List (MT σ)) (i : Nat), k ≤ mts.length →
    retireAt (sh k i) (ins tn k mts) = ins tn k (retireAt i mts) := by
  intro k mts
  induction mts generalizing k with
  | nil => intro i hk; simp at hk; subst hk; simp [ins, sh, retireAt]
  | cons t ts ih =>
    intro i hk
    cases k with
    | zero => simp [ins, sh, retireAt]
    | succ k =>
      cases i with
      | zero => simp [ins, sh, retireAt]
      | succ i =>
        rw [sh_succ]
        simp only [ins, retireAt]
        rw [ih k i (by simpa using hk)]

end Genshi.Match

namespace Genshi.Match
open Genshi
variable {σ : Type}

/-- the filter never drops a slot of the template list -/
theorem run_length : ∀ (f start : Nat) (end_ : Option Nat) (items : List (Item σ)) (mts : List (MT σ))
    (r : List (MT σ) × List Event), run f start end_ items mts = some r → mts.length ≤ r.1.length := by
  intro f
  induction f with
  | zero => intro start end_ items mts r h; simp [run] at h
  | succ f ih =>
    intro start end_ items mts r h
    cases items with
    | nil => simp [run] at h; subst h; exact Nat.le_refl _
    | cons it rest =>
      cases it with
      | reg t =>
        simp only [run] at h
        have := ih _ _ _ _ _ h
        simp at this; omega
      | ev e =>
        by_cases hS : isStart e = true
        · rcases run_start_cases hS h with ⟨mts1, p, hsc, hp, rfl⟩ |
            ⟨mts1, idx, t, inner, tail, rest', mts3, innerOut, mts4, out, p, hsc, ht, hst, h3, h4, h5, rfl⟩
          · have h1 := scan_length e start end_ 0 mts; rw [hsc] at h1
            have := ih _ _ _ _ _ hp
            simp only at h1 ⊢; omega
          · have h1 := scan_length e start end_ 0 mts; rw [hsc] at h1
            have h2 : (fired t idx mts1).length = mts1.length := by
              unfold fired; split
              · exact retireAt_length idx mts1
              · rfl
            have e3 := ih _ _ _ _ _ h3
            have e4 := ih _ _ _ _ _ h4
            have e5 := updRange_length tail start (idx + 1) 0 mts4
            have e6 := ih _ _ _ _ _ h5
            simp only at h1 e3 e4 e6 ⊢; omega
        · simp only [run, hS, Bool.false_eq_true, ↓reduceIte] at h
          by_cases hE : isEnd e = true
          · simp only [hE, ↓reduceIte] at h
            obtain ⟨q, hr, rfl⟩ := emit_some h
            have := ih _ _ _ _ _ hr
            have e1 := scanEnd_length e start end_ 0 mts
            simp only at this ⊢; omega
          · simp only [hE, Bool.false_eq_true, ↓reduceIte] at h
            obtain ⟨q, hr, rfl⟩ := emit_some h
            exact ih _ _ _ _ q hr

/-- lower window bounds that denote the same old slots -/
def SRel (k s s' : Nat) : Prop := ∀ p, s ≤ p ↔ s' ≤ sh k p

/-- upper window bounds that denote the same old slots -/
def ERel (k : Nat) (en en' : Option Nat) : Prop :=
  (en = none ∧ en' = none) ∨ ∃ n n', en = some n ∧ en' = some n' ∧ ∀ p, p < n ↔ sh k p < n'

theorem inWindow_rel {k s s' : Nat} {en en' : Option Nat} (hs : SRel k s s') (he : ERel k en en') (p : Nat) :
    inWindow s' en' (sh k p) = inWindow s en p := by
  rcases he with ⟨rfl, rfl⟩ | ⟨n, n', rfl, rfl, hn⟩
  · simp only [inWindow, Bool.and_true]
    exact decide_eq_decide.mpr (hs p).symm
  · simp only [inWindow]
    rw [decide_eq_decide.mpr (hs p).symm, decide_eq_decide.mpr (hn p).symm]

theorem erel_preEnd (k : Nat) (t : MT σ) (idx : Nat) :
    ERel k (some (preEnd t idx)) (some (preEnd t (sh k idx))) := by
  right
  refine ⟨_, _, rfl, rfl, ?_⟩
  intro p
  have := sh_lt_iff k p idx
  have h2 := sh_lt_iff k idx p
  unfold preEnd
  split <;> omega

theorem srel_succ (k idx : Nat) : SRel k (idx + 1) (sh k idx + 1) := by
  intro p
  have := sh_lt_iff k idx p
  omega

/-- **A template that never fires is irrelevant**, wherever it is inserted in the list:
    the output is the same and the other templates end in the same states. -/
theorem run_ins : ∀ (f s : Nat) (en : Option Nat) (items : List (Item σ)) (mts : List (MT σ))
    (r : List (MT σ) × List Event) (k : Nat) (tn : MT σ) (s' : Nat) (en' : Option Nat),
    NeverFires tn → k ≤ mts.length → SRel k s s' → ERel k en en' →
    run f s en items mts = some r →
    ∃ tn', Shape tn tn' ∧ run f s' en' items (ins tn k mts) = some (ins tn' k r.1, r.2) := by
  intro f
  induction f with
  | zero => intro s en items mts r k tn s' en' _ _ _ _ h; simp [run] at h
  | succ f ih =>
    intro s en items mts r k tn s' en' hn hk hs he h
    have hwin : ∀ p, (fun p => inWindow s' en' (0 + p)) (sh k p) = (fun p => inWindow s en (0 + p)) p := by
      intro p; simp only [Nat.zero_add]; exact inWindow_rel hs he p
    cases items with
    | nil => simp [run] at h; subst h; exact ⟨tn, Shape.refl tn, by simp [run]⟩
    | cons it rest =>
      cases it with
      | reg t =>
        simp only [run] at h ⊢
        rw [ins_append tn t k mts hk]
        exact ih s en rest (mts ++ [t]) r k tn s' en' hn (by simp; omega) hs he h
      | ev e =>
        by_cases hS : isStart e = true
        · obtain ⟨tn1, hsh1, hscan⟩ := scanP_ins e tn hn k mts (fun p => inWindow s en (0 + p)) (fun p => inWindow s' en' (0 + p)) hk hwin
          have hn1 : NeverFires tn1 := static_neverFires tn tn1 hsh1 hn
          have hscan' : scan e s' en' 0 (ins tn k mts) =
              (ins tn1 k (scan e s en 0 mts).1, (scan e s en 0 mts).2.map (sh k)) := by
            rw [scan_eq_scanP, scan_eq_scanP, hscan]
            simp only [Option.map_map]
            congr 1
            cases (scanP (fun p => inWindow s en (0 + p)) e mts).2 <;> simp
          rcases run_start_cases hS h with ⟨mts1, p, hsc, hp, rfl⟩ |
            ⟨mts1, idx, t, inner, tail, rest', mts3, innerOut, mts4, out, p, hsc, ht, hst, h3, h4, h5, rfl⟩
          · rw [hsc] at hscan'
            have hl1 := scan_length e s en 0 mts; rw [hsc] at hl1
            obtain ⟨tn', hsh', hrun⟩ := ih s en rest mts1 p k tn1 s' en' hn1 (by simp only at hl1; omega) hs he hp
            refine ⟨tn', Shape.trans hsh1 hsh', ?_⟩
            simp only [run, hS, ↓reduceIte, hscan', Option.map_none, hrun, emit, Option.map_some]
          · rw [hsc] at hscan'
            have hl1 := scan_length e s en 0 mts; rw [hsc] at hl1
            simp only at hl1
            have hk1 : k ≤ mts1.length := by omega
            have hget : (ins tn1 k mts1)[sh k idx]? = some t := by rw [ins_get tn1 k mts1 idx hk1]; exact ht
            have hfired : fired t (sh k idx) (ins tn1 k mts1) = ins tn1 k (fired t idx mts1) := by
              unfold fired; split
              · exact retireAt_ins tn1 k mts1 idx hk1
              · rfl
            have hl2 : (fired t idx mts1).length = mts1.length := by
              unfold fired; split
              · exact retireAt_length idx mts1
              · rfl
            obtain ⟨tn3, hsh3, hrun3⟩ := ih s (some (preEnd t idx)) inner (fired t idx mts1) (mts3, innerOut) k tn1 s'
              (some (preEnd t (sh k idx))) hn1 (by omega) hs (erel_preEnd k t idx) h3
            have hn3 : NeverFires tn3 := static_neverFires tn1 tn3 hsh3 hn1
            have hl3 := run_length _ _ _ _ _ _ h3
            simp only at hl3
            obtain ⟨tn4, hsh4, hrun4⟩ := ih (idx + 1) en _ mts3 (mts4, out) k tn3 (sh k idx + 1) en' hn3 (by omega)
              (srel_succ k idx) he h4
            have hn4 : NeverFires tn4 := static_neverFires tn3 tn4 hsh4 hn3
            have hl4 := run_length _ _ _ _ _ _ h4
            simp only at hl4
            have hupd : updRange tail s' (sh k idx + 1) 0 (ins tn4 k mts4) =
                ins (if (decide (s' ≤ 0 + k) && decide (0 + k < sh k idx + 1)) = true then (tn4.test tail true).1 else tn4) k
                  (updRange tail s (idx + 1) 0 mts4) := by
              rw [updRange_eq_mapW, updRange_eq_mapW]
              apply mapW_ins _ tn4 k mts4 (fun p => decide (s ≤ 0 + p) && decide (0 + p < idx + 1))
                (fun p => decide (s' ≤ 0 + p) && decide (0 + p < sh k idx + 1)) (by omega)
              intro p
              simp only [Nat.zero_add]
              have h1 := hs p
              have h2 := sh_lt_iff k p idx
              have h3 := sh_lt_iff k idx p
              rw [decide_eq_decide.mpr h1.symm]
              congr 1
              apply decide_eq_decide.mpr
              omega
            generalize htn5 : (if (decide (s' ≤ 0 + k) && decide (0 + k < sh k idx + 1)) = true then (tn4.test tail true).1 else tn4) = tn5 at hupd
            have hsh5 : Shape tn4 tn5 := by
              rw [← htn5]; split
              · exact test_shape tn4 tail true
              · exact Shape.refl tn4
            have hn5 : NeverFires tn5 := static_neverFires tn4 tn5 hsh5 hn4
            have hl5 := updRange_length tail s (idx + 1) 0 mts4
            obtain ⟨tn6, hsh6, hrun6⟩ := ih s en rest' _ p k tn5 s' en' hn5 (by omega) hs he h5
            refine ⟨tn6, Shape.trans hsh1 (Shape.trans hsh3 (Shape.trans hsh4 (Shape.trans hsh5 hsh6))), ?_⟩
            simp only [run, hS, ↓reduceIte, hscan', Option.map_some, hget,
              hst, hfired, hrun3, hrun4, hupd, hrun6]
        · by_cases hE : isEnd e = true
          · simp only [run, hS, Bool.false_eq_true, ↓reduceIte, hE] at h ⊢
            obtain ⟨q, hr, rfl⟩ := emit_some h
            have hend : scanEnd e s' en' 0 (ins tn k mts) =
                ins (if inWindow s' en' (0 + k) = true then (tn.test e false).1 else tn) k (scanEnd e s en 0 mts) := by
              rw [scanEnd_eq_mapW, scanEnd_eq_mapW]
              exact mapW_ins _ tn k mts (fun p => inWindow s en (0 + p)) (fun p => inWindow s' en' (0 + p)) hk hwin
            generalize htn1 : (if inWindow s' en' (0 + k) = true then (tn.test e false).1 else tn) = tn1 at hend
            have hsh1 : Shape tn tn1 := by
              rw [← htn1]; split
              · exact test_shape tn e false
              · exact Shape.refl tn
            have hn1 : NeverFires tn1 := static_neverFires tn tn1 hsh1 hn
            have hl1 := scanEnd_length e s en 0 mts
            obtain ⟨tn', hsh', hrun⟩ := ih s en rest _ q k tn1 s' en' hn1 (by omega) hs he hr
            refine ⟨tn', Shape.trans hsh1 hsh', ?_⟩
            rw [hend, hrun]; simp [emit]
          · simp only [run, hS, Bool.false_eq_true, ↓reduceIte, hE] at h ⊢
            obtain ⟨q, hr, rfl⟩ := emit_some h
            obtain ⟨tn', hsh', hrun⟩ := ih s en rest mts q k tn s' en' hn hk hs he hr
            exact ⟨tn', hsh', by rw [hrun]; simp [emit]⟩

end Genshi.Match

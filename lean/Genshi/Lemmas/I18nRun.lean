/-
  C19 — `MessageBuffer.translate`: what one group of buffered events emits for a part of the
  translated message (`groupOut`), and the run over the parts of a translation tree.
-/
import Genshi.Lemmas.I18nParse
namespace Genshi.I18n
open Genshi

/-- events a message buffer files for message content without nested directives -/
def MEv.simple : MEv → Bool
  | .ev (.text _) => true
  | .ev (.expr _ _) => true
  | .ev (.start _ _) => true
  | .ev (.end_ _) => true
  | _ => false

def simpleG (g : List MEv) : Bool := g.all MEv.simple

/-- the START/END events of a group, in order -/
def tags : List MEv → List TEvent
  | [] => []
  | .ev (.start t a) :: g => .start t a :: tags g
  | .ev (.end_ t) :: g => .end_ t :: tags g
  | _ :: g => tags g

/-- what a group emits for a part whose string yields the events `e`: the string goes out at
    the first TEXT event, after the first START or before the first END, whichever comes
    first (expressions are passed over), or at the end -/
def groupOut (e : List TEvent) : List MEv → List TEvent
  | [] => e
  | .ev (.expr _ _) :: g => groupOut e g
  | .ev (.text _) :: g => e ++ tags g
  | .ev (.start t a) :: g => .start t a :: (e ++ tags g)
  | .ev (.end_ t) :: g => e ++ (.end_ t :: tags g)
  | _ :: g => groupOut e g

theorem groupOut_nil_eq_tags : ∀ g : List MEv, simpleG g = true → groupOut [] g = tags g
  | [], _ => rfl
  | .ev (.expr _ _) :: g, h => by
      simp only [groupOut, tags]; exact groupOut_nil_eq_tags g (by simpa [simpleG, MEv.simple] using h)
  | .ev (.text _) :: g, _ => by simp [groupOut, tags]
  | .ev (.start _ _) :: g, _ => by simp [groupOut, tags]
  | .ev (.end_ _) :: g, _ => by simp [groupOut, tags]
  | .ev (.exec _) :: g, h => by simp [simpleG, MEv.simple] at h
  | .ev (.sub _ _) :: g, h => by simp [simpleG, MEv.simple] at h
  | .ev (.other _) :: g, h => by simp [simpleG, MEv.simple] at h
  | .subStart :: g, h => by simp [simpleG, MEv.simple] at h
  | .subEnd :: g, h => by simp [simpleG, MEv.simple] at h

/-- the state after emitting `es` outside a sub-stream -/
def TrState.push (st : TrState) (es : List TEvent) : TrState := { st with out := st.out ++ es }

theorem emit_eq_push (st : TrState) (es : List TEvent) (h : st.sub = none) : st.emit es = st.push es := by
  simp [TrState.emit, TrState.push, h]

@[simp] theorem push_sub (st : TrState) (es : List TEvent) : (st.push es).sub = st.sub := rfl
@[simp] theorem push_rem (st : TrState) (es : List TEvent) : (st.push es).rem = st.rem := rfl
@[simp] theorem push_out (st : TrState) (es : List TEvent) : (st.push es).out = st.out ++ es := rfl
@[simp] theorem push_bad (st : TrState) (es : List TEvent) : (st.push es).badSub = st.badSub := rfl
theorem push_push (st : TrState) (a b : List TEvent) : (st.push a).push b = st.push (a ++ b) := by
  simp [TrState.push, List.append_assoc]
theorem push_nil (st : TrState) : st.push [] = st := by simp [TrState.push]

/-- the pending string has been emitted (or is empty) -/
def quiet : Option Str → Bool
  | none => true
  | some s => s.isEmpty

theorem flush_quiet (vs : List (Str × TEvent)) (st : TrState) (p : Option Str) (h : quiet p = true) :
    flushPending vs st p = .ok (st, p) := by
  cases p with
  | none => rfl
  | some s => simp [quiet] at h; simp [flushPending, h, pure, Except.pure]

/-- after the string is out, a group only passes its START/END events -/
theorem runGroup_quiet (b : MB) (k : Nat) : ∀ (g : List MEv) (st : TrState) (p : Option Str),
    quiet p = true → simpleG g = true → st.sub = none →
    runGroup b k g st p = .ok (st.push (tags g), p)
  | [], st, p, _, _, _ => by simp [runGroup, tags, push_nil, pure, Except.pure]
  | .ev (.expr _ _) :: g, st, p, hq, hg, hs => by
      simp only [runGroup, tags]
      exact runGroup_quiet b k g st p hq (by simpa [simpleG, MEv.simple] using hg) hs
  | .ev (.text _) :: g, st, p, hq, hg, hs => by
      simp only [runGroup, tags, flush_quiet _ st p hq, bind, Except.bind]
      exact runGroup_quiet b k g st p hq (by simpa [simpleG, MEv.simple] using hg) hs
  | .ev (.start t a) :: g, st, p, hq, hg, hs => by
      simp only [runGroup, tags, emit_eq_push _ _ hs, flush_quiet _ _ p hq, bind, Except.bind]
      rw [runGroup_quiet b k g _ p hq (by simpa [simpleG, MEv.simple] using hg) (by simpa using hs)]
      simp [push_push]
  | .ev (.end_ t) :: g, st, p, hq, hg, hs => by
      simp only [runGroup, tags, flush_quiet _ st p hq, emit_eq_push _ _ hs, bind, Except.bind]
      rw [runGroup_quiet b k g _ p hq (by simpa [simpleG, MEv.simple] using hg) (by simpa using hs)]
      simp [push_push]
  | .ev (.exec _) :: g, _, _, _, h, _ => by simp [simpleG, MEv.simple] at h
  | .ev (.sub _ _) :: g, _, _, _, h, _ => by simp [simpleG, MEv.simple] at h
  | .ev (.other _) :: g, _, _, _, h, _ => by simp [simpleG, MEv.simple] at h
  | .subStart :: g, _, _, _, h, _ => by simp [simpleG, MEv.simple] at h
  | .subEnd :: g, _, _, _, h, _ => by simp [simpleG, MEv.simple] at h

theorem flush_some (vs : List (Str × TEvent)) (st : TrState) (s : Str) (e : List TEvent)
    (hs : s ≠ []) (hy : yieldParts vs s = .ok e) (hsub : st.sub = none) :
    flushPending vs st (some s) = .ok (st.push e, none) := by
  have : s.isEmpty = false := by cases s <;> simp_all
  simp [flushPending, this, hy, bind, Except.bind, pure, Except.pure, emit_eq_push _ _ hsub]

/-- a group followed by the final flush emits `groupOut` (non-empty string) -/
theorem runGroup_some (b : MB) (k : Nat) (s : Str) (e : List TEvent) (hs : s ≠ [])
    (hy : yieldParts b.values s = .ok e) : ∀ (g : List MEv) (st : TrState),
    simpleG g = true → st.sub = none →
    (do let r ← runGroup b k g st (some s); let r2 ← flushPending b.values r.1 r.2; pure r2.1) =
      .ok (st.push (groupOut e g))
  | [], st, _, hsub => by
      simp [runGroup, groupOut, flush_some _ st s e hs hy hsub, bind, Except.bind, pure, Except.pure]
  | .ev (.expr _ _) :: g, st, hg, hsub => by
      simp only [runGroup, groupOut]
      exact runGroup_some b k s e hs hy g st (by simpa [simpleG, MEv.simple] using hg) hsub
  | .ev (.text _) :: g, st, hg, hsub => by
      simp only [runGroup, groupOut, flush_some _ st s e hs hy hsub, bind, Except.bind]
      rw [runGroup_quiet b k g _ none rfl (by simpa [simpleG, MEv.simple] using hg) (by simpa using hsub)]
      simp [flushPending, pure, Except.pure, push_push]
  | .ev (.start t a) :: g, st, hg, hsub => by
      simp only [runGroup, groupOut, emit_eq_push _ _ hsub, bind, Except.bind]
      rw [flush_some _ _ s e hs hy (by simpa using hsub)]
      simp only
      rw [runGroup_quiet b k g _ none rfl (by simpa [simpleG, MEv.simple] using hg) (by simpa using hsub)]
      simp [flushPending, pure, Except.pure, push_push]
  | .ev (.end_ t) :: g, st, hg, hsub => by
      simp only [runGroup, groupOut, flush_some _ st s e hs hy hsub, bind, Except.bind]
      rw [emit_eq_push _ _ (by simpa using hsub)]
      rw [runGroup_quiet b k g _ none rfl (by simpa [simpleG, MEv.simple] using hg) (by simpa using hsub)]
      simp [flushPending, pure, Except.pure, push_push]
  | .ev (.exec _) :: g, _, h, _ => by simp [simpleG, MEv.simple] at h
  | .ev (.sub _ _) :: g, _, h, _ => by simp [simpleG, MEv.simple] at h
  | .ev (.other _) :: g, _, h, _ => by simp [simpleG, MEv.simple] at h
  | .subStart :: g, _, h, _ => by simp [simpleG, MEv.simple] at h
  | .subEnd :: g, _, h, _ => by simp [simpleG, MEv.simple] at h

theorem yieldParts_nil (vs : List (Str × TEvent)) : yieldParts vs [] = .ok [] := by
  simp [yieldParts, splitParams, splitGo, List.foldlM, pure, Except.pure, bind, Except.bind]

/-- a group followed by the final flush emits `groupOut`, for every string -/
theorem runGroup_out (b : MB) (k : Nat) (s : Str) (e : List TEvent)
    (hy : yieldParts b.values s = .ok e) (g : List MEv) (st : TrState)
    (hg : simpleG g = true) (hsub : st.sub = none) :
    (do let r ← runGroup b k g st (some s); let r2 ← flushPending b.values r.1 r.2; pure r2.1) =
      .ok (st.push (groupOut e g)) := by
  by_cases hs : s = []
  · subst hs
    have he : e = [] := by rw [yieldParts_nil] at hy; cases hy; rfl
    subst he
    rw [runGroup_quiet b k g st (some []) rfl hg hsub]
    simp [bind, Except.bind, flush_quiet _ _ (some []) rfl, pure, Except.pure, groupOut_nil_eq_tags g hg]
  · exact runGroup_some b k s e hs hy g st hg hsub


/-! ### one part -/

theorem runParts_append (b : MB) : ∀ (p1 p2 : List (Nat × Str)) (st : TrState),
    runParts b (p1 ++ p2) st = (runParts b p1 st).bind (runParts b p2)
  | [], p2, st => by simp [runParts, Except.bind, pure, Except.pure]
  | (k, s) :: p1, p2, st => by
      simp only [List.cons_append, runParts, bind]
      cases h : runPart b k s st with
      | error e => simp [Except.bind]
      | ok st' => simp only [Except.bind]; exact runParts_append b p1 p2 st'

theorem runPart_group (b : MB) (k : Nat) (s : Str) (e : List TEvent) (hy : yieldParts b.values s = .ok e)
    (st : TrState) (g : List MEv) (more : List (List MEv)) (hrem : st.rem k = some (g :: more))
    (hg : simpleG g = true) (hsub : st.sub = none) :
    runPart b k s st = .ok (({ st with rem := setGroups st.rem k more } : TrState).push (groupOut e g)) := by
  unfold runPart
  simp only [hrem]
  have := runGroup_out b k s e hy g { st with rem := setGroups st.rem k more } hg (by simpa using hsub)
  simp only [bind, Except.bind, pure, Except.pure] at this ⊢
  revert this
  cases runGroup b k g { st with rem := setGroups st.rem k more } (some s) with
  | error err => simp
  | ok r =>
    simp only
    cases flushPending b.values r.1 r.2 with
    | error err => simp
    | ok r2 => simp

theorem runPart_dummy (b : MB) (k : Nat) (s : Str) (e : List TEvent) (hy : yieldParts b.values s = .ok e)
    (st : TrState) (hrem : st.rem k = some []) (hsub : st.sub = none) :
    runPart b k s st = .ok (st.push e) := by
  unfold runPart
  simp only [hrem]
  have := runGroup_out b k s e hy [.ev (.text [])] st (by simp [simpleG, MEv.simple]) hsub
  simp only [bind, Except.bind, pure, Except.pure] at this ⊢
  revert this
  cases runGroup b k [.ev (.text [])] st (some s) with
  | error err => simp
  | ok r =>
    simp only
    cases flushPending b.values r.1 r.2 with
    | error err => simp
    | ok r2 => simp [groupOut, tags]

/-! ### translation trees against the buffered groups -/

/-- what the `i`-th of the `m + 1` groups of an element must emit for the events `e` -/
def expectedOut (t : QName) (a : TAttrs) (m i : Nat) (e : List TEvent) : List TEvent :=
  (if i = 0 then [.start t a] else []) ++ e ++ (if i = m then [.end_ t] else [])

/-- the groups filed for an element with `m` child elements: one per gap, the first opening
    and the last closing the element -/
structure GoodElem (gs : List (List MEv)) (t : QName) (a : TAttrs) (m : Nat) : Prop where
  len : gs.length = m + 1
  simple : ∀ g ∈ gs, simpleG g = true
  out : ∀ (i : Nat) (h : i < gs.length) (e : List TEvent), groupOut e gs[i] = expectedOut t a m i e

mutual
  def XNode.nums : XNode → List Nat
    | .ph n _ r => n :: r.nums
  def XRest.nums : XRest → List Nat
    | .nil => []
    | .cons x _ r => x.nums ++ r.nums
end

mutual
  def XNode.segs : XNode → List Str
    | .ph _ s0 r => s0 :: r.segs
  def XRest.segs : XRest → List Str
    | .nil => []
    | .cons x s r => x.segs ++ s :: r.segs
end

def XRest.length : XRest → Nat
  | .nil => 0
  | .cons _ _ r => r.length + 1

/-- element numbers of the message: tag and attributes of the START event -/
abbrev World := Nat → Option (QName × TAttrs)

mutual
  /-- every placeholder of the tree names an element of the message whose groups are intact
      and which has as many child elements as the placeholder has child placeholders -/
  def XNode.good (W : World) (rem : Groups) : XNode → Prop
    | .ph n _ r => n ≠ 0 ∧ ∃ t a gs, W n = some (t, a) ∧ rem n = some gs ∧ GoodElem gs t a r.length ∧ r.good W rem
  def XRest.good (W : World) (rem : Groups) : XRest → Prop
    | .nil => True
    | .cons x _ r => x.good W rem ∧ r.good W rem
end

mutual
  /-- the translated message: every placeholder replaced by its original element -/
  def XNode.render (W : World) (Y : Str → List TEvent) : XNode → List TEvent
    | .ph n s0 r =>
        match W n with
        | some (t, a) => .start t a :: (Y s0 ++ (r.render W Y ++ [.end_ t]))
        | none => []
  def XRest.render (W : World) (Y : Str → List TEvent) : XRest → List TEvent
    | .nil => []
    | .cons x s r => x.render W Y ++ (Y s ++ r.render W Y)
end

mutual
  theorem XNode.good_congr (W : World) (rem rem' : Groups) : ∀ (x : XNode),
      (∀ k ∈ x.nums, rem' k = rem k) → x.good W rem → x.good W rem'
    | .ph n s0 r, h, hg => by
        simp only [XNode.good] at hg ⊢
        obtain ⟨hn, t, a, gs, hw, hr, hge, hrest⟩ := hg
        refine ⟨hn, t, a, gs, hw, ?_, hge, ?_⟩
        · rw [h n (by simp [XNode.nums])]; exact hr
        · exact XRest.good_congr W rem rem' r (fun k hk => h k (by simp [XNode.nums, hk])) hrest
  theorem XRest.good_congr (W : World) (rem rem' : Groups) : ∀ (r : XRest),
      (∀ k ∈ r.nums, rem' k = rem k) → r.good W rem → r.good W rem'
    | .nil, _, _ => trivial
    | .cons x s r, h, hg => by
        simp only [XRest.good] at hg ⊢
        exact ⟨XNode.good_congr W rem rem' x (fun k hk => h k (by simp [XRest.nums, hk])) hg.1,
               XRest.good_congr W rem rem' r (fun k hk => h k (by simp [XRest.nums, hk])) hg.2⟩
end

/-- output of the gaps `j, j+1, …` of an element and of the child placeholders between them -/
def restOut (W : World) (Y : Str → List TEvent) (t : QName) (a : TAttrs) (m : Nat) : Nat → Str → XRest → List TEvent
  | j, s0, .nil => expectedOut t a m j (Y s0)
  | j, s0, .cons x s r => expectedOut t a m j (Y s0) ++ (x.render W Y ++ restOut W Y t a m (j + 1) s r)

theorem restOut_eq (W : World) (Y : Str → List TEvent) (t : QName) (a : TAttrs) (m : Nat) :
    ∀ (r : XRest) (j : Nat) (s0 : Str), j + r.length = m →
      restOut W Y t a m j s0 r =
        (if j = 0 then [.start t a] else []) ++ (Y s0 ++ (r.render W Y ++ [.end_ t]))
  | .nil, j, s0, h => by
      simp only [XRest.length, Nat.add_zero] at h
      simp [restOut, expectedOut, XRest.render, h]
  | .cons x s r, j, s0, h => by
      simp only [XRest.length] at h
      have hj : j ≠ m := by omega
      rw [restOut, restOut_eq W Y t a m r (j + 1) s (by omega)]
      simp [expectedOut, XRest.render, hj, List.append_assoc]


/-- running `parts` from `st` emits `out`, touches only the groups of `nums`, and goes on with `more` -/
def Ran (b : MB) (parts more : List (Nat × Str)) (st : TrState) (out : List TEvent) (nums : List Nat) : Prop :=
  ∃ st', runParts b (parts ++ more) st = runParts b more st' ∧ st'.out = st.out ++ out ∧ st'.sub = none ∧
    st'.badSub = st.badSub ∧ ∀ k, k ∉ nums → st'.rem k = st.rem k

theorem partOf_ne_zero (n : Nat) (s : Str) (h : n ≠ 0) : partOf n s = [(n, s)] := by
  simp [partOf, h]

theorem setGroups_same (ev : Groups) (k : Nat) (gs : List (List MEv)) : setGroups ev k gs k = some gs := by
  simp [setGroups]

theorem setGroups_other (ev : Groups) (k j : Nat) (gs : List (List MEv)) (h : j ≠ k) : setGroups ev k gs j = ev j := by
  simp [setGroups, h]

mutual
  theorem run_node (b : MB) (W : World) (Y : Str → List TEvent) : ∀ (x : XNode) (st : TrState) (more : List (Nat × Str)),
      x.good W st.rem → x.nums.Nodup → st.sub = none → (∀ s ∈ x.segs, yieldParts b.values s = .ok (Y s)) →
      Ran b x.parts more st (x.render W Y) x.nums
    | .ph n s0 r, st, more, hg, hnd, hsub, hseg => by
        simp only [XNode.good] at hg
        obtain ⟨hn, t, a, gs, hw, hrem, hge, hrest⟩ := hg
        have := run_rest b W Y r n t a gs r.length 0 s0 st more hn (by simpa using hrem) hge (by simp) hrest
          (by simpa [XNode.nums] using hnd) hsub (by simpa [XNode.segs] using hseg)
        simp only [XNode.parts, XNode.render, hw, XNode.nums]
        rw [restOut_eq W Y t a r.length r 0 s0 (by simp)] at this
        simpa using this
  theorem run_rest (b : MB) (W : World) (Y : Str → List TEvent) : ∀ (r : XRest) (n : Nat) (t : QName) (a : TAttrs)
      (gs : List (List MEv)) (m j : Nat) (s0 : Str) (st : TrState) (more : List (Nat × Str)),
      n ≠ 0 → st.rem n = some (gs.drop j) → GoodElem gs t a m → j + r.length = m → r.good W st.rem →
      (n :: r.nums).Nodup → st.sub = none → (∀ s ∈ s0 :: r.segs, yieldParts b.values s = .ok (Y s)) →
      Ran b (XRest.parts n s0 r) more st (restOut W Y t a m j s0 r) (n :: r.nums)
    | .nil, n, t, a, gs, m, j, s0, st, more, hn, hrem, hge, hj, _, _, hsub, hseg => by
        simp only [XRest.length, Nat.add_zero] at hj
        subst hj
        have hlt : j < gs.length := by rw [hge.len]; omega
        have hdrop : gs.drop j = gs[j] :: gs.drop (j + 1) := List.drop_eq_getElem_cons hlt
        have hpart := runPart_group b n s0 (Y s0) (hseg s0 (by simp)) st gs[j] (gs.drop (j + 1))
          (by rw [hrem, hdrop]) (hge.simple _ (List.getElem_mem hlt)) hsub
        rw [hge.out j hlt] at hpart
        refine ⟨({ st with rem := setGroups st.rem n (gs.drop (j + 1)) } : TrState).push (expectedOut t a j j (Y s0)),
          ?_, ?_, ?_, ?_, ?_⟩
        · simp only [XRest.parts, partOf_ne_zero n s0 hn, List.cons_append, List.nil_append, runParts, hpart,
            bind, Except.bind]
        · simp [restOut]
        · simpa using hsub
        · simp
        · intro k hk
          simp only [XRest.nums, List.mem_cons, List.not_mem_nil, or_false] at hk
          simp [setGroups_other _ _ _ _ hk]
    | .cons x s r, n, t, a, gs, m, j, s0, st, more, hn, hrem, hge, hj, hgood, hnd, hsub, hseg => by
        simp only [XRest.length] at hj
        simp only [XRest.good] at hgood
        simp only [XRest.nums, List.nodup_cons, List.mem_append, not_or, List.nodup_append] at hnd
        obtain ⟨⟨hnx, hnr⟩, hxnd, hrnd, hdisj⟩ := hnd
        have hlt : j < gs.length := by rw [hge.len]; omega
        have hdrop : gs.drop j = gs[j] :: gs.drop (j + 1) := List.drop_eq_getElem_cons hlt
        have hpart := runPart_group b n s0 (Y s0) (hseg s0 (by simp)) st gs[j] (gs.drop (j + 1))
          (by rw [hrem, hdrop]) (hge.simple _ (List.getElem_mem hlt)) hsub
        rw [hge.out j hlt] at hpart
        -- the state after the gap `j`
        let st1 : TrState := ({ st with rem := setGroups st.rem n (gs.drop (j + 1)) } : TrState).push (expectedOut t a m j (Y s0))
        have hst1 : runPart b n s0 st = .ok st1 := hpart
        have hrem1 : ∀ k, k ≠ n → st1.rem k = st.rem k := fun k hk => by simp [st1, setGroups_other _ _ _ _ hk]
        -- the child placeholder
        have hxg : x.good W st1.rem :=
          XNode.good_congr W st.rem st1.rem x (fun k hk => hrem1 k (fun h => hnx (h ▸ hk))) hgood.1
        obtain ⟨st2, hrun2, hout2, hsub2, hbad2, hrem2⟩ :=
          run_node b W Y x st1 (XRest.parts n s r ++ more) hxg hxnd (by simpa [st1] using hsub)
            (fun s' hs' => hseg s' (by simp [XRest.segs, hs']))
        -- the remaining gaps
        have hremn : st2.rem n = some (gs.drop (j + 1)) := by
          rw [hrem2 n hnx]; simp [st1, setGroups_same]
        have hrg : r.good W st2.rem :=
          XRest.good_congr W st.rem st2.rem r (fun k hk => by
            have hkx : k ∉ x.nums := fun h => hdisj k h k hk rfl
            rw [hrem2 k hkx, hrem1 k (fun h => hnr (h ▸ hk))]) hgood.2
        obtain ⟨st3, hrun3, hout3, hsub3, hbad3, hrem3⟩ :=
          run_rest b W Y r n t a gs m (j + 1) s st2 more hn hremn hge (by omega) hrg
            (by simp [List.nodup_cons, hnr, hrnd]) hsub2
            (fun s' hs' => hseg s' (by
              simp only [List.mem_cons] at hs'
              rcases hs' with rfl | hs'
              · simp [XRest.segs]
              · simp [XRest.segs, hs']))
        refine ⟨st3, ?_, ?_, hsub3, ?_, ?_⟩
        · simp only [XRest.parts, partOf_ne_zero n s0 hn, List.cons_append, List.nil_append, List.append_assoc,
            runParts, hst1, bind, Except.bind]
          rw [hrun2, hrun3]
        · rw [hout3, hout2]; simp [st1, restOut, List.append_assoc]
        · rw [hbad3, hbad2]; simp [st1]
        · intro k hk
          simp only [XRest.nums, List.mem_cons, List.mem_append, not_or] at hk
          rw [hrem3 k (by simp [hk.1, hk.2.2]), hrem2 k hk.2.1, hrem1 k hk.1]
end


/-! ### the top level of the message (order 0) -/

/-- the groups of order 0 hold text and expressions only: each emits just the string -/
def Textual0 (rem : Groups) : Prop :=
  ∃ gs, rem 0 = some gs ∧ ∀ g ∈ gs, simpleG g = true ∧ ∀ e, groupOut e g = e

def XRest.topSegs : XRest → List Str
  | .nil => []
  | .cons _ s r => s :: r.topSegs

mutual
  theorem XNode.good_nums_ne_zero (W : World) (rem : Groups) : ∀ (x : XNode), x.good W rem → 0 ∉ x.nums
    | .ph n s0 r, h => by
        simp only [XNode.good] at h
        obtain ⟨hn, t, a, gs, _, _, _, hr⟩ := h
        simp only [XNode.nums, List.mem_cons, not_or]
        exact ⟨fun h0 => hn h0.symm, XRest.good_nums_ne_zero W rem r hr⟩
  theorem XRest.good_nums_ne_zero (W : World) (rem : Groups) : ∀ (r : XRest), r.good W rem → 0 ∉ r.nums
    | .nil, _ => by simp [XRest.nums]
    | .cons x s r, h => by
        simp only [XRest.good] at h
        simp only [XRest.nums, List.mem_append, not_or]
        exact ⟨XNode.good_nums_ne_zero W rem x h.1, XRest.good_nums_ne_zero W rem r h.2⟩
end

/-- one top-level segment -/
theorem run_top_seg (b : MB) (Y : Str → List TEvent) (s0 : Str) (st : TrState)
    (hy : yieldParts b.values s0 = .ok (Y s0)) (hsub : st.sub = none)
    (htop : s0 = [] ∨ Textual0 st.rem) :
    ∃ st', runParts b (partOf 0 s0) st = .ok st' ∧ st'.out = st.out ++ Y s0 ∧ st'.sub = none ∧
      st'.badSub = st.badSub ∧ (∀ k, k ≠ 0 → st'.rem k = st.rem k) ∧ (Textual0 st.rem → Textual0 st'.rem) := by
  by_cases hs : s0 = []
  · subst hs
    have : Y [] = [] := by rw [yieldParts_nil] at hy; exact (Except.ok.inj hy).symm
    exact ⟨st, by simp [partOf, runParts, pure, Except.pure], by simp [this], hsub, rfl, fun _ _ => rfl, id⟩
  · have ht : Textual0 st.rem := htop.resolve_left hs
    obtain ⟨gs, hrem, hgs⟩ := ht
    have hp : partOf 0 s0 = [(0, s0)] := by
      have : s0.isEmpty = false := by cases s0 <;> simp_all
      simp [partOf, this]
    cases gs with
    | nil =>
      refine ⟨st.push (Y s0), ?_, by simp, by simpa using hsub, by simp, fun _ _ => by simp, fun _ => ⟨[], by simpa using hrem, by simp⟩⟩
      simp [hp, runParts, runPart_dummy b 0 s0 (Y s0) hy st hrem hsub, bind, Except.bind, pure, Except.pure]
    | cons g more =>
      have hg := hgs g (by simp)
      have := runPart_group b 0 s0 (Y s0) hy st g more hrem hg.1 hsub
      rw [hg.2] at this
      refine ⟨({ st with rem := setGroups st.rem 0 more } : TrState).push (Y s0), ?_, ?_, ?_, ?_, ?_, ?_⟩
      · simp only [hp, runParts, this, bind, Except.bind, pure, Except.pure]
      · simp
      · simpa using hsub
      · simp
      · intro k hk; simp [setGroups_other _ _ _ _ hk]
      · intro _; exact ⟨more, by simp [setGroups_same], fun g' hg' => hgs g' (by simp [hg'])⟩

theorem run_top (b : MB) (W : World) (Y : Str → List TEvent) : ∀ (r : XRest) (s0 : Str) (st : TrState),
    r.good W st.rem → r.nums.Nodup → st.sub = none → (∀ s ∈ s0 :: r.segs, yieldParts b.values s = .ok (Y s)) →
    ((∀ s ∈ s0 :: r.topSegs, s = []) ∨ Textual0 st.rem) →
    ∃ st', runParts b (XRest.parts 0 s0 r) st = .ok st' ∧ st'.out = st.out ++ (Y s0 ++ r.render W Y) ∧
      st'.sub = none ∧ st'.badSub = st.badSub
  | .nil, s0, st, _, _, hsub, hseg, htop => by
      obtain ⟨st', h1, h2, h3, h4, _, _⟩ := run_top_seg b Y s0 st (hseg s0 (by simp)) hsub
        (htop.imp (fun h => h s0 (by simp)) id)
      exact ⟨st', by simpa [XRest.parts] using h1, by simpa [XRest.render] using h2, h3, h4⟩
  | .cons x s r, s0, st, hgood, hnd, hsub, hseg, htop => by
      simp only [XRest.good] at hgood
      simp only [XRest.nums, List.nodup_append] at hnd
      obtain ⟨hxnd, hrnd, hdisj⟩ := hnd
      obtain ⟨st1, h1, hout1, hsub1, hbad1, hrem1, htex1⟩ := run_top_seg b Y s0 st (hseg s0 (by simp)) hsub
        (htop.imp (fun h => h s0 (by simp)) id)
      have hx0 : 0 ∉ x.nums := XNode.good_nums_ne_zero W st.rem x hgood.1
      have hr0 : 0 ∉ r.nums := XRest.good_nums_ne_zero W st.rem r hgood.2
      have hxg : x.good W st1.rem :=
        XNode.good_congr W st.rem st1.rem x (fun k hk => hrem1 k (fun h => hx0 (h ▸ hk))) hgood.1
      obtain ⟨st2, hrun2, hout2, hsub2, hbad2, hrem2⟩ :=
        run_node b W Y x st1 (XRest.parts 0 s r) hxg hxnd hsub1 (fun s' hs' => hseg s' (by simp [XRest.segs, hs']))
      have hrg : r.good W st2.rem :=
        XRest.good_congr W st.rem st2.rem r (fun k hk => by
          have hkx : k ∉ x.nums := fun h => hdisj k h k hk rfl
          rw [hrem2 k hkx, hrem1 k (fun h => hr0 (h ▸ hk))]) hgood.2
      have htop2 : (∀ s' ∈ s :: r.topSegs, s' = []) ∨ Textual0 st2.rem := by
        rcases htop with h | h
        · left; intro s' hs'
          apply h s'
          simp only [List.mem_cons] at hs'
          rcases hs' with rfl | hs'
          · simp [XRest.topSegs]
          · simp [XRest.topSegs, hs']
        · right
          obtain ⟨gs, hg0, hgs⟩ := htex1 h
          exact ⟨gs, by rw [hrem2 0 hx0]; exact hg0, hgs⟩
      obtain ⟨st3, hrun3, hout3, hsub3, hbad3⟩ :=
        run_top b W Y r s st2 hrg hrnd hsub2 (fun s' hs' => hseg s' (by
          simp only [List.mem_cons] at hs'
          rcases hs' with rfl | hs'
          · simp [XRest.segs]
          · simp [XRest.segs, hs'])) htop2
      refine ⟨st3, ?_, ?_, hsub3, ?_⟩
      · simp only [XRest.parts]
        rw [runParts_append, h1]
        simp only [Except.bind]
        rw [hrun2, hrun3]
      · rw [hout3, hout2, hout1]; simp [XRest.render, List.append_assoc]
      · rw [hbad3, hbad2, hbad1]

/-- **MessageBuffer.translate on a linearised translation tree**: every placeholder is
    replaced by the element it names, the text segments by what `yield_parts` makes of them,
    in the order of the translation. -/
theorem translate_tree (b : MB) (W : World) (Y : Str → List TEvent) (s0 : Str) (r : XRest)
    (hp0 : plainSeg s0 = true) (hp : r.plain = true)
    (hgood : r.good W b.events) (hnd : r.nums.Nodup)
    (hseg : ∀ s ∈ s0 :: r.segs, yieldParts b.values s = .ok (Y s))
    (htop : (∀ s ∈ s0 :: r.topSegs, s = []) ∨ Textual0 b.events) :
    b.translate (s0 ++ r.fmt) = .ok (Y s0 ++ r.render W Y) := by
  unfold MB.translate
  rw [parseMsg_fmt s0 r hp0 hp]
  obtain ⟨st', hrun, hout, _, hbad⟩ :=
    run_top b W Y r s0 { rem := b.events, sub := none, out := [] } hgood hnd rfl hseg htop
  simp only [bind, Except.bind, hrun]
  simp at hbad hout
  simp [hbad, hout, pure, Except.pure]

end Genshi.I18n

/-
  C02 — idempotence for builder streams, part 3: the run.  First pass on a
  stream without namespace events, second pass on what `reparseX` reads from the
  first pass's output; the two filter states see the same bindings (`scopeOf`),
  their counters and `auto` flags differ.
-/
import Genshi.Lemmas.XmlIdemC
namespace Genshi.Xml
open Genshi Genshi.Xml.Reader

structure BRel (st1 st2 : FSt) (pst : PSt) (ck : CkSt) : Prop where
  bind : scopeOf st2.bindings = scopeOf st1.bindings
  elems : st2.elems = st1.elems
  pend1 : st1.pending = []
  pend2 : st2.pending = []
  scope : pst.scope = scopeOf st1.bindings
  frames : PFrames st1.bindings st1.elems pst.open_ ck.stack

theorem flatStep_start (pref : List (Str × Str)) (st : FSt) (tag : QName) (attrs : AttrList) :
    flatStep pref st (.ev (.start tag attrs)) =
      ({ bindings := (flatStart pref st tag attrs).2.2.bindings, pending := [],
         elems := ((flatStart pref st tag attrs).1, (flatStart pref st tag attrs).2.2.declared.length) :: st.elems,
         counter := (flatStart pref st tag attrs).2.2.counter },
       [.start (flatStart pref st tag attrs).1 (flatStart pref st tag attrs).2.1]) := rfl

theorem flatStep_empty (pref : List (Str × Str)) (st : FSt) (tag : QName) (attrs : AttrList) :
    flatStep pref st (.empty tag attrs) =
      ({ bindings := st.bindings, pending := [], elems := st.elems,
         counter := (flatStart pref st tag attrs).2.2.counter },
       [.empty (flatStart pref st tag attrs).1 (flatStart pref st tag attrs).2.1]) := rfl

theorem toNoneD_fst (D : List (Str × Str)) : (toNoneD D).map Prod.fst = D.map Prod.fst := by
  simp [toNoneD, List.map_map, Function.comp_def]

theorem scopeOf_drop (bs1 bs2 : List Binding) (n : Nat) (h : scopeOf bs2 = scopeOf bs1) :
    scopeOf (bs2.drop n) = scopeOf (bs1.drop n) := by
  simp only [scopeOf, List.map_drop] at h ⊢
  rw [h]

theorem builder_run (pref : List (Str × Str)) (hpref : prefOK pref = true) :
    ∀ (xs : List XEv) (st1 st2 : FSt) (pst : PSt) (ck : CkSt),
      (∃ rst, Inv st1 rst ck) → docGo ck xs = true → xs.all noNs = true → BRel st1 st2 pst ck →
      ∃ xs2, reparseX pst ((flatRun pref st1 xs).map normF) = some xs2 ∧
        (flatRun pref st2 xs2).map normF = (flatRun pref st1 xs).map normF := by
  intro xs
  induction xs with
  | nil =>
    intro st1 st2 pst ck _ _ _ _
    exact ⟨[], by simp [flatRun, reparseX], by simp [flatRun]⟩
  | cons x xs ih =>
    intro st1 st2 pst ck hinv hdoc hno rel
    obtain ⟨rst, inv⟩ := hinv
    simp only [docGo] at hdoc
    simp only [List.all_cons, Bool.and_eq_true] at hno
    obtain ⟨hcond, hno'⟩ := hno
    cases hck : ckStep ck x with
    | none => rw [hck] at hdoc; cases hdoc
    | some ck' =>
      rw [hck] at hdoc
      simp only at hdoc
      obtain ⟨rst', inv', _⟩ := step_sim pref hpref st1 rst ck inv x ck' hck
      rw [flatRun_cons]
      cases x with
      | empty tag attrs =>
        simp only [ckStep, Option.map_eq_some_iff] at hck
        obtain ⟨d', hd', rfl⟩ := hck
        obtain ⟨rt, ti, _, plain, hsplit⟩ := flatStart_spec pref hpref st1 rst ck inv tag attrs d' hd'
        obtain ⟨s1, s2, s3, s4, s5⟩ := flatStart_second pref hpref st1 rst ck inv rel.pend1 st2 rel.bind
          tag attrs d' hd' _ rfl _ rfl
        rw [flatStep_empty] at inv' ⊢
        rw [inv.scope, ← rel.scope] at rt
        have hnd := ti.nodup
        rw [← toNoneD_fst] at hnd
        generalize hr1 : flatStart pref st1 tag attrs = r1 at *
        generalize hr2 : flatStart pref { st2 with pending := toNoneD r1.2.2.declared } tag attrs = r2 at *
        have rel' : BRel { bindings := st1.bindings, pending := [], elems := st1.elems, counter := r1.2.2.counter }
            { bindings := st2.bindings, pending := [], elems := st2.elems, counter := r2.2.2.counter } pst
            { ck with pendD := none, rootSeen := true } :=
          ⟨rel.bind, rel.elems, rfl, rfl, rel.scope, rel.frames⟩
        obtain ⟨xs2, q1, q2⟩ := ih _ _ pst _ ⟨rst', inv'⟩ hdoc hno' rel'
        refine ⟨nsEvents (r1.2.2.declared.map (fun d => (d.1, normUri d.2))) ++
          [.empty tag attrs] ++ endNsEvents ((r1.2.2.declared.map (fun d => (d.1, normUri d.2))).map Prod.fst) ++ xs2, ?_, ?_⟩
        · simp only [List.map_append, List.map_cons, List.map_nil, normF, List.cons_append, List.nil_append]
          rw [reparseX]
          simp only [rt, hsplit, q1, Option.map_some]
        · rw [nsEvents_toNoneD]
          simp only [List.append_assoc]
          rw [flatRun_nsEv pref (toNoneD r1.2.2.declared) st2 _ hnd (by rw [rel.pend2]; simp)]
          rw [rel.pend2, List.nil_append, List.cons_append, List.nil_append, flatRun_cons, flatStep_empty, hr2]
          simp only
          rw [flatRun_endNs pref _ _ _ rfl]
          simp only [List.map_append, List.map_cons, List.map_nil, normF, q2, s1, s2]
      | ev e =>
        cases e with
        | start tag attrs =>
          simp only [ckStep, Option.map_eq_some_iff] at hck
          obtain ⟨d', hd', rfl⟩ := hck
          obtain ⟨rt, ti, _, plain, hsplit⟩ := flatStart_spec pref hpref st1 rst ck inv tag attrs d' hd'
          obtain ⟨s1, s2, s3, s4, s5⟩ := flatStart_second pref hpref st1 rst ck inv rel.pend1 st2 rel.bind
            tag attrs d' hd' _ rfl _ rfl
          rw [flatStep_start] at inv' ⊢
          rw [inv.scope, ← rel.scope] at rt
          have hnd := ti.nodup
          rw [← toNoneD_fst] at hnd
          obtain ⟨front, hb, hf⟩ := ti.front
          generalize hr1 : flatStart pref st1 tag attrs = r1 at *
          generalize hr2 : flatStart pref { st2 with pending := toNoneD r1.2.2.declared } tag attrs = r2 at *
          have hlen : front.length = r1.2.2.declared.length := by
            have := congrArg List.length hf
            simpa using this
          have hdrop : r1.2.2.bindings.drop r1.2.2.declared.length = st1.bindings := by
            rw [hb, ← hlen]; simp
          have hlen2 : r2.2.2.declared.length = r1.2.2.declared.length := by
            rw [s4]; simp [toNoneD]
          have fr := @PFrames.cons r1.2.2.bindings r1.1 r1.2.2.declared.length tag ck.dTruthy
            ((r1.2.2.declared.map (fun d => (d.1, normUri d.2))).map Prod.fst)
            st1.elems pst.open_ ck.stack (by rw [hdrop]; exact rel.frames)
          rw [hdrop, ← rel.scope] at fr
          have rel' : BRel
              { bindings := r1.2.2.bindings, pending := [], elems := (r1.1, r1.2.2.declared.length) :: st1.elems, counter := r1.2.2.counter }
              { bindings := r2.2.2.bindings, pending := [], elems := (r2.1, r2.2.2.declared.length) :: st2.elems, counter := r2.2.2.counter }
              ⟨(r1.1, tag, pst.scope, (r1.2.2.declared.map (fun d => (d.1, normUri d.2))).map Prod.fst) :: pst.open_,
                scopeOf r1.2.2.bindings⟩
              { ck with stack := (tag, ck.dTruthy) :: ck.stack, dTruthy := d', pendD := none, rootSeen := true } :=
            ⟨s3, by simp [rel.elems, s1, hlen2], rfl, rfl, rfl, fr⟩
          obtain ⟨xs2, q1, q2⟩ := ih _ _ _ _ ⟨rst', inv'⟩ hdoc hno' rel'
          refine ⟨nsEvents (r1.2.2.declared.map (fun d => (d.1, normUri d.2))) ++ [.ev (.start tag attrs)] ++ xs2, ?_, ?_⟩
          · simp only [List.map_append, List.map_cons, List.map_nil, normF, List.cons_append, List.nil_append]
            rw [reparseX]
            simp only [rt, hsplit, q1, Option.map_some]
          · rw [nsEvents_toNoneD]
            simp only [List.append_assoc]
            rw [flatRun_nsEv pref (toNoneD r1.2.2.declared) st2 _ hnd (by rw [rel.pend2]; simp)]
            rw [rel.pend2, List.nil_append, List.cons_append, List.nil_append, flatRun_cons, flatStep_start, hr2]
            simp only [List.map_append, List.map_cons, List.map_nil, normF]
            rw [q2, s1, s2]
        | end_ tag =>
          simp only [ckStep] at hck
          cases hs : ck.stack with
          | nil => rw [hs] at hck; cases hck
          | cons top rest' =>
            obtain ⟨t', d⟩ := top
            rw [hs] at hck
            simp only at hck
            by_cases ht : tag = t'
            · subst ht
              simp only [if_true, Option.some.injEq] at hck
              subst hck
              have fr := rel.frames
              rw [hs] at fr
              generalize hb : st1.bindings = bs0 at fr
              generalize he : st1.elems = elems0 at fr
              generalize ho : pst.open_ = open0 at fr
              cases fr with
              | @cons _ name n _ _ ps elems open_ _ fr' =>
                subst hb
                have hstep1 : flatStep pref st1 (.ev (.end_ tag)) =
                    ({ st1 with bindings := st1.bindings.drop n, elems := elems }, [.end_ name]) := by
                  simp only [flatStep, he]
                rw [hstep1] at inv' ⊢
                have rel' : BRel { st1 with bindings := st1.bindings.drop n, elems := elems }
                    { st2 with bindings := st2.bindings.drop n, elems := elems }
                    ⟨open_, scopeOf (st1.bindings.drop n)⟩ { ck with stack := rest', dTruthy := d } :=
                  ⟨scopeOf_drop _ _ n rel.bind, rfl, rel.pend1, rel.pend2, rfl, fr'⟩
                obtain ⟨xs2, q1, q2⟩ := ih _ _ _ _ ⟨rst', inv'⟩ hdoc hno' rel'
                refine ⟨[.ev (.end_ tag)] ++ endNsEvents ps ++ xs2, ?_, ?_⟩
                · simp only [List.map_append, List.map_cons, List.map_nil, normF, List.cons_append, List.nil_append]
                  rw [reparseX]
                  simp only [ho, if_true, q1, Option.map_some]
                  simp
                · simp only [List.cons_append, List.nil_append, List.append_assoc]
                  rw [flatRun_cons]
                  have hs2 : flatStep pref st2 (.ev (.end_ tag)) =
                      ({ st2 with bindings := st2.bindings.drop n, elems := elems }, [.end_ name]) := by
                    simp only [flatStep, rel.elems, he]
                  rw [hs2]
                  simp only
                  rw [flatRun_endNs pref ps _ xs2 (by simpa using rel.pend2)]
                  simp only [List.map_append, List.map_cons, List.map_nil, normF, q2]
                  rfl
            · simp [ht] at hck
        | startNs p u => simp [noNs] at hcond
        | endNs p => simp [noNs] at hcond
        | xmlDecl v e s => simp [ckStep] at hck
        | text s f =>
          rw [flatStep_plain pref st1 _ rfl] at inv' ⊢
          have rel' : BRel st1 st2 pst ck' :=
            ⟨rel.bind, rel.elems, rel.pend1, rel.pend2, rel.scope, by rw [ckStep_stack_plain rfl hck]; exact rel.frames⟩
          obtain ⟨xs2, q1, q2⟩ := ih _ st2 pst ck' ⟨rst', inv'⟩ hdoc hno' rel'
          refine ⟨.ev (.text s f) :: xs2, ?_, ?_⟩
          · simp only [List.map_append, List.map_cons, List.map_nil, normF, List.cons_append, List.nil_append]
            rw [reparseX]; simp only [q1, Option.map_some]
          · rw [flatRun_cons, flatStep_plain pref st2 _ rfl]
            simp only [List.map_append, List.map_cons, List.map_nil, normF, q2]
        | comment s =>
          rw [flatStep_plain pref st1 _ rfl] at inv' ⊢
          have rel' : BRel st1 st2 pst ck' :=
            ⟨rel.bind, rel.elems, rel.pend1, rel.pend2, rel.scope, by rw [ckStep_stack_plain rfl hck]; exact rel.frames⟩
          obtain ⟨xs2, q1, q2⟩ := ih _ st2 pst ck' ⟨rst', inv'⟩ hdoc hno' rel'
          refine ⟨.ev (.comment s) :: xs2, ?_, ?_⟩
          · simp only [List.map_append, List.map_cons, List.map_nil, normF, List.cons_append, List.nil_append]
            rw [reparseX]; simp only [q1, Option.map_some]
          · rw [flatRun_cons, flatStep_plain pref st2 _ rfl]
            simp only [List.map_append, List.map_cons, List.map_nil, normF, q2]
        | pi t d =>
          rw [flatStep_plain pref st1 _ rfl] at inv' ⊢
          have rel' : BRel st1 st2 pst ck' :=
            ⟨rel.bind, rel.elems, rel.pend1, rel.pend2, rel.scope, by rw [ckStep_stack_plain rfl hck]; exact rel.frames⟩
          obtain ⟨xs2, q1, q2⟩ := ih _ st2 pst ck' ⟨rst', inv'⟩ hdoc hno' rel'
          refine ⟨.ev (.pi t d) :: xs2, ?_, ?_⟩
          · simp only [List.map_append, List.map_cons, List.map_nil, normF, List.cons_append, List.nil_append]
            rw [reparseX]; simp only [q1, Option.map_some]
          · rw [flatRun_cons, flatStep_plain pref st2 _ rfl]
            simp only [List.map_append, List.map_cons, List.map_nil, normF, q2]
        | startCdata =>
          rw [flatStep_plain pref st1 _ rfl] at inv' ⊢
          have rel' : BRel st1 st2 pst ck' :=
            ⟨rel.bind, rel.elems, rel.pend1, rel.pend2, rel.scope, by rw [ckStep_stack_plain rfl hck]; exact rel.frames⟩
          obtain ⟨xs2, q1, q2⟩ := ih _ st2 pst ck' ⟨rst', inv'⟩ hdoc hno' rel'
          refine ⟨.ev .startCdata :: xs2, ?_, ?_⟩
          · simp only [List.map_append, List.map_cons, List.map_nil, normF, List.cons_append, List.nil_append]
            rw [reparseX]; simp only [q1, Option.map_some]
          · rw [flatRun_cons, flatStep_plain pref st2 _ rfl]
            simp only [List.map_append, List.map_cons, List.map_nil, normF, q2]
        | endCdata =>
          rw [flatStep_plain pref st1 _ rfl] at inv' ⊢
          have rel' : BRel st1 st2 pst ck' :=
            ⟨rel.bind, rel.elems, rel.pend1, rel.pend2, rel.scope, by rw [ckStep_stack_plain rfl hck]; exact rel.frames⟩
          obtain ⟨xs2, q1, q2⟩ := ih _ st2 pst ck' ⟨rst', inv'⟩ hdoc hno' rel'
          refine ⟨.ev .endCdata :: xs2, ?_, ?_⟩
          · simp only [List.map_append, List.map_cons, List.map_nil, normF, List.cons_append, List.nil_append]
            rw [reparseX]; simp only [q1, Option.map_some]
          · rw [flatRun_cons, flatStep_plain pref st2 _ rfl]
            simp only [List.map_append, List.map_cons, List.map_nil, normF, q2]
        | doctype n p s =>
          rw [flatStep_plain pref st1 _ rfl] at inv' ⊢
          have rel' : BRel st1 st2 pst ck' :=
            ⟨rel.bind, rel.elems, rel.pend1, rel.pend2, rel.scope, by rw [ckStep_stack_plain rfl hck]; exact rel.frames⟩
          obtain ⟨xs2, q1, q2⟩ := ih _ st2 pst ck' ⟨rst', inv'⟩ hdoc hno' rel'
          refine ⟨.ev (.doctype n p s) :: xs2, ?_, ?_⟩
          · simp only [List.map_append, List.map_cons, List.map_nil, normF, List.cons_append, List.nil_append]
            rw [reparseX]; simp only [q1, Option.map_some]
          · rw [flatRun_cons, flatStep_plain pref st2 _ rfl]
            simp only [List.map_append, List.map_cons, List.map_nil, normF, q2]

end Genshi.Xml

/-
  C16 — C15's history invariant (bounded cache of distinct keys, cached templates coherent with
  their files, fresh identities) holds in every reachable state of the interleaving model, for
  programs with nested loads as well.
-/
import Genshi.Lemmas.Conc
namespace Genshi.Conc
open Genshi.Lru Genshi.Loader

/-- C15's `Inv` without the clause about the lock -/
structure InvL (fs : FS) (clock : Nat) (ls : LState) : Prop where
  mtimes : ∀ loc f, fs loc = some f → f.mtime < clock
  coherent : ∀ k t, (k, t) ∈ ls.cache.items → ∀ loc m, ls.utd k = some (.mtime loc m) →
      loc = t.loc ∧ m < clock ∧ ∀ f, fs loc = some f → f.mtime = m → f.content = t.content
  awf : AWf ls.cache
  objs : ∀ k t, (k, t) ∈ ls.cache.items → t.obj < ls.nextObj
  parsedOld : ∀ o ∈ ls.parsed, o < ls.nextObj

theorem InvL.of_inv {fs : FS} {clock : Nat} {ls : LState} (h : Inv ⟨fs, clock, ls⟩) : InvL fs clock ls :=
  ⟨h.mtimes, h.coherent, h.awf, h.objs, h.parsedOld⟩

theorem InvL.to_inv {fs : FS} {clock : Nat} {ls : LState} (h : InvL fs clock ls) (hl : ls.lock = 0) :
    Inv ⟨fs, clock, ls⟩ :=
  ⟨h.mtimes, h.coherent, h.awf, h.objs, h.parsedOld, hl⟩

/-- what a suspended or running load carries is consistent with the files -/
def UtdOK (fs : FS) (t : Tmpl) (u : Utd) : Prop :=
  ∀ loc m, u = .mtime loc m → loc = t.loc ∧ ∃ f, fs loc = some f ∧ f.mtime = m ∧ f.content = t.content

def FrameOK (fs : FS) (ls : LState) (f : Frame) : Prop :=
  match f.pc with
  | .found loc file u _ => fs loc = some file ∧ (u = .never ∨ u = .mtime loc file.mtime)
  | .calling t u _ => t.obj < ls.nextObj ∧ UtdOK fs t u
  | .called t u => t.obj < ls.nextObj ∧ UtdOK fs t u
  | _ => True

theorem FrameOK.mono {fs : FS} {ls ls' : LState} {f : Frame} (h : FrameOK fs ls f)
    (hn : ls.nextObj ≤ ls'.nextObj) : FrameOK fs ls' f := by
  unfold FrameOK at *
  split <;> simp_all
  · exact Nat.lt_of_lt_of_le h.1 hn
  · exact Nat.lt_of_lt_of_le h.1 hn

theorem searchProbe_found {fs : FS} {fault : Fault} {key : Key} {entries : List Entry} {loc : Loc}
    {f : File} {u : Utd} (h : searchProbe fs fault key entries = some (.found loc f u)) :
    fs loc = some f ∧ (u = .never ∨ u = .mtime loc f.mtime) := by
  induction entries with
  | nil => simp [searchProbe] at h
  | cons e rest ih =>
    unfold searchProbe at h
    cases hp : probe fs fault e key with
    | skip => simp only [hp] at h; exact ih h
    | raise => simp [hp] at h
    | found l f' u' =>
      simp only [hp, Option.some.injEq, Probe.found.injEq] at h
      obtain ⟨rfl, rfl, rfl⟩ := h
      exact (probe_found hp).2

theorem decide_cases (c : CCfg) (ls : LState) (q : CReq) (hit : Option Tmpl) :
    (∃ r, decide c ls q hit = .done r) ∨
    (∃ loc f u isabs, decide c ls q hit = .found loc f u isabs ∧ c.fs loc = some f ∧
      (u = .never ∨ u = .mtime loc f.mtime)) := by
  unfold decide
  simp only
  split
  · exact Or.inl ⟨_, rfl⟩
  · split
    · exact Or.inl ⟨_, rfl⟩
    · rename_i entries isabs _
      cases hsp : searchProbe c.fs q.r.fault q.key entries with
      | none => exact Or.inl ⟨_, rfl⟩
      | some p =>
        cases p with
        | skip => exact Or.inl ⟨_, rfl⟩
        | raise => exact Or.inl ⟨_, rfl⟩
        | found loc f u => exact Or.inr ⟨loc, f, u, isabs, rfl, searchProbe_found hsp⟩

theorem decide_frameOK (c : CCfg) (ls : LState) (q : CReq) (hit : Option Tmpl) :
    FrameOK c.fs ls ⟨q, decide c ls q hit⟩ := by
  rcases decide_cases c ls q hit with ⟨r, h⟩ | ⟨loc, f, u, isabs, h, h1, h2⟩
  · rw [h]; trivial
  · rw [h]; exact ⟨h1, h2⟩

/-- the invariant of the section: the loader state is consistent, and so is everything the
    active loads of this thread carry -/
structure CInv (c : CCfg) (clock : Nat) (x : CS) : Prop where
  inv : InvL c.fs clock x.ls
  frames : ∀ f ∈ x.stack, FrameOK c.fs x.ls f

theorem touched_invL {fs : FS} {clock : Nat} {ls : LState} (key : Key) (h : InvL fs clock ls) :
    InvL fs clock (touched ls key) := by
  obtain ⟨hu, hn, _, hp, _⟩ := touched_fields ls key
  refine ⟨h.mtimes, ?_, (touched_awf key h.awf).1, ?_, by rw [hp, hn]; exact h.parsedOld⟩
  · intro k t hm loc m hutd
    rw [hu] at hutd
    exact h.coherent k t (mem_touched hm) loc m hutd
  · intro k t hm
    rw [hn]; exact h.objs k t (mem_touched hm)

theorem csStep_cinv (c : CCfg) (tid : Tid) (clock : Nat) (x : CS) (h : CInv c clock x) :
    CInv c clock (csStep c tid x) := by
  obtain ⟨ls, stack, completed⟩ := x
  obtain ⟨hi, hf⟩ := h
  simp only at hi hf
  cases stack with
  | nil => exact ⟨hi, hf⟩
  | cons f rest =>
    obtain ⟨q, pc⟩ := f
    have hrest : ∀ f ∈ rest, FrameOK c.fs ls f := fun f hm => hf f (List.mem_cons_of_mem _ hm)
    have htop := hf ⟨q, pc⟩ (by simp)
    -- frames stay consistent when only the lock depth changes
    have hlockonly : ∀ (n : Nat) (fr : Frame), FrameOK c.fs ls fr → FrameOK c.fs { ls with lock := n } fr :=
      fun n fr h => h.mono (Nat.le_refl _)
    cases pc with
    | start =>
      refine ⟨⟨hi.mtimes, hi.coherent, hi.awf, hi.objs, hi.parsedOld⟩, ?_⟩
      intro f hm
      simp only [csStep, List.mem_cons] at hm
      rcases hm with rfl | hm
      · trivial
      · exact hlockonly _ f (hrest f hm)
    | acquired =>
      have hto : (match alookup q.key ls.cache.items with
          | some _ => ({ ls with cache := (astep ls.cache (.get q.key)).1 } : LState)
          | none => ls) = touched ls q.key := by
        unfold touched; rfl
      refine ⟨?_, ?_⟩
      · simp only [csStep, hto]; exact touched_invL q.key hi
      · intro f hm
        simp only [csStep, hto, List.mem_cons] at hm ⊢
        have hn : (touched ls q.key).nextObj = ls.nextObj := (touched_fields ls q.key).2.1
        rcases hm with rfl | hm
        · trivial
        · exact (hrest f hm).mono (Nat.le_of_eq hn.symm)
    | looked hit =>
      refine ⟨hi, ?_⟩
      intro f hm
      simp only [csStep, List.mem_cons] at hm
      rcases hm with rfl | hm
      · exact decide_frameOK c ls q hit
      · exact hrest f hm
    | found loc file u isabs =>
      obtain ⟨hfs, hu⟩ : c.fs loc = some file ∧ (u = .never ∨ u = .mtime loc file.mtime) := htop
      simp only [csStep]
      by_cases hb : file.bad = true
      · simp only [hb, if_true]
        refine ⟨hi, ?_⟩
        intro f hm
        simp only [List.mem_cons] at hm
        rcases hm with rfl | hm
        · trivial
        · exact hrest f hm
      · simp only [hb, Bool.false_eq_true, if_false]
        -- the state after the parse (with or without a callback logged)
        have hstate : ∀ ls2 : LState, ls2.cache = ls.cache → ls2.utd = ls.utd → ls2.nextObj = ls.nextObj + 1 →
            ls2.parsed = ls.nextObj :: ls.parsed → InvL c.fs clock ls2 := by
          intro ls2 h1 h2 h3 h4
          refine ⟨hi.mtimes, ?_, by rw [h1]; exact hi.awf, ?_, ?_⟩
          · intro k t hm l m hutd; rw [h1] at hm; rw [h2] at hutd; exact hi.coherent k t hm l m hutd
          · intro k t hm; rw [h1] at hm; rw [h3]; exact Nat.lt_succ_of_lt (hi.objs k t hm)
          · intro o ho; rw [h4] at ho; rw [h3]
            rcases List.mem_cons.mp ho with rfl | ho
            · exact Nat.lt_succ_self _
            · exact Nat.lt_succ_of_lt (hi.parsedOld o ho)
        have hutd : UtdOK c.fs ⟨ls.nextObj, loc, file.content, q.r.cls, q.r.enc, isabs⟩ u := by
          intro l m hum
          rcases hu with rfl | rfl
          · cases hum
          · simp only [Utd.mtime.injEq] at hum
            obtain ⟨rfl, rfl⟩ := hum
            exact ⟨rfl, file, hfs, rfl, rfl⟩
        cases hcb : c.cfg.hasCallback with
        | false =>
          simp only [Bool.false_eq_true, if_false]
          refine ⟨hstate _ rfl rfl rfl rfl, ?_⟩
          intro f hm
          simp only [List.mem_cons] at hm
          rcases hm with rfl | hm
          · exact ⟨Nat.lt_succ_self _, hutd⟩
          · exact (hrest f hm).mono (Nat.le_succ _)
        | true =>
          simp only [if_true]
          refine ⟨hstate _ rfl rfl rfl rfl, ?_⟩
          intro f hm
          simp only [List.mem_cons] at hm
          rcases hm with rfl | hm
          · exact ⟨Nat.lt_succ_self _, hutd⟩
          · exact (hrest f hm).mono (Nat.le_succ _)
    | calling t u todo =>
      cases todo with
      | nil =>
        simp only [csStep]
        split
        · refine ⟨hi, ?_⟩
          intro f hm
          simp only [List.mem_cons] at hm
          rcases hm with rfl | hm
          · trivial
          · exact hrest f hm
        · refine ⟨hi, ?_⟩
          intro f hm
          simp only [List.mem_cons] at hm
          rcases hm with rfl | hm
          · exact htop
          · exact hrest f hm
      | cons ch todo =>
        refine ⟨hi, ?_⟩
        intro f hm
        simp only [csStep, List.mem_cons] at hm
        rcases hm with rfl | rfl | hm
        · trivial
        · exact htop
        · exact hrest f hm
    | called t u =>
      obtain ⟨hobj, hutd⟩ : t.obj < ls.nextObj ∧ UtdOK c.fs t u := htop
      simp only [csStep]
      refine ⟨⟨hi.mtimes, ?_, (astep_awf hi.awf _).1, ?_, hi.parsedOld⟩, ?_⟩
      · intro k t' hm l m hu'
        simp only at hm hu'
        rcases mem_aset hm with heq | ⟨hm', hne⟩
        · simp only [Prod.mk.injEq] at heq
          obtain ⟨rfl, rfl⟩ := heq
          simp only [utdSet, if_true, Option.some.injEq] at hu'
          obtain ⟨h1, f, h2, h3, h4⟩ := hutd l m hu'
          refine ⟨h1, by rw [← h3]; exact hi.mtimes l f h2, ?_⟩
          intro f' hf' _
          rw [h2] at hf'; cases hf'; exact h4
        · have hne' : k ≠ q.key := hne
          simp only [utdSet, hne', if_false] at hu'
          exact hi.coherent k t' hm' l m hu'
      · intro k t' hm
        simp only at hm ⊢
        rcases mem_aset hm with heq | ⟨hm', _⟩
        · simp only [Prod.mk.injEq] at heq
          obtain ⟨_, rfl⟩ := heq
          exact hobj
        · exact hi.objs k t' hm'
      · intro f hm
        simp only [List.mem_cons] at hm
        rcases hm with rfl | hm
        · trivial
        · exact (hrest f hm).mono (Nat.le_refl _)
    | done res =>
      refine ⟨⟨hi.mtimes, hi.coherent, hi.awf, hi.objs, hi.parsedOld⟩, ?_⟩
      intro f hm
      simp only [csStep, List.mem_cons] at hm
      rcases hm with rfl | hm
      · trivial
      · exact hlockonly _ f (hrest f hm)
    | released res =>
      cases rest with
      | nil => exact ⟨hi, hf⟩
      | cons p rest' =>
        obtain ⟨pq, ppc⟩ := p
        cases res with
        | ok t =>
          refine ⟨hi, ?_⟩
          intro f hm
          simp only [csStep] at hm
          exact hrest f hm
        | err e =>
          refine ⟨hi, ?_⟩
          intro f hm
          simp only [csStep, List.mem_cons] at hm
          rcases hm with rfl | hm
          · trivial
          · exact hrest f (List.mem_cons_of_mem _ hm)


theorem csStep_nextObj (c : CCfg) (tid : Tid) (x : CS) : x.ls.nextObj ≤ (csStep c tid x).ls.nextObj := by
  obtain ⟨ls, stack, completed⟩ := x
  cases stack with
  | nil => exact Nat.le_refl _
  | cons f rest =>
    obtain ⟨q, pc⟩ := f
    cases pc with
    | start => exact Nat.le_refl _
    | acquired => simp only [csStep]; split <;> exact Nat.le_refl _
    | looked hit => exact Nat.le_refl _
    | found loc f u isabs =>
      simp only [csStep]
      split
      · exact Nat.le_refl _
      · simp only; split <;> exact Nat.le_succ _
    | calling t u todo =>
      cases todo with
      | nil => simp only [csStep]; split <;> exact Nat.le_refl _
      | cons ch todo => exact Nat.le_refl _
    | called t u => exact Nat.le_refl _
    | done res => exact Nat.le_refl _
    | released res =>
      cases rest with
      | nil => exact Nat.le_refl _
      | cons p rest' =>
        obtain ⟨pq, ppc⟩ := p
        cases res <;> exact Nat.le_refl _

/-- the invariant for the whole system -/
structure GCInv (c : CCfg) (clock : Nat) (g : G) : Prop where
  inv : InvL c.fs clock g.ls
  frames : ∀ t, ∀ f ∈ (g.threads t).stack, FrameOK c.fs g.ls f

theorem gcinv_init (c : CCfg) (clock : Nat) (ls : LState) (h : InvL c.fs clock ls) (progs : List (List CReq)) :
    GCInv c clock (G.init ls progs) :=
  ⟨h, fun t f hf => by simp [G.init] at hf⟩

theorem gcinv_step {c : CCfg} {clock : Nat} {g g' : G} {t : Tid} (h : GCInv c clock g)
    (hs : step c g t = some g') : GCInv c clock g' := by
  have hcs : CInv c clock ⟨g.ls, (g.threads t).stack, g.completed⟩ := ⟨h.inv, h.frames t⟩
  have hafter := csStep_cinv c t clock _ hcs
  have hmono := csStep_nextObj c t ⟨g.ls, (g.threads t).stack, g.completed⟩
  cases step_kind hs with
  | call q more hs' ht hg =>
    subst hg
    refine ⟨h.inv, ?_⟩
    intro u f hf
    by_cases hu : u = t
    · subst hu; simp only [setThread_same, List.mem_singleton] at hf; subst hf; trivial
    · simp only [setThread_ne _ _ hu] at hf; exact h.frames u f hf
  | ret q res hs' hg =>
    subst hg
    refine ⟨h.inv, ?_⟩
    intro u f hf
    by_cases hu : u = t
    · subst hu; simp [setThread_same] at hf
    · simp only [setThread_ne _ _ hu] at hf; exact h.frames u f hf
  | acq q rest hs' hcan hg =>
    subst hg
    refine ⟨hafter.inv, ?_⟩
    intro u f hf
    by_cases hu : u = t
    · subst hu; simp only [setThread_same] at hf; exact hafter.frames f hf
    · simp only [setThread_ne _ _ hu] at hf; exact (h.frames u f hf).mono hmono
  | cs hs' hg =>
    subst hg
    refine ⟨hafter.inv, ?_⟩
    intro u f hf
    by_cases hu : u = t
    · subst hu; simp only [setThread_same] at hf; exact hafter.frames f hf
    · simp only [setThread_ne _ _ hu] at hf; exact (h.frames u f hf).mono hmono

theorem gcinv_exec {c : CCfg} {clock : Nat} {g : G} (h : GCInv c clock g) (sched : List Tid) :
    GCInv c clock (exec c g sched) := by
  induction sched generalizing g with
  | nil => exact h
  | cons t ts ih =>
    simp only [exec]
    cases hs : step c g t with
    | none => exact ih h
    | some g' => exact ih (gcinv_step h hs)

end Genshi.Conc

/-
  C16 — C15's history invariant (bounded cache of distinct keys, cached templates coherent with
  their files, fresh identities) holds in every reachable state of the interleaving model, for
  programs with nested loads as well.
-/
import Genshi.Lemmas.Conc
namespace Genshi.Conc
open Genshi.Lru Genshi.Loader

/-- C15's `Inv` without the clause about the lock -/
structure InvL (fs : FS) (clock : Nat) (ls : LState) : Prop where
  mtimes : ∀ loc f, fs loc = some f → f.mtime < clock
  coherent : ∀ k t, (k, t) ∈ ls.cache.items → ∀ loc m, ls.utd k = some (.mtime loc m) →
      loc = t.loc ∧ m < clock ∧ ∀ f, fs loc = some f → f.mtime = m → f.content = t.content
  awf : AWf ls.cache
  objs : ∀ k t, (k, t) ∈ ls.cache.items → t.obj < ls.nextObj
  parsedOld : ∀ o ∈ ls.parsed, o < ls.nextObj

theorem InvL.of_inv {fs : FS} {clock : Nat} {ls : LState} (h : Inv ⟨fs, clock, ls⟩) : InvL fs clock ls :=
  ⟨h.mtimes, h.coherent, h.awf, h.objs, h.parsedOld⟩

theorem InvL.to_inv {fs : FS} {clock : Nat} {ls : LState} (h : InvL fs clock ls) (hl : ls.lock = 0) :
    Inv ⟨fs, clock, ls⟩ :=
  ⟨h.mtimes, h.coherent, h.awf, h.objs, h.parsedOld, hl⟩

/-- what a suspended or running load carries is consistent with the files -/
def UtdOK (fs : FS) (t : Tmpl) (u : Utd) : Prop :=
  ∀ loc m, u = .mtime loc m → loc = t.loc ∧ ∃ f, fs loc = some f ∧ f.mtime = m ∧ f.content = t.content

/-- a returned template is current (stated for automatic reloading; the files are fixed while
    the threads run) -/
def ResOK (c : CCfg) : Res → Prop
  | .ok t => c.cfg.autoReload = true → ∃ f, c.fs t.loc = some f ∧ f.content = t.content
  | .err _ => True

def FrameOK (c : CCfg) (ls : LState) (f : Frame) : Prop :=
  match f.pc with
  | .looked (some t) => (f.req.key, t) ∈ ls.cache.items
  | .found loc file u _ => c.fs loc = some file ∧ (u = .never ∨ u = .mtime loc file.mtime)
  | .calling t u _ => t.obj < ls.nextObj ∧ UtdOK c.fs t u ∧ ResOK c (.ok t)
  | .called t u => t.obj < ls.nextObj ∧ UtdOK c.fs t u ∧ ResOK c (.ok t)
  | .done res => ResOK c res
  | .released res => ResOK c res
  | _ => True

theorem FrameOK.mono {c : CCfg} {ls ls' : LState} {f : Frame} (h : FrameOK c ls f)
    (hn : ls.nextObj ≤ ls'.nextObj) (hnl : ∀ t, f.pc ≠ .looked (some t)) : FrameOK c ls' f := by
  obtain ⟨q, pc⟩ := f
  cases pc with
  | looked hit =>
    cases hit with
    | none => trivial
    | some t => exact absurd rfl (hnl t)
  | calling t u todo => exact ⟨Nat.lt_of_lt_of_le h.1 hn, h.2⟩
  | called t u => exact ⟨Nat.lt_of_lt_of_le h.1 hn, h.2⟩
  | start => trivial
  | acquired => trivial
  | found loc file u isabs => exact h
  | done res => exact h
  | released res => exact h

theorem isCalling_not_looked {pc : PC} (h : isCalling pc = true) : ∀ t, pc ≠ .looked (some t) := by
  intro t e; subst e; simp [isCalling] at h

theorem searchProbe_found {fs : FS} {fault : Fault} {key : Key} {entries : List Entry} {loc : Loc}
    {f : File} {u : Utd} (h : searchProbe fs fault key entries = some (.found loc f u)) :
    fs loc = some f ∧ (u = .never ∨ u = .mtime loc f.mtime) := by
  induction entries with
  | nil => simp [searchProbe] at h
  | cons e rest ih =>
    unfold searchProbe at h
    cases hp : probe fs fault e key with
    | skip => simp only [hp] at h; exact ih h
    | raise => simp [hp] at h
    | found l f' u' =>
      simp only [hp, Option.some.injEq, Probe.found.injEq] at h
      obtain ⟨rfl, rfl, rfl⟩ := h
      exact (probe_found hp).2

/-- what the decision after the lookup can be -/
theorem decide_cases (c : CCfg) (ls : LState) (q : CReq) (hit : Option Tmpl) :
    (∃ t, hit = some t ∧ (c.cfg.autoReload = false ∨ stillCurrent c.fs ls q.key = true) ∧
      decide c ls q hit = .done (.ok t)) ∨
    (∃ e, decide c ls q hit = .done (.err e)) ∨
    (∃ loc f u isabs, decide c ls q hit = .found loc f u isabs ∧ c.fs loc = some f ∧
      (u = .never ∨ u = .mtime loc f.mtime)) := by
  have hsearch : (∃ e, (match searchPath c.cfg q.r q.key with
        | none => PC.done (.err .noSearchPath)
        | some (entries, isabs) =>
          match searchProbe c.fs q.r.fault q.key entries with
          | none => PC.done (.err .notFound)
          | some .skip => PC.done (.err .notFound)
          | some .raise => PC.done (.err .loadFunc)
          | some (.found loc f u) => PC.found loc f u isabs) = .done (.err e)) ∨
      (∃ loc f u isabs, (match searchPath c.cfg q.r q.key with
        | none => PC.done (.err .noSearchPath)
        | some (entries, isabs) =>
          match searchProbe c.fs q.r.fault q.key entries with
          | none => PC.done (.err .notFound)
          | some .skip => PC.done (.err .notFound)
          | some .raise => PC.done (.err .loadFunc)
          | some (.found loc f u) => PC.found loc f u isabs) = .found loc f u isabs ∧
        c.fs loc = some f ∧ (u = .never ∨ u = .mtime loc f.mtime)) := by
    cases hsp : searchPath c.cfg q.r q.key with
    | none => exact Or.inl ⟨_, rfl⟩
    | some p =>
      obtain ⟨entries, isabs⟩ := p
      simp only
      cases hpr : searchProbe c.fs q.r.fault q.key entries with
      | none => exact Or.inl ⟨_, rfl⟩
      | some pr =>
        cases pr with
        | skip => exact Or.inl ⟨_, rfl⟩
        | raise => exact Or.inl ⟨_, rfl⟩
        | found loc f u => exact Or.inr ⟨loc, f, u, isabs, rfl, searchProbe_found hpr⟩
  unfold decide
  cases hit with
  | none => simp only; exact Or.inr hsearch
  | some t =>
    by_cases har : c.cfg.autoReload = true
    · by_cases hcur : stillCurrent c.fs ls q.key = true
      · left; exact ⟨t, rfl, Or.inr hcur, by simp [har, hcur]⟩
      · have hcur' : stillCurrent c.fs ls q.key = false := by simpa using hcur
        simp only [har, Bool.not_true, Bool.false_eq_true, if_false, hcur']
        exact Or.inr hsearch
    · have har' : c.cfg.autoReload = false := by simpa using har
      left; exact ⟨t, rfl, Or.inl har', by simp [har']⟩

/-- the invariant of the section: the loader state is consistent, and so is everything the
    active loads of this thread carry and everything that was returned -/
structure CInv (c : CCfg) (clock : Nat) (x : CS) : Prop where
  inv : InvL c.fs clock x.ls
  frames : ∀ f ∈ x.stack, FrameOK c x.ls f
  log : ∀ e ∈ x.completed, ResOK c e.2.2

theorem touched_invL {fs : FS} {clock : Nat} {ls : LState} (key : Key) (h : InvL fs clock ls) :
    InvL fs clock (touched ls key) := by
  obtain ⟨hu, hn, _, hp, _⟩ := touched_fields ls key
  refine ⟨h.mtimes, ?_, (touched_awf key h.awf).1, ?_, by rw [hp, hn]; exact h.parsedOld⟩
  · intro k t hm loc m hutd
    rw [hu] at hutd
    exact h.coherent k t (mem_touched hm) loc m hutd
  · intro k t hm
    rw [hn]; exact h.objs k t (mem_touched hm)

/-- a cached template that passes the up-to-date check has its file's current content -/
theorem served_current {c : CCfg} {clock : Nat} {ls : LState} {key : Key} {t : Tmpl}
    (hi : InvL c.fs clock ls) (hm : (key, t) ∈ ls.cache.items) (hcur : stillCurrent c.fs ls key = true) :
    ∃ f, c.fs t.loc = some f ∧ f.content = t.content := by
  unfold stillCurrent at hcur
  cases hu : ls.utd key with
  | none => simp [hu] at hcur
  | some u =>
    cases u with
    | never => simp [hu] at hcur
    | mtime loc m =>
      simp only [hu] at hcur
      cases hf : c.fs loc with
      | none => simp [hf] at hcur
      | some f =>
        simp only [hf, beq_iff_eq] at hcur
        obtain ⟨h1, _, h3⟩ := hi.coherent key t hm loc m hu
        exact ⟨f, by rw [← h1]; exact hf, h3 f hf hcur⟩

theorem csStep_cinv (c : CCfg) (tid : Tid) (clock : Nat) (x : CS) (h : CInv c clock x)
    (htail : ∀ f ∈ x.stack.tail, isCalling f.pc = true) :
    CInv c clock (csStep c tid x) := by
  obtain ⟨ls, stack, completed⟩ := x
  obtain ⟨hi, hf, hlog⟩ := h
  simp only at hi hf hlog htail
  cases stack with
  | nil => exact ⟨hi, hf, hlog⟩
  | cons f rest =>
    obtain ⟨q, pc⟩ := f
    simp only [List.tail_cons] at htail
    have hrest : ∀ f ∈ rest, FrameOK c ls f := fun f hm => hf f (List.mem_cons_of_mem _ hm)
    have hrest' : ∀ (ls' : LState), ls.nextObj ≤ ls'.nextObj → ∀ f ∈ rest, FrameOK c ls' f :=
      fun ls' hn f hm => (hrest f hm).mono hn (isCalling_not_looked (htail f hm))
    have htop := hf ⟨q, pc⟩ (by simp)
    cases pc with
    | start =>
      refine ⟨⟨hi.mtimes, hi.coherent, hi.awf, hi.objs, hi.parsedOld⟩, ?_, hlog⟩
      intro f hm
      simp only [csStep, List.mem_cons] at hm
      rcases hm with rfl | hm
      · trivial
      · exact hrest' _ (Nat.le_refl _) f hm
    | acquired =>
      simp only [csStep]
      cases hl : alookup q.key ls.cache.items with
      | none =>
        refine ⟨hi, ?_, hlog⟩
        intro f hm
        simp only [List.mem_cons] at hm
        rcases hm with rfl | hm
        · trivial
        · exact hrest f hm
      | some t =>
        have hto : touched ls q.key = { ls with cache := (astep ls.cache (.get q.key)).1 } := by
          simp [touched, hl]
        refine ⟨by simp only; rw [← hto]; exact touched_invL q.key hi, ?_, hlog⟩
        intro f hm
        simp only [List.mem_cons] at hm
        rcases hm with rfl | hm
        · show (q.key, t) ∈ (astep ls.cache (.get q.key)).1.items
          simp [astep, hl]
        · exact (hrest f hm).mono (Nat.le_refl _) (isCalling_not_looked (htail f hm))
    | looked hit =>
      refine ⟨hi, ?_, hlog⟩
      intro f hm
      simp only [csStep, List.mem_cons] at hm
      rcases hm with rfl | hm
      · rcases decide_cases c ls q hit with ⟨t, rfl, hc, hd⟩ | ⟨e, hd⟩ | ⟨loc, f, u, isabs, hd, h1, h2⟩
        · show FrameOK c ls ⟨q, decide c ls q (some t)⟩
          rw [hd]
          intro har
          rcases hc with hc | hc
          · rw [har] at hc; cases hc
          · exact served_current hi htop hc
        · show FrameOK c ls ⟨q, decide c ls q hit⟩
          rw [hd]; trivial
        · show FrameOK c ls ⟨q, decide c ls q hit⟩
          rw [hd]; exact ⟨h1, h2⟩
      · exact hrest f hm
    | found loc file u isabs =>
      obtain ⟨hfs, hu⟩ : c.fs loc = some file ∧ (u = .never ∨ u = .mtime loc file.mtime) := htop
      simp only [csStep]
      by_cases hb : file.bad = true
      · simp only [hb, if_true]
        refine ⟨hi, ?_, hlog⟩
        intro f hm
        simp only [List.mem_cons] at hm
        rcases hm with rfl | hm
        · trivial
        · exact hrest f hm
      · simp only [hb, Bool.false_eq_true, if_false]
        have hstate : ∀ ls2 : LState, ls2.cache = ls.cache → ls2.utd = ls.utd → ls2.nextObj = ls.nextObj + 1 →
            ls2.parsed = ls.nextObj :: ls.parsed → InvL c.fs clock ls2 := by
          intro ls2 h1 h2 h3 h4
          refine ⟨hi.mtimes, ?_, by rw [h1]; exact hi.awf, ?_, ?_⟩
          · intro k t hm l m hutd; rw [h1] at hm; rw [h2] at hutd; exact hi.coherent k t hm l m hutd
          · intro k t hm; rw [h1] at hm; rw [h3]; exact Nat.lt_succ_of_lt (hi.objs k t hm)
          · intro o ho; rw [h4] at ho; rw [h3]
            rcases List.mem_cons.mp ho with rfl | ho
            · exact Nat.lt_succ_self _
            · exact Nat.lt_succ_of_lt (hi.parsedOld o ho)
        have hutd : UtdOK c.fs ⟨ls.nextObj, loc, file.content, q.r.cls, q.r.enc, isabs⟩ u := by
          intro l m hum
          rcases hu with rfl | rfl
          · cases hum
          · simp only [Utd.mtime.injEq] at hum
            obtain ⟨rfl, rfl⟩ := hum
            exact ⟨rfl, file, hfs, rfl, rfl⟩
        have hres : ResOK c (.ok ⟨ls.nextObj, loc, file.content, q.r.cls, q.r.enc, isabs⟩) :=
          fun _ => ⟨file, hfs, rfl⟩
        cases hcb : c.cfg.hasCallback with
        | false =>
          simp only [Bool.false_eq_true, if_false]
          refine ⟨hstate _ rfl rfl rfl rfl, ?_, hlog⟩
          intro f hm
          simp only [List.mem_cons] at hm
          rcases hm with rfl | hm
          · exact ⟨Nat.lt_succ_self _, hutd, hres⟩
          · exact hrest' _ (Nat.le_succ _) f hm
        | true =>
          simp only [if_true]
          refine ⟨hstate _ rfl rfl rfl rfl, ?_, hlog⟩
          intro f hm
          simp only [List.mem_cons] at hm
          rcases hm with rfl | hm
          · exact ⟨Nat.lt_succ_self _, hutd, hres⟩
          · exact hrest' _ (Nat.le_succ _) f hm
    | calling t u todo =>
      cases todo with
      | nil =>
        simp only [csStep]
        split
        · refine ⟨hi, ?_, hlog⟩
          intro f hm
          simp only [List.mem_cons] at hm
          rcases hm with rfl | hm
          · trivial
          · exact hrest f hm
        · refine ⟨hi, ?_, hlog⟩
          intro f hm
          simp only [List.mem_cons] at hm
          rcases hm with rfl | hm
          · exact htop
          · exact hrest f hm
      | cons ch todo =>
        refine ⟨hi, ?_, hlog⟩
        intro f hm
        simp only [csStep, List.mem_cons] at hm
        rcases hm with rfl | rfl | hm
        · trivial
        · exact htop
        · exact hrest f hm
    | called t u =>
      obtain ⟨hobj, hutd, hres⟩ : t.obj < ls.nextObj ∧ UtdOK c.fs t u ∧ ResOK c (.ok t) := htop
      simp only [csStep]
      refine ⟨⟨hi.mtimes, ?_, (astep_awf hi.awf _).1, ?_, hi.parsedOld⟩, ?_, hlog⟩
      · intro k t' hm l m hu'
        simp only at hm hu'
        rcases mem_aset hm with heq | ⟨hm', hne⟩
        · simp only [Prod.mk.injEq] at heq
          obtain ⟨rfl, rfl⟩ := heq
          simp only [utdSet, if_true, Option.some.injEq] at hu'
          obtain ⟨h1, f, h2, h3, h4⟩ := hutd l m hu'
          refine ⟨h1, by rw [← h3]; exact hi.mtimes l f h2, ?_⟩
          intro f' hf' _
          rw [h2] at hf'; cases hf'; exact h4
        · have hne' : k ≠ q.key := hne
          simp only [utdSet, hne', if_false] at hu'
          exact hi.coherent k t' hm' l m hu'
      · intro k t' hm
        simp only at hm ⊢
        rcases mem_aset hm with heq | ⟨hm', _⟩
        · simp only [Prod.mk.injEq] at heq
          obtain ⟨_, rfl⟩ := heq
          exact hobj
        · exact hi.objs k t' hm'
      · intro f hm
        simp only [List.mem_cons] at hm
        rcases hm with rfl | hm
        · exact hres
        · exact (hrest f hm).mono (Nat.le_refl _) (isCalling_not_looked (htail f hm))
    | done res =>
      refine ⟨⟨hi.mtimes, hi.coherent, hi.awf, hi.objs, hi.parsedOld⟩, ?_, ?_⟩
      · intro f hm
        simp only [csStep, List.mem_cons] at hm
        rcases hm with rfl | hm
        · exact htop
        · exact hrest' _ (Nat.le_refl _) f hm
      · intro e he
        simp only [csStep] at he
        split at he
        · rcases List.mem_append.mp he with he | he
          · exact hlog e he
          · simp only [List.mem_singleton] at he; subst he; exact htop
        · exact hlog e he
    | released res =>
      cases rest with
      | nil => exact ⟨hi, hf, hlog⟩
      | cons p rest' =>
        obtain ⟨pq, ppc⟩ := p
        cases res with
        | ok t =>
          refine ⟨hi, ?_, hlog⟩
          intro f hm
          simp only [csStep] at hm
          exact hrest f hm
        | err e =>
          refine ⟨hi, ?_, hlog⟩
          intro f hm
          simp only [csStep, List.mem_cons] at hm
          rcases hm with rfl | hm
          · trivial
          · exact hrest f (List.mem_cons_of_mem _ hm)

theorem csStep_nextObj (c : CCfg) (tid : Tid) (x : CS) : x.ls.nextObj ≤ (csStep c tid x).ls.nextObj := by
  obtain ⟨ls, stack, completed⟩ := x
  cases stack with
  | nil => exact Nat.le_refl _
  | cons f rest =>
    obtain ⟨q, pc⟩ := f
    cases pc with
    | start => exact Nat.le_refl _
    | acquired => simp only [csStep]; split <;> exact Nat.le_refl _
    | looked hit => exact Nat.le_refl _
    | found loc f u isabs =>
      simp only [csStep]
      split
      · exact Nat.le_refl _
      · simp only; split <;> exact Nat.le_succ _
    | calling t u todo =>
      cases todo with
      | nil => simp only [csStep]; split <;> exact Nat.le_refl _
      | cons ch todo => exact Nat.le_refl _
    | called t u => exact Nat.le_refl _
    | done res => exact Nat.le_refl _
    | released res =>
      cases rest with
      | nil => exact Nat.le_refl _
      | cons p rest' =>
        obtain ⟨pq, ppc⟩ := p
        cases res <;> exact Nat.le_refl _

theorem outside_not_looked {s : List Frame} (h : Outside s) : ∀ f ∈ s, ∀ t, f.pc ≠ .looked (some t) := by
  intro f hf t e
  rcases h with rfl | ⟨q, rfl⟩ | ⟨q, res, rfl⟩
  · simp at hf
  · simp at hf; subst hf; cases e
  · simp at hf; subst hf; cases e

/-- the invariant for the whole system -/
structure GCInv (c : CCfg) (clock : Nat) (g : G) : Prop where
  inv : InvL c.fs clock g.ls
  frames : ∀ t, ∀ f ∈ (g.threads t).stack, FrameOK c g.ls f
  log : ∀ e ∈ g.completed, ResOK c e.2.2

theorem gcinv_init (c : CCfg) (clock : Nat) (ls : LState) (h : InvL c.fs clock ls) (progs : List (List CReq)) :
    GCInv c clock (G.init ls progs) :=
  ⟨h, fun t f hf => by simp [G.init] at hf, fun e he => by simp [G.init] at he⟩

theorem gcinv_step {c : CCfg} {clock : Nat} {g g' : G} {t : Tid} (hg0 : GInv g) (h : GCInv c clock g)
    (hs : step c g t = some g') : GCInv c clock g' := by
  have hcs : CInv c clock ⟨g.ls, (g.threads t).stack, g.completed⟩ := ⟨h.inv, h.frames t, h.log⟩
  have hafter := csStep_cinv c t clock _ hcs (hg0.shape t).1
  have hmono := csStep_nextObj c t ⟨g.ls, (g.threads t).stack, g.completed⟩
  cases step_kind hs with
  | call q more hs' ht hg =>
    subst hg
    refine ⟨h.inv, ?_, h.log⟩
    intro u f hf
    by_cases hu : u = t
    · subst hu; simp only [setThread_same, List.mem_singleton] at hf; subst hf; trivial
    · simp only [setThread_ne _ _ hu] at hf; exact h.frames u f hf
  | ret q res hs' hg =>
    subst hg
    refine ⟨h.inv, ?_, h.log⟩
    intro u f hf
    by_cases hu : u = t
    · subst hu; simp [setThread_same] at hf
    · simp only [setThread_ne _ _ hu] at hf; exact h.frames u f hf
  | acq q rest hs' hcan hg =>
    have hothers : ∀ u, u ≠ t → g.owner ≠ some u := by
      intro u hu ho
      unfold canAcquire at hcan
      simp only [ho, Bool.and_eq_true, beq_iff_eq] at hcan
      exact hu hcan.1
    have hcomp : (afterCs c g t).completed = g.completed := by simp [afterCs, hs', csStep]
    subst hg
    refine ⟨hafter.inv, ?_, ?_⟩
    · intro u f hf
      by_cases hu : u = t
      · subst hu; simp only [setThread_same] at hf; exact hafter.frames f hf
      · simp only [setThread_ne _ _ hu] at hf
        exact (h.frames u f hf).mono hmono (outside_not_looked (hg0.outside (hothers u hu)) f hf)
    · intro e he; exact h.log e he
  | cs hs' hg =>
    have hown : g.owner = some t := by
      by_cases ho : g.owner = some t
      · exact ho
      · exact absurd (hg0.outside ho) hs'
    subst hg
    refine ⟨hafter.inv, ?_, hafter.log⟩
    intro u f hf
    by_cases hu : u = t
    · subst hu; simp only [setThread_same] at hf; exact hafter.frames f hf
    · simp only [setThread_ne _ _ hu] at hf
      have hne : g.owner ≠ some u := by rw [hown]; simp; exact fun e => hu e.symm
      exact (h.frames u f hf).mono hmono (outside_not_looked (hg0.outside hne) f hf)

theorem gcinv_exec {c : CCfg} {clock : Nat} {g : G} (hg0 : GInv g) (h : GCInv c clock g) (sched : List Tid) :
    GCInv c clock (exec c g sched) := by
  induction sched generalizing g with
  | nil => exact h
  | cons t ts ih =>
    simp only [exec]
    cases hs : step c g t with
    | none => exact ih hg0 h
    | some g' => exact ih (ginv_step hg0 hs) (gcinv_step hg0 h hs)

end Genshi.Conc

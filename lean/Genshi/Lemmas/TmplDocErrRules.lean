/-
  C04: failing renders of the documentation semantics as a big-step predicate, with the
  construction rules the reverse error simulation needs.
-/
import Genshi.Lemmas.TmplDocRules
import Genshi.Lemmas.TmplErrRules
namespace Genshi.Tmpl

def DErr (t : DTask) (loc : Env) (d : DSt) : Prop := ∃ n e, doc n t loc d = .error e ∧ e ≠ .fuel

theorem DErr.lift {t : DTask} {loc : Env} {d : DSt} {n k : Nat} {e : Err}
    (h : doc n t loc d = .error e) (he : e ≠ .fuel) (hk : n ≤ k) : doc k t loc d = .error e :=
  doc_mono h (by simpa using he) hk

theorem DErr.not_ok {t : DTask} {loc : Env} {d d1 : DSt} {o : List Event}
    (h1 : DErr t loc d) (h2 : DOk t loc d o d1) : False := by
  obtain ⟨n1, er, h1, he⟩ := h1
  obtain ⟨n2, h2⟩ := h2
  have a := DErr.lift h1 he (Nat.le_max_left n1 n2)
  have b := DOk.lift h2 (Nat.le_max_right n1 n2)
  rw [a] at b; cases b

/-- one more unit of fuel around a failing sub-task whose result the task returns unchanged -/
theorem DErr.step {t t' : DTask} {loc loc' : Env} {d d0 : DSt}
    (hstep : ∀ n, doc (n + 1) t loc d = doc n t' loc' d0) (h : DErr t' loc' d0) : DErr t loc d := by
  obtain ⟨n, e, h, he⟩ := h
  exact ⟨n + 1, e, by rw [hstep]; exact h, he⟩

theorem DErr.nodes_left {nd rest} {loc : Env} {d : DSt} (h : DErr (.node nd) loc d) :
    DErr (.nodes (nd :: rest)) loc d := by
  obtain ⟨n, e, h, he⟩ := h
  exact ⟨n + 1, e, by simp only [doc, seq_err]; exact Or.inl h, he⟩

theorem DErr.nodes_right {nd rest} {loc : Env} {d d1 : DSt} {o1 : List Event}
    (h1 : DOk (.node nd) loc d o1 d1) (h2 : DErr (.nodes rest) loc d1) :
    DErr (.nodes (nd :: rest)) loc d := by
  obtain ⟨n1, h1⟩ := h1
  obtain ⟨n2, e, h2, he⟩ := h2
  refine ⟨max n1 n2 + 1, e, ?_, he⟩
  simp only [doc, seq_err]
  exact Or.inr ⟨o1, d1, DOk.lift h1 (Nat.le_max_left _ _), DErr.lift h2 he (Nat.le_max_right _ _)⟩

theorem DErr.node_expr {x} {loc : Env} {d : DSt} (h : DErr (.xexpr x) loc d) : DErr (.node (.expr x)) loc d :=
  DErr.step (fun _ => by simp only [doc]) h

theorem DErr.node_elem {tag attrs dirs kids} {loc : Env} {d : DSt}
    (h : DErr (.dirs (sortBy Dir.docIdx dirs) (.elem tag attrs kids)) loc d) :
    DErr (.node (.elem tag attrs dirs kids)) loc d :=
  DErr.step (fun _ => by simp only [doc]) h

theorem DErr.node_delem {dd kids} {loc : Env} {d : DSt} (h : DErr (.dirs [dd] (.frag kids)) loc d) :
    DErr (.node (.delem dd kids)) loc d :=
  DErr.step (fun _ => by simp only [doc]) h

theorem DErr.dirs_nil_frag {kids} {loc : Env} {d : DSt} (h : DErr (.nodes kids) loc d) :
    DErr (.dirs [] (.frag kids)) loc d :=
  DErr.step (fun _ => by simp only [doc]) h

theorem DErr.dirs_nil_elem {tag attrs kids} {loc : Env} {d : DSt} (h : DErr (.nodes kids) loc d) :
    DErr (.dirs [] (.elem tag attrs kids)) loc d := by
  obtain ⟨n, e, h, he⟩ := h
  exact ⟨n + 1, e, by simp only [doc, wrapOut_err]; exact h, he⟩

/-- a pure step of a task fails: the whole task fails with that error at fuel 1 -/
theorem DErr.now {t : DTask} {loc : Env} {d : DSt} {e : Err} (h : doc 1 t loc d = .error e) (he : e ≠ .fuel) :
    DErr t loc d := ⟨1, e, h, he⟩

theorem DErr.replace {x ds t} {loc : Env} {d : DSt} (h : DErr (.xexpr x) loc d) :
    DErr (.dirs (.replace x :: ds) t) loc d :=
  DErr.step (fun _ => by simp only [doc]) h

theorem DErr.content_elem {x ds tag attrs kids} {loc : Env} {d : DSt}
    (h : DErr (.dirs ds (.elem tag attrs [.expr x])) loc d) :
    DErr (.dirs (.content x :: ds) (.elem tag attrs kids)) loc d :=
  DErr.step (fun _ => by simp only [doc]) h

theorem DErr.with_ {bs ds t} {loc : Env} {d : DSt} (h : DErr (.binds bs ds t) loc d) :
    DErr (.dirs (.with_ bs :: ds) t) loc d :=
  DErr.step (fun _ => by simp only [doc]) h

theorem DErr.binds_nil {ds t} {loc : Env} {d : DSt} (h : DErr (.dirs ds t) loc d) :
    DErr (.binds [] ds t) loc d :=
  DErr.step (fun _ => by simp only [doc]) h

theorem DErr.binds_cons {x e bs ds t} {loc : Env} {d : DSt} {v : Val}
    (hv : eval (dlook loc d) e = .ok v) (h : DErr (.binds bs ds t) ((x, v) :: loc) d) :
    DErr (.binds ((x, e) :: bs) ds t) loc d :=
  DErr.step (fun _ => by simp [doc, hv, bind, Except.bind]) h

theorem DErr.if_true {e ds t} {loc : Env} {d : DSt} {v : Val}
    (hv : eval (dlook loc d) e = .ok v) (ht : v.truthy = true) (h : DErr (.dirs ds t) loc d) :
    DErr (.dirs (.if_ e :: ds) t) loc d :=
  DErr.step (fun _ => by simp [doc, hv, ht, bind, Except.bind]) h

theorem DErr.for_ {v e ds t} {loc : Env} {d : DSt} {it items}
    (hit : eval (dlook loc d) e = .ok it) (hitems : iterItems it = .ok items)
    (h : DErr (.loop v items ds t) loc d) : DErr (.dirs (.for_ v e :: ds) t) loc d :=
  DErr.step (fun _ => by simp [doc, hit, hitems, bind, Except.bind]) h

theorem DErr.loop_left {v item items ds t} {loc : Env} {d : DSt}
    (h : DErr (.dirs ds t) ((v, item) :: loc) d) : DErr (.loop v (item :: items) ds t) loc d := by
  obtain ⟨n, e, h, he⟩ := h
  exact ⟨n + 1, e, by simp only [doc, seq_err]; exact Or.inl h, he⟩

theorem DErr.loop_right {v item items ds t} {loc : Env} {d d1 : DSt} {o1 : List Event}
    (h1 : DOk (.dirs ds t) ((v, item) :: loc) d o1 d1) (h2 : DErr (.loop v items ds t) loc d1) :
    DErr (.loop v (item :: items) ds t) loc d := by
  obtain ⟨n1, h1⟩ := h1
  obtain ⟨n2, e, h2, he⟩ := h2
  refine ⟨max n1 n2 + 1, e, ?_, he⟩
  simp only [doc, seq_err]
  exact Or.inr ⟨o1, d1, DOk.lift h1 (Nat.le_max_left _ _), DErr.lift h2 he (Nat.le_max_right _ _)⟩

theorem DErr.choose {e ds t} {loc : Env} {d : DSt} {v : Val}
    (hv : evalOpt (dlook loc d) e = .ok v)
    (h : DErr (.dirs ds t) loc { d with ch := some ⟨false, e.isSome, v⟩ }) :
    DErr (.dirs (.choose e :: ds) t) loc d := by
  obtain ⟨n, er, h, he⟩ := h
  exact ⟨n + 1, er, by simp [doc, hv, h, bind, Except.bind, mapSt], he⟩

theorem DErr.attrs_elem {e ds tag attrs kids} {loc : Env} {d : DSt} {v ps}
    (hv : eval (dlook loc d) e = .ok v) (hps : attrsPairs v = .ok ps)
    (h : DErr (.dirs ds (.elem tag (Genshi.Escape.Attrs.or attrs ps) kids)) loc d) :
    DErr (.dirs (.attrs e :: ds) (.elem tag attrs kids)) loc d :=
  DErr.step (fun _ => by simp [doc, hv, hps, bind, Except.bind]) h

theorem DErr.strip_elem {c ds tag attrs kids} {loc : Env} {d : DSt} {b : Bool}
    (hb : stripCond (dlook loc d) c = .ok b)
    (h : DErr (.dirs ds (if b then .frag kids else .elem tag attrs kids)) loc d) :
    DErr (.dirs (.strip c :: ds) (.elem tag attrs kids)) loc d :=
  DErr.step (fun _ => by simp [doc, hb, bind, Except.bind]) h

theorem DErr.when_hit {e ds t} {loc : Env} {d : DSt} {c : Choice}
    (hc : d.ch = some c) (hm : c.matched = false) (hw : whenMatches (dlook loc d) c e = .ok true)
    (h : DErr (.dirs ds t) loc (d.setMatched c true)) : DErr (.dirs (.when e :: ds) t) loc d :=
  DErr.step (fun _ => by simp [doc, hc, hm, hw, bind, Except.bind]) h

theorem DErr.otherwise_hit {ds t} {loc : Env} {d : DSt} {c : Choice}
    (hc : d.ch = some c) (hm : c.matched = false) (h : DErr (.dirs ds t) loc (d.setMatched c true)) :
    DErr (.dirs (.otherwise :: ds) t) loc d :=
  DErr.step (fun _ => by simp [doc, hc, hm]) h

theorem DErr.xexpr_call {f args} {loc : Env} {d : DSt} {fv vs m scope}
    (hfv : eval (dlook loc d) f = .ok fv)
    (hvs : evalArgs (dlook loc d) args = .ok vs) (hm : getDMacro d fv = .ok m)
    (hsc : bindParams (dlook loc d) m.params vs = .ok scope) (h : DErr (.dirs m.dirs m.target) (scope ++ loc) d) :
    DErr (.xexpr (.call f args)) loc d :=
  DErr.step (fun _ => by simp [doc, hfv, hvs, hm, hsc, bind, Except.bind]) h

end Genshi.Tmpl

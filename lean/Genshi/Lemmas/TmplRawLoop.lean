/-
  C04 — the commuting lemma "raw loop = `textParse` after reading".

  `Scan.parseNew` runs the token loop of `NewTextTemplate._parse` over raw (command, value)
  pairs and builds a stream of `SEv`; `rawToks` reads the same raw tokens into `TTok`s (reader of
  the mini expression language, `readXExpr` / `readDir`) and `textParse` runs the loop over those.
  Whenever the source can be read, the stream `parseNew` builds, read event by event (`ReadEvs`),
  IS the stream `textParse` builds: a simulation between the two loops (`Rel`).
-/
import Genshi.Model.TmplRaw
namespace Genshi.Tmpl.Raw
open Genshi.Tmpl.Scan (SEv PErr RTok)
open Genshi.Gen.Directives (newTextDirectives)

/-! ### reading a parsed stream event by event -/

/-- the parsed stream of a text template read event by event: text stays, the source of `${…}`
    is read by `readXExpr`, a SUB event `(cmd, some val)` by `readDir` and its body recursively;
    `incl`, `exec`, a SUB without value and unreadable sources have no reading -/
inductive ReadEvs (strict : Bool) : List SEv → List REv → Prop
  | nil : ReadEvs strict [] []
  | text (s : Str) {r : List SEv} {r' : List REv} :
      ReadEvs strict r r' → ReadEvs strict (.text s :: r) (.text s :: r')
  | expr {src : Str} {x : XExpr} {r : List SEv} {r' : List REv} :
      readXExpr strict src = some x → ReadEvs strict r r' →
      ReadEvs strict (.expr src :: r) (.xexpr x :: r')
  | sub {cmd val : Str} {d : Dir} {body : List SEv} {body' : List REv} {r : List SEv} {r' : List REv} :
      readDir strict cmd val = some d → ReadEvs strict body body' → ReadEvs strict r r' →
      ReadEvs strict (.sub cmd (some val) body :: r) (.sub [d] body' :: r')

/-- the same reader as a function (fuel: nesting depth; `SEv` is a nested inductive) -/
def readEvs (strict : Bool) : Nat → List SEv → Option (List REv)
  | _, [] => some []
  | f, .text s :: r => (readEvs strict f r).map (.text s :: ·)
  | f, .expr src :: r =>
      match readXExpr strict src with
      | some x => (readEvs strict f r).map (.xexpr x :: ·)
      | none => none
  | f + 1, .sub cmd (some val) body :: r =>
      match readDir strict cmd val, readEvs strict f body with
      | some d, some body' => (readEvs strict (f + 1) r).map (.sub [d] body' :: ·)
      | _, _ => none
  | _, _ :: _ => none

theorem ReadEvs.length_eq {strict : Bool} {a : List SEv} {b : List REv}
    (h : ReadEvs strict a b) : a.length = b.length := by
  induction h <;> simp [*]

theorem ReadEvs.append {strict : Bool} {a c : List SEv} {b d : List REv}
    (h1 : ReadEvs strict a b) (h2 : ReadEvs strict c d) : ReadEvs strict (a ++ c) (b ++ d) := by
  induction h1 with
  | nil => simpa using h2
  | text s _ ih => exact .text s ih
  | expr hx _ ih => exact .expr hx ih
  | sub hd hb _ _ ih => exact .sub hd hb ih

theorem ReadEvs.take {strict : Bool} {a : List SEv} {b : List REv}
    (h : ReadEvs strict a b) (n : Nat) : ReadEvs strict (a.take n) (b.take n) := by
  induction h generalizing n with
  | nil => simpa using .nil
  | text s _ ih =>
      cases n with
      | zero => simpa using .nil
      | succ n => simpa using .text s (ih n)
  | expr hx _ ih =>
      cases n with
      | zero => simpa using .nil
      | succ n => simpa using .expr hx (ih n)
  | sub hd hb _ _ ih =>
      cases n with
      | zero => simpa using .nil
      | succ n => simpa using .sub hd hb (ih n)

theorem ReadEvs.drop {strict : Bool} {a : List SEv} {b : List REv}
    (h : ReadEvs strict a b) (n : Nat) : ReadEvs strict (a.drop n) (b.drop n) := by
  induction h generalizing n with
  | nil => simpa using .nil
  | text s h' ih =>
      cases n with
      | zero => simpa using .text s h'
      | succ n => simpa using ih n
  | expr hx h' ih =>
      cases n with
      | zero => simpa using .expr hx h'
      | succ n => simpa using ih n
  | sub hd hb h' _ ih =>
      cases n with
      | zero => simpa using .sub hd hb h'
      | succ n => simpa using ih n

/-! ### the two dictionaries -/

/-- the dictionaries of the two loops correspond entry by entry -/
inductive RelMap (strict : Bool) : Scan.DirMap → TDirMap → Prop
  | nil : RelMap strict [] []
  | cons (k : Int) (off : Nat) {cmd val : Str} {d : Dir} {m : Scan.DirMap} {m' : TDirMap} :
      readDir strict cmd val = some d → RelMap strict m m' →
      RelMap strict ((k, (cmd, some val, off)) :: m) ((k, (d, off)) :: m')

theorem RelMap.get? {strict : Bool} {m : Scan.DirMap} {m' : TDirMap}
    (h : RelMap strict m m') (k : Int) :
    (Scan.DirMap.get? m k = none ∧ TDirMap.get? m' k = none) ∨
    ∃ cmd val d off, Scan.DirMap.get? m k = some (cmd, some val, off) ∧
      TDirMap.get? m' k = some (d, off) ∧ readDir strict cmd val = some d := by
  induction h with
  | nil => left; simp [Scan.DirMap.get?, TDirMap.get?]
  | cons k' off hd _ ih =>
      simp only [Scan.DirMap.get?, TDirMap.get?]
      split
      · right; exact ⟨_, _, _, _, rfl, rfl, hd⟩
      · exact ih

theorem RelMap.erase {strict : Bool} {m : Scan.DirMap} {m' : TDirMap}
    (h : RelMap strict m m') (k : Int) :
    RelMap strict (Scan.DirMap.erase m k) (TDirMap.erase m' k) := by
  induction h with
  | nil => exact .nil
  | cons k' off hd _ ih =>
      simp only [Scan.DirMap.erase, TDirMap.erase] at ih ⊢
      by_cases hk : k' = k
      · simpa [List.filter_cons, hk] using ih
      · simpa [List.filter_cons, hk] using RelMap.cons k' off hd ih

theorem RelMap.put {strict : Bool} {m : Scan.DirMap} {m' : TDirMap}
    (h : RelMap strict m m') (k : Int) (off : Nat) {cmd val : Str} {d : Dir}
    (hd : readDir strict cmd val = some d) :
    RelMap strict (Scan.DirMap.put m k (cmd, some val, off)) (TDirMap.put m' k (d, off)) :=
  .cons k off hd (h.erase k)

/-! ### the simulation -/

/-- state of the raw loop ~ state of the token loop -/
structure Rel (strict : Bool) (s : Scan.PSt) (t : TSt) : Prop where
  depth : s.depth = t.depth
  out : ReadEvs strict s.out t.out
  dm : RelMap strict s.dirmap t.dirmap

theorem Rel.stepEnd {strict : Bool} {s : Scan.PSt} {t : TSt} (h : Rel strict s t) :
    Rel strict (Scan.stepEnd s) (textStep t .end_) := by
  obtain ⟨hdep, hout, hdm⟩ := h
  rcases hdm.get? (s.depth - 1) with ⟨h1, h2⟩ | ⟨cmd, val, d, off, h1, h2, hd⟩
  · rw [hdep] at h2
    simp only [Scan.stepEnd, textStep, h1, h2]
    exact ⟨by simp [hdep], hout, hdm⟩
  · rw [hdep] at h2
    simp only [Scan.stepEnd, textStep, h1, h2]
    refine ⟨by simp [hdep], ?_, ?_⟩
    · exact (hout.take off).append (.sub hd (hout.drop off) .nil)
    · simpa [hdep] using hdm.erase (s.depth - 1)

theorem Rel.stepOpen {strict : Bool} {s : Scan.PSt} {t : TSt} (h : Rel strict s t)
    {names : List (Str × Str)} {cmd val : Str} {d : Dir}
    (hn : names.any (fun p => p.1 = cmd) = true) (hd : readDir strict cmd val = some d) :
    ∃ s', Scan.stepOpen names s cmd (some val) = .ok s' ∧ Rel strict s' (textStep t (.dir d)) := by
  obtain ⟨hdep, hout, hdm⟩ := h
  refine ⟨_, by simp only [Scan.stepOpen, hn]; rfl, ?_⟩
  simp only [textStep]
  refine ⟨by simp [hdep], hout, ?_⟩
  simpa [hdep, hout.length_eq] using hdm.put s.depth s.out.length hd

/-- `evToks` succeeds on `text` / `expr` events only, and its tokens append their reading -/
theorem evToks_read {strict : Bool} (evs : List SEv) (ts : List TTok)
    (h : evToks strict evs = .ok ts) :
    ∃ rs, ReadEvs strict evs rs ∧
      ∀ t : TSt, ts.foldl textStep t = { t with out := t.out ++ rs } := by
  induction evs generalizing ts with
  | nil =>
      simp only [evToks, Except.ok.injEq] at h
      subst h
      exact ⟨[], .nil, fun t => by simp⟩
  | cons e r ih =>
      cases e with
      | text s =>
          simp only [evToks, bind, Except.bind, pure, Except.pure] at h
          cases hr : evToks strict r with
          | error e => simp [hr] at h
          | ok ts' =>
              simp only [hr, Except.ok.injEq] at h
              subst h
              obtain ⟨rs, h1, h2⟩ := ih ts' hr
              refine ⟨.text s :: rs, .text s h1, fun t => ?_⟩
              simp [List.foldl_cons, textStep, h2]
      | expr src =>
          simp only [evToks] at h
          cases hx : readXExpr strict src with
          | none => simp [hx] at h
          | some x =>
              simp only [hx, bind, Except.bind, pure, Except.pure] at h
              cases hr : evToks strict r with
              | error e => simp [hr] at h
              | ok ts' =>
                  simp only [hr, Except.ok.injEq] at h
                  subst h
                  obtain ⟨rs, h1, h2⟩ := ih ts' hr
                  refine ⟨.xexpr x :: rs, .expr hx h1, fun t => ?_⟩
                  simp [List.foldl_cons, textStep, h2]
      | sub _ _ _ => simp [evToks] at h
      | incl _ => simp [evToks] at h
      | exec _ => simp [evToks] at h

theorem Rel.emit {strict : Bool} {s : Scan.PSt} {t : TSt} (h : Rel strict s t)
    {evs : List SEv} {ts : List TTok} (he : evToks strict evs = .ok ts) :
    Rel strict (s.emit evs) (ts.foldl textStep t) := by
  obtain ⟨rs, h1, h2⟩ := evToks_read evs ts he
  rw [h2]
  exact ⟨h.depth, h.out.append h1, h.dm⟩

/-- one directive token -/
theorem Rel.stepDir {strict : Bool} {s : Scan.PSt} {t : TSt} (h : Rel strict s t)
    {inner cmd val : Str} {ts : List TTok}
    (hd : dirToks strict newTextDirectives cmd val = .ok ts) :
    ∃ s', Scan.stepNew s (.dir inner cmd val) = .ok s' ∧ Rel strict s' (ts.foldl textStep t) := by
  unfold dirToks at hd
  split at hd
  · next hc =>
      simp only [Except.ok.injEq] at hd
      subst hd; subst hc
      exact ⟨Scan.stepEnd s, by simp [Scan.stepNew, pure, Except.pure], by simpa using h.stepEnd⟩
  · next hc =>
      split at hd
      · simp at hd
      · next hip =>
          simp only [Bool.or_eq_true, decide_eq_true_eq, not_or] at hip
          split at hd
          · next hn =>
              cases hr : readDir strict cmd val with
              | none => simp [hr] at hd
              | some d =>
                  simp only [hr, Except.ok.injEq] at hd
                  subst hd
                  obtain ⟨s', h1, h2⟩ := h.stepOpen hn hr
                  exact ⟨s', by simp [Scan.stepNew, hc, hip.1, hip.2, h1], by simpa using h2⟩
          · simp at hd

/-- the loops run in step over a whole token list -/
theorem parseToks_sim {strict : Bool} (rts : List RTok) :
    ∀ (ts : List TTok) (s : Scan.PSt) (t : TSt), newToks strict rts = .ok ts → Rel strict s t →
      ∃ s', Scan.parseToks Scan.stepNew s rts = (s', none) ∧ Rel strict s' (ts.foldl textStep t) := by
  induction rts with
  | nil =>
      intro ts s t h hr
      simp only [newToks, Except.ok.injEq] at h
      subst h
      exact ⟨s, rfl, by simpa using hr⟩
  | cons rt r ih =>
      intro ts s t h hr
      cases rt with
      | text raw =>
          simp only [newToks, bind, Except.bind, pure, Except.pure] at h
          cases hi : Scan.interpolate (Scan.unescapeNew raw) with
          | error e => simp [hi] at h
          | ok evs =>
              simp only [hi] at h
              cases ha : evToks strict evs with
              | error e => simp [ha] at h
              | ok a =>
                  simp only [ha] at h
                  cases hb : newToks strict r with
                  | error e => simp [hb] at h
                  | ok b =>
                      simp only [hb, Except.ok.injEq] at h
                      subst h
                      obtain ⟨s', h1, h2⟩ := ih b (s.emit evs) (a.foldl textStep t) hb (hr.emit ha)
                      refine ⟨s', ?_, by simpa [List.foldl_append] using h2⟩
                      simp [Scan.parseToks, Scan.stepNew, hi, bind, Except.bind, pure, Except.pure, h1]
      | comment c =>
          simp only [newToks] at h
          obtain ⟨s', h1, h2⟩ := ih ts s t h hr
          exact ⟨s', by simp [Scan.parseToks, Scan.stepNew, pure, Except.pure, h1], h2⟩
      | dir inner cmd val =>
          simp only [newToks, bind, Except.bind, pure, Except.pure] at h
          cases ha : dirToks strict newTextDirectives cmd val with
          | error e => simp [ha] at h
          | ok a =>
              simp only [ha] at h
              cases hb : newToks strict r with
              | error e => simp [hb] at h
              | ok b =>
                  simp only [hb, Except.ok.injEq] at h
                  subst h
                  obtain ⟨s1, hs1, hr1⟩ := hr.stepDir (inner := inner) ha
                  obtain ⟨s', h1, h2⟩ := ih b s1 (a.foldl textStep t) hb hr1
                  refine ⟨s', ?_, by simpa [List.foldl_append] using h2⟩
                  simp only [Scan.parseToks, hs1, h1]

/-! ### the commuting lemma -/

/-- raw loop = `textParse` after reading: whenever the source can be read into tokens, the
    stream `parseNew` builds from the raw (command, value) pairs, read event by event, is the
    stream `textParse` builds from the read tokens -/
theorem parseNew_commutes (strict : Bool) (src : Str) (toks : List TTok)
    (h : rawToks false strict src = .ok toks) :
    ∃ evs, Scan.parseNew src = .ok evs ∧ ReadEvs strict evs (textParse toks) := by
  simp only [rawToks, Bool.false_eq_true, if_false] at h
  obtain ⟨s', h1, h2⟩ :=
    parseToks_sim (Scan.scanNew src) toks ⟨0, [], []⟩ ⟨0, [], []⟩ h ⟨rfl, .nil, .nil⟩
  exact ⟨s'.out, by simp [Scan.parseNew, Scan.result, h1], h2.out⟩

/-! ### the relation and the function agree -/

theorem readEvs_of_ReadEvs {strict : Bool} {a : List SEv} {b : List REv}
    (h : ReadEvs strict a b) : ∃ f, ∀ g, f ≤ g → readEvs strict g a = some b := by
  induction h with
  | nil => exact ⟨0, fun g _ => by cases g <;> simp [readEvs]⟩
  | text s _ ih =>
      obtain ⟨f, hf⟩ := ih
      exact ⟨f, fun g hg => by simp [readEvs, hf g hg]⟩
  | expr hx _ ih =>
      obtain ⟨f, hf⟩ := ih
      exact ⟨f, fun g hg => by simp [readEvs, hx, hf g hg]⟩
  | sub hd _ _ ihb ih =>
      obtain ⟨fb, hfb⟩ := ihb
      obtain ⟨f, hf⟩ := ih
      refine ⟨max (fb + 1) f, fun g hg => ?_⟩
      cases g with
      | zero => omega
      | succ g =>
          have h1 := hfb g (by omega)
          have h2 := hf (g + 1) (by omega)
          simp [readEvs, hd, h1, h2]

/-- the commuting lemma with the reader as a function -/
theorem parseNew_commutes_fuel (strict : Bool) (src : Str) (toks : List TTok)
    (h : rawToks false strict src = .ok toks) :
    ∃ evs fuel, Scan.parseNew src = .ok evs ∧ readEvs strict fuel evs = some (textParse toks) := by
  obtain ⟨evs, h1, h2⟩ := parseNew_commutes strict src toks h
  obtain ⟨f, hf⟩ := readEvs_of_ReadEvs h2
  exact ⟨evs, f, h1, hf f (Nat.le_refl f)⟩

/-! ### the hypothesis is not vacuous: `a{% if x %}b${y}{% end %}` -/

def exSrc : Str :=
  ['a', '{', '%', ' ', 'i', 'f', ' ', 'x', ' ', '%', '}', 'b', '$', '{', 'y', '}',
   '{', '%', ' ', 'e', 'n', 'd', ' ', '%', '}']

def exToks : List TTok :=
  [.text ['a'], .dir (.if_ (.var ['x'])), .text ['b'], .xexpr (.pure (.var ['y'])), .end_]

set_option maxRecDepth 8000 in
theorem exSrc_rawToks : rawToks false false exSrc = .ok exToks := by rfl

example : textParse exToks = [.text ['a'], .sub [.if_ (.var ['x'])] [.text ['b'], .xexpr (.pure (.var ['y']))]] := by
  rfl

example : ∃ evs, Scan.parseNew exSrc = .ok evs ∧ ReadEvs false evs (textParse exToks) :=
  parseNew_commutes false exSrc exToks exSrc_rawToks

end Genshi.Tmpl.Raw

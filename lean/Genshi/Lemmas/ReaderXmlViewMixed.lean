/-
  Helper lemmas for C08: expat's view (`xmlView`, namespace resolution with a SCOPE STACK) of the
  xhtml tokens of a forest that mixes namespaces: every element is read back in its own namespace.
  The expected tokens are defined by recursion on the forest with qualified names
  (`forestPiecesQ`, `mergeGoQ`); the proof goes through the pieces in continuation-passing form
  (`ContOk`: whatever follows is resolved correctly from every pending text).  Mathlib-free.
-/
import Genshi.Lemmas.ReaderTreeMixed
import Genshi.Lemmas.ReaderXmlView
namespace Genshi.Reader
open Genshi Genshi.Output

/-- expected output with qualified names: tokens and character data -/
inductive PieceQ where
  | tok (t : XTok)
  | chars (s : Str)

def textTokQ (buf : Str) : List XTok := if buf.isEmpty then [] else [.text buf]

/-- pieces to tokens, left to right, adjacent character data merged, empty text dropped -/
def mergeGoQ (buf : Str) : List PieceQ → List XTok
  | [] => textTokQ buf
  | .chars s :: ps => mergeGoQ (buf ++ s) ps
  | .tok t :: ps => textTokQ buf ++ t :: mergeGoQ [] ps

/-- the attributes as expat delivers them: `xml:` attributes in the XML namespace, boolean
    attributes expanded, `lang` added for `xml:lang` -/
def attrsQ (a : AttrList) : List (QName × Str) := (resolveAttrs (xhtmlAttrToks (fAttrs a))).getD []

mutual
  /-- what an XML parser with namespace processing reads back for a tree: every element in its OWN
      namespace, start and end tag for every element (self-closed or not), text and comments verbatim -/
  def treePiecesQ : Node → List PieceQ
    | .elem t a ks =>
        if ks.isEmpty then [.tok (.start ⟨t.ns, t.loc⟩ (attrsQ a)), .tok (.end_ ⟨t.ns, t.loc⟩)]
        else .tok (.start ⟨t.ns, t.loc⟩ (attrsQ a)) :: (forestPiecesQ ks ++ [.tok (.end_ ⟨t.ns, t.loc⟩)])
    | .leaf (.text x _) => [.chars x]
    | .leaf (.comment x) => [.tok (.comment x)]
    | .leaf _ => []
  def forestPiecesQ : List Node → List PieceQ
    | [] => []
    | n :: ns => treePiecesQ n ++ forestPiecesQ ns
end

/-- whatever follows is resolved correctly under scope `sc`, from every pending text -/
def ContOk (sc : List Str) (R : List Piece) (RQ : List PieceQ) : Prop :=
  ∀ b : Str, (b ≠ [] → sc ≠ []) → xmlView sc (mergeGo b R) = some (mergeGoQ b RQ)

theorem contOk_nil : ContOk [] [] [] := by
  intro b hb
  have : b = [] := by
    by_cases h : b = []
    · exact h
    · exact absurd rfl (hb h)
  subst this
  simp [mergeGo, mergeGoQ, textTok, textTokQ, xmlView]

theorem xmlView_textTokS (sc : List Str) (b : Str) (hb : b ≠ [] → sc ≠ []) (rest : List Tok) :
    xmlView sc (textTok b ++ rest) = (xmlView sc rest).map (fun r => textTokQ b ++ r) := by
  unfold textTok textTokQ
  by_cases h : b.isEmpty = true
  · simp only [h, ↓reduceIte, List.nil_append]
    cases xmlView sc rest <;> simp
  · have hne : b ≠ [] := by simpa using h
    have hsc := hb hne
    cases sc with
    | nil => exact absurd rfl hsc
    | cons d outer =>
      simp only [h, Bool.false_eq_true, ↓reduceIte, List.singleton_append, xmlView, List.isEmpty_cons]

theorem xmlView_startS (sc : List Str) (t : QName) (a : AttrList) (s : Bool) (rest : List Tok)
    (hn : nameNoColon t.loc = true) (ha : xmlAttrNamesOk a = true) :
    xmlView sc (.start t.loc ((declM (sc.headD []) t.ns).map (fun p => (p.1, some p.2)) ++
        xhtmlAttrToks (fAttrs a)) s :: rest) =
      (if s then (xmlView sc rest).map
          (fun r => .start ⟨t.ns, t.loc⟩ (attrsQ a) :: .end_ ⟨t.ns, t.loc⟩ :: r)
       else (xmlView (t.ns :: sc) rest).map (fun r => .start ⟨t.ns, t.loc⟩ (attrsQ a) :: r)) := by
  have hx := xhtmlAttrToks_ok (fAttrs a) ha
  have hn' : (t.loc.any (· == ':')) = false := by simpa [nameNoColon] using hn
  obtain ⟨ra, hra⟩ := Option.isSome_iff_exists.mp (resolveAttrs_isSome _ hx.2)
  have hq : attrsQ a = ra := by simp [attrsQ, hra]
  by_cases hd : t.ns = sc.headD []
  · have hdflt : dfltNs sc (xhtmlAttrToks (fAttrs a)) = t.ns := by
      simp [dfltNs, lookupAttr_none_of_noXmlns _ hx.1, hd]
    have hdecl : declM (sc.headD []) t.ns = [] := by simp [declM, hd]
    rw [hdecl]
    simp only [List.map_nil, List.nil_append, xmlView, hn', Bool.false_eq_true, ↓reduceIte, hdflt, hra, hq]
    all_goals (cases s <;> simp)
  · have hl : lookupAttr xmlnsName ((xmlns, some t.ns) :: xhtmlAttrToks (fAttrs a)) = some (some t.ns) := by
      simp [lookupAttr, xmlns, xmlnsName]
    have hr : resolveAttrs ((xmlns, some t.ns) :: xhtmlAttrToks (fAttrs a)) = some ra := by
      simp only [resolveAttrs, xmlns, xmlnsName, ↓reduceIte]; exact hra
    simp only [declM, hd, ↓reduceIte, List.map_cons, List.map_nil, List.singleton_append, xmlView, hn',
      Bool.false_eq_true, dfltNs, hl, hr, hq]
    all_goals (cases s <;> simp)

mutual
  theorem contOk_tree : ∀ (n : Node) (sc : List Str) (R : List Piece) (RQ : List PieceQ),
      xmlTreeOk sc.isEmpty n = true → ContOk sc R RQ →
      ContOk sc (treePiecesXM (sc.headD []) n ++ R) (treePiecesQ n ++ RQ)
    | .elem t a ks, sc, R, RQ, h, hR => by
        simp only [xmlTreeOk, Bool.and_eq_true] at h
        obtain ⟨⟨hn, ha⟩, hk⟩ := h
        intro b hb
        cases ks with
        | nil =>
          by_cases hv : inTable (emptyElems .xhtml) t.loc = true
          · simp only [treePiecesXM, List.isEmpty_nil, ↓reduceIte, hv, List.singleton_append, mergeGo, treePiecesQ,
              List.cons_append, List.nil_append, mergeGoQ]
            rw [xmlView_textTokS sc b hb, xmlView_startS sc t a true _ hn ha]
            simp only [↓reduceIte]
            have h1 := hR [] (by intro h; exact absurd rfl h)
            -- the end token of the expected output sits between start and the rest
            simp only [h1, Option.map_some, textTokQ, List.isEmpty_nil, ↓reduceIte, List.nil_append]
          · simp only [treePiecesXM, List.isEmpty_nil, ↓reduceIte, hv, Bool.false_eq_true, List.cons_append,
              List.nil_append, mergeGo, treePiecesQ, mergeGoQ]
            rw [xmlView_textTokS sc b hb, xmlView_startS sc t a false _ hn ha]
            simp only [Bool.false_eq_true, ↓reduceIte, textTok, List.isEmpty_nil, List.nil_append, xmlView]
            have h1 := hR [] (by intro h; exact absurd rfl h)
            simp only [h1, Option.map_some, textTokQ, List.isEmpty_nil, ↓reduceIte, List.nil_append]
        | cons k ks' =>
          have hend : ContOk (t.ns :: sc) (.tok (.end_ t.loc) :: R) (.tok (.end_ ⟨t.ns, t.loc⟩) :: RQ) := by
            intro b' _
            simp only [mergeGo, mergeGoQ]
            rw [xmlView_textTokS (t.ns :: sc) b' (by intro _; simp)]
            have h1 := hR [] (by intro h; exact absurd rfl h)
            simp only [xmlView, h1, Option.map_some]
          have hkids := contOk_forest (k :: ks') (t.ns :: sc) _ _ (by simpa using hk) hend
          simp only [treePiecesXM, List.isEmpty_cons, Bool.false_eq_true, ↓reduceIte, List.cons_append,
            List.append_assoc, List.singleton_append, List.nil_append, mergeGo, treePiecesQ, mergeGoQ]
          rw [xmlView_textTokS sc b hb, xmlView_startS sc t a false _ hn ha]
          simp only [Bool.false_eq_true, ↓reduceIte]
          have h2 := hkids [] (by intro h; exact absurd rfl h)
          simp only [List.headD_cons] at h2
          rw [h2]
          simp
    | .leaf e, sc, R, RQ, h, hR => by
        cases e with
        | text x f =>
          have hsc : sc ≠ [] := by
            intro he; subst he; simp [xmlTreeOk] at h
          intro b _
          simp only [treePiecesXM, treePiecesQ, List.singleton_append, mergeGo, mergeGoQ]
          exact hR (b ++ x) (fun _ => hsc)
        | comment x =>
          intro b hb
          simp only [treePiecesXM, treePiecesQ, List.singleton_append, mergeGo, mergeGoQ]
          rw [xmlView_textTokS sc b hb]
          have h1 := hR [] (by intro h; exact absurd rfl h)
          simp only [xmlView, h1, Option.map_some]
        | _ => simpa [treePiecesXM, treePiecesQ] using hR
  theorem contOk_forest : ∀ (ns : List Node) (sc : List Str) (R : List Piece) (RQ : List PieceQ),
      xmlForestOk sc.isEmpty ns = true → ContOk sc R RQ →
      ContOk sc (forestPiecesXM (sc.headD []) ns ++ R) (forestPiecesQ ns ++ RQ)
    | [], sc, R, RQ, _, hR => by simpa [forestPiecesXM, forestPiecesQ] using hR
    | n :: ns, sc, R, RQ, h, hR => by
        simp only [xmlForestOk, Bool.and_eq_true] at h
        simp only [forestPiecesXM, forestPiecesQ, List.append_assoc]
        exact contOk_tree n sc _ _ h.1 (contOk_forest ns sc R RQ h.2 hR)
end

/-- expat's view of the xhtml tokens of a forest that mixes namespaces -/
theorem xmlView_forestM (ns : List Node) (h : xmlForestOk true ns = true) :
    xmlView [] (assemble (forestPiecesXM [] ns)) = some (mergeGoQ [] (forestPiecesQ ns)) := by
  have := contOk_forest ns [] [] [] (by simpa using h) contOk_nil [] (by intro h; exact absurd rfl h)
  simpa [assemble_eq_merge] using this

end Genshi.Reader

/-
  The buffers of copy() / cut() on a `Good` stream hold balanced content (whole
  selections), so injecting a buffer later keeps streams well nested.
-/
import Genshi.Lemmas.TfDirty
namespace Genshi.Tf

/-- a buffer whose events are balanced -/
def BalE (buf : List MEv) : Prop := Bal (evsOf buf)

theorem evsOf_append (a b : List MEv) : evsOf (a ++ b) = evsOf a ++ evsOf b := by
  induction a with
  | nil => rfl
  | cons x a ih => cases x <;> simp [evsOf, ih]

theorem evsOf_map_snd (blk : MStream) : evsOf (blk.map (·.2)) = unmark blk := by
  induction blk with
  | nil => rfl
  | cons p blk ih =>
    obtain ⟨m, x⟩ := p
    cases x <;> simp [evsOf, unmark, ih]

theorem BalE.nil : BalE [] := Bal.nil

theorem BalE.append {a b : List MEv} (ha : BalE a) (hb : BalE b) : BalE (a ++ b) := by
  unfold BalE; rw [evsOf_append]; exact Bal.append ha hb

theorem BalE.ite (acc : Bool) {buf : List MEv} (h : BalE buf) : BalE (if acc then buf else []) := by
  cases acc <;> simp [h, BalE.nil]

theorem BalE.ofBlock {blk : MStream} (h : Bal (unmark blk)) : BalE (blk.map (·.2)) := by
  unfold BalE; rw [evsOf_map_snd]; exact h

theorem cutBuf_eq_copyBuf (acc : Bool) (s : MStream) :
    ∀ st buf, cutBuf acc st buf s = copyBuf acc st buf s := by
  induction s with
  | nil => intro st buf; cases st <;> rfl
  | cons p s ih =>
    intro st buf
    obtain ⟨m, x⟩ := p
    cases st with
    | idle => rcases m with _ | m <;> simp [cutBuf, copyBuf, ih]
    | inEnter => simp [cutBuf, copyBuf, ih]
    | inRun m0 =>
      by_cases hm : m = some m0
      · simp [cutBuf, copyBuf, hm, ih]
      · rcases m with _ | m <;> simp [cutBuf, copyBuf, hm, ih]

section buf
variable (acc : Bool)

theorem copyBuf_inRun_block (m : Mark) (blk s : MStream) (h : Uniform m blk) :
    ∀ buf, copyBuf acc (.inRun m) buf (blk ++ s) = copyBuf acc (.inRun m) (buf ++ blk.map (·.2)) s := by
  induction blk with
  | nil => intro buf; simp
  | cons p blk ih =>
    intro buf
    obtain ⟨m', x⟩ := p
    have hm : m' = some m := h (m', x) (by simp)
    have hu : Uniform m blk := fun q hq => h q (by simp [hq])
    subst hm
    simp [copyBuf, ih hu]

theorem copyBuf_idle_block (m : Mark) (hm : m ≠ .enter) (p : MItem) (blk s : MStream)
    (h : Uniform m (p :: blk)) (buf : List MEv) :
    copyBuf acc .idle buf ((p :: blk) ++ s) =
      copyBuf acc (.inRun m) ((if acc then buf else []) ++ (p :: blk).map (·.2)) s := by
  obtain ⟨m', x⟩ := p
  have hm' : m' = some m := h (m', x) (by simp)
  have hu : Uniform m blk := fun q hq => h q (by simp [hq])
  subst hm'
  simp [copyBuf, startSt, hm, copyBuf_inRun_block acc m blk s hu]

theorem copyBuf_inRun_other (m0 m : Mark) (hne : m ≠ m0) (hm : m ≠ .enter) (p : MItem) (blk s : MStream)
    (h : Uniform m (p :: blk)) (buf : List MEv) :
    copyBuf acc (.inRun m0) buf ((p :: blk) ++ s) =
      copyBuf acc (.inRun m) ((if acc then buf else []) ++ (p :: blk).map (·.2)) s := by
  obtain ⟨m', x⟩ := p
  have hm' : m' = some m := h (m', x) (by simp)
  have hu : Uniform m blk := fun q hq => h q (by simp [hq])
  subst hm'
  have : (some m = some m0) = False := by simp [hne]
  simp [copyBuf, this, startSt, hm, copyBuf_inRun_block acc m blk s hu]

theorem copyBuf_inEnter_mid (mid : MStream) (x : MEv) (s : MStream) (h : NoExit mid) :
    ∀ buf, copyBuf acc .inEnter buf (mid ++ (some .exit, x) :: s) =
      copyBuf acc .idle (buf ++ (mid.map (·.2) ++ [x])) s := by
  induction mid with
  | nil => intro buf; simp [copyBuf]
  | cons p mid ih =>
    intro buf
    obtain ⟨m', y⟩ := p
    have hp : m' ≠ some .exit := h (m', y) (by simp)
    have hu : NoExit mid := fun q hq => h q (by simp [hq])
    simp [copyBuf, hp, ih hu]

end buf

theorem copyBuf_bal (acc : Bool) {s : MStream} (hg : Good s) :
    (∀ buf, BalE buf → BalE (copyBuf acc .idle buf s)) ∧
    (∀ m, m ≠ .enter → ∀ buf, BalE buf → BalE (copyBuf acc (.inRun m) buf s)) := by
  induction hg with
  | nil => exact ⟨fun buf h => by simpa [copyBuf] using h, fun m _ buf h => by simpa [copyBuf] using h⟩
  | @plain x s' _ ih =>
    refine ⟨fun buf h => by simpa [copyBuf] using ih.1 buf h, fun m _ buf h => ?_⟩
    have : ((none : Option Mark) = some m) = False := by simp
    simp only [copyBuf, this, ↓reduceIte]
    exact ih.1 buf h
  | @block m' blk s' hne hnx hu hb _ ih =>
    cases blk with
    | nil => simpa using ih
    | cons p blk =>
      constructor
      · intro buf h
        rw [copyBuf_idle_block acc m' hne p blk _ hu]
        exact ih.2 m' hne _ ((BalE.ite acc h).append (BalE.ofBlock hb))
      · intro m hm buf h
        by_cases hmm : m' = m
        · subst hmm
          rw [copyBuf_inRun_block acc m' (p :: blk) _ hu]
          exact ih.2 m' hm _ (h.append (BalE.ofBlock hb))
        · rw [copyBuf_inRun_other acc m m' hmm hne p blk _ hu]
          exact ih.2 m' hne _ ((BalE.ite acc h).append (BalE.ofBlock hb))
  | @elem t a mid s' hf hb _ ih =>
    have hE : ∀ buf, BalE buf → BalE ((buf ++ [MEv.ev (.start t a)]) ++
        (mid.map (·.2) ++ [MEv.ev (.end_ t)])) := by
      intro buf h
      unfold BalE at *
      rw [List.append_assoc, evsOf_append]
      refine Bal.append h ?_
      have := bal_elem t a hb
      simpa [evsOf, evsOf_append, evsOf_map_snd] using this
    constructor
    · intro buf h
      simp only [copyBuf, startSt, ↓reduceIte]
      rw [copyBuf_inEnter_mid acc mid _ s' hf.noExit]
      exact ih.1 _ (hE _ (BalE.ite acc h))
    · intro m hm buf h
      have : (some Mark.enter = some m) = False := by
        simp; intro h; exact hm h.symm
      simp only [copyBuf, this, ↓reduceIte, startSt]
      rw [copyBuf_inEnter_mid acc mid _ s' hf.noExit]
      exact ih.1 _ (hE _ (BalE.ite acc h))

/-! ### buffer store -/

theorem find_filter_ne (b : Bufs) (id id' : Nat) (h : id' ≠ id) :
    (b.filter (·.1 ≠ id)).find? (·.1 = id') = b.find? (·.1 = id') := by
  induction b with
  | nil => rfl
  | cons p b ih =>
    by_cases hp : p.1 = id
    · have hq : ¬ p.1 = id' := by rw [hp]; exact fun e => h e.symm
      rw [List.filter_cons_of_neg (by simpa using hp), List.find?_cons_of_neg (by simpa using hq), ih]
    · rw [List.filter_cons_of_pos (by simpa using hp)]
      by_cases hq : p.1 = id'
      · rw [List.find?_cons_of_pos (by simpa using hq), List.find?_cons_of_pos (by simpa using hq)]
      · rw [List.find?_cons_of_neg (by simpa using hq), List.find?_cons_of_neg (by simpa using hq), ih]

theorem Bufs.get_set (b : Bufs) (id id' : Nat) (v : List MEv) :
    (b.set id v).get id' = if id' = id then v else b.get id' := by
  unfold Bufs.set Bufs.get
  by_cases h : id' = id
  · subst h; simp
  · have h' : ¬ id = id' := fun e => h e.symm
    rw [List.find?_cons_of_neg (by simpa using h'), find_filter_ne b id id' h]
    simp [h]

/-- every buffer of the store holds balanced content -/
def BufsOk (b : Bufs) : Prop := ∀ id, BalE (b.get id)

theorem BufsOk.nil : BufsOk [] := by intro id; simp [Bufs.get, BalE.nil]

theorem BufsOk.set {b : Bufs} (h : BufsOk b) (id : Nat) {v : List MEv} (hv : BalE v) :
    BufsOk (b.set id v) := by
  intro id'
  rw [Bufs.get_set]
  split
  · exact hv
  · exact h id'

end Genshi.Tf

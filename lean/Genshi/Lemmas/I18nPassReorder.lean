/-
  C19 — the translation pass under the identity catalogue, exactly: it returns the stream with
  the directive list of every SUB event re-ordered (`reorder`: `i18n:domain` first, `i18n:ctxt`
  next) and nothing else changed.  On the content of a message this is the content of the
  forest whose directive-carrying elements have their lists re-ordered (`reordM`), and every
  hypothesis of the identity theorem for `MsgDirective.__call__` is blind to that order — so
  pass and directive compose for elements carrying `i18n:domain` / `i18n:ctxt` as well.
-/
import Genshi.Lemmas.I18nPassEq
namespace Genshi.I18n
open Genshi

mutual
  /-- the directive lists of all SUB events re-ordered as the pass does -/
  def reorderEv : TEvent → TEvent
    | .sub d b => .sub (reorder d).dirs (reorderList b)
    | e => e
  def reorderList : List TEvent → List TEvent
    | [] => []
    | e :: es => reorderEv e :: reorderList es
end

theorem reorderList_append : ∀ (x y : List TEvent), reorderList (x ++ y) = reorderList x ++ reorderList y
  | [], y => by simp [reorderList]
  | e :: x, y => by simp [reorderList, reorderList_append x y]

mutual
  /-- no START event, at any depth, opens an excluded sub-tree (`ignore_tags`, literal `xml:lang`) -/
  def noExclEv (cfg : Cfg) : TEvent → Bool
    | .start t a => !excluded cfg t a
    | .sub _ b => noExclList cfg b
    | _ => true
  def noExclList (cfg : Cfg) : List TEvent → Bool
    | [] => true
    | e :: es => noExclEv cfg e && noExclList cfg es
end

theorem noExclList_append (cfg : Cfg) : ∀ (x y : List TEvent), noExclList cfg (x ++ y) = (noExclList cfg x && noExclList cfg y)
  | [], y => by simp [noExclList]
  | e :: x, y => by simp [noExclList, noExclList_append cfg x y, Bool.and_assoc]

mutual
  theorem trSub_id_reorder (cfg : Cfg) (ctx : Ctx) (ta : Bool) :
      ∀ e : TEvent, cleanEv cfg e = true → noExclEv cfg e = true → trSub cfg Catalog.id ctx ta e = reorderEv e
    | .sub d b, h, hx => by
        simp only [trSub, reorderEv]
        rw [trList_id_reorder cfg _ _ _ b (by simpa [cleanEv] using h) (by simpa [noExclEv] using hx)]
    | .start _ _, _, _ => rfl
    | .end_ _, _, _ => rfl
    | .text _, _, _ => rfl
    | .expr _ _, _, _ => rfl
    | .exec _, _, _ => rfl
    | .other _, _, _ => rfl
  /-- **the pass under the identity catalogue re-orders the directive lists and changes nothing
      else** (streams without excluded elements; inside those the pass does not even re-order) -/
  theorem trList_id_reorder (cfg : Cfg) (ctx : Ctx) (tt ta : Bool) :
      ∀ (s : List TEvent), cleanList cfg s = true → noExclList cfg s = true →
        trList cfg Catalog.id ctx tt ta 0 s = reorderList s
    | [], _, _ => by simp [trList, reorderList]
    | .start tag attrs :: es, h, hx => by
        simp only [cleanList, cleanEv, Bool.and_eq_true] at h
        simp only [noExclList, noExclEv, Bool.and_eq_true, Bool.not_eq_true'] at hx
        simp only [trList, reorderList, reorderEv, hx.1, Bool.false_eq_true, ↓reduceIte]
        rw [gettextOf_id, trAttrs_id cfg ta attrs h.1, trList_id_reorder cfg ctx tt ta es h.2 hx.2]
    | .text s :: es, h, hx => by
        simp only [cleanList, Bool.and_eq_true] at h
        simp only [noExclList, Bool.and_eq_true] at hx
        simp only [trList, gettextOf_id, trText_id, ite_self, reorderList, reorderEv]
        rw [trList_id_reorder cfg ctx tt ta es h.2 hx.2]
    | .sub d b :: es, h, hx => by
        simp only [cleanList, Bool.and_eq_true] at h
        simp only [noExclList, Bool.and_eq_true] at hx
        simp only [trList, reorderList]
        rw [trSub_id_reorder cfg ctx ta _ h.1 hx.1, trList_id_reorder cfg ctx tt ta es h.2 hx.2]
    | .end_ t :: es, h, hx => by
        simp only [cleanList, Bool.and_eq_true] at h
        simp only [noExclList, Bool.and_eq_true] at hx
        simp only [trList, reorderList, reorderEv]
        rw [trList_id_reorder cfg ctx tt ta es h.2 hx.2]
    | .expr i m :: es, h, hx => by
        simp only [cleanList, Bool.and_eq_true] at h
        simp only [noExclList, Bool.and_eq_true] at hx
        simp only [trList, reorderList, reorderEv]
        rw [trList_id_reorder cfg ctx tt ta es h.2 hx.2]
    | .exec m :: es, h, hx => by
        simp only [cleanList, Bool.and_eq_true] at h
        simp only [noExclList, Bool.and_eq_true] at hx
        simp only [trList, reorderList, reorderEv]
        rw [trList_id_reorder cfg ctx tt ta es h.2 hx.2]
    | .other l :: es, h, hx => by
        simp only [cleanList, Bool.and_eq_true] at h
        simp only [noExclList, Bool.and_eq_true] at hx
        simp only [trList, reorderList, reorderEv]
        rw [trList_id_reorder cfg ctx tt ta es h.2 hx.2]
end

/-! ### the same re-ordering on the forest of a message -/

mutual
  def MNode.reord : MNode → MNode
    | .elem sd t a ks => .elem (sd.map fun d => (reorder d).dirs) t a (reordM ks)
    | n => n
  def reordM : List MNode → List MNode
    | [] => []
    | n :: ns => n.reord :: reordM ns
end

mutual
  theorem MNode.flatten_reord : ∀ (n : MNode), n.reord.flatten = reorderList n.flatten
    | .text _ => rfl
    | .expr _ _ _ => rfl
    | .elem none t a ks => by
        simp only [MNode.reord, Option.map_none, MNode.flatten, reorderList, reorderEv, reorderList_append,
          flattenM_reord ks]
    | .elem (some ds) t a ks => by
        simp only [MNode.reord, Option.map_some, MNode.flatten, reorderList, reorderEv, reorderList_append,
          flattenM_reord ks]
  theorem flattenM_reord : ∀ (F : List MNode), flattenM (reordM F) = reorderList (flattenM F)
    | [] => rfl
    | n :: ns => by simp only [reordM, flattenM, reorderList_append, MNode.flatten_reord n, flattenM_reord ns]
end

mutual
  theorem MNode.clean_reord : ∀ (n : MNode), n.reord.clean = n.clean
    | .text _ => rfl
    | .expr _ _ _ => rfl
    | .elem sd t a ks => by simp only [MNode.reord, MNode.clean, cleanM_reord ks]
  theorem cleanM_reord : ∀ (F : List MNode), cleanM (reordM F) = cleanM F
    | [] => rfl
    | n :: ns => by simp only [reordM, cleanM, MNode.clean_reord n, cleanM_reord ns]
end

theorem noAdjF_reord : ∀ (p : Bool) (F : List MNode), noAdjF p (reordM F) = noAdjF p F
  | _, [] => rfl
  | p, .elem sd t a ks :: ns => by simp only [reordM, MNode.reord, noAdjF, noAdjF_reord true ns]
  | p, .text s :: ns => by simp only [reordM, MNode.reord, noAdjF, noAdjF_reord false ns]
  | p, .expr n i c :: ns => by simp only [reordM, MNode.reord, noAdjF, noAdjF_reord false ns]

mutual
  theorem MNode.deepNoAdj_reord : ∀ (n : MNode), n.reord.deepNoAdj = n.deepNoAdj
    | .text _ => rfl
    | .expr _ _ _ => rfl
    | .elem sd t a ks => by simp only [MNode.reord, MNode.deepNoAdj, noAdjF_reord, deepNoAdjM_reord ks]
  theorem deepNoAdjM_reord : ∀ (F : List MNode), deepNoAdjM (reordM F) = deepNoAdjM F
    | [] => rfl
    | n :: ns => by simp only [reordM, deepNoAdjM, MNode.deepNoAdj_reord n, deepNoAdjM_reord ns]
end

mutual
  theorem MNode.names_reord : ∀ (n : MNode), n.reord.names = n.names
    | .text _ => rfl
    | .expr _ _ _ => rfl
    | .elem sd t a ks => by simp only [MNode.reord, MNode.names, namesM_reord ks]
  theorem namesM_reord : ∀ (F : List MNode), namesM (reordM F) = namesM F
    | [] => rfl
    | n :: ns => by simp only [reordM, namesM, MNode.names_reord n, namesM_reord ns]
end

mutual
  theorem MNode.subsOK_reord : ∀ (n : MNode) (i : Bool), n.reord.subsOK i = n.subsOK i
    | .text _, _ => rfl
    | .expr _ _ _, _ => rfl
    | .elem sd t a ks, i => by
        simp only [MNode.reord, MNode.subsOK, Option.isSome_map, subsOKM_reord ks]
  theorem subsOKM_reord : ∀ (F : List MNode) (i : Bool), subsOKM i (reordM F) = subsOKM i F
    | [], _ => rfl
    | n :: ns, i => by simp only [reordM, subsOKM, MNode.subsOK_reord n, subsOKM_reord ns]
end

/-- **identity_transparent, pass and directive together**, content with directive-carrying
    elements that may carry `i18n:domain` / `i18n:ctxt`: the pass re-orders their directive
    lists (`reordM`), the message directive returns that content unchanged up to the white
    space at the edges of the message and the chunking of text. -/
theorem pass_then_msg_identity_reord (cfg : Cfg) (ctx : Ctx) (ta : Bool) (t : QName) (a : TAttrs) (F : List MNode)
    (extra : List Str) (hc : cleanM F = true) (hna : deepNoAdjM F = true) (hnd : (namesM F).Nodup)
    (hso : subsOKM false F = true)
    (hx : noExclList cfg (.start t a :: (flattenM F ++ [.end_ t])) = true)
    (hattr : cleanList cfg (.start t a :: (flattenM F ++ [.end_ t])) = true) :
    msgGenerate (namesM F ++ extra) (fun s => s)
        (trList cfg Catalog.id ctx false ta 0 (.start t a :: (flattenM F ++ [.end_ t]))) =
      .ok (.start t a :: (coalesce (flattenM (trimF (reordM F))) ++ [.end_ t])) := by
  rw [trList_id_reorder cfg ctx false ta _ hattr hx]
  have : reorderList (.start t a :: (flattenM F ++ [.end_ t])) = .start t a :: (flattenM (reordM F) ++ [.end_ t]) := by
    simp only [reorderList, reorderEv, reorderList_append, flattenM_reord]
  rw [this]
  have := msgGenerate_identity_attr t a (reordM F) extra (by rw [cleanM_reord]; exact hc)
    (by rw [deepNoAdjM_reord]; exact hna) (by rw [namesM_reord]; exact hnd) (by rw [subsOKM_reord]; exact hso)
  rw [namesM_reord] at this
  exact this

end Genshi.I18n

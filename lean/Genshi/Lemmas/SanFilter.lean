/-
  C06 — what the filter loop emits: characterisation of `step`, `sanAttrs`, `sanitizeFrom`,
  and the nesting invariant of the `waiting_for`/`depth` state.
-/
import Genshi.Lemmas.SanTotal
import Genshi.Lemmas.SanRefs
import Genshi.Lemmas.Core
namespace Genshi.San
open Genshi.Gen

/-! ### attributes -/

/-- what an emitted attribute went through -/
structure AttrFacts (cfg : Cfg) (a b : QName × Str) : Prop where
  name : b.1 = a.1
  /-- the emitted value is the fully decoded input value, or the joined declarations for `style` -/
  value : stripRefs a.2 = .ok b.2 ∨ (cfg.uriAttrs.contains a.1.text = false ∧ (a.1.text == styleWord) = true)
  /-- reference decoding leaves the emitted value unchanged -/
  stable : stripentities b.2 = .ok b.2
  safe : cfg.safeAttrs.contains a.1.text = true
  uri : cfg.uriAttrs.contains a.1.text = true → isSafeUri cfg b.2 = true
  style : cfg.uriAttrs.contains a.1.text = false → (a.1.text == styleWord) = true →
    ∃ v decls, stripRefs a.2 = .ok v ∧ sanitizeCss cfg v = .ok decls ∧ decls ≠ [] ∧
      b.2 = Genshi.Str.join declSep decls

theorem sanAttr_some {cfg : Cfg} {a b : QName × Str} (h : sanAttr cfg a = .ok (some b)) :
    AttrFacts cfg a b := by
  obtain ⟨v, hv⟩ := stripRefs_ok a.2
  unfold sanAttr at h
  simp only [hv, ok_bind] at h
  by_cases h1 : cfg.safeAttrs.contains a.1.text = true
  · simp only [h1, Bool.not_true, Bool.false_eq_true, ↓reduceIte] at h
    by_cases h2 : cfg.uriAttrs.contains a.1.text = true
    · simp only [h2, ↓reduceIte, pure_eq_ok] at h
      by_cases h3 : isSafeUri cfg v = true
      · simp [h3] at h
        subst h
        exact ⟨rfl, Or.inl hv, stripRefs_fixed hv, h1, fun _ => h3, fun hf => by rw [h2] at hf; cases hf⟩
      · simp [h3] at h
    · simp only [h2, Bool.false_eq_true, ↓reduceIte] at h
      by_cases h3 : (a.1.text == styleWord) = true
      · simp only [h3, ↓reduceIte] at h
        obtain ⟨d, hd⟩ := sanitizeCss_ok cfg v
        obtain ⟨bk, hbk⟩ := stripentities_ok (Genshi.Str.join declSep d)
        simp only [hd, ok_bind, pure_eq_ok] at h
        by_cases h4 : d.isEmpty = true
        · simp [h4] at h
        · simp only [h4, Bool.false_eq_true, ↓reduceIte, hbk, ok_bind, pure_eq_ok] at h
          by_cases h5 : bk = Genshi.Str.join declSep d
          · simp [h5] at h
            subst h
            refine ⟨rfl, Or.inr ⟨by simpa using h2, h3⟩, ?_, h1, fun hf => absurd hf h2,
              fun _ _ => ⟨v, d, hv, hd, ?_, rfl⟩⟩
            · rw [h5] at hbk; exact hbk
            · intro h0; simp [h0] at h4
          · simp [h5] at h
      · simp only [h3, Bool.false_eq_true, ↓reduceIte, pure_eq_ok] at h
        simp at h; subst h
        exact ⟨rfl, Or.inl hv, stripRefs_fixed hv, h1, fun hf => absurd hf h2, fun _ hf => absurd hf h3⟩
  · simp only [h1, Bool.not_false, ↓reduceIte, pure_eq_ok] at h
    simp at h

theorem sanAttrs_mem {cfg : Cfg} {as r : AttrList} (h : sanAttrs cfg as = .ok r) :
    ∀ b ∈ r, ∃ a ∈ as, sanAttr cfg a = .ok (some b) := by
  induction as generalizing r with
  | nil => simp [sanAttrs] at h; subst h; simp
  | cons a as ih =>
    obtain ⟨x, hx⟩ := sanAttr_ok cfg a
    obtain ⟨t, ht⟩ := sanAttrs_ok cfg as
    unfold sanAttrs at h
    simp only [hx, ht, ok_bind, pure_eq_ok] at h
    cases x with
    | none =>
      simp at h; subst h
      intro b hb
      obtain ⟨a', ha', hs⟩ := ih ht b hb
      exact ⟨a', by simp [ha'], hs⟩
    | some y =>
      simp at h; subst h
      intro b hb
      simp at hb
      rcases hb with rfl | hb
      · exact ⟨a, by simp, hx⟩
      · obtain ⟨a', ha', hs⟩ := ih ht b hb
        exact ⟨a', by simp [ha'], hs⟩

/-! ### one step -/

/-- the events a step can yield -/
inductive Emits (cfg : Cfg) (st : St) (e : Event) : Event → Prop where
  | start (tag : QName) (attrs as : AttrList) :
      e = .start tag attrs → st.waiting = none → isSafeElem cfg tag attrs = true →
      sanAttrs cfg attrs = .ok as → Emits cfg st e (.start tag as)
  | other : st.waiting = none → (∀ t a, e ≠ .start t a) → (∀ c, e ≠ .comment c) →
      e ≠ .startCdata → e ≠ .endCdata → (∀ n p s, e = .doctype n p s → dtHasGt n p s = false) →
      (∀ t d, e = .pi t d → (List.contains t '>' || List.contains d '>') = false) → Emits cfg st e e

theorem step_emits {cfg : Cfg} {st : St} {e : Event} {r : St × Stream} (h : step cfg st e = .ok r) :
    ∀ x ∈ r.2, Emits cfg st e x := by
  cases e with
  | start tag attrs =>
    unfold step at h
    cases hw : st.waiting with
    | some w => simp [hw] at h; subst h; simp
    | none =>
      simp only [hw] at h
      by_cases hs : isSafeElem cfg tag attrs = true
      · obtain ⟨as, has⟩ := sanAttrs_ok cfg attrs
        simp [hs, has] at h; subst h
        intro x hx; simp at hx; subst hx
        exact .start tag attrs as rfl hw hs has
      · simp [hs] at h; subst h; simp
  | end_ tag =>
    unfold step at h
    cases hw : st.waiting with
    | some w =>
      simp only [hw] at h
      split at h <;> (simp at h; subst h; simp)
    | none =>
      simp [hw] at h; subst h
      intro x hx; simp at hx; subst hx
      exact .other hw (by simp) (by simp) (by simp) (by simp) (by simp) (by simp)
  | comment c => simp [step] at h; subst h; simp
  | text s f =>
    simp [step] at h; subst h
    intro x hx
    simp at hx
    obtain ⟨hw, rfl⟩ := hx
    exact .other hw (by simp) (by simp) (by simp) (by simp) (by simp) (by simp)
  | pi t d =>
    unfold step at h
    by_cases hgt : (List.contains t '>' || List.contains d '>') = true
    · simp only [hgt, ↓reduceIte, pure_eq_ok, Except.ok.injEq] at h
      subst h; simp
    · simp only [hgt, Bool.false_eq_true, ↓reduceIte, pure_eq_ok, Except.ok.injEq] at h
      subst h
      intro x hx
      simp at hx
      obtain ⟨hw, rfl⟩ := hx
      exact .other hw (by simp) (by simp) (by simp) (by simp) (by simp) (by simpa using hgt)
  | doctype n p s =>
    unfold step at h
    by_cases hgt : dtHasGt n p s = true
    · simp only [hgt, ↓reduceIte, pure_eq_ok, Except.ok.injEq] at h
      subst h; simp
    · simp only [hgt, Bool.false_eq_true, ↓reduceIte, pure_eq_ok, Except.ok.injEq] at h
      subst h
      intro x hx
      simp at hx
      obtain ⟨hw, rfl⟩ := hx
      exact .other hw (by simp) (by simp) (by simp) (by simp) (by simpa using hgt) (by simp)
  | xmlDecl v e s =>
    simp [step] at h; subst h
    intro x hx
    simp at hx
    obtain ⟨hw, rfl⟩ := hx
    exact .other hw (by simp) (by simp) (by simp) (by simp) (by simp) (by simp)
  | startNs p u =>
    simp [step] at h; subst h
    intro x hx
    simp at hx
    obtain ⟨hw, rfl⟩ := hx
    exact .other hw (by simp) (by simp) (by simp) (by simp) (by simp) (by simp)
  | endNs p =>
    simp [step] at h; subst h
    intro x hx
    simp at hx
    obtain ⟨hw, rfl⟩ := hx
    exact .other hw (by simp) (by simp) (by simp) (by simp) (by simp) (by simp)
  | startCdata => simp [step] at h; subst h; simp
  | endCdata => simp [step] at h; subst h; simp

theorem sanitizeFrom_cons {cfg : Cfg} {st : St} {e : Event} {es : Stream} {o : Stream}
    (h : sanitizeFrom cfg st (e :: es) = .ok o) :
    ∃ r rest, step cfg st e = .ok r ∧ sanitizeFrom cfg r.1 es = .ok rest ∧ o = r.2 ++ rest := by
  obtain ⟨r, hr⟩ := step_ok cfg st e
  obtain ⟨rest, hrest⟩ := sanitizeFrom_ok cfg r.1 es
  unfold sanitizeFrom at h
  simp [hr, hrest] at h
  exact ⟨r, rest, hr, hrest, h.symm⟩

/-- every emitted event is yielded by some step on some input event -/
theorem sanitizeFrom_mem {cfg : Cfg} {st : St} {s o : Stream} (h : sanitizeFrom cfg st s = .ok o) :
    ∀ x ∈ o, ∃ st1 e, e ∈ s ∧ Emits cfg st1 e x := by
  induction s generalizing st o with
  | nil => simp [sanitizeFrom] at h; subst h; simp
  | cons e es ih =>
    obtain ⟨r, rest, hr, hrest, rfl⟩ := sanitizeFrom_cons h
    intro x hx
    simp at hx
    rcases hx with hx | hx
    · exact ⟨st, e, by simp, step_emits hr x hx⟩
    · obtain ⟨st1, e1, he1, hem⟩ := ih hrest x hx
      exact ⟨st1, e1, by simp [he1], hem⟩

end Genshi.San

/-
  C06 — attribute values are decoded until no reference is left: the emitted value is a fixed
  point of `stripentities`, so a reader that decodes attribute values once more (genshi's own
  HTMLParser does, on top of html.parser) ends up with the very value that was checked.
-/
import Genshi.Lemmas.SanTotal
set_option linter.unusedSimpArgs false
namespace Genshi.San
open Genshi.Gen

theorem numRef_length (ref : Str) : (numRef ref).length = 1 := by
  unfold numRef
  simp only
  repeat' split
  all_goals rfl

theorem dropSemi_length (s : Str) : (dropSemi s).length ≤ s.length := by
  unfold dropSemi
  split
  · simp
  · exact Nat.le_refl _

theorem takeWhile_dropWhile_length (p : Char → Bool) (l : Str) :
    (l.takeWhile p).length + (l.dropWhile p).length = l.length := by
  rw [← List.length_append, List.takeWhile_append_dropWhile]

theorem matchNumeric_length {s r rest : Str} (h : matchNumeric s = some (r, rest)) :
    r.length + rest.length < s.length := by
  cases s with
  | nil => simp [matchNumeric] at h
  | cons c r1 =>
    by_cases hc : c = '#'
    · subst hc
      simp only [matchNumeric] at h
      by_cases hne : (r1.takeWhile isReDigit).isEmpty = true
      · simp only [hne, Bool.not_true, Bool.false_eq_true, ↓reduceIte] at h
        cases r1 with
        | nil => simp at h
        | cons x r3 =>
          simp only at h
          by_cases hx : inClass SanClass.entX x = true
          · simp only [hx, ↓reduceIte] at h
            by_cases hh : (r3.takeWhile (inClass SanClass.entHex)).isEmpty = true
            · simp [hh] at h
            · simp only [hh, Bool.not_false, ↓reduceIte, Option.some.injEq, Prod.mk.injEq] at h
              obtain ⟨rfl, rfl⟩ := h
              have h1 := takeWhile_dropWhile_length (inClass SanClass.entHex) r3
              have h2 := dropSemi_length (r3.dropWhile (inClass SanClass.entHex))
              rw [numRef_length]; simp; omega
          · simp [hx] at h
      · simp only [hne, Bool.not_false, ↓reduceIte, Option.some.injEq, Prod.mk.injEq] at h
        obtain ⟨rfl, rfl⟩ := h
        have h1 := takeWhile_dropWhile_length isReDigit r1
        have h2 := dropSemi_length (r1.dropWhile isReDigit)
        have h3 : 1 ≤ (r1.takeWhile isReDigit).length := by
          cases hq : r1.takeWhile isReDigit with
          | nil => simp [hq] at hne
          | cons _ _ => simp
        rw [numRef_length]; simp; omega
    · have : matchNumeric (c :: r1) = none := by
        unfold matchNumeric
        split
        · rename_i heq; simp at heq; exact absurd heq.1 hc
        · rfl
      rw [this] at h; cases h

theorem namedRef_length {w r : Str} (hw : w ≠ []) (h : namedRef w = .ok r) : r.length ≤ w.length := by
  unfold namedRef at h
  split at h
  · rename_i cp hl
    rw [pyChr_ok (lookupEntity_valid hl)] at h
    simp at h; subst h
    cases w with
    | nil => exact absurd rfl hw
    | cons _ _ => simp
  · simp at h; subst h; exact Nat.le_refl _

theorem matchRef_length {s r rest : Str} (h : matchRef s = some (.ok r, rest)) :
    r.length + rest.length < s.length + 1 := by
  unfold matchRef at h
  split at h
  · rename_i r0 rest0 hm
    simp at h
    obtain ⟨rfl, rfl⟩ := h
    have := matchNumeric_length hm
    omega
  · unfold matchNamed at h
    simp only at h
    split at h
    · cases h
    · rename_i hne
      split at h
      · rename_i r' hd
        simp at h
        obtain ⟨h1, rfl⟩ := h
        have hw : s.takeWhile isReWord ≠ [] := by
          intro h0; simp [h0] at hne
        have hl := namedRef_length hw h1
        have h2 := takeWhile_dropWhile_length isReWord s
        rw [hd] at h2
        simp at h2
        omega
      · cases h

theorem stripEntGo_shrinks : ∀ (f : Nat) (s t : Str), s.length < f → stripEntGo f s = .ok t →
    t = s ∨ t.length < s.length := by
  intro f
  induction f using Nat.strongRecOn with
  | _ f ih =>
    intro s t hf h
    cases f with
    | zero => simp at hf
    | succ f =>
      cases s with
      | nil => simp [stripEntGo] at h; exact Or.inl h
      | cons c cs =>
        have hcs : cs.length < f := by simp at hf; omega
        unfold stripEntGo at h
        by_cases hc : c = '&'
        · simp only [hc, ↓reduceIte] at h
          cases hm : matchRef cs with
          | none =>
            obtain ⟨t', ht'⟩ := stripEntGo_ok f cs
            simp [hm, ht'] at h; subst h
            rcases ih f (by omega) cs t' hcs ht' with h1 | h1
            · left; rw [h1, hc]
            · right; simp; omega
          | some pr =>
            obtain ⟨repl, rest⟩ := pr
            obtain ⟨r, hr⟩ := matchRef_ok hm
            subst hr
            have hl := matchRef_length hm
            obtain ⟨t', ht'⟩ := stripEntGo_ok f rest
            simp [hm, ht'] at h; subst h
            right
            have : t'.length ≤ rest.length := by
              rcases ih f (by omega) rest t' (by omega) ht' with h1 | h1
              · rw [h1]; exact Nat.le_refl _
              · omega
            simp; omega
        · simp only [hc, ↓reduceIte] at h
          obtain ⟨t', ht'⟩ := stripEntGo_ok f cs
          simp [ht'] at h; subst h
          rcases ih f (by omega) cs t' hcs ht' with h1 | h1
          · left; rw [h1]
          · right; simp; omega

theorem stripentities_shrinks {s t : Str} (h : stripentities s = .ok t) : t = s ∨ t.length < s.length :=
  stripEntGo_shrinks _ s t (Nat.lt_succ_self _) h

theorem stripRefsFix_fixed : ∀ (f : Nat) (s v : Str), s.length < f → stripRefsFix f s = .ok v →
    stripentities v = .ok v := by
  intro f
  induction f with
  | zero => intro s v hf; simp at hf
  | succ f ih =>
    intro s v hf h
    obtain ⟨t, ht⟩ := stripentities_ok s
    unfold stripRefsFix at h
    simp only [ht, ok_bind] at h
    by_cases he : t = s
    · simp [he] at h; subst h
      rw [he] at ht; exact ht
    · simp only [he, ↓reduceIte] at h
      rcases stripentities_shrinks ht with h1 | h1
      · exact absurd h1 he
      · exact ih t v (by omega) h

/-- the value the attribute loop works with holds no reference that decodes further -/
theorem stripRefs_fixed {s v : Str} (h : stripRefs s = .ok v) : stripentities v = .ok v :=
  stripRefsFix_fixed _ s v (Nat.lt_succ_self _) h

end Genshi.San

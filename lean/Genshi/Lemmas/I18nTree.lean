/-
  C19 — the translation pass as a tree homomorphism: on the flattening of a forest it
  translates node by node and is the identity on every excluded sub-tree, for any
  catalogue.  The skip counter is the induction invariant.
-/
import Genshi.Lemmas.I18n
namespace Genshi.I18n
open Genshi

/-- template forests: START/END only as element brackets -/
inductive TNode where
  | elem (tag : QName) (attrs : TAttrs) (kids : List TNode)
  | leaf (e : TEvent)
  deriving Inhabited

def TEvent.isBracket : TEvent → Bool
  | .start _ _ => true
  | .end_ _ => true
  | _ => false

mutual
  def TNode.flatten : TNode → TStream
    | .elem t a ks => .start t a :: (flattenNodes ks ++ [.end_ t])
    | .leaf e => [e]
  def flattenNodes : List TNode → TStream
    | [] => []
    | n :: ns => n.flatten ++ flattenNodes ns
end

mutual
  def TNode.ok : TNode → Bool
    | .elem _ _ ks => okNodes ks
    | .leaf e => !e.isBracket
  def okNodes : List TNode → Bool
    | [] => true
    | n :: ns => n.ok && okNodes ns
end

/-- the pass on one leaf event (outside excluded sub-trees) -/
def trLeaf (cfg : Cfg) (cat : Catalog) (ctx : Ctx) (tt ta : Bool) : TEvent → TEvent
  | .text s => if tt then .text (trText (gettextOf cat ctx) s) else .text s
  | .sub d b => trSub cfg cat ctx ta (.sub d b)
  | e => e

mutual
  /-- node-wise translation: excluded elements are returned as they are -/
  def trNode (cfg : Cfg) (cat : Catalog) (ctx : Ctx) (tt ta : Bool) : TNode → TNode
    | .elem t a ks =>
        if excluded cfg t a then .elem t a ks
        else .elem t (trAttrs cfg (gettextOf cat ctx) ta a) (trNodes cfg cat ctx tt ta ks)
    | .leaf e => .leaf (trLeaf cfg cat ctx tt ta e)
  def trNodes (cfg : Cfg) (cat : Catalog) (ctx : Ctx) (tt ta : Bool) : List TNode → List TNode
    | [] => []
    | n :: ns => trNode cfg cat ctx tt ta n :: trNodes cfg cat ctx tt ta ns
end

theorem trList_skip_leaf (cfg : Cfg) (cat : Catalog) (ctx : Ctx) (tt ta : Bool) (k : Nat) (e : TEvent)
    (he : e.isBracket = false) (rest : TStream) :
    trList cfg cat ctx tt ta (k + 1) (e :: rest) = e :: trList cfg cat ctx tt ta (k + 1) rest := by
  cases e <;> simp_all [trList, skipStep, TEvent.isBracket]

mutual
  /-- inside an excluded sub-tree a whole node passes unchanged and leaves the counter as it was -/
  theorem trList_skip_node (cfg : Cfg) (cat : Catalog) (ctx : Ctx) (tt ta : Bool) :
      ∀ (n : TNode) (k : Nat) (rest : TStream), n.ok = true →
        trList cfg cat ctx tt ta (k + 1) (n.flatten ++ rest) =
          n.flatten ++ trList cfg cat ctx tt ta (k + 1) rest
    | .elem t a ks, k, rest, h => by
        simp only [TNode.flatten, List.cons_append, List.append_assoc, trList, skipStep]
        rw [trList_skip_nodes cfg cat ctx tt ta ks (k + 1) _ (by simpa [TNode.ok] using h)]
        simp [trList, skipStep]
    | .leaf e, k, rest, h => by
        simp only [TNode.flatten, List.cons_append, List.nil_append]
        exact trList_skip_leaf cfg cat ctx tt ta k e (by simpa [TNode.ok] using h) rest
  theorem trList_skip_nodes (cfg : Cfg) (cat : Catalog) (ctx : Ctx) (tt ta : Bool) :
      ∀ (ns : List TNode) (k : Nat) (rest : TStream), okNodes ns = true →
        trList cfg cat ctx tt ta (k + 1) (flattenNodes ns ++ rest) =
          flattenNodes ns ++ trList cfg cat ctx tt ta (k + 1) rest
    | [], k, rest, _ => by simp [flattenNodes]
    | n :: ns, k, rest, h => by
        simp only [okNodes, Bool.and_eq_true] at h
        simp only [flattenNodes, List.append_assoc]
        rw [trList_skip_node cfg cat ctx tt ta n k _ h.1, trList_skip_nodes cfg cat ctx tt ta ns k rest h.2]
end

theorem trList_leaf (cfg : Cfg) (cat : Catalog) (ctx : Ctx) (tt ta : Bool) (e : TEvent)
    (he : e.isBracket = false) (rest : TStream) :
    trList cfg cat ctx tt ta 0 (e :: rest) =
      trLeaf cfg cat ctx tt ta e :: trList cfg cat ctx tt ta 0 rest := by
  cases e <;> simp_all [trList, trLeaf, TEvent.isBracket]

mutual
  theorem trList_node (cfg : Cfg) (cat : Catalog) (ctx : Ctx) (tt ta : Bool) :
      ∀ (n : TNode) (rest : TStream), n.ok = true →
        trList cfg cat ctx tt ta 0 (n.flatten ++ rest) =
          (trNode cfg cat ctx tt ta n).flatten ++ trList cfg cat ctx tt ta 0 rest
    | .elem t a ks, rest, h => by
        have hk : okNodes ks = true := by simpa [TNode.ok] using h
        simp only [TNode.flatten, List.cons_append, List.append_assoc, trList, trNode]
        by_cases hx : excluded cfg t a = true
        · simp only [hx, ↓reduceIte, TNode.flatten, List.cons_append, List.append_assoc, List.cons.injEq,
            true_and]
          rw [trList_skip_nodes cfg cat ctx tt ta ks 0 _ hk]
          simp [trList, skipStep]
        · simp only [hx, Bool.false_eq_true, ↓reduceIte, TNode.flatten, List.cons_append,
            List.append_assoc, List.cons.injEq, true_and]
          rw [trList_nodes cfg cat ctx tt ta ks _ hk]
          simp [trList]
    | .leaf e, rest, h => by
        simp only [TNode.flatten, List.cons_append, List.nil_append, trNode]
        exact trList_leaf cfg cat ctx tt ta e (by simpa [TNode.ok] using h) rest
  theorem trList_nodes (cfg : Cfg) (cat : Catalog) (ctx : Ctx) (tt ta : Bool) :
      ∀ (ns : List TNode) (rest : TStream), okNodes ns = true →
        trList cfg cat ctx tt ta 0 (flattenNodes ns ++ rest) =
          flattenNodes (trNodes cfg cat ctx tt ta ns) ++ trList cfg cat ctx tt ta 0 rest
    | [], rest, _ => by simp [flattenNodes, trNodes]
    | n :: ns, rest, h => by
        simp only [okNodes, Bool.and_eq_true] at h
        simp only [flattenNodes, trNodes, List.append_assoc]
        rw [trList_node cfg cat ctx tt ta n _ h.1, trList_nodes cfg cat ctx tt ta ns rest h.2]
end

end Genshi.I18n

/-
  C06 — the re-parse clause beyond C08's tree hypotheses, HTML method: forests whose leaves are
  also processing instructions and DOCTYPE declarations.  The filter keeps a PI only without `>`
  (so html.parser's `<?target data>` is read back whole) and a DOCTYPE only without `>`; C08's
  events-level round trip `html_roundtrip_prolog_partial` then applies to the flattened pruned
  forest, and every token read back carries the guarantees (`TokSafeP`: as `TokSafe`, but a PI or
  DOCTYPE token may occur — the property does not forbid them).
-/
import Genshi.Lemmas.SanReparse
import Genshi.Lemmas.ReaderPrologSim
import Genshi.Lemmas.SanReaderDoctype
import Genshi.Lemmas.OutputTree
set_option linter.unusedSimpArgs false
namespace Genshi.San
open Genshi Genshi.San.Spec

/-! ### input forests and pruned forests -/

mutual
  /-- input leaves: plain text, comments, CDATA markers, processing instructions, DOCTYPE
      declarations and XML declarations (any) -/
  def prologTree : Node → Bool
    | .elem _ _ ks => prologForest ks
    | .leaf (.text _ f) => !f
    | .leaf (.comment _) => true
    | .leaf .startCdata => true
    | .leaf .endCdata => true
    | .leaf (.pi _ _) => true
    | .leaf (.doctype _ _ _) => true
    | .leaf (.xmlDecl _ _ _) => true
    | .leaf _ => false
  def prologForest : List Node → Bool
    | [] => true
    | n :: ns => prologTree n && prologForest ns
end

/-- what the filter establishes for a DOCTYPE event it keeps (`dtHasGt … = false`) is what the
    html-mode reader needs (`Reader.HtmlOkG`: no `>` in the literal the serializer writes; wave 4 —
    before, C08's stricter `dtScan false` was asked of the kept DOCTYPE leaves: `DtOkForest`) -/
theorem dtLiteral_no_gt {n : Str} {p s : Option Str} (h : dtHasGt n p s = false) :
    '>' ∉ Reader.doctypeContent n p s := by
  unfold dtHasGt at h
  simp only [Bool.or_eq_false_iff] at h
  obtain ⟨⟨hn, hp⟩, hs⟩ := h
  have opt : ∀ o : Option Str, optHasGt o = false → '>' ∉ o.getD [] := by
    intro o ho
    cases o with
    | none => simp
    | some x =>
      intro hm
      have : List.contains x '>' = true := by simpa using hm
      simp only [optHasGt] at ho
      rw [ho] at this; cases this
  refine Reader.doctypeContent_no_gt n p s ?_ (opt p hp) (opt s hs)
  intro hm
  have : List.contains n '>' = true := by simpa using hm
  rw [hn] at this; cases this

/-- what a surviving leaf is -/
def LeafGoodP (e : Event) : Prop :=
  (∃ s, e = .text s false) ∨
  (∃ t d, e = .pi t d ∧ (List.contains t '>' || List.contains d '>') = false) ∨
  (∃ n p s, e = .doctype n p s ∧ dtHasGt n p s = false) ∨
  (∃ v en sa, e = .xmlDecl v en sa)

mutual
  def TreeGoodP (cfg : Cfg) : Node → Prop
    | .elem t a ks => t.text ∈ cfg.safeTags ∧ (∀ b ∈ a, AttrGood cfg b) ∧ ForestGoodP cfg ks
    | .leaf e => LeafGoodP e
  def ForestGoodP (cfg : Cfg) : List Node → Prop
    | [] => True
    | n :: ns => TreeGoodP cfg n ∧ ForestGoodP cfg ns
end

theorem forestGoodP_append {cfg : Cfg} : ∀ (a b : List Node), ForestGoodP cfg a → ForestGoodP cfg b →
    ForestGoodP cfg (a ++ b) := by
  intro a
  induction a with
  | nil => intro b _ hb; simpa using hb
  | cons n ns ih =>
    intro b ha hb
    simp only [ForestGoodP] at ha
    simp only [List.cons_append, ForestGoodP]
    exact ⟨ha.1, ih b ha.2 hb⟩

mutual
  theorem prune_goodP (cfg : Cfg) : ∀ (n : Node) (p : List Node), prologTree n = true →
      prune cfg n = .ok p → ForestGoodP cfg p
    | .elem t a ks, p, hpl, h => by
      unfold prune at h
      by_cases hs : isSafeElem cfg t a = true
      · obtain ⟨as, has⟩ := sanAttrs_ok cfg a
        cases hk : pruneList cfg ks with
        | error e => simp [hs, has, hk] at h
        | ok ks' =>
          simp [hs, has, hk] at h
          subst h
          simp only [ForestGoodP, TreeGoodP, and_true]
          refine ⟨?_, ?_, pruneList_goodP cfg ks ks' (by simpa [prologTree] using hpl) hk⟩
          · unfold isSafeElem at hs
            simp only [Bool.and_eq_true] at hs
            simpa using hs.1
          · intro b hb
            obtain ⟨a0, _, hsa⟩ := sanAttrs_mem has b hb
            exact attrGood_of_sanAttr hsa
      · simp [hs] at h; subst h; trivial
    | .leaf e, p, hpl, h => by
      cases e with
      | text s f =>
        simp [prune] at h; subst h
        have : f = false := by simpa [prologTree] using hpl
        subst this
        simp only [ForestGoodP, TreeGoodP, and_true]
        exact Or.inl ⟨s, rfl⟩
      | comment c => simp [prune] at h; subst h; trivial
      | start _ _ => simp [prologTree] at hpl
      | end_ _ => simp [prologTree] at hpl
      | pi t d =>
        by_cases hgt : (List.contains t '>' || List.contains d '>') = true
        · simp only [prune, hgt, ↓reduceIte] at h
          simp at h; subst h; trivial
        · simp only [prune, hgt, Bool.false_eq_true, ↓reduceIte] at h
          simp at h; subst h
          simp only [ForestGoodP, TreeGoodP, and_true]
          exact Or.inr (Or.inl ⟨t, d, rfl, by simpa using hgt⟩)
      | doctype n q s =>
        by_cases hgt : dtHasGt n q s = true
        · simp only [prune, hgt, ↓reduceIte] at h
          simp at h; subst h; trivial
        · simp only [prune, hgt, Bool.false_eq_true, ↓reduceIte] at h
          simp at h; subst h
          simp only [ForestGoodP, TreeGoodP, and_true]
          exact Or.inr (Or.inr (Or.inl ⟨n, q, s, rfl, by simpa using hgt⟩))
      | xmlDecl v en sa =>
        simp [prune] at h; subst h
        simp only [ForestGoodP, TreeGoodP, and_true]
        exact Or.inr (Or.inr (Or.inr ⟨v, en, sa, rfl⟩))
      | startNs _ _ => simp [prologTree] at hpl
      | endNs _ => simp [prologTree] at hpl
      | startCdata => simp [prune] at h; subst h; trivial
      | endCdata => simp [prune] at h; subst h; trivial
  theorem pruneList_goodP (cfg : Cfg) : ∀ (ns p : List Node), prologForest ns = true →
      pruneList cfg ns = .ok p → ForestGoodP cfg p
    | [], p, _, h => by simp [pruneList] at h; subst h; trivial
    | n :: ns, p, hpl, h => by
      simp only [prologForest, Bool.and_eq_true] at hpl
      unfold pruneList at h
      cases ha : prune cfg n with
      | error e => simp [ha] at h
      | ok a =>
        cases hb : pruneList cfg ns with
        | error e => simp [ha, hb] at h
        | ok b =>
          simp [ha, hb] at h
          subst h
          exact forestGoodP_append a b (prune_goodP cfg n a hpl.1 ha) (pruneList_goodP cfg ns b hpl.2 hb)
end

/-! ### the events that reach the HTML serializer's main loop -/

/-- a filtered event of a sanitized forest -/
def FEvGood (cfg : Cfg) : Output.FEv → Prop
  | .start t a => t ∈ cfg.safeTags ∧ ∃ al : AttrList, a = Output.fAttrs al ∧ ∀ b ∈ al, AttrGood cfg b
  | .empty t a => t ∈ cfg.safeTags ∧ ∃ al : AttrList, a = Output.fAttrs al ∧ ∀ b ∈ al, AttrGood cfg b
  | .end_ t => t ∈ cfg.safeTags
  | .text _ f => f = false
  | .pi t d => (List.contains t '>' || List.contains d '>') = false
  | .doctype n p s => dtHasGt n p s = false
  | .xmlDecl _ _ _ => True
  | _ => False

mutual
  theorem treeF_good {cfg : Cfg} (hm : CfgMarkupOk cfg) : ∀ (n : Node), TreeGoodP cfg n →
      (n.ok = true ∧ Output.nsFree n = true) ∧ ∀ ev ∈ Output.treeF n, FEvGood cfg ev
    | .elem t a ks, h => by
      simp only [TreeGoodP] at h
      obtain ⟨ht, ha, hk⟩ := h
      obtain ⟨⟨h1, h2⟩, h3⟩ := forestF_good hm ks hk
      obtain ⟨_, hb, _⟩ := hm.tags _ ht
      obtain ⟨hns, htl⟩ := text_plain hb
      obtain ⟨han, _⟩ := fAttrs_plain hm ha
      have hloc : t.loc ∈ cfg.safeTags := by rw [← htl]; exact ht
      refine ⟨⟨by simpa [Node.ok] using h1, by simp [Output.nsFree, hns, han, h2]⟩, ?_⟩
      intro ev hev
      simp only [Output.treeF] at hev
      split at hev
      · simp at hev; subst hev
        exact ⟨hloc, a, rfl, ha⟩
      · simp only [List.mem_cons, List.mem_append, List.mem_singleton, List.not_mem_nil, or_false] at hev
        rcases hev with rfl | hev | rfl
        · exact ⟨hloc, a, rfl, ha⟩
        · exact h3 ev hev
        · exact hloc
    | .leaf e, h => by
      rcases h with ⟨s, rfl⟩ | ⟨t, d, rfl, hgt⟩ | ⟨n, p, s, rfl, hdt⟩ | ⟨v, en, sa, rfl⟩
      · refine ⟨by simp [Node.ok, Event.isStartEnd, Output.nsFree, Output.leafF], ?_⟩
        intro ev hev; simp [Output.treeF, Output.leafF] at hev; subst hev; rfl
      · refine ⟨by simp [Node.ok, Event.isStartEnd, Output.nsFree, Output.leafF], ?_⟩
        intro ev hev; simp [Output.treeF, Output.leafF] at hev; subst hev; exact hgt
      · refine ⟨by simp [Node.ok, Event.isStartEnd, Output.nsFree, Output.leafF], ?_⟩
        intro ev hev; simp [Output.treeF, Output.leafF] at hev; subst hev; exact hdt
      · refine ⟨by simp [Node.ok, Event.isStartEnd, Output.nsFree, Output.leafF], ?_⟩
        intro ev hev; simp [Output.treeF, Output.leafF] at hev; subst hev; trivial
  theorem forestF_good {cfg : Cfg} (hm : CfgMarkupOk cfg) : ∀ (ns : List Node), ForestGoodP cfg ns →
      (okList ns = true ∧ Output.forestNsFree ns = true) ∧ ∀ ev ∈ Output.forestF ns, FEvGood cfg ev
    | [], _ => by simp [okList, Output.forestNsFree, Output.forestF]
    | n :: ns, h => by
      simp only [ForestGoodP] at h
      obtain ⟨⟨a1, a2⟩, a3⟩ := treeF_good hm n h.1
      obtain ⟨⟨b1, b2⟩, b3⟩ := forestF_good hm ns h.2
      refine ⟨by simp [okList, Output.forestNsFree, a1, a2, b1, b2], ?_⟩
      intro ev hev
      simp only [Output.forestF, List.mem_append] at hev
      rcases hev with hev | hev
      · exact a3 ev hev
      · exact b3 ev hev
end

/-! ### inside the hypotheses of C08's events-level round trip -/

theorem piSafe_no_gt : ∀ (s : Str) (q : Bool), '>' ∉ s → Reader.piSafe false q s = true := by
  intro s
  induction s with
  | nil => intro q _; rfl
  | cons c cs ih =>
    intro q h
    have hc : c ≠ '>' := fun e => h (by simp [e])
    have hcs : '>' ∉ cs := fun e => h (by simp [e])
    simp only [Reader.piSafe, Bool.and_eq_true, Bool.not_eq_true']
    exact ⟨by simp [hc], ih _ hcs⟩

theorem fevGood_ok {cfg : Cfg} (hm : CfgMarkupOk cfg) {ev : Output.FEv} (h : FEvGood cfg ev) (hd : Bool) :
    Reader.HtmlOkG false hd ev ∧ Reader.rawAfter false ev = false := by
  cases ev with
  | start t a =>
    obtain ⟨ht, al, rfl, ha⟩ := h
    obtain ⟨hn, _, hraw⟩ := hm.tags _ ht
    refine ⟨⟨rfl, Reader.nameOk_of_B hn, ?_⟩, by simpa [Reader.rawAfter] using hraw⟩
    intro p hp
    rw [(fAttrs_plain hm ha).2] at hp
    obtain ⟨b, hb, rfl⟩ := List.mem_map.mp hp
    exact Reader.nameOk_of_B (hm.attrs _ (ha b hb).1).1
  | empty t a =>
    obtain ⟨ht, al, rfl, ha⟩ := h
    obtain ⟨hn, _, _⟩ := hm.tags _ ht
    refine ⟨⟨rfl, Reader.nameOk_of_B hn, ?_⟩, rfl⟩
    intro p hp
    rw [(fAttrs_plain hm ha).2] at hp
    obtain ⟨b, hb, rfl⟩ := List.mem_map.mp hp
    exact Reader.nameOk_of_B (hm.attrs _ (ha b hb).1).1
  | end_ t => exact ⟨Reader.nameOk_of_B (hm.tags _ h).1, rfl⟩
  | text s f =>
    have : f = false := h
    subst this
    exact ⟨⟨rfl, by intro hx; cases hx⟩, rfl⟩
  | pi t d =>
    refine ⟨⟨rfl, ?_⟩, rfl⟩
    have h' : (List.contains t '>' || List.contains d '>') = false := h
    simp only [Bool.or_eq_false_iff] at h'
    apply piSafe_no_gt
    intro hmem
    simp only [List.mem_append, List.mem_cons] at hmem
    rcases hmem with h1 | h1 | h1
    · have : List.contains t '>' = true := by simpa using h1
      rw [h'.1] at this; cases this
    · cases h1
    · have : List.contains d '>' = true := by simpa using h1
      rw [h'.2] at this; cases this
  | doctype n p s => exact ⟨⟨rfl, fun _ => dtLiteral_no_gt h⟩, rfl⟩
  | comment _ => exact absurd h (by simp [FEvGood])
  | xmlDecl _ _ _ => exact ⟨trivial, rfl⟩
  | startNs _ _ => exact absurd h (by simp [FEvGood])
  | endNs _ => exact absurd h (by simp [FEvGood])
  | startCdata => exact absurd h (by simp [FEvGood])
  | endCdata => exact absurd h (by simp [FEvGood])

theorem okAllP_of_good {cfg : Cfg} (hm : CfgMarkupOk cfg) : ∀ (evs : List Output.FEv),
    (∀ ev ∈ evs, FEvGood cfg ev) → ∀ hd, Reader.HtmlOkAllG false hd evs ∧ Reader.rawEndP false evs = false := by
  intro evs
  induction evs with
  | nil => intro _ hd; exact ⟨trivial, rfl⟩
  | cons ev rest ih =>
    intro h hd
    obtain ⟨h1, h2⟩ := fevGood_ok hm (h ev (by simp)) hd
    have ihr := ih (fun e he => h e (by simp [he])) (hd || Reader.HtmlOkAllP.isDoctypeEv ev)
    refine ⟨?_, ?_⟩
    · simp only [Reader.HtmlOkAllG]
      rw [h2]
      exact ⟨h1, ihr.1⟩
    · simp only [Reader.rawEndP, List.foldl_cons]
      rw [h2]
      exact ihr.2

/-! ### the guarantees, on the tokens read back -/

/-- as `TokSafe`, but processing instructions and DOCTYPE declarations may occur (the property
    forbids comments, not these) -/
def TokSafeP (cfg : Cfg) : Reader.Tok → Prop
  | .start nm ats _ => nm ∈ cfg.safeTags ∧
      ∀ p ∈ ats, p.1 ∈ cfg.safeAttrs ∧ ∀ val, p.2 = some val → ValueSafe cfg p.1 val
  | .end_ nm => nm ∈ cfg.safeTags
  | .text _ => True
  | .comment _ => False
  | .pi _ => True
  | .doctype _ => True

theorem flushToks_safeP {cfg : Cfg} {buf : Str} {toks : List Reader.Tok} (h : ∀ t ∈ toks, TokSafeP cfg t) :
    ∀ t ∈ Reader.flushToks buf toks, TokSafeP cfg t := by
  intro t ht
  rcases flushToks_mem ht with h1 | ⟨s, rfl⟩
  · exact h t h1
  · trivial

theorem htmlEvP_safe (hd : Genshi.Gen.SanClass.commentsDotall = true) {cfg : Cfg} (hm : CfgMarkupOk cfg)
    (hcss : CssNamesPlain cfg) {ev : Output.FEv} (hg : FEvGood cfg ev) (r : Reader.RS) (hdoc : Bool)
    (hr : ∀ t ∈ r.toks, TokSafeP cfg t) : ∀ t ∈ (Reader.htmlEvP r hdoc ev).1.toks, TokSafeP cfg t := by
  have hfl := flushToks_safeP (buf := r.buf) hr
  cases ev with
  | start t a =>
    obtain ⟨ht, al, rfl, ha⟩ := hg
    intro x hx
    simp only [Reader.htmlEvP, Reader.htmlEv, List.mem_cons] at hx
    rcases hx with rfl | hx
    · exact ⟨ht, htmlAttrToks_safe hd hm hcss ha⟩
    · exact hfl x hx
  | empty t a =>
    obtain ⟨ht, al, rfl, ha⟩ := hg
    intro x hx
    simp only [Reader.htmlEvP, Reader.htmlEv] at hx
    split at hx
    · simp only [List.mem_cons] at hx
      rcases hx with rfl | hx
      · exact ⟨ht, htmlAttrToks_safe hd hm hcss ha⟩
      · exact hfl x hx
    · simp only [List.mem_cons] at hx
      rcases hx with rfl | rfl | hx
      · exact ht
      · exact ⟨ht, htmlAttrToks_safe hd hm hcss ha⟩
      · exact hfl x hx
  | end_ t =>
    intro x hx
    simp only [Reader.htmlEvP, Reader.htmlEv, List.mem_cons] at hx
    rcases hx with rfl | hx
    · exact hg
    · exact hfl x hx
  | text s f =>
    intro x hx
    simp only [Reader.htmlEvP, Reader.htmlEv] at hx
    exact hr x hx
  | pi t d =>
    intro x hx
    simp only [Reader.htmlEvP, List.mem_cons] at hx
    rcases hx with rfl | hx
    · trivial
    · exact hfl x hx
  | doctype n p s =>
    intro x hx
    simp only [Reader.htmlEvP] at hx
    split at hx
    · exact hr x hx
    · simp only [List.mem_cons] at hx
      rcases hx with rfl | hx
      · trivial
      · exact hfl x hx
  | comment _ => exact absurd hg (by simp [FEvGood])
  | xmlDecl _ _ _ =>
    intro x hx
    simp only [Reader.htmlEvP, Reader.htmlEv] at hx
    exact hr x hx
  | startNs _ _ => exact absurd hg (by simp [FEvGood])
  | endNs _ => exact absurd hg (by simp [FEvGood])
  | startCdata => exact absurd hg (by simp [FEvGood])
  | endCdata => exact absurd hg (by simp [FEvGood])

theorem foldP_safe (hd : Genshi.Gen.SanClass.commentsDotall = true) {cfg : Cfg} (hm : CfgMarkupOk cfg)
    (hcss : CssNamesPlain cfg) : ∀ (evs : List Output.FEv), (∀ ev ∈ evs, FEvGood cfg ev) →
    ∀ (r : Reader.RS) (hdoc : Bool), (∀ t ∈ r.toks, TokSafeP cfg t) →
      ∀ t ∈ (Reader.foldP evs r hdoc).1.toks, TokSafeP cfg t := by
  intro evs
  induction evs with
  | nil => intro _ r hdoc hr; simpa [Reader.foldP] using hr
  | cons ev rest ih =>
    intro h r hdoc hr
    have h1 := htmlEvP_safe hd hm hcss (h ev (by simp)) r hdoc hr
    have := ih (fun e he => h e (by simp [he])) (Reader.htmlEvP r hdoc ev).1 (Reader.htmlEvP r hdoc ev).2 h1
    simpa [Reader.foldP] using this

/-- every token of the expected reading of a sanitized event list carries the guarantees -/
theorem htmlExpectedP_safe (hd : Genshi.Gen.SanClass.commentsDotall = true) {cfg : Cfg} (hm : CfgMarkupOk cfg)
    (hcss : CssNamesPlain cfg) (evs : List Output.FEv) (h : ∀ ev ∈ evs, FEvGood cfg ev) :
    ∀ t ∈ Reader.htmlExpectedP evs, TokSafeP cfg t := by
  intro t ht
  unfold Reader.htmlExpectedP at ht
  simp only [List.mem_reverse] at ht
  exact flushToks_safeP (foldP_safe hd hm hcss evs h {} false (by simp)) t ht

end Genshi.San

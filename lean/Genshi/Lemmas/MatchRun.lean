/-
  Lemmas about `run` as a whole: static properties of the templates are preserved, the output
  has the nesting effect of the input.
-/
import Genshi.Lemmas.MatchNest
namespace Genshi.Match
open Genshi
variable {σ : Type}

/-- the unfolding of the matched-START branch, in one place -/
theorem run_start_cases {f start : Nat} {end_ : Option Nat} {e : Event} {rest : List (Item σ)}
    {mts : List (MT σ)} {r : List (MT σ) × List Event} (hS : isStart e = true)
    (h : run (f + 1) start end_ (.ev e :: rest) mts = some r) :
    (∃ mts1 p, scan e start end_ 0 mts = (mts1, none) ∧ run f start end_ rest mts1 = some p ∧ r = (p.1, e :: p.2)) ∨
    (∃ mts1 idx t inner tail rest' mts3 innerOut mts4 out p,
      scan e start end_ 0 mts = (mts1, some idx) ∧ mts1[idx]? = some t ∧
      strip 1 rest = some (inner, tail, rest') ∧
      run f start (some (preEnd t idx)) inner (fired t idx mts1) = some (mts3, innerOut) ∧
      run f (idx + 1) end_ (evItems (instantiate t.body (e :: innerOut ++ [tail]))) mts3 = some (mts4, out) ∧
      run f start end_ rest' (updRange tail start (idx + 1) 0 mts4) = some p ∧
      r = (p.1, out ++ p.2)) := by
  simp only [run, hS, ↓reduceIte] at h
  generalize hsc : scan e start end_ 0 mts = sc at h
  obtain ⟨mts1, hit⟩ := sc
  cases hit with
  | none =>
    simp only at h
    obtain ⟨p, hp, rfl⟩ := emit_some h
    exact Or.inl ⟨mts1, p, rfl, hp, rfl⟩
  | some idx =>
    simp only at h
    cases ht : mts1[idx]? with
    | none => simp [ht] at h
    | some t =>
      simp only [ht] at h
      cases hst : strip 1 rest with
      | none => simp [hst] at h
      | some q =>
        obtain ⟨inner, tail, rest'⟩ := q
        simp only [hst] at h
        cases h3 : run f start (some (preEnd t idx)) inner (fired t idx mts1) with
        | none => rw [h3] at h; simp at h
        | some q3 =>
          obtain ⟨mts3, innerOut⟩ := q3
          rw [h3] at h; simp only at h
          cases h4 : run f (idx + 1) end_ (evItems (instantiate t.body (e :: innerOut ++ [tail]))) mts3 with
          | none => rw [h4] at h; simp at h
          | some q4 =>
            obtain ⟨mts4, out⟩ := q4
            rw [h4] at h; simp only at h
            cases h5 : run f start end_ rest' (updRange tail start (idx + 1) 0 mts4) with
            | none => rw [h5] at h; simp at h
            | some p =>
              rw [h5] at h; simp only [Option.map_some, Option.some.injEq] at h
              exact Or.inr ⟨mts1, idx, t, inner, tail, rest', mts3, innerOut, mts4, out, p, rfl, ht, rfl,
                h3, h4, h5, h.symm⟩

theorem getElem?_mem_of {α} {l : List α} {i : Nat} {a : α} (h : l[i]? = some a) : a ∈ l :=
  List.mem_of_getElem? h

/-- static properties of the registered templates survive the filter -/
theorem run_forall {P : MT σ → Prop} (hP : Static P) : ∀ (f start : Nat) (end_ : Option Nat)
    (items : List (Item σ)) (mts : List (MT σ)) (r : List (MT σ) × List Event),
    (∀ t ∈ mts, P t) → (∀ t, Item.reg t ∈ items → P t) →
    run f start end_ items mts = some r → ∀ t ∈ r.1, P t := by
  intro f
  induction f with
  | zero => intro start end_ items mts r _ _ h; simp [run] at h
  | succ f ih =>
    intro start end_ items mts r hm hi h
    cases items with
    | nil => simp [run] at h; subst h; exact hm
    | cons it rest =>
      cases it with
      | reg t =>
        simp only [run] at h
        exact ih start end_ rest (mts ++ [t]) r
          (by intro x hx; simp at hx; rcases hx with hx | rfl
              · exact hm x hx
              · exact hi x (by simp))
          (by intro x hx; exact hi x (by simp [hx])) h
      | ev e =>
        have hi' : ∀ t, Item.reg t ∈ rest → P t := fun x hx => hi x (by simp [hx])
        by_cases hS : isStart e = true
        · rcases run_start_cases hS h with ⟨mts1, p, hsc, hp, rfl⟩ |
            ⟨mts1, idx, t, inner, tail, rest', mts3, innerOut, mts4, out, p, hsc, ht, hst, h3, h4, h5, rfl⟩
          · have h1 : ∀ t ∈ mts1, P t := by
              have := scan_forall hP e start end_ 0 mts hm; rw [hsc] at this; exact this
            exact ih start end_ rest mts1 p h1 hi' hp
          · have h1 : ∀ t ∈ mts1, P t := by
              have := scan_forall hP e start end_ 0 mts hm; rw [hsc] at this; exact this
            obtain ⟨hrest, _, _⟩ := strip_spec rest 0 inner tail rest' hst
            have hin : ∀ t, Item.reg t ∈ inner → P t := fun x hx => hi' x (by rw [hrest]; simp [hx])
            have hre : ∀ t, Item.reg t ∈ rest' → P t := fun x hx => hi' x (by rw [hrest]; simp [hx])
            have h2 : ∀ x ∈ fired t idx mts1, P x := by
              unfold fired; split
              · exact retireAt_forall hP idx mts1 h1
              · exact h1
            have h3' := ih _ _ _ _ _ h2 hin h3
            have h4' := ih _ _ _ _ _ h3' (by intro x hx; simp [evItems] at hx) h4
            exact ih _ _ _ _ p (updRange_forall hP tail start (idx + 1) 0 mts4 h4') hre h5
        · simp only [run, hS, Bool.false_eq_true, ↓reduceIte] at h
          by_cases hE : isEnd e = true
          · simp only [hE, ↓reduceIte] at h
            obtain ⟨q, hr, rfl⟩ := emit_some h
            exact ih start end_ rest _ q (scanEnd_forall hP _ start end_ 0 mts hm) hi' hr
          · simp only [hE, Bool.false_eq_true, ↓reduceIte] at h
            obtain ⟨q, hr, rfl⟩ := emit_some h
            exact ih start end_ rest mts q hm hi' hr

/-- **The output keeps the nesting of the input**: whatever stack of open elements the
    flattened template leaves, the filtered stream leaves the same, provided the bodies of the
    match templates are well nested. -/
theorem run_track : ∀ (f start : Nat) (end_ : Option Nat) (items : List (Item σ)) (mts : List (MT σ))
    (r : List (MT σ) × List Event),
    (∀ t ∈ mts, BodyOK t.body) → (∀ t, Item.reg t ∈ items → BodyOK t.body) →
    run f start end_ items mts = some r →
    ∀ st st', track st (evs items) = some st' → track st r.2 = some st' := by
  intro f
  induction f with
  | zero => intro start end_ items mts r _ _ h; simp [run] at h
  | succ f ih =>
    intro start end_ items mts r hm hi h st st' htr
    have hPs : Static (fun t : MT σ => BodyOK t.body) := by
      intro t t' hs hb; rw [hs.2.1]; exact hb
    cases items with
    | nil => simp [run] at h; subst h; simpa using htr
    | cons it rest =>
      cases it with
      | reg t =>
        simp only [run] at h
        exact ih start end_ rest (mts ++ [t]) r
          (by intro x hx; simp at hx; rcases hx with hx | rfl
              · exact hm x hx
              · exact hi x (by simp))
          (by intro x hx; exact hi x (by simp [hx])) h st st' (by simpa using htr)
      | ev e =>
        have hi' : ∀ t, Item.reg t ∈ rest → BodyOK t.body := fun x hx => hi x (by simp [hx])
        by_cases hS : isStart e = true
        · rcases run_start_cases hS h with ⟨mts1, p, hsc, hp, rfl⟩ |
            ⟨mts1, idx, t, inner, tail, rest', mts3, innerOut, mts4, out, p, hsc, ht, hst, h3, h4, h5, rfl⟩
          · have h1 : ∀ t ∈ mts1, BodyOK t.body := by
              have := scan_forall hPs e start end_ 0 mts hm; rw [hsc] at this; exact this
            cases e with
            | start tg at_ =>
              simp only [evs_ev, track] at htr ⊢
              exact ih start end_ rest mts1 p h1 hi' hp _ _ htr
            | _ => simp [isStart] at hS
          · have h1 : ∀ t ∈ mts1, BodyOK t.body := by
              have := scan_forall hPs e start end_ 0 mts hm; rw [hsc] at this; exact this
            obtain ⟨hrest, htail, hcl⟩ := strip_spec rest 0 inner tail rest' hst
            have hin : ∀ t, Item.reg t ∈ inner → BodyOK t.body := fun x hx => hi' x (by rw [hrest]; simp [hx])
            have hre : ∀ t, Item.reg t ∈ rest' → BodyOK t.body := fun x hx => hi' x (by rw [hrest]; simp [hx])
            have h2 : ∀ x ∈ fired t idx mts1, BodyOK x.body := by
              unfold fired; split
              · exact retireAt_forall hPs idx mts1 h1
              · exact h1
            have h3' := run_forall hPs _ _ _ _ _ _ h2 hin h3
            have h4' := run_forall hPs _ _ _ _ _ _ h3' (by intro x hx; simp [evItems] at hx) h4
            have h5' := updRange_forall hPs tail start (idx + 1) 0 mts4 h4'
            have htb : BodyOK t.body := h1 t (getElem?_mem_of ht)
            cases e with
            | start tg at_ =>
              simp only [evs_ev, track] at htr
              rw [hrest, evs_append, evs_ev, track_append] at htr
              cases hti : track ((tg, at_) :: st) (evs inner) with
              | none => simp [hti] at htr
              | some s1 =>
                simp only [hti, Option.bind_some] at htr
                obtain ⟨hs1, hneu⟩ := neutral_of_closed hcl hti
                subst hs1
                cases tail with
                | end_ tt =>
                  simp only [track] at htr
                  by_cases htt : tt = tg
                  · subst htt
                    simp only [↓reduceIte] at htr
                    -- the buffered content is a neutral element
                    have hio : Neutral innerOut := fun s2 => ih _ _ _ _ _ h2 hin h3 s2 s2 (hneu s2)
                    have hcont : Neutral (Event.start tt at_ :: innerOut ++ [Event.end_ tt]) :=
                      neutral_wrap tt at_ hio
                    have hbody := instantiate_neutral htb hcont
                    have hout : track st out = some st :=
                      ih _ _ _ _ _ h3' (by intro x hx; simp [evItems] at hx) h4 st st (by simpa using hbody st)
                    simp only
                    rw [track_append, hout]
                    exact ih _ _ _ _ _ h5' hre h5 st st' htr
                  · simp [htt] at htr
                | _ => simp [isEnd] at htail
            | _ => simp [isStart] at hS
        · simp only [run, hS, Bool.false_eq_true, ↓reduceIte] at h
          by_cases hE : isEnd e = true
          · simp only [hE, ↓reduceIte] at h
            obtain ⟨q, hr, rfl⟩ := emit_some h
            have := ih start end_ rest _ q (scanEnd_forall hPs _ start end_ 0 mts hm) hi' hr
            cases e with
            | end_ tg =>
              simp only [evs_ev, track] at htr ⊢
              cases st with
              | nil => simp at htr
              | cons o st =>
                simp only at htr ⊢
                by_cases ho : tg = o.1
                · simp only [ho, ↓reduceIte] at htr ⊢; exact this _ _ htr
                · simp [ho] at htr
            | _ => simp [isEnd] at hE
          · simp only [hE, Bool.false_eq_true, ↓reduceIte] at h
            obtain ⟨q, hr, rfl⟩ := emit_some h
            have := ih start end_ rest mts q hm hi' hr
            simp only [evs_ev] at htr ⊢
            rw [track_other e (by simpa using hS) (by simpa using hE)] at htr ⊢
            exact this _ _ htr

end Genshi.Match

/-
  C04: the reader of the mini language inverts the token layout of the printer
  (`Model/TmplPrint.lean`): `readExprToks`, `readXToks`, `readDirToks` on `exprToks`, `xexprToks`,
  `dirToks`, for every AST that satisfies the side conditions `exprOk`, `xexprOk`, `dirOk`.
-/
import Genshi.Model.TmplPrint
namespace Genshi.Tmpl.Print
open Genshi.Tmpl.Raw

/-! ### atoms -/

theorem pAtom_print (a : Atom) (rest : List MTok) : pAtom (atomToks a ++ rest) = some (a, rest) := by
  cases a with
  | none => rfl
  | bool b => cases b <;> rfl
  | int i =>
    cases i with
    | ofNat n => rfl
    | negSucc n => simp [atomToks, pAtom, Int.negSucc_eq]
  | str s => rfl

/-- the first token of an atom -/
def atomHead : MTok → Bool
  | .name _ => true
  | .int _ => true
  | .str _ => true
  | .sym c => c = '('
  | .eqeq => false

theorem atomToks_head (a : Atom) : ∃ t ts, atomToks a = t :: ts ∧ atomHead t = true := by
  cases a with
  | none => exact ⟨_, _, rfl, rfl⟩
  | bool b => cases b <;> exact ⟨_, _, rfl, rfl⟩
  | int i => cases i <;> exact ⟨_, _, rfl, by simp [atomHead]⟩
  | str s => exact ⟨_, _, rfl, rfl⟩

theorem pAtoms_print (xs : List Atom) (hx : xs ≠ []) (f : Nat) (rest : List MTok) (hf : xs.length ≤ f) :
    pAtoms f (atomsToks xs ++ .sym ']' :: rest) = some (xs, rest) := by
  induction xs generalizing f with
  | nil => exact absurd rfl hx
  | cons a r ih =>
    cases f with
    | zero => simp at hf
    | succ f =>
      cases r with
      | nil => simp [atomsToks, pAtoms, pAtom_print]
      | cons b r =>
        have := ih (by simp) f (by simpa using hf)
        simp [atomsToks, pAtoms, pAtom_print, this]

theorem pPairs_print (kv : List (Str × Atom)) (hx : kv ≠ []) (f : Nat) (rest : List MTok)
    (hf : kv.length ≤ f) :
    pPairs f (pairsToks kv ++ .sym '}' :: rest) = some (kv, rest) := by
  induction kv generalizing f with
  | nil => exact absurd rfl hx
  | cons a r ih =>
    obtain ⟨k, a⟩ := a
    cases f with
    | zero => simp at hf
    | succ f =>
      cases r with
      | nil => simp [pairsToks, pPairs, pAtom_print]
      | cons b r =>
        have := ih (by simp) f (by simpa using hf)
        simp [pairsToks, pPairs, pAtom_print, this]

/-! ### more fuel, same answer -/

theorem pAtoms_mono (f : Nat) : ∀ toks res, pAtoms f toks = some res → pAtoms (f + 1) toks = some res := by
  induction f with
  | zero => intro toks res h; simp [pAtoms] at h
  | succ f ih =>
    intro toks res h
    rw [pAtoms] at h ⊢
    split at h
    · next a r heq =>
      cases h' : pAtoms f r with
      | none => simp [h'] at h
      | some p => rw [ih _ _ h']; simpa [h'] using h
    · next a r heq => exact h
    · simp at h

theorem pPairs_mono (f : Nat) : ∀ toks res, pPairs f toks = some res → pPairs (f + 1) toks = some res := by
  induction f with
  | zero => intro toks res h; simp [pPairs] at h
  | succ f ih =>
    intro toks res h
    unfold pPairs at h ⊢
    split at h
    · simp at h
    · next k toks =>
      trace_state
      split at h
      · next a r heq =>
        rw [heq]; simp only
        cases h' : pPairs f r with
        | none => simp [h'] at h
        | some p => rw [ih _ _ h']; simpa [h'] using h
      · next a r heq => rw [heq]; simpa using h
      · simp at h
    · simp at h

end Genshi.Tmpl.Print

/-
  C04: the reader of the mini language inverts the token layout of the printer
  (`Model/TmplPrint.lean`): `readExprToks`, `readXToks`, `readDirToks` on `exprToks`, `xexprToks`,
  `dirToks`, for every AST that satisfies the side conditions `exprOk`, `xexprOk`, `dirOk`.
-/
import Genshi.Model.TmplPrint
namespace Genshi.Tmpl.Print
open Genshi.Tmpl.Raw

/-! ### atoms -/

theorem pAtom_print (a : Atom) (rest : List MTok) : pAtom (atomToks a ++ rest) = some (a, rest) := by
  cases a with
  | none => rfl
  | bool b => cases b <;> rfl
  | int i =>
    cases i with
    | ofNat n => rfl
    | negSucc n => simp [atomToks, pAtom, Int.negSucc_eq]
  | str s => rfl

/-- the first token of an atom -/
def atomHead : MTok → Bool
  | .name _ => true
  | .int _ => true
  | .str _ => true
  | .sym c => c = '('
  | .eqeq => false

theorem atomToks_head (a : Atom) : ∃ t ts, atomToks a = t :: ts ∧ atomHead t = true := by
  cases a with
  | none => exact ⟨_, _, rfl, rfl⟩
  | bool b => cases b <;> exact ⟨_, _, rfl, rfl⟩
  | int i => cases i <;> exact ⟨_, _, rfl, by simp [atomHead]⟩
  | str s => exact ⟨_, _, rfl, rfl⟩

theorem pAtoms_print (xs : List Atom) (hx : xs ≠ []) (f : Nat) (rest : List MTok) (hf : xs.length ≤ f) :
    pAtoms f (atomsToks xs ++ .sym ']' :: rest) = some (xs, rest) := by
  induction xs generalizing f with
  | nil => exact absurd rfl hx
  | cons a r ih =>
    cases f with
    | zero => simp at hf
    | succ f =>
      cases r with
      | nil => simp [atomsToks, pAtoms, pAtom_print]
      | cons b r =>
        have := ih (by simp) f (by simpa using hf)
        simp [atomsToks, pAtoms, pAtom_print, this]

theorem pPairs_print (kv : List (Str × Atom)) (hx : kv ≠ []) (f : Nat) (rest : List MTok)
    (hf : kv.length ≤ f) :
    pPairs f (pairsToks kv ++ .sym '}' :: rest) = some (kv, rest) := by
  induction kv generalizing f with
  | nil => exact absurd rfl hx
  | cons a r ih =>
    obtain ⟨k, a⟩ := a
    cases f with
    | zero => simp at hf
    | succ f =>
      cases r with
      | nil => simp [pairsToks, pPairs, pAtom_print]
      | cons b r =>
        have := ih (by simp) f (by simpa using hf)
        simp [pairsToks, pPairs, pAtom_print, this]

/-! ### more fuel, same answer -/

theorem pAtoms_mono (f : Nat) : ∀ toks res, pAtoms f toks = some res → pAtoms (f + 1) toks = some res := by
  induction f with
  | zero => intro toks res h; simp [pAtoms] at h
  | succ f ih =>
    intro toks res h
    rw [pAtoms] at h ⊢
    split at h
    · next a r heq =>
      cases h' : pAtoms f r with
      | none => simp [h'] at h
      | some p => rw [ih _ _ h']; simpa [h'] using h
    · next a r heq => exact h
    · simp at h

theorem pPairs_mono (f : Nat) : ∀ toks res, pPairs f toks = some res → pPairs (f + 1) toks = some res := by
  induction f with
  | zero => intro toks res h; simp [pPairs] at h
  | succ f ih =>
    intro toks res h
    unfold pPairs at h ⊢
    split at h
    · simp at h
    · next f' k tk hfe =>
      cases hfe
      split at h
      · next a r heq =>
        cases h' : pPairs f r with
        | none => simp [h'] at h
        | some p => rw [ih _ _ h']; simpa [h'] using h
      · exact h
      · simp at h
    · simp at h

theorem pAll_mono (f : Nat) :
    (∀ st toks res, pExpr f st toks = some res → pExpr (f + 1) st toks = some res) ∧
    (∀ st e toks res, pPostfix f st e toks = some res → pPostfix (f + 1) st e toks = some res) ∧
    (∀ st toks res, pPrimary f st toks = some res → pPrimary (f + 1) st toks = some res) := by
  induction f with
  | zero =>
    refine ⟨?_, ?_, ?_⟩
    · intro st toks res h; simp [pExpr] at h
    · intro st e toks res h; simp [pPostfix] at h
    · intro st toks res h; unfold pPrimary at h; simp at h
  | succ f ih =>
    obtain ⟨ihE, ihO, ihP⟩ := ih
    refine ⟨?_, ?_, ?_⟩
    · intro st toks res h
      rw [pExpr] at h ⊢
      cases h' : pPrimary f st toks with
      | none => simp [h'] at h
      | some p =>
        obtain ⟨e, rest⟩ := p
        rw [h'] at h
        rw [ihP _ _ _ h']
        exact ihO _ _ _ _ h
    · intro st e toks res h
      unfold pPostfix at h ⊢
      split at h
      · simp at h
      · rename_i heq; cases heq
        split at h
        · rename_i heq; rw [ihE _ _ _ heq]; exact ihO _ _ _ _ h
        · simp at h
      · rename_i h1 h2
        · exact h
    · intro st toks res h
      unfold pPrimary at h ⊢
      split at h
      all_goals (cases ‹f + 1 = _›)
      all_goals (try exact h)
      all_goals (have hA := pAtoms_mono f; have hD := pPairs_mono f; grind)

theorem pExpr_mono {f g : Nat} (hfg : f ≤ g) {st : Bool} {toks : List MTok} {res : Expr × List MTok}
    (h : pExpr f st toks = some res) : pExpr g st toks = some res := by
  induction hfg with
  | refl => exact h
  | step _ ih => exact (pAll_mono _).1 _ _ _ ih

theorem pPostfix_mono {f g : Nat} (hfg : f ≤ g) {st : Bool} {e : Expr} {toks : List MTok}
    {res : Expr × List MTok} (h : pPostfix f st e toks = some res) : pPostfix g st e toks = some res := by
  induction hfg with
  | refl => exact h
  | step _ ih => exact (pAll_mono _).2.1 _ _ _ _ ih

theorem pPrimary_mono {f g : Nat} (hfg : f ≤ g) {st : Bool} {toks : List MTok} {res : Expr × List MTok}
    (h : pPrimary f st toks = some res) : pPrimary g st toks = some res := by
  induction hfg with
  | refl => exact h
  | step _ ih => exact (pAll_mono _).2.2 _ _ _ ih

/-! ### one rule of `pPrimary` per layout -/

/-- the continuation does not open a call -/
def noParen (rest : List MTok) : Prop := ∀ r, rest ≠ .sym '(' :: r

/-- the continuation does not open a subscript -/
def noBracket (rest : List MTok) : Prop := ∀ r, rest ≠ .sym '[' :: r

theorem pPrimary_len {f : Nat} {st : Bool} {r r' : List MTok} {e : Expr}
    (h : pExpr f st r = some (e, .sym ')' :: r')) :
    pPrimary (f + 1) st (.name kwLen :: .sym '(' :: r) = some (.len e, r') := by
  simp [pPrimary, h]

theorem pPrimary_not {f : Nat} {st : Bool} {r r' : List MTok} {e : Expr}
    (h : pExpr f st r = some (e, .sym ')' :: r')) :
    pPrimary (f + 1) st (.sym '(' :: .name kwNot :: r) = some (.not e, r') := by
  simp [pPrimary, h]

theorem pPrimary_paren {f : Nat} {st : Bool} {t : MTok} {r r1 r2 : List MTok} {a b : Expr}
    (h1 : t ≠ .name kwNot) (h2 : t ≠ .sym '-')
    (ha : pExpr f st (t :: r) = some (a, .eqeq :: r1))
    (hb : pExpr f st r1 = some (b, .sym ')' :: r2)) :
    pPrimary (f + 1) st (.sym '(' :: t :: r) = some (.eq a b, r2) := by
  unfold pPrimary
  split
  all_goals first | grind

theorem pPostfix_stop (f : Nat) (st : Bool) (e : Expr) (rest : List MTok) (h : noBracket rest) :
    pPostfix (f + 1) st e rest = some (e, rest) := by
  unfold pPostfix
  split
  all_goals first | rfl | (exfalso; unfold noBracket at h; grind)

theorem pPostfix_ix {f : Nat} {st : Bool} {e i : Expr} {r r' : List MTok}
    (h : pExpr f st r = some (i, .sym ']' :: r')) :
    pPostfix (f + 1) st e (.sym '[' :: r) = pPostfix f st (mkIx st e i) r' := by
  simp [pPostfix, h]

theorem nameOk_ne {n : Name} (h : nameOk n = true) :
    n ≠ ['N', 'o', 'n', 'e'] ∧ n ≠ ['T', 'r', 'u', 'e'] ∧ n ≠ ['F', 'a', 'l', 's', 'e'] ∧
    n ≠ kwNot ∧ n ≠ kwIn ∧ n ≠ kwLen := by
  unfold nameOk at h
  split at h
  · simp at h
  · simp only [Bool.and_eq_true, Bool.not_eq_true', List.contains_eq_mem, List.mem_cons,
      List.not_mem_nil, or_false, decide_eq_false_iff_not, not_or] at h
    obtain ⟨_, h1, h2, h3, h4, h5, h6⟩ := h
    exact ⟨h1, h2, h3, h4, h5, h6⟩

theorem pAtom_name {n : Name} (h : nameOk n = true) : pAtom [.name n] = none := by
  obtain ⟨h1, h2, h3, _⟩ := nameOk_ne h
  unfold pAtom
  split
  all_goals first | rfl | (exfalso; grind)

theorem pPrimary_name {f : Nat} {st : Bool} {n : Name} {rest : List MTok}
    (h : nameOk n = true) (hr : noParen rest) :
    pPrimary (f + 1) st (.name n :: rest) = some (mkVar st n, rest) := by
  have hA := pAtom_name h
  obtain ⟨_, _, _, h4, h5, h6⟩ := nameOk_ne h
  unfold pPrimary
  split
  all_goals first | (exfalso; unfold noParen at hr; grind) | skip
  · rename_i heq; cases heq; rw [hA]; simp [h4, h5, h6]

theorem pPrimary_nameAtom {f : Nat} {st : Bool} {n : Name} {a : Atom} {x rest : List MTok}
    (h : pAtom [.name n] = some (a, x)) (hr : noParen rest) :
    pPrimary (f + 1) st (.name n :: rest) = some (.lit (.atom a), rest) := by
  unfold pPrimary
  split
  all_goals first | (exfalso; unfold noParen at hr; grind) | skip
  · rename_i heq; cases heq; rw [h]

theorem pPrimary_atom {f : Nat} {st : Bool} (a : Atom) {rest : List MTok} (hr : noParen rest) :
    pPrimary (f + 1) st (atomToks a ++ rest) = some (.lit (.atom a), rest) := by
  cases a with
  | none => exact pPrimary_nameAtom (x := []) rfl hr
  | bool b => cases b <;> exact pPrimary_nameAtom (x := []) rfl hr
  | int i =>
    cases i with
    | ofNat n =>
      have hp := pAtom_print (.int (.ofNat n)) rest
      simp only [atomToks, List.cons_append, List.nil_append] at hp ⊢
      unfold pPrimary
      rw [hp]
    | negSucc n =>
      have hp := pAtom_print (.int (.negSucc n)) rest
      simp only [atomToks, List.cons_append, List.nil_append] at hp ⊢
      unfold pPrimary
      split
      all_goals first | (exfalso; grind) | skip
      · rename_i heq; cases heq; rw [hp]
  | str s =>
    have hp := pAtom_print (.str s) rest
    simp only [atomToks, List.cons_append, List.nil_append] at hp ⊢
    unfold pPrimary
    rw [hp]

theorem pPrimary_bracket {f : Nat} {st : Bool} {t : MTok} {r r' : List MTok} {xs : List Atom}
    (ht : t ≠ .sym ']') (h : pAtoms f (t :: r) = some (xs, r')) :
    pPrimary (f + 1) st (.sym '[' :: t :: r) = some (.lit (.list xs), r') := by
  unfold pPrimary
  split
  all_goals grind

theorem pPrimary_brace {f : Nat} {st : Bool} {t : MTok} {r r' : List MTok} {kv : List (Str × Atom)}
    (ht : t ≠ .sym '}') (h : pPairs f (t :: r) = some (kv, r')) :
    pPrimary (f + 1) st (.sym '{' :: t :: r) = some (.lit (.dict kv), r') := by
  unfold pPrimary
  split
  all_goals grind

theorem atomsToks_head {xs : List Atom} (hx : xs ≠ []) :
    ∃ t ts, atomsToks xs = t :: ts ∧ atomHead t = true := by
  match xs, hx with
  | [a], _ => exact atomToks_head a
  | a :: b :: r, _ =>
    obtain ⟨t, ts, h, ht⟩ := atomToks_head a
    exact ⟨t, ts ++ .sym ',' :: atomsToks (b :: r), by simp [atomsToks, h], ht⟩

theorem pPrimary_list {f : Nat} {st : Bool} (xs : List Atom) (rest : List MTok) (hf : xs.length ≤ f) :
    pPrimary (f + 1) st (.sym '[' :: (atomsToks xs ++ .sym ']' :: rest)) = some (.lit (.list xs), rest) := by
  cases xs with
  | nil => simp [atomsToks, pPrimary]
  | cons a r =>
    have hp := pAtoms_print (a :: r) (by simp) f rest hf
    obtain ⟨t, ts, h, ht⟩ := atomsToks_head (xs := a :: r) (by simp)
    rw [h] at hp ⊢
    exact pPrimary_bracket (by rintro rfl; simp [atomHead] at ht) hp

theorem pPrimary_dict {f : Nat} {st : Bool} (kv : List (Str × Atom)) (rest : List MTok)
    (hf : kv.length ≤ f) :
    pPrimary (f + 1) st (.sym '{' :: (pairsToks kv ++ .sym '}' :: rest)) = some (.lit (.dict kv), rest) := by
  cases kv with
  | nil => simp [pairsToks, pPrimary]
  | cons a r =>
    have hp := pPairs_print (a :: r) (by simp) f rest hf
    have h : ∃ k ts, pairsToks (a :: r) = .str k :: ts := by
      obtain ⟨k, v⟩ := a
      cases r with
      | nil => exact ⟨_, _, rfl⟩
      | cons b r => exact ⟨_, _, rfl⟩
    obtain ⟨k, ts, h⟩ := h
    rw [h] at hp ⊢
    exact pPrimary_brace (by simp) hp

/-! ### expressions -/

/-- fuel that suffices for the primary part and for the chain of subscripts of `e` -/
def cost : Expr → Nat
  | .var _ => 1
  | .svar _ => 1
  | .lit (.atom _) => 1
  | .lit (.list xs) => xs.length + 1
  | .lit (.dict kv) => kv.length + 1
  | .lit .undef => 0
  | .lit (.macro _) => 0
  | .eq a b => cost a + cost b + 3
  | .not a => cost a + 3
  | .len a => cost a + 3
  | .ix a i => cost a + cost i + 3
  | .six a i => cost a + cost i + 3

/-- the layout of a well-formed expression starts with a token that is neither `not` nor `-` -/
theorem exprToks_head {st : Bool} {e : Expr} (h : exprOk st e = true) :
    ∃ t ts, exprToks e = t :: ts ∧ t ≠ .name kwNot ∧ t ≠ .sym '-' := by
  induction e with
  | var n =>
    simp only [exprOk, Bool.and_eq_true] at h
    exact ⟨_, _, rfl, by simpa using (nameOk_ne h.2).2.2.2.1, by simp⟩
  | svar n =>
    simp only [exprOk, Bool.and_eq_true] at h
    exact ⟨_, _, rfl, by simpa using (nameOk_ne h.2).2.2.2.1, by simp⟩
  | lit v =>
    cases v with
    | atom a =>
      obtain ⟨t, ts, ht, hh⟩ := atomToks_head a
      refine ⟨t, ts, ht, ?_, ?_⟩
      · rintro rfl
        cases a with
        | none => simp [atomToks, kwNot] at ht
        | bool b => cases b <;> simp [atomToks, kwNot] at ht
        | int i => cases i <;> simp [atomToks] at ht
        | str s => simp [atomToks] at ht
      · rintro rfl; simp [atomHead] at hh
    | list xs => exact ⟨_, _, rfl, by simp, by simp⟩
    | dict kv => exact ⟨_, _, rfl, by simp, by simp⟩
    | undef => simp [exprOk] at h
    | «macro» i => simp [exprOk] at h
  | eq a b _ _ => exact ⟨_, _, rfl, by simp, by simp⟩
  | not a _ => exact ⟨_, _, rfl, by simp, by simp⟩
  | len a _ => exact ⟨_, _, rfl, by simp [kwLen, kwNot], by simp⟩
  | ix a i iha _ =>
    simp only [exprOk, Bool.and_eq_true] at h
    obtain ⟨t, ts, ht, h1, h2⟩ := iha h.1.2
    exact ⟨t, _, by simp only [exprToks, ht, List.cons_append]; rfl, h1, h2⟩
  | six a i iha _ =>
    simp only [exprOk, Bool.and_eq_true] at h
    obtain ⟨t, ts, ht, h1, h2⟩ := iha h.1.2
    exact ⟨t, _, by simp only [exprToks, ht, List.cons_append]; rfl, h1, h2⟩

/-- what the induction over the expression carries: the primary part of the layout of `e` is read
    as some `p`, and the subscripts that follow rebuild `e` from `p` -/
def ReadsAs (st : Bool) (e : Expr) : Prop :=
  ∀ rest, noParen rest → ∃ p r,
    (∀ f, cost e ≤ f → pPrimary f st (exprToks e ++ rest) = some (p, r)) ∧
    (∀ g res, pPostfix g st e rest = some res → pPostfix (g + cost e) st p r = some res)

theorem ReadsAs.pExpr {st : Bool} {e : Expr} (h : ReadsAs st e) {f : Nat} {rest : List MTok}
    (hf : cost e + 2 ≤ f) (h1 : noParen rest) (h2 : noBracket rest) :
    pExpr f st (exprToks e ++ rest) = some (e, rest) := by
  obtain ⟨p, r, hp, hq⟩ := h rest h1
  obtain ⟨f, rfl⟩ : ∃ f', f = f' + 1 := ⟨f - 1, by omega⟩
  rw [Raw.pExpr, hp f (by omega)]
  exact pPostfix_mono (by omega) (hq 1 _ (pPostfix_stop 0 st e rest h2))

theorem ReadsAs.of_primary {st : Bool} {e : Expr}
    (hp : ∀ rest, noParen rest → ∀ f, cost e ≤ f → pPrimary f st (exprToks e ++ rest) = some (e, rest)) :
    ReadsAs st e :=
  fun rest hr => ⟨e, rest, hp rest hr, fun _ _ h => pPostfix_mono (by omega) h⟩

theorem noParen_eqeq (r : List MTok) : noParen (.eqeq :: r) := by intro r' h; cases h
theorem noBracket_eqeq (r : List MTok) : noBracket (.eqeq :: r) := by intro r' h; cases h
theorem noParen_close (c : Char) (hc : c ≠ '(') (r : List MTok) : noParen (.sym c :: r) := by
  intro r' h; cases h; exact hc rfl
theorem noBracket_close (c : Char) (hc : c ≠ '[') (r : List MTok) : noBracket (.sym c :: r) := by
  intro r' h; cases h; exact hc rfl
theorem noParen_nil : noParen [] := by intro r' h; cases h
theorem noBracket_nil : noBracket [] := by intro r' h; cases h

theorem readsAs_ix {st : Bool} {a i : Expr} (e : Expr) (hc : cost e = cost a + cost i + 3)
    (ht : exprToks e = exprToks a ++ .sym '[' :: (exprToks i ++ [.sym ']']))
    (hm : mkIx st a i = e) (ha : ReadsAs st a) (hi : ReadsAs st i) : ReadsAs st e := by
  intro rest hr
  obtain ⟨p, r, hp, hq⟩ := ha (.sym '[' :: (exprToks i ++ .sym ']' :: rest)) (noParen_close _ (by decide) _)
  have htoks : exprToks e ++ rest = exprToks a ++ .sym '[' :: (exprToks i ++ .sym ']' :: rest) := by
    simp [ht]
  refine ⟨p, r, fun f hf => ?_, fun g res h => ?_⟩
  · rw [htoks]; exact hp f (by omega)
  · have hI : Raw.pExpr (g + cost i + 2) st (exprToks i ++ .sym ']' :: rest) = some (i, .sym ']' :: rest) :=
      hi.pExpr (by omega) (noParen_close _ (by decide) _) (noBracket_close _ (by decide) _)
    have h2 : pPostfix (g + cost i + 2 + 1) st a (.sym '[' :: (exprToks i ++ .sym ']' :: rest)) = some res := by
      rw [pPostfix_ix hI, hm]
      exact pPostfix_mono (by omega) h
    have := hq _ _ h2
    rw [hc]
    exact pPostfix_mono (by omega) this

theorem readsAs_print (st : Bool) (e : Expr) (h : exprOk st e = true) : ReadsAs st e := by
  induction e with
  | var n =>
    simp only [exprOk, Bool.and_eq_true, Bool.not_eq_true'] at h
    obtain ⟨rfl, hn⟩ := h
    refine .of_primary fun rest hr f hf => ?_
    obtain ⟨f, rfl⟩ : ∃ f', f = f' + 1 := ⟨f - 1, by simp only [cost] at hf; omega⟩
    exact pPrimary_name hn hr
  | svar n =>
    simp only [exprOk, Bool.and_eq_true] at h
    obtain ⟨rfl, hn⟩ := h
    refine .of_primary fun rest hr f hf => ?_
    obtain ⟨f, rfl⟩ : ∃ f', f = f' + 1 := ⟨f - 1, by simp only [cost] at hf; omega⟩
    exact pPrimary_name hn hr
  | lit v =>
    cases v with
    | atom a =>
      refine .of_primary fun rest hr f hf => ?_
      obtain ⟨f, rfl⟩ : ∃ f', f = f' + 1 := ⟨f - 1, by simp only [cost] at hf; omega⟩
      exact pPrimary_atom a hr
    | list xs =>
      refine .of_primary fun rest hr f hf => ?_
      obtain ⟨f, rfl⟩ : ∃ f', f = f' + 1 := ⟨f - 1, by simp only [cost] at hf; omega⟩
      simp only [cost] at hf
      simpa [exprToks] using pPrimary_list (st := st) xs rest (f := f) (by omega)
    | dict kv =>
      refine .of_primary fun rest hr f hf => ?_
      obtain ⟨f, rfl⟩ : ∃ f', f = f' + 1 := ⟨f - 1, by simp only [cost] at hf; omega⟩
      simp only [cost] at hf
      simpa [exprToks] using pPrimary_dict (st := st) kv rest (f := f) (by omega)
    | undef => simp [exprOk] at h
    | «macro» i => simp [exprOk] at h
  | eq a b iha ihb =>
    simp only [exprOk, Bool.and_eq_true] at h
    have ha := iha h.1
    have hb := ihb h.2
    obtain ⟨t, ts, hta, h1, h2⟩ := exprToks_head h.1
    refine .of_primary fun rest hr f hf => ?_
    simp only [cost] at hf
    obtain ⟨f, rfl⟩ : ∃ f', f = f' + 1 := ⟨f - 1, by omega⟩
    have hA := ha.pExpr (f := f) (rest := .eqeq :: (exprToks b ++ .sym ')' :: rest)) (by omega)
      (noParen_eqeq _) (noBracket_eqeq _)
    have hB := hb.pExpr (f := f) (rest := .sym ')' :: rest) (by omega)
      (noParen_close _ (by decide) _) (noBracket_close _ (by decide) _)
    rw [hta] at hA
    have : exprToks (.eq a b) ++ rest
        = .sym '(' :: t :: (ts ++ .eqeq :: (exprToks b ++ .sym ')' :: rest)) := by
      simp [exprToks, hta]
    rw [this]
    exact pPrimary_paren h1 h2 hA hB
  | not a iha =>
    simp only [exprOk] at h
    have ha := iha h
    refine .of_primary fun rest hr f hf => ?_
    simp only [cost] at hf
    obtain ⟨f, rfl⟩ : ∃ f', f = f' + 1 := ⟨f - 1, by omega⟩
    have hA := ha.pExpr (f := f) (rest := .sym ')' :: rest) (by omega)
      (noParen_close _ (by decide) _) (noBracket_close _ (by decide) _)
    have : exprToks (.not a) ++ rest = .sym '(' :: .name kwNot :: (exprToks a ++ .sym ')' :: rest) := by
      simp [exprToks]
    rw [this]
    exact pPrimary_not hA
  | len a iha =>
    simp only [exprOk] at h
    have ha := iha h
    refine .of_primary fun rest hr f hf => ?_
    simp only [cost] at hf
    obtain ⟨f, rfl⟩ : ∃ f', f = f' + 1 := ⟨f - 1, by omega⟩
    have hA := ha.pExpr (f := f) (rest := .sym ')' :: rest) (by omega)
      (noParen_close _ (by decide) _) (noBracket_close _ (by decide) _)
    have : exprToks (.len a) ++ rest = .name kwLen :: .sym '(' :: (exprToks a ++ .sym ')' :: rest) := by
      simp [exprToks]
    rw [this]
    exact pPrimary_len hA
  | ix a i iha ihi =>
    simp only [exprOk, Bool.and_eq_true, Bool.not_eq_true'] at h
    obtain ⟨⟨rfl, h1⟩, h2⟩ := h
    exact readsAs_ix (.ix a i) rfl rfl rfl (iha h1) (ihi h2)
  | six a i iha ihi =>
    simp only [exprOk, Bool.and_eq_true] at h
    obtain ⟨⟨rfl, h1⟩, h2⟩ := h
    exact readsAs_ix (.six a i) rfl rfl rfl (iha h1) (ihi h2)

/-! ### the fuel of `readExprToks` suffices -/

theorem atomToks_length (a : Atom) : 1 ≤ (atomToks a).length := by
  obtain ⟨t, ts, h, _⟩ := atomToks_head a
  simp [h]

theorem atomsToks_length (xs : List Atom) : xs.length ≤ (atomsToks xs).length := by
  induction xs with
  | nil => simp
  | cons a r ih =>
    have := atomToks_length a
    cases r with
    | nil => simpa [atomsToks] using this
    | cons b r => simp only [atomsToks, List.length_append, List.length_cons] at ih ⊢; omega

theorem pairsToks_length (kv : List (Str × Atom)) : kv.length ≤ (pairsToks kv).length := by
  induction kv with
  | nil => simp
  | cons a r ih =>
    obtain ⟨k, a⟩ := a
    cases r with
    | nil => simp [pairsToks]
    | cons b r => simp only [pairsToks, List.length_append, List.length_cons] at ih ⊢; omega

theorem cost_le (e : Expr) : cost e ≤ 2 * (exprToks e).length := by
  induction e with
  | var n => simp [cost, exprToks]
  | svar n => simp [cost, exprToks]
  | lit v =>
    cases v with
    | atom a => have := atomToks_length a; simp only [cost, exprToks]; omega
    | list xs =>
      have := atomsToks_length xs
      simp only [cost, exprToks, List.length_append, List.length_cons, List.length_nil]; omega
    | dict kv =>
      have := pairsToks_length kv
      simp only [cost, exprToks, List.length_append, List.length_cons, List.length_nil]; omega
    | undef => simp [cost]
    | «macro» i => simp [cost]
  | eq a b iha ihb =>
    simp only [cost, exprToks, List.length_append, List.length_cons, List.length_nil]; omega
  | not a iha =>
    simp only [cost, exprToks, List.length_append, List.length_cons, List.length_nil]; omega
  | len a iha =>
    simp only [cost, exprToks, List.length_append, List.length_cons, List.length_nil]; omega
  | ix a i iha ihi =>
    simp only [cost, exprToks, List.length_append, List.length_cons, List.length_nil]; omega
  | six a i iha ihi =>
    simp only [cost, exprToks, List.length_append, List.length_cons, List.length_nil]; omega

/-- the reader of expressions on the layout of `e`, followed by anything that does not continue
    an expression -/
theorem pExpr_print {st : Bool} {e : Expr} (h : exprOk st e = true) {f : Nat} {rest : List MTok}
    (hf : 2 * (exprToks e).length + 2 ≤ f) (h1 : noParen rest) (h2 : noBracket rest) :
    pExpr f st (exprToks e ++ rest) = some (e, rest) :=
  (readsAs_print st e h).pExpr (by have := cost_le e; omega) h1 h2

/-- with the fuel the callers give: twice the number of tokens ahead, plus two -/
theorem pExpr_print' {st : Bool} {e : Expr} (h : exprOk st e = true) {rest : List MTok}
    (h1 : noParen rest) (h2 : noBracket rest) :
    pExpr (2 * (exprToks e ++ rest).length + 2) st (exprToks e ++ rest) = some (e, rest) :=
  pExpr_print h (by simp only [List.length_append]; omega) h1 h2

theorem readExprToks_print (st : Bool) (e : Expr) (h : exprOk st e = true) :
    readExprToks st (exprToks e) = some e := by
  have := pExpr_print' h (rest := []) noParen_nil noBracket_nil
  simp only [List.append_nil] at this
  simp [readExprToks, this]

/-! ### arguments, parameters, bindings -/

/-- behind a leading name, the layout of an expression goes on with `(` (after `len`), with `[`,
    or is over -/
theorem exprToks_second {st : Bool} {e : Expr} (h : exprOk st e = true) {rest r : List MTok} {f : Name}
    {t2 : MTok} (heq : exprToks e ++ rest = .name f :: t2 :: r) :
    (f = kwLen ∧ t2 = .sym '(') ∨ t2 = .sym '[' ∨ rest = t2 :: r := by
  induction e generalizing rest r with
  | var n => simp only [exprToks, List.cons_append, List.nil_append, List.cons.injEq] at heq; exact .inr (.inr heq.2)
  | svar n => simp only [exprToks, List.cons_append, List.nil_append, List.cons.injEq] at heq; exact .inr (.inr heq.2)
  | lit v =>
    cases v with
    | atom a =>
      cases a with
      | none => simp only [exprToks, atomToks, List.cons_append, List.nil_append, List.cons.injEq] at heq; exact .inr (.inr heq.2)
      | bool b =>
        cases b <;>
        · simp only [exprToks, atomToks, List.cons_append, List.nil_append, List.cons.injEq] at heq
          exact .inr (.inr heq.2)
      | int i => cases i <;> simp [exprToks, atomToks] at heq
      | str s => simp [exprToks, atomToks] at heq
    | list xs => simp [exprToks] at heq
    | dict kv => simp [exprToks] at heq
    | undef => simp [exprOk] at h
    | «macro» i => simp [exprOk] at h
  | eq a b _ _ => simp [exprToks] at heq
  | not a _ => simp [exprToks] at heq
  | len a _ =>
    simp only [exprToks, List.cons_append, List.cons.injEq, MTok.name.injEq] at heq
    exact .inl ⟨heq.1.symm, heq.2.1.symm⟩
  | ix a i iha _ =>
    simp only [exprOk, Bool.and_eq_true] at h
    simp only [exprToks, List.append_assoc, List.cons_append] at heq
    rcases iha h.1.2 heq with h' | h' | h'
    · exact .inl h'
    · exact .inr (.inl h')
    · simp only [List.cons.injEq] at h'; exact .inr (.inl h'.1.symm)
  | six a i iha _ =>
    simp only [exprOk, Bool.and_eq_true] at h
    simp only [exprToks, List.append_assoc, List.cons_append] at heq
    rcases iha h.1.2 heq with h' | h' | h'
    · exact .inl h'
    · exact .inr (.inl h')
    · simp only [List.cons.injEq] at h'; exact .inr (.inl h'.1.symm)

theorem pArgs_kw_last {f : Nat} {st kw : Bool} {k : Name} {toks : List MTok} {e : Expr}
    (h : pExpr (2 * toks.length + 2) st toks = some (e, [.sym ')'])) :
    pArgs (f + 1) st kw (.name k :: .sym '=' :: toks) = some [(some k, e)] := by
  simp [pArgs, h]

theorem pArgs_kw_more {f : Nat} {st kw : Bool} {k : Name} {toks r : List MTok} {e : Expr} {es : List Arg}
    (h : pExpr (2 * toks.length + 2) st toks = some (e, .sym ',' :: r))
    (h' : pArgs f st true r = some es) :
    pArgs (f + 1) st kw (.name k :: .sym '=' :: toks) = some ((some k, e) :: es) := by
  simp [pArgs, h, h']

theorem pArgs_pos_last {f : Nat} {st : Bool} {toks : List MTok} {e : Expr}
    (hne : ∀ k r, toks ≠ .name k :: .sym '=' :: r)
    (h : pExpr (2 * toks.length + 2) st toks = some (e, [.sym ')'])) :
    pArgs (f + 1) st false toks = some [(none, e)] := by
  unfold pArgs
  split
  all_goals grind

theorem pArgs_pos_more {f : Nat} {st : Bool} {toks r : List MTok} {e : Expr} {es : List Arg}
    (hne : ∀ k r, toks ≠ .name k :: .sym '=' :: r)
    (h : pExpr (2 * toks.length + 2) st toks = some (e, .sym ',' :: r))
    (h' : pArgs f st false r = some es) :
    pArgs (f + 1) st false toks = some ((none, e) :: es) := by
  unfold pArgs
  split
  all_goals grind

theorem exprToks_not_kw {st : Bool} {e : Expr} (h : exprOk st e = true) {c : Char} (hc : c ≠ '=')
    (rest : List MTok) : ∀ k r, exprToks e ++ .sym c :: rest ≠ .name k :: .sym '=' :: r := by
  intro k r heq
  rcases exprToks_second h heq with h' | h' | h'
  · simp at h'
  · simp at h'
  · simp only [List.cons.injEq, MTok.sym.injEq] at h'; exact hc h'.1

theorem argsToks_cons2 (a b : Arg) (r : List Arg) (rest : List MTok) :
    argsToks (a :: b :: r) ++ rest = argToks a ++ .sym ',' :: (argsToks (b :: r) ++ rest) := by
  simp [argsToks]

theorem pArgs_print (st : Bool) (args : List Arg) (hne : args ≠ []) (kw : Bool) (f : Nat)
    (hok : args.all (argOk st) = true) (hord : argsOrdered kw args = true) (hf : args.length ≤ f) :
    pArgs f st kw (argsToks args ++ [.sym ')']) = some args := by
  induction args generalizing kw f with
  | nil => exact absurd rfl hne
  | cons a r ih =>
    obtain ⟨f, rfl⟩ : ∃ f', f = f' + 1 := ⟨f - 1, by simp at hf; omega⟩
    simp only [List.all_cons, Bool.and_eq_true] at hok
    obtain ⟨hoka, hokr⟩ := hok
    obtain ⟨k, e⟩ := a
    cases k with
    | none =>
      simp only [argsOrdered, Bool.and_eq_true, Bool.not_eq_true'] at hord
      obtain ⟨rfl, hord⟩ := hord
      simp only [argOk] at hoka
      cases r with
      | nil =>
        simp only [argsToks, argToks]
        exact pArgs_pos_last (exprToks_not_kw hoka (by decide) _)
          (pExpr_print' hoka (noParen_close _ (by decide) _) (noBracket_close _ (by decide) _))
      | cons b r =>
        rw [argsToks_cons2]
        simp only [argToks]
        exact pArgs_pos_more (exprToks_not_kw hoka (by decide) _)
          (pExpr_print' hoka (noParen_close _ (by decide) _) (noBracket_close _ (by decide) _))
          (ih (by simp) false f hokr hord (by simpa using hf))
    | some k =>
      simp only [argsOrdered] at hord
      simp only [argOk, Bool.and_eq_true] at hoka
      cases r with
      | nil =>
        simp only [argsToks, argToks, List.cons_append]
        exact pArgs_kw_last
          (pExpr_print' hoka.2 (noParen_close _ (by decide) _) (noBracket_close _ (by decide) _))
      | cons b r =>
        rw [argsToks_cons2]
        simp only [argToks, List.cons_append]
        exact pArgs_kw_more
          (pExpr_print' hoka.2 (noParen_close _ (by decide) _) (noBracket_close _ (by decide) _))
          (ih (by simp) true f hokr hord (by simpa using hf))

theorem argsToks_length (args : List Arg) : args.length ≤ (argsToks args).length + 1 := by
  induction args with
  | nil => simp
  | cons a r ih =>
    cases r with
    | nil => simp
    | cons b r => simp only [argsToks, List.length_append, List.length_cons] at ih ⊢; omega

theorem argsToks_ne_nil {st : Bool} {args : List Arg} (hne : args ≠ [])
    (hok : args.all (argOk st) = true) : ∃ t ts, argsToks args = t :: ts := by
  match args, hne with
  | (k, e) :: r, _ =>
    simp only [List.all_cons, Bool.and_eq_true] at hok
    have : ∃ t ts, argToks (k, e) = t :: ts := by
      cases k with
      | none =>
        obtain ⟨t, ts, h, _⟩ := exprToks_head (st := st) (e := e) (by simpa [argOk] using hok.1)
        exact ⟨t, ts, h⟩
      | some k => exact ⟨_, _, rfl⟩
    obtain ⟨t, ts, h⟩ := this
    cases r with
    | nil => exact ⟨t, ts, by simpa [argsToks] using h⟩
    | cons b r => exact ⟨t, _, by simp only [argsToks, h, List.cons_append]; rfl⟩

theorem readXToks_call {st : Bool} {n : Name} (hn : nameOk n = true) (args : List Arg)
    (hok : argsOk st args = true) :
    readXToks st (.name n :: .sym '(' :: (argsToks args ++ [.sym ')'])) = some (.call (mkVar st n) args) := by
  have hlen := (nameOk_ne hn).2.2.2.2.2
  simp only [argsOk, Bool.and_eq_true] at hok
  cases args with
  | nil => simp [readXToks, hlen, argsToks]
  | cons a r =>
    obtain ⟨t, ts, ht⟩ := argsToks_ne_nil (args := a :: r) (by simp) hok.1
    have hp := pArgs_print st (a :: r) (by simp) false ((argsToks (a :: r) ++ [MTok.sym ')']).length + 1)
      hok.1 hok.2 (by have := argsToks_length (a :: r); simp only [List.length_append] at *; simp at *; omega)
    unfold readXToks
    simp only [hlen, if_false]
    split
    · next heq => rw [ht] at heq; simp at heq
    · rw [hp]; rfl

theorem readXToks_print (st : Bool) (x : XExpr) (h : xexprOk st x = true) :
    readXToks st (xexprToks x) = some x := by
  cases x with
  | pure e =>
    simp only [xexprOk] at h
    have hr := readExprToks_print st e h
    simp only [xexprToks]
    unfold readXToks
    split
    · next f r heq =>
      have := exprToks_second h (rest := []) (by simpa using heq)
      rcases this with ⟨rfl, _⟩ | h' | h'
      · simp [hr]
      · simp at h'
      · simp at h'
    · simp [hr]
  | call f args =>
    cases f with
    | var n =>
      simp only [xexprOk, Bool.and_eq_true, Bool.not_eq_true'] at h
      obtain ⟨⟨rfl, hn⟩, hargs⟩ := h
      simpa [xexprToks, exprToks, mkVar] using readXToks_call hn args hargs
    | svar n =>
      simp only [xexprOk, Bool.and_eq_true] at h
      obtain ⟨⟨rfl, hn⟩, hargs⟩ := h
      simpa [xexprToks, exprToks, mkVar] using readXToks_call hn args hargs
    | lit v => simp [xexprOk] at h
    | eq a b => simp [xexprOk] at h
    | not a => simp [xexprOk] at h
    | len a => simp [xexprOk] at h
    | ix a i => simp [xexprOk] at h
    | six a i => simp [xexprOk] at h

theorem pParams_dflt_last {f : Nat} {st d : Bool} {n : Name} {toks : List MTok} {e : Expr}
    (h : pExpr (2 * toks.length + 2) st toks = some (e, [.sym ')'])) :
    pParams (f + 1) st d (.name n :: .sym '=' :: toks) = some [(n, some e)] := by
  simp [pParams, h]

theorem pParams_dflt_more {f : Nat} {st d : Bool} {n : Name} {toks r : List MTok} {e : Expr}
    {ps : List Param} (h : pExpr (2 * toks.length + 2) st toks = some (e, .sym ',' :: r))
    (h' : pParams f st true r = some ps) :
    pParams (f + 1) st d (.name n :: .sym '=' :: toks) = some ((n, some e) :: ps) := by
  simp [pParams, h, h']

theorem pParams_name_last {f : Nat} {st : Bool} {n : Name} :
    pParams (f + 1) st false [.name n, .sym ')'] = some [(n, none)] := by
  simp [pParams]

theorem pParams_name_more {f : Nat} {st : Bool} {n : Name} {r : List MTok} {ps : List Param}
    (h' : pParams f st false r = some ps) :
    pParams (f + 1) st false (.name n :: .sym ',' :: r) = some ((n, none) :: ps) := by
  simp [pParams, h']

theorem paramsToks_cons2 (a b : Param) (r : List Param) (rest : List MTok) :
    paramsToks (a :: b :: r) ++ rest = paramToks a ++ .sym ',' :: (paramsToks (b :: r) ++ rest) := by
  simp [paramsToks]

theorem pParams_print (st : Bool) (ps : List Param) (hne : ps ≠ []) (d : Bool) (f : Nat)
    (hok : ps.all (paramOk st) = true) (hord : paramsOrdered d ps = true) (hf : ps.length ≤ f) :
    pParams f st d (paramsToks ps ++ [.sym ')']) = some ps := by
  induction ps generalizing d f with
  | nil => exact absurd rfl hne
  | cons a r ih =>
    obtain ⟨f, rfl⟩ : ∃ f', f = f' + 1 := ⟨f - 1, by simp at hf; omega⟩
    simp only [List.all_cons, Bool.and_eq_true] at hok
    obtain ⟨hoka, hokr⟩ := hok
    obtain ⟨n, e⟩ := a
    cases e with
    | none =>
      simp only [paramsOrdered, Bool.and_eq_true, Bool.not_eq_true'] at hord
      obtain ⟨rfl, hord⟩ := hord
      cases r with
      | nil =>
        simp only [paramsToks, paramToks, List.cons_append, List.nil_append]
        exact pParams_name_last
      | cons b r =>
        rw [paramsToks_cons2]
        simp only [paramToks, List.cons_append, List.nil_append]
        exact pParams_name_more (ih (by simp) false f hokr hord (by simpa using hf))
    | some e =>
      simp only [paramsOrdered] at hord
      simp only [paramOk, Bool.and_eq_true] at hoka
      cases r with
      | nil =>
        simp only [paramsToks, paramToks, List.cons_append]
        exact pParams_dflt_last
          (pExpr_print' hoka.2 (noParen_close _ (by decide) _) (noBracket_close _ (by decide) _))
      | cons b r =>
        rw [paramsToks_cons2]
        simp only [paramToks, List.cons_append]
        exact pParams_dflt_more
          (pExpr_print' hoka.2 (noParen_close _ (by decide) _) (noBracket_close _ (by decide) _))
          (ih (by simp) true f hokr hord (by simpa using hf))

theorem paramsToks_length (ps : List Param) : ps.length ≤ (paramsToks ps).length + 1 := by
  induction ps with
  | nil => simp
  | cons a r ih =>
    cases r with
    | nil => simp
    | cons b r => simp only [paramsToks, List.length_append, List.length_cons] at ih ⊢; omega

theorem pBinds_last {f : Nat} {st : Bool} {n : Name} {toks : List MTok} {e : Expr}
    (h : pExpr (2 * toks.length + 2) st toks = some (e, [])) :
    pBinds (f + 1) st (.name n :: .sym '=' :: toks) = some [(n, e)] := by
  simp [pBinds, h]

theorem pBinds_more {f : Nat} {st : Bool} {n : Name} {toks r : List MTok} {e : Expr}
    {bs : List (Name × Expr)} (h : pExpr (2 * toks.length + 2) st toks = some (e, .sym ';' :: r))
    (h' : pBinds f st r = some bs) :
    pBinds (f + 1) st (.name n :: .sym '=' :: toks) = some ((n, e) :: bs) := by
  simp [pBinds, h, h']

theorem pBinds_print (st : Bool) (bs : List (Name × Expr)) (hne : bs ≠ []) (f : Nat)
    (hok : (bs.all fun p => nameOk p.1 && exprOk st p.2) = true) (hf : bs.length ≤ f) :
    pBinds f st (bindsToks bs) = some bs := by
  induction bs generalizing f with
  | nil => exact absurd rfl hne
  | cons a r ih =>
    obtain ⟨f, rfl⟩ : ∃ f', f = f' + 1 := ⟨f - 1, by simp at hf; omega⟩
    simp only [List.all_cons, Bool.and_eq_true] at hok
    obtain ⟨⟨_, hoke⟩, hokr⟩ := hok
    obtain ⟨n, e⟩ := a
    cases r with
    | nil =>
      have := pExpr_print' hoke (rest := []) noParen_nil noBracket_nil
      simp only [List.append_nil] at this
      simp only [bindsToks]
      exact pBinds_last this
    | cons b r =>
      have h1 := pExpr_print' hoke (rest := .sym ';' :: bindsToks (b :: r))
        (noParen_close _ (by decide) _) (noBracket_close _ (by decide) _)
      have h2 := ih (by simp) f hokr (by simpa using hf)
      simp only [bindsToks]
      exact pBinds_more h1 h2

theorem bindsToks_length (bs : List (Name × Expr)) : bs.length ≤ (bindsToks bs).length := by
  induction bs with
  | nil => simp
  | cons a r ih =>
    obtain ⟨n, e⟩ := a
    cases r with
    | nil => simp [bindsToks]
    | cons b r => simp only [bindsToks, List.length_append, List.length_cons] at ih ⊢; omega

theorem optExpr_print (st : Bool) (o : Option Expr) (h : optOk st o = true) :
    optExpr st (optToks o) = some o := by
  cases o with
  | none => simp [optExpr, optToks]
  | some e =>
    simp only [optOk] at h
    obtain ⟨t, ts, ht, _⟩ := exprToks_head h
    have hne : (exprToks e).isEmpty = false := by rw [ht]; rfl
    simp [optExpr, optToks, hne, readExprToks_print st e h]

theorem readDirToks_print (st : Bool) (d : Dir) (h : dirOk st d = true) :
    readDirToks st d.name (dirToks d) = some d := by
  cases d with
  | def_ f ps =>
    simp only [dirOk, Bool.and_eq_true] at h
    obtain ⟨⟨hf, hok⟩, hord⟩ := h
    cases ps with
    | nil => simp [readDirToks, Dir.name, dirToks]
    | cons p r =>
      have hp := pParams_print st (p :: r) (by simp) false
        ((paramsToks (p :: r) ++ [MTok.sym ')']).length + 1) hok hord
        (by have := paramsToks_length (p :: r); simp only [List.length_append] at *; simp at *; omega)
      simp [readDirToks, Dir.name, dirToks]
      simpa using hp
  | when e => simp [readDirToks, Dir.name, dirToks, optExpr_print st e (by simpa [dirOk] using h)]
  | otherwise => simp [readDirToks, Dir.name, dirToks]
  | for_ v e =>
    simp only [dirOk, Bool.and_eq_true] at h
    simp [readDirToks, Dir.name, dirToks, readExprToks_print st e h.2]
  | if_ e =>
    simp only [dirOk] at h
    simp [readDirToks, Dir.name, dirToks, readExprToks_print st e h]
  | choose e => simp [readDirToks, Dir.name, dirToks, optExpr_print st e (by simpa [dirOk] using h)]
  | with_ bs =>
    simp only [dirOk, Bool.and_eq_true, Bool.not_eq_true', List.isEmpty_eq_false_iff] at h
    have hp := pBinds_print st bs h.1 ((bindsToks bs).length + 1) h.2
      (by have := bindsToks_length bs; omega)
    simp [readDirToks, Dir.name, dirToks, hp]
  | replace x => simp [dirOk] at h
  | content x => simp [dirOk] at h
  | attrs e => simp [dirOk] at h
  | strip e => simp [dirOk] at h

end Genshi.Tmpl.Print

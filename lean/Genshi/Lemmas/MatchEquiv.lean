/-
  The automaton model and the eager model agree: feeding a closed, registration-free segment to
  an idle `_match` generator yields what the eager filter yields, whatever the `buffer` hints say
  (bodies of unbuffered templates calling select() at most once).  Hence `buffer_hint_irrelevant`.
-/
import Genshi.Lemmas.MatchAuto
import Genshi.Lemmas.MatchSplit
namespace Genshi.Match
open Genshi
variable {σ : Type}

/-! ### folds -/

theorem foldFeed_append {step : Auto → Event → List (MT σ) → Fed σ} : ∀ (xs ys : List Event) (a : Auto) (m : List (MT σ)),
    foldFeed step a (xs ++ ys) m =
      match foldFeed step a xs m with
      | none => none
      | some (a1, m1, o1) =>
        match foldFeed step a1 ys m1 with
        | none => none
        | some (a2, m2, o2) => some (a2, m2, o1 ++ o2) := by
  intro xs
  induction xs with
  | nil =>
    intro ys a m
    simp only [List.nil_append, foldFeed]
    cases foldFeed step a ys m with
    | none => rfl
    | some q => obtain ⟨a2, m2, o2⟩ := q; simp
  | cons x xs ih =>
    intro ys a m
    simp only [List.cons_append, foldFeed]
    cases h1 : step a x m with
    | none => simp
    | some q1 =>
      obtain ⟨a1, m1, o1⟩ := q1
      simp only
      rw [ih ys a1 m1]
      cases foldFeed step a1 xs m1 with
      | none => simp
      | some q2 =>
        obtain ⟨a2, m2, o2⟩ := q2
        simp only
        cases foldFeed step a2 ys m2 with
        | none => simp
        | some q3 => obtain ⟨a3, m3, o3⟩ := q3; simp

theorem foldFeed_append_some {step : Auto → Event → List (MT σ) → Fed σ} {xs ys : List Event} {a a1 a2 : Auto}
    {m m1 m2 : List (MT σ)} {o1 o2 : List Event} (h1 : foldFeed step a xs m = some (a1, m1, o1))
    (h2 : foldFeed step a1 ys m1 = some (a2, m2, o2)) : foldFeed step a (xs ++ ys) m = some (a2, m2, o1 ++ o2) := by
  rw [foldFeed_append, h1]; simp only; rw [h2]

theorem foldFeed_append_inv {step : Auto → Event → List (MT σ) → Fed σ} {xs ys : List Event} {a a2 : Auto}
    {m m2 : List (MT σ)} {o : List Event} (h : foldFeed step a (xs ++ ys) m = some (a2, m2, o)) :
    ∃ a1 m1 o1 o2, foldFeed step a xs m = some (a1, m1, o1) ∧ foldFeed step a1 ys m1 = some (a2, m2, o2) ∧ o = o1 ++ o2 := by
  rw [foldFeed_append] at h
  cases h1 : foldFeed step a xs m with
  | none => rw [h1] at h; simp at h
  | some q1 =>
    obtain ⟨a1, m1, o1⟩ := q1
    rw [h1] at h; simp only at h
    cases h2 : foldFeed step a1 ys m1 with
    | none => rw [h2] at h; simp at h
    | some q2 =>
      obtain ⟨b2, n2, o2⟩ := q2
      rw [h2] at h; simp only [Option.some.injEq, Prod.mk.injEq] at h
      obtain ⟨rfl, rfl, rfl⟩ := h
      exact ⟨a1, m1, o1, o2, rfl, h2, rfl⟩

theorem foldFeed_cons_some {step : Auto → Event → List (MT σ) → Fed σ} {x : Event} {xs : List Event} {a a1 a2 : Auto}
    {m m1 m2 : List (MT σ)} {o1 o2 : List Event} (h1 : step a x m = some (a1, m1, o1))
    (h2 : foldFeed step a1 xs m1 = some (a2, m2, o2)) : foldFeed step a (x :: xs) m = some (a2, m2, o1 ++ o2) := by
  simp only [foldFeed, h1, h2]

/-- foldFeed of a well-formed generator keeps it well formed and is confined to its window -/
theorem foldFeed_WF (F s : Nat) (en : Option Nat) : ∀ (es : List Event) (a : Auto) (m : List (MT σ)) (a' : Auto)
    (m' : List (MT σ)) (o : List Event), WF s en a → foldFeed (feed F s en) a es m = some (a', m', o) → WF s en a' := by
  intro es
  induction es with
  | nil => intro a m a' m' o hw h; simp [foldFeed] at h; rw [← h.1]; exact hw
  | cons e es ih =>
    intro a m a' m' o hw h
    simp only [foldFeed] at h
    cases h1 : feed F s en a e m with
    | none => rw [h1] at h; simp at h
    | some q1 =>
      obtain ⟨a1, m1, o1⟩ := q1
      rw [h1] at h; simp only at h
      cases h2 : foldFeed (feed F s en) a1 es m1 with
      | none => rw [h2] at h; simp at h
      | some q2 =>
        obtain ⟨a2, m2, o2⟩ := q2
        rw [h2] at h; simp only [Option.some.injEq, Prod.mk.injEq] at h
        rw [← h.1]
        exact ih a1 m1 a2 m2 o2 (feed_WF F s en a e m a1 m1 o1 hw h1) h2

theorem foldFeed_feed_frames (F s : Nat) (en : Option Nat) : ∀ (es : List Event) (a : Auto), WF s en a →
    Frames (σ := σ) (win s en) (foldFeed (feed F s en) a es) := by
  intro es
  induction es with
  | nil =>
    intro a _ m y A' m' o _ h
    simp only [foldFeed, Option.some.injEq, Prod.mk.injEq] at h ⊢
    obtain ⟨rfl, rfl, rfl⟩ := h
    exact ⟨rfl, rfl, rfl, rfl⟩
  | cons e es ih =>
    intro a hw m y A' m' o hy h
    simp only [foldFeed] at h ⊢
    cases h1 : feed F s en a e m with
    | none => rw [h1] at h; simp at h
    | some q1 =>
      obtain ⟨a1, m1, o1⟩ := q1
      rw [h1] at h; simp only at h
      cases h2 : foldFeed (feed F s en) a1 es m1 with
      | none => rw [h2] at h; simp at h
      | some q2 =>
        obtain ⟨a2, m2, o2⟩ := q2
        rw [h2] at h; simp only [Option.some.injEq, Prod.mk.injEq] at h
        obtain ⟨rfl, rfl, rfl⟩ := h
        obtain ⟨l1, e1⟩ := feed_frames F s en a e hw m y a1 m1 o1 hy h1
        obtain ⟨l2, e2⟩ := ih a1 (feed_WF F s en a e m a1 m1 o1 hw h1) m1 y a2 m2 o2 (by rw [hy, l1]) h2
        exact ⟨by rw [l2, l1], by rw [e1]; simp only; rw [e2]⟩

/-! ### the select machine, step by step -/

theorem selFeed_append : ∀ (xs ys : List Event) (st : SelSt),
    selFeed st (xs ++ ys) = ((selFeed (selFeed st xs).1 ys).1, (selFeed st xs).2 ++ (selFeed (selFeed st xs).1 ys).2) := by
  intro xs
  induction xs with
  | nil =>
    intro ys st
    cases st with
    | none => simp [selFeed]
    | some q => obtain ⟨s, d, c⟩ := q; simp [selFeed]
  | cons x xs ih =>
    intro ys st
    cases st with
    | none => simp [selFeed]
    | some q =>
      obtain ⟨s, d, c⟩ := q
      simp only [List.cons_append, selFeed]
      rw [ih ys]
      simp

theorem selFeed_selM (s : Sel) : ∀ (es : List Event) (d c : Nat), (selFeed (some (s, d, c)) es).2 = selM s d c es := by
  intro es
  induction es with
  | nil => intro d c; cases c <;> simp [selFeed, selM]
  | cons e es ih =>
    intro d c
    simp only [selFeed]
    cases c with
    | zero =>
      simp only [selStep, selM]
      by_cases hs : isStart e = true
      · simp only [hs, ↓reduceIte]
        by_cases hq : d = s.depth ∧ s.nodeTest e = true
        · rw [if_pos hq, if_pos hq]; simp [ih]
        · rw [if_neg hq, if_neg hq]; simp [ih]
      · simp only [hs, Bool.false_eq_true, ↓reduceIte]
        by_cases he : isEnd e = true
        · simp [he, ih]
        · simp only [he, Bool.false_eq_true, ↓reduceIte]
          by_cases hq : d = s.depth ∧ s.nodeTest e = true
          · rw [if_pos hq, if_pos hq]; simp [ih]
          · rw [if_neg hq, if_neg hq]; simp [ih]
    | succ c =>
      simp only [selStep, selM]
      by_cases hs : isStart e = true
      · simp [hs, ih]
      · simp only [hs, Bool.false_eq_true, ↓reduceIte]
        by_cases he : isEnd e = true
        · simp [he, ih]
        · simp [he, ih]

theorem selFeed_some_state (s : Sel) : ∀ (es : List Event) (d c : Nat),
    ∃ d' c', (selFeed (some (s, d, c)) es).1 = some (s, d', c') := by
  intro es
  induction es with
  | nil => intro d c; exact ⟨d, c, by simp [selFeed]⟩
  | cons e es ih => intro d c; simp only [selFeed]; exact ih _ _

/-! ### bodies with at most one select -/

def NoSel : List BItem → Prop
  | [] => True
  | .ev _ :: bs => NoSel bs
  | .sel _ :: _ => False

/-- a body that calls select() at most once (what the documentation requires of `buffer="false"`) -/
def OneSel (body : List BItem) : Prop := NoSel (splitBody body).2.2

theorem instantiate_noSel : ∀ (bs : List BItem) (content : List Event), NoSel bs → instantiate bs content = postEvents bs := by
  intro bs
  induction bs with
  | nil => intro _ _; rfl
  | cons b bs ih =>
    intro content h
    cases b with
    | ev e => simp only [NoSel] at h; simp [instantiate, postEvents] at *; exact ih content h
    | sel s => simp [NoSel] at h

theorem instantiate_split : ∀ (body : List BItem) (content : List Event), OneSel body →
    instantiate body content = (splitBody body).1 ++
      (match (splitBody body).2.1 with | none => [] | some s => select s content) ++ postEvents (splitBody body).2.2 := by
  intro body
  induction body with
  | nil => intro content _; simp [instantiate, splitBody, postEvents]
  | cons b bs ih =>
    intro content h
    cases b with
    | ev e =>
      simp only [OneSel, splitBody] at h ⊢
      have := ih content h
      simp only [instantiate, List.flatMap_cons] at this ⊢
      rw [this]; simp
    | sel s =>
      simp only [OneSel, splitBody] at h ⊢
      have := instantiate_noSel bs content h
      simp only [instantiate, List.flatMap_cons] at this ⊢
      rw [this]; simp

theorem splitBody_none_post : ∀ (body : List BItem), (splitBody body).2.1 = none → (splitBody body).2.2 = [] := by
  intro body
  induction body with
  | nil => intro _; rfl
  | cons b bs ih =>
    intro h
    cases b with
    | ev e => simp only [splitBody] at h ⊢; exact ih h
    | sel s => simp [splitBody] at h

end Genshi.Match

namespace Genshi.Match
open Genshi
variable {σ : Type}

/-! ### frames distribute over the events of the matched element -/

theorem stripDepth_lvl {j k : Nat} {ev : Event} {rest : List Event} (h : lvl j (ev :: rest) = some k) :
    ∃ j', stripDepth (j + 1) ev = j' + 1 ∧ lvl j' rest = some k := by
  simp only [lvl] at h
  unfold stripDepth
  by_cases hs : isStart ev = true
  · simp only [hs, ↓reduceIte] at h ⊢; exact ⟨j + 1, rfl, h⟩
  · simp only [hs, Bool.false_eq_true, ↓reduceIte] at h ⊢
    by_cases he : isEnd ev = true
    · simp only [he, ↓reduceIte] at h ⊢
      cases j with
      | zero => simp at h
      | succ j => exact ⟨j, by omega, h⟩
    · simp only [he, Bool.false_eq_true, ↓reduceIte] at h ⊢; exact ⟨j, rfl, h⟩

/-- a buffering frame hands the events of its element to the content matcher and collects what it yields -/
theorem buf_dist (F s : Nat) (en : Option Nat) (idx pe : Nat) (e : Event) (body : List BItem) :
    ∀ (evs : List Event) (j k : Nat) (A : Auto) (acc : List Event) (m : List (MT σ)) (A' : Auto)
      (m' : List (MT σ)) (oA : List Event),
    lvl j evs = some k → foldFeed (feed F s (some pe)) A evs m = some (A', m', oA) →
    foldFeed (feed (F + 1) s en) (.buf idx pe e body (j + 1) A acc) evs m =
      some (.buf idx pe e body (k + 1) A' (acc ++ oA), m', []) := by
  intro evs
  induction evs with
  | nil =>
    intro j k A acc m A' m' oA hl h
    simp [lvl] at hl; subst hl
    simp only [foldFeed, Option.some.injEq, Prod.mk.injEq] at h ⊢
    obtain ⟨rfl, rfl, rfl⟩ := h
    simp
  | cons ev rest ih =>
    intro j k A acc m A' m' oA hl h
    obtain ⟨j', hd, hl'⟩ := stripDepth_lvl hl
    simp only [foldFeed] at h
    cases h1 : feed F s (some pe) A ev m with
    | none => rw [h1] at h; simp at h
    | some q1 =>
      obtain ⟨A1, m1, o1⟩ := q1
      rw [h1] at h; simp only at h
      cases h2 : foldFeed (feed F s (some pe)) A1 rest m1 with
      | none => rw [h2] at h; simp at h
      | some q2 =>
        obtain ⟨A2, m2, o2⟩ := q2
        rw [h2] at h; simp only [Option.some.injEq, Prod.mk.injEq] at h
        obtain ⟨rfl, rfl, rfl⟩ := h
        have hstep : feed (F + 1) s en (.buf idx pe e body (j + 1) A acc) ev m =
            some (.buf idx pe e body (j' + 1) A1 (acc ++ o1), m1, []) := by
          simp only [feed, hd, Nat.add_eq_zero_iff, Nat.succ_ne_self, and_false, ↓reduceIte, h1]
        have := ih j' k A1 (acc ++ o1) m1 A2 m2 o2 hl' h2
        rw [foldFeed_cons_some hstep this]
        simp

/-- a lazy frame: the content matcher works on its slots, the body matcher on its own; fed event by
    event in turn they end where each alone ends on its share of the template list -/
theorem lzy_dist (F s : Nat) (en : Option Nat) (idx pe : Nat) (post : List BItem)
    (hwi : inWindow s en idx = true) (hpe : pe ≤ idx + 1) :
    ∀ (evs : List Event) (j k : Nat) (A B : Auto) (sel : SelSt) (x y : List (MT σ)) (A' B' : Auto)
      (x' y' : List (MT σ)) (oA o : List Event),
    WF s (some pe) A → WF (idx + 1) en B → x.length = y.length →
    lvl j evs = some k → foldFeed (feed F s (some pe)) A evs y = some (A', y', oA) →
    foldFeed (feed F (idx + 1) en) B (selFeed sel oA).2 x = some (B', x', o) →
    foldFeed (feed (F + 1) s en) (.lzy idx pe (j + 1) A sel B post) evs (splice (win (idx + 1) en) x y) =
      some (.lzy idx pe (k + 1) A' (selFeed sel oA).1 B' post, splice (win (idx + 1) en) x' y', o) := by
  intro evs
  induction evs with
  | nil =>
    intro j k A B sel x y A' B' x' y' oA o _ _ _ hl h hb
    simp [lvl] at hl; subst hl
    simp only [foldFeed, Option.some.injEq, Prod.mk.injEq] at h
    obtain ⟨rfl, rfl, rfl⟩ := h
    have : selFeed sel ([] : List Event) = (sel, []) := by
      cases sel with
      | none => rfl
      | some q => obtain ⟨a, b, c⟩ := q; rfl
    rw [this] at hb ⊢
    simp only [foldFeed, Option.some.injEq, Prod.mk.injEq] at hb
    obtain ⟨rfl, rfl, rfl⟩ := hb
    simp [foldFeed]
  | cons ev rest ih =>
    intro j k A B sel x y A' B' x' y' oA o hwa hwb hxy hl h hb
    obtain ⟨j', hd, hl'⟩ := stripDepth_lvl hl
    simp only [foldFeed] at h
    cases h1 : feed F s (some pe) A ev y with
    | none => rw [h1] at h; simp at h
    | some q1 =>
      obtain ⟨A1, y1, o1⟩ := q1
      rw [h1] at h; simp only at h
      cases h2 : foldFeed (feed F s (some pe)) A1 rest y1 with
      | none => rw [h2] at h; simp at h
      | some q2 =>
        obtain ⟨A2, y2, o2⟩ := q2
        rw [h2] at h; simp only [Option.some.injEq, Prod.mk.injEq] at h
        obtain ⟨rfl, rfl, rfl⟩ := h
        -- split what the body matcher is fed
        rw [selFeed_append] at hb ⊢
        simp only at hb ⊢
        obtain ⟨B1, x1, ob1, ob2, hb1, hb2, rfl⟩ := foldFeed_append_inv hb
        -- the content matcher on the spliced list
        have hfA : Frames (σ := σ) (win s (some pe)) (feed F s (some pe) A ev) := feed_frames F s (some pe) A ev hwa
        have hly1 : y1.length = y.length := (hfA y y A1 y1 o1 rfl h1).1
        have hdisj : ∀ p, win s (some pe) p = true → win (idx + 1) en p = false := by
          intro p hp
          simp only [win] at *
          have h1 := ((inWindow_iff _ _ _).mp hp).2 pe rfl
          cases hh : inWindow (idx + 1) en p with
          | false => rfl
          | true => have := ((inWindow_iff _ _ _).mp hh).1; omega
        have hsp1 : splice (win (idx + 1) en) x y = splice (win s (some pe)) y (splice (win (idx + 1) en) x y) := by
          apply list_ext_get; intro p
          rw [splice_get _ y _ p (by rw [splice_length]; exact hxy), splice_get _ x y p hxy.symm]
          by_cases hp : win s (some pe) p = true
          · simp [hp, hdisj p hp]
          · simp [hp]
        have hA1 : feed F s (some pe) A ev (splice (win (idx + 1) en) x y) =
            some (A1, splice (win (idx + 1) en) x y1, o1) := by
          rw [hsp1]
          rw [(hfA y (splice (win (idx + 1) en) x y) A1 y1 o1 (by rw [splice_length]; exact hxy) h1).2]
          congr 2
          congr 1
          apply list_ext_get; intro p
          have hout := hfA.outside h1 p
          rw [splice_get _ y1 _ p (by rw [splice_length, hly1]; exact hxy), splice_get _ x y p hxy.symm,
            splice_get _ x y1 p (by rw [hly1]; exact hxy.symm)]
          by_cases hp : win s (some pe) p = true
          · simp [hp, hdisj p hp]
          · simp only [hp, Bool.false_eq_true, ↓reduceIte]
            by_cases hp2 : win (idx + 1) en p = true
            · simp [hp2]
            · simp only [hp2, Bool.false_eq_true, ↓reduceIte]
              exact (hout (by simpa using hp)).symm
        -- the body matcher on the spliced list
        have hfB : Frames (σ := σ) (win (idx + 1) en) (foldFeed (feed F (idx + 1) en) B (selFeed sel o1).2) :=
          foldFeed_feed_frames F (idx + 1) en (selFeed sel o1).2 B hwb
        obtain ⟨hlx1, hB1⟩ := hfB x y1 B1 x1 ob1 (by rw [hly1]; exact hxy.symm) hb1
        have hstep : feed (F + 1) s en (.lzy idx pe (j + 1) A sel B post) ev (splice (win (idx + 1) en) x y) =
            some (.lzy idx pe (j' + 1) A1 (selFeed sel o1).1 B1 post, splice (win (idx + 1) en) x1 y1, ob1) := by
          simp only [feed, hd, Nat.add_eq_zero_iff, Nat.succ_ne_self, and_false, ↓reduceIte, hA1, hB1]
        have hwa1 := feed_WF F s (some pe) A ev y A1 y1 o1 hwa h1
        have hwb1 := foldFeed_WF F (idx + 1) en _ B x B1 x1 ob1 hwb hb1
        have := ih j' k A1 B1 (selFeed sel o1).1 x1 y1 A2 B' x' y2 o2 ob2 hwa1 hwb1 (by rw [hlx1, hly1]; exact hxy) hl' h2 hb2
        rw [foldFeed_cons_some hstep this]

end Genshi.Match

namespace Genshi.Match
open Genshi
variable {σ : Type}

/-- what the equivalence needs of a template: a well-nested body, and at most one select() when it is
    not buffered (the documented requirement of `buffer="false"`) -/
def LazyOK (t : MT σ) : Prop := BodyOK t.body ∧ (t.buffered = false → OneSel t.body)

theorem static_lazyOK : Static (LazyOK (σ := σ)) := by
  intro t t' hs h
  unfold LazyOK at *
  rw [hs.2.1, hs.2.2.2.2]
  exact h

theorem neutral_start_split {tg : QName} {at_ : AttrList} {rest inner a'' : List (Item σ)} {tail : Event}
    (hn : Neutral (Event.start tg at_ :: evs rest)) (hst : strip 1 rest = some (inner, tail, a'')) :
    rest = inner ++ .ev tail :: a'' ∧ Neutral (evs inner) ∧ tail = Event.end_ tg ∧ Neutral (evs a'') := by
  obtain ⟨hrest, htail, hcl⟩ := strip_spec rest 0 inner tail a'' hst
  have key : ∀ st, track ((tg, at_) :: st) (evs inner) = some ((tg, at_) :: st) ∧ tail = Event.end_ tg ∧
      track st (evs a'') = some st := by
    intro st
    have h := hn st
    simp only [track] at h
    rw [hrest, evs_append, evs_ev, track_append] at h
    cases hti : track ((tg, at_) :: st) (evs inner) with
    | none => rw [hti] at h; simp at h
    | some s1 =>
      rw [hti] at h; simp only [Option.bind_some] at h
      obtain ⟨hs1, _⟩ := neutral_of_closed hcl hti
      subst hs1
      cases tail with
      | end_ tt =>
        simp only [track] at h
        by_cases htt : tt = tg
        · subst htt; simp only [↓reduceIte] at h; exact ⟨rfl, rfl, h⟩
        · simp [htt] at h
      | _ => simp [isEnd] at htail
  refine ⟨hrest, ?_, (key []).2.1, fun st => (key st).2.2⟩
  exact (neutral_of_closed hcl (key []).1).2

theorem noReg_evItems (es : List Event) : NoReg (evItems es : List (Item σ)) := by
  intro x hx; simp [evItems] at hx

theorem feed_idle_other {F s : Nat} {en : Option Nat} {ev : Event} {m : List (MT σ)} (hs : isStart ev = false)
    (he : isEnd ev = false) : feed (F + 1) s en .idle ev m = some (.idle, m, [ev]) := by
  simp [feed, hs, he]

theorem feed_idle_end {F s : Nat} {en : Option Nat} {ev : Event} {m : List (MT σ)} (he : isEnd ev = true) :
    feed (F + 1) s en .idle ev m = some (.idle, scanEnd ev s en 0 m, [ev]) := by
  simp [feed, isStart_false_of_isEnd he, he]

theorem stripDepth_one_end {ev : Event} (he : isEnd ev = true) : stripDepth 1 ev = 0 := by
  simp [stripDepth, isStart_false_of_isEnd he, he]

theorem selFeed_none (es : List Event) : selFeed none es = (none, []) := by
  cases es <;> rfl

end Genshi.Match

namespace Genshi.Match
open Genshi
variable {σ : Type}

theorem splice_eq_left {w : Nat → Bool} {x y : List (MT σ)} (hl : y.length = x.length)
    (h : ∀ p, w p = false → x[p]? = y[p]?) : splice w x y = x := by
  apply list_ext_get; intro p
  rw [splice_get w x y p hl]
  by_cases hp : w p = true
  · simp [hp]
  · simp only [hp, Bool.false_eq_true, ↓reduceIte]; exact (h p (by simpa using hp)).symm

theorem splice_eq_right {w : Nat → Bool} {x y : List (MT σ)} (hl : y.length = x.length)
    (h : ∀ p, w p = true → x[p]? = y[p]?) : splice w x y = y := by
  apply list_ext_get; intro p
  rw [splice_get w x y p hl]
  by_cases hp : w p = true
  · simp only [hp, ↓reduceIte]; exact h p hp
  · simp [hp]

/-- **The automaton and the eager filter agree** on every well-nested, registration-free stream:
    an idle `_match(start, end)` generator fed the stream ends idle, has yielded the eager output and
    left the template list as the eager filter leaves it — whatever the `buffer` hints say. -/
theorem auto_eq_run : ∀ (f s : Nat) (en : Option Nat) (items : List (Item σ)) (mts : List (MT σ))
    (r : List (MT σ) × List Event),
    NoReg items → Neutral (evs items) → (∀ t ∈ mts, LazyOK t) → run f s en items mts = some r →
    ∀ F, f ≤ F → foldFeed (feed F s en) .idle (evs items) mts = some (.idle, r.1, r.2) := by
  intro f
  induction f with
  | zero => intro s en items mts r _ _ _ h; simp [run] at h
  | succ f ih =>
    intro s en items mts r hnr hneu hok h F hF
    obtain ⟨G, rfl⟩ : ∃ G, F = G + 1 := ⟨F - 1, by omega⟩
    have hG : f ≤ G := by omega
    cases items with
    | nil => simp [run] at h; subst h; simp [foldFeed]
    | cons it rest =>
      cases it with
      | reg t => exact absurd (by simp) (hnr t)
      | ev e =>
        have hnr' : NoReg rest := fun x hx => hnr x (by simp [hx])
        simp only [evs_ev] at hneu ⊢
        by_cases hS : isStart e = true
        · cases e with
          | start tg at_ =>
            -- the element: content, END, and what follows
            have hcl := closed_of_neutral hneu
            have hl1 : lvl 1 (evs rest) = some 0 := by simpa [Closed, lvl, isStart] using hcl
            obtain ⟨inner, tail, a'', hst, _, _⟩ := strip_append rest 0 0 ([] : List (Item σ)) (by simpa using hl1)
            obtain ⟨hrest, hnin, htail, hnre⟩ := neutral_start_split hneu hst
            subst htail
            have hnoin : NoReg inner := fun x hx => hnr' x (by rw [hrest]; simp [hx])
            have hnore : NoReg a'' := fun x hx => hnr' x (by rw [hrest]; simp [hx])
            have hevs : evs rest = evs inner ++ Event.end_ tg :: evs a'' := by rw [hrest, evs_append, evs_ev]
            rcases run_start_cases hS h with ⟨mts1, p, hsc, hp, rfl⟩ |
              ⟨mts1, idx, t, inner', tail', rest', mts3, innerOut, mts4, out, p, hsc, ht, hst', h3, h4, h5, rfl⟩
            · -- nothing fires: START passes, the content and the rest are filtered in turn
              have hok1 : ∀ t ∈ mts1, LazyOK t := by
                have := scan_forall static_lazyOK (Event.start tg at_) s en 0 mts hok; rw [hsc] at this; exact this
              rw [hrest] at hp
              obtain ⟨r1, r2, hr1, hr2, hpe⟩ := run_append f s en inner (.ev (Event.end_ tg) :: a'') 0 mts1 p
                (closed_of_neutral hnin) hp
              have hok2 := run_forall static_lazyOK _ _ _ _ _ _ hok1 (fun x hx => absurd hx (hnoin x)) hr1
              obtain ⟨f0, rfl⟩ : ∃ f0, f = f0 + 1 := ⟨f - 1, by have := run_fuel_pos hr2; omega⟩
              simp only [run, isStart, isEnd, Bool.false_eq_true, ↓reduceIte] at hr2
              obtain ⟨q, hq, rfl⟩ := emit_some hr2
              have hq' := run_mono _ _ _ _ _ _ hq
              have hok3 := scanEnd_forall static_lazyOK (Event.end_ tg) s en 0 r1.1 hok2
              have e1 := ih s en inner mts1 r1 hnoin hnin hok1 hr1 (G + 1) (by omega)
              have e2 := ih s en a'' _ q hnore hnre hok3 hq' (G + 1) (by omega)
              have hstart : feed (G + 1) s en .idle (Event.start tg at_) mts = some (.idle, mts1, [Event.start tg at_]) := by
                simp [feed, isStart, hsc]
              have hend : feed (G + 1) s en .idle (Event.end_ tg) r1.1 =
                  some (.idle, scanEnd (Event.end_ tg) s en 0 r1.1, [Event.end_ tg]) := feed_idle_end rfl
              rw [hevs]
              have := foldFeed_cons_some hstart (foldFeed_append_some e1 (foldFeed_cons_some hend e2))
              rw [this, hpe]
              simp
            · -- template idx fires
              rw [hst] at hst'
              simp only [Option.some.injEq, Prod.mk.injEq] at hst'
              obtain ⟨rfl, rfl, rfl⟩ := hst'
              obtain ⟨hwi, _, _⟩ := scan_first (Event.start tg at_) s en mts idx (by rw [hsc])
              have hpe := preEnd_le t idx
              have hok1 : ∀ t ∈ mts1, LazyOK t := by
                have := scan_forall static_lazyOK (Event.start tg at_) s en 0 mts hok; rw [hsc] at this; exact this
              have hok2 : ∀ x ∈ fired t idx mts1, LazyOK x := by
                unfold fired; split
                · exact retireAt_forall static_lazyOK idx mts1 hok1
                · exact hok1
              have hok3 := run_forall static_lazyOK _ _ _ _ _ _ hok2 (fun x hx => absurd hx (hnoin x)) h3
              have hok4 := run_forall static_lazyOK _ _ _ _ _ _ hok3 (fun x hx => absurd hx (noReg_evItems _ x)) h4
              have hok5 := updRange_forall static_lazyOK (Event.end_ tg) s (idx + 1) 0 mts4 hok4
              have htok : LazyOK t := hok1 t (getElem?_mem_of ht)
              -- nesting of the pieces
              have hio : Neutral innerOut := fun s2 =>
                run_track _ _ _ _ _ _ (fun x hx => (hok2 x hx).1) (fun x hx => absurd hx (hnoin x)) h3 s2 s2 (hnin s2)
              have hcont : Neutral (Event.start tg at_ :: innerOut ++ [Event.end_ tg]) := neutral_wrap tg at_ hio
              have hbody : Neutral (instantiate t.body (Event.start tg at_ :: innerOut ++ [Event.end_ tg])) :=
                instantiate_neutral htok.1 hcont
              -- the three eager sub-runs through the automaton
              have eIn := ih s (some (preEnd t idx)) inner _ (mts3, innerOut) hnoin hnin hok2 h3 G hG
              have eBody := ih (idx + 1) en _ mts3 (mts4, out) (noReg_evItems _) (by simpa using hbody) hok3 h4 G hG
              simp only [evs_evItems] at eBody
              have eRest := ih s en a'' _ p hnore hnre hok5 h5 (G + 1) (by omega)
              rw [hevs]
              by_cases hb : t.buffered = true
              · -- buffered: collect, then run the body
                have hstart : feed (G + 1) s en .idle (Event.start tg at_) mts =
                    some (.buf idx (preEnd t idx) (Event.start tg at_) t.body 1 .idle [], fired t idx mts1, []) := by
                  simp [feed, isStart, hsc, ht, hb]
                have hmid := buf_dist G s en idx (preEnd t idx) (Event.start tg at_) t.body (evs inner) 0 0 .idle []
                  (fired t idx mts1) .idle mts3 innerOut (closed_of_neutral hnin) eIn
                have htl : feed (G + 1) s en (.buf idx (preEnd t idx) (Event.start tg at_) t.body 1 .idle ([] ++ innerOut))
                    (Event.end_ tg) mts3 = some (.idle, updRange (Event.end_ tg) s (idx + 1) 0 mts4, out) := by
                  simp only [feed, stripDepth_one_end (show isEnd (Event.end_ tg) = true from rfl), ↓reduceIte,
                    List.nil_append, eBody]
                have := foldFeed_cons_some hstart (foldFeed_append_some hmid (foldFeed_cons_some htl eRest))
                rw [this]; simp
              · -- not buffered: the body's matcher runs interleaved with the content's
                have hb' : t.buffered = false := by simpa using hb
                have hone := htok.2 hb'
                have hW2sub : ∀ q, win (idx + 1) en q = true → win s (some (preEnd t idx)) q = false := by
                  intro q hq
                  simp only [win] at *
                  have h1 := ((inWindow_iff _ _ _).mp hq).1
                  cases hh : inWindow s (some (preEnd t idx)) q with
                  | false => rfl
                  | true => have := ((inWindow_iff _ _ _).mp hh).2 _ rfl; omega
                -- the content matcher does not touch the body's slots, and vice versa
                have hfIn : Frames (σ := σ) (win s (some (preEnd t idx))) (foldFeed (feed G s (some (preEnd t idx))) .idle (evs inner)) :=
                  foldFeed_feed_frames G s (some (preEnd t idx)) (evs inner) .idle (by trivial)
                have hl3 : mts3.length = (fired t idx mts1).length := (hfIn _ _ _ _ _ rfl eIn).1
                have hout3 := hfIn.outside eIn
                have h23 : splice (win (idx + 1) en) mts3 (fired t idx mts1) = fired t idx mts1 :=
                  splice_eq_right hl3.symm (fun q hq => hout3 q (hW2sub q hq))
                rw [instantiate_split t.body _ hone] at eBody
                cases hsel : (splitBody t.body).2.1 with
                | none =>
                  have hpost := splitBody_none_post t.body hsel
                  rw [hsel, hpost] at eBody
                  simp only [List.append_nil, postEvents] at eBody
                  have hfB : Frames (σ := σ) (win (idx + 1) en) (foldFeed (feed G (idx + 1) en) .idle (splitBody t.body).1) :=
                    foldFeed_feed_frames G (idx + 1) en _ .idle (by trivial)
                  obtain ⟨hl4, hB⟩ := hfB mts3 (fired t idx mts1) .idle mts4 out hl3.symm eBody
                  rw [h23] at hB
                  have hout4 := hfB.outside eBody
                  have hstart : feed (G + 1) s en .idle (Event.start tg at_) mts =
                      some (.lzy idx (preEnd t idx) 1 .idle none .idle [],
                        splice (win (idx + 1) en) mts4 (fired t idx mts1), out) := by
                    simp [feed, isStart, hsc, ht, hb', hsel, hB]
                  have hmid := lzy_dist G s en idx (preEnd t idx) [] hwi hpe.2 (evs inner) 0 0 .idle .idle none
                    mts4 (fired t idx mts1) .idle .idle mts4 mts3 innerOut [] (by trivial) (by trivial)
                    (by rw [hl4, hl3]) (closed_of_neutral hnin) eIn (by rw [selFeed_none]; simp [foldFeed])
                  rw [selFeed_none] at hmid
                  have h43 : splice (win (idx + 1) en) mts4 mts3 = mts4 :=
                    splice_eq_left hl4.symm (fun q hq => hout4 q hq)
                  rw [h43] at hmid
                  have htl : feed (G + 1) s en (.lzy idx (preEnd t idx) 1 .idle none .idle []) (Event.end_ tg) mts4 =
                      some (.idle, updRange (Event.end_ tg) s (idx + 1) 0 mts4, []) := by
                    simp [feed, stripDepth_one_end (show isEnd (Event.end_ tg) = true from rfl), selFeed_none, foldFeed,
                      postEvents]
                  have := foldFeed_cons_some hstart (foldFeed_append_some hmid (foldFeed_cons_some htl eRest))
                  rw [this]; simp
                | some sl =>
                  rw [hsel] at eBody
                  simp only at eBody
                  -- what select yields, in the three instalments START · content · END
                  have hselsplit : select sl (Event.start tg at_ :: innerOut ++ [Event.end_ tg]) =
                      (selFeed (some (sl, 0, 0)) [Event.start tg at_]).2 ++
                      ((selFeed (selFeed (some (sl, 0, 0)) [Event.start tg at_]).1 innerOut).2 ++
                       (selFeed (selFeed (selFeed (some (sl, 0, 0)) [Event.start tg at_]).1 innerOut).1 [Event.end_ tg]).2) := by
                    unfold select
                    rw [← selFeed_selM]
                    rw [show Event.start tg at_ :: innerOut ++ [Event.end_ tg] = [Event.start tg at_] ++ (innerOut ++ [Event.end_ tg]) by simp]
                    rw [selFeed_append, selFeed_append]
                  have hst1 : selFeed (some (sl, 0, 0)) [Event.start tg at_] =
                      (some (sl, (selStep sl 0 0 (Event.start tg at_)).1.1, (selStep sl 0 0 (Event.start tg at_)).1.2),
                       (selStep sl 0 0 (Event.start tg at_)).2.toList) := by
                    simp [selFeed]
                  rw [hselsplit, hst1] at eBody
                  simp only at eBody
                  generalize hst1v : (some (sl, (selStep sl 0 0 (Event.start tg at_)).1.1, (selStep sl 0 0 (Event.start tg at_)).1.2) : SelSt) = st1 at eBody
                  generalize hsS : (selStep sl 0 0 (Event.start tg at_)).2.toList = sS at eBody
                  -- cut the body's run on its own at the same places
                  rw [List.append_assoc] at eBody
                  obtain ⟨b1, x1, o1, o1', hB1, hrest1, rfl⟩ := foldFeed_append_inv eBody
                  rw [List.append_assoc] at hrest1
                  obtain ⟨b2, x2, o2, o2', hB2, hrest2, rfl⟩ := foldFeed_append_inv hrest1
                  rw [List.append_assoc] at hrest2
                  obtain ⟨b3, x3, o3, o3', hB3, hrest3, rfl⟩ := foldFeed_append_inv hrest2
                  obtain ⟨b4, x4, o4, o5, hB4, hB5, rfl⟩ := foldFeed_append_inv hrest3
                  have hwb1 := foldFeed_WF G (idx + 1) en _ .idle mts3 b1 x1 o1 (by trivial) hB1
                  have hwb2 := foldFeed_WF G (idx + 1) en _ b1 x1 b2 x2 o2 hwb1 hB2
                  have hwb3 := foldFeed_WF G (idx + 1) en _ b2 x2 b3 x3 o3 hwb2 hB3
                  have hwb4 := foldFeed_WF G (idx + 1) en _ b3 x3 b4 x4 o4 hwb3 hB4
                  have hf1 : Frames (σ := σ) (win (idx + 1) en) (foldFeed (feed G (idx + 1) en) .idle (splitBody t.body).1) :=
                    foldFeed_feed_frames G (idx + 1) en _ .idle (by trivial)
                  have hf2 : Frames (σ := σ) (win (idx + 1) en) (foldFeed (feed G (idx + 1) en) b1 sS) :=
                    foldFeed_feed_frames G (idx + 1) en _ b1 hwb1
                  have hf4 : Frames (σ := σ) (win (idx + 1) en) (foldFeed (feed G (idx + 1) en) b3 (selFeed (selFeed st1 innerOut).1 [Event.end_ tg]).2) :=
                    foldFeed_feed_frames G (idx + 1) en _ b3 hwb3
                  have hf5 : Frames (σ := σ) (win (idx + 1) en) (foldFeed (feed G (idx + 1) en) b4 (postEvents (splitBody t.body).2.2)) :=
                    foldFeed_feed_frames G (idx + 1) en _ b4 hwb4
                  have hf3 : Frames (σ := σ) (win (idx + 1) en) (foldFeed (feed G (idx + 1) en) b2 (selFeed st1 innerOut).2) :=
                    foldFeed_feed_frames G (idx + 1) en _ b2 hwb2
                  obtain ⟨hlx1, hS1⟩ := hf1 mts3 (fired t idx mts1) b1 x1 o1 hl3.symm hB1
                  rw [h23] at hS1
                  obtain ⟨hlx2, hS2⟩ := hf2 x1 (fired t idx mts1) b2 x2 o2 (by rw [hlx1, hl3]) hB2
                  have hlx3 := (hf3 x2 x2 b3 x3 o3 rfl hB3).1
                  obtain ⟨hlx4, hS4⟩ := hf4 x3 mts3 b4 x4 o4 (by rw [hlx3, hlx2, hlx1]) hB4
                  obtain ⟨hlx5, hS5⟩ := hf5 x4 mts3 .idle mts4 o5 (by rw [hlx4, hlx3, hlx2, hlx1]) hB5
                  have hstart : feed (G + 1) s en .idle (Event.start tg at_) mts =
                      some (.lzy idx (preEnd t idx) 1 .idle st1 b2 (splitBody t.body).2.2,
                        splice (win (idx + 1) en) x2 (fired t idx mts1), o1 ++ o2) := by
                    simp only [feed, isStart, ↓reduceIte, hsc, ht, hb', Bool.false_eq_true, hS1, hsel, hsS, hS2, hst1v]
                  have hmid := lzy_dist G s en idx (preEnd t idx) (splitBody t.body).2.2 hwi hpe.2 (evs inner) 0 0 .idle b2 st1
                    x2 (fired t idx mts1) .idle b3 x3 mts3 innerOut o3 (by trivial) hwb2
                    (by rw [hlx2, hlx1, hl3]) (closed_of_neutral hnin) eIn hB3
                  have hout45 : ∀ q, win (idx + 1) en q = false → mts4[q]? = mts3[q]? := by
                    intro q hq
                    rw [hf5.outside hB5 q hq, hf4.outside hB4 q hq, hf3.outside hB3 q hq, hf2.outside hB2 q hq,
                      hf1.outside hB1 q hq]
                  have h43 : splice (win (idx + 1) en) mts4 mts3 = mts4 :=
                    splice_eq_left (by rw [hlx5, hlx4, hlx3, hlx2, hlx1]) hout45
                  have htl : feed (G + 1) s en (.lzy idx (preEnd t idx) 1 .idle (selFeed st1 innerOut).1 b3 (splitBody t.body).2.2)
                      (Event.end_ tg) (splice (win (idx + 1) en) x3 mts3) =
                      some (.idle, updRange (Event.end_ tg) s (idx + 1) 0 mts4, o4 ++ o5) := by
                    simp only [feed, stripDepth_one_end (show isEnd (Event.end_ tg) = true from rfl), ↓reduceIte, hS4, hS5, h43]
                  have := foldFeed_cons_some hstart (foldFeed_append_some hmid (foldFeed_cons_some htl eRest))
                  rw [this]; simp
          | _ => simp [isStart] at hS
        · by_cases hE : isEnd e = true
          · -- a neutral stream does not start with an END
            exfalso
            have := hneu []
            cases e with
            | end_ tg => simp [track] at this
            | _ => simp [isEnd] at hE
          · simp only [run, hS, Bool.false_eq_true, ↓reduceIte, hE] at h
            obtain ⟨q, hr, rfl⟩ := emit_some h
            have hneu' : Neutral (evs rest) := by
              intro st
              have := hneu st
              rw [track_other e (by simpa using hS) (by simpa using hE)] at this
              exact this
            have e1 := ih s en rest mts q hnr' hneu' hok hr (G + 1) (by omega)
            have hstep : feed (G + 1) s en .idle e mts = some (.idle, mts, [e]) :=
              feed_idle_other (by simpa using hS) (by simpa using hE)
            rw [foldFeed_cons_some hstep e1]
            simp

end Genshi.Match

namespace Genshi.Match
open Genshi
variable {σ : Type}

/-! ### the eager filter does not read the `buffer` hint -/

def bufOn (t : MT σ) : MT σ := { t with buffered := true }

theorem test_bufOn (t : MT σ) (e : Event) (u : Bool) : (bufOn t).test e u = (bufOn (t.test e u).1, (t.test e u).2) := by
  unfold MT.test bufOn
  by_cases h : t.retired = true <;> simp [h]

theorem scanP_bufOn (e : Event) : ∀ (m : List (MT σ)) (w : Nat → Bool),
    scanP w e (m.map bufOn) = ((scanP w e m).1.map bufOn, (scanP w e m).2) := by
  intro m
  induction m with
  | nil => intro w; rfl
  | cons t ts ih =>
    intro w
    simp only [List.map_cons]
    unfold scanP
    by_cases hw : w 0 = true
    · simp only [hw, ↓reduceIte, test_bufOn]
      by_cases hf : (t.test e false).2 = true
      · simp [hf, bufOn]
      · simp [hf, ih]
    · simp [hw, ih]

theorem mapW_bufOn (e : Event) (u : Bool) : ∀ (m : List (MT σ)) (w : Nat → Bool),
    mapW w (fun t => (t.test e u).1) (m.map bufOn) = (mapW w (fun t => (t.test e u).1) m).map bufOn := by
  intro m
  induction m with
  | nil => intro w; rfl
  | cons t ts ih =>
    intro w
    simp only [List.map_cons, mapW, ih]
    congr 1
    split
    · rw [test_bufOn]
    · rfl

theorem retireAt_bufOn : ∀ (m : List (MT σ)) (idx : Nat), retireAt idx (m.map bufOn) = (retireAt idx m).map bufOn := by
  intro m
  induction m with
  | nil => intro idx; cases idx <;> rfl
  | cons t ts ih =>
    intro idx
    cases idx with
    | zero => simp [retireAt, bufOn, MT.retire]
    | succ idx => simp [retireAt, ih]

theorem fired_bufOn (t : MT σ) (idx : Nat) (m : List (MT σ)) :
    fired (bufOn t) idx (m.map bufOn) = (fired t idx m).map bufOn := by
  unfold fired
  have : (bufOn t).once = t.once := rfl
  rw [this]
  split
  · exact retireAt_bufOn m idx
  · rfl

/-- the eager filter on the list with every hint switched to "buffered" is the eager filter -/
theorem run_bufOn : ∀ (f s : Nat) (en : Option Nat) (items : List (Item σ)) (mts : List (MT σ)), NoReg items →
    run f s en items (mts.map bufOn) = (run f s en items mts).map fun r => (r.1.map bufOn, r.2) := by
  intro f
  induction f with
  | zero => intro s en items mts _; simp [run]
  | succ f ih =>
    intro s en items mts hnr
    cases items with
    | nil => simp [run]
    | cons it rest =>
      cases it with
      | reg t => exact absurd (by simp) (hnr t)
      | ev e =>
        have hnr' : NoReg rest := fun x hx => hnr x (by simp [hx])
        simp only [run]
        by_cases hS : isStart e = true
        · simp only [hS, ↓reduceIte]
          rw [scan_eq_scanP, scan_eq_scanP, scanP_bufOn]
          generalize hsc : scanP (fun p => inWindow s en (0 + p)) e mts = sc
          obtain ⟨m1, hit⟩ := sc
          cases hit with
          | none =>
            simp only [Option.map_none]
            rw [ih s en rest m1 hnr']
            cases run f s en rest m1 with
            | none => simp [emit]
            | some q => simp [emit]
          | some idx =>
            simp only [Option.map_some, Nat.zero_add, List.getElem?_map]
            cases ht : m1[idx]? with
            | none => simp
            | some t =>
              simp only [Option.map_some]
              have hpe : preEnd (bufOn t) idx = preEnd t idx := rfl
              have hbd : (bufOn t).body = t.body := rfl
              rw [fired_bufOn, hpe, hbd]
              cases hst : strip 1 rest with
              | none => simp
              | some q =>
                obtain ⟨inner, tail, rest'⟩ := q
                simp only
                obtain ⟨hrest, _, _⟩ := strip_spec rest 0 inner tail rest' hst
                have hnin : NoReg inner := fun x hx => hnr' x (by rw [hrest]; simp [hx])
                have hnre : NoReg rest' := fun x hx => hnr' x (by rw [hrest]; simp [hx])
                rw [ih s (some (preEnd t idx)) inner _ hnin]
                cases run f s (some (preEnd t idx)) inner (fired t idx m1) with
                | none => simp
                | some q3 =>
                  obtain ⟨m3, innerOut⟩ := q3
                  simp only [Option.map_some]
                  rw [ih (idx + 1) en _ m3 (noReg_evItems _)]
                  cases run f (idx + 1) en (evItems (instantiate t.body (e :: innerOut ++ [tail]))) m3 with
                  | none => simp
                  | some q4 =>
                    obtain ⟨m4, out⟩ := q4
                    simp only [Option.map_some]
                    rw [updRange_eq_mapW, mapW_bufOn, ← updRange_eq_mapW, ih s en rest' _ hnre]
                    cases run f s en rest' (updRange tail s (idx + 1) 0 m4) with
                    | none => simp
                    | some p => simp
        · simp only [hS, Bool.false_eq_true, ↓reduceIte]
          by_cases hE : isEnd e = true
          · simp only [hE, ↓reduceIte]
            rw [scanEnd_eq_mapW, mapW_bufOn, ← scanEnd_eq_mapW, ih s en rest _ hnr']
            cases run f s en rest (scanEnd e s en 0 mts) with
            | none => simp [emit]
            | some q => simp [emit]
          · simp only [hE, Bool.false_eq_true, ↓reduceIte]
            rw [ih s en rest mts hnr']
            cases run f s en rest mts with
            | none => simp [emit]
            | some q => simp [emit]

/-- `runL` on a registration-free item list is the fold of `feed` -/
theorem runL_noReg (F : Nat) : ∀ (items : List (Item σ)) (a : Auto) (m : List (MT σ)), NoReg items →
    runL F a items m = foldFeed (feed F 0 none) a (evs items) m := by
  intro items
  induction items with
  | nil => intro a m _; rfl
  | cons it rest ih =>
    intro a m hnr
    cases it with
    | reg t => exact absurd (by simp) (hnr t)
    | ev e =>
      have hnr' : NoReg rest := fun x hx => hnr x (by simp [hx])
      simp only [runL, evs_ev, foldFeed]
      cases feed F 0 none a e m with
      | none => rfl
      | some q =>
        obtain ⟨a1, m1, o1⟩ := q
        simp only
        rw [ih a1 m1 hnr']
        cases foldFeed (feed F 0 none) a1 (evs rest) m1 with
        | none => rfl
        | some q2 => rfl

end Genshi.Match
